(* Proofs/C20_proofs.v -- lemmas for property C20 (remote-write client and handler). *)
From Coq Require Import Strings.String.
From Coq Require Import ZArith List Bool Arith Lia Permutation.
From Verif Require Import Base.Str Proofs.Str_facts Model.RemoteWrite.
Import ListNotations.
Open Scope string_scope.
Open Scope list_scope.
Open Scope Z_scope.

(* ================= status classes ================= *)
Lemma quot100_eq (s k : Z) : 0 < k -> (Z.quot s 100 =? k) = (100 * k <=? s) && (s <=? 100 * k + 99).
Proof.
  intros Hk.
  pose proof (Z.quot_rem' s 100) as E.
  destruct (Z_le_dec 0 s) as [Hs|Hs].
  - pose proof (Z.rem_bound_pos s 100 Hs ltac:(lia)).
    destruct (Z.quot s 100 =? k) eqn:Q; [apply Z.eqb_eq in Q|apply Z.eqb_neq in Q]; symmetry.
    + apply andb_true_iff; split; apply Z.leb_le; lia.
    + apply andb_false_iff.
      destruct (Z_le_dec (100 * k) s); [right|left]; apply Z.leb_gt; [|lia].
      destruct (Z_le_dec s (100 * k + 99)); [|lia]. exfalso. apply Q. lia.
  - pose proof (Z.rem_bound_pos_neg s 100 ltac:(lia) ltac:(lia)).
    assert (Z.quot s 100 <= 0) by lia.
    destruct (Z.quot s 100 =? k) eqn:Q; [apply Z.eqb_eq in Q; lia|].
    symmetry. apply andb_false_iff. left. apply Z.leb_gt. lia.
Qed.

Lemma werr_eqb_eq a b : werr_eqb a b = true <-> a = b.
Proof.
  destruct a, b; simpl; split; intros H; try discriminate; try reflexivity.
  - apply Z.eqb_eq in H. subst. reflexivity.
  - inversion H. apply Z.eqb_refl.
Qed.
Lemma werr_eqb_refl a : werr_eqb a a = true.
Proof. apply werr_eqb_eq. reflexivity. Qed.
Lemma werr_eqb_false a b : a <> b -> werr_eqb a b = false.
Proof. intros H. destruct (werr_eqb a b) eqn:E; [apply werr_eqb_eq in E; contradiction|reflexivity]. Qed.

Lemma add3_0_r a : add3 a (0, 0, 0) = a.
Proof. destruct a as [[x y] z]. unfold add3. simpl. f_equal; [f_equal|]; lia. Qed.
Lemma add3_assoc a b c : add3 (add3 a b) c = add3 a (add3 b c).
Proof. unfold add3. simpl. f_equal; [f_equal|]; lia. Qed.
Lemma triple_add a b : triple (stats_add a b) = add3 (triple a) (triple b).
Proof. reflexivity. Qed.
Lemma eq3_refl a : eq3 a a = true.
Proof. unfold eq3. rewrite !Z.eqb_refl. reflexivity. Qed.
Lemma eq3_eq a b : eq3 a b = true <-> a = b.
Proof.
  destruct a as [[x y] z], b as [[x' y'] z']. unfold eq3. simpl. rewrite !andb_true_iff, !Z.eqb_eq.
  split; [intros [[-> ->] ->]; reflexivity|intros H; inversion H; auto].
Qed.

Lemma rev_cons_head {A} (o : A) (l : list A) :
  l <> [] -> exists x tl, rev l = x :: tl /\ rev (o :: l) = x :: (tl ++ [o]).
Proof.
  intros H. destruct (rev l) as [|x tl] eqn:E.
  - exfalso. apply H. rewrite <- (rev_involutive l), E. reflexivity.
  - exists x, tl. split; [reflexivity|]. simpl. rewrite E. reflexivity.
Qed.

(* ================= the attempt loop ================= *)
Local Arguments is_2xx : simpl never.
Local Arguments has_stat_header : simpl never.
Local Arguments spec_retryable : simpl never.
Local Arguments spec_after : simpl never.
Local Arguments spec_stats_of : simpl never.
Local Arguments no_data_written : simpl never.
Local Arguments triple : simpl never.
Local Arguments add3 : simpl never.
Local Arguments next_delay : simpl never.
Local Arguments stats_add : simpl never.
Local Arguments mk_request : simpl never.

Section Client.
Variable cfg : wcfg.
Variable t : mtype.
Variable jit : Z -> Z.
Hypothesis jit_nonneg : forall n, 0 <= jit n.

Definition stats_of (o : outcome) : stats :=
  match t, o with V2, OResp r => parse_stats r | _, _ => stats0 end.
Definition class (o : outcome) : aresult :=
  match o with
  | OTransport => ARetry 0 KTransport
  | OBodyErr => ATerm KBody
  | OResp r => if is_2xx o then AOk
               else if spec_retryable cfg o then ARetry (retry_after_ns r) (KStatus (r_status r))
               else ATerm (KStatus (r_status r))
  end.

Lemma attempt_class o : attempt cfg t o = (stats_of o, class o).
Proof.
  destruct o as [| |r]; [unfold stats_of; simpl; destruct t; reflexivity|unfold stats_of; simpl; destruct t; reflexivity|].
  unfold attempt, class, stats_of, is_2xx, spec_retryable.
  rewrite !quot100_eq by lia. simpl Z.mul. simpl Z.add.
  destruct ((200 <=? r_status r) && (r_status r <=? 299)); [destruct t; reflexivity|].
  destruct ((500 <=? r_status r) && (r_status r <=? 599) || c_retry429 cfg && (r_status r =? 429)); destruct t; reflexivity.
Qed.

Lemma triple_stats_of o : triple (stats_of o) = spec_stats_of t o.
Proof. unfold stats_of, spec_stats_of. destruct t, o; reflexivity. Qed.

Lemma next_delay_facts b j :
  0 <= b_dmin b -> 0 <= j ->
  0 <= fst (next_delay cfg b j) /\ b_n (snd (next_delay cfg b j)) = b_n b + 1 /\ 0 <= b_dmin (snd (next_delay cfg b j)).
Proof.
  intros Hb Hj. unfold next_delay.
  destruct (b_dmax b <=? b_dmin b) eqn:E1; simpl; [repeat split; lia|].
  apply Z.leb_gt in E1.
  destruct (b_dmax b <? c_max cfg) eqn:E2; simpl; [|repeat split; lia].
  apply Z.ltb_lt in E2. repeat split; try lia.
  unfold dbl. destruct (b_dmin b * 2 <=? c_max cfg); lia.
Qed.

Notation loop := (write_loop cfg t jit).

Lemma loop_cons o c rest b acc :
  loop ((o, c) :: rest) b acc false =
  let cb := cancel_eqb c CBefore in
  let o' := if cb then OTransport else o in
  let reqs := if cb then [] else [mk_request t (b_n b)] in
  let acc' := stats_add acc (stats_of o') in
  let cancelled2 := cb || cancel_eqb c CAfter in
  match class o' with
  | AOk => if mtype_eqb t V2 && negb (s_confirmed acc') && no_data_written acc'
           then mkRes acc' WV2Unconfirmed reqs [] else mkRes acc' WNil reqs []
  | ATerm k => mkRes acc' (werr_of k) reqs []
  | ARetry after k =>
      if negb (ongoing cfg cancelled2 b) then mkRes acc' (werr_of k) reqs []
      else let d := fst (next_delay cfg b (jit (b_n b))) in
           let b' := snd (next_delay cfg b (jit (b_n b))) in
           if cancel_eqb c CInWait then mkRes stats0 WCanceled reqs [d + after]
           else push reqs [d + after] (loop rest b' acc' cancelled2)
  end.
Proof.
  simpl. rewrite attempt_class.
  destruct (class (if cancel_eqb c CBefore then OTransport else o)); try reflexivity.
  destruct (next_delay cfg b (jit (b_n b))); reflexivity.
Qed.

(* what is known when the loop stops at the attempt (o, c) *)
Definition stop_facts (o : outcome) (c : cancel) (b : backoff) (acc : stats) (r : wres) : Prop :=
  w_reqs r = (if cancel_eqb c CBefore then [] else [mk_request t (b_n b)]) /\
  w_err r <> WExhausted /\
  (cancel_eqb c CBefore = true -> w_err r = WTransport) /\
  (w_err r = WNil -> cancel_eqb c CBefore = false /\ is_2xx o = true /\
                     (t = V2 -> has_stat_header o = true \/ no_data_written (w_stats r) = false)) /\
  (cancel_eqb c CBefore = false -> forall x, o = OResp x ->
     if is_2xx o then w_err r = WNil \/ w_err r = WV2Unconfirmed
     else w_err r = WCanceled \/ w_err r = WStatus (r_status x)) /\
  (w_err r <> WCanceled ->
     triple (w_stats r) = add3 (triple acc) (if cancel_eqb c CBefore then (0, 0, 0) else spec_stats_of t o)) /\
  (w_delays r = [] \/ exists d, w_delays r = [d] /\ cancel_eqb c CBefore = false /\ spec_after o <= d) /\
  (c = CNone -> spec_retryable cfg o = true -> ongoing cfg false b = false).

Local Arguments stats_of : simpl never.
Lemma has_stat_confirmed x : s_confirmed (parse_stats x) = has_stat_header (OResp x).
Proof. reflexivity. Qed.

Lemma is_2xx_not_retryable o : is_2xx o = true -> spec_retryable cfg o = false.
Proof.
  destruct o as [| |x]; unfold is_2xx, spec_retryable; try discriminate.
  intros H. apply andb_true_iff in H. destruct H as [A B]. apply Z.leb_le in A. apply Z.leb_le in B.
  apply orb_false_iff. split.
  - apply andb_false_iff. left. apply Z.leb_gt. lia.
  - apply andb_false_iff. right. apply Z.eqb_neq. lia.
Qed.

Lemma stop_final o c b acc e :
  cancel_eqb c CBefore = false -> e <> WExhausted -> e <> WCanceled -> e <> WNil ->
  (forall x, o = OResp x -> is_2xx o = false /\ e = WStatus (r_status x)) ->
  (c = CNone -> spec_retryable cfg o = true -> ongoing cfg false b = false) ->
  stop_facts o c b acc (mkRes (stats_add acc (stats_of o)) e [mk_request t (b_n b)] []).
Proof.
  intros Hc H1 H2 H3 H4 H5. unfold stop_facts. simpl. rewrite Hc.
  split; [reflexivity|]. split; [assumption|]. split; [discriminate|]. split; [congruence|].
  split; [|split; [intros _; rewrite triple_add, triple_stats_of; reflexivity|split; [left; reflexivity|exact H5]]].
  intros _ x Hx. destruct (H4 x Hx) as [-> ->]. right. reflexivity.
Qed.

Lemma stop_2xx x c b acc :
  cancel_eqb c CBefore = false -> is_2xx (OResp x) = true ->
  stop_facts (OResp x) c b acc
    (if mtype_eqb t V2 && negb (s_confirmed (stats_add acc (stats_of (OResp x)))) &&
        no_data_written (stats_add acc (stats_of (OResp x)))
     then mkRes (stats_add acc (stats_of (OResp x))) WV2Unconfirmed [mk_request t (b_n b)] []
     else mkRes (stats_add acc (stats_of (OResp x))) WNil [mk_request t (b_n b)] []).
Proof.
  intros Hc I2. unfold stop_facts. rewrite Hc.
  destruct (mtype_eqb t V2 && negb (s_confirmed (stats_add acc (stats_of (OResp x)))) &&
            no_data_written (stats_add acc (stats_of (OResp x)))) eqn:V; simpl.
  - split; [reflexivity|]. split; [discriminate|]. split; [discriminate|]. split; [discriminate|].
    split; [intros _ y _; rewrite I2; right; reflexivity|].
    split; [intros _; rewrite triple_add, triple_stats_of; reflexivity|].
    split; [left; reflexivity|intros _ SR; rewrite (is_2xx_not_retryable _ I2) in SR; discriminate].
  - split; [reflexivity|]. split; [discriminate|]. split; [discriminate|].
    split; [|split; [intros _ y _; rewrite I2; left; reflexivity|
             split; [intros _; rewrite triple_add, triple_stats_of; reflexivity|
             split; [left; reflexivity|intros _ SR; rewrite (is_2xx_not_retryable _ I2) in SR; discriminate]]]].
    intros _. split; [reflexivity|]. split; [assumption|].
    intros Ht. unfold stats_of in V |- *. rewrite Ht in V |- *. simpl in V.
    unfold has_stat_header.
    match type of V with negb ?e && _ = _ => destruct e end; [left; reflexivity|right; exact V].
Qed.

Lemma stop_wait o c b acc d :
  cancel_eqb c CBefore = false -> cancel_eqb c CInWait = true -> 0 <= d -> is_2xx o = false ->
  stop_facts o c b acc (mkRes stats0 WCanceled [mk_request t (b_n b)] [d + spec_after o]).
Proof.
  intros Hc Hw Hd I2. unfold stop_facts. simpl. rewrite Hc.
  split; [reflexivity|]. split; [discriminate|]. split; [discriminate|]. split; [discriminate|].
  split; [intros _ x _; rewrite I2; left; reflexivity|]. split; [congruence|].
  split; [right; eexists; split; [reflexivity|]; split; [reflexivity|lia]|].
  intros E. rewrite E in Hw. discriminate.
Qed.

Lemma stop_before o b acc :
  stop_facts o CBefore b acc (mkRes (stats_add acc (stats_of OTransport)) WTransport [] []).
Proof.
  unfold stop_facts. simpl.
  split; [reflexivity|]. split; [discriminate|]. split; [reflexivity|]. split; [discriminate|].
  split; [discriminate|]. split; [|split; [left; reflexivity|discriminate]].
  intros _. rewrite triple_add, triple_stats_of. unfold spec_stats_of. destruct t; reflexivity.
Qed.

Lemma class_2xx o : is_2xx o = true -> exists x, o = OResp x /\ class o = AOk.
Proof.
  destruct o as [| |x]; try discriminate. intros H. exists x. split; [reflexivity|]. unfold class. rewrite H. reflexivity.
Qed.

Lemma loop_step o c rest b acc :
  0 <= b_dmin b ->
  let r := loop ((o, c) :: rest) b acc false in
  (c = CNone /\ spec_retryable cfg o = true /\ is_2xx o = false /\ ongoing cfg false b = true /\
   r = push [mk_request t (b_n b)] [fst (next_delay cfg b (jit (b_n b))) + spec_after o]
            (loop rest (snd (next_delay cfg b (jit (b_n b)))) (stats_add acc (stats_of o)) false))
  \/ stop_facts o c b acc r.
Proof.
  intros Hb r. subst r. rewrite loop_cons.
  pose proof (next_delay_facts b (jit (b_n b)) Hb (jit_nonneg _)) as (Hd & _ & _).
  destruct (cancel_eqb c CBefore) eqn:CB.
  { (* the context is cancelled before the send: client.Do fails, Ongoing is false *)
    right. destruct c; try discriminate. cbv zeta. simpl class. unfold ongoing. simpl. apply stop_before. }
  cbv zeta. cbv iota.
  destruct (is_2xx o) eqn:I2.
  { right. destruct (class_2xx o I2) as (x & -> & ->). apply stop_2xx; assumption. }
  assert (Hcls : class o = ATerm (match o with OResp x => KStatus (r_status x) | _ => KBody end) \/
                 (spec_retryable cfg o = true /\
                  class o = ARetry (spec_after o) (match o with OResp x => KStatus (r_status x) | _ => KTransport end))).
  { destruct o as [| |x]; [right; split; reflexivity|left; reflexivity|].
    unfold class. rewrite I2. destruct (spec_retryable cfg (OResp x)); [right; split; reflexivity|left; reflexivity]. }
  destruct Hcls as [Hcls | [SR Hcls]]; rewrite Hcls.
  { right. apply stop_final; try assumption; try (destruct o; discriminate).
    - intros x ->. split; [assumption|reflexivity].
    - intros _ SR. exfalso. destruct o as [| |x]; try discriminate.
      unfold class in Hcls. rewrite I2, SR in Hcls. discriminate Hcls. }
  simpl orb.
  destruct (ongoing cfg (cancel_eqb c CAfter) b) eqn:On; simpl negb; cbv iota.
  - destruct (cancel_eqb c CInWait) eqn:CW.
    + right. apply stop_wait; assumption.
    + left. assert (c = CNone) as ->.
      { destruct c; try discriminate; try reflexivity; unfold ongoing in On; simpl in On; discriminate. }
      simpl in On. repeat split; auto.
  - right. apply stop_final; try assumption; try (destruct o; discriminate).
    + intros x ->. split; [assumption|reflexivity].
    + intros -> _. exact On.
Qed.


Definition nreq (r : wres) : nat := length (w_reqs r).
Definition seen_of (script : list (outcome * cancel)) (r : wres) : list outcome := map fst (firstn (nreq r) script).

Lemma nreq_push q d r : nreq (push [q] d r) = S (nreq r).
Proof. reflexivity. Qed.
Lemma seen_push o c rest q d r : seen_of ((o, c) :: rest) (push [q] d r) = o :: seen_of rest r.
Proof. reflexivity. Qed.

(* a generic induction principle over the loop: P holds of every result if it holds when the script is
   exhausted, when the loop stops, and is preserved by one more retry *)
Lemma loop_ind (P : list (outcome * cancel) -> backoff -> stats -> wres -> Prop) :
  (forall b acc, P [] b acc (mkRes acc WExhausted [] [])) ->
  (forall o c rest b acc r, 0 <= b_dmin b -> stop_facts o c b acc r -> P ((o, c) :: rest) b acc r) ->
  (forall o rest b acc r',
     0 <= b_dmin b -> spec_retryable cfg o = true -> is_2xx o = false -> ongoing cfg false b = true ->
     let d := fst (next_delay cfg b (jit (b_n b))) in
     let b' := snd (next_delay cfg b (jit (b_n b))) in
     0 <= d -> b_n b' = b_n b + 1 -> 0 <= b_dmin b' ->
     r' = loop rest b' (stats_add acc (stats_of o)) false ->
     P rest b' (stats_add acc (stats_of o)) r' ->
     P ((o, CNone) :: rest) b acc (push [mk_request t (b_n b)] [d + spec_after o] r')) ->
  forall script b acc, 0 <= b_dmin b -> P script b acc (loop script b acc false).
Proof.
  intros Hnil Hstop Hcont. induction script as [|[o c] rest IH]; intros b acc Hb.
  - apply Hnil.
  - destruct (loop_step o c rest b acc Hb) as [(-> & SR & I2 & On & Eq)|Hs].
    + rewrite Eq.
      pose proof (next_delay_facts b (jit (b_n b)) Hb (jit_nonneg _)) as (Hd & Hn & Hm).
      apply Hcont; auto.
    + apply Hstop; assumption.
Qed.

(* G1: the i-th request carries attempt number i *)
Lemma loop_requests script b acc :
  0 <= b_dmin b ->
  w_reqs (loop script b acc false) = map (mk_request t) (zseq (b_n b) (nreq (loop script b acc false))).
Proof.
  apply (loop_ind (fun script b acc r => w_reqs r = map (mk_request t) (zseq (b_n b) (nreq r)))).
  - reflexivity.
  - intros o c rest b0 acc0 r _ (Hr & _). unfold nreq. rewrite Hr. destruct (cancel_eqb c CBefore); reflexivity.
  - intros o rest b0 acc0 r' _ _ _ _ d b' _ Hn _ _ IH.
    rewrite nreq_push. simpl. f_equal. rewrite IH at 1. rewrite Hn. reflexivity.
Qed.

(* G2 *)
Lemma loop_nreq_le script b acc :
  0 <= b_dmin b -> (nreq (loop script b acc false) <= length script)%nat.
Proof.
  apply (loop_ind (fun script b acc r => (nreq r <= length script)%nat)).
  - simpl. unfold nreq. simpl. lia.
  - intros o c rest b0 acc0 r _ (Hr & _). unfold nreq. rewrite Hr. destruct (cancel_eqb c CBefore); simpl; lia.
  - intros. rewrite nreq_push. simpl. lia.
Qed.

(* G3: every answer that was followed by another request was retryable *)
Lemma loop_retryable script b acc :
  0 <= b_dmin b ->
  forallb (spec_retryable cfg) (removelast (seen_of script (loop script b acc false))) = true.
Proof.
  apply (loop_ind (fun script b acc r => forallb (spec_retryable cfg) (removelast (seen_of script r)) = true)).
  - reflexivity.
  - intros o c rest b0 acc0 r _ (Hr & _). unfold seen_of, nreq. rewrite Hr. destruct (cancel_eqb c CBefore); reflexivity.
  - intros o rest b0 acc0 r' _ SR _ _ d b' _ _ _ _ IH.
    rewrite seen_push. destruct (seen_of rest r') eqn:E; [reflexivity|].
    change (removelast (o :: o0 :: l)) with (o :: removelast (o0 :: l)). simpl forallb. rewrite SR. exact IH.
Qed.

(* G4: retry budget *)
Lemma loop_budget script b acc :
  0 <= b_dmin b -> 0 <= b_n b ->
  (0 < c_max_retries cfg -> b_n b <= c_max_retries cfg ->
   b_n b + Z.of_nat (nreq (loop script b acc false)) <= c_max_retries cfg + 1) /\
  (c_max_retries cfg < 0 -> (nreq (loop script b acc false) <= 1)%nat).
Proof.
  intros Hb. revert Hb.
  apply (loop_ind (fun script b acc r => 0 <= b_n b ->
    (0 < c_max_retries cfg -> b_n b <= c_max_retries cfg -> b_n b + Z.of_nat (nreq r) <= c_max_retries cfg + 1) /\
    (c_max_retries cfg < 0 -> (nreq r <= 1)%nat))).
  - intros. unfold nreq. simpl. lia.
  - intros o c rest b0 acc0 r _ (Hr & _) Hn. unfold nreq. rewrite Hr. destruct (cancel_eqb c CBefore); simpl; lia.
  - intros o rest b0 acc0 r' _ _ _ On d b' _ Hn _ _ IH H0.
    rewrite nreq_push. unfold ongoing in On. simpl in On.
    apply orb_true_iff in On. rewrite Z.eqb_eq, Z.ltb_lt in On.
    destruct (IH ltac:(lia)) as [IH1 IH2]. split; intros; [|lia].
    rewrite Nat2Z.inj_succ. specialize (IH1 ltac:(lia) ltac:(lia)). lia.
Qed.

(* G5: nothing is sent once the context is cancelled *)
Lemma loop_cancel script b acc :
  0 <= b_dmin b ->
  match cancel_bound script with Some j => (nreq (loop script b acc false) <= j)%nat | None => True end.
Proof.
  apply (loop_ind (fun script b acc r => match cancel_bound script with Some j => (nreq r <= j)%nat | None => True end)).
  - intros; exact I.
  - intros o c rest b0 acc0 r _ (Hr & _). unfold nreq. rewrite Hr. simpl.
    destruct c; simpl; try lia. destruct (cancel_bound rest); simpl; [lia|exact I].
  - intros o rest b0 acc0 r' _ _ _ _ d b' _ _ _ _ IH. rewrite nreq_push. simpl.
    destruct (cancel_bound rest); simpl; [lia|exact I].
Qed.

(* G11: no request at all only when the script is empty or the context was cancelled beforehand *)
Lemma loop_no_request script b acc :
  0 <= b_dmin b -> nreq (loop script b acc false) = O ->
  (script = [] /\ w_err (loop script b acc false) = WExhausted) \/
  (exists o rest, script = (o, CBefore) :: rest /\ w_err (loop script b acc false) = WTransport).
Proof.
  intros Hb. destruct script as [|[o c] rest]; [left; split; reflexivity|].
  destruct (loop_step o c rest b acc Hb) as [(-> & _ & _ & _ & Eq)|(Hr & _ & Ht & _)].
  - rewrite Eq, nreq_push. discriminate.
  - unfold nreq. rewrite Hr. destruct c; simpl; try discriminate.
    intros _. right. exists o, rest. split; [reflexivity|]. apply Ht. reflexivity.
Qed.

(* G6: nil only after a 2xx (for v2: confirmed by a statistics header, or something was written) *)
Lemma loop_nil script b acc :
  0 <= b_dmin b -> w_err (loop script b acc false) = WNil ->
  exists last tl, rev (seen_of script (loop script b acc false)) = last :: tl /\ is_2xx last = true /\
    (t = V2 -> has_stat_header last = true \/ no_data_written (w_stats (loop script b acc false)) = false).
Proof.
  apply (loop_ind (fun script b acc r => w_err r = WNil ->
    exists last tl, rev (seen_of script r) = last :: tl /\ is_2xx last = true /\
      (t = V2 -> has_stat_header last = true \/ no_data_written (w_stats r) = false))).
  - discriminate.
  - intros o c rest b0 acc0 r _ (Hr & _ & _ & Hn & _) E. destruct (Hn E) as (Hc & I2 & Hv).
    exists o, []. unfold seen_of, nreq. rewrite Hr, Hc. simpl. auto.
  - intros o rest b0 acc0 r' _ _ _ _ d b' _ _ _ _ IH E.
    destruct (IH E) as (last & tl & Hrev & I2 & Hv).
    rewrite seen_push.
    destruct (rev_cons_head o (seen_of rest r')) as (x & tl' & E1 & E2).
    { intros E0. rewrite E0 in Hrev. discriminate. }
    rewrite E1 in Hrev. inversion Hrev; subst. exists last, (tl ++ [o]). auto.
Qed.

(* G7: a 2xx never yields a status error, a non-2xx answer is reported as that status unless the context was cancelled *)
Definition status_clause (script : list (outcome * cancel)) (r : wres) : Prop :=
  match rev (seen_of script r) with
  | OResp x :: _ =>
      if is_2xx (OResp x) then w_err r = WNil \/ w_err r = WV2Unconfirmed
      else w_err r = WCanceled \/
           match nth_error script (nreq r) with
           | Some (_, CBefore) => w_err r = WTransport \/ w_err r = WStatus (r_status x)
           | _ => w_err r = WStatus (r_status x)
           end
  | _ => True
  end.

Lemma loop_status script b acc :
  0 <= b_dmin b -> w_err (loop script b acc false) <> WExhausted -> status_clause script (loop script b acc false).
Proof.
  apply (loop_ind (fun script b acc r => w_err r <> WExhausted -> status_clause script r)).
  - intros b0 acc0 H. exact I.
  - intros o c rest b0 acc0 r _ (Hr & _ & _ & _ & Hs & _) _. unfold status_clause, seen_of, nreq. rewrite Hr.
    destruct (cancel_eqb c CBefore) eqn:CB; [exact I|]. simpl.
    destruct o as [| |x]; try exact I. specialize (Hs eq_refl x eq_refl).
    destruct (is_2xx (OResp x)); [exact Hs|].
    destruct Hs as [Hs|Hs]; [left; exact Hs|right].
    destruct rest as [|[o2 c2] rest2]; [|destruct c2]; auto.
  - intros o rest b0 acc0 r' _ SR I2 _ d b' _ _ Hm Er' IH Hne.
    change (w_err (push [mk_request t (b_n b0)] [d + spec_after o] r')) with (w_err r') in Hne.
    unfold status_clause. rewrite seen_push, nreq_push.
    change (w_err (push [mk_request t (b_n b0)] [d + spec_after o] r')) with (w_err r').
    change (nth_error ((o, CNone) :: rest) (S (nreq r'))) with (nth_error rest (nreq r')).
    destruct (seen_of rest r') as [|y l] eqn:E.
    + (* the retried answer is the last one seen: the next send was prevented by a cancelled context *)
      assert (Hz : nreq r' = O).
      { unfold seen_of in E. apply map_eq_nil in E.
        destruct (nreq r') eqn:N; [reflexivity|]. exfalso.
        assert (Hl : (nreq r' <= length rest)%nat) by (rewrite Er'; apply loop_nreq_le; assumption).
        rewrite N in Hl. destruct rest; simpl in *; [lia|discriminate]. }
      assert (Hx : exists o2 rest2, rest = (o2, CBefore) :: rest2 /\ w_err r' = WTransport).
      { rewrite Er' in Hz, Hne |- *.
        destruct (loop_no_request rest b' (stats_add acc0 (stats_of o)) Hm Hz) as [[_ Hx]|Hx]; [contradiction|exact Hx]. }
      destruct Hx as (o2 & rest2 & -> & Hx).
      simpl. destruct o as [| |x]; try exact I. rewrite I2. right.
      rewrite Hz. simpl. left. exact Hx.
    + destruct (rev_cons_head o (y :: l)) as (x & tl & E1 & E2); [discriminate|].
      rewrite E2. specialize (IH Hne). unfold status_clause in IH. rewrite E, E1 in IH. exact IH.
Qed.

(* G8: the statistics returned are the sum over the answers seen (except when the wait was cancelled) *)
Lemma loop_stats script b acc :
  0 <= b_dmin b -> w_err (loop script b acc false) <> WCanceled ->
  triple (w_stats (loop script b acc false)) =
  add3 (triple acc) (sum3 (map (spec_stats_of t) (seen_of script (loop script b acc false)))).
Proof.
  apply (loop_ind (fun script b acc r => w_err r <> WCanceled ->
    triple (w_stats r) = add3 (triple acc) (sum3 (map (spec_stats_of t) (seen_of script r))))).
  - intros b0 acc0 _. simpl. rewrite add3_0_r. reflexivity.
  - intros o c rest b0 acc0 r _ (Hr & _ & _ & _ & _ & Hs & _) Hne. rewrite (Hs Hne).
    unfold seen_of, nreq. rewrite Hr. destruct (cancel_eqb c CBefore); simpl; [reflexivity|].
    unfold sum3. simpl. rewrite add3_0_r. reflexivity.
  - intros o rest b0 acc0 r' _ _ _ _ d b' _ _ _ _ IH Hne.
    rewrite seen_push. change (w_stats (push [mk_request t (b_n b0)] [d + spec_after o] r')) with (w_stats r').
    rewrite (IH Hne), triple_add, triple_stats_of, add3_assoc. reflexivity.
Qed.

(* G9: every delay is at least the Retry-After of the answer it follows *)
Lemma loop_delays script b acc :
  0 <= b_dmin b -> gaps_ok (w_delays (loop script b acc false)) (seen_of script (loop script b acc false)) = true.
Proof.
  apply (loop_ind (fun script b acc r => gaps_ok (w_delays r) (seen_of script r) = true)).
  - reflexivity.
  - intros o c rest b0 acc0 r _ (Hr & _ & _ & _ & _ & _ & Hd & _).
    destruct Hd as [->|(d & -> & Hc & Hle)]; [reflexivity|].
    unfold seen_of, nreq. rewrite Hr, Hc. simpl. apply Z.leb_le in Hle. rewrite Hle. reflexivity.
  - intros o rest b0 acc0 r' _ _ _ _ d b' Hd _ _ _ IH.
    rewrite seen_push. change (w_delays (push [mk_request t (b_n b0)] [d + spec_after o] r')) with ((d + spec_after o) :: w_delays r').
    simpl. rewrite IH. replace (spec_after o <=? d + spec_after o) with true; [reflexivity|].
    symmetry. apply Z.leb_le. lia.
Qed.


(* G12: with no cancellation in the script the loop stops after a retryable answer only when the retries are used up
   (or the script ends) *)
Lemma loop_continues script b acc :
  0 <= b_dmin b -> cancel_bound script = None ->
  forall last tl, rev (seen_of script (loop script b acc false)) = last :: tl ->
  spec_retryable cfg last = true ->
  (c_max_retries cfg = 0 \/ b_n b + Z.of_nat (nreq (loop script b acc false)) <= c_max_retries cfg) ->
  nreq (loop script b acc false) = length script.
Proof.
  apply (loop_ind (fun script b acc r => cancel_bound script = None ->
    forall last tl, rev (seen_of script r) = last :: tl -> spec_retryable cfg last = true ->
    (c_max_retries cfg = 0 \/ b_n b + Z.of_nat (nreq r) <= c_max_retries cfg) -> nreq r = length script)).
  - intros b0 acc0 _ last tl H. discriminate H.
  - intros o c rest b0 acc0 r _ (Hr & _ & _ & _ & _ & _ & _ & Hon) Hcb last tl Hrev SR Hbud.
    assert (c = CNone) as -> by (destruct c; simpl in Hcb; try discriminate; reflexivity).
    unfold seen_of, nreq in *. rewrite Hr in *. simpl in Hrev. inversion Hrev; subst.
    specialize (Hon eq_refl SR). unfold ongoing in Hon. simpl in Hon, Hbud.
    apply orb_false_iff in Hon. destruct Hon as [H0 H1]. apply Z.eqb_neq in H0. apply Z.ltb_ge in H1. lia.
  - intros o rest b0 acc0 r' _ SRo _ _ d b' _ Hn Hm Er' IH Hcb last tl Hrev SR Hbud.
    assert (Hcb' : cancel_bound rest = None) by (simpl in Hcb; destruct (cancel_bound rest); [discriminate|reflexivity]).
    rewrite nreq_push in *. rewrite seen_push in Hrev. simpl length. f_equal.
    destruct (seen_of rest r') as [|y l] eqn:E.
    + assert (Hz : nreq r' = O).
      { unfold seen_of in E. apply map_eq_nil in E.
        destruct (nreq r') eqn:N; [reflexivity|]. exfalso.
        assert (Hl : (nreq r' <= length rest)%nat) by (rewrite Er'; apply loop_nreq_le; assumption).
        rewrite N in Hl. destruct rest; simpl in *; [lia|discriminate]. }
      rewrite Hz. rewrite Er' in Hz.
      destruct (loop_no_request rest b' (stats_add acc0 (stats_of o)) Hm Hz) as [[-> _]|(o2 & rest2 & -> & _)]; [reflexivity|].
      simpl in Hcb'. discriminate.
    + destruct (rev_cons_head o (y :: l)) as (x & tl' & E1 & E2); [discriminate|].
      rewrite E2 in Hrev. inversion Hrev; subst.
      apply (IH Hcb' last tl' E1 SR). destruct Hbud as [H0|H1]; [left; exact H0|right].
      rewrite Nat2Z.inj_succ in H1. lia.
Qed.

End Client.

(* ================= theorems about Write ================= *)
Lemma add3_0_l a : add3 (0, 0, 0) a = a.
Proof. destruct a as [[x y] z]. reflexivity. Qed.

Lemma write_is_loop cfg ty k jit script t :
  validate ty = Some t -> marshals k = true ->
  write cfg ty k jit script = write_loop cfg t jit script (bo_new cfg) stats0 false.
Proof. intros V M. unfold write. rewrite V. destruct k; try discriminate; reflexivity. Qed.

Lemma nth_error_firstn_lt {A} (n : nat) (l : list A) (i : nat) :
  (i < n)%nat -> nth_error (firstn n l) i = nth_error l i.
Proof.
  revert l i. induction n; intros l i H; [lia|].
  destruct l; [destruct i; reflexivity|]. destruct i; [reflexivity|]. simpl. apply IHn. lia.
Qed.
Lemma nth_error_removelast {A} (l : list A) (i : nat) :
  (S i < length l)%nat -> nth_error (removelast l) i = nth_error l i.
Proof.
  revert i. induction l as [|x l IH]; intros i H; [simpl in H; lia|].
  destruct l as [|y l]; [simpl in H; lia|].
  change (removelast (x :: y :: l)) with (x :: removelast (y :: l)).
  destruct i; [reflexivity|]. simpl nth_error. apply IH. simpl in *. lia.
Qed.

Section WriteTheorems.
Variables (cfg : wcfg) (ty : str) (k : msgkind) (jit : Z -> Z) (script : list (outcome * cancel)) (t : mtype).
Hypothesis min_nonneg : 0 <= c_min cfg.
Hypothesis jit_nonneg : forall n, 0 <= jit n.
Hypothesis type_valid : validate ty = Some t.
Hypothesis msg_marshals : marshals k = true.

Let m := write cfg ty k jit script.
Let seen := map fst (firstn (length (w_reqs m)) script).

Lemma m_loop : m = write_loop cfg t jit script (bo_new cfg) stats0 false.
Proof. apply write_is_loop; assumption. Qed.
Lemma bo_new_ok : 0 <= b_dmin (bo_new cfg).
Proof. exact min_nonneg. Qed.

Lemma retry_only_retryable_lemma :
  forall i o c, nth_error script i = Some (o, c) -> (S i < length (w_reqs m))%nat -> spec_retryable cfg o = true.
Proof.
  intros i o c Hn Hi.
  pose proof (loop_retryable cfg t jit jit_nonneg script (bo_new cfg) stats0 bo_new_ok) as H.
  rewrite <- m_loop in H. unfold seen_of, nreq in H.
  rewrite forallb_forall in H. apply H.
  apply nth_error_In with (n := i).
  rewrite nth_error_removelast.
  - rewrite nth_error_map, nth_error_firstn_lt by lia. rewrite Hn. reflexivity.
  - rewrite map_length, firstn_length.
    pose proof (loop_nreq_le cfg t jit jit_nonneg script (bo_new cfg) stats0 bo_new_ok) as Hl.
    rewrite <- m_loop in Hl. unfold nreq in Hl. lia.
Qed.

Lemma never_retries_terminal_lemma :
  forall i o c, nth_error script i = Some (o, c) -> (i < length (w_reqs m))%nat -> spec_retryable cfg o = false ->
  length (w_reqs m) = S i.
Proof.
  intros i o c Hn Hi Hr.
  destruct (Nat.eq_dec (length (w_reqs m)) (S i)) as [E|E]; [exact E|].
  assert (H : (S i < length (w_reqs m))%nat) by lia.
  rewrite (retry_only_retryable_lemma i o c Hn H) in Hr. discriminate.
Qed.

Lemma at_most_max_retries_lemma :
  (0 < c_max_retries cfg -> Z.of_nat (length (w_reqs m)) <= c_max_retries cfg + 1) /\
  (c_max_retries cfg < 0 -> (length (w_reqs m) <= 1)%nat).
Proof.
  pose proof (loop_budget cfg t jit jit_nonneg script (bo_new cfg) stats0 bo_new_ok ltac:(simpl; lia)) as [H1 H2].
  rewrite <- m_loop in H1, H2. unfold nreq in *. simpl in H1. split; intros; [apply H1; lia|apply H2; lia].
Qed.

Lemma retry_attempt_header_lemma :
  w_reqs m = map (mk_request t) (zseq 0 (length (w_reqs m))).
Proof.
  pose proof (loop_requests cfg t jit jit_nonneg script (bo_new cfg) stats0 bo_new_ok) as H.
  rewrite <- m_loop in H. exact H.
Qed.

Lemma no_send_after_cancel_lemma :
  match cancel_bound script with Some j => (length (w_reqs m) <= j)%nat | None => True end.
Proof.
  pose proof (loop_cancel cfg t jit jit_nonneg script (bo_new cfg) stats0 bo_new_ok) as H.
  rewrite <- m_loop in H. exact H.
Qed.

Lemma nil_only_after_2xx_lemma :
  w_err m = WNil ->
  exists last tl, rev seen = last :: tl /\ is_2xx last = true /\
    (t = V2 -> has_stat_header last = true \/ no_data_written (w_stats m) = false).
Proof.
  pose proof (loop_nil cfg t jit jit_nonneg script (bo_new cfg) stats0 bo_new_ok) as H.
  rewrite <- m_loop in H. exact H.
Qed.

Lemma stats_accumulate_lemma :
  w_err m <> WCanceled -> triple (w_stats m) = sum3 (map (spec_stats_of t) seen).
Proof.
  intros Hne.
  pose proof (loop_stats cfg t jit jit_nonneg script (bo_new cfg) stats0 bo_new_ok) as H.
  rewrite <- m_loop in H. rewrite (H Hne). apply add3_0_l.
Qed.

Lemma retry_after_honoured_lemma : gaps_ok (w_delays m) seen = true.
Proof.
  pose proof (loop_delays cfg t jit jit_nonneg script (bo_new cfg) stats0 bo_new_ok) as H.
  rewrite <- m_loop in H. exact H.
Qed.

Lemma status_reported_lemma : w_err m <> WExhausted -> status_clause script m.
Proof.
  pose proof (loop_status cfg t jit jit_nonneg script (bo_new cfg) stats0 bo_new_ok) as H.
  rewrite <- m_loop in H. exact H.
Qed.

Lemma spec_headers_mk i : 0 <= i -> spec_headers_ok t i (mk_request t i) = true.
Proof.
  intros Hi. unfold spec_headers_ok, mk_request. simpl q_cenc. simpl q_ctype. simpl q_version. simpl q_retry.
  assert (E : opt_str_eqb (if 0 <? i then Some (decimal i) else None) (if i =? 0 then None else Some (decimal i)) = true).
  { destruct (0 <? i) eqn:A; destruct (i =? 0) eqn:B; simpl; try reflexivity.
    - apply Z.ltb_lt in A. apply Z.eqb_eq in B. lia.
    - apply str_eqb_refl.
    - apply Z.ltb_ge in A. apply Z.eqb_neq in B. lia. }
  rewrite E. destruct t; vm_compute; reflexivity.
Qed.

Lemma reqs_ok_zseq n : forall i, 0 <= i ->
  reqs_ok t i (map (fun q => mkOReq q true) (map (mk_request t) (zseq i n))) = true.
Proof.
  induction n; intros i Hi; [reflexivity|].
  simpl. rewrite spec_headers_mk by assumption. simpl. apply IHn. lia.
Qed.

Lemma write_model_satisfies_spec_lemma :
  w_err m <> WExhausted -> spec_write_ok cfg ty k script (obs_of m) = true.
Proof.
  intros Hex. unfold spec_write_ok. rewrite type_valid.
  assert (Hlen : length (ob_reqs (obs_of m)) = length (w_reqs m)) by (simpl; apply map_length).
  rewrite Hlen. fold seen.
  replace (match k with MNotProto | MMarshalErr => _ | _ => _ end) with
    (let n := length (w_reqs m) in
     reqs_ok t 0 (ob_reqs (obs_of m)) && (n <=? length script)%nat &&
     forallb (spec_retryable cfg) (removelast seen) &&
     (if 0 <? c_max_retries cfg then Z.of_nat n <=? c_max_retries cfg + 1
      else if c_max_retries cfg <? 0 then (n <=? 1)%nat else true) &&
     match cancel_bound script with Some j => (n <=? j)%nat | None => true end &&
     (if werr_eqb (ob_err (obs_of m)) WNil
      then match rev seen with
           | last :: _ => is_2xx last && match t with
                                         | V2 => has_stat_header last || negb (eq3 (ob_samples (obs_of m), ob_hist (obs_of m), ob_exem (obs_of m)) (0, 0, 0))
                                         | V1 => true
                                         end
           | [] => false
           end
      else true) &&
     match rev seen with
     | OResp r :: _ =>
         if is_2xx (OResp r) then werr_eqb (ob_err (obs_of m)) WNil || werr_eqb (ob_err (obs_of m)) WV2Unconfirmed
         else if werr_eqb (ob_err (obs_of m)) WCanceled then true
         else match nth_error script n with
              | Some (_, CBefore) => werr_eqb (ob_err (obs_of m)) WTransport || werr_eqb (ob_err (obs_of m)) (WStatus (r_status r))
              | _ => werr_eqb (ob_err (obs_of m)) (WStatus (r_status r))
              end
     | _ => true
     end &&
     (if werr_eqb (ob_err (obs_of m)) WCanceled then true
      else eq3 (ob_samples (obs_of m), ob_hist (obs_of m), ob_exem (obs_of m)) (sum3 (map (spec_stats_of t) seen))) &&
     gaps_ok (ob_gaps (obs_of m)) seen &&
     must_continue cfg script n seen)
    by (destruct k; try discriminate; reflexivity).
  cbv zeta. change (ob_err (obs_of m)) with (w_err m). change (ob_gaps (obs_of m)) with (w_delays m).
  change (ob_samples (obs_of m), ob_hist (obs_of m), ob_exem (obs_of m)) with (triple (w_stats m)).
  repeat (apply andb_true_iff; split).
  - simpl ob_reqs. rewrite retry_attempt_header_lemma. apply reqs_ok_zseq. lia.
  - apply Nat.leb_le.
    pose proof (loop_nreq_le cfg t jit jit_nonneg script (bo_new cfg) stats0 bo_new_ok) as Hl.
    rewrite <- m_loop in Hl. exact Hl.
  - pose proof (loop_retryable cfg t jit jit_nonneg script (bo_new cfg) stats0 bo_new_ok) as H.
    rewrite <- m_loop in H. exact H.
  - destruct at_most_max_retries_lemma as [H1 H2].
    destruct (0 <? c_max_retries cfg) eqn:A.
    + apply Z.leb_le. apply H1. apply Z.ltb_lt. exact A.
    + destruct (c_max_retries cfg <? 0) eqn:B; [|reflexivity]. apply Nat.leb_le. apply H2. apply Z.ltb_lt. exact B.
  - pose proof no_send_after_cancel_lemma as H. destruct (cancel_bound script); [apply Nat.leb_le; exact H|reflexivity].
  - destruct (werr_eqb (w_err m) WNil) eqn:E; [|reflexivity]. apply werr_eqb_eq in E.
    destruct (nil_only_after_2xx_lemma E) as (last & tl & -> & I2 & Hv). rewrite I2. simpl.
    destruct t eqn:Et; [reflexivity|]. destruct (Hv eq_refl) as [->|Hn]; [reflexivity|].
    apply orb_true_iff. right. apply negb_true_iff.
    destruct (eq3 (triple (w_stats m)) (0, 0, 0)) eqn:Q; [|reflexivity].
    apply eq3_eq in Q. unfold no_data_written in Hn. unfold triple in Q. inversion Q as [[Q1 Q2 Q3]].
    apply Z.eqb_neq in Hn. lia.
  - pose proof (status_reported_lemma Hex) as H. unfold status_clause, seen_of, nreq in H. fold seen in H.
    destruct (rev seen) as [|[| |x] tl]; try reflexivity.
    destruct (is_2xx (OResp x)).
    + destruct H as [->| ->]; reflexivity.
    + destruct (werr_eqb (w_err m) WCanceled) eqn:C; [reflexivity|].
      destruct H as [H|H]; [rewrite H in C; discriminate|].
      destruct (nth_error script (length (w_reqs m))) as [[o c]|].
      * destruct c; try (rewrite H; apply werr_eqb_refl).
        destruct H as [-> | ->]; [reflexivity|]. rewrite werr_eqb_refl. apply orb_true_r.
      * rewrite H. apply werr_eqb_refl.
  - destruct (werr_eqb (w_err m) WCanceled) eqn:C; [reflexivity|].
    rewrite stats_accumulate_lemma; [apply eq3_refl|].
    intros E. rewrite E in C. discriminate.
  - apply retry_after_honoured_lemma.
  - unfold must_continue.
    destruct (cancel_bound script) eqn:CB; [reflexivity|].
    destruct (rev seen) as [|last tl] eqn:Rv; [reflexivity|].
    destruct (spec_retryable cfg last && ((c_max_retries cfg =? 0) || (Z.of_nat (length (w_reqs m)) <=? c_max_retries cfg))) eqn:G;
      [|reflexivity].
    apply andb_true_iff in G. destruct G as [SR G]. apply Nat.eqb_eq.
    pose proof (loop_continues cfg t jit jit_nonneg script (bo_new cfg) stats0 bo_new_ok CB) as H.
    rewrite <- m_loop in H. unfold seen_of, nreq in H. fold seen in H.
    apply (H last tl Rv SR). simpl.
    apply orb_true_iff in G. destruct G as [G|G]; [left; apply Z.eqb_eq; exact G|right; apply Z.leb_le; exact G].
Qed.

Lemma retries_while_alive_lemma :
  cancel_bound script = None ->
  forall last tl, rev seen = last :: tl -> spec_retryable cfg last = true ->
  (c_max_retries cfg = 0 \/ Z.of_nat (length (w_reqs m)) <= c_max_retries cfg) ->
  length (w_reqs m) = length script.
Proof.
  intros CB last tl Rv SR Hb.
  pose proof (loop_continues cfg t jit jit_nonneg script (bo_new cfg) stats0 bo_new_ok CB) as H.
  rewrite <- m_loop in H. unfold seen_of, nreq in H. fold seen in H. apply (H last tl Rv SR). simpl. exact Hb.
Qed.

End WriteTheorems.

(* calls that never reach the network *)
Lemma write_invalid_type_lemma cfg ty k jit script :
  validate ty = None -> write cfg ty k jit script = mkRes stats0 WValidate [] [].
Proof. intros V. unfold write. rewrite V. reflexivity. Qed.

(* MaxRetries = 0 means "no limit": any number of retryable answers is retried *)
Definition r503 : outcome := OResp (mkResp 503 [] [] [] [] None).
Definition r200 : outcome := OResp (mkResp 200 (of_string "1") [] [] [] None).
Lemma loop_unbounded cfg t jit n : forall b acc,
  c_max_retries cfg = 0 ->
  length (w_reqs (write_loop cfg t jit (repeat (r503, CNone) n ++ [(r200, CNone)]) b acc false)) = S n.
Proof.
  induction n; intros b acc HM.
  - simpl repeat. simpl app. rewrite loop_cons. simpl.
    destruct (mtype_eqb t V2 && _ && _); reflexivity.
  - simpl repeat. rewrite <- app_comm_cons. rewrite loop_cons. cbv zeta. simpl cancel_eqb. cbv iota.
    change (class cfg r503) with (ARetry (retry_after_ns (mkResp 503 [] [] [] [] None)) (KStatus 503)).
    cbv iota. unfold ongoing. rewrite HM. simpl negb. cbv iota.
    change (length (w_reqs (push ?q ?d ?r))) with (S (length (w_reqs r))).
    simpl. f_equal. apply IHn. exact HM.
Qed.

(* ================= pooled buffers: a buffer in use has exactly one owner ================= *)
Section PoolProofs.
Local Open Scope nat_scope.
Variable msg : Type.
Variable enc : msg -> str.
Variable compress : str -> str.
Variable max_enc_len : nat -> nat.
Variable cap0 : nat.
Variable msg_of : nat -> msg.
Variable path_of : nat -> mpath.
Variable early_of : nat -> bool.

Notation step := (pstep msg enc compress max_enc_len cap0 msg_of path_of early_of).
Notation run := (prun msg enc compress max_enc_len cap0 msg_of path_of early_of).

Lemma firstn_app_exact {A} (l r : list A) : firstn (length l) (l ++ r) = l.
Proof. induction l; simpl; [reflexivity|f_equal; assumption]. Qed.

(* all three marshalling paths leave exactly the encoding in the buffer, whatever it held before *)
Lemma bytes_marshal_into p data b : bytes (marshal_into p data b) = data.
Proof.
  destruct p; unfold marshal_into, marshal_sized, marshal_append, bytes, overwrite.
  - destruct (length (b_arr b) <? length data); simpl; apply firstn_app_exact.
  - destruct (length (b_arr b) <? length data); simpl; apply firstn_app_exact.
  - destruct (length data <=? length (b_arr b)); simpl; [apply firstn_app_exact|apply firstn_all].
Qed.

Lemma payload_compress_into inp b :
  firstn (snd (compress_into compress max_enc_len inp b)) (b_arr (fst (compress_into compress max_enc_len inp b))) = compress inp.
Proof. unfold compress_into, overwrite. simpl. apply firstn_app_exact. Qed.


Definition pc_ok (heap : nat -> buffer) (t : nat) (w : wthread) : Prop :=
  match t_pc w with
  | PcStart | PcDone => t_buf w = None /\ t_cbuf w = None
  | PcGot1 | PcPut1 => (exists id, t_buf w = Some id) /\ t_cbuf w = None
  | PcMarshalled => (exists id, t_buf w = Some id /\ bytes (heap id) = enc (msg_of t)) /\ t_cbuf w = None
  | PcGot2 => (exists id, t_buf w = Some id /\ bytes (heap id) = enc (msg_of t)) /\ (exists cid, t_cbuf w = Some cid)
  | PcSending => (exists id, t_buf w = Some id) /\
                 (exists cid, t_cbuf w = Some cid /\ firstn (t_plen w) (b_arr (heap cid)) = compress (enc (msg_of t)))
  end.

Record Inv (st : pstate) : Prop := mkInv {
  i_nodup : NoDup (p_pool st);
  i_pool : forall id, In id (p_pool st) -> id < p_next st;
  i_holds : forall t id, holds st t id -> id < p_next st /\ ~ In id (p_pool st);
  i_uniq : forall t t' id, holds st t id -> holds st t' id -> t = t';
  i_distinct : forall t id, t_buf (p_thr st t) = Some id -> t_cbuf (p_thr st t) <> Some id;
  i_pc : forall t, pc_ok (p_heap st) t (p_thr st t);
  i_wire : forall t bs, In (t, bs) (p_wire st) -> bs = compress (enc (msg_of t)) }.

Lemma pc_ok_frame heap heap' t w :
  (forall x, t_buf w = Some x \/ t_cbuf w = Some x -> heap' x = heap x) -> pc_ok heap t w -> pc_ok heap' t w.
Proof.
  intros F. unfold pc_ok. destruct (t_pc w); intros H; try exact H.
  - destruct H as [(id & Hb & Hy) Hc]. split; [|exact Hc]. exists id. split; [exact Hb|]. rewrite F by auto. exact Hy.
  - destruct H as [(id & Hb & Hy) Hc]. split; [|exact Hc]. exists id. split; [exact Hb|]. rewrite F by auto. exact Hy.
  - destruct H as [Hb (cid & Hc & Hy)]. split; [exact Hb|]. exists cid. split; [exact Hc|]. rewrite F by auto. exact Hy.
Qed.

Lemma upd_same {A} (f : nat -> A) k v : upd f k v k = v.
Proof. unfold upd. rewrite Nat.eqb_refl. reflexivity. Qed.
Lemma upd_other {A} (f : nat -> A) k v x : x <> k -> upd f k v x = f x.
Proof. intros H. unfold upd. apply Nat.eqb_neq in H. rewrite H. reflexivity. Qed.

Lemma remove_nth_facts {A} (l : list A) : forall n x,
  nth_error l n = Some x -> NoDup l ->
  NoDup (remove_nth l n) /\ ~ In x (remove_nth l n) /\ (forall y, In y (remove_nth l n) -> In y l).
Proof.
  induction l as [|a l IH]; intros n x Hn Hd; [destruct n; discriminate|].
  inversion Hd as [|a' l' Ha Hd']; subst.
  destruct n; simpl in *.
  - inversion Hn; subst. repeat split; auto.
  - destruct (IH n x Hn Hd') as (H1 & H2 & H3). repeat split.
    + constructor; [|exact H1]. intros Hin. apply Ha. apply H3. exact Hin.
    + intros [->|Hin]; [|exact (H2 Hin)]. apply Ha. eapply nth_error_In. exact Hn.
    + intros y [->|Hin]; [left; reflexivity|right; apply H3; exact Hin].
Qed.

(* sync.Pool.Get hands out a buffer nobody references *)
Lemma pool_get_spec st c id st1 :
  Inv st -> pool_get cap0 st c = (id, st1) ->
  p_thr st1 = p_thr st /\ p_wire st1 = p_wire st /\ NoDup (p_pool st1) /\
  (forall x, In x (p_pool st1) -> x < p_next st1) /\ ~ In id (p_pool st1) /\ id < p_next st1 /\
  (forall t, ~ holds st t id) /\ (forall x, In x (p_pool st1) -> In x (p_pool st)) /\
  p_next st <= p_next st1 /\ (forall t x, holds st t x -> p_heap st1 x = p_heap st x).
Proof.
  intros I. unfold pool_get. destruct (nth_error (p_pool st) c) as [y|] eqn:E; intros Q; inversion Q; subst; clear Q; simpl.
  - destruct (remove_nth_facts (p_pool st) c id E (i_nodup st I)) as (H1 & H2 & H3).
    pose proof (nth_error_In _ _ E) as Hin.
    repeat split; auto.
    + intros x Hx. apply (i_pool st I). apply H3. exact Hx.
    + apply (i_pool st I). exact Hin.
    + intros t Ht. apply (i_holds st I) in Ht. tauto.
  - repeat split; auto.
    + apply (i_nodup st I).
    + intros x Hx. apply (i_pool st I) in Hx. lia.
    + intros Hin. apply (i_pool st I) in Hin. lia.
    + intros t Ht. apply (i_holds st I) in Ht. lia.
    + intros t x Ht. apply (i_holds st I) in Ht. apply upd_other. lia.
Qed.

Lemma inv_after_get st st1 t id w' :
  Inv st ->
  p_thr st1 = p_thr st -> p_wire st1 = p_wire st -> NoDup (p_pool st1) ->
  (forall x, In x (p_pool st1) -> x < p_next st1) -> ~ In id (p_pool st1) -> id < p_next st1 ->
  (forall t, ~ holds st t id) -> (forall x, In x (p_pool st1) -> In x (p_pool st)) ->
  p_next st <= p_next st1 -> (forall t x, holds st t x -> p_heap st1 x = p_heap st x) ->
  (forall x, t_buf w' = Some x \/ t_cbuf w' = Some x -> x = id \/ holds st t x) ->
  (forall x, t_buf w' = Some x -> t_cbuf w' <> Some x) ->
  pc_ok (p_heap st1) t w' ->
  Inv (set_thr st1 t w').
Proof.
  intros I Ht Hw Hnd Hp Hid Hlt Hfree Hsub Hnext Hheap Hw' Hdist Hpc.
  assert (Hh : forall t' x, holds (set_thr st1 t w') t' x ->
                 (t' = t /\ (x = id \/ holds st t x)) \/ (t' <> t /\ holds st t' x)).
  { intros t' x H. unfold holds, set_thr in H. simpl in H.
    destruct (Nat.eq_dec t' t) as [->|Hne].
    - left. split; [reflexivity|]. rewrite upd_same in H. apply Hw'. exact H.
    - right. split; [exact Hne|]. rewrite upd_other in H by exact Hne. rewrite Ht in H. exact H. }
  constructor; simpl.
  - exact Hnd.
  - exact Hp.
  - intros t' x H. destruct (Hh t' x H) as [[_ [->|Hs]]|[_ Hs]].
    + split; assumption.
    + apply (i_holds st I) in Hs. split; [lia|]. intros Hin. apply Hs. apply Hsub. exact Hin.
    + apply (i_holds st I) in Hs. split; [lia|]. intros Hin. apply Hs. apply Hsub. exact Hin.
  - intros t1 t2 x H1 H2.
    destruct (Hh t1 x H1) as [[-> A]|[N1 A]]; destruct (Hh t2 x H2) as [[-> B]|[N2 B]]; try reflexivity.
    + destruct A as [->|A]; [exfalso; exact (Hfree _ B)|]. exact (i_uniq st I _ _ _ A B).
    + destruct B as [->|B]; [exfalso; exact (Hfree _ A)|]. exact (i_uniq st I _ _ _ A B).
    + exact (i_uniq st I _ _ _ A B).
  - intros t' x. destruct (Nat.eq_dec t' t) as [->|Hne].
    + rewrite upd_same. apply Hdist.
    + rewrite upd_other by exact Hne. rewrite Ht. apply (i_distinct st I).
  - intros t'. destruct (Nat.eq_dec t' t) as [->|Hne].
    + rewrite upd_same. exact Hpc.
    + rewrite upd_other by exact Hne. rewrite Ht.
      apply pc_ok_frame with (heap := p_heap st); [|apply (i_pc st I)].
      intros x Hx. apply (Hheap t'). exact Hx.
  - rewrite Hw. apply (i_wire st I).
Qed.

Lemma inv_after_put st t id w' :
  Inv st -> holds st t id ->
  (forall x, t_buf w' = Some x \/ t_cbuf w' = Some x -> holds st t x /\ x <> id) ->
  (forall x, t_buf w' = Some x -> t_cbuf w' <> Some x) ->
  pc_ok (p_heap st) t w' ->
  Inv (set_thr (pool_put st id) t w').
Proof.
  intros I Hid Hw' Hdist Hpc.
  assert (Hh : forall t' x, holds (set_thr (pool_put st id) t w') t' x -> holds st t' x /\ x <> id).
  { intros t' x H. unfold holds, set_thr in H. simpl in H.
    destruct (Nat.eq_dec t' t) as [->|Hne].
    - rewrite upd_same in H. apply Hw'. exact H.
    - rewrite upd_other in H by exact Hne. split; [exact H|].
      intros ->. apply Hne. exact (i_uniq st I _ _ _ H Hid). }
  destruct (i_holds st I _ _ Hid) as [Hlt Hnin].
  constructor; simpl.
  - constructor; [exact Hnin|apply (i_nodup st I)].
  - intros x [<-|Hx]; [exact Hlt|apply (i_pool st I); exact Hx].
  - intros t' x H. destruct (Hh t' x H) as [Hs Hne]. destruct (i_holds st I _ _ Hs) as [A B].
    split; [exact A|]. intros [E|Hin]; [apply Hne; symmetry; exact E|exact (B Hin)].
  - intros t1 t2 x H1 H2. destruct (Hh _ _ H1) as [A _]. destruct (Hh _ _ H2) as [B _]. exact (i_uniq st I _ _ _ A B).
  - intros t' x. destruct (Nat.eq_dec t' t) as [->|Hne].
    + rewrite upd_same. apply Hdist.
    + rewrite upd_other by exact Hne. apply (i_distinct st I).
  - intros t'. destruct (Nat.eq_dec t' t) as [->|Hne].
    + rewrite upd_same. exact Hpc.
    + rewrite upd_other by exact Hne. apply (i_pc st I).
  - apply (i_wire st I).
Qed.

Lemma inv_after_heap st t id b' w' :
  Inv st -> holds st t id ->
  t_buf w' = t_buf (p_thr st t) -> t_cbuf w' = t_cbuf (p_thr st t) ->
  pc_ok (upd (p_heap st) id b') t w' ->
  Inv (set_thr (set_heap st id b') t w').
Proof.
  intros I Hid Hb Hc Hpc.
  assert (Hh : forall t' x, holds (set_thr (set_heap st id b') t w') t' x <-> holds st t' x).
  { intros t' x. unfold holds, set_thr. simpl. destruct (Nat.eq_dec t' t) as [->|Hne].
    - rewrite upd_same, Hb, Hc. tauto.
    - rewrite upd_other by exact Hne. tauto. }
  constructor; simpl.
  - apply (i_nodup st I).
  - apply (i_pool st I).
  - intros t' x H. apply Hh in H. exact (i_holds st I _ _ H).
  - intros t1 t2 x H1 H2. apply Hh in H1. apply Hh in H2. exact (i_uniq st I _ _ _ H1 H2).
  - intros t' x. destruct (Nat.eq_dec t' t) as [->|Hne].
    + rewrite upd_same, Hb, Hc. apply (i_distinct st I).
    + rewrite upd_other by exact Hne. apply (i_distinct st I).
  - intros t'. destruct (Nat.eq_dec t' t) as [->|Hne].
    + rewrite upd_same. exact Hpc.
    + rewrite upd_other by exact Hne.
      apply pc_ok_frame with (heap := p_heap st); [|apply (i_pc st I)].
      intros x Hx. apply upd_other. intros ->. apply Hne. exact (i_uniq st I _ _ _ Hx Hid).
  - apply (i_wire st I).
Qed.

Lemma inv_init : Inv (init cap0).
Proof.
  constructor; simpl.
  - constructor.
  - intros id [].
  - intros t id [H|H]; discriminate.
  - intros t t' id [H|H]; discriminate.
  - intros t id H; discriminate.
  - intros t. unfold pc_ok. simpl. split; reflexivity.
  - intros t bs [].
Qed.

Lemma step_preserves st t c st' : Inv st -> step st t c = Some st' -> Inv st'.
Proof.
  intros I. unfold pstep. pose proof (i_pc st I t) as Hpc. unfold pc_ok in Hpc.
  destruct (t_pc (p_thr st t)) eqn:PC.
  - (* Get buf *)
    destruct Hpc as [Hb Hc].
    destruct (pool_get cap0 st c) as [id st1] eqn:G. intros Q; inversion Q; subst; clear Q.
    destruct (pool_get_spec st c id st1 I G) as (A1 & A2 & A3 & A4 & A5 & A6 & A7 & A8 & A9 & A10).
    apply (inv_after_get st st1 t id); auto.
    + simpl. intros x [H|H]; [inversion H; left; reflexivity|discriminate].
    + simpl. intros x _. discriminate.
    + unfold pc_ok. simpl. split; [exists id; reflexivity|reflexivity].
  - (* marshal, or early return *)
    destruct Hpc as [(id & Hb) Hc]. rewrite Hb.
    destruct (early_of t); intros Q; inversion Q; subst; clear Q.
    + apply inv_after_put; auto.
      * left. exact Hb.
      * simpl. intros x [H|H]; discriminate.
      * simpl. intros x H; discriminate.
      * unfold pc_ok. simpl. split; reflexivity.
    + apply inv_after_heap; [exact I|left; exact Hb|simpl; symmetry; exact Hb|simpl; symmetry; exact Hc|].
      unfold pc_ok. simpl. split; [|reflexivity]. exists id. split; [reflexivity|].
      rewrite upd_same. apply bytes_marshal_into.
  - (* Get comprBuf *)
    destruct Hpc as [(bid & Hb & Hy) Hc].
    destruct (pool_get cap0 st c) as [id st1] eqn:G. intros Q; inversion Q; subst; clear Q.
    destruct (pool_get_spec st c id st1 I G) as (A1 & A2 & A3 & A4 & A5 & A6 & A7 & A8 & A9 & A10).
    apply (inv_after_get st st1 t id); auto.
    + simpl. intros x [H|H]; [right; left; exact H|inversion H; left; reflexivity].
    + simpl. intros x H E. inversion E; subst. apply (A7 t). left. exact H.
    + unfold pc_ok. simpl. split; [|exists id; reflexivity]. exists bid. split; [exact Hb|].
      rewrite (A10 t bid) by (left; exact Hb). exact Hy.
  - (* compress *)
    destruct Hpc as [(bid & Hb & Hy) (cid & Hc)]. rewrite Hb, Hc.
    destruct (compress_into compress max_enc_len (bytes (p_heap st bid)) (p_heap st cid)) as [cb n] eqn:CI.
    intros Q; inversion Q; subst; clear Q.
    apply inv_after_heap; [exact I|right; exact Hc|simpl; symmetry; exact Hb|simpl; symmetry; exact Hc|].
    unfold pc_ok. simpl. split; [exists bid; reflexivity|]. exists cid. split; [reflexivity|].
    rewrite upd_same. pose proof (payload_compress_into (bytes (p_heap st bid)) (p_heap st cid)) as P.
    rewrite CI in P. simpl in P. rewrite P, Hy. reflexivity.
  - (* send, or return *)
    destruct Hpc as [(bid & Hb) (cid & Hc & Hy)]. rewrite Hc.
    destruct c; intros Q; inversion Q; subst; clear Q.
    + constructor; simpl; try apply I.
      intros t' bs Hin. apply in_app_or in Hin. destruct Hin as [Hin|[E|[]]]; [apply (i_wire st I); exact Hin|].
      inversion E; subst. exact Hy.
    + apply inv_after_put; auto.
      * right. exact Hc.
      * simpl. intros x [H|H]; [|discriminate]. split; [left; exact H|].
        intros ->. exact (i_distinct st I t cid H Hc).
      * simpl. intros x _; discriminate.
      * unfold pc_ok. simpl. split; [exists bid; exact Hb|reflexivity].
  - (* Put buf *)
    destruct Hpc as [(bid & Hb) Hc]. rewrite Hb. intros Q; inversion Q; subst; clear Q.
    apply inv_after_put; auto.
    + left. exact Hb.
    + simpl. intros x [H|H]; discriminate.
    + simpl. intros x H; discriminate.
    + unfold pc_ok. simpl. split; reflexivity.
  - discriminate.
Qed.

Lemma run_preserves sched : forall st, Inv st -> Inv (run st sched).
Proof.
  induction sched as [|[t c] r IH]; intros st I; [exact I|].
  simpl. destruct (step st t c) eqn:E; [apply IH; exact (step_preserves _ _ _ _ I E)|apply IH; exact I].
Qed.

(* every request body ever sent is the compression of the encoding of the message of ITS call *)
Lemma payload_intact_lemma sched t bs :
  In (t, bs) (p_wire (run (init cap0) sched)) -> bs = compress (enc (msg_of t)).
Proof. apply (i_wire _ (run_preserves sched _ inv_init)). Qed.

(* a buffer referenced by a call is neither in the pool nor referenced by another call *)
Lemma buffer_single_owner_lemma sched t id :
  holds (run (init cap0) sched) t id ->
  ~ In id (p_pool (run (init cap0) sched)) /\ forall t', holds (run (init cap0) sched) t' id -> t' = t.
Proof.
  intros H. pose proof (run_preserves sched _ inv_init) as I. split.
  - apply (i_holds _ I _ _ H).
  - intros t' H'. exact (i_uniq _ I _ _ _ H' H).
Qed.

End PoolProofs.

(* after the two pooled buffers were used by earlier calls (arbitrary stale contents b1, b2), marshalling through
   any of the three paths and compressing yields exactly the compression of the encoding *)
Lemma payload_intact_sequential_lemma (compress : str -> str) (max_enc_len : nat -> nat) (p : mpath) (data : str) (b1 b2 : buffer) :
  let buf := marshal_into p data b1 in
  let cb := compress_into compress max_enc_len (bytes buf) b2 in
  bytes buf = data /\ firstn (snd cb) (b_arr (fst cb)) = compress data.
Proof.
  intros buf cb. split; [apply bytes_marshal_into|].
  subst cb. rewrite payload_compress_into. subst buf. rewrite bytes_marshal_into. reflexivity.
Qed.

(* ================= Content-Type parsing ================= *)
Definition NOSEP (sep : Z) (s : str) : Prop := Forall (fun c => c <> sep) s.

Lemma is_space_nosep c : is_space c = true -> c <> 59 /\ c <> 61.
Proof. intros H. split; intros ->; discriminate. Qed.
Lemma WS_nosep sep s : sep = 59 \/ sep = 61 -> WS s -> NOSEP sep s.
Proof.
  intros Hs H. induction H as [|c s Hc _ IH]; constructor; [|exact IH].
  destruct (is_space_nosep c Hc). destruct Hs; subst; assumption.
Qed.
Lemma TOK_nosep sep s : sep = 59 \/ sep = 61 -> TOK s -> NOSEP sep s.
Proof.
  intros Hs [_ H]. induction H as [|c s (_ & A & B) _ IH]; constructor; [|exact IH].
  destruct Hs; subst; assumption.
Qed.
Lemma NOSEP_app sep a b : NOSEP sep a -> NOSEP sep b -> NOSEP sep (a ++ b).
Proof. intros. apply Forall_app. split; assumption. Qed.

Lemma split_nosep sep a : NOSEP sep a -> split sep a = [a].
Proof.
  induction 1 as [|c a Hc _ IH]; [reflexivity|]. simpl.
  apply Z.eqb_neq in Hc. rewrite Hc, IH. reflexivity.
Qed.
Lemma split_app_sep sep a b : NOSEP sep a -> split sep (a ++ sep :: b) = a :: split sep b.
Proof.
  induction 1 as [|c a Hc _ IH]; simpl.
  - rewrite Z.eqb_refl. reflexivity.
  - apply Z.eqb_neq in Hc. rewrite Hc, IH. reflexivity.
Qed.

Lemma trim_left_ws l s : WS l -> trim_left (l ++ s) = trim_left s.
Proof. induction 1 as [|c l Hc _ IH]; [reflexivity|]. simpl. rewrite Hc. exact IH. Qed.
Lemma trim_left_ns c s : is_space c = false -> trim_left (c :: s) = c :: s.
Proof. intros H. simpl. rewrite H. reflexivity. Qed.
Lemma WS_rev l : WS l -> WS (rev l).
Proof. intros H. apply Forall_rev. exact H. Qed.

Definition starts_ns (s : str) : Prop := exists c r, s = c :: r /\ is_space c = false.
Definition ends_ns (s : str) : Prop := exists r c, s = r ++ [c] /\ is_space c = false.

Lemma trim_space_strip l s r : WS l -> WS r -> starts_ns s -> ends_ns s -> trim_space (l ++ s ++ r) = s.
Proof.
  intros Hl Hr (c & s' & -> & Hc) (s2 & c2 & E & Hc2).
  unfold trim_space. rewrite trim_left_ws by exact Hl.
  change ((c :: s') ++ r) with (c :: (s' ++ r)). rewrite trim_left_ns by exact Hc.
  change (c :: s' ++ r) with ((c :: s') ++ r). rewrite rev_app_distr.
  rewrite trim_left_ws by (apply WS_rev; exact Hr).
  rewrite E, rev_app_distr. change (rev [c2] ++ rev s2) with (c2 :: rev s2). rewrite trim_left_ns by exact Hc2.
  change (c2 :: rev s2) with (rev [c2] ++ rev s2). rewrite <- rev_app_distr, rev_involutive. reflexivity.
Qed.

Lemma TOK_starts s : TOK s -> starts_ns s.
Proof. intros [Hn H]. destruct s as [|c r]; [contradiction|]. inversion H; subst. exists c, r. split; [reflexivity|]. apply H2. Qed.
Lemma TOK_ends s : TOK s -> ends_ns s.
Proof.
  intros [Hn H]. destruct (exists_last Hn) as (r & c & ->). exists r, c. split; [reflexivity|].
  apply Forall_app in H. destruct H as [_ H]. inversion H; subst. apply H2.
Qed.
Lemma ends_ns_app a b : ends_ns b -> ends_ns (a ++ b).
Proof. intros (r & c & -> & H). exists (a ++ r), c. rewrite app_assoc. split; [reflexivity|exact H]. Qed.
Lemma starts_ns_app a b : starts_ns a -> starts_ns (a ++ b).
Proof. intros (c & r & -> & H). exists c, (r ++ b). split; [reflexivity|exact H]. Qed.

Lemma trim_tok l s r : WS l -> WS r -> TOK s -> trim_space (l ++ s ++ r) = s.
Proof. intros. apply trim_space_strip; auto using TOK_starts, TOK_ends. Qed.

(* the pieces strings.Split(core, ";") produces *)
Definition param_body (p : ct_param) : str := p_ows2 p ++ p_name p ++ [61] ++ p_value p.
Fixpoint pieces (y : str) (ps : list ct_param) : list str :=
  match ps with
  | [] => [y]
  | p :: ps' => (y ++ p_ows1 p) :: pieces (param_body p) ps'
  end.

Lemma param_body_nosep59 p : wf_param p -> NOSEP 59 (param_body p).
Proof.
  intros (A & B & C & D). unfold param_body.
  repeat apply NOSEP_app; auto using WS_nosep, TOK_nosep.
  constructor; [discriminate|constructor].
Qed.

Lemma split_pieces ps : forall y, NOSEP 59 y -> Forall wf_param ps ->
  split 59 (y ++ concat (map render_param ps)) = pieces y ps.
Proof.
  induction ps as [|p ps IH]; intros y Hy Hw.
  - simpl. rewrite app_nil_r. apply split_nosep. exact Hy.
  - inversion Hw as [|p' ps' Hp Hps]; subst. simpl.
    unfold render_param at 1.
    replace (y ++ (p_ows1 p ++ [59] ++ p_ows2 p ++ p_name p ++ [61] ++ p_value p) ++ concat (map render_param ps))
      with ((y ++ p_ows1 p) ++ 59 :: (param_body p ++ concat (map render_param ps))).
    + rewrite split_app_sep.
      * f_equal. apply IH; [apply param_body_nosep59; exact Hp|exact Hps].
      * apply NOSEP_app; [exact Hy|]. destruct Hp as (A & _). apply WS_nosep; auto.
    + unfold param_body. repeat rewrite <- app_assoc. simpl. repeat rewrite <- app_assoc. reflexivity.
Qed.

Definition proto_name : str := of_string "proto".
Definition param_spec (ps : list ct_param) : option mtype :=
  match find (fun p => str_eqb (p_name p) proto_name) ps with
  | Some p => validate (p_value p)
  | None => Some V1
  end.

Lemma split61_body p tail : wf_param p -> WS tail ->
  split 61 (param_body p ++ tail) = [p_ows2 p ++ p_name p; p_value p ++ tail].
Proof.
  intros (A & B & C & D) Ht. unfold param_body.
  replace ((p_ows2 p ++ p_name p ++ [61] ++ p_value p) ++ tail)
    with ((p_ows2 p ++ p_name p) ++ 61 :: (p_value p ++ tail)).
  - rewrite split_app_sep.
    + rewrite split_nosep; [reflexivity|]. apply NOSEP_app; auto using WS_nosep, TOK_nosep.
    + apply NOSEP_app; auto using WS_nosep, TOK_nosep.
  - repeat rewrite <- app_assoc. reflexivity.
Qed.

Lemma trim_name p : wf_param p -> trim_space (p_ows2 p ++ p_name p) = p_name p.
Proof.
  intros (A & B & C & D). rewrite <- (app_nil_r (p_name p)) at 1. apply trim_tok; auto. constructor.
Qed.
Lemma trim_value p tail : wf_param p -> WS tail -> trim_space (p_value p ++ tail) = p_value p.
Proof.
  intros (A & B & C & D) Ht. change (p_value p ++ tail) with ([] ++ p_value p ++ tail). apply trim_tok; auto. constructor.
Qed.

Lemma params_pieces ps : forall p0, wf_param p0 -> Forall wf_param ps ->
  parse_params (pieces (param_body p0) ps) = param_spec (p0 :: ps).
Proof.
  induction ps as [|p ps IH]; intros p0 H0 Hw.
  - simpl pieces. unfold parse_params.
    rewrite <- (app_nil_r (param_body p0)). rewrite split61_body by (auto; constructor).
    rewrite trim_name, trim_value by (auto; constructor).
    unfold param_spec, proto_name. simpl find.
    change (of_string "proto") with [112; 114; 111; 116; 111].
    destruct (str_eqb (p_name p0) [112; 114; 111; 116; 111]); reflexivity.
  - inversion Hw as [|p' ps' Hp Hps]; subst.
    simpl pieces. simpl parse_params.
    assert (Hws : WS (p_ows1 p)) by apply Hp.
    rewrite split61_body by assumption.
    rewrite trim_name, trim_value by assumption.
    unfold param_spec at 1. unfold proto_name. simpl find.
    change (of_string "proto") with [112; 114; 111; 116; 111].
    destruct (str_eqb (p_name p0) [112; 114; 111; 116; 111]); [reflexivity|].
    rewrite IH by assumption. reflexivity.
Qed.

Lemma core_ends ps : forall x, ends_ns x -> Forall wf_param ps -> ends_ns (x ++ concat (map render_param ps)).
Proof.
  induction ps as [|p ps IH]; intros x Hx Hw.
  - simpl. rewrite app_nil_r. exact Hx.
  - inversion Hw as [|p' ps' Hp Hps]; subst. simpl. rewrite app_assoc. apply IH; [|exact Hps].
    apply ends_ns_app. unfold render_param. repeat apply ends_ns_app. apply TOK_ends. apply Hp.
Qed.

Lemma ct_spec_param_spec a :
  ct_spec a = if str_eqb (a_media a) app_proto then param_spec (a_params a) else None.
Proof. reflexivity. Qed.

Lemma content_type_params_parsed_lemma a : wf_ast a -> parse_proto_msg (render a) = ct_spec a.
Proof.
  intros (Hl & Ht & Hm & Hps). rewrite ct_spec_param_spec. unfold parse_proto_msg, render.
  replace (a_lead a ++ a_media a ++ concat (map render_param (a_params a)) ++ a_trail a)
    with (a_lead a ++ (a_media a ++ concat (map render_param (a_params a))) ++ a_trail a)
    by (rewrite <- !app_assoc; reflexivity).
  rewrite trim_space_strip; auto.
  - rewrite split_pieces; auto using TOK_nosep.
    destruct (a_params a) as [|p ps].
    + simpl pieces. cbv iota.
      rewrite <- (app_nil_l (a_media a)) at 1. rewrite <- (app_nil_r (a_media a)) at 1.
      rewrite trim_tok by (auto; constructor).
      destruct (str_eqb (a_media a) app_proto); reflexivity.
    + inversion Hps as [|p' ps' Hp Hps']; subst. simpl pieces. cbv iota.
      change (a_media a ++ p_ows1 p) with ([] ++ a_media a ++ p_ows1 p).
      rewrite trim_tok by (auto; try constructor; apply Hp).
      destruct (str_eqb (a_media a) app_proto); [|reflexivity].
      apply params_pieces; assumption.
  - apply starts_ns_app. apply TOK_starts. exact Hm.
  - apply core_ends; [apply TOK_ends; exact Hm|exact Hps].
Qed.

(* ================= the handler ================= *)

Lemma handler_decision_table_lemma decode accepted sb r :
  (enc_ok r = false -> serve decode accepted sb r = HOut 415 None None) /\
  (enc_ok r = true -> read_body decode r = None -> serve decode accepted sb r = HOut 400 None None) /\
  (forall d, enc_ok r = true -> read_body decode r = Some d -> str_eqb (h_method r) post = false ->
     serve decode accepted sb r = HOut 405 None None) /\
  (forall d, enc_ok r = true -> read_body decode r = Some d -> str_eqb (h_method r) post = true ->
     parse_proto_msg (eff_ctype r) = None -> serve decode accepted sb r = HOut 415 None None) /\
  (forall d t, enc_ok r = true -> read_body decode r = Some d -> str_eqb (h_method r) post = true ->
     parse_proto_msg (eff_ctype r) = Some t -> existsb (mtype_eqb t) accepted = false ->
     serve decode accepted sb r = HOut 415 None None) /\
  (forall d t, enc_ok r = true -> read_body decode r = Some d -> str_eqb (h_method r) post = true ->
     parse_proto_msg (eff_ctype r) = Some t -> existsb (mtype_eqb t) accepted = true ->
     serve decode accepted sb r = HOut (store_status sb) (Some (store_written sb)) (Some (t, d))).
Proof.
  unfold enc_ok, eff_ctype, store_status, store_written, read_body, serve, serve_inner.
  repeat split.
  - intros E. apply orb_false_iff in E. destruct E as [E1 E2]. rewrite E1, E2. reflexivity.
  - intros E D. apply orb_true_iff in E. destruct (h_body_err r); [|rewrite D];
      destruct E as [E|E]; rewrite E; simpl; try reflexivity; rewrite andb_false_r; reflexivity.
  - intros d E D M. apply orb_true_iff in E. destruct (h_body_err r); [discriminate D|]. rewrite D, M.
    destruct E as [E|E]; rewrite E; simpl; [reflexivity|rewrite andb_false_r; reflexivity].
  - intros d E D M P. apply orb_true_iff in E. destruct (h_body_err r); [discriminate D|]. rewrite D, M, P.
    destruct E as [E|E]; rewrite E; simpl; [reflexivity|rewrite andb_false_r; reflexivity].
  - intros d t E D M P A. apply orb_true_iff in E. destruct (h_body_err r); [discriminate D|]. rewrite D, M, P, A.
    destruct E as [E|E]; rewrite E; simpl; [reflexivity|rewrite andb_false_r; reflexivity].
  - intros d t E D M P A. apply orb_true_iff in E. destruct (h_body_err r); [discriminate D|]. rewrite D, M, P, A.
    destruct E as [E|E]; rewrite E; simpl; try rewrite andb_false_r;
      destruct (sb_nil sb); simpl; destruct (sb_err sb); reflexivity.
Qed.

Lemma parse_default : parse_proto_msg app_proto = Some V1.
Proof. vm_compute. reflexivity. Qed.

Lemma mtype_eqb_refl t : mtype_eqb t t = true.
Proof. destruct t; reflexivity. Qed.

Lemma handler_satisfies_spec_lemma decode accepted sb r ast :
  match ast with Some a => wf_ast a /\ render a = h_ctype r | None => True end ->
  handler_spec_ok decode accepted sb r ast (serve decode accepted sb r) = true.
Proof.
  intros Hast.
  (* what the specification knows about the Content-Type agrees with the parser *)
  assert (Hct : forall t', (if is_empty (h_ctype r) then Some (Some V1) else option_map ct_spec ast) = Some t' ->
                parse_proto_msg (eff_ctype r) = t').
  { intros t'. unfold eff_ctype. destruct (is_empty (h_ctype r)).
    - intros E. inversion E. apply parse_default.
    - destruct ast as [a|]; [|discriminate]. destruct Hast as [W R]. simpl. intros E. inversion E.
      rewrite <- R. apply content_type_params_parsed_lemma. exact W. }
  destruct (handler_decision_table_lemma decode accepted sb r) as (T1 & T2 & T3 & T4 & T5 & T6).
  unfold handler_spec_ok.
  change (of_string "POST") with post. change (of_string "snappy") with snappy_name.
  fold (enc_ok r).
  destruct (enc_ok r) eqn:E.
  2:{ rewrite (T1 eq_refl). simpl. reflexivity. }
  destruct (read_body decode r) as [d|] eqn:D.
  2:{ rewrite (T2 eq_refl eq_refl). simpl. rewrite ?orb_true_r. reflexivity. }
  destruct (str_eqb (h_method r) post) eqn:M.
  2:{ rewrite (T3 d eq_refl eq_refl eq_refl). simpl. reflexivity. }
  destruct (parse_proto_msg (eff_ctype r)) as [t|] eqn:P.
  2:{ rewrite (T4 d eq_refl eq_refl eq_refl eq_refl). simpl.
      destruct (if is_empty (h_ctype r) then Some (Some V1) else option_map ct_spec ast) as [[t'|]|] eqn:C; try reflexivity.
      pose proof (Hct _ eq_refl) as Q. discriminate Q. }
  destruct (existsb (mtype_eqb t) accepted) eqn:A.
  2:{ rewrite (T5 d t eq_refl eq_refl eq_refl eq_refl A). simpl.
      destruct (if is_empty (h_ctype r) then Some (Some V1) else option_map ct_spec ast) as [[t'|]|] eqn:C; try reflexivity.
      pose proof (Hct _ eq_refl) as Q. inversion Q; subst. rewrite A. reflexivity. }
  rewrite (T6 d t eq_refl eq_refl eq_refl eq_refl A).
  simpl. rewrite str_eqb_refl, A. unfold store_written. simpl. rewrite eq3_refl. unfold store_status. rewrite Z.eqb_refl.
  destruct (if is_empty (h_ctype r) then Some (Some V1) else option_map ct_spec ast) as [[t'|]|] eqn:C; try reflexivity.
  - pose proof (Hct _ eq_refl) as Q. inversion Q; subst. rewrite mtype_eqb_refl. reflexivity.
  - pose proof (Hct _ eq_refl) as Q. discriminate Q.
Qed.

Section Decompress.
Variable encode : str -> str.
Variable decode : str -> option str.
Hypothesis roundtrip : forall x, decode (encode x) = Some x.

Lemma handler_passes_decompressed_payload_lemma accepted sb ctype cenc payload t :
  is_empty cenc || str_eqb cenc snappy_name = true ->
  parse_proto_msg (if is_empty ctype then app_proto else ctype) = Some t ->
  existsb (mtype_eqb t) accepted = true ->
  serve decode accepted sb (mkHReq post ctype cenc (encode payload) false) =
  HOut (store_status sb) (Some (store_written sb)) (Some (t, payload)).
Proof.
  intros E P A.
  destruct (handler_decision_table_lemma decode accepted sb (mkHReq post ctype cenc (encode payload) false)) as (_ & _ & _ & _ & _ & T6).
  apply T6; auto. simpl. apply roundtrip.
Qed.
End Decompress.

(* a store that returns (nil, err) is answered 500 with zero statistics headers (fixed defect: the handler used to
   dereference the nil *WriteResponse) *)
Lemma handler_nil_store_response_lemma decode accepted r d t err :
  enc_ok r = true -> read_body decode r = Some d -> str_eqb (h_method r) post = true ->
  parse_proto_msg (eff_ctype r) = Some t -> existsb (mtype_eqb t) accepted = true ->
  serve decode accepted (mkSB true 0 0 0 0 err) r = HOut (if err then 500 else 204) (Some (0, 0, 0)) (Some (t, d)).
Proof.
  intros E D M P A.
  destruct (handler_decision_table_lemma decode accepted (mkSB true 0 0 0 0 err) r) as (_ & _ & _ & _ & _ & T6).
  rewrite (T6 d t E D M P A). destruct err; reflexivity.
Qed.

(* observation: an empty parameter (allowed by RFC 9110's grammar "*( OWS ";" OWS [ parameter ] )") is rejected *)
Lemma content_type_empty_parameter_rejected :
  parse_proto_msg (of_string "application/x-protobuf;") = None /\
  parse_proto_msg (of_string "application/x-protobuf; proto=io.prometheus.write.v2.Request") = Some V2.
Proof. vm_compute. split; reflexivity. Qed.

(* ================= examples: the hypotheses are satisfiable, the model runs ================= *)
Definition ex_script : list (outcome * cancel) :=
  [(OResp (mkResp 503 (of_string "2") [] [] (of_string "1") None), CNone);
   (OTransport, CNone);
   (OResp (mkResp 429 [] [] [] [] None), CNone);
   (OResp (mkResp 200 (of_string "5") (of_string "1") [] [] None), CNone)].
Definition ex_cfg : wcfg := mkCfg 1000 10000 5 true.

Example write_example :
  let m := write ex_cfg v2_name MVt (fun _ => 0) ex_script in
  w_err m = WNil /\ triple (w_stats m) = (7, 1, 0) /\ length (w_reqs m) = 4%nat /\
  map q_retry (w_reqs m) = [None; Some (of_string "1"); Some (of_string "2"); Some (of_string "3")] /\
  w_delays m = [1000 + 1000000000; 2000; 4000] /\
  spec_write_ok ex_cfg v2_name MVt ex_script (obs_of m) = true.
Proof. vm_compute. repeat split; reflexivity. Qed.

Example wf_ast_example :
  let a := mkAst (of_string " ") app_proto
                 [mkParam [] (of_string " ") (of_string "charset") (of_string "utf-8");
                  mkParam (of_string " ") (of_string "	") (of_string "proto") v2_name] [] in
  wf_ast a /\ parse_proto_msg (render a) = Some V2.
Proof.
  split; [|vm_compute; reflexivity].
  unfold wf_ast, wf_param, WS, TOK, tokc. simpl.
  repeat (split || constructor || discriminate || reflexivity).
Qed.

Example max_retries_zero_unbounded_example :
  length (w_reqs (write (mkCfg 0 0 0 true) v1_name MGogo (fun _ => 0) (repeat (r503, CNone) 40 ++ [(r200, CNone)]))) = 41%nat.
Proof. vm_compute. reflexivity. Qed.

(* ================= what a pass of the checker means for observed values ================= *)
Lemma reqs_ok_nth t : forall l i j q,
  reqs_ok t i l = true -> nth_error l j = Some q ->
  oq_body_ok q = true /\ spec_headers_ok t (i + Z.of_nat j) (oq q) = true.
Proof.
  induction l as [|x l IH]; intros i j q H Hn; [destruct j; discriminate|].
  simpl in H. apply andb_true_iff in H. destruct H as [H H3]. apply andb_true_iff in H. destruct H as [H1 H2].
  destruct j.
  - inversion Hn; subst. rewrite Z.add_0_r. auto.
  - simpl in Hn. destruct (IH (i + 1) j q H3 Hn) as [A B]. split; [exact A|].
    replace (i + Z.of_nat (S j)) with (i + 1 + Z.of_nat j) by lia. exact B.
Qed.

Lemma spec_write_ok_meaning_lemma cfg ty k script ob t :
  validate ty = Some t -> marshals k = true -> spec_write_ok cfg ty k script ob = true ->
  let seen := map fst (firstn (length (ob_reqs ob)) script) in
  (forall j q, nth_error (ob_reqs ob) j = Some q ->
     oq_body_ok q = true /\ spec_headers_ok t (Z.of_nat j) (oq q) = true) /\
  (forall i o, nth_error seen i = Some o -> (S i < length seen)%nat -> spec_retryable cfg o = true) /\
  (0 < c_max_retries cfg -> Z.of_nat (length (ob_reqs ob)) <= c_max_retries cfg + 1) /\
  (ob_err ob = WNil -> exists last tl, rev seen = last :: tl /\ is_2xx last = true).
Proof.
  intros V M H seen. unfold spec_write_ok in H. rewrite V in H. fold seen in H.
  assert (H' : reqs_ok t 0 (ob_reqs ob) = true /\
               forallb (spec_retryable cfg) (removelast seen) = true /\
               (if 0 <? c_max_retries cfg then Z.of_nat (length (ob_reqs ob)) <=? c_max_retries cfg + 1
                else if c_max_retries cfg <? 0 then (length (ob_reqs ob) <=? 1)%nat else true) = true /\
               (if werr_eqb (ob_err ob) WNil
                then match rev seen with
                     | last :: _ => is_2xx last && match t with
                                                   | V2 => has_stat_header last || negb (eq3 (ob_samples ob, ob_hist ob, ob_exem ob) (0, 0, 0))
                                                   | V1 => true
                                                   end
                     | [] => false
                     end
                else true) = true).
  { destruct k; try discriminate;
      repeat (apply andb_true_iff in H; destruct H as [H ?]); repeat split; assumption. }
  clear H. destruct H' as (H1 & H2 & H3 & H4). repeat split.
  - apply (reqs_ok_nth t _ 0 j q H1 H).
  - apply (reqs_ok_nth t _ 0 j q H1 H).
  - intros i o Hn Hi. rewrite forallb_forall in H2. apply H2.
    apply nth_error_In with (n := i). rewrite nth_error_removelast by exact Hi. exact Hn.
  - intros Hm. apply Z.ltb_lt in Hm. rewrite Hm in H3. apply Z.leb_le. exact H3.
  - intros E. rewrite E in H4. simpl in H4. destruct (rev seen) as [|last tl]; [discriminate|].
    apply andb_true_iff in H4. destruct H4 as [H4 _]. exists last, tl. auto.
Qed.

(* ================= API options: the order in which they are given does not matter ================= *)
Lemma apply_option_comm c x y :
  (forall a b d a' b' d', x = OBackoff a b d -> y = OBackoff a' b' d' -> (a, b, d) = (a', b', d')) ->
  apply_option (apply_option c x) y = apply_option (apply_option c y) x.
Proof.
  intros H. destruct x as [a b d|], y as [a' b' d'|]; simpl; try reflexivity.
  specialize (H a b d a' b' d' eq_refl eq_refl). inversion H. reflexivity.
Qed.

Lemma one_backoff_perm l l' : Permutation l l' -> one_backoff l -> one_backoff l'.
Proof.
  intros P H a b c a' b' c' I1 I2. apply (H a b c a' b' c'); eapply Permutation_in; try apply Permutation_sym; eassumption.
Qed.

Lemma fold_options_perm l l' :
  Permutation l l' -> one_backoff l -> forall c, fold_left apply_option l c = fold_left apply_option l' c.
Proof.
  induction 1 as [|x l l' P IH|x y l|l l' l'' P1 IH1 P2 IH2]; intros H c.
  - reflexivity.
  - simpl. apply IH. intros a b d a' b' d' I1 I2. apply (H a b d a' b' d'); right; assumption.
  - simpl. f_equal. apply apply_option_comm.
    intros a b d a' b' d' -> ->. apply (H a b d a' b' d'); simpl; auto.
  - rewrite IH1 by assumption. apply IH2. apply (one_backoff_perm _ _ P1 H).
Qed.

Lemma options_order_insensitive_lemma l l' :
  Permutation l l' -> one_backoff l -> apply_options l = apply_options l'.
Proof. intros P H. apply fold_options_perm; assumption. Qed.

(* what the option set amounts to *)
Lemma options_meaning_lemma mn mx mr :
  apply_options [] = default_cfg /\
  apply_options [ONoRetry429] = mkCfg (c_min default_cfg) (c_max default_cfg) (c_max_retries default_cfg) false /\
  apply_options [OBackoff mn mx mr] = mkCfg mn mx mr true /\
  apply_options [ONoRetry429; OBackoff mn mx mr] = mkCfg mn mx mr false /\
  apply_options [OBackoff mn mx mr; ONoRetry429] = mkCfg mn mx mr false.
Proof. repeat split; reflexivity. Qed.
