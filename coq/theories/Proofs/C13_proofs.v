(* Proofs/C13_proofs.v -- lemmas for C13 (prefix/label wrapping is a pure renaming). *)
From Coq Require Import ZArith List Bool Lia Permutation Sorting.Sorted.
From Verif Require Import Base.Str Proofs.Str_facts Model.Wrap.
Import ListNotations.
Open Scope Z_scope.

(* ---------------- byte-string order ---------------- *)
Lemma str_ltb_irrefl a : str_ltb a a = false.
Proof. induction a as [|x a IH]; simpl; [reflexivity|]. rewrite Z.ltb_irrefl. exact IH. Qed.

Lemma str_ltb_trans a : forall b c, str_ltb a b = true -> str_ltb b c = true -> str_ltb a c = true.
Proof.
  induction a as [|x a IH]; intros [|y b] [|z c]; simpl; intros H1 H2; try discriminate; try reflexivity.
  destruct (Z.ltb_spec x y), (Z.ltb_spec y x), (Z.ltb_spec y z), (Z.ltb_spec z y),
           (Z.ltb_spec x z), (Z.ltb_spec z x); try discriminate; try reflexivity; try lia.
  eapply IH; eassumption.
Qed.

Lemma str_ltb_trichotomy a : forall b, str_ltb a b = false -> str_ltb b a = false -> a = b.
Proof.
  induction a as [|x a IH]; intros [|y b]; simpl; intros H1 H2; try discriminate; try reflexivity.
  destruct (Z.ltb_spec x y), (Z.ltb_spec y x); try discriminate; try lia.
  assert (x = y) by lia. subst. f_equal. apply IH; assumption.
Qed.

Lemma str_ltb_asym a b : str_ltb a b = true -> str_ltb b a = false.
Proof.
  intros H. destruct (str_ltb b a) eqn:E; [|reflexivity].
  pose proof (str_ltb_trans _ _ _ H E) as T. rewrite str_ltb_irrefl in T. discriminate.
Qed.

Lemma str_leb_refl a : str_leb a a = true.
Proof. unfold str_leb. rewrite str_ltb_irrefl. reflexivity. Qed.

Lemma str_leb_false_ltb a b : str_leb a b = false -> str_ltb b a = true.
Proof. unfold str_leb. destruct (str_ltb b a); [reflexivity|discriminate]. Qed.

Lemma str_ltb_leb a b : str_ltb a b = true -> str_leb a b = true.
Proof. intros H. unfold str_leb. rewrite (str_ltb_asym _ _ H). reflexivity. Qed.

Lemma str_leb_neq_ltb a b : str_leb a b = true -> a <> b -> str_ltb a b = true.
Proof.
  unfold str_leb. intros H N. destruct (str_ltb b a) eqn:E1; [discriminate|].
  destruct (str_ltb a b) eqn:E2; [reflexivity|]. exfalso. apply N. apply str_ltb_trichotomy; assumption.
Qed.

Lemma str_leb_trans a b c : str_leb a b = true -> str_leb b c = true -> str_leb a c = true.
Proof.
  intros H1 H2. unfold str_leb. destruct (str_ltb c a) eqn:E; [|reflexivity]. exfalso.
  destruct (str_ltb a b) eqn:E1.
  - pose proof (str_ltb_trans _ _ _ E E1) as T. unfold str_leb in H2. rewrite T in H2. discriminate.
  - assert (a = b).
    { apply str_ltb_trichotomy; [assumption|]. unfold str_leb in H1. destruct (str_ltb b a); [discriminate|reflexivity]. }
    subst. unfold str_leb in H2. rewrite E in H2. discriminate.
Qed.

(* ---------------- sorting label pairs ---------------- *)
Definition key_le (a b : lp) : Prop := str_leb (fst a) (fst b) = true.

Lemma insert_lp_perm x l : Permutation (insert_lp x l) (x :: l).
Proof.
  induction l as [|y r IH]; simpl; [apply Permutation_refl|].
  destruct (str_leb (fst x) (fst y)); [apply Permutation_refl|].
  eapply Permutation_trans; [apply perm_skip; exact IH|apply perm_swap].
Qed.

Lemma sort_lp_perm l : Permutation (sort_lp l) l.
Proof.
  induction l as [|x r IH]; simpl; [apply Permutation_refl|].
  eapply Permutation_trans; [apply insert_lp_perm|]. apply perm_skip. exact IH.
Qed.

Lemma sorted_lp_cons x l : sorted_lp (x :: l) = true <->
  (match l with [] => True | y :: _ => str_leb (fst x) (fst y) = true end) /\ sorted_lp l = true.
Proof.
  destruct l as [|y r]; simpl.
  - split; [intros _; split; [exact I|reflexivity]|reflexivity].
  - rewrite andb_true_iff. reflexivity.
Qed.

Lemma insert_lp_sorted x l : sorted_lp l = true -> sorted_lp (insert_lp x l) = true.
Proof.
  induction l as [|y r IH]; intros H; [reflexivity|].
  simpl insert_lp. destruct (str_leb (fst x) (fst y)) eqn:E.
  - apply sorted_lp_cons. split; assumption.
  - apply sorted_lp_cons in H. destruct H as [H1 H2]. specialize (IH H2).
    apply sorted_lp_cons. split; [|exact IH].
    destruct r as [|z r']; simpl.
    + apply str_ltb_leb. apply str_leb_false_ltb. exact E.
    + destruct (str_leb (fst x) (fst z)); [apply str_ltb_leb; apply str_leb_false_ltb; exact E|exact H1].
Qed.

Lemma sort_lp_sorted l : sorted_lp (sort_lp l) = true.
Proof. induction l as [|x r IH]; [reflexivity|]. simpl. apply insert_lp_sorted. exact IH. Qed.

(* a sorted list with distinct names is strictly increasing: the head is below everything else *)
Lemma sorted_head_le x l : sorted_lp (x :: l) = true -> forall y, In y l -> str_leb (fst x) (fst y) = true.
Proof.
  revert x. induction l as [|z r IH]; intros x H y Hy; [destruct Hy|].
  apply sorted_lp_cons in H. destruct H as [H1 H2].
  destruct Hy as [->|Hy]; [exact H1|].
  eapply str_leb_trans; [exact H1|]. apply (IH z H2 y Hy).
Qed.

(* every sorting algorithm agrees on inputs with distinct names *)
Lemma sorted_perm_unique_lemma : forall l1 l2 : labels,
  sorted_lp l1 = true -> sorted_lp l2 = true -> Permutation l1 l2 -> NoDup (map fst l1) -> l1 = l2.
Proof.
  induction l1 as [|x r1 IH]; intros l2 S1 S2 P N.
  - apply Permutation_nil in P. subst. reflexivity.
  - destruct l2 as [|y r2]; [apply Permutation_sym in P; apply Permutation_nil in P; discriminate|].
    assert (N2 : NoDup (map fst (y :: r2))).
    { eapply Permutation_NoDup; [apply Permutation_map; exact P|exact N]. }
    assert (Hxy : x = y).
    { assert (Hx : In x (y :: r2)) by (eapply Permutation_in; [exact P|left; reflexivity]).
      assert (Hy : In y (x :: r1)) by (eapply Permutation_in; [apply Permutation_sym; exact P|left; reflexivity]).
      destruct Hx as [->|Hx]; [reflexivity|]. destruct Hy as [->|Hy]; [reflexivity|].
      pose proof (sorted_head_le _ _ S1 _ Hy) as L1. pose proof (sorted_head_le _ _ S2 _ Hx) as L2.
      exfalso. simpl in N. inversion N as [|? ? Nx _]; subst. apply Nx.
      assert (E : fst x = fst y).
      { destruct (str_eqb (fst x) (fst y)) eqn:Q; [apply str_eqb_eq; exact Q|].
        apply str_eqb_neq in Q. pose proof (str_leb_neq_ltb _ _ L1 Q) as T.
        unfold str_leb in L2. rewrite T in L2. discriminate. }
      rewrite E. apply in_map. exact Hy. }
    subst y. f_equal. apply IH.
    + apply sorted_lp_cons in S1. tauto.
    + apply sorted_lp_cons in S2. tauto.
    + eapply Permutation_cons_inv. exact P.
    + simpl in N. inversion N; assumption.
Qed.

Lemma sort_lp_unique l out :
  NoDup (map fst l) -> sorted_lp out = true -> Permutation l out -> out = sort_lp l.
Proof.
  intros N S P. symmetry. apply sorted_perm_unique_lemma.
  - apply sort_lp_sorted.
  - exact S.
  - eapply Permutation_trans; [apply sort_lp_perm|exact P].
  - eapply Permutation_NoDup; [apply Permutation_map; apply Permutation_sym; apply sort_lp_perm|exact N].
Qed.

(* sort.Strings *)
Lemma insert_str_perm x l : Permutation (insert_str x l) (x :: l).
Proof.
  induction l as [|y r IH]; simpl; [apply Permutation_refl|].
  destruct (str_leb x y); [apply Permutation_refl|].
  eapply Permutation_trans; [apply perm_skip; exact IH|apply perm_swap].
Qed.
Lemma sort_str_perm l : Permutation (sort_str l) l.
Proof.
  induction l as [|x r IH]; simpl; [apply Permutation_refl|].
  eapply Permutation_trans; [apply insert_str_perm|]. apply perm_skip. exact IH.
Qed.
Lemma sort_str_length l : length (sort_str l) = length l.
Proof. apply Permutation_length. apply sort_str_perm. Qed.

(* ---------------- generic helpers ---------------- *)
Lemma existsb_perm {A} (f : A -> bool) l1 l2 : Permutation l1 l2 -> existsb f l1 = existsb f l2.
Proof.
  induction 1; simpl; try congruence.
  - destruct (f x), (f y); reflexivity.
Qed.
Lemma forallb_perm {A} (f : A -> bool) l1 l2 : Permutation l1 l2 -> forallb f l1 = forallb f l2.
Proof.
  induction 1; simpl; try congruence.
  - destruct (f x), (f y); reflexivity.
Qed.
Lemma find_none_existsb {A} (f : A -> bool) l : find f l = None <-> existsb f l = false.
Proof.
  induction l as [|x r IH]; simpl; [tauto|]. destruct (f x); simpl; [split; discriminate|exact IH].
Qed.
Lemma find_some_existsb {A} (f : A -> bool) l x : find f l = Some x -> existsb f l = true.
Proof.
  intros H. destruct (existsb f l) eqn:E; [reflexivity|]. apply find_none_existsb in E. congruence.
Qed.

Lemma lp_eqb_eq a b : lp_eqb a b = true <-> a = b.
Proof.
  destruct a as [a1 a2], b as [b1 b2]. unfold lp_eqb. simpl. rewrite andb_true_iff, !str_eqb_eq.
  split; [intros [-> ->]; reflexivity|intros H; inversion H; auto].
Qed.
Lemma labels_eqb_eq a : forall b, labels_eqb a b = true <-> a = b.
Proof.
  induction a as [|x a IH]; intros [|y b]; simpl; try (split; [discriminate|discriminate]); try tauto.
  rewrite andb_true_iff, lp_eqb_eq, IH. split; [intros [-> ->]; reflexivity|intros H; inversion H; auto].
Qed.

Lemma remove_one_perm x l l' : remove_one x l = Some l' -> Permutation l (x :: l').
Proof.
  revert l'. induction l as [|y r IH]; intros l' H; simpl in H; [discriminate|].
  destruct (lp_eqb x y) eqn:E.
  - apply lp_eqb_eq in E. inversion H; subst. apply Permutation_refl.
  - destruct (remove_one x r) as [r'|]; [|discriminate]. inversion H; subst.
    eapply Permutation_trans; [apply perm_skip; apply IH; reflexivity|apply perm_swap].
Qed.
Lemma remove_one_in x l : In x l -> exists l', remove_one x l = Some l'.
Proof.
  induction l as [|y r IH]; intros H; [destruct H|]. simpl.
  destruct (lp_eqb x y) eqn:E; [eexists; reflexivity|].
  destruct H as [->|H]; [rewrite (proj2 (lp_eqb_eq x x) eq_refl) in E; discriminate|].
  destruct (IH H) as [l' ->]. eexists; reflexivity.
Qed.
Lemma is_perm_sound a : forall b, is_perm a b = true -> Permutation a b.
Proof.
  induction a as [|x a IH]; intros b H; simpl in H.
  - destruct b; [apply perm_nil|discriminate].
  - destruct (remove_one x b) as [b'|] eqn:E; [|discriminate].
    apply Permutation_sym. eapply Permutation_trans; [apply remove_one_perm; exact E|].
    apply perm_skip. apply Permutation_sym. apply IH. exact H.
Qed.
Lemma is_perm_complete a : forall b, Permutation a b -> is_perm a b = true.
Proof.
  induction a as [|x a IH]; intros b P; simpl.
  - apply Permutation_nil in P. subst. reflexivity.
  - assert (Hx : In x b) by (eapply Permutation_in; [exact P|left; reflexivity]).
    destruct (remove_one_in _ _ Hx) as [b' E]. rewrite E. apply IH.
    apply remove_one_perm in E. eapply Permutation_cons_inv.
    eapply Permutation_trans; [exact P|exact E].
Qed.

(* ---------------- sets of names ---------------- *)
Lemma str_in_false s l : str_in s l = false <-> ~ In s l.
Proof.
  split; intros H.
  - intros I. apply str_in_In in I. congruence.
  - destruct (str_in s l) eqn:E; [apply str_in_In in E; contradiction|reflexivity].
Qed.
Lemma dedup_length_le l : (length (dedup l) <= length l)%nat.
Proof. induction l as [|x r IH]; simpl; [lia|]. destruct (str_in x r); simpl; lia. Qed.
Lemma dedup_length_nodup l : Nat.eqb (length (dedup l)) (length l) = true <-> NoDup l.
Proof.
  rewrite Nat.eqb_eq. induction l as [|x r IH]; simpl.
  - split; [constructor|reflexivity].
  - destruct (str_in x r) eqn:E.
    + pose proof (dedup_length_le r). split; [lia|]. intros N. inversion N; subst.
      apply str_in_In in E. contradiction.
    + simpl. apply str_in_false in E. split.
      * intros H. constructor; [exact E|]. apply IH. lia.
      * intros N. inversion N; subst. f_equal. apply IH. assumption.
Qed.
Lemma nodup_str_NoDup l : nodup_str l = true <-> NoDup l.
Proof.
  induction l as [|x r IH]; simpl; [split; [constructor|reflexivity]|].
  rewrite andb_true_iff, negb_true_iff, str_in_false, IH.
  split; [intros [? ?]; constructor; assumption|intros N; inversion N; auto].
Qed.

(* ---------------- association lists as Go maps ---------------- *)
Lemma map_mem_in k m : map_mem k m = true <-> In k (map fst m).
Proof.
  unfold map_mem. rewrite existsb_exists. split.
  - intros (p & Hp & E). apply str_eqb_eq in E. subst. apply in_map. exact Hp.
  - intros H. apply in_map_iff in H. destruct H as (p & E & Hp). exists p. split; [exact Hp|].
    subst. apply str_eqb_refl.
Qed.
Lemma map_mem_false k m : map_mem k m = false <-> ~ In k (map fst m).
Proof.
  split; intros H.
  - intros I. apply map_mem_in in I. congruence.
  - destruct (map_mem k m) eqn:E; [apply map_mem_in in E; contradiction|reflexivity].
Qed.
Lemma map_set_fresh k v m : map_mem k m = false -> map_set k v m = m ++ [(k, v)].
Proof.
  induction m as [|p r IH]; simpl; intros H; [reflexivity|].
  apply orb_false_iff in H. destruct H as [H1 H2]. rewrite H1. f_equal. apply IH. exact H2.
Qed.
Lemma build_map_nodup l : forall acc,
  NoDup (map fst (acc ++ l)) ->
  fold_left (fun m p => map_set (fst p) (snd p) m) l acc = acc ++ l.
Proof.
  induction l as [|p r IH]; intros acc N; simpl; [rewrite app_nil_r; reflexivity|].
  rewrite map_set_fresh.
  - destruct p as [k v]. simpl. rewrite IH; rewrite <- app_assoc; simpl; [reflexivity|exact N].
  - apply map_mem_false. rewrite map_app in N. simpl in N. apply NoDup_remove_2 in N.
    intros I. apply N. apply in_or_app. left. exact I.
Qed.
Lemma const_map_nodup d : NoDup (map fst (d_const d)) -> const_map d = d_const d.
Proof. intros N. unfold const_map. apply (build_map_nodup (d_const d) []). exact N. Qed.

(* the loop of wrapDesc: either some added label is already present, or the union is built *)
Lemma wrap_loop_ok ls : forall cm,
  NoDup (map fst ls) ->
  existsb (fun l => map_mem (fst l) cm) ls = false ->
  wrap_loop ls cm = inl (cm ++ ls).
Proof.
  induction ls as [|p r IH]; intros cm N H; simpl; [rewrite app_nil_r; reflexivity|].
  simpl in H. apply orb_false_iff in H. destruct H as [H1 H2]. rewrite H1.
  rewrite map_set_fresh by exact H1. destruct p as [k v]. simpl in *.
  inversion N as [|? ? Nk Nr]; subst.
  rewrite IH; [rewrite <- app_assoc; reflexivity|exact Nr|].
  apply not_true_is_false. intros E. apply existsb_exists in E. destruct E as (q & Hq & Eq).
  apply map_mem_in in Eq. rewrite map_app in Eq. apply in_app_or in Eq. destruct Eq as [Eq|Eq].
  - assert (T : existsb (fun l => map_mem (fst l) cm) r = true).
    { apply existsb_exists. exists q. split; [exact Hq|]. apply map_mem_in. exact Eq. }
    congruence.
  - simpl in Eq. destruct Eq as [Eq|[]]. apply Nk. rewrite Eq. apply in_map. exact Hq.
Qed.
Lemma wrap_loop_conflict ls : forall cm,
  existsb (fun l => map_mem (fst l) cm) ls = true ->
  exists ln, wrap_loop ls cm = inr ln /\ In ln (map fst ls).
Proof.
  induction ls as [|p r IH]; intros cm H; simpl in H; [discriminate|]. simpl.
  destruct (map_mem (fst p) cm) eqn:E.
  - exists (fst p). split; [reflexivity|left; reflexivity].
  - simpl in H. destruct (IH (map_set (fst p) (snd p) cm)) as (ln & Hl & Hi).
    + apply existsb_exists in H. destruct H as (q & Hq & Eq). apply existsb_exists. exists q.
      split; [exact Hq|]. rewrite map_set_fresh by exact E. apply map_mem_in. rewrite map_app.
      apply in_or_app. left. apply map_mem_in. exact Eq.
    + exists ln. split; [exact Hl|right; exact Hi].
Qed.

(* ---------------- NewDesc's validation = the native declaration rule ---------------- *)
Lemma map_get_values cl : NoDup (map fst cl) -> map (fun n => map_get n cl) (map fst cl) = map snd cl.
Proof.
  induction cl as [|p r IH]; intros N; [reflexivity|]. simpl in N. inversion N as [|? ? Np Nr]; subst.
  simpl. rewrite str_eqb_refl. f_equal. rewrite <- (IH Nr). apply map_ext_in.
  intros n Hn. destruct (str_eqb (fst p) n) eqn:E; [|reflexivity].
  apply str_eqb_eq in E. subst. contradiction.
Qed.
Lemma forallb_values cl :
  forallb utf8_valid (map snd cl) = negb (existsb (fun p : lp => negb (utf8_valid (snd p))) cl).
Proof.
  induction cl as [|p r IH]; [reflexivity|]. simpl. rewrite IH. destruct (utf8_valid (snd p)); reflexivity.
Qed.
Lemma values_check fq cl : NoDup (map fst cl) -> valid_metric_name fq = true ->
  forallb utf8_valid (fq :: map (fun n => map_get n cl) (sort_str (map fst cl)))
  = negb (existsb (fun p : str * str => negb (utf8_valid (snd p))) cl).
Proof.
  intros N V. simpl. unfold valid_metric_name in V. apply andb_true_iff in V. destruct V as [_ V].
  rewrite V. simpl. rewrite <- forallb_values, <- (map_get_values cl N).
  apply forallb_perm. apply Permutation_map. apply sort_str_perm.
Qed.

Lemma new_desc_spec_lemma : forall fq help var cl,
  NoDup (map fst cl) ->
  abs_wres (new_desc fq help (Some var) cl) = spec_native fq help var cl.
Proof.
  intros fq help var cl N. unfold new_desc, spec_native, native_reject.
  destruct (valid_metric_name fq) eqn:V; simpl negb; cbv iota; [|reflexivity].
  rewrite !orb_false_l.
  match goal with |- context [find ?f cl] => destruct (find f cl) eqn:F1 end.
  { apply find_some_existsb in F1. rewrite F1. reflexivity. }
  apply find_none_existsb in F1. rewrite F1, !orb_false_l.
  pose proof (values_check fq cl N V) as VC. simpl forallb in VC. rewrite VC, negb_involutive.
  match goal with |- context [existsb ?f cl] => destruct (existsb f cl) eqn:F2 end; [reflexivity|].
  rewrite !orb_false_l.
  match goal with |- context [find ?f var] => destruct (find f var) eqn:F3 end.
  { apply find_some_existsb in F3. rewrite F3. reflexivity. }
  apply find_none_existsb in F3. rewrite F3, !orb_false_l.
  rewrite app_length. rewrite sort_str_length. rewrite (map_length _ var). rewrite <- app_length.
  rewrite (Nat.eqb_sym (length (map fst cl ++ var))).
  destruct (Nat.eqb (length (dedup (map fst cl ++ var))) (length (map fst cl ++ var))); reflexivity.
Qed.

(* what native_reject = false means *)
Lemma native_reject_false_iff_lemma : forall fq cst var,
  native_reject fq cst var = false <->
  valid_metric_name fq = true /\
  (forall p, In p cst -> check_label_name (fst p) = true /\ utf8_valid (snd p) = true) /\
  (forall l, In l var -> check_label_name l = true) /\
  NoDup (map fst cst ++ var).
Proof.
  intros fq cst var. unfold native_reject. rewrite !orb_false_iff, !negb_false_iff, dedup_length_nodup.
  split.
  - intros [[[[H1 H2] H3] H4] H5]. split; [exact H1|]. split; [|split; [|exact H5]].
    + intros p Hp. split.
      * destruct (check_label_name (fst p)) eqn:E; [reflexivity|].
        exfalso. refine (eq_true_false_abs _ _ H2). apply existsb_exists. exists p. rewrite E. auto.
      * destruct (utf8_valid (snd p)) eqn:E; [reflexivity|].
        exfalso. refine (eq_true_false_abs _ _ H3). apply existsb_exists. exists p. rewrite E. auto.
    + intros l Hl. destruct (check_label_name l) eqn:E; [reflexivity|].
      exfalso. refine (eq_true_false_abs _ _ H4). apply existsb_exists. exists l. rewrite E. auto.
  - intros (H1 & H2 & H3 & H5). repeat split; try assumption.
    + apply not_true_is_false. intros T. apply existsb_exists in T. destruct T as (p & Hp & E).
      destruct (H2 p Hp) as [Q _]. rewrite Q in E. discriminate.
    + apply not_true_is_false. intros T. apply existsb_exists in T. destruct T as (p & Hp & E).
      destruct (H2 p Hp) as [_ Q]. rewrite Q in E. discriminate.
    + apply not_true_is_false. intros T. apply existsb_exists in T. destruct T as (l & Hl & E).
      rewrite (H3 l Hl) in E. discriminate.
Qed.

(* ---------------- wrapDesc ---------------- *)
(* invariant of every descriptor a constructor or wrapDesc produces *)
Definition desc_wf (d : desc) : Prop :=
  NoDup (map fst (d_const d)) /\ (d_err d = None -> exists v, d_var d = Some v).

Lemma new_desc_wf fq help var cl d :
  NoDup (map fst cl) -> new_desc fq help (Some var) cl = WDesc d -> desc_wf d.
Proof.
  intros N H. unfold new_desc in H.
  assert (E0 : desc_wf (mkDesc fq help [] (Some var) None None None)).
  { split; simpl; [constructor|intros _; eexists; reflexivity]. }
  assert (E1 : forall e, desc_wf (set_err (mkDesc fq help [] (Some var) None None None) e)).
  { intros e. split; simpl; [constructor|discriminate]. }
  repeat match type of H with
  | (if ?c then _ else _) = _ => destruct c; [inversion H; apply E1|]
  | (match ?c with Some _ => _ | None => _ end) = _ => destruct c; [inversion H; apply E1|]
  end.
  inversion H; subst. split; simpl; [|intros _; eexists; reflexivity].
  eapply Permutation_NoDup; [apply Permutation_map; apply Permutation_sym; apply sort_lp_perm|exact N].
Qed.
Lemma new_desc_no_panic fq help var cl : new_desc fq help (Some var) cl <> WPanic.
Proof.
  unfold new_desc.
  repeat match goal with
  | |- (if ?c then _ else _) <> _ => destruct c; [discriminate|]
  | |- (match ?c with Some _ => _ | None => _ end) <> _ => destruct c; [discriminate|]
  end.
  discriminate.
Qed.
Lemma invalid_desc_wf i : desc_wf (invalid_desc i).
Proof. split; simpl; [constructor|discriminate]. Qed.

(* an invalid descriptor is returned as it is: same error, nothing dereferenced *)
Lemma wrap_invalid_desc_propagates_lemma : forall d p ls e, d_err d = Some e -> wrap_desc d p ls = WDesc d.
Proof. intros d p ls e H. unfold wrap_desc. rewrite H. reflexivity. Qed.

(* without a conflict the wrapped descriptor IS the natively constructed one *)
Lemma wrap_desc_eq_native_lemma : forall d p ls v,
  d_err d = None -> d_var d = Some v ->
  NoDup (map fst (d_const d)) -> NoDup (map fst ls) ->
  existsb (fun l => map_mem (fst l) (d_const d)) ls = false ->
  wrap_desc d p ls = new_desc (p ++ d_fq d) (d_help d) (Some v) (d_const d ++ ls).
Proof.
  intros d p ls v He Hv Nc Nl Hc. unfold wrap_desc. rewrite He, (const_map_nodup d Nc).
  rewrite (wrap_loop_ok ls (d_const d) Nl Hc), Hv.
  destruct (new_desc (p ++ d_fq d) (d_help d) (Some v) (d_const d ++ ls)); reflexivity.
Qed.

(* an added label that is already a constant label is refused, naming such a label *)
Lemma wrap_desc_conflict_lemma : forall d p ls,
  d_err d = None -> NoDup (map fst (d_const d)) ->
  existsb (fun l => map_mem (fst l) (d_const d)) ls = true ->
  exists ln d', wrap_desc d p ls = WDesc d' /\ d_err d' = Some (EWrapDup ln) /\ In ln (map fst ls) /\
                d_fq d' = d_fq d /\ d_const d' = d_const d.
Proof.
  intros d p ls He Nc Hc. unfold wrap_desc. rewrite He, (const_map_nodup d Nc).
  destruct (wrap_loop_conflict ls (d_const d) Hc) as (ln & Hl & Hi). rewrite Hl.
  exists ln. eexists. split; [reflexivity|]. simpl. auto.
Qed.

Lemma nodup_app_intro {A} (l1 l2 : list A) :
  NoDup l1 -> NoDup l2 -> (forall x, In x l1 -> In x l2 -> False) -> NoDup (l1 ++ l2).
Proof.
  induction l1 as [|x r IH]; intros N1 N2 D; simpl; [exact N2|].
  inversion N1; subst. constructor.
  - intros I. apply in_app_or in I. destruct I as [I|I]; [contradiction|]. apply (D x); [left; reflexivity|exact I].
  - apply IH; [assumption|assumption|]. intros y Hy. apply D. right. exact Hy.
Qed.
Lemma nodup_union cst ls :
  NoDup (map fst cst) -> NoDup (map fst ls) ->
  existsb (fun l => map_mem (fst l) cst) ls = false -> NoDup (map fst (cst ++ ls)).
Proof.
  intros Nc Nl H. rewrite map_app. apply nodup_app_intro; [exact Nc|exact Nl|].
  intros k Hk1 Hk2. apply in_map_iff in Hk2. destruct Hk2 as (q & Eq & Hq). subst.
  assert (T : existsb (fun l => map_mem (fst l) cst) ls = true).
  { apply existsb_exists. exists q. split; [exact Hq|]. apply map_mem_in. exact Hk1. }
  congruence.
Qed.

(* model = specification for one wrapper, and the result keeps the invariant *)
Lemma wrap_desc_matches_spec_lemma : forall d p ls,
  desc_wf d -> NoDup (map fst ls) ->
  abs_wres (wrap_desc d p ls) = spec_wrap1 (abs_desc d) p ls /\
  exists d', wrap_desc d p ls = WDesc d' /\ desc_wf d'.
Proof.
  intros d p ls [Nc Hv] Nl. destruct (d_err d) as [e|] eqn:He.
  - rewrite (wrap_invalid_desc_propagates_lemma d p ls e He). split.
    + simpl. unfold abs_desc. rewrite He. destruct e; reflexivity.
    + exists d. split; [reflexivity|]. split; [exact Nc|rewrite He; exact Hv].
  - destruct (Hv eq_refl) as [v Hvar].
    assert (A : abs_desc d = SAccept (d_fq d) (d_help d) (d_const d) v).
    { unfold abs_desc. rewrite He, Hvar. reflexivity. }
    rewrite A. unfold spec_wrap1.
    destruct (existsb (fun l => map_mem (fst l) (d_const d)) ls) eqn:Hc.
    + destruct (wrap_desc_conflict_lemma d p ls He Nc Hc) as (ln & d' & Hw & He' & _ & _ & Hc').
      rewrite Hw. split.
      * simpl. unfold abs_desc. rewrite He'. reflexivity.
      * exists d'. split; [reflexivity|]. split; [rewrite Hc'; exact Nc|rewrite He'; discriminate].
    + rewrite (wrap_desc_eq_native_lemma d p ls v He Hvar Nc Nl Hc).
      pose proof (nodup_union _ _ Nc Nl Hc) as Nu. split.
      * rewrite (new_desc_spec_lemma _ _ _ _ Nu). reflexivity.
      * destruct (new_desc (p ++ d_fq d) (d_help d) (Some v) (d_const d ++ ls)) as [|d'] eqn:E.
        { exfalso. exact (new_desc_no_panic _ _ _ _ E). }
        exists d'. split; [reflexivity|]. eapply new_desc_wf; eassumption.
Qed.

Definition layers_ok (ly : list layer) : Prop := Forall (fun l : layer => NoDup (map fst (snd l))) ly.

(* any nesting depth: model = specification, and wrapDesc never panics *)
Lemma wrap_layers_matches_spec_lemma : forall ly d,
  desc_wf d -> layers_ok ly ->
  abs_wres (wrap_layers d ly) = spec_wrap (abs_desc d) ly /\ exists d', wrap_layers d ly = WDesc d' /\ desc_wf d'.
Proof.
  induction ly as [|l r IH]; intros d W L.
  - simpl. split; [reflexivity|]. exists d. split; [reflexivity|exact W].
  - inversion L as [|? ? Ll Lr]; subst.
    destruct (wrap_desc_matches_spec_lemma d (fst l) (snd l) W Ll) as (A & d1 & E1 & W1).
    unfold wrap_layers, spec_wrap. simpl. rewrite E1. rewrite <- A, E1. simpl.
    apply (IH d1 W1 Lr).
Qed.

(* ---------------- the heap: wrappingMetric.Write only ever writes to arrays it allocated ---------------- *)
Lemma set_nth_last {A} (h : list A) x y : set_nth (length h) y (h ++ [x]) = h ++ [y].
Proof. induction h as [|z r IH]; simpl; [reflexivity|]. rewrite IH. reflexivity. Qed.
Lemma h_arr_last (h : heap) x : h_arr (h ++ [x]) (length h) = x.
Proof. unfold h_arr. rewrite app_nth2 by lia. rewrite Nat.sub_diag. reflexivity. Qed.
Lemma h_arr_old (h e : heap) a : (a < length h)%nat -> h_arr (h ++ e) a = h_arr h a.
Proof. intros H. unfold h_arr. apply app_nth1. exact H. Qed.
Lemma h_put_last (h : heap) x cells :
  h_put (h ++ [x]) (length h) cells = h ++ [firstn (length x) (cells ++ skipn (length cells) x)].
Proof. unfold h_put. rewrite h_arr_last. apply set_nth_last. Qed.
Lemma skipn_repeat {A} (x : A) n k : skipn n (repeat x (n + k)) = repeat x k.
Proof. induction n as [|n IH]; simpl; [reflexivity|exact IH]. Qed.
Lemma firstn_exact {A} (l r : list A) : firstn (length l) (l ++ r) = l.
Proof. induction l as [|x l IH]; simpl; [destruct r; reflexivity|]. rewrite IH. reflexivity. Qed.
Lemma skipn_exact {A} (l r : list A) : skipn (length l) (l ++ r) = r.
Proof. induction l as [|x l IH]; simpl; [reflexivity|exact IH]. Qed.

Lemma put_cells (content : list lp) x r :
  firstn (length (content ++ repeat nil_lp (S r)))
         ((content ++ [x]) ++ skipn (length (content ++ [x])) (content ++ repeat nil_lp (S r)))
  = (content ++ [x]) ++ repeat nil_lp r.
Proof.
  replace (content ++ repeat nil_lp (S r)) with ((content ++ [nil_lp]) ++ repeat nil_lp r)
    by (rewrite <- app_assoc; reflexivity).
  replace (length (content ++ [x])) with (length (content ++ [nil_lp])) by (rewrite !app_length; reflexivity).
  rewrite skipn_exact.
  replace (length ((content ++ [nil_lp]) ++ repeat nil_lp r)) with (length ((content ++ [x]) ++ repeat nil_lp r))
    by (rewrite !app_length; reflexivity).
  rewrite <- (app_nil_r ((content ++ [x]) ++ repeat nil_lp r)) at 2. apply firstn_exact.
Qed.
Lemma h_append_inplace (h : heap) content r x :
  h_append (h ++ [content ++ repeat nil_lp (S r)]) (mkSlice (length h) (length content)) x
  = (h ++ [(content ++ [x]) ++ repeat nil_lp r], mkSlice (length h) (S (length content))).
Proof.
  unfold h_append, s_cap, s_read. cbn [s_arr s_len]. rewrite h_arr_last.
  assert (L : Nat.ltb (length content) (length (content ++ repeat nil_lp (S r))) = true).
  { apply Nat.ltb_lt. rewrite app_length, repeat_length. lia. }
  rewrite L, h_put_last, firstn_exact, put_cells. reflexivity.
Qed.
Lemma append_all_cons h s x ls :
  append_all h s (x :: ls) = append_all (fst (h_append h s x)) (snd (h_append h s x)) ls.
Proof. unfold append_all. cbn [fold_left fst snd]. destruct (h_append h s x); reflexivity. Qed.
Lemma append_all_inplace : forall ls content r (h : heap),
  (length ls <= r)%nat ->
  append_all (h ++ [content ++ repeat nil_lp r]) (mkSlice (length h) (length content)) ls
  = (h ++ [content ++ ls ++ repeat nil_lp (r - length ls)], mkSlice (length h) (length content + length ls)).
Proof.
  induction ls as [|x ls IH]; intros content r h Hr.
  - unfold append_all. cbn [fold_left length app]. rewrite Nat.sub_0_r, Nat.add_0_r. reflexivity.
  - cbn [length] in Hr. destruct r as [|r]; [lia|].
    rewrite append_all_cons, h_append_inplace. cbn [fst snd].
    pose proof (IH (content ++ [x]) r h) as Q. rewrite app_length in Q. cbn [length] in Q.
    replace (S (length content)) with (length content + 1)%nat by lia.
    rewrite Q by lia. rewrite <- !app_assoc. cbn [app length]. f_equal. f_equal. lia.
Qed.

Definition slice_ok (h : heap) (s : slice) : Prop :=
  (s_arr s < length h)%nat /\ (s_len s <= length (h_arr h (s_arr s)))%nat.
Lemma s_read_length h s : slice_ok h s -> length (s_read h s) = s_len s.
Proof. intros [_ H]. unfold s_read. apply firstn_length_le. exact H. Qed.
Lemma s_read_old h e s : slice_ok h s -> s_read (h ++ e) s = s_read h s.
Proof. intros [H _]. unfold s_read. rewrite h_arr_old by exact H. reflexivity. Qed.
Lemma slice_ok_ext h e s : slice_ok h s -> slice_ok (h ++ e) s.
Proof. intros [H1 H2]. split; [rewrite app_length; lia|]. rewrite h_arr_old by exact H1. exact H2. Qed.

(* one wrapper adding a non-empty label set over a valid slice *)
Lemma wrap_write_step (h : heap) (s : slice) (ls : labels) :
  slice_ok h s -> ls <> [] ->
  append_all (h_copy (h ++ [repeat nil_lp (s_len s + length ls)]) (mkSlice (length h) (s_len s)) s)
             (mkSlice (length h) (s_len s)) ls
  = (h ++ [s_read h s ++ ls], mkSlice (length h) (s_len s + length ls)) /\
  h_sort (h ++ [s_read h s ++ ls]) (mkSlice (length h) (s_len s + length ls))
  = h ++ [sort_lp (s_read h s ++ ls)].
Proof.
  intros Hs Hne. pose proof (s_read_length h s Hs) as Ln. set (orig := s_read h s) in *.
  assert (C : h_copy (h ++ [repeat nil_lp (s_len s + length ls)]) (mkSlice (length h) (s_len s)) s
              = h ++ [orig ++ repeat nil_lp (length ls)]).
  { unfold h_copy. cbn [s_arr s_len]. rewrite Nat.min_id, (s_read_old h _ s Hs). fold orig.
    rewrite (firstn_all2 orig) by lia. rewrite h_put_last, repeat_length, Ln, skipn_repeat.
    rewrite firstn_all2 by (rewrite app_length, repeat_length; lia). reflexivity. }
  rewrite C.
  assert (A : append_all (h ++ [orig ++ repeat nil_lp (length ls)]) (mkSlice (length h) (s_len s)) ls
              = (h ++ [orig ++ ls], mkSlice (length h) (s_len s + length ls))).
  { rewrite <- Ln. rewrite (append_all_inplace ls orig (length ls) h) by lia.
    rewrite Nat.sub_diag. cbn [repeat]. rewrite app_nil_r. reflexivity. }
  rewrite A. split; [reflexivity|].
  unfold h_sort, s_read. cbn [s_arr s_len]. rewrite h_arr_last.
  rewrite (firstn_all2 (orig ++ ls)) by (rewrite app_length; lia).
  rewrite h_put_last. f_equal. f_equal.
  assert (Lq : length (sort_lp (orig ++ ls)) = length (orig ++ ls))
    by (apply Permutation_length; apply sort_lp_perm).
  rewrite Lq, skipn_all, app_nil_r. rewrite firstn_all2 by lia. reflexivity.
Qed.

Fixpoint m_base_ok (h : heap) (m : metric) : Prop :=
  match m with MBase _ _ lbl _ => slice_ok h lbl | MWrap m' _ _ => m_base_ok h m' end.
Fixpoint m_labels (h : heap) (m : metric) : labels :=
  match m with MBase _ _ lbl _ => s_read h lbl | MWrap m' _ ls => spec_labels (m_labels h m') ls end.
Fixpoint m_werr (m : metric) : bool := match m with MBase _ w _ _ => w | MWrap m' _ _ => m_werr m' end.
Fixpoint m_payload (m : metric) : Z := match m with MBase _ _ _ p => p | MWrap m' _ _ => m_payload m' end.

(* Write through any nesting of wrappers: the old heap is a prefix of the new one (nothing the
   original owns is written), the payload is untouched, the labels are the specified ones *)
Lemma m_write_spec_lemma : forall m h, m_base_ok h m ->
  exists e, fst (m_write h m) = h ++ e /\
    match snd (m_write h m) with
    | None => m_werr m = true
    | Some (s, pay) => m_werr m = false /\ pay = m_payload m /\ slice_ok (h ++ e) s /\
                       s_read (h ++ e) s = m_labels h m
    end.
Proof.
  induction m as [d w lbl pay|m' IH p ls]; intros h Hok.
  - exists []. simpl. destruct w; simpl; [rewrite app_nil_r; auto|].
    rewrite app_nil_r. auto.
  - simpl in Hok. destruct (IH h Hok) as (e & He & Hr). simpl m_write.
    destruct (m_write h m') as [h1 r]. simpl in He, Hr. subst h1.
    destruct r as [[s pay]|].
    + destruct Hr as (Hw & Hp & Hs & Hl). destruct ls as [|l0 ls0].
      * simpl. exists e. split; [reflexivity|]. simpl. rewrite Hl. auto.
      * assert (Hne : l0 :: ls0 <> []) by discriminate.
        destruct (wrap_write_step (h ++ e) s (l0 :: ls0) Hs Hne) as [Q1 Q2].
        cbn [is_nil]. unfold h_make. cbv beta iota zeta. rewrite Q1. cbv beta iota. rewrite Q2.
        exists (e ++ [sort_lp (s_read (h ++ e) s ++ l0 :: ls0)]).
        cbn [fst snd]. rewrite app_assoc. split; [reflexivity|].
        split; [exact Hw|]. split; [exact Hp|]. split.
        { unfold slice_ok. cbn [s_arr s_len]. split; [rewrite (app_length (h ++ e)); cbn [length]; lia|].
          rewrite h_arr_last. rewrite (Permutation_length (sort_lp_perm _)), app_length.
          rewrite (s_read_length _ _ Hs). lia. }
        unfold s_read at 1. cbn [s_arr s_len]. rewrite h_arr_last.
        cbn [m_labels]. unfold spec_labels. cbn [is_nil]. rewrite <- Hl.
        replace (s_len s + length (l0 :: ls0))%nat with (length (sort_lp (s_read (h ++ e) s ++ l0 :: ls0))).
        { rewrite <- (app_nil_r (sort_lp _)) at 2. apply firstn_exact. }
        rewrite (Permutation_length (sort_lp_perm _)), app_length, (s_read_length _ _ Hs). reflexivity.
    + exists e. split; [reflexivity|exact Hr].
Qed.

(* ---------------- labels written through any nesting = "original plus added, sorted" ---------------- *)
Lemma wrap_metric_snoc m ly l : wrap_metric m (ly ++ [l]) = MWrap (wrap_metric m ly) (fst l) (snd l).
Proof. unfold wrap_metric. rewrite fold_left_app. reflexivity. Qed.
Lemma all_added_snoc ly l : all_added (ly ++ [l]) = all_added ly ++ snd l.
Proof. unfold all_added. rewrite flat_map_app. simpl. rewrite app_nil_r. reflexivity. Qed.
Lemma m_base_ok_wrap h m ly : m_base_ok h (wrap_metric m ly) <-> m_base_ok h m.
Proof.
  induction ly as [|l ly IH] using rev_ind; [reflexivity|]. rewrite wrap_metric_snoc. simpl. exact IH.
Qed.

Lemma m_labels_flat h m : forall ly,
  let out := m_labels h (wrap_metric m ly) in
  (all_added ly = [] -> out = m_labels h m) /\
  (all_added ly <> [] -> sorted_lp out = true /\ Permutation (m_labels h m ++ all_added ly) out).
Proof.
  induction ly as [|l ly IH] using rev_ind; cbv zeta.
  - split; [reflexivity|]. intros H. exfalso. apply H. reflexivity.
  - cbv zeta in IH. destruct IH as [IH1 IH2]. rewrite wrap_metric_snoc, all_added_snoc. cbn [m_labels].
    unfold spec_labels. destruct (snd l) as [|x ls'] eqn:El.
    + cbn [is_nil]. rewrite app_nil_r. split; assumption.
    + cbn [is_nil]. split.
      * intros H. apply app_eq_nil in H. destruct H as [_ H]. discriminate.
      * intros _. split; [apply sort_lp_sorted|].
        eapply Permutation_trans; [|apply Permutation_sym; apply sort_lp_perm].
        rewrite app_assoc. apply Permutation_app_tail.
        destruct (all_added ly) as [|a al] eqn:Ea.
        { rewrite IH1 by reflexivity. rewrite app_nil_r. apply Permutation_refl. }
        apply IH2. discriminate.
Qed.

Lemma m_labels_ok_lemma h m ly :
  labels_ok (m_labels h m) (all_added ly) (m_labels h (wrap_metric m ly)) = true.
Proof.
  destruct (m_labels_flat h m ly) as [H1 H2]. unfold labels_ok.
  destruct (all_added ly) as [|a al] eqn:Ea; cbn [is_nil].
  - rewrite H1 by reflexivity. apply labels_eqb_eq. reflexivity.
  - destruct H2 as [S P]; [discriminate|]. rewrite S. simpl. apply is_perm_complete. exact P.
Qed.

(* with distinct names the checker determines the output: it is spec_labels *)
Lemma labels_ok_unique_lemma orig added out :
  NoDup (map fst (orig ++ added)) -> labels_ok orig added out = true -> out = spec_labels orig added.
Proof.
  intros N H. unfold labels_ok in H. unfold spec_labels. destruct added as [|a0 al]; cbn [is_nil] in *.
  - apply labels_eqb_eq in H. symmetry. exact H.
  - apply andb_true_iff in H. destruct H as [S P]. apply sort_lp_unique; [exact N|exact S|].
    apply is_perm_sound. exact P.
Qed.

(* ---------------- sequences of wrapped and unwrapped writes ---------------- *)
Fixpoint run_seq (h : heap) (ms : list metric) : heap :=
  match ms with [] => h | m :: r => run_seq (fst (m_write h m)) r end.
Lemma m_base_ok_ext h e m : m_base_ok h m -> m_base_ok (h ++ e) m.
Proof. induction m; simpl; [apply slice_ok_ext|exact IHm]. Qed.
Lemma run_seq_ext : forall ms h, Forall (m_base_ok h) ms -> exists e, run_seq h ms = h ++ e.
Proof.
  induction ms as [|m r IH]; intros h F; simpl.
  - exists []. rewrite app_nil_r. reflexivity.
  - inversion F as [|? ? Fm Fr]; subst. destruct (m_write_spec_lemma m h Fm) as (e & He & _).
    rewrite He. destruct (IH (h ++ e)) as [e2 H2].
    + eapply Forall_impl; [|exact Fr]. intros m0. apply m_base_ok_ext.
    + exists (e ++ e2). rewrite H2, app_assoc. reflexivity.
Qed.

(* ---------------- Registry: Unregister through the same wrapper undoes Register ---------------- *)
Lemma zmem_in x l : zmem x l = true <-> In x l.
Proof.
  unfold zmem. rewrite existsb_exists. split.
  - intros (y & Hy & E). apply Z.eqb_eq in E. subst. exact Hy.
  - intros H. exists x. split; [exact H|apply Z.eqb_refl].
Qed.
Lemma id_step_fold_in : forall l acc i,
  In i (fst (fold_left id_step l acc)) -> In i (fst acc) \/ In i l.
Proof.
  induction l as [|x l IH]; intros acc i H; simpl in H; [left; exact H|].
  destruct (IH _ _ H) as [H1|H1]; [|right; right; exact H1].
  unfold id_step in H1. destruct (zmem x (fst acc)); [left; exact H1|].
  simpl in H1. destruct H1 as [->|H1]; [right; left; reflexivity|left; exact H1].
Qed.
Lemma id_step_fold_nonempty : forall l acc, fst acc <> [] -> fst (fold_left id_step l acc) <> [].
Proof.
  induction l as [|x l IH]; intros acc H; simpl; [exact H|]. apply IH.
  unfold id_step. destruct (zmem x (fst acc)); [exact H|simpl; discriminate].
Qed.

Section RegistryProofs.
Variable hash : str -> Z.

Lemma reg_loop_acc r : forall ds st st',
  reg_loop hash r ds st = inr st' ->
  (l_ids st', l_cid st') = fold_left id_step (map (desc_id hash) ds) (l_ids st, l_cid st) /\
  (l_dup st' = false -> l_dup st = false /\ forall d, In d ds -> zmem (desc_id hash d) (r_ids r) = false).
Proof.
  induction ds as [|d rest IH]; intros st st' H; simpl in H.
  - inversion H; subst. split; [reflexivity|]. intros D. split; [exact D|]. intros d [].
  - destruct (d_err d); [discriminate|].
    assert (K : forall dims, reg_loop hash r rest
                 (mkL (fst (id_step (l_ids st, l_cid st) (desc_id hash d))) dims
                      (snd (id_step (l_ids st, l_cid st) (desc_id hash d)))
                      (l_dup st || zmem (desc_id hash d) (r_ids r))) = inr st' ->
              (l_ids st', l_cid st') = fold_left id_step (map (desc_id hash) (d :: rest)) (l_ids st, l_cid st) /\
              (l_dup st' = false -> l_dup st = false /\
                 forall d0, In d0 (d :: rest) -> zmem (desc_id hash d0) (r_ids r) = false)).
    { intros dims Hd. destruct (IH _ _ Hd) as [A B]. cbn [l_ids l_cid l_dup] in A, B. split.
      - rewrite A. cbn [map fold_left]. destruct (id_step (l_ids st, l_cid st) (desc_id hash d)); reflexivity.
      - intros D. destruct (B D) as [B1 B2]. apply orb_false_iff in B1. destruct B1 as [B1 B3].
        split; [exact B1|]. intros d0 [<-|Hd0]; [exact B3|apply B2; exact Hd0]. }
    destruct (sassoc (d_fq d) (r_dims r)) as [dh|].
    + destruct (negb (dh =? desc_dim hash d)); [discriminate|]. apply (K _ H).
    + destruct (sassoc (d_fq d) (l_dims st)) as [dh|].
      * destruct (negb (dh =? desc_dim hash d)); [discriminate|]. apply (K _ H).
      * apply (K _ H).
Qed.
Lemma reg_loop_inl_not_ok r : forall ds st e, reg_loop hash r ds st = inl e -> e <> ROk.
Proof.
  induction ds as [|d rest IH]; intros st e H; simpl in H; [discriminate|].
  destruct (d_err d); [inversion H; discriminate|].
  destruct (sassoc (d_fq d) (r_dims r)) as [dh|].
  - destruct (negb (dh =? desc_dim hash d)); [inversion H; discriminate|]. eapply IH; exact H.
  - destruct (sassoc (d_fq d) (l_dims st)) as [dh|].
    + destruct (negb (dh =? desc_dim hash d)); [inversion H; discriminate|]. eapply IH; exact H.
    + eapply IH; exact H.
Qed.

Lemma zassoc_none_filter (k : Z) (l : list (Z * Z)) :
  zassoc k l = None -> filter (fun p => negb (fst p =? k)) l = l.
Proof.
  induction l as [|p r IH]; simpl; intros H; [reflexivity|].
  destruct (fst p =? k); [discriminate|]. simpl. rewrite IH by exact H. reflexivity.
Qed.
Lemma filter_all_out (ids : list Z) : filter (fun i => negb (zmem i ids)) ids = [].
Proof.
  assert (G : forall l, (forall i, In i l -> In i ids) -> filter (fun i => negb (zmem i ids)) l = []).
  { induction l as [|x l IH]; intros H; simpl; [reflexivity|].
    rewrite (proj2 (zmem_in x ids)) by (apply H; left; reflexivity). simpl. apply IH.
    intros i Hi. apply H. right. exact Hi. }
  apply G. auto.
Qed.
Lemma filter_all_in (ids l : list Z) :
  (forall i, In i l -> ~ In i ids) -> filter (fun i => negb (zmem i ids)) l = l.
Proof.
  induction l as [|x l IH]; intros H; simpl; [reflexivity|].
  destruct (zmem x ids) eqn:E.
  - apply zmem_in in E. exfalso. apply (H x); [left; reflexivity|exact E].
  - simpl. rewrite IH; [reflexivity|]. intros i Hi. apply H. right. exact Hi.
Qed.

Lemma unregister_after_register_lemma : forall r tag ds r',
  register hash r tag ds = (r', ROk) -> ds <> [] ->
  exists r'', unregister hash r' ds = (r'', true) /\
              r_coll r'' = r_coll r /\ r_ids r'' = r_ids r /\ r_unchecked r'' = r_unchecked r.
Proof.
  intros r tag ds r' H Hne. unfold register in H.
  destruct (reg_loop hash r ds (mkL [] [] 0 false)) as [e|st] eqn:EL.
  { inversion H; subst. exfalso. exact (reg_loop_inl_not_ok _ _ _ _ EL eq_refl). }
  destruct (reg_loop_acc _ _ _ _ EL) as [A B]. cbn [l_ids l_cid l_dup] in A, B.
  destruct (is_nil (l_ids st)) eqn:En.
  { exfalso. destruct ds as [|d rest]; [apply Hne; reflexivity|].
    assert (Q : fst (fold_left id_step (map (desc_id hash) (d :: rest)) ([], 0)) <> []).
    { cbn [map fold_left]. apply id_step_fold_nonempty. unfold id_step. simpl. discriminate. }
    rewrite <- A in Q. simpl in Q. destruct (l_ids st); [apply Q; reflexivity|discriminate]. }
  destruct (zassoc (l_cid st) (r_coll r)) eqn:Ez; [inversion H|].
  destruct (l_dup st) eqn:Ed; [inversion H|]. inversion H; subst r'. clear H.
  destruct (B eq_refl) as [_ B2].
  unfold unregister, unreg_ids. rewrite <- A. cbn [fst snd r_coll r_ids r_dims r_unchecked zassoc].
  rewrite Z.eqb_refl. eexists. split; [reflexivity|]. cbn [r_coll r_ids r_unchecked filter fst].
  rewrite Z.eqb_refl. cbn [negb]. split; [apply zassoc_none_filter; exact Ez|]. split; [|reflexivity].
  rewrite filter_app, filter_all_out. cbn [app]. apply filter_all_in.
  intros i Hi Hin.
  assert (Hs : In i (fst (fold_left id_step (map (desc_id hash) ds) ([], 0)))) by (rewrite <- A; exact Hin).
  apply id_step_fold_in in Hs. destruct Hs as [[]|Hs]. apply in_map_iff in Hs.
  destruct Hs as (d & Ed' & Hd). specialize (B2 d Hd). rewrite Ed' in B2.
  apply (proj2 (zmem_in i (r_ids r))) in Hi. congruence.
Qed.
End RegistryProofs.

(* ---------------- nesting = composition ---------------- *)
Lemma bool_eq_iff (a b : bool) : (a = true <-> b = true) -> a = b.
Proof. destruct a, b; intros [H1 H2]; try reflexivity; [symmetry; apply H1|apply H2]; reflexivity. Qed.
Lemma native_reject_perm fq c1 c2 var : Permutation c1 c2 -> native_reject fq c1 var = native_reject fq c2 var.
Proof.
  intros P. unfold native_reject.
  apply f_equal2; [apply f_equal2; [apply f_equal2; [apply f_equal2; [reflexivity|]|]|reflexivity]|].
  - apply existsb_perm. exact P.
  - apply existsb_perm. exact P.
  - apply f_equal. apply bool_eq_iff. rewrite !dedup_length_nodup.
    split; apply Permutation_NoDup; apply Permutation_app_tail; apply Permutation_map;
      [exact P|apply Permutation_sym; exact P].
Qed.

Lemma nodup_app_l {A} (l1 l2 : list A) : NoDup (l1 ++ l2) -> NoDup l1.
Proof.
  induction l1 as [|x r IH]; intros N; [constructor|]. simpl in N. inversion N; subst. constructor.
  - intros I. apply H1. apply in_or_app. left. exact I.
  - apply IH. assumption.
Qed.
Lemma nodup_app_r {A} (l1 l2 : list A) : NoDup (l1 ++ l2) -> NoDup l2.
Proof. induction l1 as [|x r IH]; intros N; [exact N|]. simpl in N. inversion N; subst. apply IH. assumption. Qed.
Lemma spec_wrap1_compose_lemma : forall fq help cst var p1 l1 p2 l2 fq' help' cst' var',
  spec_wrap1 (spec_wrap1 (SAccept fq help cst var) p1 l1) p2 l2 = SAccept fq' help' cst' var' ->
  spec_wrap1 (SAccept fq help cst var) (p2 ++ p1) (l1 ++ l2) = SAccept fq' help' cst' var' /\
  NoDup (map fst (l1 ++ l2)).
Proof.
  intros fq help cst var p1 l1 p2 l2 fq' help' cst' var' H. unfold spec_wrap1 in *.
  destruct (existsb (fun l => map_mem (fst l) cst) l1) eqn:C1; [discriminate|].
  destruct (native_reject (p1 ++ fq) (cst ++ l1) var) eqn:N1; [discriminate|].
  destruct (existsb (fun l => map_mem (fst l) (sort_lp (cst ++ l1))) l2) eqn:C2; [discriminate|].
  destruct (native_reject (p2 ++ p1 ++ fq) (sort_lp (cst ++ l1) ++ l2) var) eqn:N2; [discriminate|].
  inversion H; subst. clear H.
  assert (P : Permutation (sort_lp (cst ++ l1) ++ l2) (cst ++ l1 ++ l2)).
  { rewrite app_assoc. apply Permutation_app_tail. apply sort_lp_perm. }
  assert (ND : NoDup (map fst (cst ++ l1 ++ l2))).
  { apply native_reject_false_iff_lemma in N2. destruct N2 as (_ & _ & _ & N2).
    apply nodup_app_l in N2. eapply Permutation_NoDup; [apply Permutation_map; exact P|exact N2]. }
  split.
  2:{ rewrite map_app in ND. apply nodup_app_r in ND. rewrite map_app in ND. rewrite map_app. exact ND. }
  assert (C3 : existsb (fun l => map_mem (fst l) cst) l2 = false).
  { apply not_true_is_false. intros T. apply existsb_exists in T. destruct T as (q & Hq & Eq).
    assert (T2 : existsb (fun l => map_mem (fst l) (sort_lp (cst ++ l1))) l2 = true).
    { apply existsb_exists. exists q. split; [exact Hq|]. apply map_mem_in.
      eapply Permutation_in; [apply Permutation_map; apply Permutation_sym; apply sort_lp_perm|].
      rewrite map_app. apply in_or_app. left. apply map_mem_in. exact Eq. }
    congruence. }
  match goal with |- (if ?b then _ else _) = _ => assert (Eb : b = false) end.
  { rewrite existsb_app. apply orb_false_iff. split; [exact C1|exact C3]. }
  rewrite Eb.
  match goal with |- (if ?b then _ else _) = _ => assert (Eb2 : b = false) end.
  { rewrite <- app_assoc, <- (native_reject_perm _ _ _ _ P). exact N2. }
  rewrite Eb2, <- app_assoc. f_equal. symmetry.
  apply sort_lp_unique; [exact ND|apply sort_lp_sorted|].
  eapply Permutation_trans; [apply Permutation_sym; exact P|apply Permutation_sym; apply sort_lp_perm].
Qed.

Lemma wrap_nested_is_composition_lemma : forall d p1 l1 p2 l2 fq help cst var,
  desc_wf d -> NoDup (map fst l1) -> NoDup (map fst l2) ->
  abs_wres (wrap_layers d [(p1, l1); (p2, l2)]) = SAccept fq help cst var ->
  abs_wres (wrap_layers d [(p2 ++ p1, l1 ++ l2)]) = SAccept fq help cst var.
Proof.
  intros d p1 l1 p2 l2 fq help cst var W N1 N2 H.
  assert (L2 : layers_ok [(p1, l1); (p2, l2)]) by (repeat constructor; assumption).
  destruct (wrap_layers_matches_spec_lemma _ d W L2) as [A _]. rewrite A in H.
  unfold spec_wrap in H. cbn [fold_left fst snd] in H.
  destruct (abs_desc d) as [|i f0 h0 c0 v0| |f0 h0 c0 v0] eqn:Ea; try discriminate.
  destruct (spec_wrap1_compose_lemma _ _ _ _ _ _ _ _ _ _ _ _ H) as [H1 H2].
  assert (L1 : layers_ok [(p2 ++ p1, l1 ++ l2)]) by (repeat constructor; exact H2).
  destruct (wrap_layers_matches_spec_lemma _ d W L1) as [B _]. rewrite B, Ea.
  unfold spec_wrap. cbn [fold_left fst snd]. exact H1.
Qed.

(* ---------------- statements used by Properties/C13.v ---------------- *)
Lemma abs_reject_iff d : desc_wf d -> (abs_desc d = SReject \/ exists i a b c e, abs_desc d = SUserErr i a b c e) <-> d_err d <> None.
Proof.
  intros [_ Hv]. unfold abs_desc. destruct (d_err d) as [e|] eqn:He.
  - split; [intros _; discriminate|]. intros _. destruct e; try (left; reflexivity).
    right. repeat eexists.
  - destruct (Hv eq_refl) as [v ->]. split.
    + intros [H|(i & a & b & c & e & H)]; discriminate.
    + intros H. exfalso. apply H. reflexivity.
Qed.

Lemma wrap_desc_conflict_iff_lemma : forall d p ls v d',
  desc_wf d -> d_err d = None -> d_var d = Some v -> NoDup (map fst ls) ->
  wrap_desc d p ls = WDesc d' ->
  (d_err d' <> None <->
   (exists l, In l ls /\ In (fst l) (map fst (d_const d))) \/
   native_reject (p ++ d_fq d) (d_const d ++ ls) v = true).
Proof.
  intros d p ls v d' W He Hv Nl Hw.
  destruct (wrap_desc_matches_spec_lemma d p ls W Nl) as (A & d1 & E1 & W1).
  rewrite Hw in E1. inversion E1; subst d1. rewrite Hw in A. cbn [abs_wres] in A.
  rewrite <- (abs_reject_iff d' W1).
  assert (Ea : abs_desc d = SAccept (d_fq d) (d_help d) (d_const d) v)
    by (unfold abs_desc; rewrite He, Hv; reflexivity).
  rewrite Ea in A. unfold spec_wrap1 in A.
  destruct (existsb (fun l => map_mem (fst l) (d_const d)) ls) eqn:C.
  - split; [|intros _; left; exact A]. intros _. left. apply existsb_exists in C.
    destruct C as (l & Hl & Hm). exists l. split; [exact Hl|apply map_mem_in; exact Hm].
  - destruct (native_reject (p ++ d_fq d) (d_const d ++ ls) v) eqn:NR.
    + split; [intros _; right; reflexivity|intros _; left; exact A].
    + split.
      * intros [H|(i & a & b & c & e & H)]; rewrite A in H; discriminate.
      * intros [(l & Hl & Hm)|H]; [|discriminate]. exfalso.
        assert (T : existsb (fun l => map_mem (fst l) (d_const d)) ls = true).
        { apply existsb_exists. exists l. split; [exact Hl|apply map_mem_in; exact Hm]. }
        congruence.
Qed.

(* an accepted wrapped descriptor is the renamed original *)
Lemma wrap_gather_is_rename_desc_lemma : forall d p ls d',
  desc_wf d -> NoDup (map fst ls) -> wrap_desc d p ls = WDesc d' -> d_err d' = None ->
  d_err d = None /\ d_fq d' = p ++ d_fq d /\ d_help d' = d_help d /\ d_var d' = d_var d /\
  d_const d' = sort_lp (d_const d ++ ls).
Proof.
  intros d p ls d' W Nl Hw He'.
  destruct (wrap_desc_matches_spec_lemma d p ls W Nl) as (A & d1 & E1 & [_ V1]).
  rewrite Hw in E1. inversion E1; subst d1. rewrite Hw in A. cbn [abs_wres] in A.
  destruct (V1 He') as [v' Hv']. unfold abs_desc in A at 1. rewrite He', Hv' in A.
  destruct W as [Nc Hv]. destruct (d_err d) as [e|] eqn:He.
  { exfalso. rewrite (wrap_invalid_desc_propagates_lemma d p ls e He) in Hw. inversion Hw; subst. congruence. }
  destruct (Hv eq_refl) as [v Hvar]. unfold abs_desc in A. rewrite He, Hvar in A. unfold spec_wrap1 in A.
  destruct (existsb (fun l => map_mem (fst l) (d_const d)) ls); [discriminate|].
  destruct (native_reject (p ++ d_fq d) (d_const d ++ ls) v); [discriminate|].
  inversion A; subst. rewrite Hv', Hvar. auto.
Qed.

(* wrapped Write: payload untouched, labels = original plus added, sorted; original heap untouched *)
Lemma wrap_gather_is_rename_metric_lemma : forall h m ly,
  m_base_ok h m -> m_werr m = false ->
  exists e s, m_write h (wrap_metric m ly) = (h ++ e, Some (s, m_payload m)) /\
              labels_ok (m_labels h m) (all_added ly) (s_read (h ++ e) s) = true.
Proof.
  intros h m ly Hok Hw.
  destruct (m_write_spec_lemma (wrap_metric m ly) h (proj2 (m_base_ok_wrap h m ly) Hok)) as (e & He & Hr).
  assert (Ew : forall ly, m_werr (wrap_metric m ly) = m_werr m).
  { induction ly0 as [|l l0 IH] using rev_ind; [reflexivity|]. rewrite wrap_metric_snoc. exact IH. }
  assert (Ep : forall ly, m_payload (wrap_metric m ly) = m_payload m).
  { induction ly0 as [|l l0 IH] using rev_ind; [reflexivity|]. rewrite wrap_metric_snoc. exact IH. }
  destruct (m_write h (wrap_metric m ly)) as [h1 r]. cbn [fst snd] in He, Hr. subst h1.
  destruct r as [[s pay]|].
  - destruct Hr as (_ & Hp & _ & Hl). exists e, s. rewrite Hp, Ep. split; [reflexivity|].
    rewrite Hl. apply m_labels_ok_lemma.
  - rewrite Ew in Hr. congruence.
Qed.

Lemma wrap_does_not_alter_original_lemma : forall h ms,
  Forall (m_base_ok h) ms ->
  let h' := run_seq h ms in
  (forall a, (a < length h)%nat -> h_arr h' a = h_arr h a) /\
  (forall s, slice_ok h s -> s_read h' s = s_read h s) /\
  (forall d w lbl pay, slice_ok h lbl -> m_write h' (MBase d w lbl pay) = (h', snd (m_write h (MBase d w lbl pay)))).
Proof.
  intros h ms F. cbv zeta. destruct (run_seq_ext ms h F) as [e ->]. split; [|split].
  - intros a Ha. apply h_arr_old. exact Ha.
  - intros s Hs. apply s_read_old. exact Hs.
  - intros d w lbl pay _. simpl. destruct w; reflexivity.
Qed.

Lemma wrap_unregister_removes_lemma : forall hash r c ly r' ds,
  describe (wrap_collector c ly) = Some ds -> ds <> [] ->
  register_collector hash r (wrap_collector c ly) = Some (r', ROk) ->
  exists r'', unregister_collector hash r' (wrap_collector c ly) = Some (r'', true) /\
              r_coll r'' = r_coll r /\ r_ids r'' = r_ids r /\ r_unchecked r'' = r_unchecked r.
Proof.
  intros hash r c ly r' ds Hd Hne H. unfold register_collector, unregister_collector in *. rewrite Hd in *.
  inversion H as [H1]. destruct (unregister_after_register_lemma hash r _ ds r' H1 Hne) as (r'' & U & Q).
  exists r''. rewrite U. split; [reflexivity|exact Q].
Qed.
