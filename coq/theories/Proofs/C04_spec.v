(* Proofs/C04_spec.v -- C04: the model-level accounting (out_ok: classification by the code's own
   comparisons and key_of) implies the SPECIFICATION's accounting_check (zero bucket = |v| <= z,
   bucket k = B(k-1) < |v| <= B(k) with exact dyadic bounds, sign by sign bit, totals, sum). *)
From Coq Require Import ZArith List Bool Lia Reals Lra ZifyBool ZifyNat.
From Flocq Require Import Core.Core IEEE754.BinarySingleNaN.
From Verif Require Import Base.F64 Gen.Gen_Bounds Model.ClassicHist Model.NativeHist
     Proofs.F64_order Proofs.C03_proofs Proofs.C04_keys Proofs.C04_proofs Proofs.C04_law.
Import ListNotations.
Open Scope Z_scope.

(* ---- |v|, -z in the order embedding ---- *)
Lemma ecls_fneg x : ecls (fneg x) = - ecls x.
Proof. destruct x as [s|[|]| |s m e H]; reflexivity. Qed.
Lemma eval_fneg x : eval (fneg x) = (- eval x)%R.
Proof. unfold eval, fneg. apply B2R_Bopp. Qed.
Lemma nan_fneg x : is_nan (fneg x) = is_nan x.
Proof. destruct x as [s|[|]| |s m e H]; reflexivity. Qed.
Lemma ecls_fabs x : ecls (fabs x) = Z.abs (ecls x).
Proof. destruct x as [s|[|]| |s m e H]; reflexivity. Qed.
Lemma eval_fabs x : eval (fabs x) = Rabs (eval x).
Proof. unfold eval, fabs. apply B2R_Babs. Qed.
Lemma nan_fabs x : is_nan (fabs x) = is_nan x.
Proof. destruct x as [s|[|]| |s m e H]; reflexivity. Qed.
Lemma eval_inf x : ecls x <> 0 -> eval x = 0%R.
Proof. destruct x as [s|[|]| |s m e H]; cbn; intros; try reflexivity; lia. Qed.

Lemma bool_iff (a b : bool) : (a = true <-> b = true) -> a = b.
Proof. destruct a, b; intros [H1 H2]; try reflexivity; [symmetry; apply H1; reflexivity|apply H2; reflexivity]. Qed.

(* |v| <= z  iff  v <= z and -z <= v *)
Lemma fle_fabs v z : fle (fabs v) z = fle v z && fle (fneg z) v.
Proof.
  apply bool_iff. rewrite andb_true_iff, !fle_iff. rewrite nan_fabs, nan_fneg.
  unfold ele. rewrite ecls_fabs, ecls_fneg, eval_fabs, eval_fneg.
  pose proof (ecls_range v) as Rv. pose proof (ecls_range z) as Rz.
  pose proof (eval_inf v) as Iv.
  split.
  - intros (Nv & Nz & H). repeat split; try assumption.
    + destruct H as [H|[H1 H2]]; [lia|]. destruct H2 as [H2|H2].
      * destruct (Z.eq_dec (ecls v) (ecls z)); [right; split; [assumption|left; lia]|left; lia].
      * destruct (Z.eq_dec (ecls v) 0) as [E0|E0].
        -- right. split; [lia|]. right. pose proof (Rle_abs (eval v)). lra.
        -- destruct (Z.eq_dec (ecls v) (ecls z)); [right; split; [assumption|left; lia]|left; lia].
    + destruct H as [H|[H1 H2]]; [lia|]. destruct H2 as [H2|H2].
      * destruct (Z.eq_dec (- ecls z) (ecls v)); [right; split; [assumption|left; lia]|left; lia].
      * destruct (Z.eq_dec (ecls v) 0) as [E0|E0].
        -- right. split; [lia|]. right. pose proof (Rle_abs (- eval v)). rewrite Rabs_Ropp in H. lra.
        -- destruct (Z.eq_dec (- ecls z) (ecls v)); [right; split; [assumption|left; lia]|left; lia].
  - intros [(Nv & Nz & H1) (_ & _ & H2)]. repeat split; try assumption.
    destruct (Z.eq_dec (ecls v) 0) as [E0|E0].
    + rewrite E0 in *. cbn [Z.abs]. destruct (Z.eq_dec (ecls z) 0) as [Ez|Ez].
      * right. split; [lia|]. right. rewrite Ez in *.
        destruct H1 as [H1|[_ [H1|H1]]]; try lia. destruct H2 as [H2|[_ [H2|H2]]]; try lia.
        apply Rabs_le. lra.
      * left. lia.
    + destruct (Z.eq_dec (Z.abs (ecls v)) (ecls z)); [right; split; [assumption|left; lia]|left; lia].
Qed.

Lemma fle_negb_flt a b : is_nan a = false -> is_nan b = false -> fle a b = negb (flt b a).
Proof.
  intros Na Nb. destruct (fle a b) eqn:E.
  - rewrite (fle_not_flt _ _ E). reflexivity.
  - apply (fle_false_iff a b Na Nb) in E. rewrite E. reflexivity.
Qed.

(* the code's zero-bucket decision is the specification's |v| <= z *)
Lemma goes_zero_spec zt v : is_nan zt = false -> goes_zero zt v = negb (is_nan v) && in_zero zt v.
Proof.
  intros Nz. unfold goes_zero, in_zero. destruct (is_nan v) eqn:Nv; [reflexivity|]. cbn [negb andb].
  rewrite fle_fabs. unfold fgt. rewrite <- (fle_negb_flt v zt Nv Nz).
  rewrite <- (fle_negb_flt (fneg zt) v); [reflexivity|rewrite nan_fneg; exact Nz|exact Nv].
Qed.

Lemma signbit_false_nonneg v : is_nan v = false -> signbit v = false -> fle pzero v = true.
Proof. destruct v as [s|s| |s m e H]; try discriminate; cbn; intros _ E; subst; reflexivity. Qed.
Lemma signbit_true_nonpos v : is_nan v = false -> signbit v = true -> fle v pzero = true.
Proof. destruct v as [s|s| |s m e H]; try discriminate; cbn; intros _ E; subst; reflexivity. Qed.
Lemma pos_signbit v : flt pzero v = true -> signbit v = false.
Proof. destruct v as [s|s| |s m e H]; try discriminate; destruct s; cbn; intros E; try discriminate; reflexivity. Qed.
Lemma neg_signbit v : flt v pzero = true -> signbit v = true.
Proof. destruct v as [s|s| |s m e H]; try discriminate; destruct s; cbn; intros E; try discriminate; reflexivity. Qed.

Lemma goes_pos_spec zt v : fle pzero zt = true ->
  goes_pos zt v = negb (is_nan v) && negb (in_zero zt v) && Bool.eqb (signbit v) false.
Proof.
  intros Hz. assert (Nz : is_nan zt = false) by (apply fle_nonnan in Hz; apply Hz).
  unfold goes_pos, in_zero. destruct (is_nan v) eqn:Nv; [reflexivity|]. cbn [negb andb].
  rewrite fle_fabs. unfold fgt. rewrite (fle_negb_flt v zt Nv Nz).
  destruct (flt zt v) eqn:E; cbn [negb andb].
  - rewrite (pos_signbit v (fle_flt_trans _ _ _ Hz E)). reflexivity.
  - destruct (signbit v) eqn:S; [rewrite andb_false_r; reflexivity|]. cbn [Bool.eqb]. rewrite andb_true_r.
    pose proof (signbit_false_nonneg v Nv S) as P. pose proof (fneg_fle_zero zt Hz) as Q.
    rewrite (fle_trans _ _ _ Q P). reflexivity.
Qed.

Lemma goes_neg_spec zt v : fle pzero zt = true ->
  goes_neg zt v = negb (is_nan v) && negb (in_zero zt v) && Bool.eqb (signbit v) true.
Proof.
  intros Hz. assert (Nz : is_nan zt = false) by (apply fle_nonnan in Hz; apply Hz).
  unfold goes_neg, in_zero. destruct (is_nan v) eqn:Nv; [reflexivity|]. cbn [negb andb].
  rewrite fle_fabs. unfold fgt.
  assert (Nnz : is_nan (fneg zt) = false) by (rewrite nan_fneg; exact Nz).
  destruct (flt v (fneg zt)) eqn:E.
  - pose proof (flt_fle_trans _ _ _ E (fneg_fle_zero zt Hz)) as Vn.
    rewrite (neg_signbit v Vn). rewrite (flt_not_fle _ _ E). rewrite andb_false_r. cbn.
    assert (fle v zt = true) by (apply fle_trans with pzero; [apply flt_fle; exact Vn|exact Hz]).
    rewrite (fle_not_flt _ _ H). reflexivity.
  - rewrite andb_false_r. assert (R : fle (fneg zt) v = true).
    { destruct (fle (fneg zt) v) eqn:R; [reflexivity|]. apply (fle_false_iff _ _ Nnz Nv) in R. congruence. }
    rewrite R, andb_true_r. destruct (signbit v) eqn:S; [|rewrite andb_false_r; reflexivity].
    pose proof (signbit_true_nonpos v Nv S) as P. rewrite (fle_trans _ _ _ P Hz). reflexivity.
Qed.
