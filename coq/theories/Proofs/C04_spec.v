(* Proofs/C04_spec.v -- C04: the model-level accounting (out_ok: classification by the code's own
   comparisons and key_of) implies the SPECIFICATION's accounting_check (zero bucket = |v| <= z,
   bucket k = B(k-1) < |v| <= B(k) with exact dyadic bounds, sign by sign bit, totals, sum). *)
From Coq Require Import ZArith List Bool Lia Reals Lra ZifyBool ZifyNat.
From Flocq Require Import Core.Core IEEE754.BinarySingleNaN.
From Verif Require Import Base.F64 Gen.Gen_Bounds Model.ClassicHist Model.NativeHist
     Proofs.F64_order Proofs.C03_proofs Proofs.C04_keys Proofs.C04_proofs Proofs.C04_law.
Import ListNotations.
Open Scope Z_scope.

(* ---- |v|, -z in the order embedding ---- *)
Lemma ecls_fneg x : ecls (fneg x) = - ecls x.
Proof. destruct x as [s|[|]| |s m e H]; reflexivity. Qed.
Lemma eval_fneg x : eval (fneg x) = (- eval x)%R.
Proof. unfold eval, fneg. apply B2R_Bopp. Qed.
Lemma nan_fneg x : is_nan (fneg x) = is_nan x.
Proof. destruct x as [s|[|]| |s m e H]; reflexivity. Qed.
Lemma ecls_fabs x : ecls (fabs x) = Z.abs (ecls x).
Proof. destruct x as [s|[|]| |s m e H]; reflexivity. Qed.
Lemma eval_fabs x : eval (fabs x) = Rabs (eval x).
Proof. unfold eval, fabs. apply B2R_Babs. Qed.
Lemma nan_fabs x : is_nan (fabs x) = is_nan x.
Proof. destruct x as [s|[|]| |s m e H]; reflexivity. Qed.
Lemma eval_inf x : ecls x <> 0 -> eval x = 0%R.
Proof. destruct x as [s|[|]| |s m e H]; cbn; intros; try reflexivity; lia. Qed.

Lemma bool_iff (a b : bool) : (a = true <-> b = true) -> a = b.
Proof. destruct a, b; intros [H1 H2]; try reflexivity; [symmetry; apply H1; reflexivity|apply H2; reflexivity]. Qed.

(* |v| <= z  iff  v <= z and -z <= v *)
Lemma fle_fabs v z : fle (fabs v) z = fle v z && fle (fneg z) v.
Proof.
  apply bool_iff. rewrite andb_true_iff, !fle_iff. rewrite nan_fabs, nan_fneg.
  unfold ele. rewrite ecls_fabs, ecls_fneg, eval_fabs, eval_fneg.
  pose proof (ecls_range v) as Rv. pose proof (ecls_range z) as Rz.
  pose proof (eval_inf v) as Iv.
  split.
  - intros (Nv & Nz & H). repeat split; try assumption.
    + destruct H as [H|[H1 H2]]; [lia|]. destruct H2 as [H2|H2].
      * destruct (Z.eq_dec (ecls v) (ecls z)); [right; split; [assumption|left; lia]|left; lia].
      * destruct (Z.eq_dec (ecls v) 0) as [E0|E0].
        -- right. split; [lia|]. right. pose proof (Rle_abs (eval v)). lra.
        -- destruct (Z.eq_dec (ecls v) (ecls z)); [right; split; [assumption|left; lia]|left; lia].
    + destruct H as [H|[H1 H2]]; [lia|]. destruct H2 as [H2|H2].
      * destruct (Z.eq_dec (- ecls z) (ecls v)); [right; split; [assumption|left; lia]|left; lia].
      * destruct (Z.eq_dec (ecls v) 0) as [E0|E0].
        -- right. split; [lia|]. right. pose proof (Rle_abs (- eval v)). rewrite Rabs_Ropp in H. lra.
        -- destruct (Z.eq_dec (- ecls z) (ecls v)); [right; split; [assumption|left; lia]|left; lia].
  - intros [(Nv & Nz & H1) (_ & _ & H2)]. repeat split; try assumption.
    destruct (Z.eq_dec (ecls v) 0) as [E0|E0].
    + rewrite E0 in *. cbn [Z.abs]. destruct (Z.eq_dec (ecls z) 0) as [Ez|Ez].
      * right. split; [lia|]. right. rewrite Ez in *.
        destruct H1 as [H1|[_ [H1|H1]]]; try lia. destruct H2 as [H2|[_ [H2|H2]]]; try lia.
        apply Rabs_le. lra.
      * left. lia.
    + destruct (Z.eq_dec (Z.abs (ecls v)) (ecls z)); [right; split; [assumption|left; lia]|left; lia].
Qed.

Lemma fle_negb_flt a b : is_nan a = false -> is_nan b = false -> fle a b = negb (flt b a).
Proof.
  intros Na Nb. destruct (fle a b) eqn:E.
  - rewrite (fle_not_flt _ _ E). reflexivity.
  - apply (fle_false_iff a b Na Nb) in E. rewrite E. reflexivity.
Qed.

(* the code's zero-bucket decision is the specification's |v| <= z *)
Lemma goes_zero_spec zt v : is_nan zt = false -> goes_zero zt v = negb (is_nan v) && in_zero zt v.
Proof.
  intros Nz. unfold goes_zero, in_zero. destruct (is_nan v) eqn:Nv; [reflexivity|]. cbn [negb andb].
  rewrite fle_fabs. unfold fgt. rewrite <- (fle_negb_flt v zt Nv Nz).
  rewrite <- (fle_negb_flt (fneg zt) v); [reflexivity|rewrite nan_fneg; exact Nz|exact Nv].
Qed.

Lemma signbit_false_nonneg v : is_nan v = false -> signbit v = false -> fle pzero v = true.
Proof. destruct v as [s|s| |s m e H]; try discriminate; cbn; intros _ E; subst; reflexivity. Qed.
Lemma signbit_true_nonpos v : is_nan v = false -> signbit v = true -> fle v pzero = true.
Proof. destruct v as [s|s| |s m e H]; try discriminate; cbn; intros _ E; subst; reflexivity. Qed.
Lemma pos_signbit v : flt pzero v = true -> signbit v = false.
Proof. destruct v as [s|s| |s m e H]; try discriminate; destruct s; cbn; intros E; try discriminate; reflexivity. Qed.
Lemma neg_signbit v : flt v pzero = true -> signbit v = true.
Proof. destruct v as [s|s| |s m e H]; try discriminate; destruct s; cbn; intros E; try discriminate; reflexivity. Qed.

Lemma goes_pos_spec zt v : fle pzero zt = true ->
  goes_pos zt v = negb (is_nan v) && negb (in_zero zt v) && Bool.eqb (signbit v) false.
Proof.
  intros Hz. assert (Nz : is_nan zt = false) by (apply fle_nonnan in Hz; apply Hz).
  unfold goes_pos, in_zero. destruct (is_nan v) eqn:Nv; [reflexivity|]. cbn [negb andb].
  rewrite fle_fabs. unfold fgt. rewrite (fle_negb_flt v zt Nv Nz).
  destruct (flt zt v) eqn:E; cbn [negb andb].
  - rewrite (pos_signbit v (fle_flt_trans _ _ _ Hz E)). reflexivity.
  - destruct (signbit v) eqn:S; [rewrite andb_false_r; reflexivity|]. cbn [Bool.eqb]. rewrite andb_true_r.
    pose proof (signbit_false_nonneg v Nv S) as P. pose proof (fneg_fle_zero zt Hz) as Q.
    rewrite (fle_trans _ _ _ Q P). reflexivity.
Qed.

Lemma goes_neg_spec zt v : fle pzero zt = true ->
  goes_neg zt v = negb (is_nan v) && negb (in_zero zt v) && Bool.eqb (signbit v) true.
Proof.
  intros Hz. assert (Nz : is_nan zt = false) by (apply fle_nonnan in Hz; apply Hz).
  unfold goes_neg, in_zero. destruct (is_nan v) eqn:Nv; [reflexivity|]. cbn [negb andb].
  rewrite fle_fabs. unfold fgt.
  assert (Nnz : is_nan (fneg zt) = false) by (rewrite nan_fneg; exact Nz).
  destruct (flt v (fneg zt)) eqn:E.
  - pose proof (flt_fle_trans _ _ _ E (fneg_fle_zero zt Hz)) as Vn.
    rewrite (neg_signbit v Vn). rewrite (flt_not_fle _ _ E). rewrite andb_false_r. cbn.
    assert (fle v zt = true) by (apply fle_trans with pzero; [apply flt_fle; exact Vn|exact Hz]).
    rewrite (fle_not_flt _ _ H). reflexivity.
  - rewrite andb_false_r. assert (R : fle (fneg zt) v = true).
    { destruct (fle (fneg zt) v) eqn:R; [reflexivity|]. apply (fle_false_iff _ _ Nnz Nv) in R. congruence. }
    rewrite R, andb_true_r. destruct (signbit v) eqn:S; [|rewrite andb_false_r; reflexivity].
    pose proof (signbit_true_nonpos v Nv S) as P. rewrite (fle_trans _ _ _ P Hz). reflexivity.
Qed.

(* ---- the boundaries increase with the bucket index, so a magnitude has one bucket ---- *)
Lemma mod_succ n k : 0 < n ->
  (k mod n < n - 1 -> (k + 1) mod n = k mod n + 1 /\ (k + 1) / n = k / n) /\
  (k mod n = n - 1 -> (k + 1) mod n = 0 /\ (k + 1) / n = k / n + 1).
Proof.
  intros Hn. pose proof (Z.div_mod k n ltac:(lia)) as E. pose proof (Z.mod_pos_bound k n Hn) as B. split; intros H.
  - split; [symmetry; apply (Z.mod_unique (k + 1) n (k / n)); lia|symmetry; apply (Z.div_unique (k + 1) n (k / n) (k mod n + 1)); lia].
  - split; [symmetry; apply (Z.mod_unique (k + 1) n (k / n + 1)); lia|symmetry; apply (Z.div_unique (k + 1) n (k / n + 1) 0); lia].
Qed.

Lemma si_nth_lt : forall l i, strictly_increasing_b l = true -> (S i < length l)%nat ->
  flt (nth i l fnan) (nth (S i) l fnan) = true.
Proof.
  induction l as [|a [|b r] IH]; intros i Hs Hi; [cbn in Hi; lia|cbn in Hi; lia|].
  destruct i as [|i].
  - cbn [nth]. rewrite si_cons2 in Hs. apply andb_prop in Hs. apply Hs.
  - cbn [nth]. apply IH; [apply si_tail with a; exact Hs|cbn [length] in *; lia].
Qed.

Lemma exact_B_pos s k : -4 <= s <= 8 -> 0 < fst (exact_B s k).
Proof.
  intros Hs. destruct (Z_lt_le_dec 0 s).
  - rewrite exact_B_table by lia. assert (Hn : 0 < 2 ^ s) by (apply Z.pow_pos_nonneg; lia).
    apply (table_bound_val s (k mod 2 ^ s) (k / 2 ^ s + 1)); [lia|apply Z.mod_pos_bound; exact Hn].
  - rewrite exact_B_shift by lia. cbn. lia.
Qed.

Lemma exact_B_step s k : -4 <= s <= 8 -> (dy_val (exact_B s k) < dy_val (exact_B s (k + 1)))%R.
Proof.
  intros Hs. destruct (Z_lt_le_dec 0 s) as [Hp|Hp].
  - assert (Hs8 : 0 <= s <= 8) by lia. rewrite !exact_B_table by lia. set (n := 2 ^ s).
    assert (Hn : 0 < n) by (apply Z.pow_pos_nonneg; lia).
    pose proof (Z.mod_pos_bound k n Hn) as Bk. pose proof (Z.mod_pos_bound (k + 1) n Hn) as Bk1.
    destruct (table_bound_val s (k mod n) (k / n + 1) Hs8 Bk) as [V0 _].
    destruct (table_bound_val s ((k + 1) mod n) ((k + 1) / n + 1) Hs8 Bk1) as [V1 _].
    rewrite V0, V1. destruct (mod_succ n k Hn) as [M1 M2].
    destruct (row_entry_R s (k mod n) Hs8 Bk) as (F0 & _ & R0).
    destruct (Z_lt_le_dec (k mod n) (n - 1)) as [Hj|Hj].
    + destruct (M1 Hj) as [E1 E2]. rewrite E1, E2.
      destruct (row_entry_R s (k mod n + 1) Hs8 ltac:(lia)) as (F1 & _ & _).
      apply Rmult_lt_compat_r; [apply bpow_gt_0|]. apply flt_R; [exact F0|exact F1|].
      unfold nth_f. replace (Z.to_nat (k mod n + 1)) with (S (Z.to_nat (k mod n))) by lia.
      apply si_nth_lt; [apply bounds_sorted_lemma; exact Hs8|].
      destruct (bounds_len_lemma s Hs8) as [Hl _]. fold n in Hl. lia.
    + destruct (M2 ltac:(lia)) as [E1 E2]. rewrite E1, E2.
      destruct (bounds_len_lemma s Hs8) as [_ H0]. rewrite H0, B2R_half.
      replace (k / n + 1 + 1) with (k / n + 1 + 1)%Z by reflexivity. rewrite (bpow_plus radix2 (k / n + 1) 1).
      change (bpow radix2 1) with 2%R. pose proof (bpow_gt_0 radix2 (k / n + 1)) as Bp.
      apply Rlt_le_trans with (1 * bpow radix2 (k / n + 1))%R; [apply Rmult_lt_compat_r; lra|lra].
  - rewrite !exact_B_shift by lia. rewrite !dy_val_pow2. apply bpow_lt.
    assert (0 < 2 ^ (- s)) by (apply Z.pow_pos_nonneg; lia). nia.
Qed.

Lemma exact_B_mono s k : -4 <= s <= 8 -> forall d : nat, (dy_val (exact_B s k) <= dy_val (exact_B s (k + Z.of_nat d)))%R.
Proof.
  intros Hs. induction d as [|d IH]; [replace (k + Z.of_nat 0) with k by lia; lra|].
  replace (k + Z.of_nat (S d)) with (k + Z.of_nat d + 1) by lia.
  pose proof (exact_B_step s (k + Z.of_nat d) Hs). lra.
Qed.

Lemma exact_B_le s k k' : -4 <= s <= 8 -> k <= k' -> (dy_val (exact_B s k) <= dy_val (exact_B s k'))%R.
Proof.
  intros Hs H. replace k' with (k + Z.of_nat (Z.to_nat (k' - k))) by lia. apply exact_B_mono. exact Hs.
Qed.

(* for every non-NaN v <> 0: v lies in bucket k of the specification iff key_of says k *)
Lemma in_bucket_key s k v : -4 <= s <= 8 -> is_nan v = false -> feq v pzero = false ->
  in_bucket s k (exact_B s (k - 1)) (exact_B s k) (fabs v) = Z.eqb (key_of s v) k.
Proof.
  intros Hs Hn Hz. pose proof (key_law_lemma s v Hs Hn Hz) as KL. cbv zeta in KL.
  destruct (Z.eqb_spec (key_of s v) k) as [<-|Hne]; [exact KL|].
  destruct (in_bucket s k (exact_B s (k - 1)) (exact_B s k) (fabs v)) eqn:E; [exfalso|reflexivity].
  unfold in_bucket in KL, E. destruct (is_inf (fabs v)).
  - apply Z.eqb_eq in KL. apply Z.eqb_eq in E. lia.
  - destruct (is_fin (fabs v) && negb (feq (fabs v) pzero)) eqn:Ef; [|discriminate].
    apply andb_prop in KL. destruct KL as [L1 U1]. apply andb_prop in E. destruct E as [L2 U2].
    assert (Pa : 0 < fst (dy_of (fabs v))).
    { destruct v as [sg|sg| |sg m e Hb]; try discriminate; cbn in Ef; try discriminate. cbn. lia. }
    set (k1 := key_of s v) in *.
    apply dy_lt_iff in L1; [|apply exact_B_pos; exact Hs|exact Pa].
    apply dy_lt_iff in L2; [|apply exact_B_pos; exact Hs|exact Pa].
    apply dy_le_iff in U1; [|exact Pa|apply exact_B_pos; exact Hs].
    apply dy_le_iff in U2; [|exact Pa|apply exact_B_pos; exact Hs].
    destruct (Z_lt_le_dec k1 k).
    + pose proof (exact_B_le s k1 (k - 1) Hs ltac:(lia)). lra.
    + pose proof (exact_B_le s k (k1 - 1) Hs ltac:(lia)). lra.
Qed.

(* ---- the specification's wanted populations are the model's counts ---- *)
Lemma want_zero_cnt G zt : is_nan zt = false -> want_zero G zt = cnt (goes_zero zt) G.
Proof.
  intros Nz. unfold want_zero, cnt. f_equal. apply filter_ext. intros v. symmetry. apply goes_zero_spec. exact Nz.
Qed.

Lemma want_bucket_pos G s zt k : -4 <= s <= 8 -> fle pzero zt = true ->
  want_bucket G s zt false k = cnt (fun v => goes_pos zt v && Z.eqb (key_of s v) k) G.
Proof.
  intros Hs Hz. unfold want_bucket, cnt. f_equal. apply filter_ext. intros v.
  rewrite (goes_pos_spec zt v Hz). destruct (negb (is_nan v) && negb (in_zero zt v) && Bool.eqb (signbit v) false) eqn:E; [|reflexivity].
  cbn [andb]. rewrite <- (goes_pos_spec zt v Hz) in E. destruct (goes_pos_nonzero zt v Hz E) as [Nv Zv].
  apply in_bucket_key; assumption.
Qed.

Lemma want_bucket_neg G s zt k : -4 <= s <= 8 -> fle pzero zt = true ->
  want_bucket G s zt true k = cnt (fun v => goes_neg zt v && Z.eqb (key_of s v) k) G.
Proof.
  intros Hs Hz. unfold want_bucket, cnt. f_equal. apply filter_ext. intros v.
  rewrite (goes_neg_spec zt v Hz). destruct (negb (is_nan v) && negb (in_zero zt v) && Bool.eqb (signbit v) true) eqn:E; [|reflexivity].
  cbn [andb]. rewrite <- (goes_neg_spec zt v Hz) in E. destruct (goes_neg_nonzero zt v Hz E) as [Nv Zv].
  apply in_bucket_key; assumption.
Qed.

Lemma keys_increasing_sorted : forall l lo, sorted_from l lo -> keys_increasing l = true.
Proof.
  induction l as [|[k c] r IH]; intros lo H; [reflexivity|]. destruct r as [|[k' c'] r']; [reflexivity|].
  cbn [sorted_from] in H. destruct H as (H1 & H2 & H3).
  change (keys_increasing ((k, c) :: (k', c') :: r')) with ((k <? k') && keys_increasing ((k', c') :: r')).
  rewrite (IH (k + 1)); [|cbn [sorted_from]; split; assumption]. destruct (Z.ltb_spec k k'); [reflexivity|lia].
Qed.

Lemma side_ok_of_model G s zt (neg : bool) Q sp ds pops :
  (forall k, want_bucket G s zt neg k = cnt (fun v => Q v && Z.eqb (key_of s v) k) G) ->
  decode sp ds = Some pops ->
  (forall k, m_get pops k = cnt (fun v => Q v && Z.eqb (key_of s v) k) G) ->
  (forall e, In e pops -> 0 <= snd e) -> wf pops ->
  side_ok G s zt neg pops = true.
Proof.
  intros Hw Hd Hg Hnn [lo Hs]. unfold side_ok. rewrite (keys_increasing_sorted pops lo Hs). cbn [andb].
  apply forallb_forall. intros [k c] Hin. cbn [fst snd].
  pose proof (Hnn _ Hin) as N. cbn [snd] in N. rewrite Hw, <- Hg, (m_get_in pops lo k c Hs Hin).
  rewrite Z.eqb_refl. destruct (Z.leb_spec 0 c); [reflexivity|lia].
Qed.

(* out_ok2 (what native_accounting establishes for every Write) implies the specification *)
Lemma out_ok_spec_lemma g G w : out_ok2 g G w ->
  exists x, expo_of_wout w = Some x /\ accounting_check G x = true.
Proof.
  intros [[Oc Oz Os Op On] [Hr Hz]].
  destruct Op as (pos & Dp & Gp & Np & Sp & Wp). destruct On as (neg & Dn & Gn & Nn & Sn & Wn).
  assert (Nz : is_nan (w_zt w) = false) by (apply fle_nonnan in Hz; apply Hz).
  unfold expo_of_wout. rewrite Dp, Dn. eexists. split; [reflexivity|].
  unfold accounting_check. cbn [e_schema e_zt e_zc e_count e_sum e_pos e_neg].
  rewrite (side_ok_of_model G (w_schema w) (w_zt w) false (goes_pos (w_zt w)) _ _ pos
             (fun k => want_bucket_pos G _ _ k Hr Hz) Dp Gp Np Wp).
  rewrite (side_ok_of_model G (w_schema w) (w_zt w) true (goes_neg (w_zt w)) _ _ neg
             (fun k => want_bucket_neg G _ _ k Hr Hz) Dn Gn Nn Wn).
  rewrite (want_zero_cnt G (w_zt w) Nz), Sp, Sn, Oz, Oc, Os.
  pose proof (cnt_partition (w_zt w) G) as P. unfold nan_count. fold (cnt is_nan G).
  unfold fbits_eq. rewrite !Z.eqb_refl.
  destruct (Z.leb_spec (-4) (w_schema w)); [|lia]. destruct (Z.leb_spec (w_schema w) 8); [|lia].
  destruct (Z.eqb_spec (cnt (goes_pos (w_zt w)) G + cnt (goes_neg (w_zt w)) G + cnt (goes_zero (w_zt w)) G + cnt is_nan G) (zlen G)); [reflexivity|lia].
Qed.

(* ---- native_accounting in the specification's terms ---- *)
Definition spec_ok_out (p : wout * list f64) : Prop :=
  exists x, expo_of_wout (fst p) = Some x /\ accounting_check (snd p) x = true.

Lemma native_accounting_spec_lemma g ops : valid_config g ->
  exists l b, run_ghost (new_hist g) [] ops = Some (l, b) /\ Forall spec_ok_out l.
Proof.
  intros Hv. destruct (native_accounting_lemma g ops Hv) as (l & b & E & O). exists l, b. split; [exact E|].
  unfold outs_ok in O. eapply Forall_impl; [|exact O]. intros p Hp. apply (out_ok_spec_lemma g). exact Hp.
Qed.

Lemma native_accounting_nolimit_spec_lemma g ops : valid_config g -> g_max_buckets g = 0 ->
  exists l, run_ghost (new_hist g) [] ops = Some (l, true) /\ Forall spec_ok_out l /\ run g ops = Some (map fst l).
Proof.
  intros Hv H0. destruct (native_accounting_nolimit_lemma g ops Hv H0) as (l & E & O & R). exists l.
  split; [exact E|]. split; [|exact R].
  unfold outs_ok in O. eapply Forall_impl; [|exact O]. intros p Hp. apply (out_ok_spec_lemma g). exact Hp.
Qed.

(* ---- the ghost G is always a suffix of the observations made so far (resets only drop a prefix) ---- *)
Definition op_obs (o : op) : list f64 := match o with OObs v | OObsEx v _ => [v] | _ => [] end.
Definition is_suffix (G seen : list f64) : Prop := exists pre, seen = pre ++ G.

Lemma ghost_step_suffix h G o seen : is_suffix G seen -> is_suffix (ghost_step h G o) (seen ++ op_obs o).
Proof.
  intros [pre E]. subst seen. destruct o as [v|v orc| |d|]; cbn [ghost_step op_obs]; rewrite ?app_nil_r.
  - destruct (observe_k h v) as [[h' []]|]; try (exists pre; rewrite app_assoc; reflexivity). exists (pre ++ G). reflexivity.
  - destruct (observe_k h v) as [[h' []]|]; try (exists pre; rewrite app_assoc; reflexivity). exists (pre ++ G). reflexivity.
  - exists pre. reflexivity.
  - exists pre. reflexivity.
  - destruct (h_sched h); [exists (pre ++ G); rewrite app_nil_r; reflexivity|exists pre; reflexivity].
Qed.

(* the observations made before each Write *)
Fixpoint seen_at_writes (seen : list f64) (ops : list op) : list (list f64) :=
  match ops with
  | [] => []
  | OWrite :: r => seen :: seen_at_writes seen r
  | o :: r => seen_at_writes (seen ++ op_obs o) r
  end.

Lemma ghost_suffix_lemma : forall ops h G seen l b, is_suffix G seen -> run_ghost h G ops = Some (l, b) ->
  Forall2 (fun p s => is_suffix (snd p) s) l (firstn (length l) (seen_at_writes seen ops)).
Proof.
  induction ops as [|o r IH]; intros h G seen l b Hs E.
  - cbn in E. inversion E. constructor.
  - cbn [run_ghost] in E. destruct (step h o) as [[h' [w|]]|] eqn:St; [| |discriminate].
    + assert (o = OWrite) by (destruct o; cbn in St; try (destruct (observe h v); discriminate); try discriminate;
                               [reflexivity|destruct (h_sched h); [destruct (timer_reset h)|]; discriminate]).
      subst o. destruct (run_ghost h' G r) as [[l' b']|] eqn:E'; [|discriminate]. inversion E. subst.
      cbn [seen_at_writes length firstn]. constructor; [exact Hs|apply (IH h' G seen l' b Hs E')].
    + assert (No : o <> OWrite) by (intros ->; cbn in St; destruct (write h) as [[? ?]|]; discriminate).
      destruct (step_exact h G o).
      * pose proof (IH h' _ (seen ++ op_obs o) l b (ghost_step_suffix h G o seen Hs) E) as R.
        destruct o; try contradiction; exact R.
      * inversion E. constructor.
Qed.

(* ---- findSmallestKey ---- *)
Lemma find_smallest_fold : forall (m : bmap) init,
  let r := fold_left (fun res (p : Z * Z) => if Z.ltb (fst p) res then fst p else res) m init in
  r <= init /\ (forall p, In p m -> r <= fst p) /\ (r = init \/ exists p, In p m /\ r = fst p).
Proof.
  induction m as [|[k c] m IH]; intros init; cbn [fold_left].
  - split; [lia|]. split; [intros p []|left; reflexivity].
  - cbn [fst]. destruct (Z.ltb_spec k init) as [Hlt|Hge].
    + destruct (IH k) as (A & B & C). split; [lia|]. split.
      * intros p [<-|Hp]; [exact A|apply B; exact Hp].
      * right. destruct C as [C|[p [Hp C]]]; [exists (k, c); split; [left; reflexivity|exact C]|exists p; split; [right; exact Hp|exact C]].
    + destruct (IH init) as (A & B & C). split; [exact A|]. split.
      * intros p [<-|Hp]; [cbn [fst]; lia|apply B; exact Hp].
      * destruct C as [C|[p [Hp C]]]; [left; exact C|right; exists p; split; [right; exact Hp|exact C]].
Qed.

(* findSmallestKey returns MaxInt32 or a key of the map, and nothing in the map is smaller *)
Lemma smallest_key_lemma m :
  (forall p, In p m -> find_smallest_key m <= fst p) /\
  (find_smallest_key m = max_int32 \/ exists p, In p m /\ find_smallest_key m = fst p).
Proof. destruct (find_smallest_fold m max_int32) as (_ & B & C). split; assumption. Qed.

(* ---- pickSchema's switch: every non-NaN value of floor(log2(log2 factor)) gives a schema in [-4,8] ---- *)
Lemma of_Z_m8_fields : match of_Z (-8) with B754_finite s m e _ => (s && (Z.pos m =? 2 ^ 52) && (e =? -49)) = true | _ => False end.
Proof. vm_compute. reflexivity. Qed.
Lemma of_Z_4_fields : match of_Z 4 with B754_finite s m e _ => (negb s && (Z.pos m =? 2 ^ 52) && (e =? -50)) = true | _ => False end.
Proof. vm_compute. reflexivity. Qed.

Lemma B2R_m8 : B2R (of_Z (-8)) = (-8)%R /\ is_fin (of_Z (-8)) = true.
Proof.
  pose proof of_Z_m8_fields as H. destruct (of_Z (-8)) as [| | |s m e Hb]; try contradiction.
  apply andb_prop in H. destruct H as [H He]. apply andb_prop in H. destruct H as [Hs Hm].
  destruct s; [|discriminate]. apply Z.eqb_eq in Hm. apply Z.eqb_eq in He. subst e. split; [|reflexivity].
  unfold B2R, F2R, cond_Zopp. cbn [Fnum Fexp]. rewrite opp_IZR, Hm.
  change (bpow radix2 (-49)) with (/ IZR (2 ^ 49))%R.
  change (2 ^ 52) with 4503599627370496. change (2 ^ 49) with 562949953421312. lra.
Qed.
Lemma B2R_4 : B2R (of_Z 4) = 4%R /\ is_fin (of_Z 4) = true.
Proof.
  pose proof of_Z_4_fields as H. destruct (of_Z 4) as [| | |s m e Hb]; try contradiction.
  apply andb_prop in H. destruct H as [H He]. apply andb_prop in H. destruct H as [Hs Hm].
  destruct s; [discriminate|]. apply Z.eqb_eq in Hm. apply Z.eqb_eq in He. subst e. split; [|reflexivity].
  unfold B2R, F2R, cond_Zopp. cbn [Fnum Fexp]. rewrite Hm.
  change (bpow radix2 (-50)) with (/ IZR (2 ^ 50))%R.
  change (2 ^ 52) with 4503599627370496. change (2 ^ 50) with 1125899906842624. lra.
Qed.

(* truncation toward zero never exceeds the magnitude *)
Lemma trunc_mag s m e Hb :
  let q := if Z.leb 0 e then Z.pos m * 2 ^ e else Z.pos m / 2 ^ (- e) in
  0 <= q /\ (IZR q <= Rabs (B2R (B754_finite s m e Hb : f64)))%R.
Proof.
  intros q. assert (HR : Rabs (B2R (B754_finite s m e Hb : f64)) = (IZR (Z.pos m) * bpow radix2 e)%R).
  { unfold B2R, F2R. cbn [Fnum Fexp]. rewrite Rabs_mult, (Rabs_pos_eq (bpow radix2 e)) by (apply bpow_ge_0).
    f_equal. destruct s; cbn [cond_Zopp]; [rewrite opp_IZR, Rabs_Ropp|]; apply Rabs_pos_eq; apply IZR_le; lia. }
  rewrite HR. subst q. destruct (Z.leb_spec 0 e) as [He|He].
  - split; [apply Z.mul_nonneg_nonneg; [lia|apply Z.pow_nonneg; lia]|]. rewrite mult_IZR, IZR_pow2 by lia. lra.
  - assert (Hp : 0 < 2 ^ (- e)) by (apply Z.pow_pos_nonneg; lia).
    split; [apply Z.div_pos; lia|].
    pose proof (Z.mul_div_le (Z.pos m) (2 ^ (- e)) Hp) as Hle.
    apply IZR_le in Hle. rewrite mult_IZR, IZR_pow2 in Hle by lia.
    pose proof (bpow_gt_0 radix2 (- e)) as B1. pose proof (bpow_gt_0 radix2 e) as B2.
    assert (Hinv : (bpow radix2 (- e) * bpow radix2 e = 1)%R) by (rewrite <- bpow_plus; replace (- e + e) with 0 by lia; reflexivity).
    assert (IZR (Z.pos m / 2 ^ (- e)) * (bpow radix2 (- e) * bpow radix2 e) <= IZR (Z.pos m) * bpow radix2 e)%R.
    { rewrite <- Rmult_assoc. apply Rmult_le_compat_r; [lra|]. lra. }
    rewrite Hinv in H. lra.
Qed.

Lemma schema_in_range_lemma fl : is_nan fl = false -> -4 <= pick_schema_of_floor fl <= 8.
Proof.
  intros Hn. unfold pick_schema_of_floor. destruct B2R_m8 as [V8 F8]. destruct B2R_4 as [V4 F4].
  destruct (fle fl (of_Z (-8))) eqn:E1; [lia|]. unfold fge. destruct (fle (of_Z 4) fl) eqn:E2; [lia|].
  assert (N8 : is_nan (of_Z (-8)) = false) by (apply fin_nonnan; exact F8).
  assert (N4 : is_nan (of_Z 4) = false) by (apply fin_nonnan; exact F4).
  apply (fle_false_iff _ _ Hn N8) in E1. apply (fle_false_iff _ _ N4 Hn) in E2.
  destruct fl as [s|s| |s m e Hb]; try discriminate.
  - cbn. lia.
  - destruct s; [vm_compute in E1|vm_compute in E2]; discriminate.
  - assert (Ff : is_fin (B754_finite s m e Hb : f64) = true) by reflexivity.
    pose proof (flt_R _ _ F8 Ff E1) as R1. pose proof (flt_R _ _ Ff F4 E2) as R2. rewrite V8 in R1. rewrite V4 in R2.
    destruct (trunc_mag s m e Hb) as [Q0 Q1]. unfold trunc_Z.
    set (q := if 0 <=? e then Z.pos m * 2 ^ e else Z.pos m / 2 ^ (- e)) in *.
    set (x := B2R (B754_finite s m e Hb : f64)) in *.
    assert (Hq : (IZR q < 8)%R) by (unfold Rabs in Q1; destruct (Rcase_abs x); lra).
    apply lt_IZR in Hq.
    destruct s.
    + lia.
    + assert (Hx : (0 <= x)%R) by (unfold x, B2R, F2R; cbn [Fnum Fexp cond_Zopp]; apply Rmult_le_pos; [apply IZR_le; lia|apply bpow_ge_0]).
      rewrite Rabs_pos_eq in Q1 by exact Hx. assert (Hq4 : (IZR q < 4)%R) by lra. apply lt_IZR in Hq4. lia.
Qed.

(* ====================================================================== *)
(* exemplars stay sorted by value                                          *)
(* ====================================================================== *)
Definition vnn (l : list exemplar) : Prop := forall x, In x l -> is_nan (fst x) = false.

Fixpoint ssorted (l : list exemplar) : Prop :=
  match l with [] => True | a :: r => (forall x, In x r -> fle (fst a) (fst x) = true) /\ ssorted r end.

Lemma ssorted_of_ex_sorted : forall l, ex_sorted l = true -> ssorted l.
Proof.
  induction l as [|a r IH]; intros H; [exact I|]. destruct r as [|b r']; [split; [intros x []|exact I]|].
  change (ex_sorted (a :: b :: r')) with (fle (fst a) (fst b) && ex_sorted (b :: r')) in H.
  apply andb_prop in H. destruct H as [H1 H2]. specialize (IH H2). split; [|exact IH].
  intros x [<-|Hx]; [exact H1|]. apply fle_trans with (fst b); [exact H1|apply IH; exact Hx].
Qed.

Lemma ex_sorted_of_ssorted : forall l, ssorted l -> ex_sorted l = true.
Proof.
  induction l as [|a r IH]; intros H; [reflexivity|]. destruct r as [|b r']; [reflexivity|].
  destruct H as [H1 H2]. change (ex_sorted (a :: b :: r')) with (fle (fst a) (fst b) && ex_sorted (b :: r')).
  rewrite (H1 b (or_introl eq_refl)), (IH H2). reflexivity.
Qed.

Lemma ssorted_app a b : ssorted (a ++ b) <->
  ssorted a /\ ssorted b /\ (forall x y, In x a -> In y b -> fle (fst x) (fst y) = true).
Proof.
  induction a as [|h a IH]; cbn [app ssorted].
  - split; [intros H; repeat split; [exact H|intros x y []]|intros (_ & H & _); exact H].
  - rewrite IH. split.
    + intros (H1 & H2 & H3 & H4). repeat split; try assumption.
      * intros x Hx. apply H1. apply in_or_app. left. exact Hx.
      * intros x y [<-|Hx] Hy; [apply H1; apply in_or_app; right; exact Hy|apply H4; assumption].
    + intros ((H1 & H2) & H3 & H4). repeat split; try assumption.
      * intros x Hx. apply in_app_or in Hx. destruct Hx as [Hx|Hx]; [apply H1; exact Hx|apply H4; [left; reflexivity|exact Hx]].
      * intros x y Hx Hy. apply H4; [right; exact Hx|exact Hy].
Qed.

(* subsequences *)
Inductive subl : list exemplar -> list exemplar -> Prop :=
| subl_nil : subl [] []
| subl_both x a b : subl a b -> subl (x :: a) (x :: b)
| subl_skip x a b : subl a b -> subl a (x :: b).

Lemma subl_refl : forall l, subl l l. Proof. induction l; constructor; assumption. Qed.
Lemma subl_in a b : subl a b -> forall x, In x a -> In x b.
Proof. induction 1; intros y Hy; [destruct Hy|destruct Hy as [<-|Hy]; [left; reflexivity|right; auto]|right; auto]. Qed.
Lemma subl_app a a' b b' : subl a a' -> subl b b' -> subl (a ++ b) (a' ++ b').
Proof. induction 1; intros Hb; cbn [app]; [exact Hb|constructor; auto|constructor; auto]. Qed.
Lemma subl_sorted a b : subl a b -> ssorted b -> ssorted a.
Proof.
  induction 1 as [|x a b Hs IH|x a b Hs IH]; intros H; [exact I| |].
  - destruct H as [H1 H2]. split; [intros y Hy; apply H1; apply (subl_in a b Hs); exact Hy|apply IH; exact H2].
  - destruct H as [_ H2]. apply IH. exact H2.
Qed.
Lemma subl_skipn : forall n l, subl (skipn n l) l.
Proof. induction n as [|n IH]; intros l; [apply subl_refl|]. destruct l as [|x l]; [constructor|]. cbn. constructor. apply IH. Qed.
Lemma subl_delete : forall r X, subl (firstn r X ++ skipn (S r) X) X.
Proof.
  induction r as [|r IH]; intros X.
  - destruct X as [|x X]; [constructor|]. cbn. constructor. apply subl_refl.
  - destruct X as [|x X]; [constructor|]. cbn [firstn skipn app]. constructor. apply IH.
Qed.
Lemma skipn_add {A} : forall a b (l : list A), skipn (a + b) l = skipn a (skipn b l).
Proof.
  intros a b. revert a. induction b as [|b IH]; intros a l; [rewrite Nat.add_0_r; reflexivity|].
  destruct l as [|x l]; [rewrite !skipn_nil; reflexivity|]. replace (a + S b)%nat with (S (a + b)) by lia. cbn [skipn]. apply IH.
Qed.

(* first_idx splits the list at the first element satisfying p *)
Lemma first_idx_split p : forall l i0,
  let n := Z.to_nat (first_idx p l i0 - i0) in
  (forall x, In x (firstn n l) -> p x = false) /\ (forall y r, skipn n l = y :: r -> p y = true).
Proof.
  induction l as [|x l IH]; intros i0; cbn [first_idx].
  - replace (Z.to_nat (i0 - i0)) with 0%nat by lia. split; [intros y []|intros y r E; discriminate].
  - destruct (p x) eqn:Px.
    + replace (Z.to_nat (i0 - i0)) with 0%nat by lia. split; [intros y []|]. intros y r E. inversion E. subst. exact Px.
    + pose proof (first_idx_range p l (i0 + 1)) as R.
      replace (Z.to_nat (first_idx p l (i0 + 1) - i0)) with (S (Z.to_nat (first_idx p l (i0 + 1) - (i0 + 1)))) by lia.
      destruct (IH (i0 + 1)) as [A B]. cbn [firstn skipn]. split; [|exact B].
      intros y [<-|Hy]; [exact Px|apply A; exact Hy].
Qed.

Lemma insert_sorted (l : list exemplar) (e : exemplar) (n : nat) : ssorted l ->
  (forall x, In x (firstn n l) -> fle (fst x) (fst e) = true) ->
  (forall y, In y (skipn n l) -> fle (fst e) (fst y) = true) ->
  ssorted (firstn n l ++ [e] ++ skipn n l).
Proof.
  intros Hs Ha Hb. rewrite <- (firstn_skipn n l) in Hs. apply ssorted_app in Hs. destruct Hs as (S1 & S2 & S3).
  apply ssorted_app. split; [exact S1|]. split.
  - cbn [app ssorted]. split; [exact Hb|exact S2].
  - intros x y Hx [<-|Hy]; [apply Ha; exact Hx|apply S3; assumption].
Qed.

(* the insertion point computed by addExemplar keeps the order, with < (list not full) or <= (full) *)
Lemma insertion_point_ok (strict : bool) (l : list exemplar) (e : exemplar) : ssorted l -> vnn l -> is_nan (fst e) = false ->
  let p := fun x : exemplar => if strict then flt (fst e) (fst x) else fle (fst e) (fst x) in
  let n := Z.to_nat (first_idx p l 0) in
  (forall x, In x (firstn n l) -> fle (fst x) (fst e) = true) /\
  (forall y, In y (skipn n l) -> fle (fst e) (fst y) = true).
Proof.
  intros Hs Hv He p n. destruct (first_idx_split p l 0) as [A B]. replace (first_idx p l 0 - 0) with (first_idx p l 0) in * by lia.
  fold n in A, B. split.
  - intros x Hx. specialize (A x Hx). assert (Nx : is_nan (fst x) = false) by (apply Hv; apply (in_firstn x n l Hx)).
    unfold p in A. destruct strict.
    + destruct (fle_total (fst x) (fst e) Nx He) as [H|H]; [exact H|congruence].
    + apply (fle_false_iff _ _ He Nx) in A. apply flt_fle. exact A.
  - intros y Hy. destruct (skipn n l) as [|y0 r] eqn:E; [destruct Hy|].
    assert (P0 : fle (fst e) (fst y0) = true).
    { specialize (B y0 r eq_refl). unfold p in B. destruct strict; [apply flt_fle|]; exact B. }
    destruct Hy as [<-|Hy]; [exact P0|].
    rewrite <- (firstn_skipn n l) in Hs. apply ssorted_app in Hs. destruct Hs as (_ & S2 & _). rewrite E in S2.
    destruct S2 as [S2 _]. apply fle_trans with (fst y0); [exact P0|apply S2; exact Hy].
Qed.

Lemma replace_ex_sorted (l : list exemplar) r n (e : exemplar) : 0 <= r < zlen l -> 0 <= n <= zlen l ->
  ssorted (take n l ++ [e] ++ drop n l) -> ssorted (replace_ex l r n e).
Proof.
  intros Hr Hn Hs. unfold replace_ex, take, drop in *. unfold zlen in *.
  destruct (Z.eqb_spec r n) as [->|Hne].
  - assert (S1 : subl (skipn (Z.to_nat (n + 1)) l) (skipn (Z.to_nat n) l)).
    { replace (Z.to_nat (n + 1)) with (1 + Z.to_nat n)%nat by lia. rewrite skipn_add. apply subl_skipn. }
    apply (subl_sorted _ (firstn (Z.to_nat n) l ++ [e] ++ skipn (Z.to_nat n) l)); [|exact Hs].
    apply subl_app; [apply subl_refl|]. apply subl_app; [apply subl_refl|exact S1].
  - destruct (Z.ltb_spec r n) as [Hlt|Hge].
    + assert (S1 : subl (firstn (Z.to_nat r) l ++ skipn (Z.to_nat (r + 1)) (firstn (Z.to_nat n) l)) (firstn (Z.to_nat n) l)).
      { replace (firstn (Z.to_nat r) l) with (firstn (Z.to_nat r) (firstn (Z.to_nat n) l))
          by (rewrite firstn_firstn; f_equal; lia).
        replace (Z.to_nat (r + 1)) with (S (Z.to_nat r)) by lia. apply subl_delete. }
      rewrite app_assoc.
      apply (subl_sorted _ (firstn (Z.to_nat n) l ++ [e] ++ skipn (Z.to_nat n) l)); [|exact Hs].
      apply subl_app; [exact S1|apply subl_refl].
    + assert (S1 : subl (skipn (Z.to_nat n) (firstn (Z.to_nat r) l) ++ skipn (Z.to_nat (r + 1)) l) (skipn (Z.to_nat n) l)).
      { rewrite skipn_firstn_comm.
        replace (Z.to_nat (r + 1)) with (S (Z.to_nat r - Z.to_nat n) + Z.to_nat n)%nat by lia. rewrite skipn_add.
        apply subl_delete. }
      apply (subl_sorted _ (firstn (Z.to_nat n) l ++ [e] ++ skipn (Z.to_nat n) l)); [|exact Hs].
      apply subl_app; [apply subl_refl|]. apply subl_app; [apply subl_refl|exact S1].
Qed.

(* exemplars_sorted: for every oracle value and every TTL, inserting a non-NaN exemplar into a
   value-sorted list of non-NaN exemplars leaves it value-sorted *)
Lemma exemplars_sorted_lemma g l e o : ex_sorted l = true -> vnn l -> is_nan (fst e) = false ->
  ex_sorted (add_exemplar g l e o) = true.
Proof.
  intros Hs Hv He. apply ssorted_of_ex_sorted in Hs. apply ex_sorted_of_ssorted.
  unfold add_exemplar. destruct (ex_disabled g) eqn:Hd; [exact Hs|].
  assert (Hcap : 1 <= ex_cap g).
  { unfold ex_disabled in Hd. unfold ex_cap. destruct (Z.eqb_spec (g_ex_max g) 0); [lia|]. destruct (Z.ltb_spec (g_ex_max g) 0); [discriminate|lia]. }
  destruct (Z.ltb_spec (zlen l) (ex_cap g)) as [Hlt|Hge].
  - destruct (insertion_point_ok true l e Hs Hv He) as [A B]. cbv zeta in A, B.
    unfold take, drop. apply insert_sorted; assumption.
  - destruct (Z.eqb_spec (zlen l) 1); [split; [intros x []|exact I]|].
    pose proof (oldest_idx_range l 0 0 (-1) (or_introl eq_refl) ltac:(lia)) as O. cbv zeta in O.
    destruct (oldest_idx l 0 0 (-1)) as [ot otIdx]. cbn [snd] in O.
    pose proof (first_idx_range (fun x => fle (fst e) (fst x)) l 0) as R.
    pose proof (zlen_nonneg l) as L0.
    destruct (insertion_point_ok false l e Hs Hv He) as [A B]. cbv zeta in A, B.
    pose proof (insert_sorted l e _ Hs A B) as Hins.
    destruct (Z.eq_dec (zlen l) 0) as [E0|E0].
    + lia.
    + apply replace_ex_sorted; [|lia|exact Hins].
      destruct (negb (otIdx =? -1) && (ex_ttl g <? snd e - ot)).
      * destruct O as [(_ & -> & _)|O]; [unfold zlen in E0; cbn in E0; lia|lia].
      * apply choose_ridx_range; lia.
Qed.

(* ---- exemplar clauses over whole runs ---- *)
Definition frame (h h' : hist) : Prop := h_ex h' = h_ex h /\ h_clock h' = h_clock h /\ h_cfg h' = h_cfg h.
Lemma frame_refl h : frame h h. Proof. repeat split. Qed.
Lemma frame_trans a b c : frame a b -> frame b c -> frame a c.
Proof. intros (A1 & A2 & A3) (B1 & B2 & B3). repeat split; congruence. Qed.

Lemma maybe_reset_frame h v h' b : maybe_reset h v = Some (h', b) -> frame h h'.
Proof.
  unfold maybe_reset. destruct (_ || _ || _); [intros E; inversion E; apply frame_refl|].
  destruct (negb _); [discriminate|]. intros E. inversion E. repeat split.
Qed.

Lemma maybe_widen_frame h h' b : maybe_widen h = Some (h', b) -> frame h h'.
Proof.
  unfold maybe_widen. destruct (fge _ _); [intros E; inversion E; apply frame_refl|].
  destruct (_ =? max_int32); [intros E; inversion E; apply frame_refl|].
  destruct (fgt _ _); [intros E; inversion E; apply frame_refl|].
  destruct (m_del (c_neg (h_cold h)) _) as [neg1 ln]. destruct (m_del (c_pos (h_cold h)) _) as [pos1 lp].
  destruct (negb _); [discriminate|]. unfold add_and_reset_counts.
  destruct (widen_merge _ _ _ _ _ _) as [[[[cp hp] hzb1] hbn1] cbn1].
  destruct (widen_merge _ _ _ _ _ _) as [[[[cn hn] hzb2] hbn2] cbn2].
  intros E. inversion E. repeat split.
Qed.

Lemma double_width_frame h h' : double_width h = Some h' -> frame h h'.
Proof.
  unfold double_width. destruct (_ =? -4); [intros E; inversion E; apply frame_refl|].
  destruct (negb _); [discriminate|]. unfold add_and_reset_counts.
  destruct (double_merge _ _ _) as [hp bn1]. destruct (double_merge _ _ _) as [hn bn2].
  intros E. inversion E. repeat split.
Qed.

Lemma observe_frame h v h' : observe h v = Some h' -> frame h h'.
Proof.
  unfold observe, observe_k. set (h1 := with_sets h _ _ _).
  assert (F1 : frame h h1) by (repeat split).
  destruct (is_nan v); [intros E; inversion E; exact F1|].
  unfold limit_buckets. destruct (_ =? 0); [intros E; inversion E; exact F1|].
  destruct (_ <=? _); [intros E; inversion E; exact F1|].
  destruct (maybe_reset h1 v) as [[h2 [|]]|] eqn:R; [| |discriminate].
  - intros E. inversion E. subst. apply (frame_trans _ _ _ F1 (maybe_reset_frame _ _ _ _ R)).
  - pose proof (frame_trans _ _ _ F1 (maybe_reset_frame _ _ _ _ R)) as F2.
    match goal with |- context [maybe_widen ?x] => set (h3 := x) end.
    assert (F3 : frame h h3).
    { unfold h3. destruct (_ && _); [|exact F2]. destruct F2 as (A & B & C). repeat split; cbn; assumption. }
    destruct (maybe_widen h3) as [[h4 [|]]|] eqn:W; [| |discriminate].
    + intros E. inversion E. subst. apply (frame_trans _ _ _ F3 (maybe_widen_frame _ _ _ W)).
    + destruct (double_width h4) as [h5|] eqn:D; [|discriminate]. intros E. inversion E. subst.
      apply (frame_trans _ _ _ (frame_trans _ _ _ F3 (maybe_widen_frame _ _ _ W)) (double_width_frame _ _ D)).
Qed.

Lemma write_frame h h' w : write h = Some (h', w) ->
  frame h h' /\ w_ex w = (if ex_disabled (h_cfg h) then [] else h_ex h).
Proof.
  unfold write. destruct (negb _); [discriminate|].
  destruct (make_buckets (c_neg (h_hot h))) as [nsp nds]. destruct (make_buckets (c_pos (h_hot h))) as [psp pds].
  unfold add_and_reset_counts. destruct (merge_reset _ _ _) as [hp bn1]. destruct (merge_reset _ _ _) as [hn bn2].
  intros E. inversion E. repeat split.
Qed.

Lemma timer_reset_frame h h' : timer_reset h = Some h' -> frame h h'.
Proof. unfold timer_reset. destruct (negb _); [discriminate|]. intros E. inversion E. repeat split. Qed.

(* the exemplar-carrying non-NaN observations so far, with the clock at the call *)
Definition ex_obs_step (h : hist) (exs : list exemplar) (o : op) : list exemplar :=
  match o with OObsEx v _ => if is_nan v then exs else exs ++ [(v, h_clock h)] | _ => exs end.

Record ex_inv (h : hist) (exs : list exemplar) : Prop := mkExInv {
  x_len : zlen (h_ex h) <= ex_cap (h_cfg h);
  x_sorted : ex_sorted (h_ex h) = true;
  x_nn : vnn (h_ex h);
  x_from : forall x, In x (h_ex h) -> In x exs;
  x_last : ex_disabled (h_cfg h) = false -> forall e, last_opt exs = Some e -> In e (h_ex h)
}.

Lemma ex_cap_nonneg g : 0 <= ex_cap g.
Proof. unfold ex_cap. destruct (g_ex_max g =? 0); [lia|]. destruct (Z.ltb_spec (g_ex_max g) 0); lia. Qed.

Lemma ex_inv_new g : ex_inv (new_hist g) [].
Proof.
  constructor; cbn [new_hist h_ex h_cfg].
  - apply ex_cap_nonneg.
  - reflexivity.
  - intros x [].
  - intros x [].
  - intros _ e E. discriminate.
Qed.

Lemma ex_inv_frame h h' exs : frame h h' -> ex_inv h exs -> ex_inv h' exs.
Proof. intros (A & B & C) [X1 X2 X3 X4 X5]. constructor; rewrite ?A, ?C; assumption. Qed.

Lemma last_opt_snoc {A} (l : list A) x : last_opt (l ++ [x]) = Some x.
Proof. unfold last_opt. rewrite rev_app_distr. reflexivity. Qed.

Lemma step_ex_inv h exs o h' out : ex_inv h exs -> step h o = Some (h', out) ->
  ex_inv h' (ex_obs_step h exs o) /\ h_cfg h' = h_cfg h /\
  (forall w, out = Some w -> w_ex w = (if ex_disabled (h_cfg h) then [] else h_ex h)).
Proof.
  intros X E. destruct o as [v|v orc| |d|]; cbn [step ex_obs_step] in *.
  - destruct (observe h v) as [h1|] eqn:O; [|discriminate]. inversion E. subst.
    pose proof (observe_frame h v h' O) as F. split; [apply (ex_inv_frame h h' exs F X)|]. split; [apply F|intros w Hw; discriminate].
  - destruct (observe h v) as [h1|] eqn:O; [|discriminate]. inversion E. subst. clear E.
    pose proof (observe_frame h v h1 O) as F. pose proof (ex_inv_frame h h1 exs F X) as X1.
    destruct F as (F1 & F2 & F3). unfold update_exemplar. split; [|split; [destruct (is_nan v); cbn; exact F3|intros w Hw; discriminate]].
    destruct (is_nan v) eqn:Nv; [exact X1|]. destruct X1 as [L S N Fr La].
    constructor; cbn [h_ex h_cfg].
    + apply exemplars_bounded_lemma. exact L.
    + apply exemplars_sorted_lemma; [exact S|exact N|exact Nv].
    + intros x Hx. apply exemplars_from_lemma in Hx. destruct Hx as [->|Hx]; [exact Nv|apply N; exact Hx].
    + intros x Hx. apply exemplars_from_lemma in Hx. apply in_or_app. rewrite <- F2.
      destruct Hx as [->|Hx]; [right; left; reflexivity|left; apply Fr; exact Hx].
    + intros Hd e Hl. rewrite last_opt_snoc in Hl. inversion Hl. subst e. rewrite <- F2.
      apply exemplars_latest_lemma. exact Hd.
  - destruct (write h) as [[h1 w]|] eqn:W; [|discriminate]. inversion E. subst.
    destruct (write_frame h h' w W) as [F Ew]. split; [apply (ex_inv_frame h h' exs F X)|]. split; [apply F|].
    intros w0 Hw. inversion Hw. subst. exact Ew.
  - inversion E. subst. split; [|split; [reflexivity|intros w Hw; discriminate]].
    destruct X as [X1 X2 X3 X4 X5]. constructor; cbn [h_ex h_cfg]; assumption.
  - destruct (h_sched h).
    + destruct (timer_reset h) as [h1|] eqn:T; [|discriminate]. inversion E. subst.
      pose proof (timer_reset_frame h h' T) as F. split; [apply (ex_inv_frame h h' exs F X)|]. split; [apply F|intros w Hw; discriminate].
    + inversion E. subst. split; [exact X|]. split; [reflexivity|intros w Hw; discriminate].
Qed.

Lemma ex_eqb_refl x : ex_eqb x x = true.
Proof. unfold ex_eqb, fbits_eq. rewrite !Z.eqb_refl. reflexivity. Qed.

(* what a Write exposes satisfies the SPECIFICATION's exemplar clauses *)
Lemma ex_inv_check h exs : ex_inv h exs ->
  exemplars_check (h_cfg h) exs (if ex_disabled (h_cfg h) then [] else h_ex h) = true.
Proof.
  intros [L S N Fr La]. unfold exemplars_check. unfold ex_disabled in *.
  destruct (Z.ltb_spec (g_ex_max (h_cfg h)) 0) as [Hd|Hd]; [reflexivity|].
  destruct (Z.leb_spec (zlen (h_ex h)) (ex_cap (h_cfg h))); [|lia]. rewrite S. cbn [andb].
  assert (A : forallb (fun e => existsb (ex_eqb e) exs) (h_ex h) = true).
  { apply forallb_forall. intros x Hx. apply existsb_exists. exists x. split; [apply Fr; exact Hx|apply ex_eqb_refl]. }
  rewrite A. cbn [andb]. destruct (last_opt exs) as [e|] eqn:El; [|reflexivity].
  apply existsb_exists. exists e. split; [apply (La eq_refl e eq_refl)|apply ex_eqb_refl].
Qed.

(* the run paired with the exemplar-carrying observations made before each Write *)
Fixpoint run_exs (h : hist) (exs : list exemplar) (ops : list op) : option (list (wout * list exemplar)) :=
  match ops with
  | [] => Some []
  | o :: r =>
      match step h o with
      | None => None
      | Some (h', None) => run_exs h' (ex_obs_step h exs o) r
      | Some (h', Some w) => option_map (cons (w, exs)) (run_exs h' exs r)
      end
  end.

Lemma exemplars_run_lemma : forall ops h exs g, ex_inv h exs -> h_cfg h = g ->
  match run_exs h exs ops with
  | Some l => Forall (fun p => exemplars_check g (snd p) (w_ex (fst p)) = true) l
  | None => True
  end.
Proof.
  induction ops as [|o r IH]; intros h exs g X Hg; [constructor|]. cbn [run_exs].
  destruct (step h o) as [[h' [w|]]|] eqn:St; [| |exact I].
  - destruct (step_ex_inv h exs o h' (Some w) X St) as (X' & Eg & Ew).
    assert (Ho : ex_obs_step h exs o = exs) by (destruct o; cbn in St |- *; try reflexivity; destruct (observe h v); discriminate).
    rewrite Ho in X'. specialize (IH h' exs g X' ltac:(congruence)).
    destruct (run_exs h' exs r) as [l|]; [|exact I]. cbn [option_map]. constructor; [|exact IH].
    cbn [fst snd]. rewrite (Ew w eq_refl), <- Hg. apply ex_inv_check. exact X.
  - destruct (step_ex_inv h exs o h' None X St) as (X' & Eg & _).
    apply (IH h' _ g X'). congruence.
Qed.
