(* Proofs/C04_keys.v -- C04, first part (the second part is Proofs/C04_proofs.v).
   Lemmas about Model/NativeHist.v.  Sections:
   A. facts read off the generated boundary table (vm_compute over all 511 entries)
   B. spans/deltas: decode (make_buckets m) = m with small gaps zero-filled
   C. key computation: frexp range, halving law, key law on (frac, exp) pairs
   D. exemplars
   E. sequential accounting invariant over all operation sequences *)
From Coq Require Import ZArith List Bool Lia Reals Lra ZifyBool ZifyNat.
From Flocq Require Import Core.Core IEEE754.BinarySingleNaN.
From Verif Require Import Base.F64 Gen.Gen_Bounds Gen.Gen_Consts Model.ClassicHist Model.NativeHist
     Proofs.F64_order Proofs.C03_proofs.
Import ListNotations.
Open Scope Z_scope.

(* ====================================================================== *)
(* A. the generated table                                                  *)
(* ====================================================================== *)
Definition schemas08 : list Z := [0; 1; 2; 3; 4; 5; 6; 7; 8].

Lemma in_schemas08 s : 0 <= s <= 8 -> In s schemas08.
Proof. intros H. unfold schemas08. cbn. lia. Qed.

Ltac schema_cases s H :=
  assert (s = 0 \/ s = 1 \/ s = 2 \/ s = 3 \/ s = 4 \/ s = 5 \/ s = 6 \/ s = 7 \/ s = 8) as Hcases by lia;
  clear H; repeat (destruct Hcases as [Hcases|Hcases]; [subst s|]); [..|subst s].

(* row s has 2^s entries and starts with 1/2 *)
Lemma bounds_len_lemma s : 0 <= s <= 8 ->
  Z.of_nat (length (bounds_row s)) = 2 ^ s /\ nth_f (bounds_row s) 0 = half.
Proof. intros H. schema_cases s H; (split; [vm_compute; reflexivity|vm_compute; reflexivity]). Qed.

(* every row is strictly increasing *)
Lemma bounds_sorted_lemma s : 0 <= s <= 8 -> strictly_increasing_b (bounds_row s) = true.
Proof. intros H. schema_cases s H; vm_compute; reflexivity. Qed.

(* every entry lies in [1/2, 1) *)
Lemma bounds_range_lemma s : 0 <= s <= 8 ->
  forallb (fun b => fle half b && flt b fone && is_fin b) (bounds_row s) = true.
Proof. intros H. schema_cases s H; vm_compute; reflexivity. Qed.

(* the elements at even positions *)
Fixpoint evens {A} (l : list A) : list A :=
  match l with
  | a :: _ :: r => a :: evens r
  | [a] => [a]
  | [] => []
  end.

(* row s-1 consists of the even-position entries of row s, bit for bit *)
Lemma bounds_nested_evens s : 1 <= s <= 8 -> evens (bounds_row s) = bounds_row (s - 1).
Proof.
  intros H. assert (H' : 0 <= s <= 8) by lia.
  schema_cases s H'; try lia; vm_compute; reflexivity.
Qed.

Lemma evens_nth {A} (d : A) : forall (l : list A) (i : nat), nth i (evens l) d = nth (2 * i) l d.
Proof.
  fix IH 1. intros l i. destruct l as [|a [|b r]]; [destruct i; reflexivity| |].
  - destruct i as [|i]; [reflexivity|]. cbn [evens]. replace (2 * S i)%nat with (S (S (2 * i))) by lia.
    cbn [nth]. destruct i; reflexivity.
  - destruct i as [|i]; [reflexivity|]. cbn [evens]. replace (2 * S i)%nat with (S (S (2 * i))) by lia.
    cbn [nth]. apply IH.
Qed.

Lemma bounds_nested_lemma s i : 0 <= s <= 7 -> 0 <= i ->
  nth_f (bounds_row s) i = nth_f (bounds_row (s + 1)) (2 * i).
Proof.
  intros Hs Hi. pose proof (bounds_nested_evens (s + 1) ltac:(lia)) as E.
  replace (s + 1 - 1) with s in E by lia. rewrite <- E. unfold nth_f.
  rewrite evens_nth. f_equal. lia.
Qed.

(* ====================================================================== *)
(* B. spans and deltas                                                     *)
(* ====================================================================== *)
Fixpoint zeros_from (idx : Z) (n : nat) : list (Z * Z) :=
  match n with O => [] | S k => (idx, 0) :: zeros_from (idx + 1) k end.

(* what the exposition denotes: the map itself, gaps of one or two keys inside a span zero-filled *)
Fixpoint fill (m : bmap) (first : bool) (nextI : Z) : list (Z * Z) :=
  match m with
  | [] => []
  | (i, c) :: r =>
      (if first || Z.ltb 2 (i - nextI) then [] else zeros_from nextI (Z.to_nat (i - nextI)))
      ++ (i, c) :: fill r false (i + 1)
  end.

(* keys strictly increasing and at least lo *)
Fixpoint sorted_from (m : bmap) (lo : Z) : Prop :=
  match m with [] => True | (i, _) :: r => lo <= i /\ sorted_from r (i + 1) end.
Definition sorted_keys (m : bmap) : Prop :=
  match m with [] => True | (i, _) :: r => sorted_from r (i + 1) end.

Definition dec_cont (n : Z) (sp : list (Z * Z)) (idx cur : Z) (ds : list Z) : option (list (Z * Z)) :=
  match dec_span (Z.to_nat n) idx cur ds with
  | None => None
  | Some (l, c, rest) =>
      match dec_spans sp (idx + n) c rest with None => None | Some l' => Some (l ++ l') end
  end.

Lemma dec_span_app : forall a b idx cur ds,
  dec_span (a + b) idx cur ds =
  match dec_span a idx cur ds with
  | None => None
  | Some (l1, c1, r1) =>
      match dec_span b (idx + Z.of_nat a) c1 r1 with
      | None => None
      | Some (l2, c2, r2) => Some (l1 ++ l2, c2, r2)
      end
  end.
Proof.
  induction a as [|a IH]; intros b idx cur ds.
  - cbn [dec_span Nat.add]. replace (idx + Z.of_nat 0) with idx by lia.
    destruct (dec_span b idx cur ds) as [[[l c] r]|]; reflexivity.
  - cbn [dec_span Nat.add]. destruct ds as [|d ds']; [reflexivity|].
    rewrite IH. destruct (dec_span a (idx + 1) (cur + d) ds') as [[[l1 c1] r1]|]; [|reflexivity].
    replace (idx + 1 + Z.of_nat a) with (idx + Z.of_nat (S a)) by lia.
    destruct (dec_span b (idx + Z.of_nat (S a)) c1 r1) as [[[l2 c2] r2]|]; reflexivity.
Qed.

Lemma dec_span_zeros : forall k idx rest,
  dec_span k idx 0 (repeat 0 k ++ rest) = Some (zeros_from idx k, 0, rest).
Proof.
  induction k as [|k IH]; intros idx rest; [reflexivity|].
  cbn [repeat app dec_span]. replace (0 + 0) with 0 by lia. rewrite IH. reflexivity.
Qed.

Lemma dec_span_zero_deltas n prev idx rest : 0 <= n ->
  dec_span (Z.to_nat n) idx prev (zero_deltas n prev ++ rest) =
  Some (zeros_from idx (Z.to_nat n), (if Z.ltb 0 n then 0 else prev), rest).
Proof.
  intros Hn. unfold zero_deltas. destruct (Z.to_nat n) as [|k] eqn:E.
  - assert (n = 0) by lia. subst n. reflexivity.
  - assert (0 < n) by lia. destruct (Z.ltb_spec 0 n); [|lia].
    cbn [app dec_span]. replace (prev + (0 - prev)) with 0 by lia. rewrite dec_span_zeros. reflexivity.
Qed.

Lemma enc_nonneg : forall m first nextI prev,
  0 <= fst (fst (enc m first nextI prev)).
Proof.
  induction m as [|[i c] r IH]; intros first nextI prev; [cbn; lia|].
  cbn [enc]. specialize (IH false (i + 1) c).
  destruct (enc r false (i + 1) c) as [[n sp] ds]. cbn [fst] in IH.
  destruct (first || (2 <? i - nextI)); cbn [fst]; lia.
Qed.

(* opening a new span at key i *)
Lemma new_span_step (i c prev idx0 n' : Z) sp' ds' l' : 0 <= n' ->
  dec_cont n' sp' (i + 1) c ds' = Some l' ->
  dec_spans ((i - idx0, 1 + n') :: sp') idx0 prev ((c - prev) :: ds') = Some ((i, c) :: l').
Proof.
  intros Hn H. unfold dec_cont in H. cbn [dec_spans].
  destruct (Z.ltb_spec (1 + n') 0); [lia|].
  replace (Z.to_nat (1 + n')) with (S (Z.to_nat n')) by lia. cbn [dec_span].
  replace (idx0 + (i - idx0)) with i by lia. replace (prev + (c - prev)) with c by lia.
  destruct (dec_span (Z.to_nat n') (i + 1) c ds') as [[[l1 c1] r1]|]; [|discriminate].
  replace (i + (1 + n')) with (i + 1 + n') by lia.
  destruct (dec_spans sp' (i + 1 + n') c1 r1) as [l2|]; [|discriminate].
  inversion H. reflexivity.
Qed.

Lemma enc_decodes : forall m nextI prev, sorted_from m nextI ->
  let '(n, sp, ds) := enc m false nextI prev in
  dec_cont n sp nextI prev ds = Some (fill m false nextI).
Proof.
  induction m as [|[i c] r IH]; intros nextI prev Hs.
  - cbn. reflexivity.
  - cbn [sorted_from] in Hs. destruct Hs as [Hlo Hs].
    cbn [enc fill]. specialize (IH (i + 1) c Hs).
    pose proof (enc_nonneg r false (i + 1) c) as Hn.
    destruct (enc r false (i + 1) c) as [[n' sp'] ds']. cbn [fst] in Hn.
    cbn [orb]. destruct (Z.ltb_spec 2 (i - nextI)) as [Hg|Hg].
    + unfold dec_cont at 1. cbn [Z.to_nat dec_span]. replace (nextI + 0) with nextI by lia.
      rewrite (new_span_step i c prev nextI n' sp' ds' _ Hn IH). reflexivity.
    + unfold dec_cont. replace (Z.max 0 (i - nextI)) with (i - nextI) by lia.
      replace (Z.to_nat (i - nextI + 1 + n')) with (Z.to_nat (i - nextI) + (1 + Z.to_nat n'))%nat by lia.
      rewrite dec_span_app. rewrite dec_span_zero_deltas by lia.
      replace (nextI + Z.of_nat (Z.to_nat (i - nextI))) with i by lia.
      rewrite dec_span_app. cbn [dec_span Nat.add].
      replace ((if 0 <? i - nextI then 0 else prev) + (c - (if 0 <? i - nextI then 0 else prev))) with c by (destruct (0 <? i - nextI); lia).
      replace (i + Z.of_nat 1) with (i + 1) by lia.
      unfold dec_cont in IH.
      destruct (dec_span (Z.to_nat n') (i + 1) c ds') as [[[l1 c1] r1]|]; [|discriminate].
      replace (nextI + (i - nextI + 1 + n')) with (i + 1 + n') by lia.
      destruct (dec_spans sp' (i + 1 + n') c1 r1) as [l2|]; [|discriminate].
      inversion IH. cbn [app]. rewrite <- app_assoc. reflexivity.
Qed.

(* spans_decode: for every finite map with strictly increasing keys, what makeBuckets emits
   decodes to the map itself with the small gaps zero-filled *)
Lemma spans_decode_lemma (m : bmap) : sorted_keys m ->
  decode (fst (make_buckets m)) (snd (make_buckets m)) = Some (fill m true 0).
Proof.
  intros Hs. unfold make_buckets, decode. destruct m as [|[i c] r]; [reflexivity|].
  cbn [sorted_keys] in Hs. cbn [enc fill orb].
  pose proof (enc_decodes r (i + 1) c Hs) as IH.
  pose proof (enc_nonneg r false (i + 1) c) as Hn.
  destruct (enc r false (i + 1) c) as [[n' sp'] ds']. cbn [fst snd] in *.
  replace (c - 0) with c by lia.
  pose proof (new_span_step i c 0 0 n' sp' ds' _ Hn IH) as E.
  replace (c - 0) with c in E by lia. cbn [app]. exact E.
Qed.

(* the filled list denotes the same population function, adds no mass, keeps signs and order *)
Lemma m_get_zeros k : forall n idx, m_get (zeros_from idx n) k = 0.
Proof. induction n as [|n IH]; intros idx; [reflexivity|]. cbn [zeros_from m_get]. destruct (k =? idx); [reflexivity|apply IH]. Qed.

Lemma m_get_app_zeros k l : forall n idx, m_get (zeros_from idx n ++ l) k =
  if (Z.leb idx k && Z.ltb k (idx + Z.of_nat n)) then 0 else m_get l k.
Proof.
  induction n as [|n IH]; intros idx.
  - cbn [zeros_from app]. destruct (Z.leb_spec idx k), (Z.ltb_spec k (idx + Z.of_nat 0)); cbn; try reflexivity; lia.
  - cbn [zeros_from app m_get]. destruct (Z.eqb_spec k idx) as [->|Hne].
    + destruct (Z.leb_spec idx idx), (Z.ltb_spec idx (idx + Z.of_nat (S n))); cbn; try reflexivity; lia.
    + rewrite IH. destruct (Z.leb_spec (idx + 1) k), (Z.ltb_spec k (idx + 1 + Z.of_nat n)),
        (Z.leb_spec idx k), (Z.ltb_spec k (idx + Z.of_nat (S n))); cbn; try reflexivity; lia.
Qed.

Lemma m_get_below : forall m lo k, sorted_from m lo -> k < lo -> m_get m k = 0.
Proof.
  induction m as [|[i c] r IH]; intros lo k Hs Hk; [reflexivity|].
  cbn [sorted_from] in Hs. destruct Hs as [H1 H2]. cbn [m_get].
  destruct (Z.eqb_spec k i); [lia|]. apply (IH (i + 1)); [exact H2|lia].
Qed.

Lemma fill_get_from : forall m lo k, sorted_from m lo -> m_get (fill m false lo) k = m_get m k.
Proof.
  induction m as [|[i c] r IH]; intros lo k Hs; [reflexivity|].
  cbn [sorted_from] in Hs. destruct Hs as [H1 H2]. cbn [fill orb].
  destruct (Z.ltb_spec 2 (i - lo)).
  - cbn [app m_get]. destruct (k =? i); [reflexivity|]. apply IH. exact H2.
  - rewrite m_get_app_zeros. cbn [m_get].
    destruct (Z.leb_spec lo k), (Z.ltb_spec k (lo + Z.of_nat (Z.to_nat (i - lo)))); cbn [andb].
    + destruct (Z.eqb_spec k i); [lia|]. symmetry. apply (m_get_below r (i + 1)); [exact H2|lia].
    + destruct (k =? i); [reflexivity|]. apply IH. exact H2.
    + destruct (k =? i); [reflexivity|]. apply IH. exact H2.
    + destruct (k =? i); [reflexivity|]. apply IH. exact H2.
Qed.

Lemma fill_get (m : bmap) k : sorted_keys m -> m_get (fill m true 0) k = m_get m k.
Proof.
  destruct m as [|[i c] r]; [reflexivity|]. cbn [sorted_keys fill orb app m_get]. intros Hs.
  destruct (k =? i); [reflexivity|]. apply fill_get_from. exact Hs.
Qed.

Lemma zsum_zeros : forall n idx, zsum (map snd (zeros_from idx n)) = 0.
Proof. induction n as [|n IH]; intros idx; [reflexivity|]. cbn. rewrite IH. reflexivity. Qed.

Lemma zsum_app a b : zsum (a ++ b) = zsum a + zsum b.
Proof. induction a as [|x a IH]; cbn; [reflexivity|]. unfold zsum in *. cbn. rewrite IH. lia. Qed.

Lemma fill_total : forall m first lo, zsum (map snd (fill m first lo)) = zsum (map snd m).
Proof.
  induction m as [|[i c] r IH]; intros first lo; [reflexivity|].
  cbn [fill]. rewrite map_app, zsum_app. cbn [map snd]. 
  change (zsum (c :: map snd (fill r false (i + 1)))) with (c + zsum (map snd (fill r false (i + 1)))).
  change (zsum (map snd ((i, c) :: r))) with (c + zsum (map snd r)).
  rewrite IH. destruct (first || (2 <? i - lo)); [reflexivity|]. rewrite zsum_zeros. reflexivity.
Qed.

Lemma fill_nonneg : forall m first lo, (forall p, In p m -> 0 <= snd p) ->
  forall p, In p (fill m first lo) -> 0 <= snd p.
Proof.
  induction m as [|[i c] r IH]; intros first lo H p Hp; [destruct Hp|].
  cbn [fill] in Hp. apply in_app_or in Hp. destruct Hp as [Hp|[Hp|Hp]].
  - destruct (first || (2 <? i - lo)); [destruct Hp|].
    clear - Hp. revert Hp. generalize (Z.to_nat (i - lo)) as n. intros n. revert lo.
    induction n as [|n IHn]; intros lo Hp; [destruct Hp|]. destruct Hp as [<-|Hp]; [cbn; lia|]. apply (IHn _ Hp).
  - subst p. apply (H (i, c)). left. reflexivity.
  - apply (IH false (i + 1)); [|exact Hp]. intros q Hq. apply H. right. exact Hq.
Qed.

Lemma sorted_from_zeros_app : forall n idx l, sorted_from l (idx + Z.of_nat n) -> sorted_from (zeros_from idx n ++ l) idx.
Proof.
  induction n as [|n IH]; intros idx l H.
  - cbn. replace (idx + Z.of_nat 0) with idx in H by lia. exact H.
  - cbn [zeros_from app sorted_from]. split; [lia|]. apply IH. replace (idx + 1 + Z.of_nat n) with (idx + Z.of_nat (S n)) by lia. exact H.
Qed.

Lemma fill_sorted_from : forall m lo, sorted_from m lo -> sorted_from (fill m false lo) lo.
Proof.
  induction m as [|[i c] r IH]; intros lo Hs; [exact I|].
  cbn [sorted_from] in Hs. destruct Hs as [H1 H2]. cbn [fill orb]. destruct (Z.ltb_spec 2 (i - lo)).
  - cbn [app sorted_from]. split; [exact H1|apply IH; exact H2].
  - apply sorted_from_zeros_app. replace (lo + Z.of_nat (Z.to_nat (i - lo))) with i by lia.
    cbn [sorted_from]. split; [lia|apply IH; exact H2].
Qed.

(* the decoded list has strictly increasing keys *)
Lemma fill_sorted (m : bmap) : sorted_keys m -> exists lo, sorted_from (fill m true 0) lo.
Proof.
  destruct m as [|[i c] r]; intros Hs; [exists 0; exact I|]. cbn [sorted_keys] in Hs. cbn [fill orb app].
  exists i. cbn [sorted_from]. split; [lia|apply fill_sorted_from; exact Hs].
Qed.

(* ====================================================================== *)
(* C. key computation                                                      *)
(* ====================================================================== *)

(* ---- float facts ---- *)
Lemma half_fields : match half with
                    | B754_finite s m e _ => (negb s && (Z.pos m =? 2 ^ 52) && (e =? -53)) = true
                    | _ => False end.
Proof. vm_compute. reflexivity. Qed.

Lemma B2R_half : B2R half = (/ 2)%R.
Proof.
  pose proof half_fields as H. destruct half as [| | |s m e Hb]; try contradiction.
  apply andb_prop in H. destruct H as [H He]. apply andb_prop in H. destruct H as [Hs Hm].
  destruct s; [discriminate|]. apply Z.eqb_eq in Hm. apply Z.eqb_eq in He. subst e.
  unfold B2R, F2R, cond_Zopp. cbn [Fnum Fexp]. rewrite Hm.
  change (bpow radix2 (-53)) with (/ IZR (2 ^ 53))%R.
  change (2 ^ 52) with 4503599627370496. change (2 ^ 53) with 9007199254740992. lra.
Qed.

Lemma is_fin_half : is_fin half = true. Proof. vm_compute. reflexivity. Qed.
Lemma B2R_fone : B2R fone = 1%R. Proof. unfold fone. apply Bone_correct. Qed.
Lemma is_fin_fone : is_fin fone = true. Proof. vm_compute. reflexivity. Qed.

Lemma fle_of_R x y : is_fin x = true -> is_fin y = true -> (B2R x <= B2R y)%R -> fle x y = true.
Proof.
  intros Fx Fy H. apply (fle_iff_fin x y Fx Fy).
  assert (Nx : is_nan x = false) by (destruct x; try discriminate; reflexivity).
  assert (Ny : is_nan y = false) by (destruct y; try discriminate; reflexivity).
  repeat split; try assumption. unfold ele. rewrite !ecls_fin by assumption. right. split; [reflexivity|]. right. exact H.
Qed.
Lemma flt_of_R x y : is_fin x = true -> is_fin y = true -> (B2R x < B2R y)%R -> flt x y = true.
Proof.
  intros Fx Fy H. apply (flt_iff_fin x y Fx Fy).
  assert (Nx : is_nan x = false) by (destruct x; try discriminate; reflexivity).
  assert (Ny : is_nan y = false) by (destruct y; try discriminate; reflexivity).
  repeat split; try assumption. unfold elt. rewrite !ecls_fin by assumption. right. repeat split. exact H.
Qed.

(* math.Frexp on a finite non-zero magnitude: the fraction is a float in [1/2, 1) *)
Lemma frexp_range (x : f64) : is_finite_strict x = true -> (0 < B2R x)%R ->
  let (fr, e) := frexp x in
  is_fin fr = true /\ fle half fr = true /\ flt fr fone = true /\ (B2R x = B2R fr * bpow radix2 e)%R.
Proof.
  intros Hs Hpos. destruct x as [| | |s m e Hb]; try discriminate. unfold frexp.
  pose proof (@Bfrexp_correct 53 1024 Hprec_gt0_64 (B754_finite s m e Hb) Hs) as H.
  destruct (Bfrexp (B754_finite s m e Hb)) as [z ez]. destruct H as [Heq Hr].
  destruct (Hr ltac:(lia)) as [[Hlo Hhi] _].
  assert (Hz : (0 < B2R z)%R).
  { pose proof (bpow_gt_0 radix2 ez) as Hb0. rewrite Heq in Hpos.
    destruct (Rle_or_lt (B2R z) 0) as [Hle|Hgt]; [|exact Hgt].
    exfalso. assert (0 <= (- B2R z) * bpow radix2 ez)%R by (apply Rmult_le_pos; lra). lra. }
  rewrite Rabs_pos_eq in Hlo, Hhi by lra.
  assert (Fz : is_fin z = true).
  { destruct z; try reflexivity; cbn in Hz; lra. }
  split; [exact Fz|]. split; [|split; [|exact Heq]].
  - apply fle_of_R; [apply is_fin_half|exact Fz|rewrite B2R_half; exact Hlo].
  - apply flt_of_R; [exact Fz|apply is_fin_fone|rewrite B2R_fone; exact Hhi].
Qed.

Lemma feq_fle x y : feq x y = fle x y && fle y x.
Proof.
  unfold feq, fle, fcmp. rewrite (@Bcompare_swap 53 1024 x y).
  destruct (Bcompare x y) as [[| |]|]; reflexivity.
Qed.

(* ---- the halving operator is the ceiling of k/2 ---- *)
Lemma halve_ceil k : halve k = (k + 1) / 2.
Proof.
  unfold halve. destruct (Z.ltb_spec 0 k); Z.to_euclidean_division_equations; lia.
Qed.

(* ---- even positions of a sorted row ---- *)
Lemma evens_In {A} (x : A) : forall l, In x (evens l) -> In x l.
Proof.
  fix IH 1. intros l H. destruct l as [|a [|b r]]; [destruct H|exact H|].
  cbn [evens] in H. destruct H as [->|H]; [left; reflexivity|]. right. right. apply IH. exact H.
Qed.

Lemma split_zero_of_all v l : (forall x, In x l -> fle v x = true) -> split v l = 0%nat.
Proof.
  intros H. unfold split. rewrite filter_none; [reflexivity|]. intros x Hx. rewrite (H x Hx). reflexivity.
Qed.

Lemma split_evens v : forall l, strictly_increasing_b l = true ->
  Z.of_nat (split v (evens l)) = (Z.of_nat (split v l) + 1) / 2.
Proof.
  fix IH 1. intros l Hs. destruct l as [|a [|b r]].
  - reflexivity.
  - cbn [evens]. destruct (fle v a) eqn:Ha.
    + rewrite (split_cons_true v a [] Hs Ha). reflexivity.
    + rewrite (split_cons_false v a [] Ha). reflexivity.
  - cbn [evens]. assert (Hs' : strictly_increasing_b (b :: r) = true) by (apply si_tail with a; exact Hs).
    destruct (fle v a) eqn:Ha.
    + rewrite (split_cons_true v a (b :: r) Hs Ha).
      rewrite split_zero_of_all; [reflexivity|].
      intros x [<-|Hx]; [exact Ha|]. apply (mono_true v a (b :: r) Hs Ha). right. apply evens_In. exact Hx.
    + rewrite (split_cons_false v a (b :: r) Ha), (split_cons_false v a (evens r) Ha).
      destruct (fle v b) eqn:Hb.
      * rewrite (split_cons_true v b r Hs' Hb).
        rewrite split_zero_of_all; [reflexivity|].
        intros x Hx. apply (mono_true v b r Hs' Hb). apply evens_In. exact Hx.
      * rewrite (split_cons_false v b r Hb).
        assert (Hs'' : strictly_increasing_b r = true) by (apply si_tail with b; exact Hs').
        specialize (IH r Hs''). rewrite !Nat2Z.inj_succ. rewrite IH.
        Z.to_euclidean_division_equations; lia.
Qed.

(* ---- the key as table index + exponent offset, schemas 0..8 ---- *)
Lemma row0 : bounds_row 0 = [half]. Proof. vm_compute. reflexivity. Qed.

Lemma key_table s fr e : 0 <= s <= 8 -> fle half fr = true ->
  key_frac_exp s fr e = Z.of_nat (split fr (bounds_row s)) + (e - 1) * 2 ^ s.
Proof.
  intros Hs Hh. unfold key_frac_exp. destruct (Z.ltb_spec 0 s) as [Hp|Hp].
  - rewrite search_float64s_spec by (apply bounds_sorted_lemma; lia).
    destruct (bounds_len_lemma s Hs) as [Hl _]. rewrite Hl. reflexivity.
  - assert (s = 0) by lia. subst s. rewrite row0. unfold split. cbn [filter].
    rewrite feq_fle, Hh, andb_true_r. cbn [Z.opp Z.pow Z.pow_pos Pos.iter Z.mul Pos.mul].
    rewrite Z.div_1_r. destruct (fle fr half); cbn [negb length Z.of_nat]; change (Z.pos (Pos.of_succ_nat 0)) with 1; lia.
Qed.

Lemma halving_table s fr e : 1 <= s <= 8 -> fle half fr = true ->
  key_frac_exp (s - 1) fr e = halve (key_frac_exp s fr e).
Proof.
  intros Hs Hh. rewrite (key_table (s - 1) fr e ltac:(lia) Hh), (key_table s fr e ltac:(lia) Hh).
  rewrite <- (bounds_nested_evens s Hs).
  rewrite (split_evens fr (bounds_row s) (bounds_sorted_lemma s ltac:(lia))).
  rewrite halve_ceil.
  assert (E2 : 2 ^ s = 2 ^ (s - 1) * 2).
  { replace s with (s - 1 + 1) at 1 by lia. rewrite Z.pow_add_r by lia. reflexivity. }
  rewrite E2.
  set (n := 2 ^ (s - 1)). set (p := Z.of_nat (split fr (bounds_row s))).
  replace (p + (e - 1) * (n * 2) + 1) with (p + 1 + ((e - 1) * n) * 2) by lia.
  rewrite Z.div_add by lia. reflexivity.
Qed.

Lemma halving_shift s fr e : -3 <= s <= 0 ->
  key_frac_exp (s - 1) fr e = halve (key_frac_exp s fr e).
Proof.
  intros Hs. unfold key_frac_exp. destruct (Z.ltb_spec 0 (s - 1)); [lia|]. destruct (Z.ltb_spec 0 s); [lia|].
  set (k := if feq fr half then e - 1 else e). rewrite halve_ceil.
  replace (- (s - 1)) with (- s + 1) by lia. rewrite Z.pow_add_r by lia. change (2 ^ 1) with 2.
  set (w := 2 ^ (- s)). assert (Hw : 0 < w) by (apply Z.pow_pos_nonneg; lia).
  rewrite <- Z.div_div by lia.
  replace (k + (w * 2 - 1)) with (k + (w - 1) + 1 * w) by lia. rewrite Z.div_add by lia. reflexivity.
Qed.

(* key_halving on (frac, exp) pairs with 1/2 <= frac: the merge rule of doubleBucketWidth *)
Lemma key_halving_frac s fr e : -3 <= s <= 8 -> fle half fr = true ->
  key_frac_exp (s - 1) fr e = halve (key_frac_exp s fr e).
Proof.
  intros Hs Hh. destruct (Z_lt_le_dec 0 s); [apply halving_table; [lia|exact Hh]|apply halving_shift; lia].
Qed.

(* ---- key_halving on floats ---- *)
Definition schemas_m3_8 : list Z := [-3; -2; -1; 0; 1; 2; 3; 4; 5; 6; 7; 8].

Lemma key_halving_inf_all :
  forallb (fun s => Z.eqb (key_of (s - 1) pinf) (halve (key_of s pinf)) &&
                    Z.eqb (key_of (s - 1) ninf) (halve (key_of s ninf))) schemas_m3_8 = true.
Proof. vm_compute. reflexivity. Qed.

Lemma B2R_fabs_pos s m e Hb : (0 < B2R (fabs (B754_finite s m e Hb : f64)))%R.
Proof. unfold fabs. cbn. apply F2R_gt_0. cbn. lia. Qed.

Lemma key_of_finite sch s m e Hb :
  key_of sch (B754_finite s m e Hb) =
  key_frac_exp sch (fst (frexp (fabs (B754_finite s m e Hb)))) (snd (frexp (fabs (B754_finite s m e Hb)))).
Proof.
  unfold key_of. change (inf_to_max (B754_finite s m e Hb)) with (B754_finite s m e Hb : f64).
  change (is_inf (B754_finite s m e Hb)) with false.
  destruct (frexp (fabs (B754_finite s m e Hb))) as [fr ex]. reflexivity.
Qed.

Lemma frexp_fabs_range s m e Hb :
  let x := fabs (B754_finite s m e Hb : f64) in
  is_fin (fst (frexp x)) = true /\ fle half (fst (frexp x)) = true /\ flt (fst (frexp x)) fone = true /\
  (B2R x = B2R (fst (frexp x)) * bpow radix2 (snd (frexp x)))%R.
Proof.
  intros x. pose proof (frexp_range x eq_refl (B2R_fabs_pos s m e Hb)) as H.
  destruct (frexp x) as [fr ex]. exact H.
Qed.

(* key_halving: halving the resolution maps the bucket of every observation to the bucket it has
   under the coarser schema (all floats except NaN and +-0, which never enter a sparse bucket) *)
Lemma key_halving_lemma s v : -3 <= s <= 8 -> is_nan v = false -> feq v pzero = false ->
  key_of (s - 1) v = halve (key_of s v).
Proof.
  intros Hs Hn Hz. destruct v as [sg|sg| |sg m e Hb]; try discriminate.
  - assert (Hin : In s schemas_m3_8) by (unfold schemas_m3_8; cbn; lia).
    pose proof (proj1 (forallb_forall _ _) key_halving_inf_all s Hin) as E. cbv beta in E.
    apply andb_prop in E. destruct E as [E1 E2]. apply Z.eqb_eq in E1. apply Z.eqb_eq in E2.
    destruct sg; assumption.
  - rewrite !key_of_finite. apply key_halving_frac; [exact Hs|].
    apply (frexp_fabs_range sg m e Hb).
Qed.

(* ---- key law on (frac, exp) pairs: the table/shift part ---- *)
Lemma split_le_len v bs : (split v bs <= length bs)%nat.
Proof. apply split_le_length. Qed.

Lemma row_entry_fin s i : 0 <= s <= 8 -> (i < length (bounds_row s))%nat ->
  is_fin (nth i (bounds_row s) fnan) = true.
Proof.
  intros Hs Hi. pose proof (bounds_range_lemma s Hs) as H.
  pose proof (proj1 (forallb_forall _ _) H _ (nth_In _ fnan Hi)) as E. cbv beta in E.
  apply andb_prop in E. apply E.
Qed.

(* For schema 0..8 and 1/2 <= frac < 1 the key is p + (exp-1)*2^s where p = number of table
   entries below frac; table[p-1] < frac <= table[p].  Hence, with B s k = table[k mod 2^s] *
   2^(k div 2^s + 1): for 0 < p < 2^s, B(k-1) = table[p-1]*2^exp < frac*2^exp <= table[p]*2^exp = B(k);
   for p = 0 (frac = 1/2), B(k-1) = table[2^s-1]*2^(exp-1) < 2^(exp-1) = frac*2^exp = B(k);
   for p = 2^s, B(k) = table[0]*2^(exp+1) = 2^exp > frac*2^exp. *)
Lemma key_law_table_partial s fr e : 0 <= s <= 8 -> fle half fr = true ->
  let n := 2 ^ s in
  let k := key_frac_exp s fr e in
  let p := k - (e - 1) * n in
  0 <= p <= n /\
  (p < n -> fle fr (nth_f (bounds_row s) p) = true /\ k mod n = p /\ k / n + 1 = e) /\
  (p = n -> k mod n = 0 /\ k / n + 1 = e + 1) /\
  (0 < p -> flt (nth_f (bounds_row s) (p - 1)) fr = true /\ (k - 1) mod n = p - 1 /\ (k - 1) / n + 1 = e) /\
  (p = 0 -> feq fr half = true /\ (k - 1) mod n = n - 1 /\ (k - 1) / n + 1 = e - 1).
Proof.
  intros Hs Hh n k p. subst k p. rewrite (key_table s fr e Hs Hh). fold n.
  set (p := Z.of_nat (split fr (bounds_row s))).
  replace (p + (e - 1) * n - (e - 1) * n) with p by lia.
  destruct (bounds_len_lemma s Hs) as [Hl H0]. fold n in Hl.
  pose proof (split_le_len fr (bounds_row s)) as Hple.
  pose proof (bounds_sorted_lemma s Hs) as Hsi.
  assert (Hn : 0 < n) by (apply Z.pow_pos_nonneg; lia).
  assert (Hfr : is_nan fr = false) by (apply fle_nonnan in Hh; apply Hh).
  split; [lia|]. split; [|split; [|split]].
  - intros Hp. split.
    + unfold nth_f. apply split_nth_ge; [exact Hsi|lia|lia].
    + replace (p + (e - 1) * n) with (p + (e - 1) * n) by lia.
      rewrite Z.mod_add by lia. rewrite Z.div_add by lia. rewrite Z.mod_small, Z.div_small by lia. lia.
  - intros Hp. rewrite Hp. replace (n + (e - 1) * n) with (0 + e * n) by lia.
    rewrite Z.mod_add, Z.div_add by lia. rewrite Z.mod_small, Z.div_small by lia. lia.
  - intros Hp. split.
    + unfold nth_f. apply fle_false_iff; [exact Hfr| |].
      * assert (Hf : is_fin (nth (Z.to_nat (p - 1)) (bounds_row s) fnan) = true) by (apply row_entry_fin; [exact Hs|lia]).
        destruct (nth (Z.to_nat (p - 1)) (bounds_row s) fnan); try discriminate; reflexivity.
      * apply split_nth_lt; [exact Hsi|lia].
    + replace (p + (e - 1) * n - 1) with (p - 1 + (e - 1) * n) by lia.
      rewrite Z.mod_add, Z.div_add by lia. rewrite Z.mod_small, Z.div_small by lia. lia.
  - intros Hp. split.
    + rewrite feq_fle, Hh, andb_true_r. rewrite <- H0. unfold nth_f. apply split_nth_ge; [exact Hsi|lia|lia].
    + rewrite Hp. replace (0 + (e - 1) * n - 1) with (n - 1 + (e - 2) * n) by lia.
      rewrite Z.mod_add, Z.div_add by lia. rewrite Z.mod_small, Z.div_small by lia. lia.
Qed.

(* schema <= 0: bucket k covers (2^(w(k-1)), 2^(wk)] with w = 2^-schema; in exponents:
   w*(k-1) < k0 <= w*k where |v| = 2^k0 exactly (frac = 1/2, k0 = exp-1) or 2^(k0-1) < |v| < 2^k0 *)
Lemma key_law_shift_partial s fr e : -4 <= s <= 0 ->
  let w := 2 ^ (- s) in
  let k := key_frac_exp s fr e in
  let k0 := if feq fr half then e - 1 else e in
  w * (k - 1) < k0 <= w * k.
Proof.
  intros Hs w k k0. subst k. unfold key_frac_exp. destruct (Z.ltb_spec 0 s); [lia|]. fold k0. fold w.
  assert (Hw : 0 < w) by (apply Z.pow_pos_nonneg; lia).
  Z.to_euclidean_division_equations; nia.
Qed.

