(* Proofs/C02_proofs.v -- C02: every histogram/summary scrape is a consistent point-in-time snapshot.
   Inductive invariant of the hot/cold count-set protocol (Model/HotCold.v) under the interleaving
   semantics of Base/Conc.v, for ALL bucket layouts, program lists and schedules.
   Layout: 0 list/Z helpers, Permutation tactic; 1 to_bits injective; 2 SumOf; 3 generic Conc facts;
   4 ghost state and invariant (histogram); 5 preservation; 6 theorems (histogram);
   7 summary machine; 8 examples. *)
From Coq Require Import ZArith List Bool Lia ZifyBool Sorted Permutation Morphisms Setoid.
From Flocq Require Import Core.Core IEEE754.BinarySingleNaN.
From Verif Require Import Base.F64 Base.Conc Model.ClassicHist Model.HotCold Proofs.C03_proofs.
Import ListNotations.
Open Scope Z_scope.
Notation hist := Conc.hist (only parsing).   (* not ClassicHist.hist *)

(* ====================================================================== *)
(* 0. helpers                                                              *)
(* ====================================================================== *)

Definition zsum (l : list Z) : Z := fold_right Z.add 0 l.
Definition zlen {A} (l : list A) : Z := Z.of_nat (length l).

Lemma zlen_app {A} (l1 l2 : list A) : zlen (l1 ++ l2) = zlen l1 + zlen l2.
Proof. unfold zlen. rewrite app_length. lia. Qed.
Lemma zlen_nil {A} : zlen (@nil A) = 0. Proof. reflexivity. Qed.
Lemma zlen_one {A} (x : A) : zlen [x] = 1. Proof. reflexivity. Qed.
Lemma zlen_nonneg {A} (l : list A) : 0 <= zlen l. Proof. unfold zlen. lia. Qed.
Lemma zlen_zero {A} (l : list A) : zlen l = 0 -> l = [].
Proof. destruct l; [reflexivity|unfold zlen; cbn [length]; lia]. Qed.

Lemma nth_error_set_nth_eq {A} (l : list A) : forall n x t,
  nth_error l n = Some t -> nth_error (set_nth l n x) n = Some x.
Proof.
  induction l as [|y r IH]; intros [|n] x t H; cbn in *; try discriminate; [reflexivity|eauto].
Qed.
Lemma nth_error_set_nth_neq {A} (l : list A) : forall n m x,
  n <> m -> nth_error (set_nth l n x) m = nth_error l m.
Proof.
  induction l as [|y r IH]; intros [|n] [|m] x H; cbn; try reflexivity; try congruence.
  apply IH. congruence.
Qed.
Lemma nth_error_set_nth_inv {A} (l : list A) n x m y :
  nth_error (set_nth l n x) m = Some y -> (m = n /\ y = x) \/ (m <> n /\ nth_error l m = Some y).
Proof.
  destruct (Nat.eq_dec n m) as [->|Hne].
  - intros H. left. split; [reflexivity|].
    destruct (nth_error l m) as [t|] eqn:E.
    + rewrite (nth_error_set_nth_eq _ _ _ _ E) in H. congruence.
    + exfalso. apply nth_error_None in E.
      assert (length (set_nth l m x) = length l).
      { clear. revert m. induction l as [|a r IH]; intros [|m]; cbn; auto. }
      assert (nth_error (set_nth l m x) m = None) by (apply nth_error_None; lia). congruence.
  - rewrite nth_error_set_nth_neq by assumption. intros H. right. split; [congruence|assumption].
Qed.

Lemma map_set_nth_same {A B} (f : A -> B) (l : list A) : forall n t x,
  nth_error l n = Some t -> f x = f t -> map f (set_nth l n x) = map f l.
Proof.
  induction l as [|y r IH]; intros [|n] t x H E; cbn in *; try discriminate.
  - inversion H; subst. rewrite E. reflexivity.
  - f_equal. eauto.
Qed.

Lemma zsum_set_nth {A} (f : A -> Z) (l : list A) : forall n t x,
  nth_error l n = Some t -> zsum (map f (set_nth l n x)) = zsum (map f l) - f t + f x.
Proof.
  unfold zsum. induction l as [|y r IH]; intros [|n] t x H; cbn [map fold_right set_nth nth_error] in *; try discriminate.
  - inversion H; subst. lia.
  - rewrite (IH _ _ _ H). lia.
Qed.

Lemma concat_set_nth {A B} (f : A -> list B) (l : list A) : forall n t x,
  nth_error l n = Some t ->
  Permutation (f t ++ concat (map f (set_nth l n x))) (f x ++ concat (map f l)).
Proof.
  induction l as [|y r IH]; intros [|n] t x H; cbn in *; try discriminate.
  - inversion H; subst. apply Permutation_app_swap_app.
  - rewrite Permutation_app_swap_app. rewrite (IH _ _ _ H). apply Permutation_app_swap_app.
Qed.

Lemma zsum_zero_all {A} (f : A -> Z) (l : list A) :
  (forall x, 0 <= f x) -> zsum (map f l) = 0 -> forall x, In x l -> f x = 0.
Proof.
  intros Hp. unfold zsum. induction l as [|y r IH]; cbn [map fold_right In]; intros H x Hin; [contradiction|].
  assert (0 <= fold_right Z.add 0 (map f r)).
  { clear - Hp. induction r as [|a r IH]; cbn [map fold_right]; [lia|]. specialize (Hp a). lia. }
  pose proof (Hp y). destruct Hin as [<-|Hin]; [lia|]. apply IH; [lia|assumption].
Qed.
Lemma zsum_all_zero {A} (f : A -> Z) (l : list A) : (forall x, In x l -> f x = 0) -> zsum (map f l) = 0.
Proof.
  unfold zsum. induction l as [|y r IH]; cbn [map fold_right]; intros H; [reflexivity|].
  rewrite (H y) by (left; reflexivity). rewrite IH; [reflexivity|]. intros x Hx. apply H. right. exact Hx.
Qed.
Lemma concat_all_nil {A B} (f : A -> list B) (l : list A) : (forall x, In x l -> f x = []) -> concat (map f l) = [].
Proof.
  induction l as [|y r IH]; cbn [map concat]; intros H; [reflexivity|].
  rewrite (H y) by (left; reflexivity). rewrite IH; [reflexivity|]. intros x Hx. apply H. right. exact Hx.
Qed.

(* upd_nth / nthZ *)
Lemma upd_nth_length (f : Z -> Z) : forall l i, length (upd_nth l i f) = length l.
Proof. induction l as [|x r IH]; intros [|i]; cbn; auto. Qed.
Lemma nthZ_upd_nth (f : Z -> Z) : forall l i j,
  nthZ (upd_nth l i f) j = if (Nat.eqb i j && Nat.ltb i (length l))%bool then f (nthZ l j) else nthZ l j.
Proof.
  unfold nthZ. induction l as [|x r IH]; intros i j.
  { cbn [upd_nth length]. replace (i <? 0)%nat with false by (symmetry; apply Nat.ltb_ge; lia).
    rewrite andb_false_r. reflexivity. }
  destruct i as [|i]; destruct j as [|j]; cbn [upd_nth nth length]; try reflexivity.
  - rewrite IH. cbn [Nat.eqb]. destruct (Nat.eqb i j); cbn [andb]; [|reflexivity].
    change (S i <? S (length r))%nat with (i <? length r)%nat. reflexivity.
Qed.
Lemma nthZ_repeat0 n i : nthZ (repeat 0 n) i = 0.
Proof. unfold nthZ. revert i. induction n as [|n IH]; intros [|i]; cbn; auto. Qed.

(* a small solver for Permutation goals between concatenations of the same atoms *)
Ltac perm_norm := cbn [app map]; rewrite ?map_app; cbn [app map]; rewrite <- ?app_assoc; cbn [app].
Ltac perm_tail l := lazymatch l with ?a ++ ?b => idtac | [] => idtac | _ => rewrite <- (app_nil_r l) end.
Ltac perm_rot n :=
  lazymatch n with
  | O => fail "perm"
  | S ?m => first [ apply Permutation_app_head
                  | (etransitivity; [|apply Permutation_app_comm]); rewrite <- ?app_assoc; perm_rot m ]
  end.
Ltac perm_go :=
  repeat first [ apply Permutation_refl | perm_rot 8%nat ].
Ltac perm_cons :=
  repeat match goal with |- context [?x :: ?l] => lazymatch l with [] => fail | _ => change (x :: l) with ([x] ++ l) end end.
Ltac perm := perm_norm; perm_cons; rewrite <- ?app_assoc; rewrite ?app_nil_r; perm_go.

Goal forall (a b c : list Z) x, Permutation (a ++ (x :: b) ++ c) (c ++ [x] ++ a ++ b).
Proof. intros. perm. Qed.
Goal forall (a b c : list Z) x, Permutation ((a ++ [x]) ++ b ++ c) (a ++ (x :: b) ++ c).
Proof. intros. perm. Qed.

(* ====================================================================== *)
(* 1. to_bits is injective: a successful CAS saw exactly the loaded value  *)
(* ====================================================================== *)

Lemma bounded_facts m e : SpecFloat.bounded 53 1024 m e = true ->
  Z.pos m < 2 ^ 53 /\ -1074 <= e <= 971 /\ (Z.pos m < 2 ^ 52 -> e = -1074).
Proof.
  intros H. unfold SpecFloat.bounded in H. apply andb_prop in H. destruct H as [H1 H2].
  unfold SpecFloat.canonical_mantissa in H1. apply Zeq_bool_eq in H1. apply Zle_bool_imp_le in H2.
  unfold SpecFloat.fexp, SpecFloat.emin in H1. rewrite Digits.Zpos_digits2_pos in H1.
  pose proof (Digits.Zdigits_correct radix2 (Z.pos m)) as D.
  pose proof (Digits.Zdigits_gt_0 radix2 (Z.pos m) ltac:(discriminate)) as D0.
  set (d := Digits.Zdigits radix2 (Z.pos m)) in *.
  change (Zpower radix2 (d - 1)) with (2 ^ (d - 1)) in D. change (Zpower radix2 d) with (2 ^ d) in D.
  rewrite Z.abs_eq in D by lia.
  assert (Hd : d <= 53) by lia.
  assert (He : d = 53 \/ e = -1074) by lia.
  pose proof (Z.pow_le_mono_r 2 d 53 ltac:(lia) Hd) as P1.
  repeat split; try lia.
  intros Hm. destruct He as [He|He]; [|assumption]. subst d. rewrite He in D.
  change (2 ^ (53 - 1)) with (2 ^ 52) in D. lia.
Qed.

Lemma to_bits_inj (x y : f64) : to_bits x = to_bits y -> x = y.
Proof.
  intros E. apply B2SF_inj.
  destruct x as [sx|sx| |sx mx ex Hx]; destruct y as [sy|sy| |sy my ey Hy]; unfold to_bits in E; cbn [B2SF];
    try (pose proof (bounded_facts _ _ Hx) as (Bx1 & Bx2 & Bx3));
    try (pose proof (bounded_facts _ _ Hy) as (By1 & By2 & By3));
    change (2 ^ 53) with 9007199254740992 in *; change (2 ^ 52) with 4503599627370496 in *;
    repeat match type of E with context [Z.leb ?a ?b] => destruct (Z.leb_spec a b) end;
    unfold go_nan_bits in E;
    try reflexivity;
    try (destruct sx; destruct sy; first [reflexivity | exfalso; lia]);
    try (destruct sx; first [reflexivity | exfalso; lia]);
    try (destruct sy; first [reflexivity | exfalso; lia]).
  all: assert (Hs : sx = sy) by (destruct sx; destruct sy; first [reflexivity | exfalso; lia]); subst sy.
  all: assert (He : ex = ey) by (destruct sx; lia); subst ey.
  all: assert (Hm : mx = my) by (destruct sx; lia); subst my; reflexivity.
Qed.

Lemma fbits_eq_true x y : fbits_eq x y = true -> x = y.
Proof. unfold fbits_eq. intros H. apply to_bits_inj. lia. Qed.

(* ====================================================================== *)
(* 2. SumOf: a float obtained by adding up the members of a multiset       *)
(* ====================================================================== *)
(* SumOf l s: s is the value of some fadd-expression whose leaves are exactly the members of l (each
   once, in some order and bracketing) and any number of +0 leaves (the initial value of a sum field). *)
Inductive SumOf : list f64 -> f64 -> Prop :=
| SO_zero : SumOf [] pzero
| SO_leaf v : SumOf [v] v
| SO_add l1 l2 s1 s2 : SumOf l1 s1 -> SumOf l2 s2 -> SumOf (l1 ++ l2) (fadd s1 s2)
| SO_perm l l' s : Permutation l l' -> SumOf l s -> SumOf l' s.

Global Instance SumOf_proper : Proper (@Permutation f64 ==> eq ==> iff) SumOf.
Proof.
  intros l l' Hp s s' <-. split; intros H; [|symmetry in Hp]; eapply SO_perm; eauto.
Qed.

Lemma SumOf_snoc l s v : SumOf l s -> SumOf (l ++ [v]) (fadd s v).
Proof. intros H. apply SO_add; [assumption|constructor]. Qed.

(* the sequential left fold is one such expression *)
Lemma SumOf_fold l : SumOf l (fold_left fadd l pzero).
Proof.
  induction l as [|v l IH] using rev_ind; [constructor|].
  rewrite fold_left_app. cbn [fold_left]. apply SumOf_snoc. assumption.
Qed.

(* ====================================================================== *)
(* 3. generic facts about the interleaving semantics                       *)
(* ====================================================================== *)
Section Gen.
Variable M : machine.

Lemma run_sched_ind (P : config M -> Prop) :
  (forall c tid c', P c -> sched_step M c tid = Some c' -> P c') ->
  forall sched c, P c -> P (run_sched M c sched).
Proof.
  intros Hstep sched. induction sched as [|t r IH]; intros c Hc; cbn [run_sched]; [assumption|].
  destruct (sched_step M c t) as [c'|] eqn:E; [apply IH; eapply Hstep; eauto|apply IH; assumption].
Qed.

(* machines whose calls always execute at least one shared operation *)
Hypothesis start_inl : forall o, exists l, start M o = inl l.

Definition fresh (time : Z) (t : thread M) : Prop :=
  match t_cur t with Some (o, l, inv) => inv = time /\ start M o = inl l | None => True end.

Lemma advance_fresh tid todo idx time :
  exists t, advance M tid todo idx time = (t, []) /\ fresh time t.
Proof.
  destruct todo as [|o rest]; cbn [advance].
  - eexists. split; [reflexivity|exact I].
  - destruct (start_inl o) as [l Hl]. rewrite Hl. eexists. split; [reflexivity|]. cbn. auto.
Qed.

Lemma sched_step_cases c tid c' : sched_step M c tid = Some c' ->
  exists t o l inv s' nxt,
    nth_error (thr c) (Z.to_nat tid) = Some t /\ t_cur t = Some (o, l, inv) /\
    step M (sh c) l = Some (s', nxt) /\ sh c' = s' /\ now c' = now c + 1 /\
    match nxt with
    | inl l' => hist c' = hist c /\
                thr c' = set_nth (thr c) (Z.to_nat tid) (mkThread M (t_todo t) (Some (o, l', inv)) (t_idx t))
    | inr r => exists t', fresh (now c + 1) t' /\
                hist c' = hist c ++ [mkCall tid (t_idx t) o r inv (now c + 1)] /\
                thr c' = set_nth (thr c) (Z.to_nat tid) t'
    end.
Proof.
  unfold sched_step. intros H.
  destruct (nth_error (thr c) (Z.to_nat tid)) as [t|] eqn:Ht; [|discriminate].
  destruct (t_cur t) as [[[o l] inv]|] eqn:Hc; [|discriminate].
  destruct (step M (sh c) l) as [[s' nxt]|] eqn:Hs; [|discriminate].
  exists t, o, l, inv, s', nxt.
  destruct nxt as [l'|r].
  - injection H as <-. cbn. repeat split; auto.
  - destruct (advance_fresh tid (t_todo t) (t_idx t + 1) (now c + 1)) as (t' & Ha & Hf). rewrite Ha in H.
    injection H as <-. cbn. repeat split; auto. exists t'. repeat split; auto.
Qed.

Lemma init_fresh s0 progs :
  Forall (fresh 0) (thr (init_config M s0 progs)) /\ hist (init_config M s0 progs) = [].
Proof.
  unfold init_config. cbn [thr hist].
  induction (combine (map Z.of_nat (seq 0 (length progs))) progs) as [|p r [IH1 IH2]]; cbn [map concat].
  - split; [constructor|reflexivity].
  - destruct (advance_fresh (fst p) (snd p) 0 0) as (t & Ha & Hf). rewrite Ha. cbn [fst snd app].
    split; [constructor; assumption|assumption].
Qed.

End Gen.
Arguments fresh {M}.

(* ====================================================================== *)
(* 4. histogram: ghost state and invariant                                 *)
(* ====================================================================== *)
Notation HM := hist_machine.
Definition hcall := call HM.

Lemma hstart_inl : forall o : Conc.op HM, exists l, start HM o = inl l.
Proof. intros [v|]; eexists; reflexivity. Qed.

Definition val (o : hop) : f64 := match o with HObserve v => v | HWrite => pzero end.
Definition is_obsb (o : hop) : bool := match o with HObserve _ => true | HWrite => false end.

Inductive phase := Ph0 | PhCool (count : Z) | PhM (mc zc ms zs : bool) (mb zb : nat).
Definition pmc ph := match ph with PhM a _ _ _ _ _ => a | _ => false end.
Definition pzc ph := match ph with PhM _ a _ _ _ _ => a | _ => false end.
Definition pms ph := match ph with PhM _ _ a _ _ _ => a | _ => false end.
Definition pzs ph := match ph with PhM _ _ _ a _ _ => a | _ => false end.
Definition pmb ph := match ph with PhM _ _ _ _ a _ => a | _ => O end.
Definition pzb ph := match ph with PhM _ _ _ _ _ a => a | _ => O end.
Definition cooled ph := match ph with PhCool _ => false | _ => true end.
Definition flipped ph := match ph with Ph0 => false | _ => true end.
Definition PhM0 := PhM false false false false 0 0.

Section Hist.
Variable bnds : list f64.
Notation n := (length bnds).

Definition kval (k : hcall) : f64 := val (c_op k).
Definition kobs (k : hcall) : bool := is_obsb (c_op k).
Definition vals (l : list hcall) : list f64 := map kval l.

Definition bix (v : f64) : nat := Z.to_nat (find_bucket bnds v).
Definition cnteq (i : nat) (E : list hcall) : Z := zlen (filter (fun k => Nat.eqb (bix (kval k)) i) E).
Definition cntlt (i : nat) (E : list hcall) : Z := zlen (filter (fun k => Nat.ltb (bix (kval k)) i) E).

Record ghost := mkG {
  gD0 : list hcall; gD1 : list hcall;          (* observations completed in set 0 / 1 since it was last emptied *)
  gW : list (hcall * list hcall);              (* completed Writes with the observations they report *)
  gown : option nat; ginv : Z;                 (* lock holder and its invocation time *)
  gph : phase }.
Definition gD (g : ghost) (b : bool) := if b then gD1 g else gD0 g.

(* contributions of a thread in flight *)
Definition tpc (t : thread HM) : option (hop * hpc) :=
  match t_cur t with Some (o, pc, _) => Some (o, pc) | None => None end.
Definition cA (b : bool) (x : option (hop * hpc)) : Z :=
  match x with
  | Some (_, oBucket _ b' _) | Some (_, oSumLoad _ b') | Some (_, oSumCas _ b' _) | Some (_, oCount b') =>
      if Bool.eqb b b' then 1 else 0
  | _ => 0
  end.
Definition cB (b : bool) (i : nat) (x : option (hop * hpc)) : Z :=
  match x with
  | Some (o, oSumLoad _ b') | Some (o, oSumCas _ b' _) | Some (o, oCount b') =>
      if (Bool.eqb b b' && Nat.eqb (bix (val o)) i)%bool then 1 else 0
  | _ => 0
  end.
Definition cS (b : bool) (x : option (hop * hpc)) : list f64 :=
  match x with
  | Some (o, oCount b') => if Bool.eqb b b' then [val o] else []
  | _ => []
  end.
Definition TA b (T : list (thread HM)) := zsum (map (fun t => cA b (tpc t)) T).
Definition TB b i (T : list (thread HM)) := zsum (map (fun t => cB b i (tpc t)) T).
Definition TS b (T : list (thread HM)) := concat (map (fun t => cS b (tpc t)) T).

Definition out_ok (o : hout) (E : list hcall) : Prop :=
  ho_count o = zlen E /\ SumOf (vals E) (ho_sum o) /\ ho_cum o = map (fun j => cntlt (S j) E) (seq 0 n).

Definition pcinv (hb : bool) (g : ghost) (i : nat) (o : hop) (pc : hpc) (inv : Z) : Prop :=
  let Dc := gD g (negb hb) in
  let hold := o = HWrite /\ gown g = Some i /\ ginv g = inv in
  let M4 := fun mb zb => PhM true true true true mb zb in
  match pc with
  | oTicket v => o = HObserve v
  | oBucket v b k => o = HObserve v /\ k = find_bucket bnds v /\ k < Z.of_nat n
  | oSumLoad v b => o = HObserve v
  | oSumCas v b _ => o = HObserve v
  | oCount b => is_obsb o = true
  | wLock => o = HWrite
  | wFlip => hold /\ gph g = Ph0
  | wCool count cold => hold /\ gph g = PhCool count /\ cold = negb hb
  | wSpin count cold => hold /\ gph g = PhCool count /\ cold = negb hb
  | wReadSum count cold => hold /\ gph g = PhM0 /\ cold = negb hb /\ count = zlen Dc
  | wReadBk count cold s j acc cum =>
      hold /\ gph g = PhM0 /\ cold = negb hb /\ count = zlen Dc /\ SumOf (vals Dc) s /\ (j < n)%nat /\
      acc = cntlt j Dc /\ cum = map (fun j => cntlt (S j) Dc) (seq 0 j)
  | mLoadCnt o' cold => hold /\ gph g = PhM0 /\ cold = negb hb /\ out_ok o' Dc
  | mAddCnt o' cold c => hold /\ gph g = PhM0 /\ cold = negb hb /\ out_ok o' Dc /\ c = zlen Dc
  | mStoreCnt o' cold => hold /\ gph g = PhM true false false false 0 0 /\ cold = negb hb /\ out_ok o' Dc
  | mLoadSum o' cold => hold /\ gph g = PhM true true false false 0 0 /\ cold = negb hb /\ out_ok o' Dc
  | mSumLoad o' cold s => hold /\ gph g = PhM true true false false 0 0 /\ cold = negb hb /\ out_ok o' Dc /\ SumOf (vals Dc) s
  | mSumCas o' cold s _ => hold /\ gph g = PhM true true false false 0 0 /\ cold = negb hb /\ out_ok o' Dc /\ SumOf (vals Dc) s
  | mStoreSum o' cold => hold /\ gph g = PhM true true true false 0 0 /\ cold = negb hb /\ out_ok o' Dc
  | mLoadBk o' cold j => hold /\ gph g = M4 j j /\ cold = negb hb /\ out_ok o' Dc /\ (j < n)%nat
  | mAddBk o' cold j c => hold /\ gph g = M4 j j /\ cold = negb hb /\ out_ok o' Dc /\ (j < n)%nat /\ c = cnteq j Dc
  | mStoreBk o' cold j => hold /\ gph g = M4 (S j) j /\ cold = negb hb /\ out_ok o' Dc /\ (j < n)%nat
  | mLoadZero o' cold => hold /\ gph g = M4 n n /\ cold = negb hb /\ out_ok o' Dc
  | mAddZero o' cold z => hold /\ gph g = M4 n n /\ cold = negb hb /\ out_ok o' Dc /\ z = 0
  | mStoreZero o' cold => hold /\ gph g = M4 n n /\ cold = negb hb /\ out_ok o' Dc
  | wUnlock o' => hold /\ gph g = M4 n n /\ out_ok o' Dc
  end.

Definition tinv (hb : bool) (g : ghost) (time : Z) (i : nat) (t : thread HM) : Prop :=
  match t_cur t with Some (o, pc, inv) => pcinv hb g i o pc inv /\ inv <= time | None => True end.

Definition wr_ok (hs : list hcall) (base : list hcall) (e : hcall * list hcall) : Prop :=
  let (w, S) := e in
  exists o, c_ret w = HOut o /\ out_ok o S /\
    (forall k, In k hs -> kobs k = true -> c_res k <= c_inv w -> In k S) /\
    (forall k, In k S -> In k hs /\ kobs k = true /\ c_inv k < c_res w) /\
    incl S base.

Definition holds (pc : hpc) : bool :=
  match pc with oTicket _ | oBucket _ _ _ | oSumLoad _ _ | oSumCas _ _ _ | oCount _ | wLock => false | _ => true end.

Definition base (g : ghost) (hb : bool) := gD g (if flipped (gph g) then negb hb else hb).

(* threads *)
Record InvT (hb mx : bool) (g : ghost) (T : list (thread HM)) (time : Z) : Prop := mkInvT {
  i_thr : forall i t, nth_error T i = Some t -> tinv hb g time i t;
  i_own : match gown g with
          | None => mx = false /\ gph g = Ph0
          | Some i => mx = true /\ exists t o pc inv, nth_error T i = Some t /\
                        t_cur t = Some (o, pc, inv) /\ holds pc = true
          end }.

(* shared state *)
Record InvS (h : hsh) (g : ghost) (T : list (thread HM)) : Prop := mkInvS {
  i_bnds : h_bnds h = bnds;
  i_tick : tickets h = zlen (gD0 g) + TA false T + zlen (gD1 g) + TA true T;
  i_cnth : s_cnt (hget h (hot h)) = zlen (gD g (hot h)) + (if pmc (gph g) then zlen (gD g (negb (hot h))) else 0);
  i_cntc : s_cnt (hget h (negb (hot h))) = if pzc (gph g) then 0 else zlen (gD g (negb (hot h)));
  i_bkh : forall j, (j < n)%nat -> nthZ (s_bk (hget h (hot h))) j =
           cnteq j (gD g (hot h)) + TB (hot h) j T +
           (if (j <? pmb (gph g))%nat then cnteq j (gD g (negb (hot h))) else 0);
  i_bkc : forall j, (j < n)%nat -> nthZ (s_bk (hget h (negb (hot h)))) j =
           (if (j <? pzb (gph g))%nat then 0 else cnteq j (gD g (negb (hot h)))) + TB (negb (hot h)) j T;
  i_sumh : SumOf (vals (gD g (hot h)) ++ TS (hot h) T ++ (if pms (gph g) then vals (gD g (negb (hot h))) else []))
                 (s_sum (hget h (hot h)));
  i_sumc : if pzs (gph g) then s_sum (hget h (negb (hot h))) = pzero
           else SumOf (vals (gD g (negb (hot h))) ++ TS (negb (hot h)) T) (s_sum (hget h (negb (hot h))));
  i_zero : forall b, s_zero (hget h b) = 0 /\ length (s_bk (hget h b)) = n;
  i_free : gph g = Ph0 -> gD g (negb (hot h)) = [];
  i_cooled : cooled (gph g) = true -> TA (negb (hot h)) T = 0;
  i_cool : forall count, gph g = PhCool count -> count = zlen (gD g (negb (hot h))) + TA (negb (hot h)) T }.

(* history *)
Record InvH (hs : list hcall) (time : Z) (g : ghost) (hb : bool) : Prop := mkInvH {
  i_time : forall k, In k hs -> c_inv k <= c_res k <= time /\ (kobs k = true -> c_ret k = HUnit);
  i_total : Permutation (filter kobs hs) (gD0 g ++ gD1 g);
  i_wr : map fst (gW g) = filter (fun k => negb (kobs k)) hs;
  i_wrok : Forall (wr_ok hs (base g hb)) (gW g);
  i_mono : StronglySorted (fun a b => incl (snd a) (snd b)) (gW g);
  i_rt : gown g <> None -> forall k, In k hs -> kobs k = true -> c_res k <= ginv g -> In k (base g hb) }.

Definition Inv3 (h : hsh) (T : list (thread HM)) (time : Z) (hs : list hcall) (g : ghost) : Prop :=
  InvT (hot h) (mtx h) g T time /\ InvS h g T /\ InvH hs time g (hot h).
Definition Inv (c : config HM) (g : ghost) : Prop := Inv3 (sh c) (thr c) (now c) (hist c) g.

(* ---- counting lemmas ---- *)
Lemma cnteq_app j E1 E2 : cnteq j (E1 ++ E2) = cnteq j E1 + cnteq j E2.
Proof. unfold cnteq. rewrite filter_app. apply zlen_app. Qed.
Lemma cnteq_nil j : cnteq j [] = 0. Proof. reflexivity. Qed.
Lemma cnteq_one j k : cnteq j [k] = if Nat.eqb (bix (kval k)) j then 1 else 0.
Proof. unfold cnteq. cbn [filter]. destruct (Nat.eqb _ _); reflexivity. Qed.
Lemma cntlt_S j E : cntlt (S j) E = cntlt j E + cnteq j E.
Proof.
  unfold cntlt, cnteq, zlen. induction E as [|k E IH]; cbn [filter]; [reflexivity|].
  destruct (Nat.ltb_spec (bix (kval k)) (S j)), (Nat.ltb_spec (bix (kval k)) j), (Nat.eqb_spec (bix (kval k)) j);
    cbn [length]; lia.
Qed.
Lemma cntlt_0 E : cntlt 0 E = 0.
Proof. unfold cntlt, zlen. induction E as [|k E IH]; cbn [filter]; [reflexivity|exact IH]. Qed.
Lemma vals_app E1 E2 : vals (E1 ++ E2) = vals E1 ++ vals E2.
Proof. apply map_app. Qed.

(* ---- thread contributions ---- *)
Lemma cA_nonneg b x : 0 <= cA b x.
Proof. destruct x as [[o []]|]; cbn [cA]; try lia; destruct (Bool.eqb _ _); lia. Qed.

Lemma TA_zero b T : TA b T = 0 -> (forall j, TB b j T = 0) /\ TS b T = [].
Proof.
  intros H.
  assert (Hz : forall t, In t T -> cA b (tpc t) = 0).
  { apply (zsum_zero_all (fun t => cA b (tpc t))); [intros; apply cA_nonneg|exact H]. }
  split; [intros j; apply zsum_all_zero|apply concat_all_nil]; intros t Ht; specialize (Hz t Ht);
    destruct (tpc t) as [[o []]|]; cbn [cA cB cS] in *; try reflexivity;
    destruct (Bool.eqb _ _); cbn [andb]; first [reflexivity|lia].
Qed.

Section SetNth.
Variables (T : list (thread HM)) (i : nat) (t t' : thread HM).
Hypothesis Ht : nth_error T i = Some t.
Lemma TA_set b : TA b (set_nth T i t') = TA b T - cA b (tpc t) + cA b (tpc t').
Proof. unfold TA. apply (zsum_set_nth (fun t => cA b (tpc t))). exact Ht. Qed.
Lemma TB_set b j : TB b j (set_nth T i t') = TB b j T - cB b j (tpc t) + cB b j (tpc t').
Proof. unfold TB. apply (zsum_set_nth (fun t => cB b j (tpc t))). exact Ht. Qed.
Lemma TS_set b : Permutation (cS b (tpc t) ++ TS b (set_nth T i t')) (cS b (tpc t') ++ TS b T).
Proof. unfold TS. apply (concat_set_nth (fun t => cS b (tpc t))). exact Ht. Qed.
Lemma TS_same b : cS b (tpc t') = cS b (tpc t) -> TS b (set_nth T i t') = TS b T.
Proof. intros E. unfold TS. f_equal. apply (map_set_nth_same (fun t => cS b (tpc t)) _ _ t); assumption. Qed.
End SetNth.

(* a thread as left by `advance` contributes nothing and satisfies its local invariant *)
Lemma fresh_tpc time (t : thread HM) : fresh time t ->
  (forall b, cA b (tpc t) = 0) /\ (forall b j, cB b j (tpc t) = 0) /\ (forall b, cS b (tpc t) = []).
Proof.
  unfold fresh, tpc. destruct (t_cur t) as [[[o pc] inv]|]; [|repeat split].
  intros [_ Hs]. destruct o; cbn in Hs; inversion Hs; subst; repeat split.
Qed.
Lemma fresh_tinv hb g time i (t : thread HM) : fresh time t -> tinv hb g time i t.
Proof.
  unfold fresh, tinv. destruct (t_cur t) as [[[o pc] inv]|]; [|auto].
  intros [-> Hs]. split; [|lia]. destruct o; cbn in Hs; inversion Hs; subst; reflexivity.
Qed.

Lemma tinv_mono hb g time time' i t : time <= time' -> tinv hb g time i t -> tinv hb g time' i t.
Proof. unfold tinv. destruct (t_cur t) as [[[o pc] inv]|]; [|auto]. intros H [H1 H2]. split; [assumption|lia]. Qed.

(* local invariants of threads that do not hold the lock do not depend on the ghost state *)
Lemma pcinv_holds hb g i o pc inv : pcinv hb g i o pc inv -> holds pc = true -> o = HWrite /\ gown g = Some i /\ ginv g = inv.
Proof. destruct pc; cbn [pcinv holds]; intros H E; try discriminate E; tauto. Qed.

Lemma pcinv_nohold hb g hb' g' i o pc inv : holds pc = false -> pcinv hb g i o pc inv -> pcinv hb' g' i o pc inv.
Proof. destruct pc; cbn [pcinv holds]; intros E H; try discriminate E; assumption. Qed.

Lemma tinv_other hb g hb' g' time i j t :
  gown g = Some i -> j <> i -> tinv hb g time j t -> tinv hb' g' time j t.
Proof.
  unfold tinv. destruct (t_cur t) as [[[o pc] inv]|]; [|auto]. intros Ho Hne [H1 H2]. split; [|assumption].
  destruct (holds pc) eqn:E; [|eapply pcinv_nohold; eauto].
  destruct (pcinv_holds _ _ _ _ _ _ H1 E) as (_ & H & _). congruence.
Qed.

(* ... and the holder's depends only on the lock ghost, the phase and (once cooled) the cold list *)
Lemma pcinv_frame hb g g' i o pc inv :
  gown g' = gown g -> ginv g' = ginv g -> gph g' = gph g ->
  (cooled (gph g) = true -> gD g' (negb hb) = gD g (negb hb)) ->
  pcinv hb g i o pc inv -> pcinv hb g' i o pc inv.
Proof.
  intros E1 E2 E3 E4.
  destruct pc; cbn [pcinv]; rewrite ?E1, ?E2, ?E3; try tauto;
    intros H; decompose [and] H; clear H;
    match goal with Hp : gph g = _ |- _ => rewrite Hp in E4; specialize (E4 eq_refl); rewrite E4 end;
    tauto.
Qed.

(* ---- frame lemmas ---- *)
Lemma InvH_time hs time time' g hb : time <= time' -> InvH hs time g hb -> InvH hs time' g hb.
Proof.
  intros Ht []. constructor; try assumption.
  intros k Hk. destruct (i_time0 k Hk) as [H1 H2]. split; [lia|assumption].
Qed.

Lemma base_eq g g' hb : gD0 g' = gD0 g -> gD1 g' = gD1 g -> flipped (gph g') = flipped (gph g) -> base g' hb = base g hb.
Proof. intros E0 E1 E2. unfold base, gD. rewrite E0, E1, E2. reflexivity. Qed.

Lemma InvH_ghost hs time g g' hb :
  gD0 g' = gD0 g -> gD1 g' = gD1 g -> gW g' = gW g -> gown g' = gown g -> ginv g' = ginv g ->
  flipped (gph g') = flipped (gph g) -> InvH hs time g hb -> InvH hs time g' hb.
Proof.
  intros E0 E1 EW Eo Ei Ef []. pose proof (base_eq g g' hb E0 E1 Ef) as Eb.
  constructor; rewrite ?E0, ?E1, ?EW, ?Eo, ?Ei, ?Eb; assumption.
Qed.

Lemma InvS_T h g T T' :
  (forall b, TA b T' = TA b T) -> (forall b j, TB b j T' = TB b j T) -> (forall b, TS b T' = TS b T) ->
  InvS h g T -> InvS h g T'.
Proof.
  intros HA HB HS []. constructor; try assumption; try (intros; rewrite ?HA, ?HB, ?HS; auto; fail).
Qed.

(* the stepping thread keeps its contributions *)
Lemma T_same T i t t' : nth_error T i = Some t ->
  (forall b, cA b (tpc t') = cA b (tpc t)) -> (forall b j, cB b j (tpc t') = cB b j (tpc t)) ->
  (forall b, cS b (tpc t') = cS b (tpc t)) ->
  (forall b, TA b (set_nth T i t') = TA b T) /\ (forall b j, TB b j (set_nth T i t') = TB b j T) /\
  (forall b, TS b (set_nth T i t') = TS b T).
Proof.
  intros Ht HA HB HS. repeat split; intros.
  - rewrite (TA_set _ _ _ _ Ht), HA. lia.
  - rewrite (TB_set _ _ _ _ Ht), HB. lia.
  - apply (TS_same _ _ _ _ Ht), HS.
Qed.

(* thread i steps; it does not hold the lock before or after *)
Lemma InvT_obs hb mx g g' T time i t t' :
  InvT hb mx g T time -> nth_error T i = Some t ->
  (forall o pc inv, t_cur t = Some (o, pc, inv) -> holds pc = false) ->
  gown g' = gown g -> ginv g' = ginv g -> gph g' = gph g ->
  (cooled (gph g) = true -> gD g' (negb hb) = gD g (negb hb)) ->
  tinv hb g' (time + 1) i t' ->
  InvT hb mx g' (set_nth T i t') (time + 1).
Proof.
  intros [Hthr Hown] Ht Hnh E1 E2 E3 E4 Hnew. constructor.
  - intros j tj Hj. apply nth_error_set_nth_inv in Hj. destruct Hj as [[-> ->]|[Hne Hj]]; [assumption|].
    apply tinv_mono with time; [lia|]. specialize (Hthr j tj Hj). revert Hthr. unfold tinv.
    destruct (t_cur tj) as [[[o pc] inv]|]; [|auto]. intros [H1 H2]. split; [|assumption].
    eapply pcinv_frame; eauto.
  - rewrite E1, E3. destruct (gown g) as [j|]; [|assumption].
    destruct Hown as (Hm & tj & o & pc & inv & Hj & Hc & Hh). split; [assumption|].
    assert (j <> i). { intros ->. rewrite Ht in Hj. inversion Hj; subst. rewrite (Hnh _ _ _ Hc) in Hh. discriminate. }
    exists tj, o, pc, inv. rewrite nth_error_set_nth_neq by congruence. auto.
Qed.

(* thread i holds the lock before and after the step *)
Lemma InvT_hold hb mx g g' T time i t o pc inv o' pc' inv' todo idx :
  InvT hb mx g T time -> nth_error T i = Some t -> t_cur t = Some (o, pc, inv) -> holds pc = true ->
  gown g' = gown g -> holds pc' = true ->
  pcinv hb g' i o' pc' inv' -> inv' <= time ->
  InvT hb mx g' (set_nth T i (mkThread HM todo (Some (o', pc', inv')) idx)) (time + 1).
Proof.
  intros [Hthr Hown] Ht Hc Hh E1 Hh' Hnew Hinv.
  pose proof (Hthr i t Ht) as Hi. unfold tinv in Hi. rewrite Hc in Hi. destruct Hi as [Hi _].
  destruct (pcinv_holds _ _ _ _ _ _ Hi Hh) as (_ & Hg & _).
  constructor.
  - intros j tj Hj. apply nth_error_set_nth_inv in Hj. destruct Hj as [[-> ->]|[Hne Hj]].
    + unfold tinv. cbn [t_cur]. split; [assumption|lia].
    + apply tinv_mono with time; [lia|]. eapply tinv_other; eauto.
  - rewrite E1, Hg. rewrite Hg in Hown. destruct Hown as [Hm _]. split; [assumption|].
    eexists _, o', pc', inv'. rewrite (nth_error_set_nth_eq _ _ _ _ Ht). cbn [t_cur]. auto.
Qed.

(* ---- initial configuration ---- *)
Definition g0 : ghost := mkG [] [] [] None 0 Ph0.

Lemma fresh_T0 time (T : list (thread HM)) : Forall (fresh time) T ->
  (forall b, TA b T = 0) /\ (forall b j, TB b j T = 0) /\ (forall b, TS b T = []).
Proof.
  intros HF. rewrite Forall_forall in HF.
  repeat split; intros; [apply zsum_all_zero|apply zsum_all_zero|apply concat_all_nil]; intros t Ht;
    apply (fresh_tpc time t (HF t Ht)).
Qed.

Lemma Inv_init progs : Inv (init_config HM (hinit bnds) progs) g0.
Proof.
  destruct (init_fresh HM hstart_inl (hinit bnds) progs) as [HF Hh].
  destruct (fresh_T0 0 _ HF) as (HA & HB & HS).
  unfold Inv, Inv3. rewrite Hh. set (T := thr (init_config HM (hinit bnds) progs)) in *.
  change (sh (init_config HM (hinit bnds) progs)) with (hinit bnds).
  change (now (init_config HM (hinit bnds) progs)) with 0.
  split; [|split].
  - constructor.
    + intros i t Hi. apply fresh_tinv. eapply Forall_forall; [exact HF|]. eapply nth_error_In; eauto.
    + cbn. auto.
  - constructor; cbn [hinit hget hot negb gD g0 gph gD0 gD1 set0 set1 cset0 s_bk s_sum s_cnt s_zero tickets h_bnds
                     pmb pzb pms pzs pmc pzc vals map app zlen length];
      try (intros; rewrite ?HA, ?HB, ?HS, ?nthZ_repeat0; first [reflexivity|discriminate|constructor]).
    all: destruct b; cbn [hinit hget set0 set1 cset0 s_bk s_zero]; rewrite ?repeat_length; reflexivity.
  - constructor; cbn [g0 gW gD0 gD1 gown app filter map].
    + intros k [].
    + constructor.
    + reflexivity.
    + constructor.
    + constructor.
    + intros H. exfalso. apply H. reflexivity.
Qed.

(* ====================================================================== *)
(* 5. preservation                                                         *)
(* ====================================================================== *)
Definition set_ph (g : ghost) (ph : phase) : ghost := mkG (gD0 g) (gD1 g) (gW g) (gown g) (ginv g) ph.

Lemma gD_set_ph g ph b : gD (set_ph g ph) b = gD g b.
Proof. reflexivity. Qed.

Lemma holds_contrib o pc : holds pc = true ->
  (forall b, cA b (Some (o, pc)) = 0) /\ (forall b j, cB b j (Some (o, pc)) = 0) /\ (forall b, cS b (Some (o, pc)) = []).
Proof. destruct pc; cbn [holds]; intros H; try discriminate H; repeat split. Qed.

(* the lock holder executes a step that keeps the lock, the hot bit and the ghost lists *)
Lemma step_hold h h' T nw hs g g' i t o pc pc' inv :
  Inv3 h T nw hs g -> nth_error T i = Some t -> t_cur t = Some (o, pc, inv) ->
  holds pc = true -> holds pc' = true -> hot h' = hot h -> mtx h' = mtx h ->
  gD0 g' = gD0 g -> gD1 g' = gD1 g -> gW g' = gW g -> gown g' = gown g -> ginv g' = ginv g ->
  flipped (gph g') = flipped (gph g) ->
  pcinv (hot h) g' i o pc' inv -> InvS h' g' T ->
  Inv3 h' (set_nth T i (mkThread HM (t_todo t) (Some (o, pc', inv)) (t_idx t))) (nw + 1) hs g'.
Proof.
  intros (HT & HS & HH) Ht Hc Hh Hh' Ehot Emtx E0 E1 EW Eo Ei Ef Hpc HS'.
  pose proof (i_thr _ _ _ _ _ HT i t Ht) as Hi. unfold tinv in Hi. rewrite Hc in Hi. destruct Hi as [_ Hinv].
  unfold Inv3. rewrite Ehot, Emtx. split; [|split].
  - eapply InvT_hold; eauto.
  - destruct (holds_contrib o pc Hh) as (A1 & B1 & S1). destruct (holds_contrib o pc' Hh') as (A2 & B2 & S2).
    assert (Hp : tpc t = Some (o, pc)) by (unfold tpc; rewrite Hc; reflexivity).
    destruct (T_same T i t (mkThread HM (t_todo t) (Some (o, pc', inv)) (t_idx t)) Ht) as (HA & HB & HS2);
      try (intros; rewrite Hp; unfold tpc; cbn [t_cur]; rewrite ?A1, ?A2, ?B1, ?B2, ?S1, ?S2; reflexivity).
    eapply InvS_T; [..|exact HS']; intros; auto.
  - apply InvH_time with nw; [lia|]. eapply InvH_ghost; eauto.
Qed.

(* a thread that does not hold the lock executes a step changing nothing but its own pc (same contributions) *)
Lemma step_quiet h T nw hs g i t o pc pc' inv :
  Inv3 h T nw hs g -> nth_error T i = Some t -> t_cur t = Some (o, pc, inv) ->
  holds pc = false ->
  (forall b, cA b (Some (o, pc')) = cA b (Some (o, pc))) -> (forall b j, cB b j (Some (o, pc')) = cB b j (Some (o, pc))) ->
  (forall b, cS b (Some (o, pc')) = cS b (Some (o, pc))) ->
  pcinv (hot h) g i o pc' inv ->
  Inv3 h (set_nth T i (mkThread HM (t_todo t) (Some (o, pc', inv)) (t_idx t))) (nw + 1) hs g.
Proof.
  intros (HT & HS & HH) Ht Hc Hh EA EB ES Hpc.
  pose proof (i_thr _ _ _ _ _ HT i t Ht) as Hi. unfold tinv in Hi. rewrite Hc in Hi. destruct Hi as [_ Hinv].
  split; [|split].
  - eapply InvT_obs; eauto.
    + intros o1 pc1 inv1 H1. rewrite Hc in H1. inversion H1; subst. assumption.
    + unfold tinv. cbn [t_cur]. split; [assumption|lia].
  - assert (Hp : tpc t = Some (o, pc)) by (unfold tpc; rewrite Hc; reflexivity).
    destruct (T_same T i t (mkThread HM (t_todo t) (Some (o, pc', inv)) (t_idx t)) Ht) as (HA & HB & HS2);
      try (intros; rewrite Hp; unfold tpc; cbn [t_cur]; auto).
    eapply InvS_T; [..|exact HS]; intros; auto.
  - apply InvH_time with nw; [lia|assumption].
Qed.

Lemma cooled_facts h g T : InvS h g T -> cooled (gph g) = true ->
  TA (negb (hot h)) T = 0 /\ (forall j, TB (negb (hot h)) j T = 0) /\ TS (negb (hot h)) T = [].
Proof.
  intros HS Hc. pose proof (i_cooled _ _ _ HS Hc) as HA. destruct (TA_zero _ _ HA) as [HB HS']. auto.
Qed.

Ltac psplit := repeat match goal with |- _ /\ _ => split end.
Ltac hold_same g := exists g; eapply step_hold; eauto; try reflexivity.

Lemma Inv_step c g tid c' : Inv c g -> sched_step HM c tid = Some c' -> exists g', Inv c' g'.
Proof.
  intros HI Hstep.
  destruct (sched_step_cases HM hstart_inl _ _ _ Hstep) as (t & o & pc & inv & h' & nxt & Ht & Hc & Hs & Hsh & Hnow & Hrest).
  set (i := Z.to_nat tid) in *. clearbody i. clear Hstep.
  destruct c as [h T nw hs tr]; destruct c' as [h'' T' nw' hs' tr']; unfold Inv in *; cbn [sh thr now Conc.hist] in *.
  subst h'' nw'. change (step HM h pc) with (hstep h pc) in Hs.
  pose proof HI as (HT & HS & HH).
  pose proof (i_thr _ _ _ _ _ HT i t Ht) as Hi. unfold tinv in Hi. rewrite Hc in Hi. destruct Hi as [Hpc Hinv].
  destruct pc; cbn [hstep] in Hs.
  - (* oTicket *)
    admit.
  - (* oBucket *)
    admit.
  - (* oSumLoad *)
    inversion Hs; subst; clear Hs. destruct Hrest as [-> ->]. exists g. eapply step_quiet; eauto.
  - (* oSumCas *)
    admit.
  - (* oCount *)
    admit.
  - (* wLock *)
    admit.
  - (* wFlip *)
    admit.
  - (* wCool *)
    admit.
  - (* wSpin *)
    inversion Hs; subst; clear Hs. destruct Hrest as [-> ->]. hold_same g.
  - (* wReadSum *)
    admit.
  - (* wReadBk *)
    admit.
  - (* mLoadCnt *)
    inversion Hs; subst; clear Hs. destruct Hrest as [-> ->]. hold_same g.
    cbn [pcinv] in *. destruct Hpc as (Hold & Hph & -> & Hout). psplit; try tauto.
    rewrite (i_cntc _ _ _ HS), Hph. reflexivity.
  - (* mAddCnt *)
    inversion Hs; subst; clear Hs. destruct Hrest as [-> ->].
    cbn [pcinv] in Hpc. destruct Hpc as ((-> & Hg & Hgi) & Hph & -> & Hout & ->).
    exists (set_ph g (PhM true false false false 0 0)).
    eapply step_hold; eauto; try reflexivity.
    + destruct h as [bn hb tk s0 s1 mx]; destruct hb; reflexivity.
    + destruct h as [bn hb tk s0 s1 mx]; destruct hb; reflexivity.
    + cbn [pcinv]. Show. rewrite gD_set_ph. cbn [set_ph gown ginv gph]. tauto.
    + destruct HS as [B1 TK CH CC BH BC SH SC ZR FR CD CL].
      rewrite Hph in *. destruct h as [bn hb tk s0 s1 mx]. cbn [hot] in *.
      destruct hb; cbn [negb hget hput hot tickets set0 set1 mtx h_bnds s_sum s_cnt s_bk s_zero gD pmc pzc pms pzs pmb pzb PhM0] in *.
      * constructor; cbn [negb hget hput hot tickets set0 set1 mtx h_bnds s_sum s_cnt s_bk s_zero gD set_ph gD0 gD1 gph pmc pzc pms pzs pmb pzb PhM0].
        Show.
  - (* mStoreCnt *)
    admit.
  - (* mLoadSum *)
    admit.
  - (* mSumLoad *)
    admit.
  - (* mSumCas *)
    admit.
  - (* mStoreSum *)
    admit.
  - (* mLoadBk *)
    admit.
  - (* mAddBk *)
    admit.
  - (* mStoreBk *)
    admit.
  - (* mLoadZero *)
    admit.
  - (* mAddZero *)
    admit.
  - (* mStoreZero *)
    admit.
  - (* wUnlock *)
    admit.
Admitted.
