(* Proofs/C02_proofs.v -- C02: every histogram/summary scrape is a consistent point-in-time snapshot.
   Inductive invariant of the hot/cold count-set protocol (Model/HotCold.v) under the interleaving
   semantics of Base/Conc.v, for ALL bucket layouts, program lists and schedules.
   Method: a ghost state (per count set the list of Observe calls completed in it since it was last emptied;
   the completed Writes with the calls they report; lock owner; merge phase) is related to configurations by
   Inv = InvT (threads: per-pc facts, mutual exclusion) /\ InvS (shared state: tickets, counts, buckets, sums,
   with per-field merge progress) /\ InvH (history: timing, no loss/duplication, real-time bounds, monotone chain);
   Inv holds initially and is preserved by every sched_step (exists-ghost simulation).
   Layout: 0 list/Z helpers, Permutation tactic; 1 to_bits injective; 2 SumOf; 3 generic Conc facts;
   4 ghost state and invariant, generic in the machine through a VIEW of its pcs as histogram pcs;
   5 frame lemmas and ghost updates; 6 theorems from the invariant (generic); 6b preservation for hist_machine;
   7 summ_machine viewed as a bucket-less histogram, preservation; 8 instantiated theorems; 9 examples. *)
From Coq Require Import ZArith List Bool Lia ZifyBool Sorted Permutation Morphisms Setoid.
From Flocq Require Import Core.Core IEEE754.BinarySingleNaN.
From Verif Require Import Base.F64 Base.Conc Model.ClassicHist Model.HotCold Proofs.C03_proofs.
Import ListNotations.
Open Scope Z_scope.
Notation hist := Conc.hist (only parsing).   (* not ClassicHist.hist *)

(* ====================================================================== *)
(* 0. helpers                                                              *)
(* ====================================================================== *)

Definition zsum (l : list Z) : Z := fold_right Z.add 0 l.
Definition zlen {A} (l : list A) : Z := Z.of_nat (length l).

Lemma zlen_app {A} (l1 l2 : list A) : zlen (l1 ++ l2) = zlen l1 + zlen l2.
Proof. unfold zlen. rewrite app_length. lia. Qed.
Lemma zlen_nil {A} : zlen (@nil A) = 0. Proof. reflexivity. Qed.
Lemma zlen_one {A} (x : A) : zlen [x] = 1. Proof. reflexivity. Qed.
Lemma zlen_nonneg {A} (l : list A) : 0 <= zlen l. Proof. unfold zlen. lia. Qed.
Lemma zlen_zero {A} (l : list A) : zlen l = 0 -> l = [].
Proof. destruct l; [reflexivity|unfold zlen; cbn [length]; lia]. Qed.

Lemma NoDup_app_snoc {A} (l : list A) x : NoDup l -> ~ In x l -> NoDup (l ++ [x]).
Proof.
  intros H1 H2. eapply Permutation_NoDup; [apply Permutation_cons_append|]. constructor; assumption.
Qed.
Lemma NoDup_app_l {A} (l1 l2 : list A) : NoDup (l1 ++ l2) -> NoDup l1.
Proof.
  induction l1 as [|a r IH]; cbn [app]; intros H; [constructor|]. inversion H; subst.
  constructor; [|auto]. intros Hin. apply H2. apply in_or_app. auto.
Qed.
Lemma NoDup_app_r {A} (l1 l2 : list A) : NoDup (l1 ++ l2) -> NoDup l2.
Proof. induction l1 as [|a r IH]; cbn [app]; intros H; [assumption|]. inversion H; subst. auto. Qed.

Lemma nth_error_set_nth_eq {A} (l : list A) : forall n x t,
  nth_error l n = Some t -> nth_error (set_nth l n x) n = Some x.
Proof.
  induction l as [|y r IH]; intros [|n] x t H; cbn in *; try discriminate; [reflexivity|eauto].
Qed.
Lemma nth_error_set_nth_neq {A} (l : list A) : forall n m x,
  n <> m -> nth_error (set_nth l n x) m = nth_error l m.
Proof.
  induction l as [|y r IH]; intros [|n] [|m] x H; cbn; try reflexivity; try congruence.
  apply IH. congruence.
Qed.
Lemma nth_error_set_nth_inv {A} (l : list A) n x m y :
  nth_error (set_nth l n x) m = Some y -> (m = n /\ y = x) \/ (m <> n /\ nth_error l m = Some y).
Proof.
  destruct (Nat.eq_dec n m) as [->|Hne].
  - intros H. left. split; [reflexivity|].
    destruct (nth_error l m) as [t|] eqn:E.
    + rewrite (nth_error_set_nth_eq _ _ _ _ E) in H. congruence.
    + exfalso. apply nth_error_None in E.
      assert (length (set_nth l m x) = length l).
      { clear. revert m. induction l as [|a r IH]; intros [|m]; cbn; auto. }
      assert (nth_error (set_nth l m x) m = None) by (apply nth_error_None; lia). congruence.
  - rewrite nth_error_set_nth_neq by assumption. intros H. right. split; [congruence|assumption].
Qed.

Lemma map_set_nth_same {A B} (f : A -> B) (l : list A) : forall n t x,
  nth_error l n = Some t -> f x = f t -> map f (set_nth l n x) = map f l.
Proof.
  induction l as [|y r IH]; intros [|n] t x H E; cbn in *; try discriminate.
  - inversion H; subst. rewrite E. reflexivity.
  - f_equal. eauto.
Qed.

Lemma zsum_set_nth {A} (f : A -> Z) (l : list A) : forall n t x,
  nth_error l n = Some t -> zsum (map f (set_nth l n x)) = zsum (map f l) - f t + f x.
Proof.
  unfold zsum. induction l as [|y r IH]; intros [|n] t x H; cbn [map fold_right set_nth nth_error] in *; try discriminate.
  - inversion H; subst. lia.
  - rewrite (IH _ _ _ H). lia.
Qed.

Lemma concat_set_nth {A B} (f : A -> list B) (l : list A) : forall n t x,
  nth_error l n = Some t ->
  Permutation (f t ++ concat (map f (set_nth l n x))) (f x ++ concat (map f l)).
Proof.
  induction l as [|y r IH]; intros [|n] t x H; cbn in *; try discriminate.
  - inversion H; subst. apply Permutation_app_swap_app.
  - rewrite Permutation_app_swap_app. rewrite (IH _ _ _ H). apply Permutation_app_swap_app.
Qed.

Lemma zsum_zero_all {A} (f : A -> Z) (l : list A) :
  (forall x, 0 <= f x) -> zsum (map f l) = 0 -> forall x, In x l -> f x = 0.
Proof.
  intros Hp. unfold zsum. induction l as [|y r IH]; cbn [map fold_right In]; intros H x Hin; [contradiction|].
  assert (0 <= fold_right Z.add 0 (map f r)).
  { clear - Hp. induction r as [|a r IH]; cbn [map fold_right]; [lia|]. specialize (Hp a). lia. }
  pose proof (Hp y). destruct Hin as [<-|Hin]; [lia|]. apply IH; [lia|assumption].
Qed.
Lemma zsum_nonneg {A} (f : A -> Z) (l : list A) : (forall x, 0 <= f x) -> 0 <= zsum (map f l).
Proof. intros Hp. unfold zsum. induction l as [|a r IH]; cbn [map fold_right]; [lia|]. specialize (Hp a). lia. Qed.
Lemma zsum_ge_nth {A} (f : A -> Z) (l : list A) : (forall x, 0 <= f x) ->
  forall n t, nth_error l n = Some t -> f t <= zsum (map f l).
Proof.
  intros Hp. induction l as [|a r IH]; intros [|n] t H; cbn [nth_error] in H; try discriminate.
  - inversion H; subst. pose proof (zsum_nonneg f r Hp). unfold zsum in *. cbn [map fold_right]. lia.
  - specialize (IH _ _ H). pose proof (Hp a). unfold zsum in *. cbn [map fold_right]. lia.
Qed.
Lemma zsum_all_zero {A} (f : A -> Z) (l : list A) : (forall x, In x l -> f x = 0) -> zsum (map f l) = 0.
Proof.
  unfold zsum. induction l as [|y r IH]; cbn [map fold_right]; intros H; [reflexivity|].
  rewrite (H y) by (left; reflexivity). rewrite IH; [reflexivity|]. intros x Hx. apply H. right. exact Hx.
Qed.
Lemma concat_all_nil {A B} (f : A -> list B) (l : list A) : (forall x, In x l -> f x = []) -> concat (map f l) = [].
Proof.
  induction l as [|y r IH]; cbn [map concat]; intros H; [reflexivity|].
  rewrite (H y) by (left; reflexivity). rewrite IH; [reflexivity|]. intros x Hx. apply H. right. exact Hx.
Qed.

(* upd_nth / nthZ *)
Lemma upd_nth_length (f : Z -> Z) : forall l i, length (upd_nth l i f) = length l.
Proof. induction l as [|x r IH]; intros [|i]; cbn; auto. Qed.
Lemma nthZ_upd_nth (f : Z -> Z) : forall l i j,
  nthZ (upd_nth l i f) j = if (Nat.eqb i j && Nat.ltb i (length l))%bool then f (nthZ l j) else nthZ l j.
Proof.
  unfold nthZ. induction l as [|x r IH]; intros i j.
  { cbn [upd_nth length]. replace (i <? 0)%nat with false by (symmetry; apply Nat.ltb_ge; lia).
    rewrite andb_false_r. reflexivity. }
  destruct i as [|i]; destruct j as [|j]; cbn [upd_nth nth length]; try reflexivity.
  - rewrite IH. cbn [Nat.eqb]. destruct (Nat.eqb i j); cbn [andb]; [|reflexivity].
    change (S i <? S (length r))%nat with (i <? length r)%nat. reflexivity.
Qed.
Lemma nthZ_repeat0 n i : nthZ (repeat 0 n) i = 0.
Proof. unfold nthZ. revert i. induction n as [|n IH]; intros [|i]; cbn; auto. Qed.

(* a small solver for Permutation goals between concatenations of the same atoms *)
Ltac perm_norm := cbn [app map]; rewrite ?map_app; cbn [app map]; rewrite <- ?app_assoc; cbn [app].
Ltac perm_tail l := lazymatch l with ?a ++ ?b => idtac | [] => idtac | _ => rewrite <- (app_nil_r l) end.
Ltac perm_rot n :=
  lazymatch n with
  | O => fail "perm"
  | S ?m => first [ apply Permutation_app_head
                  | (etransitivity; [|apply Permutation_app_comm]); rewrite <- ?app_assoc; perm_rot m ]
  end.
Ltac perm_go :=
  repeat first [ apply Permutation_refl | perm_rot 8%nat ].
Ltac perm_cons :=
  repeat match goal with |- context [?x :: ?l] => lazymatch l with [] => fail | _ => change (x :: l) with ([x] ++ l) end end.
Ltac perm := perm_norm; perm_cons; rewrite <- ?app_assoc; rewrite ?app_nil_r; perm_go.

Goal forall (a b c : list Z) x, Permutation (a ++ (x :: b) ++ c) (c ++ [x] ++ a ++ b).
Proof. intros. perm. Qed.
Goal forall (a b c : list Z) x, Permutation ((a ++ [x]) ++ b ++ c) (a ++ (x :: b) ++ c).
Proof. intros. perm. Qed.

(* ====================================================================== *)
(* 1. to_bits is injective: a successful CAS saw exactly the loaded value  *)
(* ====================================================================== *)

Lemma bounded_facts m e : SpecFloat.bounded 53 1024 m e = true ->
  Z.pos m < 2 ^ 53 /\ -1074 <= e <= 971 /\ (Z.pos m < 2 ^ 52 -> e = -1074).
Proof.
  intros H. unfold SpecFloat.bounded in H. apply andb_prop in H. destruct H as [H1 H2].
  unfold SpecFloat.canonical_mantissa in H1. apply Zeq_bool_eq in H1. apply Zle_bool_imp_le in H2.
  unfold SpecFloat.fexp, SpecFloat.emin in H1. rewrite Digits.Zpos_digits2_pos in H1.
  pose proof (Digits.Zdigits_correct radix2 (Z.pos m)) as D.
  pose proof (Digits.Zdigits_gt_0 radix2 (Z.pos m) ltac:(discriminate)) as D0.
  set (d := Digits.Zdigits radix2 (Z.pos m)) in *.
  change (Zpower radix2 (d - 1)) with (2 ^ (d - 1)) in D. change (Zpower radix2 d) with (2 ^ d) in D.
  rewrite Z.abs_eq in D by lia.
  assert (Hd : d <= 53) by lia.
  assert (He : d = 53 \/ e = -1074) by lia.
  pose proof (Z.pow_le_mono_r 2 d 53 ltac:(lia) Hd) as P1.
  repeat split; try lia.
  intros Hm. destruct He as [He|He]; [|assumption]. subst d. rewrite He in D.
  change (2 ^ (53 - 1)) with (2 ^ 52) in D. lia.
Qed.

Lemma to_bits_inj (x y : f64) : to_bits x = to_bits y -> x = y.
Proof.
  intros E. apply B2SF_inj.
  destruct x as [sx|sx| |sx mx ex Hx]; destruct y as [sy|sy| |sy my ey Hy]; unfold to_bits in E; cbn [B2SF];
    try (pose proof (bounded_facts _ _ Hx) as (Bx1 & Bx2 & Bx3));
    try (pose proof (bounded_facts _ _ Hy) as (By1 & By2 & By3));
    change (2 ^ 53) with 9007199254740992 in *; change (2 ^ 52) with 4503599627370496 in *;
    repeat match type of E with context [Z.leb ?a ?b] => destruct (Z.leb_spec a b) end;
    unfold go_nan_bits in E;
    try reflexivity;
    try (destruct sx; destruct sy; first [reflexivity | exfalso; lia]);
    try (destruct sx; first [reflexivity | exfalso; lia]);
    try (destruct sy; first [reflexivity | exfalso; lia]).
  all: assert (Hs : sx = sy) by (destruct sx; destruct sy; first [reflexivity | exfalso; lia]); subst sy.
  all: assert (He : ex = ey) by (destruct sx; lia); subst ey.
  all: assert (Hm : mx = my) by (destruct sx; lia); subst my; reflexivity.
Qed.

Lemma fbits_eq_true x y : fbits_eq x y = true -> x = y.
Proof. unfold fbits_eq. intros H. apply to_bits_inj. lia. Qed.

(* ====================================================================== *)
(* 2. SumOf: a float obtained by adding up the members of a multiset       *)
(* ====================================================================== *)
(* SumOf l s: s is the value of some fadd-expression whose leaves are exactly the members of l (each
   once, in some order and bracketing) and any number of +0 leaves (the initial value of a sum field). *)
Inductive SumOf : list f64 -> f64 -> Prop :=
| SO_zero : SumOf [] pzero
| SO_leaf v : SumOf [v] v
| SO_add l1 l2 s1 s2 : SumOf l1 s1 -> SumOf l2 s2 -> SumOf (l1 ++ l2) (fadd s1 s2)
| SO_perm l l' s : Permutation l l' -> SumOf l s -> SumOf l' s.

Global Instance SumOf_proper : Proper (@Permutation f64 ==> eq ==> iff) SumOf.
Proof.
  intros l l' Hp s s' <-. split; intros H; [|symmetry in Hp]; eapply SO_perm; eauto.
Qed.

Lemma SumOf_snoc l s v : SumOf l s -> SumOf (l ++ [v]) (fadd s v).
Proof. intros H. apply SO_add; [assumption|constructor]. Qed.

(* the sequential left fold is one such expression *)
Lemma SumOf_fold l : SumOf l (fold_left fadd l pzero).
Proof.
  induction l as [|v l IH] using rev_ind; [constructor|].
  rewrite fold_left_app. cbn [fold_left]. apply SumOf_snoc. assumption.
Qed.

(* ====================================================================== *)
(* 3. generic facts about the interleaving semantics                       *)
(* ====================================================================== *)
Section Gen.
Variable M : machine.

Lemma run_sched_ind (P : config M -> Prop) :
  (forall c tid c', P c -> sched_step M c tid = Some c' -> P c') ->
  forall sched c, P c -> P (run_sched M c sched).
Proof.
  intros Hstep sched. induction sched as [|t r IH]; intros c Hc; cbn [run_sched]; [assumption|].
  destruct (sched_step M c t) as [c'|] eqn:E; [apply IH; eapply Hstep; eauto|apply IH; assumption].
Qed.

(* machines whose calls always execute at least one shared operation *)
Hypothesis start_inl : forall o, exists l, start M o = inl l.

Definition fresh (time : Z) (t : thread M) : Prop :=
  match t_cur t with Some (o, l, inv) => inv = time /\ start M o = inl l | None => True end.

Lemma advance_fresh tid todo idx time :
  exists t, advance M tid todo idx time = (t, []) /\ fresh time t.
Proof.
  destruct todo as [|o rest]; cbn [advance].
  - eexists. split; [reflexivity|exact I].
  - destruct (start_inl o) as [l Hl]. rewrite Hl. eexists. split; [reflexivity|]. cbn. auto.
Qed.

Lemma sched_step_cases c tid c' : sched_step M c tid = Some c' ->
  exists t o l inv s' nxt,
    nth_error (thr c) (Z.to_nat tid) = Some t /\ t_cur t = Some (o, l, inv) /\
    step M (sh c) l = Some (s', nxt) /\ sh c' = s' /\ now c' = now c + 1 /\
    match nxt with
    | inl l' => hist c' = hist c /\
                thr c' = set_nth (thr c) (Z.to_nat tid) (mkThread M (t_todo t) (Some (o, l', inv)) (t_idx t))
    | inr r => exists t', fresh (now c + 1) t' /\
                hist c' = hist c ++ [mkCall tid (t_idx t) o r inv (now c + 1)] /\
                thr c' = set_nth (thr c) (Z.to_nat tid) t'
    end.
Proof.
  unfold sched_step. intros H.
  destruct (nth_error (thr c) (Z.to_nat tid)) as [t|] eqn:Ht; [|discriminate].
  destruct (t_cur t) as [[[o l] inv]|] eqn:Hc; [|discriminate].
  destruct (step M (sh c) l) as [[s' nxt]|] eqn:Hs; [|discriminate].
  exists t, o, l, inv, s', nxt.
  destruct nxt as [l'|r].
  - injection H as <-. cbn. repeat split; auto.
  - destruct (advance_fresh tid (t_todo t) (t_idx t + 1) (now c + 1)) as (t' & Ha & Hf). rewrite Ha in H.
    injection H as <-. cbn. repeat split; auto. exists t'. repeat split; auto.
Qed.

Lemma init_fresh s0 progs :
  Forall (fresh 0) (thr (init_config M s0 progs)) /\ hist (init_config M s0 progs) = [].
Proof.
  unfold init_config. cbn [thr hist].
  induction (combine (map Z.of_nat (seq 0 (length progs))) progs) as [|p r [IH1 IH2]]; cbn [map concat].
  - split; [constructor|reflexivity].
  - destruct (advance_fresh (fst p) (snd p) 0 0) as (t & Ha & Hf). rewrite Ha. cbn [fst snd app].
    split; [constructor; assumption|assumption].
Qed.

End Gen.
Arguments fresh {M}.

(* ====================================================================== *)
(* 4. histogram: ghost state and invariant                                 *)
(* ====================================================================== *)
Notation HM := hist_machine.

Definition val (o : hop) : f64 := match o with HObserve v => v | HWrite => pzero end.
Definition is_obsb (o : hop) : bool := match o with HObserve _ => true | HWrite => false end.

Inductive phase := Ph0 | PhCool (count : Z) | PhM (mc zc ms zs : bool) (mb zb : nat).
Definition pmc ph := match ph with PhM a _ _ _ _ _ => a | _ => false end.
Definition pzc ph := match ph with PhM _ a _ _ _ _ => a | _ => false end.
Definition pms ph := match ph with PhM _ _ a _ _ _ => a | _ => false end.
Definition pzs ph := match ph with PhM _ _ _ a _ _ => a | _ => false end.
Definition pmb ph := match ph with PhM _ _ _ _ a _ => a | _ => O end.
Definition pzb ph := match ph with PhM _ _ _ _ _ a => a | _ => O end.
Definition cooled ph := match ph with PhCool _ => false | _ => true end.
Definition flipped ph := match ph with Ph0 => false | _ => true end.
Definition PhM0 := PhM false false false false 0 0.


Ltac psplit := repeat match goal with |- _ /\ _ => split end.

(* The development is generic in the machine: any machine over the shared state hsh with operations hop and
   results hret whose program counters can be VIEWED as histogram program counters (vw).  The histogram machine
   uses the identity view; the summary machine is viewed as a histogram without buckets (section 7). *)
Section Hist.
Variable bnds : list f64.
Notation n := (length bnds).
Variables (L : Type) (st : hop -> L + hret) (stp : hsh -> L -> option (hsh * (L + hret))) (lab : L -> list Z).
Variable vw : L -> hpc.
Notation GM := (mkMachine hsh L hop hret st stp lab).
Definition hcall := call GM.

Definition kval (k : hcall) : f64 := val (c_op k).
Definition kobs (k : hcall) : bool := is_obsb (c_op k).
Definition vals (l : list hcall) : list f64 := map kval l.

Definition bix (v : f64) : nat := Z.to_nat (find_bucket bnds v).
Definition cnteq (i : nat) (E : list hcall) : Z := zlen (filter (fun k => Nat.eqb (bix (kval k)) i) E).
Definition cntlt (i : nat) (E : list hcall) : Z := zlen (filter (fun k => Nat.ltb (bix (kval k)) i) E).

Record ghost := mkG {
  gD0 : list hcall; gD1 : list hcall;          (* observations completed in set 0 / 1 since it was last emptied *)
  gW : list (hcall * list hcall);              (* completed Writes with the observations they report *)
  gown : option nat; ginv : Z;                 (* lock holder and its invocation time *)
  gph : phase }.
Definition gD (g : ghost) (b : bool) := if b then gD1 g else gD0 g.

(* contributions of a thread in flight *)
Definition tpc (t : thread GM) : option (hop * hpc) :=
  match t_cur t with Some (o, pc, _) => Some (o, vw pc) | None => None end.
Definition cA (b : bool) (x : option (hop * hpc)) : Z :=
  match x with
  | Some (_, oBucket _ b' _) | Some (_, oSumLoad _ b') | Some (_, oSumCas _ b' _) | Some (_, oCount b') =>
      if Bool.eqb b b' then 1 else 0
  | _ => 0
  end.
Definition cB (b : bool) (i : nat) (x : option (hop * hpc)) : Z :=
  match x with
  | Some (o, oSumLoad _ b') | Some (o, oSumCas _ b' _) | Some (o, oCount b') =>
      if (Bool.eqb b b' && Nat.eqb (bix (val o)) i)%bool then 1 else 0
  | _ => 0
  end.
Definition cS (b : bool) (x : option (hop * hpc)) : list f64 :=
  match x with
  | Some (o, oCount b') => if Bool.eqb b b' then [val o] else []
  | _ => []
  end.
Definition TA b (T : list (thread GM)) := zsum (map (fun t => cA b (tpc t)) T).
Definition TB b i (T : list (thread GM)) := zsum (map (fun t => cB b i (tpc t)) T).
Definition TS b (T : list (thread GM)) := concat (map (fun t => cS b (tpc t)) T).

Definition out_ok (o : hout) (E : list hcall) : Prop :=
  ho_count o = zlen E /\ SumOf (vals E) (ho_sum o) /\ ho_cum o = map (fun j => cntlt (S j) E) (seq 0 n).

Definition pcinv (hb : bool) (g : ghost) (i : nat) (o : hop) (pc : hpc) (inv : Z) : Prop :=
  let Dc := gD g (negb hb) in
  let hold := o = HWrite /\ gown g = Some i /\ ginv g = inv in
  let M4 := fun mb zb => PhM true true true true mb zb in
  match pc with
  | oTicket v => o = HObserve v
  | oBucket v b k => o = HObserve v /\ k = find_bucket bnds v /\ k < Z.of_nat n
  | oSumLoad v b => o = HObserve v
  | oSumCas v b _ => o = HObserve v
  | oCount b => is_obsb o = true
  | wLock => o = HWrite
  | wFlip => hold /\ gph g = Ph0
  | wCool count cold => hold /\ gph g = PhCool count /\ cold = negb hb
  | wSpin count cold => hold /\ gph g = PhCool count /\ cold = negb hb
  | wReadSum count cold => hold /\ gph g = PhM0 /\ cold = negb hb /\ count = zlen Dc
  | wReadBk count cold s j acc cum =>
      hold /\ gph g = PhM0 /\ cold = negb hb /\ count = zlen Dc /\ SumOf (vals Dc) s /\ (j < n)%nat /\
      acc = cntlt j Dc /\ cum = map (fun j => cntlt (S j) Dc) (seq 0 j)
  | mLoadCnt o' cold => hold /\ gph g = PhM0 /\ cold = negb hb /\ out_ok o' Dc
  | mAddCnt o' cold c => hold /\ gph g = PhM0 /\ cold = negb hb /\ out_ok o' Dc /\ c = zlen Dc
  | mStoreCnt o' cold => hold /\ gph g = PhM true false false false 0 0 /\ cold = negb hb /\ out_ok o' Dc
  | mLoadSum o' cold => hold /\ gph g = PhM true true false false 0 0 /\ cold = negb hb /\ out_ok o' Dc
  | mSumLoad o' cold s => hold /\ gph g = PhM true true false false 0 0 /\ cold = negb hb /\ out_ok o' Dc /\ SumOf (vals Dc) s
  | mSumCas o' cold s _ => hold /\ gph g = PhM true true false false 0 0 /\ cold = negb hb /\ out_ok o' Dc /\ SumOf (vals Dc) s
  | mStoreSum o' cold => hold /\ gph g = PhM true true true false 0 0 /\ cold = negb hb /\ out_ok o' Dc
  | mLoadBk o' cold j => hold /\ gph g = M4 j j /\ cold = negb hb /\ out_ok o' Dc /\ (j < n)%nat
  | mAddBk o' cold j c => hold /\ gph g = M4 j j /\ cold = negb hb /\ out_ok o' Dc /\ (j < n)%nat /\ c = cnteq j Dc
  | mStoreBk o' cold j => hold /\ gph g = M4 (S j) j /\ cold = negb hb /\ out_ok o' Dc /\ (j < n)%nat
  | mLoadZero o' cold => hold /\ gph g = M4 n n /\ cold = negb hb /\ out_ok o' Dc
  | mAddZero o' cold z => hold /\ gph g = M4 n n /\ cold = negb hb /\ out_ok o' Dc /\ z = 0
  | mStoreZero o' cold => hold /\ gph g = M4 n n /\ cold = negb hb /\ out_ok o' Dc
  | wUnlock o' => hold /\ gph g = M4 n n /\ out_ok o' Dc
  end.

Definition tinv (hb : bool) (g : ghost) (time : Z) (i : nat) (t : thread GM) : Prop :=
  match t_cur t with Some (o, pc, inv) => pcinv hb g i o (vw pc) inv /\ inv <= time | None => True end.

Definition wr_ok (hs : list hcall) (base : list hcall) (e : hcall * list hcall) : Prop :=
  let (w, S) := e in
  exists o, c_ret w = HOut o /\ out_ok o S /\
    (forall k, In k hs -> kobs k = true -> c_res k <= c_inv w -> In k S) /\
    (forall k, In k S -> In k hs /\ kobs k = true /\ c_inv k < c_res w) /\
    incl S base /\ NoDup S.

Definition holds (pc : hpc) : bool :=
  match pc with oTicket _ | oBucket _ _ _ | oSumLoad _ _ | oSumCas _ _ _ | oCount _ | wLock => false | _ => true end.

Definition base (g : ghost) (hb : bool) := gD g (if flipped (gph g) then negb hb else hb).

(* threads *)
Record InvT (hb mx : bool) (g : ghost) (T : list (thread GM)) (time : Z) : Prop := mkInvT {
  i_thr : forall i t, nth_error T i = Some t -> tinv hb g time i t;
  i_own : match gown g with
          | None => mx = false /\ gph g = Ph0
          | Some i => mx = true /\ exists t o pc inv, nth_error T i = Some t /\
                        t_cur t = Some (o, pc, inv) /\ holds (vw pc) = true
          end }.

(* shared state *)
Record InvS (h : hsh) (g : ghost) (T : list (thread GM)) : Prop := mkInvS {
  i_bnds : h_bnds h = bnds;
  i_tick : tickets h = zlen (gD0 g) + TA false T + zlen (gD1 g) + TA true T;
  i_cnth : s_cnt (hget h (hot h)) = zlen (gD g (hot h)) + (if pmc (gph g) then zlen (gD g (negb (hot h))) else 0);
  i_cntc : s_cnt (hget h (negb (hot h))) = if pzc (gph g) then 0 else zlen (gD g (negb (hot h)));
  i_bkh : forall j, (j < n)%nat -> nthZ (s_bk (hget h (hot h))) j =
           cnteq j (gD g (hot h)) + TB (hot h) j T +
           (if (j <? pmb (gph g))%nat then cnteq j (gD g (negb (hot h))) else 0);
  i_bkc : forall j, (j < n)%nat -> nthZ (s_bk (hget h (negb (hot h)))) j =
           (if (j <? pzb (gph g))%nat then 0 else cnteq j (gD g (negb (hot h)))) + TB (negb (hot h)) j T;
  i_sumh : SumOf (vals (gD g (hot h)) ++ TS (hot h) T ++ (if pms (gph g) then vals (gD g (negb (hot h))) else []))
                 (s_sum (hget h (hot h)));
  i_sumc : if pzs (gph g) then s_sum (hget h (negb (hot h))) = pzero
           else SumOf (vals (gD g (negb (hot h))) ++ TS (negb (hot h)) T) (s_sum (hget h (negb (hot h))));
  i_zero : forall b, s_zero (hget h b) = 0 /\ length (s_bk (hget h b)) = n;
  i_free : gph g = Ph0 -> gD g (negb (hot h)) = [];
  i_cooled : cooled (gph g) = true -> TA (negb (hot h)) T = 0;
  i_cool : forall count, gph g = PhCool count -> count = zlen (gD g (negb (hot h))) + TA (negb (hot h)) T }.

(* history *)
Record InvH (hs : list hcall) (time : Z) (g : ghost) (hb : bool) : Prop := mkInvH {
  i_time : forall k, In k hs -> c_inv k <= c_res k <= time /\ (kobs k = true -> c_ret k = HUnit);
  i_total : Permutation (filter kobs hs) (gD0 g ++ gD1 g);
  i_wr : map fst (gW g) = filter (fun k => negb (kobs k)) hs;
  i_wrok : Forall (wr_ok hs (base g hb)) (gW g);
  i_mono : StronglySorted (fun a b => incl (snd a) (snd b)) (gW g);
  i_rt : gown g <> None -> forall k, In k hs -> kobs k = true -> c_res k <= ginv g -> In k (base g hb);
  i_nodup : NoDup hs }.

Definition Inv3 (h : hsh) (T : list (thread GM)) (time : Z) (hs : list hcall) (g : ghost) : Prop :=
  InvT (hot h) (mtx h) g T time /\ InvS h g T /\ InvH hs time g (hot h).
Definition Inv (c : config GM) (g : ghost) : Prop := Inv3 (sh c) (thr c) (now c) (hist c) g.

(* ---- counting lemmas ---- *)
Lemma cnteq_app j E1 E2 : cnteq j (E1 ++ E2) = cnteq j E1 + cnteq j E2.
Proof. unfold cnteq. rewrite filter_app. apply zlen_app. Qed.
Lemma cnteq_nil j : cnteq j [] = 0. Proof. reflexivity. Qed.
Lemma cnteq_one j k : cnteq j [k] = if Nat.eqb (bix (kval k)) j then 1 else 0.
Proof. unfold cnteq. cbn [filter]. destruct (Nat.eqb _ _); reflexivity. Qed.
Lemma cntlt_S j E : cntlt (S j) E = cntlt j E + cnteq j E.
Proof.
  unfold cntlt, cnteq, zlen. induction E as [|k E IH]; cbn [filter]; [reflexivity|].
  destruct (Nat.ltb_spec (bix (kval k)) (S j)), (Nat.ltb_spec (bix (kval k)) j), (Nat.eqb_spec (bix (kval k)) j);
    cbn [length]; lia.
Qed.
Lemma cntlt_0 E : cntlt 0 E = 0.
Proof. unfold cntlt, zlen. induction E as [|k E IH]; cbn [filter]; [reflexivity|exact IH]. Qed.
Lemma vals_app E1 E2 : vals (E1 ++ E2) = vals E1 ++ vals E2.
Proof. apply map_app. Qed.

(* ---- thread contributions ---- *)
Lemma cA_nonneg b x : 0 <= cA b x.
Proof. destruct x as [[o []]|]; cbn [cA]; try lia; destruct (Bool.eqb _ _); lia. Qed.

Lemma TA_mem b (T : list (thread GM)) i t o pc inv : nth_error T i = Some t -> t_cur t = Some (o, pc, inv) -> cA b (Some (o, vw pc)) <= TA b T.
Proof.
  intros Ht Hc. assert (Hp : tpc t = Some (o, vw pc)) by (unfold tpc; rewrite Hc; reflexivity). rewrite <- Hp.
  apply (zsum_ge_nth (fun t => cA b (tpc t))) with i; [intros; apply cA_nonneg|exact Ht].
Qed.

Lemma TA_zero b T : TA b T = 0 -> (forall j, TB b j T = 0) /\ TS b T = [].
Proof.
  intros H.
  assert (Hz : forall t, In t T -> cA b (tpc t) = 0).
  { apply (zsum_zero_all (fun t => cA b (tpc t))); [intros; apply cA_nonneg|exact H]. }
  split; [intros j; apply zsum_all_zero|apply concat_all_nil]; intros t Ht; specialize (Hz t Ht);
    destruct (tpc t) as [[o []]|]; cbn [cA cB cS] in *; try reflexivity;
    destruct (Bool.eqb _ _); cbn [andb]; first [reflexivity|lia].
Qed.

Section SetNth.
Variables (T : list (thread GM)) (i : nat) (t t' : thread GM).
Hypothesis Ht : nth_error T i = Some t.
Lemma TA_set b : TA b (set_nth T i t') = TA b T - cA b (tpc t) + cA b (tpc t').
Proof. unfold TA. apply (zsum_set_nth (fun t => cA b (tpc t))). exact Ht. Qed.
Lemma TB_set b j : TB b j (set_nth T i t') = TB b j T - cB b j (tpc t) + cB b j (tpc t').
Proof. unfold TB. apply (zsum_set_nth (fun t => cB b j (tpc t))). exact Ht. Qed.
Lemma TS_set b : Permutation (cS b (tpc t) ++ TS b (set_nth T i t')) (cS b (tpc t') ++ TS b T).
Proof. unfold TS. apply (concat_set_nth (fun t => cS b (tpc t))). exact Ht. Qed.
Lemma TS_same b : cS b (tpc t') = cS b (tpc t) -> TS b (set_nth T i t') = TS b T.
Proof. intros E. unfold TS. f_equal. apply (map_set_nth_same (fun t => cS b (tpc t)) _ _ t); assumption. Qed.
End SetNth.

Lemma tinv_mono hb g time time' i t : time <= time' -> tinv hb g time i t -> tinv hb g time' i t.
Proof. unfold tinv. destruct (t_cur t) as [[[o pc] inv]|]; [|auto]. intros H [H1 H2]. split; [assumption|lia]. Qed.

(* local invariants of threads that do not hold the lock do not depend on the ghost state *)
Lemma pcinv_holds hb g i o pc inv : pcinv hb g i o pc inv -> holds pc = true -> o = HWrite /\ gown g = Some i /\ ginv g = inv.
Proof. destruct pc; cbn [pcinv holds]; intros H E; try discriminate E; tauto. Qed.

Lemma pcinv_nohold hb g hb' g' i o pc inv : holds pc = false -> pcinv hb g i o pc inv -> pcinv hb' g' i o pc inv.
Proof. destruct pc; cbn [pcinv holds]; intros E H; try discriminate E; assumption. Qed.

Lemma tinv_other hb g hb' g' time i j t :
  gown g = Some i -> j <> i -> tinv hb g time j t -> tinv hb' g' time j t.
Proof.
  unfold tinv. destruct (t_cur t) as [[[o pc] inv]|]; [|auto]. intros Ho Hne [H1 H2]. split; [|assumption].
  destruct (holds (vw pc)) eqn:E; [|eapply pcinv_nohold; eauto].
  destruct (pcinv_holds _ _ _ _ _ _ H1 E) as (_ & H & _). congruence.
Qed.

(* ... and the holder's depends only on the lock ghost, the phase and (once cooled) the cold list *)
Lemma pcinv_frame hb g g' i o pc inv :
  gown g' = gown g -> ginv g' = ginv g -> gph g' = gph g ->
  (cooled (gph g) = true -> gD g' (negb hb) = gD g (negb hb)) ->
  pcinv hb g i o pc inv -> pcinv hb g' i o pc inv.
Proof.
  intros E1 E2 E3 E4.
  destruct pc; cbn [pcinv]; rewrite ?E1, ?E2, ?E3; try tauto;
    intros H; decompose [and] H; clear H;
    match goal with Hp : gph g = _ |- _ => rewrite Hp in E4; specialize (E4 eq_refl); rewrite E4 end;
    tauto.
Qed.

(* ---- frame lemmas ---- *)
Lemma InvH_time hs time time' g hb : time <= time' -> InvH hs time g hb -> InvH hs time' g hb.
Proof.
  intros Ht []. constructor; try assumption.
  intros k Hk. destruct (i_time0 k Hk) as [H1 H2]. split; [lia|assumption].
Qed.

Lemma base_eq g g' hb : gD0 g' = gD0 g -> gD1 g' = gD1 g -> flipped (gph g') = flipped (gph g) -> base g' hb = base g hb.
Proof. intros E0 E1 E2. unfold base, gD. rewrite E0, E1, E2. reflexivity. Qed.

Lemma InvH_ghost hs time g g' hb :
  gD0 g' = gD0 g -> gD1 g' = gD1 g -> gW g' = gW g -> gown g' = gown g -> ginv g' = ginv g ->
  flipped (gph g') = flipped (gph g) -> InvH hs time g hb -> InvH hs time g' hb.
Proof.
  intros E0 E1 EW Eo Ei Ef []. pose proof (base_eq g g' hb E0 E1 Ef) as Eb.
  constructor; rewrite ?E0, ?E1, ?EW, ?Eo, ?Ei, ?Eb; assumption.
Qed.

Lemma InvS_T h g T T' :
  (forall b, TA b T' = TA b T) -> (forall b j, TB b j T' = TB b j T) -> (forall b, TS b T' = TS b T) ->
  InvS h g T -> InvS h g T'.
Proof.
  intros HA HB HS []. constructor; try assumption; try (intros; rewrite ?HA, ?HB, ?HS; auto; fail).
Qed.

(* the stepping thread keeps its contributions *)
Lemma T_same T i t t' : nth_error T i = Some t ->
  (forall b, cA b (tpc t') = cA b (tpc t)) -> (forall b j, cB b j (tpc t') = cB b j (tpc t)) ->
  (forall b, cS b (tpc t') = cS b (tpc t)) ->
  (forall b, TA b (set_nth T i t') = TA b T) /\ (forall b j, TB b j (set_nth T i t') = TB b j T) /\
  (forall b, TS b (set_nth T i t') = TS b T).
Proof.
  intros Ht HA HB HS. repeat split; intros.
  - rewrite (TA_set _ _ _ _ Ht), HA. lia.
  - rewrite (TB_set _ _ _ _ Ht), HB. lia.
  - apply (TS_same _ _ _ _ Ht), HS.
Qed.

(* thread i steps; it does not hold the lock before or after *)
Lemma InvT_obs hb mx g g' T time i t t' :
  InvT hb mx g T time -> nth_error T i = Some t ->
  (forall o pc inv, t_cur t = Some (o, pc, inv) -> holds (vw pc) = false) ->
  gown g' = gown g -> ginv g' = ginv g -> gph g' = gph g ->
  (cooled (gph g) = true -> gD g' (negb hb) = gD g (negb hb)) ->
  tinv hb g' (time + 1) i t' ->
  InvT hb mx g' (set_nth T i t') (time + 1).
Proof.
  intros [Hthr Hown] Ht Hnh E1 E2 E3 E4 Hnew. constructor.
  - intros j tj Hj. apply nth_error_set_nth_inv in Hj. destruct Hj as [[-> ->]|[Hne Hj]]; [assumption|].
    apply tinv_mono with time; [lia|]. specialize (Hthr j tj Hj). revert Hthr. unfold tinv.
    destruct (t_cur tj) as [[[o pc] inv]|]; [|auto]. intros [H1 H2]. split; [|assumption].
    eapply pcinv_frame; eauto.
  - rewrite E1, E3. destruct (gown g) as [j|]; [|assumption].
    destruct Hown as (Hm & tj & o & pc & inv & Hj & Hc & Hh). split; [assumption|].
    assert (j <> i). { intros ->. rewrite Ht in Hj. inversion Hj; subst. rewrite (Hnh _ _ _ Hc) in Hh. discriminate. }
    exists tj, o, pc, inv. rewrite nth_error_set_nth_neq by congruence. auto.
Qed.

(* thread i holds the lock before and after the step *)
Lemma InvT_hold hb hb' mx g g' T time i t o pc inv o' pc' inv' todo idx :
  InvT hb mx g T time -> nth_error T i = Some t -> t_cur t = Some (o, pc, inv) -> holds (vw pc) = true ->
  gown g' = gown g -> holds (vw pc') = true ->
  pcinv hb' g' i o' (vw pc') inv' -> inv' <= time ->
  InvT hb' mx g' (set_nth T i (mkThread GM todo (Some (o', pc', inv')) idx)) (time + 1).
Proof.
  intros [Hthr Hown] Ht Hc Hh E1 Hh' Hnew Hinv.
  pose proof (Hthr i t Ht) as Hi. unfold tinv in Hi. rewrite Hc in Hi. destruct Hi as [Hi _].
  destruct (pcinv_holds _ _ _ _ _ _ Hi Hh) as (_ & Hg & _).
  constructor.
  - intros j tj Hj. apply nth_error_set_nth_inv in Hj. destruct Hj as [[-> ->]|[Hne Hj]].
    + unfold tinv. cbn [t_cur]. split; [assumption|lia].
    + apply tinv_mono with time; [lia|]. eapply tinv_other; eauto.
  - rewrite E1, Hg. rewrite Hg in Hown. destruct Hown as [Hm _]. split; [assumption|].
    eexists _, o', pc', inv'. rewrite (nth_error_set_nth_eq _ _ _ _ Ht). cbn [t_cur]. auto.
Qed.

(* ====================================================================== *)
(* 5. preservation                                                         *)
(* ====================================================================== *)
Definition set_ph (g : ghost) (ph : phase) : ghost := mkG (gD0 g) (gD1 g) (gW g) (gown g) (ginv g) ph.

Definition add_D (g : ghost) (b : bool) (k : hcall) : ghost :=
  mkG (if b then gD0 g else gD0 g ++ [k]) (if b then gD1 g ++ [k] else gD1 g) (gW g) (gown g) (ginv g) (gph g).
Definition unlock_g (g : ghost) (hb : bool) (w : hcall) : ghost :=
  mkG (if hb then [] else gD0 g ++ gD1 g) (if hb then gD1 g ++ gD0 g else [])
      (gW g ++ [(w, gD g (negb hb))]) None 0 Ph0.

Lemma gD_set_ph g ph b : gD (set_ph g ph) b = gD g b.
Proof. reflexivity. Qed.

Lemma hot_hput h b s : hot (hput h b s) = hot h. Proof. destruct b; reflexivity. Qed.
Lemma mtx_hput h b s : mtx (hput h b s) = mtx h. Proof. destruct b; reflexivity. Qed.

Lemma holds_contrib o pc : holds pc = true ->
  (forall b, cA b (Some (o, pc)) = 0) /\ (forall b j, cB b j (Some (o, pc)) = 0) /\ (forall b, cS b (Some (o, pc)) = []).
Proof. destruct pc; cbn [holds]; intros H; try discriminate H; repeat split. Qed.

(* the lock holder executes a step that keeps the lock, the hot bit and the ghost lists *)
Lemma step_hold h h' T nw hs g g' i t o pc pc' inv :
  Inv3 h T nw hs g -> nth_error T i = Some t -> t_cur t = Some (o, pc, inv) ->
  holds (vw pc) = true -> holds (vw pc') = true -> hot h' = hot h -> mtx h' = mtx h ->
  gD0 g' = gD0 g -> gD1 g' = gD1 g -> gW g' = gW g -> gown g' = gown g -> ginv g' = ginv g ->
  flipped (gph g') = flipped (gph g) ->
  pcinv (hot h) g' i o (vw pc') inv -> InvS h' g' T ->
  Inv3 h' (set_nth T i (mkThread GM (t_todo t) (Some (o, pc', inv)) (t_idx t))) (nw + 1) hs g'.
Proof.
  intros (HT & HS & HH) Ht Hc Hh Hh' Ehot Emtx E0 E1 EW Eo Ei Ef Hpc HS'.
  pose proof (i_thr _ _ _ _ _ HT i t Ht) as Hi. unfold tinv in Hi. rewrite Hc in Hi. destruct Hi as [_ Hinv].
  unfold Inv3. rewrite Ehot, Emtx. split; [|split].
  - eapply InvT_hold; eauto.
  - destruct (holds_contrib o (vw pc) Hh) as (A1 & B1 & S1). destruct (holds_contrib o (vw pc') Hh') as (A2 & B2 & S2).
    assert (Hp : tpc t = Some (o, vw pc)) by (unfold tpc; rewrite Hc; reflexivity).
    destruct (T_same T i t (mkThread GM (t_todo t) (Some (o, pc', inv)) (t_idx t)) Ht) as (HA & HB & HS2);
      try (intros; rewrite Hp; unfold tpc; cbn [t_cur]; rewrite ?A1, ?A2, ?B1, ?B2, ?S1, ?S2; reflexivity).
    eapply InvS_T; [..|exact HS']; intros; auto.
  - apply InvH_time with nw; [lia|]. eapply InvH_ghost; eauto.
Qed.

(* a thread that does not hold the lock executes a step changing nothing but its own pc (same contributions) *)
Lemma step_quiet h T nw hs g i t o pc pc' inv :
  Inv3 h T nw hs g -> nth_error T i = Some t -> t_cur t = Some (o, pc, inv) ->
  holds (vw pc) = false ->
  (forall b, cA b (Some (o, vw pc')) = cA b (Some (o, vw pc))) -> (forall b j, cB b j (Some (o, vw pc')) = cB b j (Some (o, vw pc))) ->
  (forall b, cS b (Some (o, vw pc')) = cS b (Some (o, vw pc))) ->
  pcinv (hot h) g i o (vw pc') inv ->
  Inv3 h (set_nth T i (mkThread GM (t_todo t) (Some (o, pc', inv)) (t_idx t))) (nw + 1) hs g.
Proof.
  intros (HT & HS & HH) Ht Hc Hh EA EB ES Hpc.
  pose proof (i_thr _ _ _ _ _ HT i t Ht) as Hi. unfold tinv in Hi. rewrite Hc in Hi. destruct Hi as [_ Hinv].
  split; [|split].
  - eapply InvT_obs; eauto.
    + intros o1 pc1 inv1 H1. rewrite Hc in H1. inversion H1; subst. assumption.
    + unfold tinv. cbn [t_cur]. split; [assumption|lia].
  - assert (Hp : tpc t = Some (o, vw pc)) by (unfold tpc; rewrite Hc; reflexivity).
    destruct (T_same T i t (mkThread GM (t_todo t) (Some (o, pc', inv)) (t_idx t)) Ht) as (HA & HB & HS2);
      try (intros; rewrite Hp; unfold tpc; cbn [t_cur]; auto).
    eapply InvS_T; [..|exact HS]; intros; auto.
  - apply InvH_time with nw; [lia|assumption].
Qed.

Lemma T_step T i t o pc inv x : nth_error T i = Some t -> t_cur t = Some (o, pc, inv) ->
  forall t', tpc t' = x ->
  (forall b, TA b (set_nth T i t') = TA b T - cA b (Some (o, vw pc)) + cA b x) /\
  (forall b j, TB b j (set_nth T i t') = TB b j T - cB b j (Some (o, vw pc)) + cB b j x) /\
  (forall b, Permutation (cS b (Some (o, vw pc)) ++ TS b (set_nth T i t')) (cS b x ++ TS b T)).
Proof.
  intros Ht Hc t' Hx. assert (Hp : tpc t = Some (o, vw pc)) by (unfold tpc; rewrite Hc; reflexivity).
  rewrite <- Hp, <- Hx. repeat split; intros; [apply TA_set|apply TB_set|apply TS_set]; assumption.
Qed.

(* an observer step that keeps the ghost state *)
Lemma step_obs h h' T nw hs g i t o pc pc' inv :
  Inv3 h T nw hs g -> nth_error T i = Some t -> t_cur t = Some (o, pc, inv) ->
  holds (vw pc) = false -> hot h' = hot h -> mtx h' = mtx h ->
  pcinv (hot h) g i o (vw pc') inv ->
  InvS h' g (set_nth T i (mkThread GM (t_todo t) (Some (o, pc', inv)) (t_idx t))) ->
  Inv3 h' (set_nth T i (mkThread GM (t_todo t) (Some (o, pc', inv)) (t_idx t))) (nw + 1) hs g.
Proof.
  intros (HT & HS & HH) Ht Hc Hh Ehot Emtx Hpc HS'.
  pose proof (i_thr _ _ _ _ _ HT i t Ht) as Hi. unfold tinv in Hi. rewrite Hc in Hi. destruct Hi as [_ Hinv].
  unfold Inv3. rewrite Ehot, Emtx. split; [|split]; [|assumption|].
  - eapply InvT_obs; eauto.
    + intros o1 pc1 inv1 H1. rewrite Hc in H1. inversion H1; subst. assumption.
    + unfold tinv. cbn [t_cur]. split; [assumption|lia].
  - apply InvH_time with nw; [lia|assumption].
Qed.

Lemma cooled_facts h g T : InvS h g T -> cooled (gph g) = true ->
  TA (negb (hot h)) T = 0 /\ (forall j, TB (negb (hot h)) j T = 0) /\ TS (negb (hot h)) T = [].
Proof.
  intros HS Hc. pose proof (i_cooled _ _ _ HS Hc) as HA. destruct (TA_zero _ _ HA) as [HB HS']. auto.
Qed.


(* ---- completion of an Observe: the call record joins the ghost list of its set ---- *)
Lemma gD_add_same g b k : gD (add_D g b k) b = gD g b ++ [k].
Proof. destruct b; reflexivity. Qed.
Lemma gD_add_other g b k : gD (add_D g b k) (negb b) = gD g (negb b).
Proof. destruct b; reflexivity. Qed.
Lemma base_add_incl g b k hb : incl (base g hb) (base (add_D g b k) hb).
Proof.
  unfold base. change (gph (add_D g b k)) with (gph g).
  destruct (flipped (gph g)), hb, b; cbn [negb gD add_D gD0 gD1]; first [apply incl_refl|apply incl_appl, incl_refl].
Qed.

Lemma wr_ok_snoc hs bs bs' e k :
  wr_ok hs bs e -> c_inv (fst e) < c_res k -> incl bs bs' -> wr_ok (hs ++ [k]) bs' e.
Proof.
  destruct e as [w S]. cbn [fst wr_ok]. intros (o & Hr & Ho & H1 & H2 & H3 & H4) Hlt Hincl.
  exists o. psplit; auto.
  - intros k' Hk' Hob Hle. apply in_app_or in Hk'. destruct Hk' as [Hk'|[<-|[]]]; [auto|lia].
  - intros k' Hk'. destruct (H2 k' Hk') as (A & B & C). psplit; auto. apply in_or_app. auto.
  - eapply incl_tran; eauto.
Qed.

Lemma gW_in_hist hs time g hb e : InvH hs time g hb -> In e (gW g) -> In (fst e) hs.
Proof.
  intros HH He. pose proof (in_map fst _ _ He) as H. rewrite (i_wr _ _ _ _ HH) in H.
  apply filter_In in H. tauto.
Qed.

Lemma InvH_obs hs nw g hb b k :
  InvH hs nw g hb -> kobs k = true -> c_ret k = HUnit -> c_inv k <= c_res k -> c_res k = nw + 1 ->
  (gown g <> None -> ginv g <= nw) ->
  InvH (hs ++ [k]) (nw + 1) (add_D g b k) hb.
Proof.
  intros HH Hob Hret Hik Hres Hgi. pose proof HH as [TM TOT WR WOK MONO RT ND]. constructor.
  - intros k' Hk'. apply in_app_or in Hk'. destruct Hk' as [Hk'|[<-|[]]].
    + destruct (TM k' Hk') as [H1 H2]. split; [lia|assumption].
    + split; [lia|auto].
  - rewrite filter_app. cbn [filter]. rewrite Hob. rewrite TOT.
    destruct b; cbn [add_D gD0 gD1]; perm.
  - rewrite filter_app. cbn [filter]. rewrite Hob. cbn [negb]. rewrite app_nil_r. exact WR.
  - change (gW (add_D g b k)) with (gW g). rewrite Forall_forall in *. intros e He.
    apply wr_ok_snoc with (base g hb); [auto| |apply base_add_incl].
    pose proof (gW_in_hist _ _ _ _ _ HH He) as Hin. destruct (TM _ Hin) as [H1 _]. lia.
  - exact MONO.
  - change (gown (add_D g b k)) with (gown g). change (ginv (add_D g b k)) with (ginv g).
    intros Ho k' Hk' Hob' Hle. apply in_app_or in Hk'. destruct Hk' as [Hk'|[<-|[]]].
    + apply base_add_incl. auto.
    + specialize (Hgi Ho). lia.
  - apply NoDup_app_snoc; [assumption|]. intros Hin. destruct (TM _ Hin). lia.
Qed.

Lemma tinv_none hb g hb' g' time j t : gown g = None -> tinv hb g time j t -> tinv hb' g' time j t.
Proof.
  unfold tinv. destruct (t_cur t) as [[[o pc] inv]|]; [|auto]. intros Ho [H1 H2]. split; [|assumption].
  destruct (holds (vw pc)) eqn:E; [|eapply pcinv_nohold; eauto].
  destruct (pcinv_holds _ _ _ _ _ _ H1 E) as (_ & H & _). congruence.
Qed.

(* ---- Unlock: the cold list is handed over to the hot list and becomes the Write's snapshot ---- *)
Lemma ss_snoc {A} (R : A -> A -> Prop) (h : list A) k :
  StronglySorted R h -> Forall (fun a => R a k) h -> StronglySorted R (h ++ [k]).
Proof.
  induction h as [|a r IH]; intros HS HF; cbn [app].
  - constructor; constructor.
  - inversion HS; subst. inversion HF; subst. constructor; [auto|].
    apply Forall_app; split; [assumption|constructor; [assumption|constructor]].
Qed.

Lemma InvH_unlock hs nw g hb w o0 :
  InvH hs nw g hb -> flipped (gph g) = true -> gown g <> None ->
  kobs w = false -> c_ret w = HOut o0 -> c_inv w = ginv g -> c_res w = nw + 1 -> ginv g <= nw ->
  out_ok o0 (gD g (negb hb)) ->
  InvH (hs ++ [w]) (nw + 1) (unlock_g g hb w) hb.
Proof.
  intros HH Hfl Hown Hkw Hret Hinv Hres Hle Hout. pose proof HH as [TM TOT WR WOK MONO RT ND].
  assert (Eb : base g hb = gD g (negb hb)) by (unfold base; rewrite Hfl; reflexivity).
  assert (Eb' : base (unlock_g g hb w) hb = gD g hb ++ gD g (negb hb)) by (destruct hb; reflexivity).
  rewrite Eb in *.
  assert (Hcold : forall k, In k (gD g (negb hb)) -> In k hs /\ kobs k = true).
  { intros k Hk. assert (Hin : In k (gD0 g ++ gD1 g)) by (apply in_or_app; destruct hb; cbn [negb gD] in Hk; auto).
    eapply Permutation_in in Hin; [|symmetry; exact TOT]. apply filter_In in Hin. exact Hin. }
  constructor.
  - intros k' Hk'. apply in_app_or in Hk'. destruct Hk' as [Hk'|[<-|[]]].
    + destruct (TM k' Hk') as [H1 H2]. split; [lia|assumption].
    + split; [lia|]. rewrite Hkw. discriminate.
  - rewrite filter_app. cbn [filter]. rewrite Hkw, app_nil_r, TOT. destruct hb; cbn [unlock_g gD0 gD1]; perm.
  - cbn [unlock_g gW]. rewrite map_app, filter_app, WR. cbn [map filter fst]. rewrite Hkw. reflexivity.
  - rewrite Eb'. cbn [unlock_g gW]. apply Forall_app. split.
    + rewrite Forall_forall in *. intros e He. apply wr_ok_snoc with (gD g (negb hb)); [auto| |apply incl_appr, incl_refl].
      pose proof (gW_in_hist _ _ _ _ _ HH He) as Hin. destruct (TM _ Hin) as [H1 _]. lia.
    + constructor; [|constructor]. cbn [wr_ok]. exists o0. psplit; auto.
      * intros k Hk Hob Hle'. apply in_app_or in Hk. destruct Hk as [Hk|[<-|[]]]; [|congruence].
        apply RT; auto. lia.
      * intros k Hk. destruct (Hcold k Hk) as [H1 H2]. psplit; auto; [apply in_or_app; auto|].
        destruct (TM k H1) as [H3 _]. lia.
      * apply incl_appr, incl_refl.
      * assert (ND2 : NoDup (gD0 g ++ gD1 g)).
        { eapply Permutation_NoDup; [exact TOT|]. apply NoDup_filter. exact ND. }
        destruct hb; cbn [negb gD]; [eapply NoDup_app_l|eapply NoDup_app_r]; exact ND2.
  - cbn [unlock_g gW]. apply ss_snoc; [assumption|]. rewrite Forall_forall in *. intros [w1 S1] He.
    specialize (WOK _ He). cbn [wr_ok] in WOK. destruct WOK as (o1 & _ & _ & _ & _ & Hincl & _). exact Hincl.
  - cbn [unlock_g gown]. congruence.
  - apply NoDup_app_snoc; [assumption|]. intros Hin. destruct (TM _ Hin). lia.
Qed.

Lemma ginv_le hb mx g T nw : InvT hb mx g T nw -> gown g <> None -> ginv g <= nw.
Proof.
  intros [Hthr Hown] Hne. destruct (gown g) as [j|]; [|congruence].
  destruct Hown as (_ & t & o & pc & inv & Hj & Hc & Hh). specialize (Hthr j t Hj). unfold tinv in Hthr.
  rewrite Hc in Hthr. destruct Hthr as [Hp Hi]. destruct (pcinv_holds _ _ _ _ _ _ Hp Hh) as (_ & _ & E). lia.
Qed.


(* ---- fresh threads and the initial configuration ---- *)
Hypothesis st_vw : forall o, exists l, st o = inl l /\ vw l = match o with HObserve v => oTicket v | HWrite => wLock end.


Lemma gstart_inl : forall o : Conc.op GM, exists l, start GM o = inl l.
Proof. intros o. destruct (st_vw o) as (l & Hl & _). exists l. exact Hl. Qed.


(* a thread as left by `advance` contributes nothing and satisfies its local invariant *)
Lemma fresh_tpc time (t : thread GM) : fresh time t ->
  (forall b, cA b (tpc t) = 0) /\ (forall b j, cB b j (tpc t) = 0) /\ (forall b, cS b (tpc t) = []).
Proof.
  unfold fresh, tpc. destruct (t_cur t) as [[[o pc] inv]|]; [|repeat split].
  intros [_ Hs]. destruct (st_vw o) as (l & Hl & Hv). cbn [start] in Hs. rewrite Hl in Hs. inversion Hs; subst l.
  rewrite Hv. destruct o; repeat split.
Qed.
Lemma fresh_tinv hb g time i (t : thread GM) : fresh time t -> tinv hb g time i t.
Proof.
  unfold fresh, tinv. destruct (t_cur t) as [[[o pc] inv]|]; [|auto].
  intros [-> Hs]. split; [|lia]. destruct (st_vw o) as (l & Hl & Hv). cbn [start] in Hs. rewrite Hl in Hs. inversion Hs; subst l.
  rewrite Hv. destruct o; reflexivity.
Qed.

(* ---- initial configuration ---- *)
Definition g0 : ghost := mkG [] [] [] None 0 Ph0.

Lemma fresh_T0 time (T : list (thread GM)) : Forall (fresh time) T ->
  (forall b, TA b T = 0) /\ (forall b j, TB b j T = 0) /\ (forall b, TS b T = []).
Proof.
  intros HF. rewrite Forall_forall in HF.
  repeat split; intros; [apply zsum_all_zero|apply zsum_all_zero|apply concat_all_nil]; intros t Ht;
    apply (fresh_tpc time t (HF t Ht)).
Qed.

Lemma Inv_init progs : Inv (init_config GM (hinit bnds) progs) g0.
Proof.
  destruct (init_fresh GM gstart_inl (hinit bnds) progs) as [HF Hh].
  destruct (fresh_T0 0 _ HF) as (HA & HB & HS).
  unfold Inv, Inv3. rewrite Hh. set (T := thr (init_config GM (hinit bnds) progs)) in *.
  change (sh (init_config GM (hinit bnds) progs)) with (hinit bnds).
  change (now (init_config GM (hinit bnds) progs)) with 0.
  split; [|split].
  - constructor.
    + intros i t Hi. apply fresh_tinv. eapply Forall_forall; [exact HF|]. eapply nth_error_In; eauto.
    + cbn. auto.
  - constructor; cbn [hinit hget hot negb gD g0 gph gD0 gD1 set0 set1 cset0 s_bk s_sum s_cnt s_zero tickets h_bnds
                     pmb pzb pms pzs pmc pzc vals map app zlen length];
      try (intros; rewrite ?HA, ?HB, ?HS, ?nthZ_repeat0; first [reflexivity|discriminate|constructor]).
    all: destruct b; cbn [hinit hget set0 set1 cset0 s_bk s_zero]; rewrite ?repeat_length; reflexivity.
  - constructor; cbn [g0 gW gD0 gD1 gown app filter map].
    + intros k [].
    + constructor.
    + reflexivity.
    + constructor.
    + constructor.
    + intros H. exfalso. apply H. reflexivity.
    + constructor.
Qed.


(* preservation by one step is proved per machine (after this section) *)
Hypothesis Inv_step_H : forall c g tid c', Inv c g -> sched_step GM c tid = Some c' -> exists g', Inv c' g'.
(* the only blocking operation is Mutex.Lock on a held mutex *)
Hypothesis enabled_H : forall h pc, stp h pc = None -> vw pc = wLock /\ mtx h = true.

Lemma Inv_reachable progs sched :
  exists g, Inv (run_sched GM (init_config GM (hinit bnds) progs) sched) g.
Proof.
  apply (run_sched_ind GM (fun c => exists g, Inv c g)).
  - intros c tid c' [g Hg] Hs. eapply Inv_step_H; eauto.
  - exists g0. apply Inv_init.
Qed.


(* ====================================================================== *)
(* 6. theorems (histogram)                                                 *)
(* ====================================================================== *)

(* o is the exact aggregate of the observation values Mo *)
Definition consistent (bounds : list f64) (o : hout) (Mo : list f64) : Prop :=
  ho_count o = Z.of_nat (length Mo) /\ ho_cum o = map (fun b => count_le Mo b) bounds /\ SumOf Mo (ho_sum o).

(* S is a set of completed Observe calls of the history explaining the Write call w in real time *)
Definition snapshot_of (hs : list hcall) (w : hcall) (S : list hcall) : Prop :=
  exists o, c_ret w = HOut o /\ consistent bnds o (vals S) /\ NoDup S /\
    (forall k, In k S -> In k hs /\ kobs k = true /\ c_inv k < c_res w) /\
    (forall k, In k hs -> kobs k = true -> c_res k <= c_inv w -> In k S).

Lemma map_nth_seq {A B} (d : A) (f : A -> B) (l : list A) :
  map f l = map (fun j => f (nth j l d)) (seq 0 (length l)).
Proof.
  induction l as [|a r IH]; [reflexivity|]. cbn [length seq map nth]. f_equal.
  rewrite <- seq_shift, map_map. exact IH.
Qed.

Lemma filter_map_length {A B} (g : A -> B) (p : B -> bool) (l : list A) :
  length (filter (fun x => p (g x)) l) = length (filter p (map g l)).
Proof. induction l as [|a r IH]; [reflexivity|]. cbn [filter map]. destruct (p (g a)); cbn [length]; auto. Qed.

Lemma cum_le E : strictly_increasing_b bnds = true ->
  map (fun j => cntlt (S j) E) (seq 0 (length bnds)) = map (fun b => count_le (vals E) b) bnds.
Proof.
  intros Hsi. rewrite (map_nth_seq fnan (fun b => count_le (vals E) b) bnds).
  apply map_ext_in. intros j Hj. apply in_seq in Hj.
  unfold cntlt, count_le, zlen, vals. f_equal. rewrite <- filter_map_length. f_equal.
  apply filter_ext. intros k. unfold bix. rewrite (find_bucket_spec_split bnds _ Hsi), Nat2Z.id.
  destruct (Nat.ltb_spec (split (kval k) bnds) (S j)) as [Hlt|Hge]; symmetry.
  - apply split_nth_ge; [assumption|lia|lia].
  - apply split_nth_lt; [assumption|lia].
Qed.

Lemma out_ok_consistent o E : strictly_increasing_b bnds = true -> out_ok o E -> consistent bnds o (vals E).
Proof.
  intros Hsi (H1 & H2 & H3). unfold consistent. psplit.
  - rewrite H1. unfold zlen, vals. rewrite map_length. reflexivity.
  - rewrite H3. apply cum_le. assumption.
  - assumption.
Qed.

Lemma wr_ok_snapshot hs bs e : strictly_increasing_b bnds = true ->
  wr_ok hs bs e -> snapshot_of hs (fst e) (snd e).
Proof.
  destruct e as [w S]. cbn [wr_ok fst snd]. intros Hsi (o & H1 & H2 & H3 & H4 & H5 & H6).
  exists o. psplit; auto. apply out_ok_consistent; assumption.
Qed.

Lemma ss_nth {A} (R : A -> A -> Prop) (h : list A) : StronglySorted R h ->
  forall i j a b, nth_error h i = Some a -> nth_error h j = Some b -> (i < j)%nat -> R a b.
Proof.
  induction 1 as [|x r HS IH HF]; intros i j a b Hi Hj Hlt.
  - destruct i; discriminate.
  - destruct j as [|j]; [lia|]. destruct i as [|i]; cbn [nth_error] in *.
    + inversion Hi; subst. rewrite Forall_forall in HF. apply HF. eapply nth_error_In; eauto.
    + eapply IH; eauto. lia.
Qed.

Section Thm.
Variables (progs : list (list hop)) (sched : list Z).
Let c := run_sched GM (init_config GM (hinit bnds) progs) sched.

(* T3 (first half) with T1/T2 for every Write: the Writes of the history, in completion order, are explained by an
   increasing chain of sets of completed Observe calls *)
Lemma scrapes_monotone_lemma : strictly_increasing_b bnds = true ->
  exists snap : list (hcall * list hcall),
    map fst snap = filter (fun k => negb (kobs k)) (Conc.hist c) /\
    Forall (fun e => snapshot_of (Conc.hist c) (fst e) (snd e)) snap /\
    (forall i j e1 e2, (i < j)%nat -> nth_error snap i = Some e1 -> nth_error snap j = Some e2 ->
       incl (snd e1) (snd e2)).
Proof.
  intros Hsi. destruct (Inv_reachable progs sched) as [g (HT & HS & HH)]. fold c in HT, HS, HH.
  exists (gW g). psplit.
  - apply (i_wr _ _ _ _ HH).
  - eapply Forall_impl; [|apply (i_wrok _ _ _ _ HH)]. intros e He. eapply wr_ok_snapshot; eauto.
  - intros i j e1 e2 Hlt H1 H2. exact (ss_nth _ _ (i_mono _ _ _ _ HH) i j e1 e2 H1 H2 Hlt).
Qed.

(* T1 + T2 *)
Lemma scrape_real_time_lemma : strictly_increasing_b bnds = true ->
  forall w o, In w (Conc.hist c) -> c_ret w = HOut o -> exists S, snapshot_of (Conc.hist c) w S.
Proof.
  intros Hsi w o Hw Hr. destruct (Inv_reachable progs sched) as [g (HT & HS & HH)]. fold c in HT, HS, HH.
  assert (Hk : kobs w = false).
  { destruct (kobs w) eqn:E; [|reflexivity]. destruct (i_time _ _ _ _ HH w Hw) as [_ H]. rewrite (H E) in Hr. discriminate. }
  assert (Hin : In w (map fst (gW g))).
  { rewrite (i_wr _ _ _ _ HH). apply filter_In. rewrite Hk. auto. }
  apply in_map_iff in Hin. destruct Hin as ([w' S] & <- & He). exists S.
  pose proof (i_wrok _ _ _ _ HH) as WOK. rewrite Forall_forall in WOK.
  exact (wr_ok_snapshot _ _ _ Hsi (WOK _ He)).
Qed.

Lemma scrape_consistent_lemma : strictly_increasing_b bnds = true ->
  forall w o, In w (Conc.hist c) -> c_ret w = HOut o -> exists Mo : list f64, consistent bnds o Mo.
Proof.
  intros Hsi w o Hw Hr. destruct (scrape_real_time_lemma Hsi w o Hw Hr) as (S & o' & Hr' & Hc & _).
  exists (vals S). congruence.
Qed.
End Thm.

Section Thm2.
Variables (progs : list (list hop)) (sched : list Z).
Let c := run_sched GM (init_config GM (hinit bnds) progs) sched.

Lemma all_done_none (c0 : config GM) : all_done GM c0 = true -> forall i t, nth_error (thr c0) i = Some t -> t_cur t = None.
Proof.
  unfold all_done. rewrite forallb_forall. intros H i t Hi. specialize (H t (nth_error_In _ _ Hi)).
  destruct (t_cur t); [discriminate|reflexivity].
Qed.

(* T3 (second half): once every call has returned, the hot set holds exactly the completed observations,
   the cold set is empty and the mutex is free: no Write lost or duplicated anything *)
Lemma quiescent_total_lemma : all_done GM c = true ->
  let h := sh c in
  let obs := filter kobs (Conc.hist c) in
  mtx h = false /\ tickets h = Z.of_nat (length obs) /\
  s_cnt (hget h (hot h)) = Z.of_nat (length obs) /\ SumOf (vals obs) (s_sum (hget h (hot h))) /\
  s_cnt (hget h (negb (hot h))) = 0.
Proof.
  intros Hd. destruct (Inv_reachable progs sched) as [g (HT & HS & HH)]. fold c in HT, HS, HH.
  pose proof (all_done_none c Hd) as Hn.
  assert (HZ : forall t, In t (thr c) -> tpc t = None).
  { intros t Ht. apply In_nth_error in Ht. destruct Ht as [i Hi]. unfold tpc. rewrite (Hn i t Hi). reflexivity. }
  assert (HA : forall b, TA b (thr c) = 0).
  { intros b. apply zsum_all_zero. intros t Ht. rewrite (HZ t Ht). reflexivity. }
  assert (HSS : forall b, TS b (thr c) = []).
  { intros b. apply concat_all_nil. intros t Ht. rewrite (HZ t Ht). reflexivity. }
  pose proof (i_own _ _ _ _ _ HT) as Hown. destruct (gown g) as [j|].
  { destruct Hown as (_ & t & o & pc & inv & Hj & Hc & _). rewrite (Hn j t Hj) in Hc. discriminate. }
  destruct Hown as [Hm Hph]. cbn zeta.
  pose proof (i_free _ _ _ HS Hph) as Hfree.
  pose proof (i_total _ _ _ _ HH) as TOT.
  pose proof (i_tick _ _ _ HS) as TK. pose proof (i_cnth _ _ _ HS) as CH. pose proof (i_cntc _ _ _ HS) as CC.
  pose proof (i_sumh _ _ _ HS) as SH.
  rewrite Hph in *. cbn [pmc pzc pms] in *. rewrite !HA in TK. rewrite HSS in SH. rewrite Hfree in CC.
  assert (Hlen : Z.of_nat (length (filter kobs (Conc.hist c))) = zlen (gD g (hot (sh c)))).
  { rewrite (Permutation_length TOT), app_length. unfold zlen. destruct (hot (sh c)); cbn [negb gD] in *; rewrite Hfree; cbn [length]; lia. }
  assert (Hperm : Permutation (filter kobs (Conc.hist c)) (gD g (hot (sh c)))).
  { rewrite TOT. destruct (hot (sh c)); cbn [negb gD] in *; rewrite Hfree; rewrite ?app_nil_r; reflexivity. }
  psplit; auto.
  - rewrite Hlen, TK. unfold zlen. destruct (hot (sh c)); cbn [negb gD] in *; rewrite Hfree; cbn [length]; lia.
  - rewrite Hlen, CH. lia.
  - unfold vals in *. rewrite Hperm. cbn [app] in SH. rewrite app_nil_r in SH. exact SH.
Qed.

(* T4: a configuration with an unfinished call always has an enabled thread: the only blocking step is
   Mutex.Lock, and whenever the mutex is held its holder exists and is enabled *)
Lemma sched_step_enabled (c0 : config GM) i t o pc inv :
  nth_error (thr c0) i = Some t -> t_cur t = Some (o, pc, inv) -> stp (sh c0) pc <> None ->
  sched_step GM c0 (Z.of_nat i) <> None.
Proof.
  intros Hi Hc Hs. unfold sched_step. rewrite Nat2Z.id, Hi, Hc.
  change (step GM (sh c0) pc) with (stp (sh c0) pc).
  destruct (stp (sh c0) pc) as [[s' [l'|r]]|]; [discriminate| |congruence].
  destruct (advance GM _ _ _ _). discriminate.
Qed.

Lemma write_no_deadlock_lemma : all_done GM c = false -> exists tid, sched_step GM c tid <> None.
Proof.
  intros Hd. destruct (Inv_reachable progs sched) as [g (HT & HS & HH)]. fold c in HT, HS, HH.
  assert (Hex : exists i t o pc inv, nth_error (thr c) i = Some t /\ t_cur t = Some (o, pc, inv)).
  { unfold all_done in Hd. destruct (forallb _ (thr c)) eqn:E; [discriminate|].
    assert (Hx : exists t, In t (thr c) /\ t_cur t <> None).
    { clear -E. induction (thr c) as [|a r IH]; cbn [forallb] in E; [discriminate|].
      destruct (t_cur a) eqn:Ea; [exists a; split; [left; reflexivity|congruence]|].
      cbn [andb] in E. destruct (IH E) as (t & Ht & Hn). exists t. split; [right; assumption|assumption]. }
    destruct Hx as (t & Ht & Hn). apply In_nth_error in Ht. destruct Ht as [i Hi].
    destruct (t_cur t) as [[[o pc] inv]|] eqn:Ec; [|congruence]. exists i, t, o, pc, inv. auto. }
  destruct Hex as (i & t & o & pc & inv & Hi & Hc).
  destruct (stp (sh c) pc) eqn:Es.
  - exists (Z.of_nat i). eapply sched_step_enabled; eauto. congruence.
  - destruct (enabled_H _ _ Es) as [Hpc Hm]. pose proof (i_own _ _ _ _ _ HT) as Hown.
    destruct (gown g) as [j|]; [|destruct Hown; congruence].
    destruct Hown as (_ & tj & oj & pcj & invj & Hj & Hcj & Hh).
    exists (Z.of_nat j). eapply sched_step_enabled; eauto. intros En.
    destruct (enabled_H _ _ En) as [Hw _]. rewrite Hw in Hh. discriminate.
Qed.

(* the collector's spin loop exits as soon as the observers that took a ticket for the cold set before the
   flip have finished (they are never blocked; that they are eventually scheduled is the fairness assumption) *)
Lemma spin_exits_when_drained_lemma : forall i t o pc count cold inv,
  nth_error (thr c) i = Some t -> t_cur t = Some (o, pc, inv) -> vw pc = wCool count cold ->
  (forall j tj oj pcj invj, nth_error (thr c) j = Some tj -> t_cur tj = Some (oj, pcj, invj) ->
     match vw pcj with oBucket _ b _ | oSumLoad _ b | oSumCas _ b _ | oCount b => b <> cold | _ => True end) ->
  s_cnt (hget (sh c) cold) = count.
Proof.
  intros i t o pc count cold inv Hi Hc Hvw Hnone.
  destruct (Inv_reachable progs sched) as [g (HT & HS & HH)]. fold c in HT, HS, HH.
  pose proof (i_thr _ _ _ _ _ HT i t Hi) as Ht. unfold tinv in Ht. rewrite Hc in Ht. destruct Ht as [Hp _].
  rewrite Hvw in Hp. cbn [pcinv] in Hp. destruct Hp as (_ & Hph & ->).
  assert (HA : TA (negb (hot (sh c))) (thr c) = 0).
  { apply zsum_all_zero. intros tj Hj. apply In_nth_error in Hj. destruct Hj as [j Hj]. unfold tpc.
    destruct (t_cur tj) as [[[oj pcj] invj]|] eqn:Ecj; [|reflexivity]. specialize (Hnone j tj oj pcj invj Hj Ecj).
    destruct (vw pcj); cbn [cA]; try reflexivity; destruct (Bool.eqb_spec (negb (hot (sh c))) b); congruence. }
  rewrite (i_cntc _ _ _ HS), Hph. cbn [pzc]. rewrite (i_cool _ _ _ HS _ Hph), HA. lia.
Qed.
End Thm2.

End Hist.

(* implicit section parameters, so that the scripts below read as inside the section *)
Arguments hcall {L} {st} {stp} {lab}.
Arguments kval {L} {st} {stp} {lab}.
Arguments kobs {L} {st} {stp} {lab}.
Arguments vals {L} {st} {stp} {lab}.
Arguments bix bnds.
Arguments cnteq bnds {L} {st} {stp} {lab}.
Arguments cntlt bnds {L} {st} {stp} {lab}.
Arguments ghost {L} {st} {stp} {lab}.
Arguments gD {L} {st} {stp} {lab}.
Arguments tpc {L} {st} {stp} {lab} vw.
Arguments cB bnds.
Arguments TA {L} {st} {stp} {lab} vw.
Arguments TB bnds {L} {st} {stp} {lab} vw.
Arguments TS {L} {st} {stp} {lab} vw.
Arguments out_ok bnds {L} {st} {stp} {lab}.
Arguments pcinv bnds {L} {st} {stp} {lab}.
Arguments tinv bnds {L} {st} {stp} {lab} vw.
Arguments wr_ok bnds {L} {st} {stp} {lab}.
Arguments base {L} {st} {stp} {lab}.
Arguments InvT bnds {L} {st} {stp} {lab} vw.
Arguments InvS bnds {L} {st} {stp} {lab} vw.
Arguments InvH bnds {L} {st} {stp} {lab}.
Arguments Inv3 bnds {L} {st} {stp} {lab} vw.
Arguments Inv bnds {L} {st} {stp} {lab} vw.
Arguments cnteq_app {bnds L st stp lab}.
Arguments cnteq_nil {bnds L st stp lab}.
Arguments cnteq_one {bnds L st stp lab}.
Arguments cntlt_S {bnds L st stp lab}.
Arguments cntlt_0 {bnds L st stp lab}.
Arguments vals_app {L st stp lab}.
Arguments cA_nonneg {L st}.
Arguments TA_mem {L st stp lab vw}.
Arguments TA_zero {bnds L st stp lab vw}.
Arguments TA_set {L st stp lab vw}.
Arguments TB_set {bnds L st stp lab vw}.
Arguments TS_set {L st stp lab vw}.
Arguments TS_same {L st stp lab vw}.
Arguments tinv_mono {bnds L st stp lab vw}.
Arguments pcinv_holds {bnds L st stp lab}.
Arguments pcinv_nohold {bnds L st stp lab}.
Arguments tinv_other {bnds L st stp lab vw}.
Arguments pcinv_frame {bnds L st stp lab}.
Arguments InvH_time {bnds L st stp lab}.
Arguments base_eq {L st stp lab}.
Arguments InvH_ghost {bnds L st stp lab}.
Arguments InvS_T {bnds L st stp lab vw}.
Arguments T_same {bnds L st stp lab vw}.
Arguments InvT_obs {bnds L st stp lab vw}.
Arguments InvT_hold {bnds L st stp lab vw}.
Arguments set_ph {L} {st} {stp} {lab}.
Arguments add_D {L} {st} {stp} {lab}.
Arguments unlock_g {L} {st} {stp} {lab}.
Arguments gD_set_ph {L st stp lab}.
Arguments holds_contrib {bnds}.
Arguments step_hold {bnds L st stp lab vw}.
Arguments step_quiet {bnds L st stp lab vw}.
Arguments T_step {bnds L st stp lab vw}.
Arguments step_obs {bnds L st stp lab vw}.
Arguments cooled_facts {bnds L st stp lab vw}.
Arguments gD_add_same {L st stp lab}.
Arguments gD_add_other {L st stp lab}.
Arguments base_add_incl {L st stp lab}.
Arguments wr_ok_snoc {bnds L st stp lab}.
Arguments gW_in_hist {bnds L st stp lab}.
Arguments InvH_obs {bnds L st stp lab}.
Arguments tinv_none {bnds L st stp lab vw}.
Arguments InvH_unlock {bnds L st stp lab}.
Arguments ginv_le {bnds L st stp lab vw}.
Arguments gstart_inl {L st stp lab vw}.
Arguments fresh_tpc {bnds L st stp lab vw}.
Arguments fresh_tinv {bnds L st stp lab vw}.
Arguments g0 {L} {st} {stp} {lab}.
Arguments fresh_T0 {bnds L st stp lab vw}.
Arguments Inv_init {bnds L st stp lab vw}.
Arguments Inv_reachable {bnds L st stp lab vw}.
Arguments snapshot_of bnds {L} {st} {stp} {lab}.
Arguments cum_le {bnds L st stp lab}.
Arguments out_ok_consistent {bnds L st stp lab}.
Arguments wr_ok_snapshot {bnds L st stp lab}.
Arguments scrapes_monotone_lemma {bnds L st stp lab vw}.
Arguments scrape_real_time_lemma {bnds L st stp lab vw}.
Arguments scrape_consistent_lemma {bnds L st stp lab vw}.
Arguments all_done_none {L st stp lab}.
Arguments quiescent_total_lemma {bnds L st stp lab vw}.
Arguments sched_step_enabled {L st stp lab}.
Arguments write_no_deadlock_lemma {bnds L st stp lab vw}.
Arguments spin_exits_when_drained_lemma {bnds L st stp lab vw}.
Arguments i_thr {bnds L st stp lab vw}.
Arguments i_own {bnds L st stp lab vw}.
Arguments i_bnds {bnds L st stp lab vw}.
Arguments i_tick {bnds L st stp lab vw}.
Arguments i_cnth {bnds L st stp lab vw}.
Arguments i_cntc {bnds L st stp lab vw}.
Arguments i_bkh {bnds L st stp lab vw}.
Arguments i_bkc {bnds L st stp lab vw}.
Arguments i_sumh {bnds L st stp lab vw}.
Arguments i_sumc {bnds L st stp lab vw}.
Arguments i_zero {bnds L st stp lab vw}.
Arguments i_free {bnds L st stp lab vw}.
Arguments i_cooled {bnds L st stp lab vw}.
Arguments i_cool {bnds L st stp lab vw}.
Arguments i_time {bnds L st stp lab}.
Arguments i_total {bnds L st stp lab}.
Arguments i_wr {bnds L st stp lab}.
Arguments i_wrok {bnds L st stp lab}.
Arguments i_mono {bnds L st stp lab}.
Arguments i_rt {bnds L st stp lab}.
Arguments i_nodup {bnds L st stp lab}.
Arguments mkG {L} {st} {stp} {lab}.
Arguments gD0 {L} {st} {stp} {lab}.
Arguments gD1 {L} {st} {stp} {lab}.
Arguments gW {L} {st} {stp} {lab}.
Arguments gown {L} {st} {stp} {lab}.
Arguments ginv {L} {st} {stp} {lab}.
Arguments gph {L} {st} {stp} {lab}.
Arguments mkInvT {bnds L st stp lab vw}.
Arguments mkInvS {bnds L st stp lab vw}.
Arguments mkInvH {bnds L st stp lab}.

(* ====================================================================== *)
(* 6b. the histogram machine preserves the invariant                       *)
(* ====================================================================== *)
Ltac hold_step Hph :=
  eapply step_hold; eauto;
  try solve [reflexivity | apply hot_hput | apply mtx_hput | cbn [set_ph gph]; rewrite Hph; reflexivity].
Ltac simS := cbn [unlock_g add_D negb hget hput hot tickets set0 set1 mtx h_bnds s_sum s_cnt s_bk s_zero gD set_ph gD0 gD1 gph gW gown ginv
                    pmc pzc pms pzs pmb pzb PhM0 cooled flipped].
Ltac simSall := cbn [unlock_g add_D negb hget hput hot tickets set0 set1 mtx h_bnds s_sum s_cnt s_bk s_zero gD set_ph gD0 gD1 gph gW gown ginv
                    pmc pzc pms pzs pmb pzb PhM0 cooled flipped] in *.
Ltac prepS HS Hph h :=
  destruct HS as [B1 TK CH CC BH BC SH SC ZR FR CD CL];
  pose proof (ZR true) as [ZR1 ZL1]; pose proof (ZR false) as [ZR0 ZL0]; clear ZR;
  rewrite Hph in *; destruct h as [bn hb tk s0 s1 mx]; cbn [hot] in *.
Ltac prepSc HS Hph h :=
  destruct (cooled_facts _ _ _ HS) as (A0 & B0 & S0); [rewrite Hph; reflexivity|]; prepS HS Hph h.
Ltac triv :=
  try assumption; try lia; try (intros; discriminate); try (intros [|]; simS; rewrite ?upd_nth_length; split; first [lia | assumption]; fail); try (intros; auto; fail);
  try (let j := fresh in let Hj := fresh in intros j Hj; exfalso; cbn [length] in Hj; lia).
Ltac bcases :=
  repeat match goal with
  | |- context [Nat.ltb ?a ?b] => destruct (Nat.ltb_spec a b)
  | |- context [Nat.eqb ?a ?b] => destruct (Nat.eqb_spec a b)
  | H : context [Nat.ltb ?a ?b] |- _ => destruct (Nat.ltb_spec a b)
  | H : context [Nat.eqb ?a ?b] |- _ => destruct (Nat.eqb_spec a b)
  end; cbn [andb orb] in *; subst; try lia.
Ltac bk BH := let j := fresh "j" in let Hj := fresh "Hj" in
  intros j Hj; rewrite ?nthZ_upd_nth; specialize (BH j Hj); try match goal with Hz : forall j : nat, TB _ j _ = 0 |- _ => rewrite ?Hz in * end; bcases.
Ltac prepO HS h ES :=
  destruct HS as [B1 TK CH CC BH BC SH SC ZR FR CD CL];
  pose proof (ZR true) as [ZR1 ZL1]; pose proof (ZR false) as [ZR0 ZL0]; clear ZR;
  pose proof (ES true) as ES1; pose proof (ES false) as ES0;
  destruct h as [bn hb tk s0 s1 mx]; cbn [hot] in *.
Ltac bko BH BC EB := let j := fresh "j" in let Hj := fresh "Hj" in
  intros j Hj; rewrite ?nthZ_upd_nth, ?EB; cbn [cB Bool.eqb andb val]; unfold bix in *;
  specialize (BH j Hj); specialize (BC j Hj); bcases.
Ltac hold_same g := exists g; eapply step_hold; eauto; try reflexivity.

Notation hvw := (fun x : hpc => x).
Lemma hst_vw : forall o, exists l, hstart o = inl l /\ hvw l = match o with HObserve v => oTicket v | HWrite => wLock end.
Proof. intros [v|]; eexists; split; reflexivity. Qed.

Lemma hstep_enabled h pc : pc <> wLock \/ mtx h = false -> hstep h pc <> None.
Proof.
  intros H. destruct pc; cbn [hstep]; try discriminate;
    try (match goal with |- context [if ?x then _ else _] => destruct x eqn:E end; try discriminate).
  destruct H as [H|H]; congruence.
Qed.


Section HistStep.
Variable bnds : list f64.
Notation n := (length bnds).
Notation HM := (mkMachine hsh hpc hop hret hstart hstep hlabel).   (* hist_machine, unfolded *)

Lemma hist_Inv_step c g tid c' : Inv bnds hvw c g -> sched_step HM c tid = Some c' -> exists g', Inv bnds hvw c' g'.
Proof.
  intros HI Hstep. pose proof hst_vw as Hstvw.
  destruct (sched_step_cases HM (gstart_inl hst_vw) _ _ _ Hstep) as (t & o & pc & inv & h' & nxt & Ht & Hc & Hs & Hsh & Hnow & Hrest).
  set (i := Z.to_nat tid) in *. clearbody i. clear Hstep.
  destruct c as [h T nw hs tr]; destruct c' as [h'' T' nw' hs' tr']; unfold Inv in *; cbn [sh thr now Conc.hist] in *.
  subst h'' nw'. change (step HM h pc) with (hstep h pc) in Hs.
  pose proof HI as (HT & HS & HH).
  pose proof (i_thr _ _ _ _ _ HT i t Ht) as Hi. unfold tinv in Hi. rewrite Hc in Hi. destruct Hi as [Hpc Hinv].
  destruct pc; cbn [hstep] in Hs.
  - (* oTicket *)
    cbn [pcinv] in Hpc. subst o. rewrite (i_bnds _ _ _ HS) in Hs.
    exists g.
    destruct (Z.ltb_spec (find_bucket bnds v) (Z.of_nat n)) as [Hk|Hk];
      inversion Hs; subst h' nxt; clear Hs; destruct Hrest as [-> ->].
    + destruct (T_step (bnds:=bnds) (vw:=hvw) T i t _ _ _ (Some (HObserve v, oBucket v (hot h) (find_bucket bnds v))) Ht Hc
                (mkThread HM (t_todo t) (Some (HObserve v, oBucket v (hot h) (find_bucket bnds v), inv)) (t_idx t)) eq_refl) as (EA & EB & ES).
      eapply step_obs; eauto; try solve [reflexivity | cbn [pcinv]; auto].
      set (T' := set_nth T i _) in *. clearbody T'.
      prepO HS h ES.
      destruct hb; simSall; cbn [cS Bool.eqb app val] in ES1, ES0;
        constructor; simS; rewrite ?EA, ?EB; cbn [cA cB cS Bool.eqb andb val]; triv;
        try (bko BH BC EB; fail); try (destruct (pzs (gph g))); rewrite ?ES1, ?ES0; triv.
    + destruct (T_step (bnds:=bnds) (vw:=hvw) T i t _ _ _ (Some (HObserve v, oSumLoad v (hot h))) Ht Hc
                (mkThread HM (t_todo t) (Some (HObserve v, oSumLoad v (hot h), inv)) (t_idx t)) eq_refl) as (EA & EB & ES).
      eapply step_obs; eauto; try solve [reflexivity | cbn [pcinv]; auto].
      set (T' := set_nth T i _) in *. clearbody T'.
      prepO HS h ES.
      destruct hb; simSall; cbn [cS Bool.eqb app val] in ES1, ES0;
        constructor; simS; rewrite ?EA, ?EB; cbn [cA cB cS Bool.eqb andb val]; triv;
        try (bko BH BC EB; fail); try (destruct (pzs (gph g))); rewrite ?ES1, ?ES0; triv.
  - (* oBucket *)
    inversion Hs; subst h' nxt; clear Hs. destruct Hrest as [-> ->].
    cbn [pcinv] in Hpc. destruct Hpc as (-> & -> & Hk).
    exists g.
    destruct (T_step (bnds:=bnds) (vw:=hvw) T i t _ _ _ (Some (HObserve v, oSumLoad v b)) Ht Hc
                (mkThread HM (t_todo t) (Some (HObserve v, oSumLoad v b, inv)) (t_idx t)) eq_refl) as (EA & EB & ES).
    eapply step_obs; eauto; try solve [reflexivity | apply hot_hput | apply mtx_hput].
    set (T' := set_nth T i _) in *. clearbody T'.
    prepO HS h ES.
    destruct hb, b; simSall; cbn [cS Bool.eqb app val] in ES1, ES0;
      constructor; simS; rewrite ?EA, ?EB; cbn [cA cB cS Bool.eqb andb val]; triv;
      try (bko BH BC EB; fail); try (destruct (pzs (gph g))); rewrite ?ES1, ?ES0; triv.
  - (* oSumLoad *)
    inversion Hs; subst; clear Hs. destruct Hrest as [-> ->]. exists g. eapply step_quiet; eauto.
  - (* oSumCas *)
    cbn [pcinv] in Hpc. subst o.
    destruct (fbits_eq _ _) eqn:Ecas; inversion Hs; subst h' nxt; clear Hs; destruct Hrest as [-> ->]; exists g.
    + apply fbits_eq_true in Ecas. subst old.
      destruct (T_step (bnds:=bnds) (vw:=hvw) T i t _ _ _ (Some (HObserve v, oCount b)) Ht Hc
                (mkThread HM (t_todo t) (Some (HObserve v, oCount b, inv)) (t_idx t)) eq_refl) as (EA & EB & ES).
      pose proof (TA_mem (vw:=hvw) b T i t _ _ _ Ht Hc) as HA1. cbn [cA] in HA1. rewrite Bool.eqb_reflx in HA1.
      eapply step_obs; eauto; try solve [reflexivity | apply hot_hput | apply mtx_hput].
      set (T' := set_nth T i _) in *. clearbody T'.
      prepO HS h ES.
      destruct hb, b; simSall; cbn [cS Bool.eqb app val] in ES1, ES0;
        constructor; simS; rewrite ?EA, ?EB; cbn [cA cB cS Bool.eqb andb val]; triv;
        try (bko BH BC EB; fail).
      all: try (destruct (pzs (gph g)) eqn:Epz;
                [try assumption; exfalso; destruct (gph g); try discriminate Epz; specialize (CD eq_refl); lia|]).
      all: rewrite ?ES1, ?ES0; try assumption.
      all: eapply SO_perm; [|apply SumOf_snoc; eassumption]; perm.
    + eapply step_quiet; eauto. reflexivity.
  - (* oCount *)
    inversion Hs; subst h' nxt; clear Hs. destruct Hrest as (t' & Hfr & -> & ->).
    cbn [pcinv] in Hpc.
    set (k := mkCall tid (t_idx t) o HUnit inv (nw + 1)).
    exists (add_D g b k).
    destruct (fresh_tpc (bnds:=bnds) hst_vw _ _ Hfr) as (FA & FB & FS).
    destruct (T_step (bnds:=bnds) (vw:=hvw) T i t _ _ _ (tpc hvw t') Ht Hc t' eq_refl) as (EA & EB & ES).
    pose proof (TA_mem (vw:=hvw) b T i t _ _ _ Ht Hc) as HA1. cbn [cA] in HA1. rewrite Bool.eqb_reflx in HA1.
    assert (Hcold : b = negb (hot h) -> cooled (gph g) = false).
    { intros ->. destruct (cooled (gph g)) eqn:E; [|reflexivity]. pose proof (i_cooled _ _ _ HS E). lia. }
    assert (Hb : b = hot h \/ b = negb (hot h)) by (destruct b, (hot h); auto).
    split; [|split].
    + rewrite hot_hput, mtx_hput. eapply InvT_obs; eauto; try reflexivity.
      * intros o1 pc1 inv1 H1. rewrite Hc in H1. inversion H1; subst. reflexivity.
      * intros Hcd. destruct Hb as [->| ->]; [apply gD_add_other|]. rewrite Hcold in Hcd; [discriminate|reflexivity].
      * apply (fresh_tinv hst_vw). assumption.
    + set (T' := set_nth T i _) in *. clearbody T'.
      prepO HS h ES. rewrite FS in ES1, ES0.
      destruct hb, b; simSall; cbn [cS Bool.eqb app val] in ES1, ES0.
      all: try (specialize (Hcold eq_refl); destruct (gph g) eqn:Eph; try discriminate Hcold; simSall).
      all: constructor; simS; try rewrite !Eph; simS; rewrite ?EA, ?EB, ?FA, ?FB; cbn [cA cB Bool.eqb andb];
        rewrite ?zlen_app, ?zlen_one, ?vals_app; cbn [vals map]; change (kval k) with (val o); triv.
      all: try (let j := fresh "j" in let Hj := fresh "Hj" in
                intros j Hj; rewrite ?EB, ?FB, ?cnteq_app, ?cnteq_one; cbn [cB Bool.eqb andb]; change (kval k) with (val o);
                specialize (BH j Hj); specialize (BC j Hj); bcases; fail).
      all: try (destruct (pzs (gph g)); [assumption|]).
      all: try rewrite <- ES1 in SH; try rewrite <- ES0 in SH; try rewrite <- ES1 in SC; try rewrite <- ES0 in SC.
      all: first [assumption | eapply SO_perm; [|first [exact SH|exact SC]]; perm].
    + rewrite hot_hput. apply InvH_obs; auto; try reflexivity.
      * unfold k. cbn [c_inv c_res]. lia.
      * eapply ginv_le; eauto.
  - (* wLock *)
    cbn [pcinv] in Hpc. subst o.
    destruct (mtx h) eqn:Emtx; [discriminate Hs|]. inversion Hs; subst h' nxt; clear Hs. destruct Hrest as [-> ->].
    pose proof (i_own _ _ _ _ _ HT) as Hown. destruct (gown g) as [j|] eqn:Eown; [destruct Hown; congruence|].
    destruct Hown as [_ Hph].
    exists (mkG (gD0 g) (gD1 g) (gW g) (Some i) inv Ph0).
    unfold Inv3. cbn [hot mtx]. split; [|split].
    + constructor.
      * intros j tj Hj. apply nth_error_set_nth_inv in Hj. destruct Hj as [[-> ->]|[Hne Hj]].
        -- unfold tinv. cbn [t_cur pcinv gown ginv gph]. psplit; auto. lia.
        -- apply tinv_mono with nw; [lia|]. eapply tinv_none; [exact Eown|]. apply (i_thr _ _ _ _ _ HT). exact Hj.
      * cbn [gown]. split; [reflexivity|]. eexists _, HWrite, wFlip, inv.
        rewrite (nth_error_set_nth_eq _ _ _ _ Ht). cbn [t_cur holds]. auto.
    + destruct (T_same (bnds:=bnds) (vw:=hvw) T i t (mkThread HM (t_todo t) (Some (HWrite, wFlip, inv)) (t_idx t)) Ht) as (HA & HB & HS2);
        try (intros; unfold tpc; rewrite Hc; reflexivity).
      eapply InvS_T; eauto.
      destruct HS as [B1 TK CH CC BH BC SH SC ZR FR CD CL]. rewrite Hph in *.
      constructor; cbn [h_bnds hot tickets gD0 gD1 gph gD hget set0 set1] in *; auto.
    + destruct HH as [TM TOT WR WOK MONO RT ND].
      assert (Eb : base (mkG (gD0 g) (gD1 g) (gW g) (Some i) inv Ph0) (hot h) = base g (hot h))
        by (apply base_eq; cbn [gD0 gD1 gph]; rewrite ?Hph; reflexivity).
      constructor; rewrite ?Eb; cbn [gD0 gD1 gW gown ginv]; auto.
      * intros k Hk. destruct (TM k Hk). split; [lia|assumption].
      * intros _ k Hk Hob _. unfold base. rewrite Hph. cbn [flipped].
        assert (Hin : In k (gD0 g ++ gD1 g)).
        { eapply Permutation_in; [exact TOT|]. apply filter_In. auto. }
        pose proof (i_free _ _ _ HS Hph) as Hfree.
        apply in_app_or in Hin. destruct (hot h); cbn [negb gD] in *; rewrite Hfree in Hin; destruct Hin as [Hin|Hin]; auto; destruct Hin.
  - (* wFlip *)
    inversion Hs; subst h' nxt; clear Hs. destruct Hrest as [-> ->].
    cbn [pcinv] in Hpc. destruct Hpc as ((-> & Hg & Hgi) & Hph).
    exists (set_ph g (PhCool (tickets h))).
    unfold Inv3. cbn [hot mtx]. split; [|split].
    + eapply InvT_hold; eauto; try reflexivity.
      cbn [pcinv set_ph gown ginv gph]. rewrite negb_involutive. auto.
    + destruct (T_same (bnds:=bnds) (vw:=hvw) T i t (mkThread HM (t_todo t) (Some (HWrite, wCool (tickets h) (hot h), inv)) (t_idx t)) Ht) as (HA & HB & HS2);
        try (intros; unfold tpc; rewrite Hc; reflexivity).
      eapply InvS_T; eauto.
      prepS HS Hph h. specialize (FR eq_refl). specialize (CD eq_refl).
      destruct hb; simSall; constructor; simS; rewrite ?FR in *; triv; try (bk BH; fail); try (bk BC; fail);
        rewrite ?app_nil_r, ?zlen_nil in *; cbn [vals map app] in *; triv;
        try (intros count Ecnt; inversion Ecnt; subst; lia).
    + destruct HH as [TM TOT WR WOK MONO RT ND].
      assert (Eb : base (set_ph g (PhCool (tickets h))) (negb (hot h)) = base g (hot h)).
      { unfold base. cbn [set_ph gph flipped]. rewrite Hph, negb_involutive. reflexivity. }
      constructor; rewrite ?Eb; cbn [set_ph gD0 gD1 gW gown ginv]; auto.
      intros k Hk. destruct (TM k Hk). split; [lia|assumption].
  - (* wCool *)
    cbn [pcinv] in Hpc. destruct Hpc as ((-> & Hg & Hgi) & Hph & ->).
    destruct (Z.eqb_spec (s_cnt (hget h (negb (hot h)))) count) as [Ecnt|Ecnt];
      inversion Hs; subst h' nxt; clear Hs; destruct Hrest as [-> ->].
    + pose proof (i_cool _ _ _ HS _ Hph) as CL0. pose proof (i_cntc _ _ _ HS) as CC0. rewrite Hph in CC0. cbn [pzc] in CC0.
      assert (HA0 : TA hvw (negb (hot h)) T = 0) by lia.
      exists (set_ph g PhM0). hold_step Hph.
      * cbn [pcinv]. rewrite gD_set_ph. cbn [set_ph gown ginv gph]. psplit; auto. lia.
      * prepS HS Hph h. destruct hb; simSall; constructor; simS; triv.
    + hold_same g. cbn [pcinv]. tauto.
  - (* wSpin *)
    inversion Hs; subst; clear Hs. destruct Hrest as [-> ->]. hold_same g.
  - (* wReadSum *)
    cbn [pcinv] in Hpc. destruct Hpc as ((-> & Hg & Hgi) & Hph & -> & ->).
    pose proof (i_sumc _ _ _ HS) as SC. rewrite Hph in SC. cbn [pzs PhM0] in SC.
    destruct (cooled_facts _ _ _ HS) as (_ & _ & E); [rewrite Hph; reflexivity|].
    rewrite E, app_nil_r in SC.
    pose proof (i_bnds _ _ _ HS) as Hb.
    destruct (h_bnds h) as [|b0 br] eqn:Eb; inversion Hs; subst h' nxt; clear Hs; destruct Hrest as [-> ->]; hold_same g;
      cbn [pcinv]; psplit; auto.
    + unfold out_ok. cbn [ho_count ho_sum ho_cum]. rewrite <- Hb. cbn [length seq map]. auto.
    + rewrite <- Hb. cbn [length]. lia.
    + symmetry. apply cntlt_0.
  - (* wReadBk *)
    cbn [pcinv] in Hpc. destruct Hpc as ((-> & Hg & Hgi) & Hph & -> & -> & Hsum & Hi & -> & ->).
    assert (Hn : length (h_bnds h) = n) by (rewrite (i_bnds _ _ _ HS); reflexivity).
    assert (Hacc : cntlt bnds i0 (gD g (negb (hot h))) + nthZ (s_bk (hget h (negb (hot h)))) i0 = cntlt bnds (S i0) (gD g (negb (hot h)))).
    { rewrite (i_bkc _ _ _ HS _ Hi). rewrite Hph. cbn [pzb PhM0].
      destruct (cooled_facts _ _ _ HS) as (_ & E & _); [rewrite Hph; reflexivity|]. rewrite E, cntlt_S.
      cbn [Nat.ltb Nat.leb]. lia. }
    rewrite Hacc in Hs.
    assert (Hcum : map (fun j => cntlt bnds (S j) (gD g (negb (hot h)))) (seq 0 i0) ++ [cntlt bnds (S i0) (gD g (negb (hot h)))]
                   = map (fun j => cntlt bnds (S j) (gD g (negb (hot h)))) (seq 0 (S i0))).
    { rewrite seq_S, map_app. reflexivity. }
    rewrite Hcum, Hn in Hs.
    destruct (Nat.ltb_spec (S i0) n) as [Hlt|Hge]; inversion Hs; subst h' nxt; clear Hs; destruct Hrest as [-> ->]; hold_same g;
      cbn [pcinv]; psplit; auto.
    unfold out_ok. cbn [ho_count ho_sum ho_cum]. psplit; auto. replace n with (S i0) by lia. reflexivity.
  - (* mLoadCnt *)
    inversion Hs; subst; clear Hs. destruct Hrest as [-> ->]. hold_same g.
    cbn [pcinv] in *. destruct Hpc as (Hold & Hph & -> & Hout). psplit; try tauto.
    rewrite (i_cntc _ _ _ HS), Hph. reflexivity.
  - (* mAddCnt *)
    inversion Hs; subst; clear Hs. destruct Hrest as [-> ->].
    cbn [pcinv] in Hpc. destruct Hpc as ((-> & Hg & Hgi) & Hph & -> & Hout & ->).
    exists (set_ph g (PhM true false false false 0 0)). hold_step Hph.
    + cbn [pcinv]. rewrite gD_set_ph. cbn [set_ph gown ginv gph]. tauto.
    + prepS HS Hph h. destruct hb; simSall; constructor; simS; triv.
  - (* mStoreCnt *)
    inversion Hs; subst; clear Hs. destruct Hrest as [-> ->].
    cbn [pcinv] in Hpc. destruct Hpc as ((-> & Hg & Hgi) & Hph & -> & Hout).
    exists (set_ph g (PhM true true false false 0 0)). hold_step Hph.
    + cbn [pcinv]. rewrite gD_set_ph. cbn [set_ph gown ginv gph]. tauto.
    + prepS HS Hph h. destruct hb; simSall; constructor; simS; triv.
  - (* mLoadSum *)
    inversion Hs; subst; clear Hs. destruct Hrest as [-> ->]. hold_same g.
    cbn [pcinv] in *. destruct Hpc as (Hold & Hph & -> & Hout). psplit; try tauto.
    pose proof (i_sumc _ _ _ HS) as SC. rewrite Hph in SC. cbn [pzs] in SC.
    destruct (cooled_facts _ _ _ HS) as (_ & _ & E); [rewrite Hph; reflexivity|].
    rewrite E, app_nil_r in SC. exact SC.
  - (* mSumLoad *)
    inversion Hs; subst; clear Hs. destruct Hrest as [-> ->]. hold_same g.
  - (* mSumCas *)
    cbn [pcinv] in Hpc. destruct Hpc as ((-> & Hg & Hgi) & Hph & -> & Hout & Hs0).
    destruct (fbits_eq _ _) eqn:Ecas; inversion Hs; subst; clear Hs; destruct Hrest as [-> ->].
    + apply fbits_eq_true in Ecas. subst old.
      exists (set_ph g (PhM true true true false 0 0)). hold_step Hph.
      * cbn [pcinv]. rewrite gD_set_ph. cbn [set_ph gown ginv gph]. tauto.
      * prepS HS Hph h. destruct hb; simSall; constructor; simS; triv.
        all: rewrite app_nil_r in SH; rewrite app_assoc; apply SO_add; assumption.
    + hold_same g. cbn [pcinv]. tauto.
  - (* mStoreSum *)
    inversion Hs; subst; clear Hs. destruct Hrest as [-> ->].
    cbn [pcinv] in Hpc. destruct Hpc as ((-> & Hg & Hgi) & Hph & -> & Hout).
    exists (set_ph g (PhM true true true true 0 0)).
    assert (Hn : length (h_bnds h) = n) by (rewrite (i_bnds _ _ _ HS); reflexivity).
    unfold after_bk. rewrite Hn. destruct (Nat.ltb_spec 0 n) as [Hlt|Hge]; hold_step Hph.
    + cbn [pcinv]. rewrite gD_set_ph. cbn [set_ph gown ginv gph]. tauto.
    + prepS HS Hph h. destruct hb; simSall; constructor; simS; triv.
    + cbn [pcinv]. rewrite gD_set_ph. cbn [set_ph gown ginv gph]. replace n with 0%nat by lia. tauto.
    + prepS HS Hph h. destruct hb; simSall; constructor; simS; triv.
  - (* mLoadBk *)
    inversion Hs; subst; clear Hs. destruct Hrest as [-> ->]. hold_same g.
    cbn [pcinv] in *. destruct Hpc as (Hold & Hph & -> & Hout & Hj). psplit; try tauto.
    rewrite (i_bkc _ _ _ HS _ Hj). rewrite Hph. cbn [pzb]. rewrite Nat.ltb_irrefl.
    destruct (cooled_facts _ _ _ HS) as (_ & E & _); [rewrite Hph; reflexivity|]. rewrite E. lia.
  - (* mAddBk *)
    inversion Hs; subst; clear Hs. destruct Hrest as [-> ->].
    cbn [pcinv] in Hpc. destruct Hpc as ((-> & Hg & Hgi) & Hph & -> & Hout & Hi & ->).
    exists (set_ph g (PhM true true true true (S i0) i0)). hold_step Hph.
    + cbn [pcinv]. rewrite gD_set_ph. cbn [set_ph gown ginv gph]. tauto.
    + prepS HS Hph h. destruct hb; simSall; constructor; simS; triv; try (intros [|]; simS; rewrite ?upd_nth_length; auto; fail).
      all: bk BH.
  - (* mStoreBk *)
    inversion Hs; subst; clear Hs. destruct Hrest as [-> ->].
    cbn [pcinv] in Hpc. destruct Hpc as ((-> & Hg & Hgi) & Hph & -> & Hout & Hi).
    exists (set_ph g (PhM true true true true (S i0) (S i0))).
    assert (Hn : length (h_bnds h) = n) by (rewrite (i_bnds _ _ _ HS); reflexivity).
    unfold after_bk. rewrite Hn. destruct (Nat.ltb_spec (S i0) n) as [Hlt|Hge]; hold_step Hph.
    + cbn [pcinv]. rewrite gD_set_ph. cbn [set_ph gown ginv gph]. tauto.
    + prepSc HS Hph h. destruct hb; simSall; constructor; simS; triv; try (intros [|]; simS; rewrite ?upd_nth_length; auto; fail).
      all: bk BC.
    + cbn [pcinv]. rewrite gD_set_ph. cbn [set_ph gown ginv gph]. replace (S i0) with n by lia. tauto.
    + prepSc HS Hph h. destruct hb; simSall; constructor; simS; triv; try (intros [|]; simS; rewrite ?upd_nth_length; auto; fail).
      all: bk BC.
  - (* mLoadZero *)
    inversion Hs; subst; clear Hs. destruct Hrest as [-> ->]. hold_same g.
    cbn [pcinv] in *. destruct Hpc as (Hold & Hph & -> & Hout). psplit; try tauto.
    apply (i_zero _ _ _ HS).
  - (* mAddZero *)
    inversion Hs; subst; clear Hs. destruct Hrest as [-> ->].
    cbn [pcinv] in Hpc. destruct Hpc as ((-> & Hg & Hgi) & Hph & -> & Hout & ->).
    exists g. hold_step Hph.
    + cbn [pcinv]. tauto.
    + prepS HS Hph h. destruct hb; simSall; constructor; simS; rewrite ?Hph; simS; triv.
  - (* mStoreZero *)
    inversion Hs; subst; clear Hs. destruct Hrest as [-> ->].
    cbn [pcinv] in Hpc. destruct Hpc as ((-> & Hg & Hgi) & Hph & -> & Hout).
    exists g. hold_step Hph.
    + cbn [pcinv]. tauto.
    + prepS HS Hph h. destruct hb; simSall; constructor; simS; rewrite ?Hph; simS; triv.
  - (* wUnlock *)
    inversion Hs; subst h' nxt; clear Hs. destruct Hrest as (t' & Hfr & -> & ->).
    cbn [pcinv] in Hpc. destruct Hpc as ((-> & Hg & Hgi) & Hph & Hout).
    set (w := @mkCall HM tid (t_idx t) HWrite (HOut o0) inv (nw + 1)).
    exists (unlock_g g (hot h) w).
    destruct (fresh_tpc (bnds:=bnds) hst_vw _ _ Hfr) as (FA & FB & FS).
    unfold Inv3. cbn [hot mtx]. split; [|split].
    + constructor.
      * intros j tj Hj. apply nth_error_set_nth_inv in Hj. destruct Hj as [[-> ->]|[Hne Hj]].
        -- apply (fresh_tinv hst_vw). assumption.
        -- apply tinv_mono with nw; [lia|]. eapply tinv_other; eauto. apply (i_thr _ _ _ _ _ HT). exact Hj.
      * cbn [unlock_g gown gph]. auto.
    + destruct (T_same (bnds:=bnds) (vw:=hvw) T i t t' Ht) as (HA & HB & HS2);
        try (intros; unfold tpc at 2; rewrite Hc; rewrite ?FA, ?FB, ?FS; reflexivity).
      eapply InvS_T; eauto.
      prepSc HS Hph h.
      destruct hb; simSall; constructor; simS; rewrite ?zlen_app, ?zlen_nil, ?vals_app in *; triv.
      all: try (let j := fresh "j" in let Hj := fresh "Hj" in
                intros j Hj; rewrite ?cnteq_app, ?cnteq_nil, ?B0; specialize (BH j Hj); specialize (BC j Hj);
                rewrite ?B0 in *; bcases; fail).
      all: rewrite ?S0; cbn [vals map app]; try (rewrite SC; constructor).
      all: eapply SO_perm; [|exact SH]; perm.
    + apply InvH_unlock with o0; auto; try reflexivity.
      * rewrite Hph. reflexivity.
      * congruence.
      * lia.
Qed.


End HistStep.

(* ====================================================================== *)
(* 7. the summary without objectives: viewed as a histogram without buckets *)
(* ====================================================================== *)
Definition svw (pc : spc) : hpc :=
  match pc with
  | soTicket v => oTicket v
  | soSumLoad v b => oSumLoad v b
  | soSumCas v b old => oSumCas v b old
  | soCount b => oCount b
  | swLock => wLock
  | swFlip => wFlip
  | swCool count cold => wCool count cold
  | swSpin count cold => wSpin count cold
  | swReadSum count cold => wReadSum count cold
  | smAddCnt o cold => mAddCnt o cold (ho_count o)          (* adds the count it reported *)
  | smStoreCnt o cold => mStoreCnt o cold
  | smSumLoad o cold => mSumLoad o cold (ho_sum o)          (* adds the sum it reported *)
  | smSumCas o cold old => mSumCas o cold (ho_sum o) old
  | smStoreSum o cold => mStoreSum o cold
  | swUnlock o => wUnlock o
  end.

Lemma sst_vw : forall o, exists l, sstart o = inl l /\ svw l = match o with HObserve v => oTicket v | HWrite => wLock end.
Proof. intros [v|]; eexists; split; reflexivity. Qed.

Lemma sstep_enabled h pc : sstep h pc = None -> svw pc = wLock /\ mtx h = true.
Proof.
  destruct pc; cbn [sstep]; try discriminate;
    try (match goal with |- context [if ?x then _ else _] => destruct x eqn:E end; try discriminate).
  auto.
Qed.

Section SummStep.
Notation bnds := (@nil f64).
Notation n := (length bnds).
Notation SM := (mkMachine hsh spc hop hret sstart sstep slabel).   (* summ_machine, unfolded *)

Lemma summ_Inv_step c g tid c' : Inv bnds svw c g -> sched_step SM c tid = Some c' -> exists g', Inv bnds svw c' g'.
Proof.
  intros HI Hstep. pose proof sst_vw as Hstvw.
  destruct (sched_step_cases SM (gstart_inl sst_vw) _ _ _ Hstep) as (t & o & pc & inv & h' & nxt & Ht & Hc & Hs & Hsh & Hnow & Hrest).
  set (i := Z.to_nat tid) in *. clearbody i. clear Hstep.
  destruct c as [h T nw hs tr]; destruct c' as [h'' T' nw' hs' tr']; unfold Inv in *; cbn [sh thr now Conc.hist] in *.
  subst h'' nw'. change (step SM h pc) with (sstep h pc) in Hs.
  pose proof HI as (HT & HS & HH).
  pose proof (i_thr _ _ _ _ _ HT i t Ht) as Hi. unfold tinv in Hi. rewrite Hc in Hi. destruct Hi as [Hpc Hinv].
  destruct pc; cbn [sstep] in Hs.
  - (* soTicket *)
    cbn [svw pcinv] in Hpc. subst o. exists g.
    inversion Hs; subst h' nxt; clear Hs; destruct Hrest as [-> ->].
  destruct (T_step (bnds:=bnds) (vw:=svw) T i t _ _ _ (Some (HObserve v, oSumLoad v (hot h))) Ht Hc
              (mkThread SM (t_todo t) (Some (HObserve v, soSumLoad v (hot h), inv)) (t_idx t)) eq_refl) as (EA & EB & ES).
    eapply step_obs; eauto; try solve [reflexivity | cbn [svw pcinv]; auto].
    set (T' := set_nth T i _) in *. clearbody T'.
    prepO HS h ES.
    destruct hb; simSall; cbn [svw cS Bool.eqb app val] in ES1, ES0;
      constructor; simS; rewrite ?EA, ?EB; cbn [svw cA cB cS Bool.eqb andb val]; triv;
      try (bko BH BC EB; fail); try (destruct (pzs (gph g))); rewrite ?ES1, ?ES0; triv.
  - (* soSumLoad *)
    inversion Hs; subst; clear Hs. destruct Hrest as [-> ->]. exists g. eapply step_quiet; eauto.
  - (* soSumCas *)
    cbn [svw pcinv] in Hpc. subst o.
    destruct (fbits_eq _ _) eqn:Ecas; inversion Hs; subst h' nxt; clear Hs; destruct Hrest as [-> ->]; exists g.
    + apply fbits_eq_true in Ecas. subst old.
      destruct (T_step (bnds:=bnds) (vw:=svw) T i t _ _ _ (Some (HObserve v, oCount b)) Ht Hc
                (mkThread SM (t_todo t) (Some (HObserve v, soCount b, inv)) (t_idx t)) eq_refl) as (EA & EB & ES).
      pose proof (TA_mem (vw:=svw) b T i t _ _ _ Ht Hc) as HA1. cbn [svw cA] in HA1. rewrite Bool.eqb_reflx in HA1.
      eapply step_obs; eauto; try solve [reflexivity | apply hot_hput | apply mtx_hput].
      set (T' := set_nth T i _) in *. clearbody T'.
      prepO HS h ES.
      destruct hb, b; simSall; cbn [svw cS Bool.eqb app val] in ES1, ES0;
        constructor; simS; rewrite ?EA, ?EB; cbn [svw cA cB cS Bool.eqb andb val]; triv;
        try (bko BH BC EB; fail).
      all: try (destruct (pzs (gph g)) eqn:Epz;
                [try assumption; exfalso; destruct (gph g); try discriminate Epz; specialize (CD eq_refl); lia|]).
      all: rewrite ?ES1, ?ES0; try assumption.
      all: eapply SO_perm; [|apply SumOf_snoc; eassumption]; perm.
    + eapply step_quiet; eauto. reflexivity.
  - (* soCount *)
    inversion Hs; subst h' nxt; clear Hs. destruct Hrest as (t' & Hfr & -> & ->).
    cbn [svw pcinv] in Hpc.
    set (k := mkCall tid (t_idx t) o HUnit inv (nw + 1)).
    exists (add_D g b k).
    destruct (fresh_tpc (bnds:=bnds) sst_vw _ _ Hfr) as (FA & FB & FS).
    destruct (T_step (bnds:=bnds) (vw:=svw) T i t _ _ _ (tpc svw t') Ht Hc t' eq_refl) as (EA & EB & ES).
    pose proof (TA_mem (vw:=svw) b T i t _ _ _ Ht Hc) as HA1. cbn [svw cA] in HA1. rewrite Bool.eqb_reflx in HA1.
    assert (Hcold : b = negb (hot h) -> cooled (gph g) = false).
    { intros ->. destruct (cooled (gph g)) eqn:E; [|reflexivity]. pose proof (i_cooled _ _ _ HS E). lia. }
    assert (Hb : b = hot h \/ b = negb (hot h)) by (destruct b, (hot h); auto).
    split; [|split].
    + rewrite hot_hput, mtx_hput. eapply InvT_obs; eauto; try reflexivity.
      * intros o1 pc1 inv1 H1. rewrite Hc in H1. inversion H1; subst. reflexivity.
      * intros Hcd. destruct Hb as [->| ->]; [apply gD_add_other|]. rewrite Hcold in Hcd; [discriminate|reflexivity].
      * apply (fresh_tinv sst_vw). assumption.
    + set (T' := set_nth T i _) in *. clearbody T'.
      prepO HS h ES. rewrite FS in ES1, ES0.
      destruct hb, b; simSall; cbn [svw cS Bool.eqb app val] in ES1, ES0.
      all: try (specialize (Hcold eq_refl); destruct (gph g) eqn:Eph; try discriminate Hcold; simSall).
      all: constructor; simS; try rewrite !Eph; simS; rewrite ?EA, ?EB, ?FA, ?FB; cbn [svw cA cB Bool.eqb andb];
        rewrite ?zlen_app, ?zlen_one, ?vals_app; cbn [vals map]; change (kval k) with (val o); triv.
      all: try (let j := fresh "j" in let Hj := fresh "Hj" in
                intros j Hj; rewrite ?EB, ?FB, ?cnteq_app, ?cnteq_one; cbn [svw cB Bool.eqb andb]; change (kval k) with (val o);
                specialize (BH j Hj); specialize (BC j Hj); bcases; fail).
      all: try (destruct (pzs (gph g)); [assumption|]).
      all: try rewrite <- ES1 in SH; try rewrite <- ES0 in SH; try rewrite <- ES1 in SC; try rewrite <- ES0 in SC.
      all: first [assumption | eapply SO_perm; [|first [exact SH|exact SC]]; perm].
    + rewrite hot_hput. apply InvH_obs; auto; try reflexivity.
      * unfold k. cbn [c_inv c_res]. lia.
      * eapply ginv_le; eauto.
  - (* swLock *)
    cbn [svw pcinv] in Hpc. subst o.
    destruct (mtx h) eqn:Emtx; [discriminate Hs|]. inversion Hs; subst h' nxt; clear Hs. destruct Hrest as [-> ->].
    pose proof (i_own _ _ _ _ _ HT) as Hown. destruct (gown g) as [j|] eqn:Eown; [destruct Hown; congruence|].
    destruct Hown as [_ Hph].
    exists (mkG (gD0 g) (gD1 g) (gW g) (Some i) inv Ph0).
    unfold Inv3. cbn [hot mtx]. split; [|split].
    + constructor.
      * intros j tj Hj. apply nth_error_set_nth_inv in Hj. destruct Hj as [[-> ->]|[Hne Hj]].
        -- unfold tinv. cbn [svw t_cur pcinv gown ginv gph]. psplit; auto. lia.
        -- apply tinv_mono with nw; [lia|]. eapply tinv_none; [exact Eown|]. apply (i_thr _ _ _ _ _ HT). exact Hj.
      * cbn [gown]. split; [reflexivity|]. eexists _, HWrite, swFlip, inv.
        rewrite (nth_error_set_nth_eq _ _ _ _ Ht). cbn [svw t_cur holds]. auto.
    + destruct (T_same (bnds:=bnds) (vw:=svw) T i t (mkThread SM (t_todo t) (Some (HWrite, swFlip, inv)) (t_idx t)) Ht) as (HA & HB & HS2);
        try (intros; unfold tpc; rewrite Hc; reflexivity).
      eapply InvS_T; eauto.
      destruct HS as [B1 TK CH CC BH BC SH SC ZR FR CD CL]. rewrite Hph in *.
      constructor; cbn [h_bnds hot tickets gD0 gD1 gph gD hget set0 set1] in *; auto.
    + destruct HH as [TM TOT WR WOK MONO RT ND].
      assert (Eb : base (mkG (gD0 g) (gD1 g) (gW g) (Some i) inv Ph0) (hot h) = base g (hot h))
        by (apply base_eq; cbn [gD0 gD1 gph]; rewrite ?Hph; reflexivity).
      constructor; rewrite ?Eb; cbn [gD0 gD1 gW gown ginv]; auto.
      * intros k Hk. destruct (TM k Hk). split; [lia|assumption].
      * intros _ k Hk Hob _. unfold base. rewrite Hph. cbn [flipped].
        assert (Hin : In k (gD0 g ++ gD1 g)).
        { eapply Permutation_in; [exact TOT|]. apply filter_In. auto. }
        pose proof (i_free _ _ _ HS Hph) as Hfree.
        apply in_app_or in Hin. destruct (hot h); cbn [negb gD] in *; rewrite Hfree in Hin; destruct Hin as [Hin|Hin]; auto; destruct Hin.
  - (* swFlip *)
    inversion Hs; subst h' nxt; clear Hs. destruct Hrest as [-> ->].
    cbn [svw pcinv] in Hpc. destruct Hpc as ((-> & Hg & Hgi) & Hph).
    exists (set_ph g (PhCool (tickets h))).
    unfold Inv3. cbn [hot mtx]. split; [|split].
    + eapply InvT_hold; eauto; try reflexivity.
      cbn [svw pcinv set_ph gown ginv gph]. rewrite negb_involutive. auto.
    + destruct (T_same (bnds:=bnds) (vw:=svw) T i t (mkThread SM (t_todo t) (Some (HWrite, swCool (tickets h) (hot h), inv)) (t_idx t)) Ht) as (HA & HB & HS2);
        try (intros; unfold tpc; rewrite Hc; reflexivity).
      eapply InvS_T; eauto.
      prepS HS Hph h. specialize (FR eq_refl). specialize (CD eq_refl).
      destruct hb; simSall; constructor; simS; rewrite ?FR in *; triv; try (bk BH; fail); try (bk BC; fail);
        rewrite ?app_nil_r, ?zlen_nil in *; cbn [vals map app] in *; triv;
        try (intros count Ecnt; inversion Ecnt; subst; lia).
    + destruct HH as [TM TOT WR WOK MONO RT ND].
      assert (Eb : base (set_ph g (PhCool (tickets h))) (negb (hot h)) = base g (hot h)).
      { unfold base. cbn [set_ph gph flipped]. rewrite Hph, negb_involutive. reflexivity. }
      constructor; rewrite ?Eb; cbn [set_ph gD0 gD1 gW gown ginv]; auto.
      intros k Hk. destruct (TM k Hk). split; [lia|assumption].
  - (* swCool *)
    cbn [svw pcinv] in Hpc. destruct Hpc as ((-> & Hg & Hgi) & Hph & ->).
    destruct (Z.eqb_spec (s_cnt (hget h (negb (hot h)))) count) as [Ecnt|Ecnt];
      inversion Hs; subst h' nxt; clear Hs; destruct Hrest as [-> ->].
    + pose proof (i_cool _ _ _ HS _ Hph) as CL0. pose proof (i_cntc _ _ _ HS) as CC0. rewrite Hph in CC0. cbn [pzc] in CC0.
      assert (HA0 : TA svw (negb (hot h)) T = 0) by lia.
      exists (set_ph g PhM0). hold_step Hph.
      * cbn [svw pcinv]. rewrite gD_set_ph. cbn [set_ph gown ginv gph]. psplit; auto. lia.
      * prepS HS Hph h. destruct hb; simSall; constructor; simS; triv.
    + hold_same g. cbn [svw pcinv]. tauto.
  - (* swSpin *)
    inversion Hs; subst; clear Hs. destruct Hrest as [-> ->]. hold_same g.
  - (* swReadSum *)
    cbn [svw pcinv] in Hpc. destruct Hpc as ((-> & Hg & Hgi) & Hph & -> & ->).
    pose proof (i_sumc _ _ _ HS) as SC. rewrite Hph in SC. cbn [pzs PhM0] in SC.
    destruct (cooled_facts _ _ _ HS) as (_ & _ & E); [rewrite Hph; reflexivity|].
    rewrite E, app_nil_r in SC.
    inversion Hs; subst h' nxt; clear Hs; destruct Hrest as [-> ->]; hold_same g.
    cbn [svw pcinv ho_count]. psplit; auto.
    unfold out_ok. cbn [ho_count ho_sum ho_cum length seq map]. auto.
  - (* smAddCnt *)
    inversion Hs; subst; clear Hs. destruct Hrest as [-> ->].
    cbn [svw pcinv] in Hpc. destruct Hpc as ((-> & Hg & Hgi) & Hph & -> & Hout & Hcnt). rewrite Hcnt in *.
    exists (set_ph g (PhM true false false false 0 0)). hold_step Hph.
    + cbn [svw pcinv]. rewrite gD_set_ph. cbn [set_ph gown ginv gph]. tauto.
    + prepS HS Hph h. destruct hb; simSall; constructor; simS; triv.
  - (* smStoreCnt *)
    inversion Hs; subst; clear Hs. destruct Hrest as [-> ->].
    cbn [svw pcinv] in Hpc. destruct Hpc as ((-> & Hg & Hgi) & Hph & -> & Hout).
    exists (set_ph g (PhM true true false false 0 0)). hold_step Hph.
    + cbn [svw pcinv]. rewrite gD_set_ph. cbn [set_ph gown ginv gph]. psplit; auto. apply Hout.
    + prepS HS Hph h. destruct hb; simSall; constructor; simS; triv.
  - (* smSumLoad *)
    inversion Hs; subst; clear Hs. destruct Hrest as [-> ->]. hold_same g.
  - (* smSumCas *)
    cbn [svw pcinv] in Hpc. destruct Hpc as ((-> & Hg & Hgi) & Hph & -> & Hout & Hs0).
    destruct (fbits_eq _ _) eqn:Ecas; inversion Hs; subst; clear Hs; destruct Hrest as [-> ->].
    + apply fbits_eq_true in Ecas. subst old. set (s := ho_sum o0) in *.
      exists (set_ph g (PhM true true true false 0 0)). hold_step Hph.
      * cbn [svw pcinv]. rewrite gD_set_ph. cbn [set_ph gown ginv gph]. tauto.
      * prepS HS Hph h. destruct hb; simSall; constructor; simS; triv.
        all: rewrite app_nil_r in SH; rewrite app_assoc; apply SO_add; assumption.
    + hold_same g. cbn [svw pcinv]. tauto.
  - (* smStoreSum *)
    inversion Hs; subst; clear Hs. destruct Hrest as [-> ->].
    cbn [svw pcinv] in Hpc. destruct Hpc as ((-> & Hg & Hgi) & Hph & -> & Hout).
    exists (set_ph g (PhM true true true true 0 0)). hold_step Hph.
    + cbn [svw pcinv length]. rewrite gD_set_ph. cbn [set_ph gown ginv gph]. tauto.
    + prepS HS Hph h. destruct hb; simSall; constructor; simS; triv.
  - (* swUnlock *)
    inversion Hs; subst h' nxt; clear Hs. destruct Hrest as (t' & Hfr & -> & ->).
    cbn [svw pcinv] in Hpc. destruct Hpc as ((-> & Hg & Hgi) & Hph & Hout). cbn [length] in Hph.
    set (w := @mkCall SM tid (t_idx t) HWrite (HOut o0) inv (nw + 1)).
    exists (unlock_g g (hot h) w).
    destruct (fresh_tpc (bnds:=bnds) sst_vw _ _ Hfr) as (FA & FB & FS).
    unfold Inv3. cbn [hot mtx]. split; [|split].
    + constructor.
      * intros j tj Hj. apply nth_error_set_nth_inv in Hj. destruct Hj as [[-> ->]|[Hne Hj]].
        -- apply (fresh_tinv sst_vw). assumption.
        -- apply tinv_mono with nw; [lia|]. eapply tinv_other; eauto. apply (i_thr _ _ _ _ _ HT). exact Hj.
      * cbn [unlock_g gown gph]. auto.
    + destruct (T_same (bnds:=bnds) (vw:=svw) T i t t' Ht) as (HA & HB & HS2);
        try (intros; unfold tpc at 2; rewrite Hc; rewrite ?FA, ?FB, ?FS; reflexivity).
      eapply InvS_T; eauto.
      prepSc HS Hph h.
      destruct hb; simSall; constructor; simS; rewrite ?zlen_app, ?zlen_nil, ?vals_app in *; triv.
      all: try (let j := fresh "j" in let Hj := fresh "Hj" in
                intros j Hj; rewrite ?cnteq_app, ?cnteq_nil, ?B0; specialize (BH j Hj); specialize (BC j Hj);
                rewrite ?B0 in *; bcases; fail).
      all: rewrite ?S0; cbn [vals map app]; try (rewrite SC; constructor).
      all: eapply SO_perm; [|exact SH]; perm.
    + apply InvH_unlock with o0; auto; try reflexivity.
      * rewrite Hph. reflexivity.
      * congruence.
      * lia.
Qed.
End SummStep.

(* ====================================================================== *)
(* 8. the theorems for the two machines                                    *)
(* ====================================================================== *)
Lemma hist_enabled h pc : hstep h pc = None -> hvw pc = wLock /\ mtx h = true.
Proof.
  intros H. destruct (mtx h) eqn:Em.
  - split; [|reflexivity]. destruct pc; try reflexivity; exfalso; eapply hstep_enabled; try exact H; left; discriminate.
  - exfalso. eapply hstep_enabled; try exact H. right. assumption.
Qed.

Notation hrun bounds progs sched := (run_sched hist_machine (init_config hist_machine (hinit bounds) progs) sched) (only parsing).
Notation srun progs sched := (run_sched summ_machine (init_config summ_machine (hinit []) progs) sched) (only parsing).

Definition writes_explained {M : machine} (is_obs : call M -> bool) (snapshot : call M -> list (call M) -> Prop)
  (h : list (call M)) (snap : list (call M * list (call M))) : Prop :=
  map fst snap = filter (fun k => negb (is_obs k)) h /\
  Forall (fun e => snapshot (fst e) (snd e)) snap /\
  (forall i j e1 e2, (i < j)%nat -> nth_error snap i = Some e1 -> nth_error snap j = Some e2 -> incl (snd e1) (snd e2)).

(* ---- histogram ---- *)
Lemma hist_scrape_consistent : forall (bounds : list f64) (progs : list (list hop)) (sched : list Z),
  strictly_increasing_b bounds = true ->
  let c := hrun bounds progs sched in
  forall w o, In w (Conc.hist c) -> c_ret w = HOut o -> exists Mo : list f64, consistent bounds o Mo.
Proof. intros bounds progs sched. exact (scrape_consistent_lemma (bnds:=bounds) (vw:=hvw) hst_vw (hist_Inv_step bounds) progs sched). Qed.

Lemma hist_scrape_real_time : forall (bounds : list f64) (progs : list (list hop)) (sched : list Z),
  strictly_increasing_b bounds = true ->
  let c := hrun bounds progs sched in
  forall w o, In w (Conc.hist c) -> c_ret w = HOut o -> exists S, snapshot_of bounds (Conc.hist c) w S.
Proof. intros bounds progs sched. exact (scrape_real_time_lemma (bnds:=bounds) (vw:=hvw) hst_vw (hist_Inv_step bounds) progs sched). Qed.

Lemma hist_scrapes_monotone : forall (bounds : list f64) (progs : list (list hop)) (sched : list Z),
  strictly_increasing_b bounds = true ->
  let c := hrun bounds progs sched in
  exists snap, writes_explained kobs (snapshot_of bounds (Conc.hist c)) (Conc.hist c) snap.
Proof. intros bounds progs sched. exact (scrapes_monotone_lemma (bnds:=bounds) (vw:=hvw) hst_vw (hist_Inv_step bounds) progs sched). Qed.

Lemma hist_quiescent_total : forall (bounds : list f64) (progs : list (list hop)) (sched : list Z),
  let c := hrun bounds progs sched in
  all_done hist_machine c = true ->
  let h := sh c in
  let obs := filter kobs (Conc.hist c) in
  mtx h = false /\ tickets h = Z.of_nat (length obs) /\
  s_cnt (hget h (hot h)) = Z.of_nat (length obs) /\ SumOf (vals obs) (s_sum (hget h (hot h))) /\
  s_cnt (hget h (negb (hot h))) = 0.
Proof. intros bounds progs sched. exact (quiescent_total_lemma (bnds:=bounds) (vw:=hvw) hst_vw (hist_Inv_step bounds) progs sched). Qed.

Lemma hist_write_no_deadlock : forall (bounds : list f64) (progs : list (list hop)) (sched : list Z),
  let c := hrun bounds progs sched in
  all_done hist_machine c = false -> exists tid, sched_step hist_machine c tid <> None.
Proof. intros bounds progs sched. exact (write_no_deadlock_lemma (bnds:=bounds) (vw:=hvw) hst_vw (hist_Inv_step bounds) hist_enabled progs sched). Qed.

Lemma hist_spin_exits_when_drained : forall (bounds : list f64) (progs : list (list hop)) (sched : list Z),
  let c := hrun bounds progs sched in
  forall i t o count cold inv,
  nth_error (thr c) i = Some t -> t_cur t = Some (o, wCool count cold, inv) ->
  (forall j tj oj pcj invj, nth_error (thr c) j = Some tj -> t_cur tj = Some (oj, pcj, invj) ->
     match pcj with oBucket _ b _ | oSumLoad _ b | oSumCas _ b _ | oCount b => b <> cold | _ => True end) ->
  s_cnt (hget (sh c) cold) = count.
Proof.
  intros bounds progs sched c i t o count cold inv Hi Hc Hn.
  exact (spin_exits_when_drained_lemma (bnds:=bounds) (vw:=hvw) hst_vw (hist_Inv_step bounds) hist_enabled progs sched i t o _ count cold inv Hi Hc eq_refl Hn).
Qed.

(* ---- summary without objectives (no buckets: started from hinit []) ---- *)
Lemma summ_scrape_consistent : forall (progs : list (list hop)) (sched : list Z),
  let c := srun progs sched in
  forall w o, In w (Conc.hist c) -> c_ret w = HOut o -> exists Mo : list f64, consistent [] o Mo.
Proof. intros progs sched. exact (scrape_consistent_lemma (bnds:=[]) (vw:=svw) sst_vw summ_Inv_step progs sched eq_refl). Qed.

Lemma summ_scrape_real_time : forall (progs : list (list hop)) (sched : list Z),
  let c := srun progs sched in
  forall w o, In w (Conc.hist c) -> c_ret w = HOut o -> exists S, snapshot_of [] (Conc.hist c) w S.
Proof. intros progs sched. exact (scrape_real_time_lemma (bnds:=[]) (vw:=svw) sst_vw summ_Inv_step progs sched eq_refl). Qed.

Lemma summ_scrapes_monotone : forall (progs : list (list hop)) (sched : list Z),
  let c := srun progs sched in
  exists snap, writes_explained kobs (snapshot_of [] (Conc.hist c)) (Conc.hist c) snap.
Proof. intros progs sched. exact (scrapes_monotone_lemma (bnds:=[]) (vw:=svw) sst_vw summ_Inv_step progs sched eq_refl). Qed.

Lemma summ_quiescent_total : forall (progs : list (list hop)) (sched : list Z),
  let c := srun progs sched in
  all_done summ_machine c = true ->
  let h := sh c in
  let obs := filter kobs (Conc.hist c) in
  mtx h = false /\ tickets h = Z.of_nat (length obs) /\
  s_cnt (hget h (hot h)) = Z.of_nat (length obs) /\ SumOf (vals obs) (s_sum (hget h (hot h))) /\
  s_cnt (hget h (negb (hot h))) = 0.
Proof. intros progs sched. exact (quiescent_total_lemma (bnds:=[]) (vw:=svw) sst_vw summ_Inv_step progs sched). Qed.

Lemma summ_write_no_deadlock : forall (progs : list (list hop)) (sched : list Z),
  let c := srun progs sched in
  all_done summ_machine c = false -> exists tid, sched_step summ_machine c tid <> None.
Proof. intros progs sched. exact (write_no_deadlock_lemma (bnds:=[]) (vw:=svw) sst_vw summ_Inv_step sstep_enabled progs sched). Qed.

(* ====================================================================== *)
(* 9. examples                                                             *)
(* ====================================================================== *)
(* per finished call: thread, Write output (count, sum bits, cumulative buckets), invocation and response time *)
Definition outs {M} (ret_of : Conc.ret M -> hret) (c : config M) : list (Z * option (Z * Z * list Z) * Z * Z) :=
  map (fun k => (c_tid k, match ret_of (c_ret k) with HOut o => Some (ho_count o, to_bits (ho_sum o), ho_cum o) | HUnit => None end,
                 c_inv k, c_res k)) (Conc.hist c).
(* number of iterations of the cool-down spin loop in the trace *)
Definition spins {M} (c : config M) : nat :=
  length (filter (fun e => if list_eq_dec Z.eq_dec (snd e) (hlabel (wSpin 0 false)) then true else false) (trace c)).

Definition ex_bounds : list f64 := [of_Z 1; of_Z 2].
(* thread 0 takes its ticket and is parked; thread 1 (collector) locks, flips and spins; thread 2 observes 4 into the
   new hot set and returns; thread 0 finishes; the collector cools down, reports, and scrapes a second time *)
Definition ex1_progs : list (list hop) := [[HObserve (of_Z 1)]; [HWrite; HWrite]; [HObserve (of_Z 4)]].
Definition ex1_sched : list Z := [0] ++ [1;1;1;1] ++ [2;2;2;2] ++ [0;0;0;0] ++ repeat 1 60%nat.
(* two collectors: thread 2 finds the mutex held (its entry is skipped), thread 1 spins for thread 0's second Observe *)
Definition ex2_progs : list (list hop) := [[HObserve (of_Z 1); HObserve (of_Z 2)]; [HWrite]; [HWrite]].
Definition ex2_sched : list Z := [0;0;0;0;0] ++ [0] ++ [1;1] ++ [2] ++ [1;1] ++ [0;0;0;0] ++ repeat 1 30%nat ++ repeat 2 40%nat.

Lemma example_parked_observer_lemma :
  let c := hrun ex_bounds ex1_progs ex1_sched in
  outs (M := hist_machine) (fun r => r) c =
    [(2, None, 0, 9); (0, None, 0, 13);
     (1, Some (1, to_bits (of_Z 1), [1; 1]), 0, 34);          (* includes the parked observer, not the later 4 *)
     (1, Some (2, to_bits (of_Z 5), [1; 1]), 34, 57)] /\      (* the next scrape has both *)
  spins c = 1%nat /\ all_done hist_machine c = true /\
  snapshot_check (M := hist_machine) (fun o => o) (fun r => r) ex_bounds (Conc.hist c) = true.
Proof. vm_compute. repeat split. Qed.

Lemma example_two_collectors_lemma :
  let c := hrun ex_bounds ex2_progs ex2_sched in
  outs (M := hist_machine) (fun r => r) c =
    [(0, None, 0, 5); (0, None, 5, 14);
     (1, Some (2, to_bits (of_Z 3), [1; 2]), 0, 35);
     (2, Some (2, to_bits (of_Z 3), [1; 2]), 0, 58)] /\
  spins c = 1%nat /\ all_done hist_machine c = true /\
  snapshot_check (M := hist_machine) (fun o => o) (fun r => r) ex_bounds (Conc.hist c) = true.
Proof. vm_compute. repeat split. Qed.

Lemma example_summary_lemma :
  let c := srun ex1_progs ex1_sched in
  outs (M := summ_machine) (fun r => r) c =
    [(2, None, 0, 9); (0, None, 0, 12);
     (1, Some (1, to_bits (of_Z 1), []), 0, 20);
     (1, Some (2, to_bits (of_Z 5), []), 20, 30)] /\
  spins c = 1%nat /\ all_done summ_machine c = true.
Proof. vm_compute. repeat split. Qed.
