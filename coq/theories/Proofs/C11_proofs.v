(* Proofs/C11_proofs.v -- lemmas for C11 (the promhttp metrics handler). *)
From Coq Require Import ZArith List Bool Lia.
From Verif Require Import Base.F64 Base.Str Proofs.F64_order Proofs.Str_facts Model.Handler.
Import ListNotations.
Open Scope Z_scope.

(* ------------------------------------------------------------------ floats *)
Lemma fneg1_not_nan : is_nan fneg1 = false.
Proof. vm_compute. reflexivity. Qed.

(* a non-negative, non-zero quality that beats -1 is positive *)
Lemma pos_of_nonneg_nonzero q :
  fgt q fneg1 = true -> flt q pzero = false -> feq q pzero = false -> fgt q pzero = true.
Proof.
  intros G L E. unfold fgt in *.
  destruct q as [s | s | | s m e H].
  - destruct s; vm_compute in E; discriminate.
  - destruct s; [vm_compute in L; discriminate | reflexivity].
  - rewrite flt_nan_r in G by reflexivity. discriminate.
  - destruct s; [vm_compute in L; discriminate | reflexivity].
Qed.

(* ------------------------------------------------------------------ ParseAccept *)
Definition nonneg (a : aspec) : Prop := flt (sq a) pzero = false.
Local Arguments strip_prefix : simpl never.
Local Arguments skip_space : simpl never.
Local Arguments expect_quality : simpl never.
Local Arguments expect_token_slash : simpl never.

Lemma fone_nonneg : flt fone pzero = false.
Proof. vm_compute. reflexivity. Qed.

Lemma parse_value_nonneg : forall fuel s, Forall nonneg (parse_value fuel s).
Proof.
  induction fuel as [|f IH]; intros s; simpl; [constructor|].
  destruct (expect_token_slash s) as [v s1]. destruct v as [|c v]; [constructor|].
  destruct (strip_prefix [59] (skip_space s1)) as [s3|].
  - destruct (strip_prefix [113; 61] (skip_space s3)) as [s5|]; [|constructor].
    destruct (expect_quality s5) as [q s6]. destruct (flt q pzero) eqn:Q; [constructor|].
    constructor; [exact Q|]. destruct (strip_prefix [44] (skip_space s6)); [apply IH | constructor].
  - constructor; [exact fone_nonneg|]. destruct (strip_prefix [44] (skip_space (skip_space s1))); [apply IH | constructor].
Qed.

Lemma parse_accept_nonneg_lemma : forall vals a, In a (parse_accept vals) -> flt (sq a) pzero = false.
Proof.
  intros vals a H. unfold parse_accept in H. apply in_flat_map in H. destruct H as (s & _ & H).
  pose proof (parse_value_nonneg (S (length s)) s) as F. rewrite Forall_forall in F. exact (F _ H).
Qed.

(* ------------------------------------------------------------------ NegotiateContentEncoding *)
(* invariant of the inner loop over the specs *)
Definition offer_inv (specs : list aspec) (c : str) (st : f64 * bool) : Prop :=
  (snd st = true -> explicit_qs specs c <> [] /\ In (fst st) (explicit_qs specs c)) /\
  (snd st = false -> explicit_qs specs c = [] /\ (fst st = fneg1 \/ In (fst st) (explicit_qs specs s_star))).

Lemma explicit_qs_app specs sp c :
  explicit_qs (specs ++ [sp]) c = explicit_qs specs c ++ (if str_eqb (sv sp) c then [sq sp] else []).
Proof.
  unfold explicit_qs. rewrite filter_app, map_app. simpl. destruct (str_eqb (sv sp) c); reflexivity.
Qed.

Lemma offer_fold_inv c : forall specs, offer_inv specs c (fold_left (offer_step c) specs (fneg1, false)).
Proof.
  intros specs. induction specs as [|sp specs IH] using rev_ind.
  - simpl. split; [discriminate|]. intros _. split; [reflexivity | left; reflexivity].
  - rewrite fold_left_app. simpl. destruct (fold_left (offer_step c) specs (fneg1, false)) as [q ex].
    destruct IH as [IHt IHf]. simpl in IHt, IHf. unfold offer_inv, offer_step.
    rewrite !explicit_qs_app.
    destruct (str_eqb (sv sp) c) eqn:E.
    + (* explicit entry *)
      split; [|simpl; discriminate]. intros _. simpl. split.
      * intros K. apply app_eq_nil in K. destruct K as [_ K]. discriminate.
      * destruct ex; simpl.
        -- destruct (fgt (sq sp) q); apply in_or_app; [right; left; reflexivity | left; apply IHt; reflexivity].
        -- apply in_or_app. right. left. reflexivity.
    + rewrite app_nil_r.
      destruct (str_eqb (sv sp) s_star && negb ex) eqn:W.
      * apply andb_true_iff in W. destruct W as [W1 W2]. destruct ex; [discriminate|]. simpl.
        split; [discriminate|]. intros _. destruct (IHf eq_refl) as [N D]. split; [exact N|].
        rewrite W1. destruct (fgt (sq sp) q).
        -- right. apply in_or_app. right. left. reflexivity.
        -- destruct D as [D|D]; [left; exact D | right; apply in_or_app; left; exact D].
      * simpl. split.
        -- intros X. apply IHt. exact X.
        -- intros X. destruct (IHf X) as [N D]. split; [exact N|].
           destruct D as [D|D]; [left; exact D|]. right.
           destruct (str_eqb (sv sp) s_star); [apply in_or_app; left; exact D | rewrite app_nil_r; exact D].
Qed.

(* the quality the code computes for an offer is -1 or one of its effective entries (explicit, else wildcard) *)
Lemma offer_q_cases specs c : offer_q specs c = fneg1 \/ In (offer_q specs c) (eff_qs specs c).
Proof.
  unfold offer_q, eff_qs. pose proof (offer_fold_inv c specs) as [It If].
  destruct (fold_left (offer_step c) specs (fneg1, false)) as [q ex]. simpl in *.
  destruct ex.
  - destruct (It eq_refl) as [N I]. right. destruct (explicit_qs specs c); [contradiction N; reflexivity | exact I].
  - destruct (If eq_refl) as [N D]. rewrite N. exact D.
Qed.

Lemma eff_qs_nonneg specs c q : (forall a, In a specs -> nonneg a) -> In q (eff_qs specs c) -> flt q pzero = false.
Proof.
  intros H I. assert (K : forall c', In q (explicit_qs specs c') -> flt q pzero = false).
  { intros c' J. unfold explicit_qs in J. apply in_map_iff in J. destruct J as (a & <- & J).
    apply filter_In in J. apply H. exact (proj1 J). }
  unfold eff_qs in I. destruct (explicit_qs specs c) eqn:E; [apply (K s_star I) | apply (K c); rewrite E; exact I].
Qed.

(* invariant of the outer loop over the offers *)
Lemma nego_fold_inv specs : forall offers,
  let st := fold_left (nego_step specs) offers (s_identity, fneg1) in
  (st = (s_identity, fneg1)) \/ (In (fst st) offers /\ snd st = offer_q specs (fst st) /\ fgt (snd st) fneg1 = true).
Proof.
  intros offers. induction offers as [|o offers IH] using rev_ind; simpl; [left; reflexivity|].
  rewrite fold_left_app. simpl. destruct (fold_left (nego_step specs) offers (s_identity, fneg1)) as [b bq].
  unfold nego_step. simpl. destruct (fgt (offer_q specs o) bq) eqn:G.
  - right. simpl. split; [apply in_or_app; right; left; reflexivity|]. split; [reflexivity|].
    simpl in IH. destruct IH as [IH | (_ & _ & IH)].
    + inversion IH; subst. exact G.
    + unfold fgt in *. eapply flt_trans; eassumption.
  - simpl in IH. destruct IH as [IH | (I & Q & P)]; [left; exact IH|]. right. simpl.
    split; [apply in_or_app; left; exact I|]. split; assumption.
Qed.

Lemma negotiate_ce_sound specs offers : (forall a, In a specs -> nonneg a) ->
  let c := negotiate_ce specs offers in
  c = [] \/ c = s_identity \/ (In c offers /\ accepted_nonzero specs c = true).
Proof.
  intros H. unfold negotiate_ce. pose proof (nego_fold_inv specs offers) as I. simpl in I.
  destruct (fold_left (nego_step specs) offers (s_identity, fneg1)) as [b bq]. simpl in I.
  destruct (feq bq pzero) eqn:Z; [left; reflexivity|]. right.
  destruct I as [I | (I & Q & P)]; [left; inversion I; reflexivity|]. right. split; [exact I|].
  destruct (offer_q_cases specs b) as [C|C].
  - rewrite C in Q. rewrite Q in P. unfold fgt in P. rewrite flt_irrefl in P. discriminate.
  - unfold accepted_nonzero. apply existsb_exists. exists bq. rewrite Q. split; [exact C|]. rewrite <- Q.
    apply pos_of_nonneg_nonzero; [exact P | | exact Z]. eapply eff_qs_nonneg; [exact H | rewrite Q; exact C].
Qed.

(* ------------------------------------------------------------------ the handler *)
Section H.
  Variable fam : Type.
  Implicit Types i : hin fam.

  Definition comps_of i := compressions (h_disable i) (h_offered i) (h_zstd i).

  (* what negotiateEncodingWriter + the fallback leave in the Content-Encoding header *)
  Definition cenc_of i : option str :=
    let '(w0, hdr0, err) := negotiate_writer (h_ae i) (comps_of i) (h_zstd i) in
    let hdr := if err then s_identity else hdr0 in
    if str_eqb hdr s_identity then None else Some hdr.
  Definition writer_of i : coding :=
    let '(w0, hdr0, err) := negotiate_writer (h_ae i) (comps_of i) (h_zstd i) in if err then CId else w0.

  Lemma str_eqb_sym a b : str_eqb a b = str_eqb b a.
  Proof.
    destruct (str_eqb a b) eqn:E.
    - apply str_eqb_eq in E. subst. symmetry. apply str_eqb_refl.
    - symmetry. apply str_eqb_neq. apply str_eqb_neq in E. congruence.
  Qed.

  (* header and writer always agree: gzip <-> CGzip, zstd <-> CZstd (only with a working zstd writer), none <-> identity *)
  Lemma cenc_writer_agree i :
    (cenc_of i = None /\ writer_of i = CId) \/
    (cenc_of i = Some s_gzip /\ writer_of i = CGzip) \/
    (cenc_of i = Some s_zstd /\ writer_of i = CZstd /\ h_zstd i = ZOk).
  Proof.
    unfold cenc_of, writer_of, negotiate_writer.
    destruct (comps_of i) as [|c0 cs] eqn:C; [left; split; reflexivity|].
    set (sel := negotiate_ce (parse_accept (h_ae i)) (c0 :: cs)).
    destruct (str_eqb sel s_zstd) eqn:Z.
    - apply str_eqb_eq in Z. rewrite Z. destruct (h_zstd i); simpl.
      + left; split; reflexivity.
      + right; right. repeat split; reflexivity.
      + left; split; reflexivity.
    - destruct (str_eqb sel s_gzip) eqn:G.
      + apply str_eqb_eq in G. rewrite G. right; left. split; reflexivity.
      + destruct (str_eqb sel s_identity) eqn:I; simpl.
        * rewrite I. left; split; reflexivity.
        * left; split; reflexivity.
  Qed.

  Lemma cenc_of_selected i c : cenc_of i = Some c ->
    comps_of i <> [] /\ c = negotiate_ce (parse_accept (h_ae i)) (comps_of i) /\ (c = s_gzip \/ c = s_zstd).
  Proof.
    unfold cenc_of, negotiate_writer.
    destruct (comps_of i) as [|c0 cs] eqn:C; [simpl; discriminate|].
    set (sel := negotiate_ce (parse_accept (h_ae i)) (c0 :: cs)).
    destruct (str_eqb sel s_zstd) eqn:Z.
    - apply str_eqb_eq in Z. destruct (h_zstd i); simpl; try discriminate.
      rewrite Z. simpl. intros E. inversion E. split; [discriminate|]. split; [reflexivity | right; reflexivity].
    - destruct (str_eqb sel s_gzip) eqn:G.
      + apply str_eqb_eq in G. rewrite G. simpl. intros E. inversion E. split; [discriminate|]. split; [reflexivity | left; reflexivity].
      + destruct (str_eqb sel s_identity) eqn:I; simpl; [rewrite I|]; discriminate.
  Qed.

  Lemma cenc_of_allowed i :
    cenc_allowed (h_disable i) (comps_of i) (parse_accept (h_ae i)) (cenc_of i) = true.
  Proof.
    destruct (cenc_of i) as [c|] eqn:E; [|reflexivity]. simpl.
    destruct (cenc_of_selected i c E) as (N & S & K).
    assert (D : h_disable i = false).
    { destruct (h_disable i) eqn:D; [|reflexivity]. exfalso. apply N. unfold comps_of, compressions. rewrite D. reflexivity. }
    rewrite D. simpl.
    pose proof (negotiate_ce_sound (parse_accept (h_ae i)) (comps_of i)
                  (fun a Ha => parse_accept_nonneg_lemma (h_ae i) a Ha)) as Snd.
    simpl in Snd. rewrite <- S in Snd.
    assert (G : (str_eqb c s_gzip || str_eqb c s_zstd) = true).
    { destruct K as [K|K]; subst c; vm_compute; reflexivity. }
    destruct Snd as [Snd | [Snd | [Snd1 Snd2]]].
    - destruct K as [K|K]; rewrite K in Snd; discriminate.
    - destruct K as [K|K]; rewrite K in Snd; vm_compute in Snd; discriminate.
    - rewrite G, Snd2. apply str_in_In in Snd1. rewrite Snd1. reflexivity.
  Qed.

  (* ---- the encoder loop ---- *)
  Inductive sub {A} : list A -> list A -> Prop :=
  | sub_nil l : sub [] l
  | sub_take x a b : sub a b -> sub (x :: a) (x :: b)
  | sub_skip y a b : sub a b -> sub a (y :: b).

  Lemma sub_refl {A} (l : list A) : sub l l.
  Proof. induction l; constructor; assumption. Qed.

  Definition nfails (encfail : fam -> bool) (mfs : list fam) : Z := count_true encfail mfs.

  Lemma count_true_cons {A} (f : A -> bool) x l : count_true f (x :: l) = (if f x then 1 else 0) + count_true f l.
  Proof. unfold count_true. simpl. destruct (f x); simpl length; lia. Qed.
  Lemma count_true_nonneg {A} (f : A -> bool) l : 0 <= count_true f l.
  Proof. unfold count_true. lia. Qed.

  (* ContinueOnError (and unknown policies): every family is attempted, every failure counted *)
  Lemma enc_loop_continue pol encfail mfs : pol = PContinue \/ pol = POther ->
    enc_loop pol encfail mfs = (filter (fun f => negb (encfail f)) mfs, nfails encfail mfs, LNormal).
  Proof.
    intros P. induction mfs as [|mf r IH]; [reflexivity|].
    simpl. unfold nfails in *. rewrite count_true_cons. rewrite IH.
    destruct (encfail mf); simpl; destruct P; subst pol; f_equal; f_equal; lia.
  Qed.

  (* no failing family: everything is encoded, for every policy *)
  Lemma enc_loop_clean pol encfail mfs : nfails encfail mfs = 0 -> enc_loop pol encfail mfs = (mfs, 0, LNormal).
  Proof.
    induction mfs as [|mf r IH]; [reflexivity|]. unfold nfails in *. rewrite count_true_cons.
    pose proof (count_true_nonneg encfail r). simpl. destruct (encfail mf); [lia|]. intros E. rewrite IH by lia. reflexivity.
  Qed.

  (* HTTPErrorOnError / PanicOnError: stop at the first failure, which is counted once *)
  Lemma enc_loop_stop pol encfail mfs : pol = PHttpError \/ pol = PPanic -> nfails encfail mfs <> 0 ->
    exists l, enc_loop pol encfail mfs = (l, 1, match pol with PPanic => LPanic | _ => LAbort end) /\ sub l mfs.
  Proof.
    intros P. induction mfs as [|mf r IH]; [intros N; exfalso; apply N; reflexivity|].
    unfold nfails in *. rewrite count_true_cons. simpl. destruct (encfail mf).
    - intros _. exists []. split; [destruct P; subst pol; reflexivity | constructor].
    - intros N. destruct IH as (l & E & S); [lia|]. rewrite E. exists (mf :: l). split; [reflexivity | constructor; exact S].
  Qed.

  Lemma enc_loop_sub pol encfail mfs : sub (fst (fst (enc_loop pol encfail mfs))) mfs.
  Proof.
    induction mfs as [|mf r IH]; [constructor|]. simpl.
    destruct (enc_loop pol encfail r) as [[l e] x]. simpl in IH.
    destruct (encfail mf); [destruct pol; simpl; constructor; exact IH || constructor | simpl; constructor; exact IH].
  Qed.
End H.
