(* Proofs/C11_proofs.v -- lemmas for C11 (the promhttp metrics handler). *)
From Coq Require Import ZArith List Bool Lia.
From Verif Require Import Base.F64 Base.Str Proofs.F64_order Proofs.Str_facts Model.Handler.
Import ListNotations.
Open Scope Z_scope.

(* ------------------------------------------------------------------ floats *)
Lemma fneg1_not_nan : is_nan fneg1 = false.
Proof. vm_compute. reflexivity. Qed.

(* a non-negative, non-zero quality that beats -1 is positive *)
Lemma pos_of_nonneg_nonzero q :
  fgt q fneg1 = true -> flt q pzero = false -> feq q pzero = false -> fgt q pzero = true.
Proof.
  intros G L E. unfold fgt in *.
  destruct q as [s | s | | s m e H].
  - destruct s; vm_compute in E; discriminate.
  - destruct s; [vm_compute in L; discriminate | reflexivity].
  - rewrite flt_nan_r in G by reflexivity. discriminate.
  - destruct s; [vm_compute in L; discriminate | reflexivity].
Qed.

(* ------------------------------------------------------------------ ParseAccept *)
(* ---- every helper of ParseAccept returns a suffix that is no longer than its input ---- *)
Lemma skip_space_len s : (length (skip_space s) <= length s)%nat.
Proof. induction s as [|c r IH]; simpl; [lia|]. destruct (is_space_b c); simpl; lia. Qed.

Lemma ets_len s : (length s = length (fst (expect_token_slash s)) + length (snd (expect_token_slash s)))%nat.
Proof.
  induction s as [|c r IH]; simpl; [reflexivity|].
  destruct (is_token_b c || (c =? 47)); [|reflexivity].
  destruct (expect_token_slash r) as [t rest]. simpl in *. lia.
Qed.

Lemma strip_prefix_len p : forall s r, strip_prefix p s = Some r -> (length r <= length s)%nat.
Proof.
  induction p as [|y p IH]; intros s r H; simpl in H; [inversion H; lia|].
  destruct s as [|x s]; [discriminate|]. destruct (x =? y); [|discriminate]. apply IH in H. simpl. lia.
Qed.

Lemma q_digits_len s : forall n d, (length (snd (q_digits s n d)) <= length s)%nat.
Proof.
  induction s as [|b r IH]; intros n d; simpl; [lia|].
  destruct ((48 <=? b) && (b <=? 57)); [specialize (IH (wrap64 (n * 10 + b - 48)) (wrap64 (d * 10))); lia | simpl; lia].
Qed.

Lemma expect_quality_len s : (length (snd (expect_quality s)) <= length s)%nat.
Proof.
  unfold expect_quality. destruct s as [|c r]; [simpl; lia|].
  destruct ((c =? 48) || (c =? 49)); [|simpl; lia].
  destruct (strip_prefix [46] r) as [r'|] eqn:P; [|simpl; lia].
  apply strip_prefix_len in P. pose proof (q_digits_len r' 0 1) as Q.
  destruct (q_digits r' 0 1) as [[n d] rest]. simpl in *. lia.
Qed.

Definition nonneg (a : aspec) : Prop := flt (sq a) pzero = false.
Local Arguments strip_prefix : simpl never.
Local Arguments Z.add : simpl never.
Local Arguments skip_space : simpl never.
Local Arguments expect_quality : simpl never.
Local Arguments expect_token_slash : simpl never.

Lemma fone_nonneg : flt fone pzero = false.
Proof. vm_compute. reflexivity. Qed.

Lemma parse_value_nonneg : forall fuel s, Forall nonneg (parse_value fuel s).
Proof.
  induction fuel as [|f IH]; intros s; simpl; [constructor|].
  destruct (expect_token_slash s) as [v s1]. destruct v as [|c v]; [constructor|].
  destruct (strip_prefix [59] (skip_space s1)) as [s3|].
  - destruct (strip_prefix [113; 61] (skip_space s3)) as [s5|]; [|constructor].
    destruct (expect_quality s5) as [q s6]. destruct (flt q pzero) eqn:Q; [constructor|].
    constructor; [exact Q|]. destruct (strip_prefix [44] (skip_space s6)); [apply IH | constructor].
  - constructor; [exact fone_nonneg|]. destruct (strip_prefix [44] (skip_space (skip_space s1))); [apply IH | constructor].
Qed.

Lemma parse_accept_nonneg_lemma : forall vals a, In a (parse_accept vals) -> flt (sq a) pzero = false.
Proof.
  intros vals a H. unfold parse_accept in H. apply in_flat_map in H. destruct H as (s & _ & H).
  pose proof (parse_value_nonneg (S (length s)) s) as F. rewrite Forall_forall in F. exact (F _ H).
Qed.

(* the fuel of the inner loop never runs out: any two fuels above the length of the value agree *)
Lemma parse_value_fuel : forall f1 f2 s, (length s < f1)%nat -> (length s < f2)%nat -> parse_value f1 s = parse_value f2 s.
Proof.
  induction f1 as [|f1 IH]; intros f2 s H1 H2; [lia|]. destruct f2 as [|f2]; [lia|]. simpl.
  pose proof (ets_len s) as L. destruct (expect_token_slash s) as [v s1]. simpl in L.
  destruct v as [|c v]; [reflexivity|]. simpl in L.
  pose proof (skip_space_len s1) as L1.
  assert (A : forall x, (length x <= length s1)%nat ->
              match strip_prefix [44] (skip_space x) with Some r => parse_value f1 (skip_space r) | None => [] end =
              match strip_prefix [44] (skip_space x) with Some r => parse_value f2 (skip_space r) | None => [] end).
  { intros x Hx. pose proof (skip_space_len x) as Lx. destruct (strip_prefix [44] (skip_space x)) as [r|] eqn:P; [|reflexivity].
    apply strip_prefix_len in P. pose proof (skip_space_len r) as Lr. apply IH; lia. }
  destruct (strip_prefix [59] (skip_space s1)) as [s3|] eqn:P3.
  - apply strip_prefix_len in P3. pose proof (skip_space_len s3) as L3.
    destruct (strip_prefix [113; 61] (skip_space s3)) as [s5|] eqn:P5; [|reflexivity].
    apply strip_prefix_len in P5. pose proof (expect_quality_len s5) as L6.
    destruct (expect_quality s5) as [q s6]. simpl in L6. destruct (flt q pzero); [reflexivity|].
    f_equal. apply A. lia.
  - f_equal. apply A. lia.
Qed.

Lemma parse_value_fuel_sufficient_lemma : forall fuel s, (S (length s) <= fuel)%nat ->
  parse_value fuel s = parse_value (S (length s)) s.
Proof. intros fuel s H. apply parse_value_fuel; lia. Qed.

(* ------------------------------------------------------------------ NegotiateContentEncoding *)
(* invariant of the inner loop over the specs *)
Definition offer_inv (specs : list aspec) (c : str) (st : f64 * bool) : Prop :=
  (snd st = true -> explicit_qs specs c <> [] /\ In (fst st) (explicit_qs specs c)) /\
  (snd st = false -> explicit_qs specs c = [] /\ (fst st = fneg1 \/ In (fst st) (explicit_qs specs s_star))).

Lemma explicit_qs_app specs sp c :
  explicit_qs (specs ++ [sp]) c = explicit_qs specs c ++ (if str_eqb (sv sp) c then [sq sp] else []).
Proof.
  unfold explicit_qs. rewrite filter_app, map_app. simpl. destruct (str_eqb (sv sp) c); reflexivity.
Qed.

Lemma offer_fold_inv c : forall specs, offer_inv specs c (fold_left (offer_step c) specs (fneg1, false)).
Proof.
  intros specs. induction specs as [|sp specs IH] using rev_ind.
  - simpl. split; [discriminate|]. intros _. split; [reflexivity | left; reflexivity].
  - rewrite fold_left_app. simpl. destruct (fold_left (offer_step c) specs (fneg1, false)) as [q ex].
    destruct IH as [IHt IHf]. simpl in IHt, IHf. unfold offer_inv, offer_step.
    rewrite !explicit_qs_app.
    destruct (str_eqb (sv sp) c) eqn:E.
    + (* explicit entry *)
      split; [|simpl; discriminate]. intros _. simpl. split.
      * intros K. apply app_eq_nil in K. destruct K as [_ K]. discriminate.
      * destruct ex; simpl.
        -- destruct (fgt (sq sp) q); apply in_or_app; [right; left; reflexivity | left; apply IHt; reflexivity].
        -- apply in_or_app. right. left. reflexivity.
    + rewrite app_nil_r.
      destruct (str_eqb (sv sp) s_star && negb ex) eqn:W.
      * apply andb_true_iff in W. destruct W as [W1 W2]. destruct ex; [discriminate|]. simpl.
        split; [discriminate|]. intros _. destruct (IHf eq_refl) as [N D]. split; [exact N|].
        rewrite W1. destruct (fgt (sq sp) q).
        -- right. apply in_or_app. right. left. reflexivity.
        -- destruct D as [D|D]; [left; exact D | right; apply in_or_app; left; exact D].
      * simpl. split.
        -- intros X. apply IHt. exact X.
        -- intros X. destruct (IHf X) as [N D]. split; [exact N|].
           destruct D as [D|D]; [left; exact D|]. right.
           destruct (str_eqb (sv sp) s_star); [apply in_or_app; left; exact D | rewrite app_nil_r; exact D].
Qed.

(* the quality the code computes for an offer is -1 or one of its effective entries (explicit, else wildcard) *)
Lemma offer_q_cases specs c : offer_q specs c = fneg1 \/ In (offer_q specs c) (eff_qs specs c).
Proof.
  unfold offer_q, eff_qs. pose proof (offer_fold_inv c specs) as [It If].
  destruct (fold_left (offer_step c) specs (fneg1, false)) as [q ex]. simpl in *.
  destruct ex.
  - destruct (It eq_refl) as [N I]. right. destruct (explicit_qs specs c); [contradiction N; reflexivity | exact I].
  - destruct (If eq_refl) as [N D]. rewrite N. exact D.
Qed.

Lemma eff_qs_nonneg specs c q : (forall a, In a specs -> nonneg a) -> In q (eff_qs specs c) -> flt q pzero = false.
Proof.
  intros H I. assert (K : forall c', In q (explicit_qs specs c') -> flt q pzero = false).
  { intros c' J. unfold explicit_qs in J. apply in_map_iff in J. destruct J as (a & <- & J).
    apply filter_In in J. apply H. exact (proj1 J). }
  unfold eff_qs in I. destruct (explicit_qs specs c) eqn:E; [apply (K s_star I) | apply (K c); rewrite E; exact I].
Qed.

(* invariant of the outer loop over the offers *)
Lemma nego_fold_inv specs : forall offers,
  let st := fold_left (nego_step specs) offers (s_identity, fneg1) in
  (st = (s_identity, fneg1)) \/ (In (fst st) offers /\ snd st = offer_q specs (fst st) /\ fgt (snd st) fneg1 = true).
Proof.
  intros offers. induction offers as [|o offers IH] using rev_ind; simpl; [left; reflexivity|].
  rewrite fold_left_app. simpl. destruct (fold_left (nego_step specs) offers (s_identity, fneg1)) as [b bq].
  unfold nego_step. simpl. destruct (fgt (offer_q specs o) bq) eqn:G.
  - right. simpl. split; [apply in_or_app; right; left; reflexivity|]. split; [reflexivity|].
    simpl in IH. destruct IH as [IH | (_ & _ & IH)].
    + inversion IH; subst. exact G.
    + unfold fgt in *. eapply flt_trans; eassumption.
  - simpl in IH. destruct IH as [IH | (I & Q & P)]; [left; exact IH|]. right. simpl.
    split; [apply in_or_app; left; exact I|]. split; assumption.
Qed.

Lemma negotiate_ce_sound specs offers : (forall a, In a specs -> nonneg a) ->
  let c := negotiate_ce specs offers in
  c = [] \/ c = s_identity \/ (In c offers /\ accepted_nonzero specs c = true).
Proof.
  intros H. unfold negotiate_ce. pose proof (nego_fold_inv specs offers) as I. simpl in I.
  destruct (fold_left (nego_step specs) offers (s_identity, fneg1)) as [b bq]. simpl in I.
  destruct (feq bq pzero) eqn:Z; [left; reflexivity|]. right.
  destruct I as [I | (I & Q & P)]; [left; inversion I; reflexivity|]. right. split; [exact I|].
  destruct (offer_q_cases specs b) as [C|C].
  - rewrite C in Q. rewrite Q in P. unfold fgt in P. rewrite flt_irrefl in P. discriminate.
  - unfold accepted_nonzero. apply existsb_exists. exists bq. rewrite Q. split; [exact C|]. rewrite <- Q.
    apply pos_of_nonneg_nonzero; [exact P | | exact Z]. eapply eff_qs_nonneg; [exact H | rewrite Q; exact C].
Qed.

(* ------------------------------------------------------------------ the handler *)
Section H.
  Variable fam : Type.
  Implicit Types i : hin fam.

  Definition comps_of i := compressions (h_disable i) (h_offered i) (h_zstd i).

  (* what negotiateEncodingWriter + the fallback leave in the Content-Encoding header *)
  Definition cenc_of i : option str :=
    let '(w0, hdr0, err) := negotiate_writer (h_ae i) (comps_of i) (h_zstd i) in
    let hdr := if err then s_identity else hdr0 in
    if str_eqb hdr s_identity then None else Some hdr.
  Definition writer_of i : coding :=
    let '(w0, hdr0, err) := negotiate_writer (h_ae i) (comps_of i) (h_zstd i) in if err then CId else w0.

  Lemma str_eqb_sym a b : str_eqb a b = str_eqb b a.
  Proof.
    destruct (str_eqb a b) eqn:E.
    - apply str_eqb_eq in E. subst. symmetry. apply str_eqb_refl.
    - symmetry. apply str_eqb_neq. apply str_eqb_neq in E. congruence.
  Qed.

  (* header and writer always agree: gzip <-> CGzip, zstd <-> CZstd (only with a working zstd writer), none <-> identity *)
  Lemma cenc_writer_agree i :
    (cenc_of i = None /\ writer_of i = CId) \/
    (cenc_of i = Some s_gzip /\ writer_of i = CGzip) \/
    (cenc_of i = Some s_zstd /\ writer_of i = CZstd /\ h_zstd i = ZOk).
  Proof.
    unfold cenc_of, writer_of, negotiate_writer.
    destruct (comps_of i) as [|c0 cs] eqn:C; [left; split; reflexivity|].
    set (sel := negotiate_ce (parse_accept (h_ae i)) (c0 :: cs)).
    destruct (str_eqb sel s_zstd) eqn:Z.
    - apply str_eqb_eq in Z. rewrite Z. destruct (h_zstd i); simpl.
      + left; split; reflexivity.
      + right; right. repeat split; reflexivity.
      + left; split; reflexivity.
    - destruct (str_eqb sel s_gzip) eqn:G.
      + apply str_eqb_eq in G. rewrite G. right; left. split; reflexivity.
      + destruct (str_eqb sel s_identity) eqn:I; simpl.
        * rewrite I. left; split; reflexivity.
        * left; split; reflexivity.
  Qed.

  Lemma cenc_of_selected i c : cenc_of i = Some c ->
    comps_of i <> [] /\ c = negotiate_ce (parse_accept (h_ae i)) (comps_of i) /\ (c = s_gzip \/ c = s_zstd).
  Proof.
    unfold cenc_of, negotiate_writer.
    destruct (comps_of i) as [|c0 cs] eqn:C; [simpl; discriminate|].
    set (sel := negotiate_ce (parse_accept (h_ae i)) (c0 :: cs)).
    destruct (str_eqb sel s_zstd) eqn:Z.
    - apply str_eqb_eq in Z. destruct (h_zstd i); simpl; try discriminate.
      rewrite Z. simpl. intros E. inversion E. split; [discriminate|]. split; [reflexivity | right; reflexivity].
    - destruct (str_eqb sel s_gzip) eqn:G.
      + apply str_eqb_eq in G. rewrite G. simpl. intros E. inversion E. split; [discriminate|]. split; [reflexivity | left; reflexivity].
      + destruct (str_eqb sel s_identity) eqn:I; simpl; [rewrite I|]; discriminate.
  Qed.

  Lemma cenc_of_allowed i :
    cenc_allowed (h_disable i) (comps_of i) (parse_accept (h_ae i)) (cenc_of i) = true.
  Proof.
    destruct (cenc_of i) as [c|] eqn:E; [|reflexivity]. simpl.
    destruct (cenc_of_selected i c E) as (N & S & K).
    assert (D : h_disable i = false).
    { destruct (h_disable i) eqn:D; [|reflexivity]. exfalso. apply N. unfold comps_of, compressions. rewrite D. reflexivity. }
    rewrite D. simpl.
    pose proof (negotiate_ce_sound (parse_accept (h_ae i)) (comps_of i)
                  (fun a Ha => parse_accept_nonneg_lemma (h_ae i) a Ha)) as Snd.
    simpl in Snd. rewrite <- S in Snd.
    assert (G : (str_eqb c s_gzip || str_eqb c s_zstd) = true).
    { destruct K as [K|K]; rewrite K; reflexivity. }
    destruct Snd as [Snd | [Snd | [Snd1 Snd2]]].
    - destruct K as [K|K]; rewrite K in Snd; discriminate.
    - destruct K as [K|K]; rewrite K in Snd; discriminate.
    - rewrite G, Snd2. apply str_in_In in Snd1. rewrite Snd1. reflexivity.
  Qed.

  (* ---- the encoder loop ---- *)
  Inductive sub {A} : list A -> list A -> Prop :=
  | sub_nil l : sub [] l
  | sub_take x a b : sub a b -> sub (x :: a) (x :: b)
  | sub_skip y a b : sub a b -> sub a (y :: b).

  Lemma sub_refl {A} (l : list A) : sub l l.
  Proof. induction l; constructor; assumption. Qed.

  Definition nfails (encfail : fam -> bool) (mfs : list fam) : Z := count_true encfail mfs.

  Lemma count_true_cons {A} (f : A -> bool) x l : count_true f (x :: l) = (if f x then 1 else 0) + count_true f l.
  Proof. unfold count_true. simpl. destruct (f x); simpl length; lia. Qed.
  Lemma count_true_nonneg {A} (f : A -> bool) l : 0 <= count_true f l.
  Proof. unfold count_true. lia. Qed.

  (* ContinueOnError (and unknown policies): every family is attempted, every failure counted *)
  Lemma enc_loop_continue pol encfail mfs : pol = PContinue \/ pol = POther ->
    enc_loop pol encfail mfs = (filter (fun f => negb (encfail f)) mfs, nfails encfail mfs, LNormal).
  Proof.
    intros P. induction mfs as [|mf r IH]; [reflexivity|].
    simpl. unfold nfails in *. rewrite count_true_cons. rewrite IH.
    destruct (encfail mf); simpl; destruct P; subst pol; f_equal; f_equal; lia.
  Qed.

  (* no failing family: everything is encoded, for every policy *)
  Lemma enc_loop_clean pol encfail mfs : nfails encfail mfs = 0 -> enc_loop pol encfail mfs = (mfs, 0, LNormal).
  Proof.
    induction mfs as [|mf r IH]; [reflexivity|]. unfold nfails in *. rewrite count_true_cons.
    pose proof (count_true_nonneg encfail r). simpl. destruct (encfail mf); [lia|]. intros E. rewrite IH by lia. reflexivity.
  Qed.

  (* HTTPErrorOnError / PanicOnError: stop at the first failure, which is counted once *)
  Lemma enc_loop_stop pol encfail mfs : pol = PHttpError \/ pol = PPanic -> nfails encfail mfs <> 0 ->
    exists l, enc_loop pol encfail mfs = (l, 1, match pol with PPanic => LPanic | _ => LAbort end) /\ sub l mfs.
  Proof.
    intros P. induction mfs as [|mf r IH]; [intros N; exfalso; apply N; reflexivity|].
    unfold nfails in *. rewrite count_true_cons. simpl. destruct (encfail mf).
    - intros _. exists []. split; [destruct P; subst pol; reflexivity | constructor].
    - intros N. destruct IH as (l & E & S); [lia|]. rewrite E. exists (mf :: l). split; [reflexivity | constructor; exact S].
  Qed.

  Lemma enc_loop_sub pol (encfail : fam -> bool) (mfs : list fam) : sub (fst (fst (enc_loop pol encfail mfs))) mfs.
  Proof.
    induction mfs as [|mf r IH]; [constructor|]. simpl.
    destruct (enc_loop pol encfail r) as [[l e] x]. simpl in IH.
    destruct (encfail mf); [destruct pol; simpl; constructor; exact IH || constructor | simpl; constructor; exact IH].
  Qed.
End H.

(* ------------------------------------------------------------------ handle, rewritten by cases *)
Section H2.
  Variable fam : Type.
  Implicit Types i : hin fam.

  (* the gather error ends the request before anything is encoded *)
  Definition stops i : bool :=
    h_gerr i && match h_policy i with
                | PPanic | PHttpError => true
                | PContinue => match h_mfs i with [] => true | _ => false end
                | POther => false
                end.

  Definition served_out i : hout fam :=
    let g := if h_gerr i then 1 else 0 in
    let '(l, e, x) := enc_loop (h_policy i) (h_encfail i) (h_mfs i) in
    let mk := mkOut 200 (Some (h_ct i)) (cenc_of fam i) false (writer_of fam i) l in
    match x with
    | LPanic => mk false g e 1 1 true
    | LAbort => mk false g e 1 1 false
    | LNormal =>
        if h_closefail i then
          match h_policy i with PPanic => mk false g (e + 1) 1 1 true | _ => mk false g (e + 1) 1 1 false end
        else mk true g e 1 1 false
    end.

  Lemma handle_eq i :
    handle i = if negb (sem_admits (h_limit i) (h_inflight i)) then out503
               else if stops i then match h_policy i with PPanic => out_gather_panic | _ => out500 end
               else served_out i.
  Proof.
    unfold handle, stops, served_out, cenc_of, writer_of, comps_of.
    destruct (sem_admits (h_limit i) (h_inflight i)); [|reflexivity]. cbv [negb].
    destruct (negotiate_writer (h_ae i) (compressions (h_disable i) (h_offered i) (h_zstd i)) (h_zstd i)) as [[w0 hdr0] err].
    destruct (h_gerr i); [destruct (h_policy i); try reflexivity; destruct (h_mfs i); reflexivity | reflexivity].
  Qed.

  (* ---- excess requests ---- *)
  Lemma rejected_lemma i : sem_admits (h_limit i) (h_inflight i) = false -> handle i = out503.
  Proof. intros A. rewrite handle_eq, A. reflexivity. Qed.

  (* ---- done() and Gather() exactly once on every path that passed the semaphore ---- *)
  Lemma served_out_fields i :
    o_done (served_out i) = 1 /\ o_gathers (served_out i) = 1 /\ o_gathering (served_out i) = (if h_gerr i then 1 else 0) /\
    o_status (served_out i) = 200 /\ o_cenc (served_out i) = cenc_of fam i /\ o_plain (served_out i) = false /\
    o_ctype (served_out i) = Some (h_ct i).
  Proof.
    unfold served_out. destruct (enc_loop (h_policy i) (h_encfail i) (h_mfs i)) as [[encd ecnt] xx].
    destruct xx; [destruct (h_closefail i); [destruct (h_policy i)|]| |]; repeat split; reflexivity.
  Qed.

  Lemma done_once_lemma i : sem_admits (h_limit i) (h_inflight i) = true ->
    o_done (handle i) = 1 /\ o_gathers (handle i) = 1 /\ o_gathering (handle i) = (if h_gerr i then 1 else 0).
  Proof.
    intros A. rewrite handle_eq, A. cbv [negb]. destruct (stops i) eqn:S.
    - unfold stops in S. apply andb_true_iff in S. destruct S as [G _]. rewrite G.
      destruct (h_policy i); repeat split; reflexivity.
    - destruct (served_out_fields i) as (D & Gs & Gc & _). repeat split; assumption.
  Qed.

  Definition is_err500 (o : hout fam) : Prop :=
    o_status o = 500 /\ o_plain o = true /\ o_cenc o = None /\ o_ctype o = None /\ o_encoded o = [] /\
    o_panic o = false /\ o_gathering o = 1 /\ o_encoding o = 0 /\ o_done o = 1.

  (* how often the "encoding" counter must move: once per failing Encode/Close call that happens *)
  Definition spec_encoding_count i : Z :=
    let cf := if h_closefail i then 1 else 0 in
    let n := nfails fam (h_encfail i) (h_mfs i) in
    match h_policy i with
    | PContinue | POther => n + cf
    | _ => if n =? 0 then cf else 1
    end.

  Lemma policy_table_lemma i : sem_admits (h_limit i) (h_inflight i) = true -> h_gerr i = true ->
    match h_policy i with
    | PHttpError => is_err500 (handle i)
    | PContinue =>
        match h_mfs i with
        | [] => is_err500 (handle i)
        | _ => o_status (handle i) = 200 /\ o_plain (handle i) = false /\ o_panic (handle i) = false /\
               o_encoded (handle i) = filter (fun f => negb (h_encfail i f)) (h_mfs i) /\
               o_gathering (handle i) = 1 /\ o_encoding (handle i) = spec_encoding_count i /\ o_done (handle i) = 1 /\
               (spec_encoding_count i = 0 -> o_encoded (handle i) = h_mfs i /\ o_closed (handle i) = true)
        end
    | PPanic => o_panic (handle i) = true /\ o_encoded (handle i) = [] /\ o_gathering (handle i) = 1 /\
                o_encoding (handle i) = 0 /\ o_done (handle i) = 1
    | POther => True
    end.
  Proof.
    intros A G. rewrite handle_eq, A. cbv [negb]. unfold stops. rewrite G. simpl.
    destruct (h_policy i) eqn:P; try (repeat split; reflexivity).
    destruct (h_mfs i) as [|m r] eqn:M; [repeat split; reflexivity|]. rewrite <- M.
    unfold served_out, spec_encoding_count. rewrite P, G.
    rewrite (enc_loop_continue fam PContinue (h_encfail i) (h_mfs i)) by (left; reflexivity).
    pose proof (count_true_nonneg (h_encfail i) (h_mfs i)) as NN. fold (nfails fam (h_encfail i) (h_mfs i)) in NN.
    assert (K : nfails fam (h_encfail i) (h_mfs i) = 0 -> filter (fun f => negb (h_encfail i f)) (h_mfs i) = h_mfs i).
    { intros Z1. pose proof (enc_loop_continue fam PContinue (h_encfail i) (h_mfs i) (or_introl eq_refl)) as E.
      rewrite (enc_loop_clean fam PContinue _ _ Z1) in E. inversion E. congruence. }
    destruct (h_closefail i); cbn; repeat match goal with |- _ /\ _ => split end; try reflexivity.
    - intros Z0. exfalso. lia.
    - lia.
    - intros Z0. split; [apply K; lia | reflexivity].
  Qed.

  (* a successful gather, or a tolerated partial one: what is served *)
  Lemma served_lemma i : sem_admits (h_limit i) (h_inflight i) = true -> stops i = false ->
    handle i = served_out i.
  Proof. intros A S. rewrite handle_eq, A, S. reflexivity. Qed.

  Lemma encoding_count_lemma i : sem_admits (h_limit i) (h_inflight i) = true -> stops i = false ->
    o_encoding (handle i) = spec_encoding_count i.
  Proof.
    intros A S. rewrite served_lemma by assumption. unfold served_out, spec_encoding_count.
    pose proof (count_true_nonneg (h_encfail i) (h_mfs i)) as NN. fold (nfails fam (h_encfail i) (h_mfs i)) in NN.
    destruct (nfails fam (h_encfail i) (h_mfs i) =? 0) eqn:Z0.
    - apply Z.eqb_eq in Z0. rewrite (enc_loop_clean fam _ _ _ Z0). rewrite Z0.
      destruct (h_closefail i); destruct (h_policy i); reflexivity.
    - apply Z.eqb_neq in Z0. destruct (h_policy i) eqn:P.
      + destruct (enc_loop_stop fam PHttpError (h_encfail i) (h_mfs i) (or_introl eq_refl) Z0) as (l & E & _). rewrite E. reflexivity.
      + rewrite (enc_loop_continue fam PContinue) by (left; reflexivity). destruct (h_closefail i); simpl; lia.
      + destruct (enc_loop_stop fam PPanic (h_encfail i) (h_mfs i) (or_intror eq_refl) Z0) as (l & E & _). rewrite E. reflexivity.
      + rewrite (enc_loop_continue fam POther) by (right; reflexivity). destruct (h_closefail i); simpl; lia.
  Qed.

  (* ---- Content-Encoding clauses ---- *)
  Lemma handle_cenc i : o_cenc (handle i) = None \/ o_cenc (handle i) = cenc_of fam i.
  Proof.
    rewrite handle_eq. destruct (negb (sem_admits (h_limit i) (h_inflight i))); [left; reflexivity|].
    destruct (stops i); [left; destruct (h_policy i); reflexivity|]. right. apply (served_out_fields i).
  Qed.

  Lemma chosen_encoding_lemma i :
    cenc_allowed (h_disable i) (compressions (h_disable i) (h_offered i) (h_zstd i)) (parse_accept (h_ae i)) (o_cenc (handle i)) = true.
  Proof.
    destruct (handle_cenc i) as [E|E]; rewrite E; [reflexivity | apply cenc_of_allowed].
  Qed.

  Lemma no_encoding_lemma i :
    (h_disable i = true \/
     (forall c, In c (compressions (h_disable i) (h_offered i) (h_zstd i)) -> c = s_gzip \/ c = s_zstd ->
                accepted_nonzero (parse_accept (h_ae i)) c = false) \/
     o_status (handle i) <> 200) ->
    o_cenc (handle i) = None.
  Proof.
    intros H. pose proof (chosen_encoding_lemma i) as A.
    destruct (o_cenc (handle i)) as [c|] eqn:E; [exfalso|reflexivity]. simpl in A.
    apply andb_true_iff in A. destruct A as [A A4]. apply andb_true_iff in A. destruct A as [A A3].
    apply andb_true_iff in A. destruct A as [A1 A2].
    destruct H as [H | [H | H]].
    - rewrite H in A1. discriminate.
    - apply str_in_In in A2. apply orb_true_iff in A3.
      rewrite (H c A2) in A4; [discriminate|]. destruct A3 as [A3|A3]; apply str_eqb_eq in A3; [left|right]; exact A3.
    - apply H. revert E. rewrite handle_eq.
      destruct (negb (sem_admits (h_limit i) (h_inflight i))); [intros E; change (@None str = Some c) in E; discriminate E|].
      destruct (stops i); [destruct (h_policy i); intros E; change (@None str = Some c) in E; discriminate E|]. intros _.
      apply (served_out_fields i).
  Qed.

  (* ---- the body ---- *)
  Section Body.
    Variable bytes : Type.
    Variables (encode encode_open : str -> list fam -> bytes) (error_text : bytes) (gz zs ungz unzs : bytes -> bytes).
    Variable decode : str -> bytes -> list fam.
    Hypothesis gz_inv : forall b, ungz (gz b) = b.
    Hypothesis zs_inv : forall b, unzs (zs b) = b.
    Hypothesis codec_inv : forall ct fs, decode ct (encode ct fs) = fs.

    Lemma unwrap_wrap i b : unwrap ungz unzs (cenc_of fam i) (wrap gz zs (writer_of fam i) b) = Some b.
    Proof.
      destruct (cenc_writer_agree fam i) as [[C W] | [[C W] | [C [W _]]]]; rewrite C, W; simpl.
      - reflexivity.
      - rewrite gz_inv. reflexivity.
      - rewrite zs_inv. reflexivity.
    Qed.

    Lemma body_lemma i : sem_admits (h_limit i) (h_inflight i) = true ->
      (h_gerr i = false \/ (h_policy i = PContinue /\ h_mfs i <> [])) ->
      (forall f, In f (h_mfs i) -> h_encfail i f = false) -> h_closefail i = false ->
      let o := handle i in
      o_status o = 200 /\ o_ctype o = Some (h_ct i) /\ o_panic o = false /\
      option_map (decode (h_ct i)) (unwrap ungz unzs (o_cenc o) (body encode encode_open error_text gz zs i o)) = Some (h_mfs i).
    Proof.
      intros A S F C. assert (St : stops i = false).
      { unfold stops. destruct S as [S | [S1 S2]]; [rewrite S; reflexivity|]. rewrite S1. destruct (h_mfs i); [contradiction S2; reflexivity|].
        apply andb_false_r. }
      assert (N : nfails fam (h_encfail i) (h_mfs i) = 0).
      { clear - F. revert F. generalize (h_mfs i) as l. unfold nfails, count_true.
        induction l as [|m r IH]; intros F; [reflexivity|]. simpl. rewrite (F m (or_introl eq_refl)). apply IH.
        intros f Hf. apply F. right. exact Hf. }
      simpl. rewrite served_lemma by assumption. unfold served_out. rewrite (enc_loop_clean fam _ _ _ N), C. simpl.
      repeat split; try reflexivity. unfold body. simpl. rewrite unwrap_wrap. simpl. rewrite codec_inv. reflexivity.
    Qed.
  End Body.
End H2.

(* ------------------------------------------------------------------ the model satisfies the executable specification *)
Lemma zs_eqb_refl l : zs_eqb l l = true.
Proof. induction l; simpl; [reflexivity|]. rewrite Z.eqb_refl. exact IHl. Qed.

Lemma subseq_b_tail x a b : subseq_b (x :: a) b = true -> subseq_b a b = true.
Proof.
  revert x a. induction b as [|y b IH]; intros x a H; simpl in H; [discriminate|].
  destruct a as [|x' a]; [reflexivity|]. simpl. destruct (x =? y).
  - destruct (x' =? y); [eapply IH; exact H | exact H].
  - destruct (x' =? y); [eapply IH; eapply IH; exact H | eapply IH; exact H].
Qed.

Lemma subseq_b_of_sub a b : sub a b -> subseq_b a b = true.
Proof.
  induction 1 as [l | x a b _ IH | y a b _ IH].
  - destruct l; reflexivity.
  - simpl. rewrite Z.eqb_refl. exact IH.
  - destruct a as [|x a]; [reflexivity|]. simpl. destruct (x =? y); [eapply subseq_b_tail; exact IH | exact IH].
Qed.

Lemma sub_map {A B} (f : A -> B) a b : sub a b -> sub (map f a) (map f b).
Proof. induction 1; simpl; constructor; assumption. Qed.

Local Notation F := (Z * bool)%type.

Lemma counters_obs (i : hin F) tr rg (o : hout F) g e :
  o_gathering o = g -> o_encoding o = e -> counters_are (obs_of i tr rg o) g e = true.
Proof.
  intros <- <-. unfold counters_are, obs_of. simpl. destruct rg; [rewrite !Z.eqb_refl|]; reflexivity.
Qed.

Lemma served_ok (i : hin F) tr rg : spec_served i (obs_of i tr rg (served_out F i)) = true.
Proof.
  unfold spec_served, spec_nfail, served_out.
  pose proof (count_true_nonneg (h_encfail i) (h_mfs i)) as NN.
  pose proof (cenc_of_allowed F i) as CA. unfold comps_of in CA.
  pose proof (enc_loop_sub F (h_policy i) (h_encfail i) (h_mfs i)) as SUB.
  pose proof (enc_loop_clean F (h_policy i) (h_encfail i) (h_mfs i)) as CLEAN.
  pose proof (enc_loop_stop F (h_policy i) (h_encfail i) (h_mfs i)) as STOP.
  pose proof (enc_loop_continue F (h_policy i) (h_encfail i) (h_mfs i)) as CONT.
  assert (FLT : count_true (h_encfail i) (h_mfs i) = 0 -> filter (fun f : F => negb (h_encfail i f)) (h_mfs i) = h_mfs i).
  { intros Z0. pose proof (enc_loop_continue F PContinue (h_encfail i) (h_mfs i) (or_introl eq_refl)) as E1.
    rewrite (enc_loop_clean F PContinue _ _ Z0) in E1. inversion E1. congruence. }
  unfold nfails in CLEAN, STOP, CONT.
  set (n := count_true (h_encfail i) (h_mfs i)) in *.
  set (flt' := filter (fun f : F => negb (h_encfail i f)) (h_mfs i)) in *.
  destruct (enc_loop (h_policy i) (h_encfail i) (h_mfs i)) as [[l e] x]. simpl in SUB.
  apply (sub_map fst) in SUB. apply subseq_b_of_sub in SUB.
  destruct (n =? 0) eqn:N0.
  - (* no Encode call fails *)
    apply Z.eqb_eq in N0. specialize (CLEAN N0). inversion CLEAN; subst l e x. rewrite N0. rewrite Z.add_0_l. rewrite (FLT N0). clear STOP CONT CLEAN.
    destruct (h_closefail i) eqn:C.
    + destruct (h_policy i) eqn:P; cbn; rewrite ?str_eqb_refl, ?CA, ?SUB, ?zs_eqb_refl; cbn;
        rewrite counters_obs by reflexivity; reflexivity.
    + cbn. rewrite str_eqb_refl, CA, SUB, zs_eqb_refl. cbn. rewrite counters_obs by reflexivity. reflexivity.
  - apply Z.eqb_neq in N0. clear CLEAN.
    assert (NZ : (n + (if h_closefail i then 1 else 0) =? 0) = false) by (apply Z.eqb_neq; destruct (h_closefail i); lia).
    rewrite NZ.
    destruct (h_policy i) eqn:P.
    + destruct (STOP (or_introl eq_refl) N0) as (l' & E & _). inversion E; subst l' e x. clear STOP CONT.
      cbn. rewrite str_eqb_refl, CA, SUB. cbn. rewrite counters_obs by reflexivity. reflexivity.
    + specialize (CONT (or_introl eq_refl)). inversion CONT; subst l e x. clear STOP CONT.
      destruct (h_closefail i); cbn; rewrite str_eqb_refl, CA, SUB, zs_eqb_refl; cbn;
        rewrite counters_obs; try reflexivity; cbn; lia.
    + destruct (STOP (or_intror eq_refl) N0) as (l' & E & _). inversion E; subst l' e x. clear STOP CONT.
      cbn. rewrite counters_obs by reflexivity. reflexivity.
    + specialize (CONT (or_intror eq_refl)). inversion CONT; subst l e x. clear STOP CONT.
      destruct (h_closefail i); cbn; rewrite str_eqb_refl, CA, SUB, zs_eqb_refl; cbn;
        rewrite counters_obs; try reflexivity; cbn; lia.
Qed.

Lemma served_out_calls (i : hin F) : o_gathers (served_out F i) = 1 /\ o_done (served_out F i) = 1.
Proof.
  unfold served_out. destruct (enc_loop _ _ _) as [[l e] x]. destruct x; try destruct (h_closefail i); try destruct (h_policy i); split; reflexivity.
Qed.

Lemma handle_satisfies_spec_lemma : forall (i : hin F) tr rg, spec_ok i (obs_of i tr rg (handle i)) = true.
Proof.
  intros i tr rg. unfold spec_ok. rewrite handle_eq. unfold sem_admits. rewrite negb_involutive.
  destruct ((0 <? h_limit i) && (h_limit i <=? h_inflight i)).
  - unfold counters_are, no_cenc, obs_of. simpl. destruct rg; reflexivity.
  - destruct (stops F i) eqn:S.
    + unfold stops in S. destruct (h_gerr i); [|discriminate S].
      destruct (h_policy i); [| destruct (h_mfs i); [|discriminate S] | | discriminate S];
        unfold spec_err500, counters_are, no_cenc, obs_of; simpl; destruct rg; reflexivity.
    + destruct (served_out_calls i) as [A B].
      replace (b_gathers (obs_of i tr rg (served_out F i))) with (o_gathers (served_out F i)) by reflexivity.
      replace (b_done (obs_of i tr rg (served_out F i))) with (o_done (served_out F i)) by reflexivity.
      rewrite A, B. change ((1 =? 1) && (1 =? 1)) with true. cbv [andb].
      unfold stops in S. destruct (h_gerr i); [|apply served_ok].
      destruct (h_policy i); [discriminate S | | discriminate S | reflexivity].
      destruct (h_mfs i) eqn:M; [discriminate S|]. apply served_ok.
Qed.

(* ------------------------------------------------------------------ the in-flight semaphore *)
Lemma runl_cons p l : runl (p :: l) = (if isrun p then 1 else 0) + runl l.
Proof. unfold runl. simpl. destruct (isrun p); simpl length; lia. Qed.

Lemma runl_nonneg l : 0 <= runl l.
Proof. unfold runl. lia. Qed.

Lemma runl_finish t l : tlookup t l = Some TRunning -> runl (tset t TFinished l) = runl l - 1.
Proof.
  induction l as [|[u s] l IH]; simpl; [discriminate|].
  destruct (u =? t) eqn:E.
  - intros H. inversion H; subst s. rewrite !runl_cons. unfold isrun. simpl. lia.
  - intros H. rewrite !runl_cons. rewrite IH by exact H. lia.
Qed.

Lemma tlookup_tset t s l : tlookup t l <> None -> tlookup t (tset t s l) = Some s.
Proof.
  induction l as [|[u s'] l IH]; simpl; [congruence|].
  destruct (u =? t) eqn:E; simpl; rewrite E; [reflexivity | exact IH].
Qed.

Record sem_inv (limit : Z) (m : sem) : Prop := mkInv {
  inv_count : m_count m = if 0 <? limit then running m else 0;
  inv_bound : 0 < limit -> running m <= limit;
  inv_calls : m_gathers m = m_dones m + running m;
  inv_peak : 0 < limit -> m_peak m <= limit;
  inv_peak0 : 0 <= m_peak m;
  inv_nolimit : limit <= 0 -> m_503 m = 0
}.

Lemma sem_admits_true limit c : sem_admits limit c = true -> 0 < limit -> c < limit.
Proof.
  unfold sem_admits. intros H L. destruct (0 <? limit) eqn:A; [|apply Z.ltb_ge in A; lia].
  destruct (limit <=? c) eqn:B; [discriminate H | apply Z.leb_gt in B; exact B].
Qed.

Lemma sem_admits_false limit c : sem_admits limit c = false -> 0 < limit /\ limit <= c.
Proof.
  unfold sem_admits. destruct (0 <? limit) eqn:A; destruct (limit <=? c) eqn:B; try discriminate.
  intros _. split; [apply Z.ltb_lt; exact A | apply Z.leb_le; exact B].
Qed.

Lemma sem_step_inv limit m e : sem_inv limit m -> sem_inv limit (sem_step limit m e).
Proof.
  intros [Ic Ib Ig Ip Ip0 In]. unfold running in *. destruct e as [t | t p | t]; simpl; [| | constructor; assumption].
  - destruct (tlookup t (m_threads m)); [constructor; assumption|].
    destruct (sem_admits limit (m_count m)) eqn:A.
    + assert (R : runl ((t, TRunning) :: m_threads m) = runl (m_threads m) + 1) by (rewrite runl_cons; unfold isrun; simpl; lia).
      destruct (0 <? limit) eqn:Q.
      * pose proof Q as Q'. apply Z.ltb_lt in Q. pose proof (sem_admits_true _ _ A Q) as K. specialize (Ib Q). specialize (Ip Q).
        constructor; unfold running; simpl; rewrite ?Q', ?R; intros; lia.
      * pose proof Q as Q'. apply Z.ltb_ge in Q. constructor; unfold running; simpl; rewrite ?Q', ?R; intros; try lia; try (apply In; assumption).
    + destruct (sem_admits_false _ _ A) as [L _].
      assert (R : runl ((t, TRejected) :: m_threads m) = runl (m_threads m)) by (rewrite runl_cons; reflexivity).
      constructor; unfold running; simpl; rewrite ?R; try assumption. intros; lia.
  - destruct (tlookup t (m_threads m)) as [[| |]|] eqn:T; try (constructor; assumption).
    pose proof (runl_finish t _ T) as R.
    assert (P : 1 <= runl (m_threads m)).
    { clear - T. induction (m_threads m) as [|[u s] l IH]; simpl in T; [discriminate|]. rewrite runl_cons.
      pose proof (runl_nonneg l). destruct (u =? t); [inversion T; subst; unfold isrun; simpl; lia | specialize (IH T); destruct (isrun (u, s)); lia]. }
    destruct (0 <? limit) eqn:Q.
    + pose proof Q as Q'. apply Z.ltb_lt in Q. specialize (Ib Q). specialize (Ip Q).
      constructor; unfold running; simpl; rewrite ?Q', ?R; intros; lia.
    + pose proof Q as Q'. apply Z.ltb_ge in Q. constructor; unfold running; simpl; rewrite ?Q', ?R; intros; try lia; try (apply In; assumption).
Qed.

Lemma sem_inv0 limit : sem_inv limit sem0.
Proof. constructor; unfold running, runl; simpl; intros; try reflexivity; try lia. destruct (0 <? limit); reflexivity. Qed.

Lemma sem_run_inv limit es : sem_inv limit (sem_run limit es).
Proof.
  unfold sem_run. generalize sem0 (sem_inv0 limit). induction es as [|e es IH]; intros m I; simpl; [exact I|].
  apply IH. apply sem_step_inv. exact I.
Qed.

(* for every schedule: never more than [limit] gathers at a time, every gather is matched by one done() *)
Lemma inflight_bounded_lemma : forall limit es, 0 < limit ->
  let m := sem_run limit es in
  running m <= limit /\ m_peak m <= limit /\ m_count m = running m /\ m_gathers m = m_dones m + running m.
Proof.
  intros limit es L. destruct (sem_run_inv limit es) as [Ic Ib Ig Ip _ _]. simpl.
  assert (Q : (0 <? limit) = true) by (apply Z.ltb_lt; exact L). rewrite Q in Ic. auto.
Qed.

(* a request arriving while [limit] gathers run is rejected and gathers nothing; otherwise it is let in *)
Lemma excess_rejected_lemma : forall limit es t, 0 < limit ->
  let m := sem_run limit es in
  tlookup t (m_threads m) = None ->
  let m' := sem_step limit m (Start t) in
  (running m = limit -> m_503 m' = m_503 m + 1 /\ m_gathers m' = m_gathers m /\ m_dones m' = m_dones m /\
                        tlookup t (m_threads m') = Some TRejected) /\
  (running m < limit -> m_503 m' = m_503 m /\ m_gathers m' = m_gathers m + 1 /\ tlookup t (m_threads m') = Some TRunning).
Proof.
  intros limit es t L. simpl. intros T. destruct (sem_run_inv limit es) as [Ic _ _ _ _ _].
  assert (Q : (0 <? limit) = true) by (apply Z.ltb_lt; exact L). rewrite Q in Ic.
  rewrite T. unfold sem_admits. rewrite Q, Ic. simpl. split; intros R.
  - assert (B : (limit <=? running (sem_run limit es)) = true) by (apply Z.leb_le; lia). rewrite B. simpl.
    rewrite Z.eqb_refl. repeat split; reflexivity.
  - assert (B : (limit <=? running (sem_run limit es)) = false) by (apply Z.leb_gt; lia). rewrite B. simpl.
    rewrite Z.eqb_refl. repeat split; reflexivity.
Qed.

Lemma no_limit_never_rejects_lemma : forall limit es, limit <= 0 -> m_503 (sem_run limit es) = 0.
Proof. intros limit es L. destruct (sem_run_inv limit es) as [_ _ _ _ _ In]. apply In. exact L. Qed.

(* when every request has left the handler, done() was called exactly once per gather *)
Lemma quiescent_done_lemma : forall limit es, running (sem_run limit es) = 0 ->
  m_dones (sem_run limit es) = m_gathers (sem_run limit es) /\ m_count (sem_run limit es) = 0.
Proof.
  intros limit es R. destruct (sem_run_inv limit es) as [Ic _ Ig _ _ _]. rewrite R in *. split; [lia|].
  destruct (0 <? limit); exact Ic.
Qed.

(* the machine's per-event outcomes pass the schedule specification, for every schedule *)
Lemma sem_outcomes_spec limit : forall es m, sem_inv limit m ->
  spec_sched limit (m_threads m) es (sem_outcomes limit m es) = true.
Proof.
  induction es as [|e es IH]; intros m I; [reflexivity|].
  pose proof (sem_step_inv limit m e I) as I'. specialize (IH _ I').
  destruct I as [Ic _ _ _ _ _]. unfold running in Ic.
  destruct e as [t | t p | t]; cbn [sem_outcomes spec_sched sem_step] in IH |- *.
  - destruct (tlookup t (m_threads m)) eqn:T.
    + simpl. exact IH.
    + destruct (sem_admits limit (m_count m)) eqn:A; simpl in IH |- *.
      * rewrite IH, andb_true_r. destruct (limit <=? 0) eqn:L; [reflexivity|]. apply Z.leb_gt in L.
        pose proof (sem_admits_true _ _ A L) as K. assert (Q : (0 <? limit) = true) by (apply Z.ltb_lt; exact L).
        rewrite Q in Ic. simpl. apply Z.ltb_lt. lia.
      * rewrite IH, andb_true_r. destruct (sem_admits_false _ _ A) as [L K].
        assert (Q : (0 <? limit) = true) by (apply Z.ltb_lt; exact L). rewrite Q in Ic |- *. simpl. apply Z.leb_le. lia.
  - destruct (tlookup t (m_threads m)) as [[| |]|]; simpl in IH |- *; exact IH.
  - rewrite Z.eqb_refl. simpl. exact IH.
Qed.

Lemma sched_spec_lemma : forall limit es, spec_sched limit [] es (sem_outcomes limit sem0 es) = true.
Proof. intros limit es. exact (sem_outcomes_spec limit es sem0 (sem_inv0 limit)). Qed.

(* ------------------------------------------------------------------ top-level statements *)
Lemma parse_then_negotiate_lemma : forall (vals offers : list str),
  let c := negotiate_ce (parse_accept vals) offers in
  c = [] \/ c = s_identity \/ (In c offers /\ accepted_nonzero (parse_accept vals) c = true).
Proof.
  intros vals offers. apply negotiate_ce_sound. intros a Ha. exact (parse_accept_nonneg_lemma vals a Ha).
Qed.

(* a coding whose effective entries (explicit, else wildcard) are all q=0 is never selected *)
Lemma refused_never_selected_lemma : forall (vals offers : list str) c,
  c <> s_identity -> c <> [] -> accepted_nonzero (parse_accept vals) c = false ->
  negotiate_ce (parse_accept vals) offers <> c.
Proof.
  intros vals offers c N1 N2 R E. destruct (parse_then_negotiate_lemma vals offers) as [H | [H | [_ H]]];
    rewrite E in H; [exact (N2 H) | exact (N1 H) | rewrite R in H; discriminate H].
Qed.

(* ------------------------------------------------------------------ examples: the hypotheses are satisfiable *)
From Coq Require Import Strings.String.
Definition ex_hdr (s : String.string) : list str := [of_string s].
Arguments ex_hdr s%string.

Example ex_explicit_refusal_beats_wildcard :
  negotiate_ce (parse_accept (ex_hdr "gzip;q=0, *;q=0.5")) [s_gzip] = [] /\
  negotiate_ce (parse_accept (ex_hdr "gzip;q=0, *;q=0.5")) [s_gzip; s_zstd] = s_zstd /\
  negotiate_ce (parse_accept (ex_hdr "*;q=0.5, gzip;q=0")) [s_identity; s_gzip; s_zstd] = s_identity /\
  negotiate_ce (parse_accept (ex_hdr "gzip;q=0.5, zstd;q=0.5")) [s_identity; s_gzip; s_zstd] = s_gzip /\
  negotiate_ce (parse_accept (ex_hdr "*;q=0")) [s_identity; s_gzip] = [].
Proof. vm_compute. repeat split; reflexivity. Qed.

Definition ex_in (p : policy) (ae : String.string) (gerr : bool) (mfs : list (Z * bool)) : hin (Z * bool) :=
  mkIn p false [] (ex_hdr ae) ZOk (of_string "text/plain"%string) mfs gerr (@snd Z bool) false 2 0.

Arguments ex_in p ae%string gerr mfs.

Example ex_policy_rows :
  o_status (handle (ex_in PHttpError "gzip" true [(0, false)])) = 500 /\
  o_cenc (handle (ex_in PHttpError "gzip" true [(0, false)])) = None /\
  o_status (handle (ex_in PContinue "gzip" true [(0, false)])) = 200 /\
  o_cenc (handle (ex_in PContinue "gzip" true [(0, false)])) = Some s_gzip /\
  o_encoded (handle (ex_in PContinue "zstd" false [(0, false); (1, true); (2, false)])) = [(0, false); (2, false)] /\
  o_encoding (handle (ex_in PContinue "zstd" false [(0, false); (1, true); (2, false)])) = 1 /\
  o_panic (handle (ex_in PPanic "" true [])) = true /\
  o_status (handle (mkIn PHttpError false [] [] ZOk [] [(0, false)] false (@snd Z bool) false 2 2)) = 503.
Proof. vm_compute. repeat split; reflexivity. Qed.

Example ex_schedule :
  let m := sem_run 2 [Start 1; Start 2; Start 3; End 1 false; Start 4; End 2 true; End 4 false] in
  sem_outcomes 2 sem0 [Start 1; Start 2; Start 3; End 1 false; Start 4; End 2 true; End 4 false] = [1; 1; 2; 0; 1; 0; 0] /\
  m_peak m = 2 /\ m_503 m = 1 /\ m_gathers m = 3 /\ m_dones m = 3 /\ running m = 0.
Proof. vm_compute. repeat split; reflexivity. Qed.

(* Timeout x MaxRequestsInFlight: the timed-out request keeps its slot until its gather returns *)
Example ex_schedule_timeout :
  sem_outcomes 1 sem0 [Start 1; TimedOut 1; Start 2; End 1 false; Start 3; TimedOut 2; End 3 true] = [1; 3; 2; 0; 1; 0; 0] /\
  m_peak (sem_run 1 [Start 1; TimedOut 1; Start 2; End 1 false; Start 3; TimedOut 2; End 3 true]) = 1 /\
  m_503 (sem_run 1 [Start 1; TimedOut 1; Start 2; End 1 false; Start 3; TimedOut 2; End 3 true]) = 1.
Proof. vm_compute. repeat split; reflexivity. Qed.
