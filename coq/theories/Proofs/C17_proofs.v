(* Proofs/C17_proofs.v -- lemmas for C17 (testutil helpers).
   The expfmt encoder/parser are universally quantified (Section variables); what is assumed about
   them is stated as Section hypotheses, so every exported lemma carries them as premises. *)
From Coq Require Import ZArith List Bool Lia.
From Verif Require Import Base.F64 Base.Str Proofs.Str_facts Model.TestUtil.
Import ListNotations.
Open Scope Z_scope.

(* ---------------- filterMetrics = filter by membership ---------------- *)
Lemma names_loop_str_in n ns : names_loop n ns = str_in n ns.
Proof.
  unfold str_in. induction ns as [|x r IH]; simpl; [reflexivity|].
  destruct (str_eqb n x); simpl; [reflexivity|exact IH].
Qed.

Lemma filter_metrics_acc ms ns acc :
  fold_left (fun filtered m => if names_loop (f_name m) ns then filtered ++ [m] else filtered) ms acc
  = acc ++ filter (fun f => str_in (f_name f) ns) ms.
Proof.
  revert acc. induction ms as [|m r IH]; intros acc; simpl.
  - now rewrite app_nil_r.
  - rewrite IH, names_loop_str_in. destruct (str_in (f_name m) ns); [|reflexivity].
    now rewrite <- app_assoc.
Qed.

Lemma filter_metrics_spec ms ns : filter_metrics ms ns = spec_restrict (Some ns) ms.
Proof. unfold filter_metrics. now rewrite filter_metrics_acc. Qed.

Lemma filter_metrics_nil_names ms : filter_metrics ms [] = [].
Proof. rewrite filter_metrics_spec. simpl. induction ms; simpl; auto. Qed.

(* what compareMetricFamilies / GatherAndCount do with `metricNames != nil` is spec_restrict *)
Lemma restrict_model names fs :
  match names with Some ns => filter_metrics fs ns | None => fs end = spec_restrict names fs.
Proof. destruct names; [apply filter_metrics_spec|reflexivity]. Qed.

(* ---------------- the encode loop = concatenation of the encodings ---------------- *)
Lemma encode_loop_spec enc fs buf :
  encode_loop enc fs buf = match spec_encoding enc fs with Some t => Some (buf ++ t) | None => None end.
Proof.
  revert buf. induction fs as [|f r IH]; intros buf; simpl.
  - now rewrite app_nil_r.
  - destruct (enc f) as [a|]; [|reflexivity]. rewrite IH.
    destruct (spec_encoding enc r); [|reflexivity]. now rewrite app_assoc.
Qed.

Lemma encode_loop_nil enc fs : encode_loop enc fs [] = spec_encoding enc fs.
Proof. rewrite encode_loop_spec. now destruct (spec_encoding enc fs). Qed.

Lemma spec_encoding_all enc fs :
  (exists t, spec_encoding enc fs = Some t) <-> Forall (fun f => enc f <> None) fs.
Proof.
  induction fs as [|f r IH]; simpl.
  - split; [constructor|eauto].
  - split.
    + intros [t H]. destruct (enc f) eqn:E; [|discriminate].
      destruct (spec_encoding enc r) eqn:E2; [|discriminate].
      constructor; [congruence|]. apply IH. eauto.
    + intros H. inversion H as [|? ? H1 H2]; subst. apply IH in H2. destruct H2 as [t2 H2].
      destruct (enc f); [|congruence]. rewrite H2. eauto.
Qed.

Lemma spec_encoding_restrict enc names fs t :
  spec_encoding enc fs = Some t -> exists t', spec_encoding enc (spec_restrict names fs) = Some t'.
Proof.
  intros H. apply spec_encoding_all. assert (A : Forall (fun f => enc f <> None) fs) by (apply spec_encoding_all; eauto).
  destruct names as [ns|]; simpl; [|exact A].
  rewrite Forall_forall in *. intros x Hx. apply filter_In in Hx. now apply A.
Qed.

(* ---------------- compare ---------------- *)
Lemma compare_nil enc got want :
  compare enc got want = RNil <->
  exists t, spec_encoding enc got = Some t /\ spec_encoding enc want = Some t.
Proof.
  unfold compare. rewrite !encode_loop_nil.
  destruct (spec_encoding enc got) as [g|]; [|split; [discriminate|intros (t & H & _); discriminate]].
  destruct (spec_encoding enc want) as [w|]; [|split; [discriminate|intros (t & _ & H); discriminate]].
  destruct (str_eqb g w) eqn:E.
  - apply str_eqb_eq in E. subst. split; eauto.
  - apply str_eqb_neq in E. split; [discriminate|]. intros (t & H1 & H2). congruence.
Qed.

Lemma compare_diff enc got want g w :
  spec_encoding enc got = Some g -> spec_encoding enc want = Some w -> g <> w ->
  compare enc got want = RDiff g w.
Proof.
  intros H1 H2 N. unfold compare. rewrite !encode_loop_nil, H1, H2.
  apply str_eqb_neq in N. now rewrite N.
Qed.

Lemma compare_metric_families_spec enc got want names :
  compare_metric_families enc got want names = compare enc (spec_restrict names got) (spec_restrict names want).
Proof. destruct names; simpl; [now rewrite !filter_metrics_spec|reflexivity]. Qed.

(* hypothesis-free characterisation of the pipeline: nil iff gathering succeeded, the expected text
   parsed and both restricted sides encode to the same text *)
Lemma tgc_nil_iff_same_text enc parse got gerr expected names :
  transactional_gather_and_compare enc parse (got, gerr) expected names = RNil <->
  gerr = false /\ exists want t, convert parse expected = Some want /\
     spec_encoding enc (spec_restrict names got) = Some t /\ spec_encoding enc (spec_restrict names want) = Some t.
Proof.
  unfold transactional_gather_and_compare. destruct gerr.
  - split; [discriminate|intros [H _]; discriminate].
  - destruct (convert parse expected) as [want|].
    + rewrite compare_metric_families_spec, compare_nil. split.
      * intros (t & H1 & H2). split; [reflexivity|]. exists want, t. auto.
      * intros (_ & want' & t & E & H1 & H2). inversion E; subst. eauto.
    + split; [discriminate|]. intros (_ & want & t & E & _). discriminate.
Qed.

Lemma helpers_agree_lemma enc parse :
  (forall g expected names, gather_and_compare enc parse g expected names = transactional_gather_and_compare enc parse g expected names) /\
  (forall g expected names, collect_and_compare enc parse false g expected names = transactional_gather_and_compare enc parse g expected names) /\
  (forall g expected names, collect_and_compare enc parse true g expected names = RErrRegister) /\
  (forall body expected names,
     scrape_and_compare enc parse false 200 body expected names =
     match convert parse body with
     | Some scraped => transactional_gather_and_compare enc parse (scraped, false) expected names
     | None => RErrParse
     end) /\
  (forall status body expected names, status <> 200 -> scrape_and_compare enc parse false status body expected names = RErrStatus status) /\
  (forall status body expected names, scrape_and_compare enc parse true status body expected names = RErrScrape).
Proof.
  repeat split; intros; try reflexivity.
  unfold scrape_and_compare. simpl. destruct (Z.eqb_spec status 200); [contradiction|reflexivity].
Qed.

Lemma errors_never_nil_lemma enc parse :
  (forall got expected names, transactional_gather_and_compare enc parse (got, true) expected names = RErrGather) /\
  (forall got expected names, convert parse expected = None ->
     transactional_gather_and_compare enc parse (got, false) expected names = RErrParse) /\
  (forall expected, parse expected = None <-> convert parse expected = None).
Proof.
  repeat split; intros; unfold transactional_gather_and_compare, convert in *; simpl.
  - now rewrite H.
  - destruct (parse expected); [discriminate|reflexivity].
  - destruct (parse expected); [discriminate|reflexivity].
Qed.

Section Relative.
  Variable enc : family -> option str.
  Variable parse : str -> option (list family).
  (* canon f: the family that the text of f denotes (what parsing the text of f gives back):
     histogram +Inf bucket made explicit, fields that the text format cannot carry dropped, ... *)
  Variable canon : family -> family.
  Hypothesis H_enc_canon : forall f, enc (canon f) = enc f.
  Hypothesis H_canon_name : forall f, f_name (canon f) = f_name f.
  (* the text determines the families it denotes *)
  Hypothesis H_inj : forall a b t, spec_encoding enc a = Some t -> spec_encoding enc b = Some t -> map canon a = map canon b.

  Lemma enc_map_canon fs : spec_encoding enc (map canon fs) = spec_encoding enc fs.
  Proof. induction fs as [|f r IH]; simpl; [reflexivity|]. now rewrite H_enc_canon, IH. Qed.

  Lemma restrict_map_canon names fs : spec_restrict names (map canon fs) = map canon (spec_restrict names fs).
  Proof.
    destruct names as [ns|]; simpl; [|reflexivity].
    induction fs as [|f r IH]; simpl; [reflexivity|]. rewrite H_canon_name.
    destruct (str_in (f_name f) ns); simpl; now rewrite IH.
  Qed.

  Definition encodable (fs : list family) : Prop := exists t, spec_encoding enc fs = Some t.

  Lemma same_text_iff_same_canon a b :
    encodable a -> encodable b ->
    ((exists t, spec_encoding enc a = Some t /\ spec_encoding enc b = Some t) <-> map canon a = map canon b).
  Proof.
    intros [ta Ha] [tb Hb]. split.
    - intros (t & H1 & H2). eapply H_inj; eauto.
    - intros E. exists ta. split; [exact Ha|].
      rewrite <- (enc_map_canon b), <- E, enc_map_canon. exact Ha.
  Qed.

  Lemma compare_nil_iff_equal_filtered_lemma got gerr expected names :
    transactional_gather_and_compare enc parse (got, gerr) expected names = RNil <->
    gerr = false /\ exists want, convert parse expected = Some want /\
       encodable (spec_restrict names got) /\ encodable (spec_restrict names want) /\
       map canon (spec_restrict names got) = map canon (spec_restrict names want).
  Proof.
    rewrite tgc_nil_iff_same_text. split.
    - intros (G & want & t & C & H1 & H2). split; [exact G|]. exists want.
      assert (E1 : encodable (spec_restrict names got)) by (exists t; exact H1).
      assert (E2 : encodable (spec_restrict names want)) by (exists t; exact H2).
      repeat split; auto. apply same_text_iff_same_canon; eauto.
    - intros (G & want & C & E1 & E2 & M). split; [exact G|].
      apply same_text_iff_same_canon in M; auto. destruct M as (t & H1 & H2). exists want, t. auto.
  Qed.

  (* a difference in any restricted family is reported as a diff of the two texts *)
  Lemma compare_differs_gives_diff_lemma got expected names want g w :
    convert parse expected = Some want ->
    spec_encoding enc (spec_restrict names got) = Some g -> spec_encoding enc (spec_restrict names want) = Some w ->
    map canon (spec_restrict names got) <> map canon (spec_restrict names want) ->
    g <> w /\ transactional_gather_and_compare enc parse (got, false) expected names = RDiff g w.
  Proof.
    intros C H1 H2 N.
    assert (D : g <> w).
    { intros E. subst. apply N. eapply H_inj; eauto. }
    split; [exact D|]. unfold transactional_gather_and_compare. rewrite C, compare_metric_families_spec.
    now apply compare_diff.
  Qed.

  (* what a Gatherer returns: sorted, non-empty families with non-nil help, valid for the text format *)
  Variable wf_gather : list family -> Prop.
  Hypothesis H_roundtrip : forall fs t, wf_gather fs -> spec_encoding enc fs = Some t ->
    exists m, parse t = Some m /\ normalize (map fill_help m) = map canon fs.

  Lemma compare_reflexive_lemma got t names :
    wf_gather got -> spec_encoding enc got = Some t ->
    transactional_gather_and_compare enc parse (got, false) t names = RNil.
  Proof.
    intros W E. destruct (H_roundtrip _ _ W E) as (m & P & N).
    apply tgc_nil_iff_same_text. split; [reflexivity|].
    destruct (spec_encoding_restrict enc names got t E) as [t' E'].
    exists (map canon got), t'. repeat split.
    - unfold convert. now rewrite P, N.
    - exact E'.
    - now rewrite restrict_map_canon, enc_map_canon.
  Qed.
End Relative.

(* scraping compares two parsed texts: reflexive as soon as the text parses and re-encodes *)
Lemma scrape_reflexive_lemma enc parse body names s t :
  convert parse body = Some s -> spec_encoding enc s = Some t ->
  scrape_and_compare enc parse false 200 body body names = RNil.
Proof.
  intros C E. unfold scrape_and_compare. simpl. rewrite C, compare_metric_families_spec.
  destruct (spec_encoding_restrict enc names s t E) as [t' E']. apply compare_nil. eauto.
Qed.

(* ---------------- counting ---------------- *)
Lemma count_fold fs acc :
  fold_left (fun result mf => result + Z.of_nat (length (f_metrics mf))) fs acc
  = acc + Z.of_nat (length (flat_map f_metrics fs)).
Proof.
  revert acc. induction fs as [|f r IH]; intros acc; simpl; [lia|].
  rewrite IH, app_length. lia.
Qed.

Lemma count_exact_lemma :
  (forall got names, gather_and_count (got, false) names = CVal (spec_count names got)) /\
  (forall got names, gather_and_count (got, true) names = CErr) /\
  (forall got names, collect_and_count false (got, false) names = CVal (spec_count names got)) /\
  (forall got gerr names, collect_and_count true (got, gerr) names = CPanic) /\
  (forall got names, collect_and_count false (got, true) names = CPanic).
Proof.
  assert (A : forall got names, gather_and_count (got, false) names = CVal (spec_count names got)).
  { intros. unfold gather_and_count, spec_count. rewrite restrict_model, count_fold. reflexivity. }
  repeat split; intros; try reflexivity; try apply A.
Qed.

(* ---------------- ToFloat64 ---------------- *)
Lemma range_loop_count {A} (l : list A) st : snd (fold_left (fun st x => (Some x, snd st + 1)) l st) = snd st + Z.of_nat (length l).
Proof.
  revert st. induction l as [|x r IH]; intros st; simpl; [lia|].
  rewrite IH. simpl. lia.
Qed.

Lemma to_float64_exact_or_panics_lemma :
  (forall m v, simple_value m v -> to_float64 [Some m] = FVal v) /\
  (forall m, not_simple m -> to_float64 [Some m] = FPanicType) /\
  to_float64 [None] = FPanicWrite /\
  (forall l, length l <> 1%nat -> to_float64 l = FPanicCount (Z.of_nat (length l))).
Proof.
  split; [|split; [|split]].
  - intros m v H. unfold to_float64. simpl. inversion H; subst; repeat match goal with E : _ = _ |- _ => rewrite E end; reflexivity.
  - intros m (G & C & U). unfold to_float64. simpl. now rewrite G, C, U.
  - reflexivity.
  - intros l H. unfold to_float64, range_loop.
    destruct (fold_left _ l (None, 0)) as [m c] eqn:E.
    assert (C : c = Z.of_nat (length l)).
    { pose proof (range_loop_count l (@None (option metric), 0)) as R. rewrite E in R. simpl in R. lia. }
    subst c. destruct (Z.eqb_spec (Z.of_nat (length l)) 1) as [Q|Q]; [lia|reflexivity].
Qed.

(* ---------------- CollectAndFormat ---------------- *)
Lemma collect_and_format_lemma encf format :
  (forall got names,
     collect_and_format encf format false (got, false) names =
     match spec_encoding (encf format) (spec_restrict (Some (match names with Some ns => ns | None => [] end)) got) with
     | Some b => BVal b
     | None => BErrEncode
     end) /\
  (forall got, collect_and_format encf format false (got, false) None = BVal []) /\
  (forall g names, collect_and_format encf format true g names = BErrRegister) /\
  (forall got names, collect_and_format encf format false (got, true) names = BErrGather).
Proof.
  repeat split; intros; try reflexivity.
  - unfold collect_and_format. now rewrite filter_metrics_spec, encode_loop_nil.
  - unfold collect_and_format. now rewrite filter_metrics_nil_names.
Qed.

(* ---------------- normalisation: sorted, pruned, helps filled ---------------- *)
Section Sorting.
  Context {A : Type} (less : A -> A -> bool).
  Hypothesis asym : forall a b, less a b = true -> less b a = false.

  Lemma insert_sorted x l : sorted_by less l = true -> sorted_by less (insert_by less x l) = true.
  Proof.
    induction l as [|y r IH]; intros S; [reflexivity|].
    simpl insert_by. destruct (less y x) eqn:L.
    - assert (Sr : sorted_by less r = true).
      { simpl in S. destruct r; [reflexivity|]. apply andb_true_iff in S. tauto. }
      specialize (IH Sr). destruct r as [|z r'].
      + simpl. now rewrite (asym _ _ L).
      + simpl insert_by in *. destruct (less z x) eqn:L2.
        * simpl in S. apply andb_true_iff in S. destruct S as [S1 _].
          change (negb (less z y) && sorted_by less (z :: insert_by less x r') = true).
          now rewrite S1, IH.
        * change (negb (less x y) && sorted_by less (x :: z :: r') = true).
          now rewrite (asym _ _ L), IH.
    - change (negb (less y x) && sorted_by less (y :: r) = true). now rewrite L, S.
  Qed.

  Lemma sort_sorted l : sorted_by less (sort_by less l) = true.
  Proof. induction l as [|x r IH]; [reflexivity|]. simpl. now apply insert_sorted. Qed.

  Lemma insert_in x l y : In y (insert_by less x l) <-> y = x \/ In y l.
  Proof.
    induction l as [|z r IH]; simpl; [intuition congruence|].
    destruct (less z x); simpl; [rewrite IH|]; intuition congruence.
  Qed.

  Lemma sort_in l y : In y (sort_by less l) <-> In y l.
  Proof. induction l as [|x r IH]; simpl; [tauto|]. rewrite insert_in, IH. intuition congruence. Qed.

  Lemma sort_length l : length (sort_by less l) = length l.
  Proof.
    induction l as [|x r IH]; [reflexivity|]. simpl. rewrite <- IH. generalize (sort_by less r). intros s.
    induction s as [|z s' IHs]; [reflexivity|]. simpl. destruct (less z x); simpl; [now rewrite IHs|reflexivity].
  Qed.
End Sorting.

Lemma str_ltb_asym a b : str_ltb a b = true -> str_ltb b a = false.
Proof.
  revert b. induction a as [|x a IH]; intros [|y b] H; simpl in *; try reflexivity; try discriminate.
  destruct (Z.ltb_spec x y), (Z.ltb_spec y x); try lia; try reflexivity; try discriminate. now apply IH.
Qed.

Lemma str_eqb_sym a b : str_eqb a b = str_eqb b a.
Proof.
  destruct (str_eqb a b) eqn:E.
  - apply str_eqb_eq in E. subst. now rewrite str_eqb_refl.
  - apply str_eqb_neq in E. symmetry. apply str_eqb_neq. congruence.
Qed.

Lemma label_loop_asym la lb :
  match label_loop la lb, label_loop lb la with
  | Some r, Some r' => r = true -> r' = false
  | None, None => True
  | _, _ => length la <> length lb
  end.
Proof.
  revert lb. induction la as [|[n v] ra IH]; intros [|[n' v'] rb]; simpl; try exact I.
  rewrite (str_eqb_sym n' n), (str_eqb_sym v' v). destruct (str_eqb n n'); simpl; [|apply str_ltb_asym].
  destruct (str_eqb v v'); simpl.
  - specialize (IH rb). destruct (label_loop ra rb), (label_loop rb ra); auto.
  - apply str_ltb_asym.
Qed.

Lemma metric_less_asym a b : metric_less a b = true -> metric_less b a = false.
Proof.
  unfold metric_less.
  destruct (Z.eqb_spec (Z.of_nat (length (m_labels a))) (Z.of_nat (length (m_labels b)))) as [E|E];
  destruct (Z.eqb_spec (Z.of_nat (length (m_labels b))) (Z.of_nat (length (m_labels a)))) as [E'|E']; try lia; simpl.
  - pose proof (label_loop_asym (m_labels a) (m_labels b)) as L.
    destruct (label_loop (m_labels a) (m_labels b)), (label_loop (m_labels b) (m_labels a)); try (exfalso; lia); auto.
    destruct (m_ts a), (m_ts b); try discriminate; try reflexivity. intros H. apply Z.ltb_lt in H. apply Z.ltb_ge. lia.
  - intros H. apply Z.ltb_lt in H. apply Z.ltb_ge. lia.
Qed.

Lemma normalize_names m :
  map f_name (normalize m) =
  sort_by str_ltb (map f_name (filter (fun mf => negb (is_nil (f_metrics mf)))
                                 (map (fun mf => set_metrics mf (sort_by metric_less (f_metrics mf))) m))).
Proof.
  unfold normalize. set (sorted := map _ m). set (keep := filter _ sorted).
  assert (K : forall n, In n (sort_by str_ltb (map f_name keep)) ->
                        exists mf, find (fun mf => str_eqb (f_name mf) n) sorted = Some mf /\ f_name mf = n).
  { intros n H. apply sort_in in H. apply in_map_iff in H. destruct H as (mf & N & I).
    apply filter_In in I. destruct I as [I _].
    destruct (find (fun mf0 => str_eqb (f_name mf0) n) sorted) as [mf'|] eqn:F.
    - exists mf'. split; [reflexivity|]. apply find_some in F. now apply str_eqb_eq.
    - exfalso. eapply find_none in F; [|exact I]. simpl in F. rewrite N, str_eqb_refl in F. discriminate. }
  induction (sort_by str_ltb (map f_name keep)) as [|n r IH]; [reflexivity|].
  simpl. destruct (K n (or_introl eq_refl)) as (mf & F & N). rewrite F. simpl. rewrite N. f_equal.
  apply IH. intros n' H. apply K. now right.
Qed.

(* the output of convertReaderToMetricFamily is normalised, whenever the parser's map has distinct keys *)
Lemma convert_normalized_lemma parse text fs :
  (forall m, parse text = Some m -> NoDup (map f_name m)) ->
  convert parse text = Some fs -> spec_normalized fs = true.
Proof.
  intros ND C. unfold convert in C. destruct (parse text) as [m|] eqn:P; [|discriminate].
  specialize (ND m eq_refl). inversion C; subst fs; clear C.
  unfold spec_normalized. apply andb_true_iff. split.
  - rewrite normalize_names. apply sort_sorted. exact str_ltb_asym.
  - apply forallb_forall. intros f Hf.
    set (m' := map fill_help m) in *.
    assert (ND' : NoDup (map f_name m')).
    { unfold m'. rewrite map_map. erewrite map_ext; [exact ND|]. intros a. unfold fill_help. now destruct (f_help a). }
    unfold normalize in Hf. set (sorted := map _ m') in Hf.
    apply in_flat_map in Hf. destruct Hf as (n & Hn & Hf).
    destruct (find (fun mf => str_eqb (f_name mf) n) sorted) as [mf|] eqn:F; [|contradiction].
    destruct Hf as [Hf|[]]. subst mf.
    apply sort_in in Hn. apply in_map_iff in Hn. destruct Hn as (g & Ng & Ig). apply filter_In in Ig. destruct Ig as [Ig NEg].
    assert (Nf : f_name f = n) by (apply find_some in F; now apply str_eqb_eq).
    assert (If : In f sorted) by (apply find_some in F; tauto).
    (* distinct names: f = g *)
    assert (NDs : NoDup (map f_name sorted)).
    { unfold sorted. rewrite map_map. simpl. exact ND'. }
    assert (FG : f = g).
    { assert (NG : f_name f = f_name g) by congruence.
      clear - NDs If Ig NG. induction sorted as [|h s IH]; [contradiction|].
      simpl in NDs. inversion NDs as [|? ? NI ND2]; subst.
      destruct If as [If|If], Ig as [Ig|Ig]; auto.
      - congruence.
      - exfalso. apply NI. rewrite If, NG. apply in_map. exact Ig.
      - exfalso. apply NI. rewrite Ig, <- NG. apply in_map. exact If. }
    subst g. rewrite NEg. simpl.
    unfold sorted in If. apply in_map_iff in If. destruct If as (f0 & Ef & I0). subst f. simpl.
    rewrite sort_sorted by exact metric_less_asym. simpl.
    unfold m' in I0. apply in_map_iff in I0. destruct I0 as (f1 & E1 & _). subst f0.
    unfold fill_help. destruct (f_help f1) eqn:H1; simpl; [now rewrite H1|reflexivity].
Qed.

(* ---------------- the hypotheses are satisfiable: a toy length-prefixed format ---------------- *)
Definition toy_enc (f : family) : option str := Some (Z.of_nat (length (f_name f)) :: f_name f).
Definition toy_metric : metric :=
  {| m_labels := []; m_ts := None; m_gauge := Some pzero; m_counter := None; m_untyped := None; m_summary := None; m_histogram := None |}.
Definition toy_canon (f : family) : family :=
  {| f_name := f_name f; f_help := Some []; f_type := TUntyped; f_metrics := [toy_metric] |}.
Definition toy_fam (name : str) (v : f64) : family :=
  {| f_name := name; f_help := Some [104]; f_type := TGauge;
     f_metrics := [{| m_labels := []; m_ts := None; m_gauge := Some v; m_counter := None; m_untyped := None; m_summary := None; m_histogram := None |}] |}.
Definition toy_got : list family := [toy_fam [97] fone; toy_fam [98; 99] pzero].
Definition toy_text : str := [1; 97; 2; 98; 99].
Definition toy_parse (t : str) : option (list family) :=
  if str_eqb t toy_text then Some [toy_canon (toy_fam [98; 99] pzero); toy_canon (toy_fam [97] fone)] else None.

Lemma app_eq_len {A} (a b c d : list A) : length a = length b -> a ++ c = b ++ d -> a = b /\ c = d.
Proof.
  revert b. induction a as [|x a IH]; intros [|y b] L E; simpl in *; try discriminate; [auto|].
  inversion E; subst. destruct (IH b) as [E1 E2]; [lia|assumption|]. subst. auto.
Qed.

Lemma toy_inj a : forall b t, spec_encoding toy_enc a = Some t -> spec_encoding toy_enc b = Some t -> map toy_canon a = map toy_canon b.
Proof.
  induction a as [|f ra IH]; intros [|g rb] t Ha Hb; simpl in *; try reflexivity.
  - destruct (spec_encoding toy_enc rb); inversion Ha; subst; discriminate.
  - destruct (spec_encoding toy_enc ra); inversion Hb; subst; discriminate.
  - destruct (spec_encoding toy_enc ra) as [ta|] eqn:Ea; [|discriminate].
    destruct (spec_encoding toy_enc rb) as [tb|] eqn:Eb; [|discriminate].
    inversion Ha; subst t; clear Ha. injection Hb as HL HT.
    apply Nat2Z.inj in HL. destruct (app_eq_len _ _ _ _ (eq_sym HL) (eq_sym HT)) as [N T]. subst tb.
    f_equal; [unfold toy_canon; now rewrite N|]. eapply IH; eauto.
Qed.

Lemma hypotheses_satisfiable_lemma :
  exists (enc : family -> option str) (parse : str -> option (list family)) (canon : family -> family)
         (wf : list family -> Prop),
    (forall f, enc (canon f) = enc f) /\ (forall f, f_name (canon f) = f_name f) /\
    (forall a b t, spec_encoding enc a = Some t -> spec_encoding enc b = Some t -> map canon a = map canon b) /\
    (forall fs t, wf fs -> spec_encoding enc fs = Some t ->
       exists m, parse t = Some m /\ normalize (map fill_help m) = map canon fs) /\
    (exists fs t, wf fs /\ spec_encoding enc fs = Some t).
Proof.
  exists toy_enc, toy_parse, toy_canon, (fun fs => fs = toy_got). repeat split.
  - intros a b t. apply toy_inj.
  - intros fs t -> E. vm_compute in E. inversion E; subst t.
    eexists. split; [vm_compute; reflexivity|]. vm_compute. reflexivity.
  - exists toy_got, toy_text. split; [reflexivity|]. vm_compute. reflexivity.
Qed.
