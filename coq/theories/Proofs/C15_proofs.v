(* Proofs/C15_proofs.v -- lemmas for C15 (Model/Push.v). *)
From Coq Require Import Strings.String.
From Coq Require Import ZArith List Bool Lia Permutation.
From Verif Require Import Base.Str Proofs.Str_facts Model.Push.
Import ListNotations.
Open Scope Z_scope.

(* ------------------------------------------------------------------------------------ *)
(* constants are the string literals of push.go                                           *)
(* ------------------------------------------------------------------------------------ *)
Lemma constants_lemma :
  s_job = of_string "job" /\ s_b64suffix = of_string "@base64" /\ s_metrics = of_string "/metrics/" /\
  s_scheme_sep = of_string "://" /\ s_http = of_string "http://" /\ s_basic = of_string "Basic " /\
  s_content_type = of_string "Content-Type" /\ s_authorization = of_string "Authorization".
Proof. vm_compute. repeat split; reflexivity. Qed.

(* ------------------------------------------------------------------------------------ *)
(* generic helpers                                                                        *)
(* ------------------------------------------------------------------------------------ *)
Definition bytes (s : str) : Prop := Forall (fun c => 0 <= c < 256) s.

Lemma bytesb_bytes s : bytesb s = true <-> bytes s.
Proof.
  unfold bytesb, bytes. rewrite forallb_forall, Forall_forall. unfold is_byte.
  split; intros H x Hx; specialize (H x Hx).
  - apply andb_true_iff in H. destruct H as [A B]. apply Z.leb_le in A. apply Z.ltb_lt in B. lia.
  - apply andb_true_iff. split; [apply Z.leb_le|apply Z.ltb_lt]; lia.
Qed.

(* a boolean predicate checked on 0..n-1 by computation holds on the whole range *)
Lemma range_sweep (P : Z -> bool) (n : nat) :
  forallb P (map Z.of_nat (seq 0 n)) = true -> forall v, 0 <= v < Z.of_nat n -> P v = true.
Proof.
  intros H v Hv. rewrite forallb_forall in H. apply H.
  apply in_map_iff. exists (Z.to_nat v). split; [lia|]. apply in_seq. lia.
Qed.

Lemma list_ind3 {A} (P : list A -> Prop) :
  P [] -> (forall a, P [a]) -> (forall a b, P [a; b]) ->
  (forall a b c r, P r -> P (a :: b :: c :: r)) -> forall l, P l.
Proof.
  intros H0 H1 H2 H3 l.
  assert (G : P l /\ (forall a, P (a :: l)) /\ (forall a b, P (a :: b :: l))).
  { induction l as [|x l IH].
    - repeat split; auto.
    - destruct IH as (I0 & I1 & I2). repeat split; auto. }
  apply G.
Qed.

Lemma strip_prefix_app p r : strip_prefix p (p ++ r) = Some r.
Proof. induction p as [|x p IH]; simpl; [destruct r; reflexivity|]. rewrite Z.eqb_refl. exact IH. Qed.

Lemma strip_prefix_some p s r : strip_prefix p s = Some r -> s = p ++ r.
Proof.
  revert s; induction p as [|y p IH]; intros s H.
  - destruct s; simpl in H; inversion H; reflexivity.
  - destruct s as [|x s]; simpl in H; [discriminate|].
    destruct (x =? y) eqn:E; [|discriminate]. apply Z.eqb_eq in E. subst. simpl. f_equal. apply IH. exact H.
Qed.

(* ------------------------------------------------------------------------------------ *)
(* percent encoding                                                                       *)
(* ------------------------------------------------------------------------------------ *)
Definition esc (c : Z) : str := replace_plus (qe_byte c).

Lemma replace_plus_app a b : replace_plus (a ++ b) = replace_plus a ++ replace_plus b.
Proof. unfold replace_plus. apply flat_map_app. Qed.

Lemma escape_flat s : replace_plus (query_escape s) = flat_map esc s.
Proof.
  induction s as [|c s IH]; [reflexivity|].
  unfold query_escape in *. simpl. rewrite replace_plus_app, IH. reflexivity.
Qed.

Lemma hex_val_digit v : 0 <= v < 16 -> hex_val (hex_digit v) = Some v.
Proof.
  intros H.
  pose (P := fun v => match hex_val (hex_digit v) with Some w => w =? v | None => false end).
  assert (G : P v = true) by (apply (range_sweep P 16); [vm_compute; reflexivity|simpl; lia]).
  unfold P in G. destruct (hex_val (hex_digit v)); [|discriminate]. apply Z.eqb_eq in G. subst. reflexivity.
Qed.

(* characters produced by hex_digit: never '+', '/', '%' *)
Lemma hex_digit_class v : 0 <= v < 16 ->
  (hex_digit v =? 43) = false /\ hex_digit v <> 47 /\ hex_digit v <> 37.
Proof.
  intros H.
  pose (P := fun v => negb (hex_digit v =? 43) && negb (hex_digit v =? 47) && negb (hex_digit v =? 37)).
  assert (G : P v = true) by (apply (range_sweep P 16); [vm_compute; reflexivity|simpl; lia]).
  unfold P in G. apply andb_true_iff in G. destruct G as [G G3]. apply andb_true_iff in G. destruct G as [G1 G2].
  apply negb_true_iff in G1, G2, G3. repeat split; [exact G1| |]; apply Z.eqb_neq; assumption.
Qed.

Lemma esc_cases c : 0 <= c < 256 ->
  esc c = if qe_unreserved c then [c]
          else if c =? 32 then [37; 50; 48]
          else [37; hex_digit (c / 16); hex_digit (c mod 16)].
Proof.
  intros H. unfold esc, qe_byte.
  destruct (qe_unreserved c) eqn:U.
  - unfold replace_plus. simpl. destruct (c =? 43) eqn:E; [|reflexivity].
    apply Z.eqb_eq in E. subst. vm_compute in U. discriminate.
  - destruct (c =? 32) eqn:E; [reflexivity|].
    assert (H1 : 0 <= c / 16 < 16) by (split; [apply Z.div_pos; lia|apply Z.div_lt_upper_bound; lia]).
    assert (H2 : 0 <= c mod 16 < 16) by (apply Z.mod_pos_bound; lia).
    destruct (hex_digit_class _ H1) as (A & _). destruct (hex_digit_class _ H2) as (B & _).
    unfold replace_plus. simpl. rewrite A, B. reflexivity.
Qed.

Lemma pct_decode_esc c rest : 0 <= c < 256 ->
  pct_decode (esc c ++ rest) = option_map (cons c) (pct_decode rest).
Proof.
  intros H. rewrite (esc_cases c H).
  destruct (qe_unreserved c) eqn:U.
  - simpl. destruct (c =? 37) eqn:E; [|reflexivity].
    apply Z.eqb_eq in E. subst. vm_compute in U. discriminate.
  - destruct (c =? 32) eqn:E.
    + apply Z.eqb_eq in E. subst. simpl. destruct (pct_decode rest); reflexivity.
    + assert (H1 : 0 <= c / 16 < 16) by (split; [apply Z.div_pos; lia|apply Z.div_lt_upper_bound; lia]).
      assert (H2 : 0 <= c mod 16 < 16) by (apply Z.mod_pos_bound; lia).
      change (pct_decode ([37; hex_digit (c / 16); hex_digit (c mod 16)] ++ rest))
        with (match hex_val (hex_digit (c / 16)), hex_val (hex_digit (c mod 16)), pct_decode rest with
              | Some x, Some y, Some t => Some (16 * x + y :: t)
              | _, _, _ => None
              end).
      rewrite (hex_val_digit _ H1), (hex_val_digit _ H2).
      rewrite <- (Z.div_mod c 16) by lia. destruct (pct_decode rest); reflexivity.
Qed.

Lemma pct_roundtrip_lemma s : bytes s -> pct_decode (replace_plus (query_escape s)) = Some s.
Proof.
  intros H. rewrite escape_flat. induction H as [|c s Hc Hs IH]; [reflexivity|].
  simpl. rewrite (pct_decode_esc c _ Hc), IH. reflexivity.
Qed.

(* the escaped form contains no '/' *)
Lemma esc_no_slash c : 0 <= c < 256 -> Forall (fun x => x <> 47) (esc c).
Proof.
  intros H. rewrite (esc_cases c H).
  destruct (qe_unreserved c) eqn:U.
  - constructor; [|constructor]. intros E. subst. vm_compute in U. discriminate.
  - destruct (c =? 32).
    + repeat constructor; lia.
    + assert (H1 : 0 <= c / 16 < 16) by (split; [apply Z.div_pos; lia|apply Z.div_lt_upper_bound; lia]).
      assert (H2 : 0 <= c mod 16 < 16) by (apply Z.mod_pos_bound; lia).
      destruct (hex_digit_class _ H1) as (_ & A & _). destruct (hex_digit_class _ H2) as (_ & B & _).
      repeat constructor; try assumption; lia.
Qed.

Lemma escaped_no_slash s : bytes s -> Forall (fun x => x <> 47) (replace_plus (query_escape s)).
Proof.
  intros H. rewrite escape_flat. induction H as [|c s Hc Hs IH]; [constructor|].
  simpl. apply Forall_app. split; [apply esc_no_slash; assumption|exact IH].
Qed.

Lemma esc_nonempty c : 0 <= c < 256 -> esc c <> [].
Proof.
  intros H. rewrite (esc_cases c H). destruct (qe_unreserved c); [discriminate|]. destruct (c =? 32); discriminate.
Qed.

(* ------------------------------------------------------------------------------------ *)
(* base64                                                                                 *)
(* ------------------------------------------------------------------------------------ *)
Definition sextets (l : list Z) : Prop := Forall (fun v => 0 <= v < 64) l.

Lemma b64_sextets_range s : bytes s -> sextets (b64_sextets s).
Proof.
  unfold bytes, sextets. induction s as [|a|a b|a b c s IHs] using list_ind3; intros H.
  - constructor.
  - inversion H; subst. simpl. repeat constructor; try (apply Z.div_pos; lia); try (apply Z.div_lt_upper_bound; lia);
      pose proof (Z.mod_pos_bound a 4); lia.
  - inversion H as [|? ? Ha H']; subst. inversion H' as [|? ? Hb _]; subst. simpl.
    pose proof (Z.mod_pos_bound a 4). pose proof (Z.mod_pos_bound b 16).
    assert (0 <= a / 4 < 64) by (split; [apply Z.div_pos; lia|apply Z.div_lt_upper_bound; lia]).
    assert (0 <= b / 16 < 16) by (split; [apply Z.div_pos; lia|apply Z.div_lt_upper_bound; lia]).
    repeat constructor; lia.
  - inversion H as [|? ? Ha H1]; subst. inversion H1 as [|? ? Hb H2]; subst. inversion H2 as [|? ? Hc H3]; subst.
    pose proof (Z.mod_pos_bound a 4). pose proof (Z.mod_pos_bound b 16). pose proof (Z.mod_pos_bound c 64).
    assert (0 <= a / 4 < 64) by (split; [apply Z.div_pos; lia|apply Z.div_lt_upper_bound; lia]).
    assert (0 <= b / 16 < 16) by (split; [apply Z.div_pos; lia|apply Z.div_lt_upper_bound; lia]).
    assert (0 <= c / 64 < 4) by (split; [apply Z.div_pos; lia|apply Z.div_lt_upper_bound; lia]).
    change (b64_sextets (a :: b :: c :: s))
      with (a / 4 :: (a mod 4) * 16 + b / 16 :: (b mod 16) * 4 + c / 64 :: c mod 64 :: b64_sextets s).
    repeat (constructor; [lia|]). apply IHs. assumption.
Qed.

(* the arithmetic of regrouping 3 x 8 bits as 4 x 6 bits and back *)
Lemma regroup_1 a b : 0 <= a < 256 -> 0 <= b < 256 -> a / 4 * 4 + ((a mod 4) * 16 + b / 16) / 16 = a.
Proof.
  intros Ha Hb.
  assert (E : ((a mod 4) * 16 + b / 16) / 16 = a mod 4).
  { rewrite Z.div_add_l by lia. rewrite (Z.div_small (b / 16) 16); [lia|].
    split; [apply Z.div_pos; lia|apply Z.div_lt_upper_bound; lia]. }
  rewrite E. pose proof (Z.div_mod a 4). lia.
Qed.
Lemma regroup_2 a b c : 0 <= a < 256 -> 0 <= b < 256 -> 0 <= c < 256 ->
  (((a mod 4) * 16 + b / 16) mod 16) * 16 + ((b mod 16) * 4 + c / 64) / 4 = b.
Proof.
  intros Ha Hb Hc.
  assert (Hb16 : 0 <= b / 16 < 16) by (split; [apply Z.div_pos; lia|apply Z.div_lt_upper_bound; lia]).
  assert (Hc64 : 0 <= c / 64 < 4) by (split; [apply Z.div_pos; lia|apply Z.div_lt_upper_bound; lia]).
  assert (E1 : ((a mod 4) * 16 + b / 16) mod 16 = b / 16).
  { rewrite Z.add_comm, Z.mod_add by lia. apply Z.mod_small. lia. }
  assert (E2 : ((b mod 16) * 4 + c / 64) / 4 = b mod 16).
  { rewrite Z.div_add_l by lia. rewrite (Z.div_small (c / 64) 4) by lia. lia. }
  rewrite E1, E2. pose proof (Z.div_mod b 16). lia.
Qed.
Lemma regroup_2' a b : 0 <= a < 256 -> 0 <= b < 256 ->
  (((a mod 4) * 16 + b / 16) mod 16) * 16 + ((b mod 16) * 4) / 4 = b.
Proof.
  intros Ha Hb.
  assert (Hb16 : 0 <= b / 16 < 16) by (split; [apply Z.div_pos; lia|apply Z.div_lt_upper_bound; lia]).
  assert (E1 : ((a mod 4) * 16 + b / 16) mod 16 = b / 16).
  { rewrite Z.add_comm, Z.mod_add by lia. apply Z.mod_small. lia. }
  rewrite E1, Z.div_mul by lia. pose proof (Z.div_mod b 16). lia.
Qed.
Lemma regroup_3 b c : 0 <= b < 256 -> 0 <= c < 256 -> (((b mod 16) * 4 + c / 64) mod 4) * 64 + c mod 64 = c.
Proof.
  intros Hb Hc.
  assert (Hc64 : 0 <= c / 64 < 4) by (split; [apply Z.div_pos; lia|apply Z.div_lt_upper_bound; lia]).
  assert (E : ((b mod 16) * 4 + c / 64) mod 4 = c / 64).
  { rewrite Z.add_comm, Z.mod_add by lia. apply Z.mod_small. lia. }
  rewrite E. pose proof (Z.div_mod c 64). lia.
Qed.
Lemma regroup_1' a : 0 <= a < 256 -> a / 4 * 4 + ((a mod 4) * 16) / 16 = a.
Proof. intros Ha. rewrite Z.div_mul by lia. pose proof (Z.div_mod a 4). lia. Qed.

Lemma b64_bytes_sextets s : bytes s -> b64_bytes (b64_sextets s) = Some s.
Proof.
  unfold bytes. induction s as [|a|a b|a b c s IHs] using list_ind3; intros H.
  - reflexivity.
  - inversion H; subst. simpl. rewrite regroup_1' by assumption. reflexivity.
  - inversion H as [|? ? Ha H']; subst. inversion H' as [|? ? Hb _]; subst.
    change (b64_bytes (b64_sextets [a; b]))
      with (Some [a / 4 * 4 + ((a mod 4) * 16 + b / 16) / 16;
                  (((a mod 4) * 16 + b / 16) mod 16) * 16 + ((b mod 16) * 4) / 4]).
    rewrite regroup_1, regroup_2' by assumption. reflexivity.
  - inversion H as [|? ? Ha H1]; subst. inversion H1 as [|? ? Hb H2]; subst. inversion H2 as [|? ? Hc H3]; subst.
    change (b64_bytes (b64_sextets (a :: b :: c :: s)))
      with (option_map (fun t => a / 4 * 4 + ((a mod 4) * 16 + b / 16) / 16
                                 :: (((a mod 4) * 16 + b / 16) mod 16) * 16 + ((b mod 16) * 4 + c / 64) / 4
                                 :: (((b mod 16) * 4 + c / 64) mod 4) * 64 + c mod 64 :: t)
                       (b64_bytes (b64_sextets s))).
    rewrite (IHs H3). simpl. rewrite regroup_1, regroup_2, regroup_3 by assumption. reflexivity.
Qed.

Lemma b64url_val_char v : 0 <= v < 64 -> b64url_val (b64_char 45 95 v) = Some v.
Proof.
  intros H.
  pose (P := fun v => match b64url_val (b64_char 45 95 v) with Some w => w =? v | None => false end).
  assert (G : P v = true) by (apply (range_sweep P 64); [vm_compute; reflexivity|simpl; lia]).
  unfold P in G. destruct (b64url_val (b64_char 45 95 v)); [|discriminate]. apply Z.eqb_eq in G. subst. reflexivity.
Qed.

(* characters of the URL alphabet: never '=', LF, CR, '/', '%' *)
Definition plain_b64_char (c : Z) : Prop := c <> 61 /\ c <> 10 /\ c <> 13 /\ c <> 47 /\ c <> 37.
Lemma b64_char_class v : 0 <= v < 64 -> plain_b64_char (b64_char 45 95 v).
Proof.
  intros H.
  pose (P := fun v => let c := b64_char 45 95 v in
                      negb (c =? 61) && negb (c =? 10) && negb (c =? 13) && negb (c =? 47) && negb (c =? 37)).
  assert (G : P v = true) by (apply (range_sweep P 64); [vm_compute; reflexivity|simpl; lia]).
  unfold P in G. cbv zeta in G.
  repeat (apply andb_true_iff in G; destruct G as [G ?]).
  unfold plain_b64_char. repeat split; apply Z.eqb_neq; apply negb_true_iff; assumption.
Qed.

Lemma b64url_encode_class s : bytes s -> Forall plain_b64_char (b64url_encode s).
Proof.
  intros H. apply b64_sextets_range in H. unfold b64url_encode, sextets in *.
  induction H as [|v l Hv Hl IH]; simpl; constructor; [apply b64_char_class; assumption|exact IH].
Qed.

Lemma trim_right_eq_id l : Forall (fun c => c <> 61) l -> trim_right_eq l = l.
Proof.
  induction 1 as [|c l Hc Hl IH]; [reflexivity|]. simpl. rewrite IH.
  destruct (c =? 61) eqn:E; [apply Z.eqb_eq in E; contradiction|reflexivity].
Qed.

Lemma filter_id {A} (f : A -> bool) l : Forall (fun x => f x = true) l -> filter f l = l.
Proof. induction 1 as [|x l Hx Hl IH]; [reflexivity|]. simpl. rewrite Hx, IH. reflexivity. Qed.

Lemma mapM_opt_map {A B} (f : A -> option B) (g : B -> A) l :
  Forall (fun y => f (g y) = Some y) l -> mapM_opt f (map g l) = Some l.
Proof. induction 1 as [|y l Hy Hl IH]; [reflexivity|]. simpl. rewrite Hy, IH. reflexivity. Qed.

Lemma b64url_roundtrip_lemma s : bytes s -> b64url_decode (b64url_encode s) = Some s.
Proof.
  intros H. unfold b64url_decode.
  pose proof (b64url_encode_class s H) as C.
  rewrite trim_right_eq_id by (eapply Forall_impl; [|exact C]; intros c Hc; apply Hc).
  rewrite filter_id.
  2:{ eapply Forall_impl; [|exact C]. intros c (_ & A & B & _). simpl.
      destruct (c =? 10) eqn:E1; [apply Z.eqb_eq in E1; contradiction|].
      destruct (c =? 13) eqn:E2; [apply Z.eqb_eq in E2; contradiction|]. reflexivity. }
  unfold b64url_encode. rewrite mapM_opt_map.
  - apply b64_bytes_sextets. exact H.
  - pose proof (b64_sextets_range s H) as R. unfold sextets in R.
    eapply Forall_impl; [|exact R]. intros v Hv. apply b64url_val_char. exact Hv.
Qed.

(* ------------------------------------------------------------------------------------ *)
(* encodeComponent                                                                        *)
(* ------------------------------------------------------------------------------------ *)
Lemma contains_byte_false c s : contains_byte c s = false -> Forall (fun x => x <> c) s.
Proof.
  unfold contains_byte. induction s as [|x s IH]; intros H; [constructor|].
  simpl in H. apply orb_false_iff in H. destruct H as [H1 H2]. constructor; [|apply IH; exact H2].
  apply Z.eqb_neq in H1. congruence.
Qed.

(* what encodeComponent returns is a usable path component and decodes to the input *)
Lemma encode_component_lemma s : bytes s ->
  let (e, b) := encode_component s in
  (if b then b64url_decode e else pct_decode e) = Some s /\
  e <> [] /\ Forall (fun x => x <> 47) e /\ (b = true -> Forall (fun x => x <> 37) e).
Proof.
  intros H. unfold encode_component.
  destruct s as [|c s].
  - simpl. repeat split; try discriminate; repeat constructor; lia.
  - cbv [is_nil]. destruct (contains_byte 47 (c :: s)) eqn:C.
    + pose proof (b64url_encode_class _ H) as K. repeat split.
      * apply b64url_roundtrip_lemma. exact H.
      * unfold b64url_encode. simpl. destruct s as [|? [|? ?]]; discriminate.
      * eapply Forall_impl; [|exact K]. intros x Hx. apply Hx.
      * intros _. eapply Forall_impl; [|exact K]. intros x Hx. apply Hx.
    + repeat split.
      * apply pct_roundtrip_lemma. exact H.
      * rewrite escape_flat. simpl. inversion H; subst.
        pose proof (esc_nonempty c ltac:(assumption)). destruct (esc c); [contradiction|discriminate].
      * apply escaped_no_slash. exact H.
      * discriminate.
Qed.

(* ------------------------------------------------------------------------------------ *)
(* strings.Split / strings.Join                                                           *)
(* ------------------------------------------------------------------------------------ *)
Definition noslash (a : str) : Prop := Forall (fun x => x <> 47) a.

Lemma split47_nonempty l : split47 l <> [].
Proof. destruct l as [|c r]; simpl; [discriminate|]. destruct (c =? 47); [discriminate|]. destruct (split47 r); discriminate. Qed.

Lemma split47_app a r : noslash a -> split47 (a ++ 47 :: r) = a :: split47 r.
Proof.
  induction 1 as [|c a Hc Ha IH]; [reflexivity|].
  simpl. destruct (c =? 47) eqn:E; [apply Z.eqb_eq in E; contradiction|]. rewrite IH. reflexivity.
Qed.

Lemma split47_noslash a : noslash a -> split47 a = [a].
Proof.
  induction 1 as [|c a Hc Ha IH]; [reflexivity|].
  simpl. destruct (c =? 47) eqn:E; [apply Z.eqb_eq in E; contradiction|]. rewrite IH. reflexivity.
Qed.

Lemma split_join segs : segs <> [] -> Forall noslash segs -> split47 (join47 segs) = segs.
Proof.
  intros NE H. induction H as [|a r Ha Hr IH]; [contradiction|].
  destruct r as [|b r].
  - simpl. apply split47_noslash. exact Ha.
  - change (join47 (a :: b :: r)) with (a ++ 47 :: join47 (b :: r)).
    rewrite split47_app by exact Ha. rewrite IH by discriminate. reflexivity.
Qed.

(* ------------------------------------------------------------------------------------ *)
(* decoding the key                                                                       *)
(* ------------------------------------------------------------------------------------ *)
(* label names over [A-Za-z0-9_:] (what a Pushgateway accepts, plus ':' and a leading digit) *)
Definition name_charb (c : Z) : bool := is_alnum c || (c =? 95) || (c =? 58).
Definition name_ok (n : str) : Prop := n <> [] /\ Forall (fun c => name_charb c = true) n.

Lemma name_char_plain c : name_charb c = true -> c <> 47 /\ c <> 37 /\ c <> 64.
Proof.
  intros H. repeat split; intros E; subst; vm_compute in H; discriminate.
Qed.

Lemma pct_decode_id l : Forall (fun c => c <> 37) l -> pct_decode l = Some l.
Proof.
  induction 1 as [|c l Hc Hl IH]; [reflexivity|].
  simpl. destruct (c =? 37) eqn:E; [apply Z.eqb_eq in E; contradiction|]. rewrite IH. reflexivity.
Qed.

Lemma split_b64_suffix_app n : split_b64_suffix (n ++ s_b64suffix) = (n, true).
Proof.
  unfold split_b64_suffix. rewrite rev_app_distr, strip_prefix_app, rev_involutive. reflexivity.
Qed.

Lemma split_b64_suffix_none n : ~ In 64 n -> split_b64_suffix n = (n, false).
Proof.
  intros H. unfold split_b64_suffix.
  destruct (strip_prefix (rev s_b64suffix) (rev n)) eqn:E; [|reflexivity].
  apply strip_prefix_some in E. exfalso. apply H. apply in_rev. rewrite E.
  apply in_or_app. left. apply in_rev. rewrite rev_involutive. simpl. left. reflexivity.
Qed.

Lemma name_ok_facts n : name_ok n -> noslash n /\ Forall (fun c => c <> 37) n /\ ~ In 64 n.
Proof.
  intros (_ & H). repeat split.
  - eapply Forall_impl; [|exact H]. intros c Hc. apply name_char_plain in Hc. tauto.
  - eapply Forall_impl; [|exact H]. intros c Hc. apply name_char_plain in Hc. tauto.
  - intros I. rewrite Forall_forall in H. apply H in I. vm_compute in I. discriminate.
Qed.

Lemma suffix_plain : noslash s_b64suffix /\ Forall (fun c => c <> 37) s_b64suffix.
Proof. split; repeat constructor; lia. Qed.

(* the two components of one label: free of '/', and decoded back by the gateway rules *)
Lemma component_pair_lemma n v rest : name_ok n -> bytes v ->
  noslash (fst (component_pair n v)) /\ noslash (snd (component_pair n v)) /\
  decode_pairs (fst (component_pair n v) :: snd (component_pair n v) :: rest) =
  option_map (cons (n, v)) (decode_pairs rest).
Proof.
  intros Hn Hv. destruct (name_ok_facts n Hn) as (N1 & N2 & N3). destruct suffix_plain as (S1 & S2).
  pose proof (encode_component_lemma v Hv) as E. unfold component_pair.
  destruct (encode_component v) as [e b]. destruct E as (D & NE & NS & P).
  destruct b; simpl fst; simpl snd.
  - repeat split; [apply Forall_app; split; assumption|exact NS|].
    simpl. rewrite pct_decode_id by (apply Forall_app; split; assumption).
    rewrite pct_decode_id by (apply P; reflexivity).
    rewrite split_b64_suffix_app, D. destruct (decode_pairs rest); reflexivity.
  - repeat split; [exact N1|exact NS|].
    simpl. rewrite pct_decode_id by exact N2. rewrite D.
    rewrite split_b64_suffix_none by exact N3. destruct (decode_pairs rest); reflexivity.
Qed.

Definition pairs_ok (l : list (str * str)) : Prop := Forall (fun nv => name_ok (fst nv) /\ bytes (snd nv)) l.

Lemma flatten_pairs_cons p l : flatten_pairs (p :: l) = fst p :: snd p :: flatten_pairs l.
Proof. destruct p; reflexivity. Qed.

Lemma decode_pairs_flatten l : pairs_ok l ->
  Forall noslash (flatten_pairs (map (fun nv => component_pair (fst nv) (snd nv)) l)) /\
  decode_pairs (flatten_pairs (map (fun nv => component_pair (fst nv) (snd nv)) l)) = Some l.
Proof.
  induction 1 as [|[n v] l (Hn & Hv) Hl (IH1 & IH2)]; [split; [constructor|reflexivity]|].
  simpl in Hn, Hv. simpl map. rewrite flatten_pairs_cons.
  pose proof (component_pair_lemma n v
    (flatten_pairs (map (fun nv => component_pair (fst nv) (snd nv)) l)) Hn Hv) as (A & B & C).
  split; [constructor; [exact A|constructor; [exact B|exact IH1]]|].
  rewrite C, IH2. reflexivity.
Qed.

Lemma s_job_name_ok : name_ok s_job.
Proof. split; [discriminate|]. repeat constructor. Qed.

Lemma decode_key_lemma job order : bytes job -> pairs_ok order ->
  decode_key (key_path job order) = Some (job, order).
Proof.
  intros Hj Ho. unfold decode_key, key_path.
  assert (P : pairs_ok ((s_job, job) :: order)) by (constructor; [split; [exact s_job_name_ok|exact Hj]|exact Ho]).
  destruct (decode_pairs_flatten _ P) as (NS & D).
  change (component_pair s_job job :: map (fun nv => component_pair (fst nv) (snd nv)) order)
    with (map (fun nv => component_pair (fst nv) (snd nv)) ((s_job, job) :: order)).
  rewrite split_join; [|simpl; destruct (component_pair s_job job); discriminate|exact NS].
  rewrite D. rewrite str_eqb_refl. reflexivity.
Qed.

Lemma decode_path_lemma pre job order : bytes job -> pairs_ok order ->
  decode_path pre (pre ++ s_metrics ++ key_path job order) = Some (job, order).
Proof.
  intros Hj Ho. unfold decode_path. rewrite app_assoc, strip_prefix_app. apply decode_key_lemma; assumption.
Qed.

(* ------------------------------------------------------------------------------------ *)
(* the builder: first error sticky, grouping map = last value per name                    *)
(* ------------------------------------------------------------------------------------ *)
Lemma apply_bop_sticky p o e : p_err p = Some e -> p_err (apply_bop p o) = Some e.
Proof. intros H. destruct o; simpl; try rewrite H; try assumption; reflexivity. Qed.

Lemma apply_bop_err p o : p_err p = None -> p_err (apply_bop p o) = bop_error o.
Proof.
  intros H. destruct o as [n v|f| |h|u pw|f]; simpl; try rewrite H; try assumption; try reflexivity.
  - destruct (label_name_valid n); simpl; [assumption|reflexivity].
  - destruct f; simpl; [reflexivity|assumption].
Qed.

Lemma run_builder_sticky ops p e : p_err p = Some e -> p_err (run_builder p ops) = Some e.
Proof.
  revert p; induction ops as [|o r IH]; intros p H; [exact H|].
  simpl. apply IH. apply apply_bop_sticky. exact H.
Qed.

Lemma run_builder_err ops p :
  p_err (run_builder p ops) = match p_err p with Some e => Some e | None => first_bop_error ops end.
Proof.
  revert p; induction ops as [|o r IH]; intros p.
  - simpl. destruct (p_err p); reflexivity.
  - simpl. rewrite IH. destruct (p_err p) eqn:E.
    + rewrite (apply_bop_sticky p o b E). reflexivity.
    + rewrite (apply_bop_err p o E). destruct (bop_error o); reflexivity.
Qed.

Lemma builder_error_is_first_lemma url job ops :
  p_err (run_builder (new url job) ops) = spec_first_error job ops.
Proof. rewrite run_builder_err. unfold spec_first_error, new. simpl. destruct (is_nil job); reflexivity. Qed.

Lemma apply_bop_job_url p o : p_job (apply_bop p o) = p_job p /\ p_url (apply_bop p o) = p_url p.
Proof.
  destruct o as [n v|f| |h|u pw|f]; simpl; try (split; reflexivity).
  - destruct (p_err p); [split; reflexivity|]. destruct (label_name_valid n); split; reflexivity.
  - destruct (p_err p); [split; reflexivity|]. destruct f; split; reflexivity.
Qed.
Lemma run_builder_job_url ops p : p_job (run_builder p ops) = p_job p /\ p_url (run_builder p ops) = p_url p.
Proof.
  revert p; induction ops as [|o r IH]; intros p; [split; reflexivity|].
  simpl. destruct (IH (apply_bop p o)) as (A & B). destruct (apply_bop_job_url p o) as (C & D).
  split; congruence.
Qed.

(* association lists *)
Lemma map_get_set {V} k (v : V) m k' :
  map_get k' (map_set k v m) = if str_eqb k k' then Some v else map_get k' m.
Proof.
  induction m as [|[k0 v0] r IH]; simpl; [reflexivity|].
  destruct (str_eqb k0 k) eqn:E.
  - apply str_eqb_eq in E. subst k0. simpl. destruct (str_eqb k k'); reflexivity.
  - simpl. rewrite IH. destruct (str_eqb k0 k') eqn:E'; [|reflexivity].
    apply str_eqb_eq in E'. subst k0.
    destruct (str_eqb k k') eqn:E2; [|reflexivity].
    apply str_eqb_eq in E2. subst. rewrite str_eqb_refl in E. discriminate.
Qed.

Lemma map_set_keys {V} k (v : V) m k' :
  In k' (map fst (map_set k v m)) <-> k' = k \/ In k' (map fst m).
Proof.
  induction m as [|[k0 v0] r IH]; simpl; [intuition congruence|].
  destruct (str_eqb k0 k) eqn:E.
  - apply str_eqb_eq in E. subst k0. simpl. intuition congruence.
  - simpl. rewrite IH. intuition congruence.
Qed.

Lemma map_set_nodup {V} k (v : V) m : NoDup (map fst m) -> NoDup (map fst (map_set k v m)).
Proof.
  induction m as [|[k0 v0] r IH]; simpl; intros H; [repeat constructor; intros []|].
  inversion H as [|? ? Hn Hr]; subst.
  destruct (str_eqb k0 k) eqn:E.
  - apply str_eqb_eq in E. subst k0. simpl. constructor; assumption.
  - simpl. constructor; [|apply IH; exact Hr].
    rewrite map_set_keys. intros [A|A]; [|contradiction]. subst. rewrite str_eqb_refl in E. discriminate.
Qed.

Lemma map_get_in {V} n (v : V) m : NoDup (map fst m) -> (In (n, v) m <-> map_get n m = Some v).
Proof.
  induction m as [|[k0 v0] r IH]; simpl; intros H; [split; [intros []|discriminate]|].
  inversion H as [|? ? Hn Hr]; subst. destruct (str_eqb k0 n) eqn:E.
  - apply str_eqb_eq in E. subst k0. split.
    + intros [A|A]; [congruence|]. exfalso. apply Hn. apply in_map_iff. exists (n, v). split; [reflexivity|exact A].
    + intros A. left. congruence.
  - rewrite <- (IH Hr). split; [|tauto]. intros [A|A]; [|exact A].
    inversion A; subst. rewrite str_eqb_refl in E. discriminate.
Qed.

Lemma apply_bop_nodup p o : NoDup (map fst (p_grouping p)) -> NoDup (map fst (p_grouping (apply_bop p o))).
Proof.
  intros H. destruct o as [n v|f| |h|u pw|f]; simpl; try exact H.
  - destruct (p_err p); [exact H|]. destruct (label_name_valid n); simpl; [apply map_set_nodup|]; exact H.
  - destruct (p_err p); [exact H|]. destruct f; exact H.
Qed.
Lemma run_builder_nodup ops p : NoDup (map fst (p_grouping p)) -> NoDup (map fst (p_grouping (run_builder p ops))).
Proof.
  revert p; induction ops as [|o r IH]; intros p H; [exact H|]. simpl. apply IH. apply apply_bop_nodup. exact H.
Qed.

Lemma err_none_back p o : p_err (apply_bop p o) = None -> p_err p = None.
Proof. intros H. destruct (p_err p) eqn:E; [|reflexivity]. rewrite (apply_bop_sticky p o b E) in H. discriminate. Qed.
Lemma run_err_none_back ops p : p_err (run_builder p ops) = None -> p_err p = None.
Proof. intros H. destruct (p_err p) eqn:E; [|reflexivity]. rewrite (run_builder_sticky ops p b E) in H. discriminate. Qed.

(* with no error recorded, the map holds for every name the value of the last Grouping call *)
Lemma grouping_is_last ops p n : p_err (run_builder p ops) = None ->
  map_get n (p_grouping (run_builder p ops)) =
  match spec_lookup n ops with Some v => Some v | None => map_get n (p_grouping p) end.
Proof.
  revert p; induction ops as [|o r IH]; intros p H; [reflexivity|].
  simpl in H. simpl run_builder. rewrite (IH _ H). simpl spec_lookup.
  destruct (spec_lookup n r); [reflexivity|].
  pose proof (run_err_none_back _ _ H) as H1. pose proof (err_none_back _ _ H1) as H0.
  destruct o as [n0 v0|f| |h|u pw|f]; simpl in *; try reflexivity.
  - rewrite H0 in *. destruct (label_name_valid n0); simpl in *; [|discriminate].
    rewrite map_get_set. destruct (str_eqb n0 n); reflexivity.
  - rewrite H0. destruct f; reflexivity.
Qed.

Lemma spec_lookup_in n v ops : spec_lookup n ops = Some v -> In (BGrouping n v) ops.
Proof.
  induction ops as [|o r IH]; simpl; [discriminate|].
  destruct (spec_lookup n r) eqn:E.
  - intros H. right. apply IH. exact H.
  - destruct o as [n0 v0| | | | |]; try discriminate.
    destruct (str_eqb n0 n) eqn:E'; [|discriminate]. apply str_eqb_eq in E'. subst.
    intros H. inversion H; subst. left. reflexivity.
Qed.

Lemma spec_lookup_some n v ops : In (BGrouping n v) ops -> exists v', spec_lookup n ops = Some v'.
Proof.
  induction ops as [|o r IH]; simpl; [intros []|].
  intros [A|A].
  - subst o. destruct (spec_lookup n r); [eexists; reflexivity|]. rewrite str_eqb_refl. eexists; reflexivity.
  - destruct (IH A) as (v' & E). rewrite E. eexists; reflexivity.
Qed.

Lemma spec_names_in n ops : In n (spec_names ops) -> exists v, In (BGrouping n v) ops.
Proof.
  induction ops as [|o r IH]; simpl; [intros []|].
  destruct o as [n0 v0| | | | |]; simpl; try (intros H; destruct (IH H) as (v & I); exists v; right; exact I).
  intros [A|A]; [subst; exists v0; left; reflexivity|]. destruct (IH A) as (v & I). exists v. right. exact I.
Qed.

Lemma nodupb_nodup l : nodupb l = true <-> NoDup l.
Proof.
  induction l as [|x r IH]; simpl; [split; [constructor|reflexivity]|].
  rewrite andb_true_iff, negb_true_iff, IH. split.
  - intros (A & B). constructor; [|exact B]. intros I. apply str_in_In in I. congruence.
  - intros H. inversion H as [|? ? Hn Hr]; subst. split; [|exact Hr].
    destruct (str_in x r) eqn:E; [|reflexivity]. apply str_in_In in E. contradiction.
Qed.

Definition groupings_ok (ops : list bop) : Prop :=
  forall n v, In (BGrouping n v) ops -> name_ok n /\ n <> s_job /\ bytes v.

(* the key clause on the model: for every iteration order of the grouping map *)
Lemma push_path_roundtrip_lemma url job ops pre order :
  let p := run_builder (new url job) ops in
  p_err p = None -> bytes job -> groupings_ok ops -> Permutation order (p_grouping p) ->
  decode_path pre (pre ++ s_metrics ++ key_path (p_job p) order) = Some (job, order) /\
  NoDup (map fst order) /\ ~ In s_job (map fst order) /\
  (forall n v, In (n, v) order <-> spec_lookup n ops = Some v) /\
  (forall n, In n (spec_names ops) -> In n (map fst order)).
Proof.
  intros p E Hj Hg Hp.
  assert (ND : NoDup (map fst (p_grouping p))) by (apply run_builder_nodup; constructor).
  assert (L : forall n v, In (n, v) (p_grouping p) <-> spec_lookup n ops = Some v).
  { intros n v. rewrite (map_get_in n v _ ND). unfold p. rewrite (grouping_is_last ops _ n E). simpl.
    destruct (spec_lookup n ops); split; intros H; try discriminate; exact H. }
  assert (LO : forall n v, In (n, v) order <-> spec_lookup n ops = Some v).
  { intros n v. rewrite <- L. split; apply Permutation_in; [exact Hp|apply Permutation_sym; exact Hp]. }
  assert (PO : pairs_ok order).
  { apply Forall_forall. intros [n v] I. apply LO in I. apply spec_lookup_in in I. destruct (Hg n v I) as (A & _ & B).
    split; assumption. }
  destruct (run_builder_job_url ops (new url job)) as (J & _). fold p in J. simpl in J.
  repeat split.
  - rewrite J. apply decode_path_lemma; assumption.
  - eapply Permutation_NoDup; [apply Permutation_map; apply Permutation_sym; exact Hp|exact ND].
  - intros I. apply in_map_iff in I. destruct I as ([n v] & F & I). simpl in F. subst n.
    apply LO in I. apply spec_lookup_in in I. destruct (Hg _ _ I) as (_ & A & _). apply A. reflexivity.
  - apply LO.
  - apply LO.
  - intros n I. destruct (spec_names_in n ops I) as (v & I'). destruct (spec_lookup_some n v ops I') as (v' & S).
    apply LO in S. apply in_map_iff. exists (n, v'). split; [reflexivity|exact S].
Qed.

Lemma model_key_ok_lemma url job ops pre order :
  let p := run_builder (new url job) ops in
  p_err p = None -> bytes job -> groupings_ok ops -> Permutation order (p_grouping p) ->
  spec_key_ok pre job ops (pre ++ s_metrics ++ key_path (p_job p) order) = true.
Proof.
  intros p E Hj Hg Hp.
  destruct (push_path_roundtrip_lemma url job ops pre order E Hj Hg Hp) as (D & ND & NJ & LO & NM).
  fold p in D. unfold spec_key_ok. rewrite D.
  apply andb_true_iff; split; [apply andb_true_iff; split; [apply andb_true_iff; split|]|].
  - apply str_eqb_refl.
  - apply nodupb_nodup. constructor; assumption.
  - apply forallb_forall. intros [n v] I. simpl. apply LO in I. rewrite I. apply str_eqb_refl.
  - apply forallb_forall. intros n I. apply str_in_In. apply NM. exact I.
Qed.

(* ------------------------------------------------------------------------------------ *)
(* calls                                                                                  *)
(* ------------------------------------------------------------------------------------ *)
Lemma do_call_err p order c e : p_err p = Some e -> do_call p order c = (p, mkO None (CBuilder e)).
Proof. intros H. unfold do_call. rewrite H. reflexivity. Qed.

Lemma keep_alias_err p h : p_err (keep_alias p h) = p_err p.
Proof. unfold keep_alias. destruct (p_hdr p); reflexivity. Qed.

(* a call never changes the recorded error *)
Lemma do_call_keeps_err p order c : p_err (fst (do_call p order c)) = p_err p.
Proof.
  unfold do_call. destruct (p_err p) eqn:E; [exact E|].
  destruct (c_kind c); try (simpl; rewrite keep_alias_err; exact E);
    (destruct (c_gather c) as [fs|]; [|exact E]; destruct (check_families (p_grouping p) fs); [exact E|];
     simpl; rewrite keep_alias_err; exact E).
Qed.

(* the first error of a Pusher is sticky: whatever is called afterwards, in any order, returns it and sends nothing *)
Lemma first_error_sticky_lemma ops p e : p_err p = Some e ->
  p_err (fst (run p ops)) = Some e /\
  Forall (fun o => o_req o = None /\ o_err o = CBuilder e) (snd (run p ops)).
Proof.
  revert p; induction ops as [|o r IH]; intros p H; [split; [exact H|constructor]|].
  destruct o as [b|c]; simpl.
  - apply IH. apply apply_bop_sticky. exact H.
  - rewrite (do_call_err p _ c e H). destruct (IH p H) as (A & B).
    destruct (run p r) as [p2 os]. simpl in *. split; [exact A|]. constructor; [split; reflexivity|exact B].
Qed.

(* once run has started, an error can only come from a builder method, and then it stays *)
Lemma run_err_monotone ops p e : p_err p = Some e -> p_err (fst (run p ops)) = Some e.
Proof. intros H. apply (first_error_sticky_lemma ops p e H). Qed.

Definition label_conflict (g : list (str * str)) (n : str) : bool := str_eqb n s_job || map_has n g.

Lemma check_labels_some g ls e : check_labels g ls = Some e ->
  (e = CJobLabel /\ existsb (fun l => str_eqb (fst l) s_job) ls = true) \/
  (e = CGroupLabel /\ existsb (fun l => map_has (fst l) g) ls = true).
Proof.
  induction ls as [|[n v] r IH]; simpl; [discriminate|].
  destruct (str_eqb n s_job); [intros H; inversion H; left; split; reflexivity|].
  destruct (map_has n g); [intros H; inversion H; right; split; reflexivity|].
  simpl. exact IH.
Qed.
Lemma check_labels_none g ls : check_labels g ls = None ->
  existsb (fun l => str_eqb (fst l) s_job) ls = false /\ existsb (fun l => map_has (fst l) g) ls = false.
Proof.
  induction ls as [|[n v] r IH]; simpl; [split; reflexivity|].
  destruct (str_eqb n s_job); [discriminate|]. destruct (map_has n g); [discriminate|]. simpl. exact IH.
Qed.

Lemma check_metrics_some g ms e : check_metrics g ms = Some e ->
  (e = CJobLabel /\ existsb (fun m => existsb (fun l => str_eqb (fst l) s_job) m) ms = true) \/
  (e = CGroupLabel /\ existsb (fun m => existsb (fun l => map_has (fst l) g) m) ms = true).
Proof.
  induction ms as [|m r IH]; simpl; [discriminate|].
  destruct (check_labels g m) eqn:E.
  - intros H. inversion H; subst. destruct (check_labels_some g m e E) as [(A & B)|(A & B)]; [left|right];
      (split; [exact A|apply orb_true_iff; left; exact B]).
  - intros H. destruct (IH H) as [(A & B)|(A & B)]; [left|right]; (split; [exact A|apply orb_true_iff; right; exact B]).
Qed.
Lemma check_metrics_none g ms : check_metrics g ms = None ->
  existsb (fun m => existsb (fun l => str_eqb (fst l) s_job) m) ms = false /\
  existsb (fun m => existsb (fun l => map_has (fst l) g) m) ms = false.
Proof.
  induction ms as [|m r IH]; simpl; [split; reflexivity|].
  destruct (check_labels g m) eqn:E; [discriminate|]. intros H.
  destruct (check_labels_none g m E) as (A & B). destruct (IH H) as (C & D). split; apply orb_false_iff; split; assumption.
Qed.

Lemma check_families_some g fs e : check_families g fs = Some e ->
  (e = CJobLabel /\ has_label (fun n => str_eqb n s_job) fs = true) \/
  (e = CGroupLabel /\ has_label (fun n => map_has n g) fs = true).
Proof.
  unfold has_label. induction fs as [|f r IH]; simpl; [discriminate|].
  destruct (check_metrics g (snd f)) eqn:E.
  - intros H. inversion H; subst. destruct (check_metrics_some g _ e E) as [(A & B)|(A & B)]; [left|right];
      (split; [exact A|apply orb_true_iff; left; exact B]).
  - intros H. destruct (IH H) as [(A & B)|(A & B)]; [left|right]; (split; [exact A|apply orb_true_iff; right; exact B]).
Qed.
Lemma check_families_none g fs : check_families g fs = None ->
  has_label (fun n => str_eqb n s_job) fs = false /\ has_label (fun n => map_has n g) fs = false.
Proof.
  unfold has_label. induction fs as [|f r IH]; simpl; [split; reflexivity|].
  destruct (check_metrics g (snd f)) eqn:E; [discriminate|]. intros H.
  destruct (check_metrics_none g _ E) as (A & B). destruct (IH H) as (C & D). split; apply orb_false_iff; split; assumption.
Qed.

(* nothing is sent when an error is recorded, gathering fails, or a metric carries "job" / a grouping label *)
Lemma nothing_sent_when_lemma p order c :
  (p_err p <> None \/
   (c_kind c <> KDelete /\
    (c_gather c = None \/
     exists fs, c_gather c = Some fs /\
                (has_label (fun n => str_eqb n s_job) fs = true \/ has_label (fun n => map_has n (p_grouping p)) fs = true)))) ->
  o_req (snd (do_call p order c)) = None /\ o_err (snd (do_call p order c)) <> CNone.
Proof.
  intros H. unfold do_call. destruct (p_err p) eqn:E; [split; [reflexivity|discriminate]|].
  destruct H as [H|(K & H)]; [congruence|].
  destruct (c_kind c) eqn:Kd; try congruence;
    (destruct H as [H|(fs & H & L)]; rewrite H; [split; [reflexivity|discriminate]|];
     destruct (check_families (p_grouping p) fs) eqn:C;
     [split; [reflexivity|]; destruct (check_families_some _ _ _ C) as [(A & _)|(A & _)]; subst; discriminate|];
     destruct (check_families_none _ _ C) as (A & B); destruct L; congruence).
Qed.

Lemma first_bop_error_in o ops e : In o ops -> bop_error o = Some e -> first_bop_error ops <> None.
Proof.
  induction ops as [|x r IH]; simpl; [intros []|].
  intros [A|A] B.
  - subst. rewrite B. discriminate.
  - destruct (bop_error x); [discriminate|]. apply IH; assumption.
Qed.

(* the builder-level causes: empty job, invalid grouping label name, failed Collector registration *)
Lemma builder_failure_recorded_lemma url job ops :
  (job = [] \/ (exists n v, In (BGrouping n v) ops /\ label_name_valid n = false) \/ In (BCollector true) ops) ->
  p_err (run_builder (new url job) ops) <> None.
Proof.
  rewrite builder_error_is_first_lemma. unfold spec_first_error.
  intros [H|[(n & v & I & B)|I]].
  - subst. discriminate.
  - destruct (is_nil job); [discriminate|]. apply (first_bop_error_in _ _ (EBadName n) I). simpl. rewrite B. reflexivity.
  - destruct (is_nil job); [discriminate|]. apply (first_bop_error_in _ _ ERegister I). reflexivity.
Qed.

Lemma method_per_call_lemma p order c r : o_req (snd (do_call p order c)) = Some r ->
  r_method r = method_of (c_kind c) /\ r_url r = full_url_with p order /\
  r_fams r = match c_kind c with KDelete => None | _ => c_gather c end.
Proof.
  unfold do_call. destruct (p_err p); [discriminate|].
  destruct (c_kind c); try (simpl; intros H; inversion H; subst; repeat split; reflexivity);
    (destruct (c_gather c) as [fs|]; [|discriminate]; destruct (check_families (p_grouping p) fs); [discriminate|];
     simpl; intros H; inversion H; subst; repeat split; reflexivity).
Qed.

Lemma status_classification_lemma p order c r : o_req (snd (do_call p order c)) = Some r ->
  o_err (snd (do_call p order c)) =
  match c_tr c with TFail => CTransport | TStatus s => spec_status_err (c_kind c) s end.
Proof.
  unfold do_call. destruct (p_err p); [discriminate|].
  destruct (c_kind c); try (simpl; intros _; reflexivity);
    (destruct (c_gather c) as [fs|]; [|discriminate]; destruct (check_families (p_grouping p) fs); [discriminate|];
     simpl; intros _; reflexivity).
Qed.

Lemma spec_status_err_ok k s :
  spec_status_err k s = CNone <-> (k = KDelete /\ s = 202) \/ (k <> KDelete /\ (s = 200 \/ s = 202)).
Proof.
  destruct k; simpl.
  - destruct (s =? 200) eqn:A; simpl; [apply Z.eqb_eq in A; split; [intros _; right; split; [discriminate|lia]|reflexivity]|].
    destruct (s =? 202) eqn:B; [apply Z.eqb_eq in B; split; [intros _; right; split; [discriminate|lia]|reflexivity]|].
    apply Z.eqb_neq in A, B. split; [discriminate|]. intros [(C & _)|(_ & C)]; [discriminate|lia].
  - destruct (s =? 200) eqn:A; simpl; [apply Z.eqb_eq in A; split; [intros _; right; split; [discriminate|lia]|reflexivity]|].
    destruct (s =? 202) eqn:B; [apply Z.eqb_eq in B; split; [intros _; right; split; [discriminate|lia]|reflexivity]|].
    apply Z.eqb_neq in A, B. split; [discriminate|]. intros [(C & _)|(_ & C)]; [discriminate|lia].
  - destruct (s =? 202) eqn:B; [apply Z.eqb_eq in B; split; [intros _; left; split; [reflexivity|lia]|reflexivity]|].
    apply Z.eqb_neq in B. split; [discriminate|]. intros [(_ & C)|(C & _)]; [lia|congruence].
Qed.

(* headers *)
Lemma hdr_after_auth_get p k :
  map_get k (hdr_after_auth p) =
  match p_auth p with
  | Some (u, pw) => if str_eqb s_authorization k then Some [basic_value u pw]
                    else map_get k (match p_hdr p with Some h => h | None => [] end)
  | None => map_get k (match p_hdr p with Some h => h | None => [] end)
  end.
Proof. unfold hdr_after_auth. destruct (p_auth p) as [[u pw]|]; [apply map_get_set|reflexivity]. Qed.

Lemma headers_applied_lemma p order c r : o_req (snd (do_call p order c)) = Some r ->
  (forall k vs, map_get k (match p_hdr p with Some h => h | None => [] end) = Some vs ->
                k <> s_content_type -> k <> s_authorization -> map_get k (r_hdr r) = Some vs) /\
  (forall u pw, p_auth p = Some (u, pw) -> map_get s_authorization (r_hdr r) = Some [basic_value u pw]) /\
  (c_kind c <> KDelete -> map_get s_content_type (r_hdr r) = Some [p_fmt p]).
Proof.
  assert (G : forall k vs, map_get k (match p_hdr p with Some h => h | None => [] end) = Some vs ->
                           k <> s_authorization -> map_get k (hdr_after_auth p) = Some vs).
  { intros k vs H N. rewrite hdr_after_auth_get. destruct (p_auth p) as [[u pw]|]; [|exact H].
    destruct (str_eqb s_authorization k) eqn:E; [apply str_eqb_eq in E; congruence|exact H]. }
  assert (A : forall u pw, p_auth p = Some (u, pw) -> map_get s_authorization (hdr_after_auth p) = Some [basic_value u pw]).
  { intros u pw H. rewrite hdr_after_auth_get, H, str_eqb_refl. reflexivity. }
  unfold do_call. destruct (p_err p); [discriminate|].
  destruct (c_kind c) eqn:K.
  1,2: destruct (c_gather c) as [fs|]; [|discriminate]; destruct (check_families (p_grouping p) fs); [discriminate|];
       simpl; intros H; inversion H; subst; simpl; repeat split.
  1,4: intros k vs H1 H2 H3; rewrite map_get_set;
       destruct (str_eqb s_content_type k) eqn:E; [apply str_eqb_eq in E; congruence|apply G; assumption].
  1,3: intros u pw H1; rewrite map_get_set; apply A; exact H1.
  1,2: intros _; rewrite map_get_set, str_eqb_refl; reflexivity.
  simpl. intros H; inversion H; subst; simpl. repeat split.
  - intros k vs H1 H2 H3. apply G; assumption.
  - exact A.
  - congruence.
Qed.

(* ------------------------------------------------------------------------------------ *)
(* the model satisfies the specification checker                                          *)
(* ------------------------------------------------------------------------------------ *)
Lemma berr_eqb_refl e : berr_eqb e e = true.
Proof. destruct e; simpl; try reflexivity. apply str_eqb_refl. Qed.
Lemma cerr_eqb_refl e : cerr_eqb e e = true.
Proof. destruct e; simpl; try reflexivity. apply berr_eqb_refl. apply Z.eqb_refl. Qed.
Lemma strs_eqb_refl l : strs_eqb l l = true.
Proof. induction l as [|x r IH]; simpl; [reflexivity|]. rewrite str_eqb_refl. exact IH. Qed.

Lemma str_eqb_sym a b : str_eqb a b = str_eqb b a.
Proof.
  destruct (str_eqb a b) eqn:E.
  - apply str_eqb_eq in E. subst. symmetry. apply str_eqb_refl.
  - destruct (str_eqb b a) eqn:E'; [|reflexivity]. apply str_eqb_eq in E'. subst. rewrite str_eqb_refl in E. discriminate.
Qed.

Lemma builder_hdr ops p :
  p_hdr (run_builder p ops) =
  match spec_last (fun o => match o with BHeader h => Some h | _ => None end) ops with Some h => h | None => p_hdr p end.
Proof.
  revert p; induction ops as [|o r IH]; intros p; [reflexivity|].
  simpl. rewrite IH. destruct (spec_last _ r); [reflexivity|].
  destruct o as [n v|f| |h|u pw|f]; simpl; try reflexivity.
  - destruct (p_err p); [reflexivity|]. destruct (label_name_valid n); reflexivity.
  - destruct (p_err p); [reflexivity|]. destruct f; reflexivity.
Qed.
Lemma builder_auth ops p :
  p_auth (run_builder p ops) = match spec_auth ops with Some a => Some a | None => p_auth p end.
Proof.
  unfold spec_auth. revert p; induction ops as [|o r IH]; intros p; [reflexivity|].
  simpl. rewrite IH. destruct (spec_last _ r); [reflexivity|].
  destruct o as [n v|f| |h|u pw|f]; simpl; try reflexivity.
  - destruct (p_err p); [reflexivity|]. destruct (label_name_valid n); reflexivity.
  - destruct (p_err p); [reflexivity|]. destruct f; reflexivity.
Qed.
Lemma builder_fmt ops p :
  p_fmt (run_builder p ops) =
  match spec_last (fun o => match o with BFormat f => Some f | _ => None end) ops with Some f => f | None => p_fmt p end.
Proof.
  revert p; induction ops as [|o r IH]; intros p; [reflexivity|].
  simpl. rewrite IH. destruct (spec_last _ r); [reflexivity|].
  destruct o as [n v|f| |h|u pw|f]; simpl; try reflexivity.
  - destruct (p_err p); [reflexivity|]. destruct (label_name_valid n); reflexivity.
  - destruct (p_err p); [reflexivity|]. destruct f; reflexivity.
Qed.

Lemma spec_lookup_names n ops :
  str_in n (spec_names ops) = match spec_lookup n ops with Some _ => true | None => false end.
Proof.
  induction ops as [|o r IH]; [reflexivity|].
  destruct o as [n0 v0| | | | |]; simpl; try (rewrite IH; destruct (spec_lookup n r); reflexivity).
  unfold str_in in *. simpl. rewrite IH. rewrite (str_eqb_sym n n0).
  destruct (spec_lookup n r); [apply orb_true_r|]. rewrite orb_false_r. destruct (str_eqb n0 n); reflexivity.
Qed.

Lemma map_has_names url job ops n : p_err (run_builder (new url job) ops) = None ->
  map_has n (p_grouping (run_builder (new url job) ops)) = str_in n (spec_names ops).
Proof.
  intros E. unfold map_has. rewrite (grouping_is_last ops _ n E), spec_lookup_names. simpl.
  destruct (spec_lookup n ops); reflexivity.
Qed.

Lemma existsb_ext' {A} (f g : A -> bool) l : (forall x, f x = g x) -> existsb f l = existsb g l.
Proof. intros H. induction l as [|x r IH]; [reflexivity|]. simpl. rewrite H, IH. reflexivity. Qed.

Lemma has_label_ext P Q fs : (forall n, P n = Q n) -> has_label P fs = has_label Q fs.
Proof.
  intros H. unfold has_label. apply existsb_ext'. intros f. apply existsb_ext'. intros m. apply existsb_ext'.
  intros l. apply H.
Qed.

(* what a peer sees of an outcome: the request target is the URL without "scheme://authority" (= host) *)
Definition observe (host : str) (o : outcome) : obs :=
  mkObs (o_err o)
        (match o_req o with Some _ => 1 | None => 0 end)
        (match o_req o with
         | Some r => Some (r_method r, match strip_prefix host (r_url r) with Some x => x | None => [] end, r_hdr r)
         | None => None
         end)
        true.

(* a Pusher state that agrees with what the builder calls `ops` configured *)
Record agrees (host pre job : str) (ops : list bop) (p : pusher) : Prop := {
  ag_err : p_err p = spec_first_error job ops;
  ag_url : p_url p = host ++ pre;
  ag_key : p_err p = None -> forall order, Permutation order (p_grouping p) ->
           spec_key_ok pre job ops (pre ++ s_metrics ++ key_path (p_job p) order) = true;
  ag_names : p_err p = None -> forall n, map_has n (p_grouping p) = str_in n (spec_names ops);
  ag_hdr : forall k vs, map_get k (spec_header ops) = Some vs -> k <> s_content_type -> k <> s_authorization ->
           map_get k (match p_hdr p with Some h => h | None => [] end) = Some vs;
  ag_auth : p_auth p = spec_auth ops;
  ag_fmt : p_fmt p = spec_format ops
}.

Lemma builder_agrees host pre url job ops :
  let p := run_builder (new url job) ops in
  p_url p = host ++ pre -> bytes job -> groupings_ok ops -> agrees host pre job ops p.
Proof.
  intros p Hurl Hjob Hg. constructor.
  - apply builder_error_is_first_lemma.
  - exact Hurl.
  - intros E order Hp. apply (model_key_ok_lemma url job ops pre order); assumption.
  - intros E n. apply map_has_names. exact E.
  - intros k vs G _ _. rewrite <- G. f_equal.
    unfold spec_header, p. rewrite builder_hdr. simpl. destruct (spec_last _ ops) as [[h|]|]; reflexivity.
  - unfold p. rewrite builder_auth. simpl. destruct (spec_auth ops); reflexivity.
  - unfold spec_format, p. rewrite builder_fmt. simpl. destruct (spec_last _ ops); reflexivity.
Qed.

(* a call changes nothing but (through the aliased header map) the Content-Type and Authorization entries *)
Lemma do_call_fields p order c :
  let p' := fst (do_call p order c) in
  p_err p' = p_err p /\ p_url p' = p_url p /\ p_job p' = p_job p /\ p_grouping p' = p_grouping p /\
  p_auth p' = p_auth p /\ p_fmt p' = p_fmt p /\
  (forall k, k <> s_content_type -> k <> s_authorization ->
     map_get k (match p_hdr p' with Some h => h | None => [] end) =
     map_get k (match p_hdr p with Some h => h | None => [] end)).
Proof.
  assert (KA : forall h, (forall k, k <> s_content_type -> k <> s_authorization ->
                 map_get k h = map_get k (match p_hdr p with Some h => h | None => [] end)) ->
            let p' := keep_alias p h in
            p_err p' = p_err p /\ p_url p' = p_url p /\ p_job p' = p_job p /\ p_grouping p' = p_grouping p /\
            p_auth p' = p_auth p /\ p_fmt p' = p_fmt p /\
            (forall k, k <> s_content_type -> k <> s_authorization ->
               map_get k (match p_hdr p' with Some h => h | None => [] end) =
               map_get k (match p_hdr p with Some h => h | None => [] end))).
  { intros h H. unfold keep_alias. destruct (p_hdr p) eqn:P; simpl; repeat split; try reflexivity.
    - exact H.
    - intros. rewrite P. reflexivity. }
  assert (HA : forall k, k <> s_authorization ->
            map_get k (hdr_after_auth p) = map_get k (match p_hdr p with Some h => h | None => [] end)).
  { intros k N. rewrite hdr_after_auth_get. destruct (p_auth p) as [[u pw]|]; [|reflexivity].
    destruct (str_eqb s_authorization k) eqn:X; [apply str_eqb_eq in X; congruence|reflexivity]. }
  assert (HC : forall k, k <> s_content_type -> k <> s_authorization ->
            map_get k (map_set s_content_type [p_fmt p] (hdr_after_auth p)) =
            map_get k (match p_hdr p with Some h => h | None => [] end)).
  { intros k N1 N2. rewrite map_get_set.
    destruct (str_eqb s_content_type k) eqn:X; [apply str_eqb_eq in X; congruence|apply HA; exact N2]. }
  unfold do_call. destruct (p_err p) eqn:E; [simpl; repeat split; try reflexivity; exact E|].
  destruct (c_kind c).
  1,2: destruct (c_gather c) as [fs|]; [|simpl; repeat split; try reflexivity; exact E];
       destruct (check_families (p_grouping p) fs); [simpl; repeat split; try reflexivity; exact E|];
       cbv zeta; simpl fst; pose proof (KA _ HC) as Q; cbv zeta in Q; try rewrite E in Q; exact Q.
  assert (HD : forall k, k <> s_content_type -> k <> s_authorization ->
            map_get k (hdr_after_auth p) = map_get k (match p_hdr p with Some h => h | None => [] end))
    by (intros k _ N; apply HA; exact N).
  cbv zeta; simpl fst; pose proof (KA _ HD) as Q; cbv zeta in Q; try rewrite E in Q; exact Q.
Qed.

Lemma do_call_agrees host pre job ops p order c :
  agrees host pre job ops p -> agrees host pre job ops (fst (do_call p order c)).
Proof.
  intros A. destruct (do_call_fields p order c) as (F1 & F2 & F3 & F4 & F5 & F6 & F7).
  destruct A. constructor.
  - congruence.
  - congruence.
  - rewrite F1, F3, F4. assumption.
  - rewrite F1, F4. assumption.
  - intros k vs G N1 N2. rewrite (F7 k N1 N2). apply ag_hdr0; assumption.
  - congruence.
  - congruence.
Qed.

Section ModelSpec.
  Variables (host pre job : str) (ops : list bop) (p : pusher) (order : list (str * str)).
  Hypothesis A : agrees host pre job ops p.
  Hypothesis Hperm : Permutation order (p_grouping p).
  Hypothesis E : p_err p = None.

  Lemma model_headers_ok c r : o_req (snd (do_call p order c)) = Some r -> spec_headers_ok (c_kind c) ops (r_hdr r) = true.
  Proof.
    intros R. destruct (headers_applied_lemma p order c r R) as (H1 & H2 & H3). destruct A.
    unfold spec_headers_ok. apply andb_true_iff; split; [apply andb_true_iff; split|].
    - apply forallb_forall. intros [k vs] _. simpl.
      destruct (str_eqb k s_content_type) eqn:X; [reflexivity|].
      destruct (str_eqb k s_authorization) eqn:Y; [reflexivity|]. simpl.
      destruct (map_get k (spec_header ops)) as [vs'|] eqn:G; [|reflexivity].
      assert (N1 : k <> s_content_type) by (intros Z; subst; rewrite str_eqb_refl in X; discriminate).
      assert (N2 : k <> s_authorization) by (intros Z; subst; rewrite str_eqb_refl in Y; discriminate).
      unfold hdr_value_is. rewrite (H1 k vs' (ag_hdr0 k vs' G N1 N2) N1 N2). apply strs_eqb_refl.
    - rewrite <- ag_auth0. destruct (p_auth p) as [[u pw]|] eqn:X; [|reflexivity].
      unfold hdr_value_is. rewrite (H2 u pw eq_refl). apply strs_eqb_refl.
    - destruct (c_kind c) eqn:K; try reflexivity;
        (unfold hdr_value_is; rewrite H3 by discriminate; rewrite ag_fmt0; apply strs_eqb_refl).
  Qed.

  Lemma model_req_ok c r : o_req (snd (do_call p order c)) = Some r ->
    spec_req_ok pre job ops (c_kind c)
      (r_method r, match strip_prefix host (r_url r) with Some x => x | None => [] end, r_hdr r) = true.
  Proof.
    intros R. destruct (method_per_call_lemma p order c r R) as (M & U & _).
    unfold spec_req_ok. apply andb_true_iff; split; [apply andb_true_iff; split|].
    - rewrite M. apply Z.eqb_refl.
    - rewrite U. unfold full_url_with. rewrite (ag_url _ _ _ _ _ A), <- app_assoc, strip_prefix_app.
      apply (ag_key _ _ _ _ _ A); assumption.
    - apply model_headers_ok. exact R.
  Qed.
End ModelSpec.

(* every call on a state that agrees with the builder calls passes the specification checker *)
Lemma call_satisfies_spec host pre job ops p order c :
  agrees host pre job ops p -> Permutation order (p_grouping p) ->
  spec_call_ok pre job ops c (observe host (snd (do_call p order c))) = true.
Proof.
  intros A Hperm. unfold spec_call_ok.
  rewrite <- (ag_err _ _ _ _ _ A).
  destruct (p_err p) as [e|] eqn:E.
  - rewrite (do_call_err p order c e E). simpl. apply berr_eqb_refl.
  - pose proof (fun r => model_req_ok host pre job ops p order A Hperm E c r) as REQ.
    pose proof (status_classification_lemma p order c) as ST.
    assert (HN : forall fs, has_label (fun n => str_in n (spec_names ops)) fs =
                            has_label (fun n => map_has n (p_grouping p)) fs).
    { intros fs. apply has_label_ext. intros n. symmetry. apply (ag_names _ _ _ _ _ A E). }
    assert (SENT : forall r, o_req (snd (do_call p order c)) = Some r ->
      match c_tr c with
      | TFail => cerr_eqb (ob_err (observe host (snd (do_call p order c)))) CTransport &&
                 (ob_sent (observe host (snd (do_call p order c))) <=? 1) &&
                 match ob_req (observe host (snd (do_call p order c))) with
                 | Some r0 => spec_req_ok pre job ops (c_kind c) r0 && ob_body_ok (observe host (snd (do_call p order c)))
                 | None => true end
      | TStatus s => (ob_sent (observe host (snd (do_call p order c))) =? 1) &&
                 cerr_eqb (ob_err (observe host (snd (do_call p order c)))) (spec_status_err (c_kind c) s) &&
                 match ob_req (observe host (snd (do_call p order c))) with
                 | Some r0 => spec_req_ok pre job ops (c_kind c) r0 && ob_body_ok (observe host (snd (do_call p order c)))
                 | None => false end
      end = true).
    { intros r R. specialize (ST r R). specialize (REQ r R). unfold observe. rewrite R.
      cbn [ob_err ob_sent ob_req ob_body_ok]. rewrite ST.
      destruct (c_tr c); rewrite REQ, cerr_eqb_refl; reflexivity. }
    destruct (c_kind c) eqn:K.
    + (* Push *)
      destruct (c_gather c) as [fs|] eqn:G.
      * destruct (check_families (p_grouping p) fs) as [e|] eqn:CF.
        -- assert (D : do_call p order c = (p, mkO None e)) by (unfold do_call; rewrite E, K, G, CF; reflexivity).
           rewrite D. simpl. rewrite HN.
           destruct (check_families_some _ _ _ CF) as [(X & B)|(X & B)]; subst e; rewrite B; simpl.
           ++ reflexivity.
           ++ rewrite orb_true_r. simpl. apply orb_true_r.
        -- destruct (check_families_none _ _ CF) as (X & B). rewrite HN, X, B. simpl.
           assert (D : exists r, o_req (snd (do_call p order c)) = Some r)
             by (unfold do_call; rewrite E, K, G, CF; simpl; eexists; reflexivity).
           destruct D as (r & R). apply (SENT r R).
      * assert (D : do_call p order c = (p, mkO None CGather)) by (unfold do_call; rewrite E, K, G; reflexivity).
        rewrite D. reflexivity.
    + (* Add *)
      destruct (c_gather c) as [fs|] eqn:G.
      * destruct (check_families (p_grouping p) fs) as [e|] eqn:CF.
        -- assert (D : do_call p order c = (p, mkO None e)) by (unfold do_call; rewrite E, K, G, CF; reflexivity).
           rewrite D. simpl. rewrite HN.
           destruct (check_families_some _ _ _ CF) as [(X & B)|(X & B)]; subst e; rewrite B; simpl.
           ++ reflexivity.
           ++ rewrite orb_true_r. simpl. apply orb_true_r.
        -- destruct (check_families_none _ _ CF) as (X & B). rewrite HN, X, B. simpl.
           assert (D : exists r, o_req (snd (do_call p order c)) = Some r)
             by (unfold do_call; rewrite E, K, G, CF; simpl; eexists; reflexivity).
           destruct D as (r & R). apply (SENT r R).
      * assert (D : do_call p order c = (p, mkO None CGather)) by (unfold do_call; rewrite E, K, G; reflexivity).
        rewrite D. reflexivity.
    + (* Delete *)
      assert (D : exists r, o_req (snd (do_call p order c)) = Some r)
        by (unfold do_call; rewrite E, K; simpl; eexists; reflexivity).
      destruct D as (r & R). apply (SENT r R).
Qed.

(* any sequence of calls, each seeing the grouping map in its own iteration order *)
Fixpoint run_calls (p : pusher) (cs : list (list (str * str) * call)) : list outcome :=
  match cs with
  | [] => []
  | (order, c) :: r => let (p1, o) := do_call p order c in o :: run_calls p1 r
  end.

Fixpoint calls_ok (host pre job : str) (ops : list bop) (cs : list (list (str * str) * call)) (os : list outcome) : bool :=
  match cs, os with
  | [], [] => true
  | (_, c) :: cr, o :: or_ => spec_call_ok pre job ops c (observe host o) && calls_ok host pre job ops cr or_
  | _, _ => false
  end.

Lemma calls_satisfy_spec host pre job ops cs : forall p,
  agrees host pre job ops p -> Forall (fun oc => Permutation (fst oc) (p_grouping p)) cs ->
  calls_ok host pre job ops cs (run_calls p cs) = true.
Proof.
  induction cs as [|[order c] r IH]; intros p A H; [reflexivity|].
  inversion H as [|? ? Ho Hr]; subst. simpl in Ho.
  simpl. pose proof (call_satisfies_spec host pre job ops p order c A Ho) as S.
  pose proof (do_call_agrees host pre job ops p order c A) as A'.
  destruct (do_call_fields p order c) as (_ & _ & _ & F4 & _).
  destruct (do_call p order c) as [p1 o]. simpl in *. rewrite S. simpl. apply IH; [exact A'|].
  rewrite F4. exact Hr.
Qed.

Lemma model_satisfies_spec_lemma host pre url job ops cs :
  let p := run_builder (new url job) ops in
  p_url p = host ++ pre -> bytes job -> groupings_ok ops ->
  Forall (fun oc => Permutation (fst oc) (p_grouping p)) cs ->
  calls_ok host pre job ops cs (run_calls p cs) = true.
Proof.
  intros p Hurl Hjob Hg H. apply calls_satisfy_spec; [|exact H]. apply builder_agrees; assumption.
Qed.

(* ------------------------------------------------------------------------------------ *)
(* end-to-end corollaries, refutations, examples                                          *)
(* ------------------------------------------------------------------------------------ *)
(* whatever is done with a Pusher whose builder calls contain a failure: every later call returns the
   first such error and sends nothing *)
Lemma builder_failure_blocks_everything_lemma url job ops later :
  spec_first_error job ops <> None ->
  let p := run_builder (new url job) ops in
  exists e, spec_first_error job ops = Some e /\ p_err (fst (run p later)) = Some e /\
            Forall (fun o => o_req o = None /\ o_err o = CBuilder e) (snd (run p later)).
Proof.
  intros H p. destruct (spec_first_error job ops) as [e|] eqn:S; [|congruence].
  exists e. split; [reflexivity|]. apply first_error_sticky_lemma.
  unfold p. rewrite builder_error_is_first_lemma. exact S.
Qed.

(* KNOWN FINDING label-name-slash: a UTF-8-valid label name with '/' is accepted and inserted unescaped *)
Lemma label_name_slash_refuted_lemma :
  exists job n v,
    let ops := [BGrouping n v] in
    let p := run_builder (new (of_string "h") job) ops in
    label_name_valid n = true /\ p_err p = None /\
    decode_path [] (url_path (full_url_with p (p_grouping p))) = None /\
    spec_key_ok [] job ops (url_path (full_url_with p (p_grouping p))) = false.
Proof. exists (of_string "j"), (of_string "x/y"), (of_string "v"). vm_compute. repeat split; reflexivity. Qed.

(* KNOWN FINDING grouping-job: Grouping("job", v) is accepted; the key then carries the label job twice *)
Lemma grouping_job_refuted_lemma :
  exists job v,
    let ops := [BGrouping s_job v] in
    let p := run_builder (new (of_string "h") job) ops in
    p_err p = None /\
    decode_path [] (url_path (full_url_with p (p_grouping p))) = Some (job, [(s_job, v)]) /\
    spec_key_ok [] job ops (url_path (full_url_with p (p_grouping p))) = false.
Proof. exists (of_string "j"), (of_string "x"). vm_compute. repeat split; reflexivity. Qed.

Definition ex_ops : list bop :=
  [BGrouping (of_string "zone") (of_string "a b+c%?#;=.~"); BGrouping (of_string "empty") [];
   BGrouping (of_string "zone") [195; 169; 47]; BNoop; BBasicAuth (of_string "u") (of_string "p")].
Definition ex_p : pusher := run_builder (new (of_string "gw:9091/pre/") (of_string "a b/c")) ex_ops.

Lemma example_roundtrip_lemma :
  p_err ex_p = None /\
  full_url_with ex_p (p_grouping ex_p) =
    of_string "http://gw:9091/pre/metrics/job@base64/YSBiL2M/zone@base64/w6kv/empty@base64/=" /\
  decode_path (of_string "/pre") (url_path (full_url_with ex_p (p_grouping ex_p))) =
    Some (of_string "a b/c", [(of_string "zone", [195; 169; 47]); (of_string "empty", [])]) /\
  fst (encode_component (of_string "a b+c%?#;=.~")) = of_string "a%20b%2Bc%25%3F%23%3B%3D.~" /\
  basic_value (of_string "u") (of_string "p") = of_string "Basic dTpw".
Proof. vm_compute. repeat split; reflexivity. Qed.

(* the hypotheses of model_satisfies_spec are satisfiable, and the checker accepts the model's calls *)
Lemma example_calls_lemma :
  let cs := [(p_grouping ex_p, mkC KPush (Some [(of_string "m", [[(of_string "l", of_string "v")]])]) (TStatus 200));
             (rev (p_grouping ex_p), mkC KDelete None (TStatus 200));
             (p_grouping ex_p, mkC KAdd (Some [(of_string "m", [[(of_string "zone", of_string "v")]])]) (TStatus 202));
             (p_grouping ex_p, mkC KAdd None TFail)] in
  p_url ex_p = of_string "http://gw:9091" ++ of_string "/pre" /\
  bytesb (of_string "a b/c") = true /\
  map (fun o => (o_err o, match o_req o with Some r => r_method r | None => -1 end)) (run_calls ex_p cs) =
    [(CNone, 0); (CStatus 200, 2); (CGroupLabel, -1); (CGather, -1)] /\
  calls_ok (of_string "http://gw:9091") (of_string "/pre") (of_string "a b/c") ex_ops cs (run_calls ex_p cs) = true.
Proof. vm_compute. repeat split; reflexivity. Qed.

Lemma example_sticky_lemma :
  let later := [OB (BGrouping (of_string "ok") []); OC (mkC KPush (Some []) (TStatus 200)); OB (BCollector true);
                OC (mkC KDelete None (TStatus 202))] in
  map o_err (snd (run (run_builder (new (of_string "h") (of_string "j")) [BGrouping [255] []; BCollector true]) later)) =
    [CBuilder (EBadName [255]); CBuilder (EBadName [255])].
Proof. vm_compute. reflexivity. Qed.

Lemma example_utf8_lemma :
  map label_name_valid [of_string "x/y"; [255]; []; [237; 160; 128]; [226; 130; 172]; [240; 159; 152; 128]; [192; 128]; [244; 144; 128; 128]] =
  [true; false; false; false; true; true; false; false].
Proof. vm_compute. reflexivity. Qed.

(* ------------------------------------------------------------------------------------ *)
(* histories: builder methods and Push/Add/Delete calls in any interleaving on one Pusher *)
(* ------------------------------------------------------------------------------------ *)
(* one step of a Pusher's life; a call sees the grouping map in its own iteration order *)
Inductive hop := HB (b : bop) | HC (order : list (str * str)) (c : call).

(* every call of the history passes the specification checker, which is given the builder calls made
   BEFORE that call (so a Grouping between two requests must be visible in the second request) *)
Fixpoint hist_ok (host pre job : str) (ops : list bop) (p : pusher) (h : list hop) : bool :=
  match h with
  | [] => true
  | HB b :: r => hist_ok host pre job (ops ++ [b]) (apply_bop p b) r
  | HC order c :: r =>
      let (p1, o) := do_call p order c in
      spec_call_ok pre job ops c (observe host o) && hist_ok host pre job ops p1 r
  end.

(* the recorded error after every step is the first failure among the builder calls so far *)
Fixpoint hist_err_ok (job : str) (ops : list bop) (p : pusher) (h : list hop) : bool :=
  match h with
  | [] => true
  | HB b :: r => (match p_err (apply_bop p b), spec_first_error job (ops ++ [b]) with
                  | None, None => true | Some x, Some y => berr_eqb x y | _, _ => false end)
                 && hist_err_ok job (ops ++ [b]) (apply_bop p b) r
  | HC order c :: r => hist_err_ok job ops (fst (do_call p order c)) r
  end.

(* side conditions on a history: label names/values of Grouping calls, iteration orders are permutations *)
Fixpoint hist_wf (p : pusher) (h : list hop) : Prop :=
  match h with
  | [] => True
  | HB b :: r => (match b with BGrouping n v => name_ok n /\ n <> s_job /\ bytes v | _ => True end) /\
                 hist_wf (apply_bop p b) r
  | HC order c :: r => Permutation order (p_grouping p) /\ hist_wf (fst (do_call p order c)) r
  end.

(* the configuration fields other than the header map *)
Definition same_cfg (p q : pusher) : Prop :=
  p_err p = p_err q /\ p_url p = p_url q /\ p_job p = p_job q /\ p_grouping p = p_grouping q /\
  p_auth p = p_auth q /\ p_fmt p = p_fmt q.

Lemma same_cfg_bop p q o : same_cfg p q -> same_cfg (apply_bop p o) (apply_bop q o).
Proof.
  intros (A & B & C & D & F & G). unfold same_cfg.
  destruct o as [n v|f| |h|u pw|f]; simpl; rewrite <- ?A, <- ?D.
  - destruct (p_err p) eqn:E; [repeat split; simpl; congruence|].
    destruct (label_name_valid n); simpl; repeat split; simpl; congruence.
  - destruct (p_err p) eqn:E; [repeat split; simpl; congruence|]. destruct f; simpl; repeat split; simpl; congruence.
  - repeat split; assumption.
  - repeat split; assumption.
  - repeat split; assumption.
  - repeat split; assumption.
Qed.

Lemma same_cfg_call p q order c : same_cfg p q -> same_cfg (fst (do_call p order c)) q.
Proof.
  intros (A & B & C & D & F & G). destruct (do_call_fields p order c) as (F1 & F2 & F3 & F4 & F5 & F6 & _).
  unfold same_cfg. repeat split; congruence.
Qed.

Definition hdr_inv (ops : list bop) (p : pusher) : Prop :=
  forall k vs, map_get k (spec_header ops) = Some vs -> k <> s_content_type -> k <> s_authorization ->
               map_get k (match p_hdr p with Some h => h | None => [] end) = Some vs.

Lemma spec_last_app {A} (f : bop -> option A) a b :
  spec_last f (a ++ b) = match spec_last f b with Some x => Some x | None => spec_last f a end.
Proof.
  induction a as [|o r IH]; simpl; [destruct (spec_last f b); reflexivity|].
  rewrite IH. destruct (spec_last f b); reflexivity.
Qed.

Lemma hdr_inv_bop ops p o : hdr_inv ops p -> hdr_inv (ops ++ [o]) (apply_bop p o).
Proof.
  unfold hdr_inv, spec_header. intros H k vs. rewrite spec_last_app.
  destruct o as [n v|f| |h|u pw|f]; simpl.
  - destruct (p_err p); [apply H|]. destruct (label_name_valid n); apply H.
  - destruct (p_err p); [apply H|]. destruct f; apply H.
  - apply H.
  - destruct h; intros G _ _; [exact G|discriminate].
  - apply H.
  - apply H.
Qed.

Lemma hdr_inv_call ops p order c : hdr_inv ops p -> hdr_inv ops (fst (do_call p order c)).
Proof.
  intros H k vs G N1 N2. destruct (do_call_fields p order c) as (_ & _ & _ & _ & _ & _ & F7).
  rewrite (F7 k N1 N2). apply H; assumption.
Qed.

Lemma groupings_ok_snoc ops b :
  groupings_ok ops -> (match b with BGrouping n v => name_ok n /\ n <> s_job /\ bytes v | _ => True end) ->
  groupings_ok (ops ++ [b]).
Proof.
  intros H Hb n v I. apply in_app_or in I. destruct I as [I|[I|[]]]; [apply H; exact I|]. subst b. exact Hb.
Qed.

Lemma run_builder_snoc p ops b : run_builder p (ops ++ [b]) = apply_bop (run_builder p ops) b.
Proof. unfold run_builder. rewrite fold_left_app. reflexivity. Qed.

Section Histories.
  Variables (host pre url job : str).
  Hypothesis Hurl : p_url (new url job) = host ++ pre.
  Hypothesis Hjob : bytes job.

  (* the state reached after the builder calls `ops` (and any calls in between) *)
  Definition reached (ops : list bop) (p : pusher) : Prop :=
    same_cfg p (run_builder (new url job) ops) /\ hdr_inv ops p /\ groupings_ok ops.

  Lemma reached_agrees ops p : reached ops p -> agrees host pre job ops p.
  Proof.
    intros ((A & B & C & D & F & G) & HI & HG).
    set (q := run_builder (new url job) ops) in *.
    assert (Q : agrees host pre job ops q).
    { apply builder_agrees; try assumption. unfold q. destruct (run_builder_job_url ops (new url job)) as (_ & U).
      rewrite U. exact Hurl. }
    destruct Q. constructor.
    - congruence.
    - congruence.
    - rewrite A, C, D. assumption.
    - rewrite A, D. assumption.
    - exact HI.
    - congruence.
    - congruence.
  Qed.

  Lemma reached_bop ops p b : reached ops p ->
    (match b with BGrouping n v => name_ok n /\ n <> s_job /\ bytes v | _ => True end) ->
    reached (ops ++ [b]) (apply_bop p b).
  Proof.
    intros (S & HI & HG) Hb. split; [|split].
    - rewrite run_builder_snoc. apply same_cfg_bop. exact S.
    - apply hdr_inv_bop. exact HI.
    - apply groupings_ok_snoc; assumption.
  Qed.

  Lemma reached_call ops p order c : reached ops p -> reached ops (fst (do_call p order c)).
  Proof.
    intros (S & HI & HG). split; [|split]; [apply same_cfg_call; exact S|apply hdr_inv_call; exact HI|exact HG].
  Qed.

  Lemma hist_ok_reached h : forall ops p, reached ops p -> hist_wf p h -> hist_ok host pre job ops p h = true.
  Proof.
    induction h as [|[b|order c] r IH]; intros ops p R W; [reflexivity| |].
    - simpl in *. destruct W as (Wb & Wr). apply IH; [apply reached_bop; assumption|exact Wr].
    - simpl in *. destruct W as (Wo & Wr).
      pose proof (call_satisfies_spec host pre job ops p order c (reached_agrees ops p R) Wo) as S.
      pose proof (reached_call ops p order c R) as R'.
      destruct (do_call p order c) as [p1 o]. simpl in *. rewrite S. simpl. apply IH; assumption.
  Qed.

  Lemma hist_err_ok_reached h : forall ops p, same_cfg p (run_builder (new url job) ops) -> hist_err_ok job ops p h = true.
  Proof.
    induction h as [|[b|order c] r IH]; intros ops p S; [reflexivity| |].
    - simpl. assert (S' : same_cfg (apply_bop p b) (run_builder (new url job) (ops ++ [b])))
        by (rewrite run_builder_snoc; apply same_cfg_bop; exact S).
      rewrite (IH _ _ S'), andb_true_r. destruct S' as (A & _). rewrite A, builder_error_is_first_lemma.
      destruct (spec_first_error job (ops ++ [b])); [apply berr_eqb_refl|reflexivity].
    - simpl. apply IH. apply same_cfg_call. exact S.
  Qed.

  Lemma reached_new : reached [] (new url job).
  Proof.
    split; [|split].
    - unfold same_cfg. simpl. repeat split; reflexivity.
    - intros k vs G. discriminate.
    - intros n v [].
  Qed.

  Lemma history_satisfies_spec_lemma h :
    hist_wf (new url job) h ->
    hist_ok host pre job [] (new url job) h = true /\ hist_err_ok job [] (new url job) h = true.
  Proof.
    intros W. split; [apply hist_ok_reached; [exact reached_new|exact W]|].
    apply hist_err_ok_reached. apply reached_new.
  Qed.
End Histories.

(* a Grouping between two requests changes the key of the second one (same number of labels) *)
Lemma example_history_lemma :
  let h := [HB (BGrouping (of_string "zone") (of_string "a")); HC [(of_string "zone", of_string "a")] (mkC KPush (Some []) (TStatus 200));
            HB (BGrouping (of_string "zone") (of_string "b/c")); HC [(of_string "zone", of_string "b/c")] (mkC KDelete None (TStatus 202))] in
  hist_ok (of_string "http://h") [] (of_string "j") [] (new (of_string "h") (of_string "j")) h = true /\
  map (fun o => match o_req o with Some r => url_path (r_url r) | None => [] end)
      (snd (run (new (of_string "h") (of_string "j"))
                [OB (BGrouping (of_string "zone") (of_string "a")); OC (mkC KPush (Some []) (TStatus 200));
                 OB (BGrouping (of_string "zone") (of_string "b/c")); OC (mkC KDelete None (TStatus 202))])) =
    [of_string "/metrics/job/j/zone/a"; of_string "/metrics/job/j/zone@base64/Yi9j"].
Proof. vm_compute. split; reflexivity. Qed.
