(* Proofs/C15_proofs.v -- lemmas for C15 (Model/Push.v). *)
From Coq Require Import Strings.String.
From Coq Require Import ZArith List Bool Lia Permutation.
From Verif Require Import Base.Str Proofs.Str_facts Model.Push.
Import ListNotations.
Open Scope Z_scope.

(* ------------------------------------------------------------------------------------ *)
(* constants are the string literals of push.go                                           *)
(* ------------------------------------------------------------------------------------ *)
Lemma constants_lemma :
  s_job = of_string "job" /\ s_b64suffix = of_string "@base64" /\ s_metrics = of_string "/metrics/" /\
  s_scheme_sep = of_string "://" /\ s_http = of_string "http://" /\ s_basic = of_string "Basic " /\
  s_content_type = of_string "Content-Type" /\ s_authorization = of_string "Authorization".
Proof. vm_compute. repeat split; reflexivity. Qed.

(* ------------------------------------------------------------------------------------ *)
(* generic helpers                                                                        *)
(* ------------------------------------------------------------------------------------ *)
Definition bytes (s : str) : Prop := Forall (fun c => 0 <= c < 256) s.

Lemma bytesb_bytes s : bytesb s = true <-> bytes s.
Proof.
  unfold bytesb, bytes. rewrite forallb_forall, Forall_forall. unfold is_byte.
  split; intros H x Hx; specialize (H x Hx).
  - apply andb_true_iff in H. destruct H as [A B]. apply Z.leb_le in A. apply Z.ltb_lt in B. lia.
  - apply andb_true_iff. split; [apply Z.leb_le|apply Z.ltb_lt]; lia.
Qed.

(* a boolean predicate checked on 0..n-1 by computation holds on the whole range *)
Lemma range_sweep (P : Z -> bool) (n : nat) :
  forallb P (map Z.of_nat (seq 0 n)) = true -> forall v, 0 <= v < Z.of_nat n -> P v = true.
Proof.
  intros H v Hv. rewrite forallb_forall in H. apply H.
  apply in_map_iff. exists (Z.to_nat v). split; [lia|]. apply in_seq. lia.
Qed.

Lemma list_ind3 {A} (P : list A -> Prop) :
  P [] -> (forall a, P [a]) -> (forall a b, P [a; b]) ->
  (forall a b c r, P r -> P (a :: b :: c :: r)) -> forall l, P l.
Proof.
  intros H0 H1 H2 H3 l.
  assert (G : P l /\ (forall a, P (a :: l)) /\ (forall a b, P (a :: b :: l))).
  { induction l as [|x l IH].
    - repeat split; auto.
    - destruct IH as (I0 & I1 & I2). repeat split; auto. }
  apply G.
Qed.

Lemma strip_prefix_app p r : strip_prefix p (p ++ r) = Some r.
Proof. induction p as [|x p IH]; simpl; [destruct r; reflexivity|]. rewrite Z.eqb_refl. exact IH. Qed.

Lemma strip_prefix_some p s r : strip_prefix p s = Some r -> s = p ++ r.
Proof.
  revert s; induction p as [|y p IH]; intros s H.
  - destruct s; simpl in H; inversion H; reflexivity.
  - destruct s as [|x s]; simpl in H; [discriminate|].
    destruct (x =? y) eqn:E; [|discriminate]. apply Z.eqb_eq in E. subst. simpl. f_equal. apply IH. exact H.
Qed.

(* ------------------------------------------------------------------------------------ *)
(* percent encoding                                                                       *)
(* ------------------------------------------------------------------------------------ *)
Definition esc (c : Z) : str := replace_plus (qe_byte c).

Lemma replace_plus_app a b : replace_plus (a ++ b) = replace_plus a ++ replace_plus b.
Proof. unfold replace_plus. apply flat_map_app. Qed.

Lemma escape_flat s : replace_plus (query_escape s) = flat_map esc s.
Proof.
  induction s as [|c s IH]; [reflexivity|].
  unfold query_escape in *. simpl. rewrite replace_plus_app, IH. reflexivity.
Qed.

Lemma hex_val_digit v : 0 <= v < 16 -> hex_val (hex_digit v) = Some v.
Proof.
  intros H.
  pose (P := fun v => match hex_val (hex_digit v) with Some w => w =? v | None => false end).
  assert (G : P v = true) by (apply (range_sweep P 16); [vm_compute; reflexivity|simpl; lia]).
  unfold P in G. destruct (hex_val (hex_digit v)); [|discriminate]. apply Z.eqb_eq in G. subst. reflexivity.
Qed.

(* characters produced by hex_digit: never '+', '/', '%' *)
Lemma hex_digit_class v : 0 <= v < 16 ->
  (hex_digit v =? 43) = false /\ hex_digit v <> 47 /\ hex_digit v <> 37.
Proof.
  intros H.
  pose (P := fun v => negb (hex_digit v =? 43) && negb (hex_digit v =? 47) && negb (hex_digit v =? 37)).
  assert (G : P v = true) by (apply (range_sweep P 16); [vm_compute; reflexivity|simpl; lia]).
  unfold P in G. apply andb_true_iff in G. destruct G as [G G3]. apply andb_true_iff in G. destruct G as [G1 G2].
  apply negb_true_iff in G1, G2, G3. repeat split; [exact G1| |]; apply Z.eqb_neq; assumption.
Qed.

Lemma esc_cases c : 0 <= c < 256 ->
  esc c = if qe_unreserved c then [c]
          else if c =? 32 then [37; 50; 48]
          else [37; hex_digit (c / 16); hex_digit (c mod 16)].
Proof.
  intros H. unfold esc, qe_byte.
  destruct (qe_unreserved c) eqn:U.
  - unfold replace_plus. simpl. destruct (c =? 43) eqn:E; [|reflexivity].
    apply Z.eqb_eq in E. subst. vm_compute in U. discriminate.
  - destruct (c =? 32) eqn:E; [reflexivity|].
    assert (H1 : 0 <= c / 16 < 16) by (split; [apply Z.div_pos; lia|apply Z.div_lt_upper_bound; lia]).
    assert (H2 : 0 <= c mod 16 < 16) by (apply Z.mod_pos_bound; lia).
    destruct (hex_digit_class _ H1) as (A & _). destruct (hex_digit_class _ H2) as (B & _).
    unfold replace_plus. simpl. rewrite A, B. reflexivity.
Qed.

Lemma pct_decode_esc c rest : 0 <= c < 256 ->
  pct_decode (esc c ++ rest) = option_map (cons c) (pct_decode rest).
Proof.
  intros H. rewrite (esc_cases c H).
  destruct (qe_unreserved c) eqn:U.
  - simpl. destruct (c =? 37) eqn:E; [|reflexivity].
    apply Z.eqb_eq in E. subst. vm_compute in U. discriminate.
  - destruct (c =? 32) eqn:E.
    + apply Z.eqb_eq in E. subst. simpl. destruct (pct_decode rest); reflexivity.
    + assert (H1 : 0 <= c / 16 < 16) by (split; [apply Z.div_pos; lia|apply Z.div_lt_upper_bound; lia]).
      assert (H2 : 0 <= c mod 16 < 16) by (apply Z.mod_pos_bound; lia).
      change (pct_decode ([37; hex_digit (c / 16); hex_digit (c mod 16)] ++ rest))
        with (match hex_val (hex_digit (c / 16)), hex_val (hex_digit (c mod 16)), pct_decode rest with
              | Some x, Some y, Some t => Some (16 * x + y :: t)
              | _, _, _ => None
              end).
      rewrite (hex_val_digit _ H1), (hex_val_digit _ H2).
      rewrite <- (Z.div_mod c 16) by lia. destruct (pct_decode rest); reflexivity.
Qed.

Lemma pct_roundtrip_lemma s : bytes s -> pct_decode (replace_plus (query_escape s)) = Some s.
Proof.
  intros H. rewrite escape_flat. induction H as [|c s Hc Hs IH]; [reflexivity|].
  simpl. rewrite (pct_decode_esc c _ Hc), IH. reflexivity.
Qed.

(* the escaped form contains no '/' *)
Lemma esc_no_slash c : 0 <= c < 256 -> Forall (fun x => x <> 47) (esc c).
Proof.
  intros H. rewrite (esc_cases c H).
  destruct (qe_unreserved c) eqn:U.
  - constructor; [|constructor]. intros E. subst. vm_compute in U. discriminate.
  - destruct (c =? 32).
    + repeat constructor; lia.
    + assert (H1 : 0 <= c / 16 < 16) by (split; [apply Z.div_pos; lia|apply Z.div_lt_upper_bound; lia]).
      assert (H2 : 0 <= c mod 16 < 16) by (apply Z.mod_pos_bound; lia).
      destruct (hex_digit_class _ H1) as (_ & A & _). destruct (hex_digit_class _ H2) as (_ & B & _).
      repeat constructor; try assumption; lia.
Qed.

Lemma escaped_no_slash s : bytes s -> Forall (fun x => x <> 47) (replace_plus (query_escape s)).
Proof.
  intros H. rewrite escape_flat. induction H as [|c s Hc Hs IH]; [constructor|].
  simpl. apply Forall_app. split; [apply esc_no_slash; assumption|exact IH].
Qed.

Lemma esc_nonempty c : 0 <= c < 256 -> esc c <> [].
Proof.
  intros H. rewrite (esc_cases c H). destruct (qe_unreserved c); [discriminate|]. destruct (c =? 32); discriminate.
Qed.

(* ------------------------------------------------------------------------------------ *)
(* base64                                                                                 *)
(* ------------------------------------------------------------------------------------ *)
Definition sextets (l : list Z) : Prop := Forall (fun v => 0 <= v < 64) l.

Lemma b64_sextets_range s : bytes s -> sextets (b64_sextets s).
Proof.
  unfold bytes, sextets. induction s as [|a|a b|a b c s IHs] using list_ind3; intros H.
  - constructor.
  - inversion H; subst. simpl. repeat constructor; try (apply Z.div_pos; lia); try (apply Z.div_lt_upper_bound; lia);
      pose proof (Z.mod_pos_bound a 4); lia.
  - inversion H as [|? ? Ha H']; subst. inversion H' as [|? ? Hb _]; subst. simpl.
    pose proof (Z.mod_pos_bound a 4). pose proof (Z.mod_pos_bound b 16).
    assert (0 <= a / 4 < 64) by (split; [apply Z.div_pos; lia|apply Z.div_lt_upper_bound; lia]).
    assert (0 <= b / 16 < 16) by (split; [apply Z.div_pos; lia|apply Z.div_lt_upper_bound; lia]).
    repeat constructor; lia.
  - inversion H as [|? ? Ha H1]; subst. inversion H1 as [|? ? Hb H2]; subst. inversion H2 as [|? ? Hc H3]; subst.
    pose proof (Z.mod_pos_bound a 4). pose proof (Z.mod_pos_bound b 16). pose proof (Z.mod_pos_bound c 64).
    assert (0 <= a / 4 < 64) by (split; [apply Z.div_pos; lia|apply Z.div_lt_upper_bound; lia]).
    assert (0 <= b / 16 < 16) by (split; [apply Z.div_pos; lia|apply Z.div_lt_upper_bound; lia]).
    assert (0 <= c / 64 < 4) by (split; [apply Z.div_pos; lia|apply Z.div_lt_upper_bound; lia]).
    change (b64_sextets (a :: b :: c :: s))
      with (a / 4 :: (a mod 4) * 16 + b / 16 :: (b mod 16) * 4 + c / 64 :: c mod 64 :: b64_sextets s).
    repeat (constructor; [lia|]). apply IHs. assumption.
Qed.

(* the arithmetic of regrouping 3 x 8 bits as 4 x 6 bits and back *)
Lemma regroup_1 a b : 0 <= a < 256 -> 0 <= b < 256 -> a / 4 * 4 + ((a mod 4) * 16 + b / 16) / 16 = a.
Proof.
  intros Ha Hb.
  assert (E : ((a mod 4) * 16 + b / 16) / 16 = a mod 4).
  { rewrite Z.div_add_l by lia. rewrite (Z.div_small (b / 16) 16); [lia|].
    split; [apply Z.div_pos; lia|apply Z.div_lt_upper_bound; lia]. }
  rewrite E. pose proof (Z.div_mod a 4). lia.
Qed.
Lemma regroup_2 a b c : 0 <= a < 256 -> 0 <= b < 256 -> 0 <= c < 256 ->
  (((a mod 4) * 16 + b / 16) mod 16) * 16 + ((b mod 16) * 4 + c / 64) / 4 = b.
Proof.
  intros Ha Hb Hc.
  assert (Hb16 : 0 <= b / 16 < 16) by (split; [apply Z.div_pos; lia|apply Z.div_lt_upper_bound; lia]).
  assert (Hc64 : 0 <= c / 64 < 4) by (split; [apply Z.div_pos; lia|apply Z.div_lt_upper_bound; lia]).
  assert (E1 : ((a mod 4) * 16 + b / 16) mod 16 = b / 16).
  { rewrite Z.add_comm, Z.mod_add by lia. apply Z.mod_small. lia. }
  assert (E2 : ((b mod 16) * 4 + c / 64) / 4 = b mod 16).
  { rewrite Z.div_add_l by lia. rewrite (Z.div_small (c / 64) 4) by lia. lia. }
  rewrite E1, E2. pose proof (Z.div_mod b 16). lia.
Qed.
Lemma regroup_2' a b : 0 <= a < 256 -> 0 <= b < 256 ->
  (((a mod 4) * 16 + b / 16) mod 16) * 16 + ((b mod 16) * 4) / 4 = b.
Proof.
  intros Ha Hb.
  assert (Hb16 : 0 <= b / 16 < 16) by (split; [apply Z.div_pos; lia|apply Z.div_lt_upper_bound; lia]).
  assert (E1 : ((a mod 4) * 16 + b / 16) mod 16 = b / 16).
  { rewrite Z.add_comm, Z.mod_add by lia. apply Z.mod_small. lia. }
  rewrite E1, Z.div_mul by lia. pose proof (Z.div_mod b 16). lia.
Qed.
Lemma regroup_3 b c : 0 <= b < 256 -> 0 <= c < 256 -> (((b mod 16) * 4 + c / 64) mod 4) * 64 + c mod 64 = c.
Proof.
  intros Hb Hc.
  assert (Hc64 : 0 <= c / 64 < 4) by (split; [apply Z.div_pos; lia|apply Z.div_lt_upper_bound; lia]).
  assert (E : ((b mod 16) * 4 + c / 64) mod 4 = c / 64).
  { rewrite Z.add_comm, Z.mod_add by lia. apply Z.mod_small. lia. }
  rewrite E. pose proof (Z.div_mod c 64). lia.
Qed.
Lemma regroup_1' a : 0 <= a < 256 -> a / 4 * 4 + ((a mod 4) * 16) / 16 = a.
Proof. intros Ha. rewrite Z.div_mul by lia. pose proof (Z.div_mod a 4). lia. Qed.

Lemma b64_bytes_sextets s : bytes s -> b64_bytes (b64_sextets s) = Some s.
Proof.
  unfold bytes. induction s as [|a|a b|a b c s IHs] using list_ind3; intros H.
  - reflexivity.
  - inversion H; subst. simpl. rewrite regroup_1' by assumption. reflexivity.
  - inversion H as [|? ? Ha H']; subst. inversion H' as [|? ? Hb _]; subst.
    change (b64_bytes (b64_sextets [a; b]))
      with (Some [a / 4 * 4 + ((a mod 4) * 16 + b / 16) / 16;
                  (((a mod 4) * 16 + b / 16) mod 16) * 16 + ((b mod 16) * 4) / 4]).
    rewrite regroup_1, regroup_2' by assumption. reflexivity.
  - inversion H as [|? ? Ha H1]; subst. inversion H1 as [|? ? Hb H2]; subst. inversion H2 as [|? ? Hc H3]; subst.
    change (b64_bytes (b64_sextets (a :: b :: c :: s)))
      with (option_map (fun t => a / 4 * 4 + ((a mod 4) * 16 + b / 16) / 16
                                 :: (((a mod 4) * 16 + b / 16) mod 16) * 16 + ((b mod 16) * 4 + c / 64) / 4
                                 :: (((b mod 16) * 4 + c / 64) mod 4) * 64 + c mod 64 :: t)
                       (b64_bytes (b64_sextets s))).
    rewrite (IHs H3). simpl. rewrite regroup_1, regroup_2, regroup_3 by assumption. reflexivity.
Qed.

Lemma b64url_val_char v : 0 <= v < 64 -> b64url_val (b64_char 45 95 v) = Some v.
Proof.
  intros H.
  pose (P := fun v => match b64url_val (b64_char 45 95 v) with Some w => w =? v | None => false end).
  assert (G : P v = true) by (apply (range_sweep P 64); [vm_compute; reflexivity|simpl; lia]).
  unfold P in G. destruct (b64url_val (b64_char 45 95 v)); [|discriminate]. apply Z.eqb_eq in G. subst. reflexivity.
Qed.

(* characters of the URL alphabet: never '=', LF, CR, '/', '%' *)
Definition plain_b64_char (c : Z) : Prop := c <> 61 /\ c <> 10 /\ c <> 13 /\ c <> 47 /\ c <> 37.
Lemma b64_char_class v : 0 <= v < 64 -> plain_b64_char (b64_char 45 95 v).
Proof.
  intros H.
  pose (P := fun v => let c := b64_char 45 95 v in
                      negb (c =? 61) && negb (c =? 10) && negb (c =? 13) && negb (c =? 47) && negb (c =? 37)).
  assert (G : P v = true) by (apply (range_sweep P 64); [vm_compute; reflexivity|simpl; lia]).
  unfold P in G. cbv zeta in G.
  repeat (apply andb_true_iff in G; destruct G as [G ?]).
  unfold plain_b64_char. repeat split; apply Z.eqb_neq; apply negb_true_iff; assumption.
Qed.

Lemma b64url_encode_class s : bytes s -> Forall plain_b64_char (b64url_encode s).
Proof.
  intros H. apply b64_sextets_range in H. unfold b64url_encode, sextets in *.
  induction H as [|v l Hv Hl IH]; simpl; constructor; [apply b64_char_class; assumption|exact IH].
Qed.

Lemma trim_right_eq_id l : Forall (fun c => c <> 61) l -> trim_right_eq l = l.
Proof.
  induction 1 as [|c l Hc Hl IH]; [reflexivity|]. simpl. rewrite IH.
  destruct (c =? 61) eqn:E; [apply Z.eqb_eq in E; contradiction|reflexivity].
Qed.

Lemma filter_id {A} (f : A -> bool) l : Forall (fun x => f x = true) l -> filter f l = l.
Proof. induction 1 as [|x l Hx Hl IH]; [reflexivity|]. simpl. rewrite Hx, IH. reflexivity. Qed.

Lemma mapM_opt_map {A B} (f : A -> option B) (g : B -> A) l :
  Forall (fun y => f (g y) = Some y) l -> mapM_opt f (map g l) = Some l.
Proof. induction 1 as [|y l Hy Hl IH]; [reflexivity|]. simpl. rewrite Hy, IH. reflexivity. Qed.

Lemma b64url_roundtrip_lemma s : bytes s -> b64url_decode (b64url_encode s) = Some s.
Proof.
  intros H. unfold b64url_decode.
  pose proof (b64url_encode_class s H) as C.
  rewrite trim_right_eq_id by (eapply Forall_impl; [|exact C]; intros c Hc; apply Hc).
  rewrite filter_id.
  2:{ eapply Forall_impl; [|exact C]. intros c (_ & A & B & _). simpl.
      destruct (c =? 10) eqn:E1; [apply Z.eqb_eq in E1; contradiction|].
      destruct (c =? 13) eqn:E2; [apply Z.eqb_eq in E2; contradiction|]. reflexivity. }
  unfold b64url_encode. rewrite mapM_opt_map.
  - apply b64_bytes_sextets. exact H.
  - pose proof (b64_sextets_range s H) as R. unfold sextets in R.
    eapply Forall_impl; [|exact R]. intros v Hv. apply b64url_val_char. exact Hv.
Qed.

(* ------------------------------------------------------------------------------------ *)
(* encodeComponent                                                                        *)
(* ------------------------------------------------------------------------------------ *)
Lemma contains_byte_false c s : contains_byte c s = false -> Forall (fun x => x <> c) s.
Proof.
  unfold contains_byte. induction s as [|x s IH]; intros H; [constructor|].
  simpl in H. apply orb_false_iff in H. destruct H as [H1 H2]. constructor; [|apply IH; exact H2].
  apply Z.eqb_neq in H1. congruence.
Qed.

(* what encodeComponent returns is a usable path component and decodes to the input *)
Lemma encode_component_lemma s : bytes s ->
  let (e, b) := encode_component s in
  (if b then b64url_decode e else pct_decode e) = Some s /\
  e <> [] /\ Forall (fun x => x <> 47) e /\ (b = true -> Forall (fun x => x <> 37) e).
Proof.
  intros H. unfold encode_component.
  destruct s as [|c s].
  - simpl. repeat split; try discriminate; repeat constructor; lia.
  - cbv [is_nil]. destruct (contains_byte 47 (c :: s)) eqn:C.
    + pose proof (b64url_encode_class _ H) as K. repeat split.
      * apply b64url_roundtrip_lemma. exact H.
      * unfold b64url_encode. simpl. destruct s as [|? [|? ?]]; discriminate.
      * eapply Forall_impl; [|exact K]. intros x Hx. apply Hx.
      * intros _. eapply Forall_impl; [|exact K]. intros x Hx. apply Hx.
    + repeat split.
      * apply pct_roundtrip_lemma. exact H.
      * rewrite escape_flat. simpl. inversion H; subst.
        pose proof (esc_nonempty c ltac:(assumption)). destruct (esc c); [contradiction|discriminate].
      * apply escaped_no_slash. exact H.
      * discriminate.
Qed.

(* ------------------------------------------------------------------------------------ *)
(* strings.Split / strings.Join                                                           *)
(* ------------------------------------------------------------------------------------ *)
Definition noslash (a : str) : Prop := Forall (fun x => x <> 47) a.

Lemma split47_nonempty l : split47 l <> [].
Proof. destruct l as [|c r]; simpl; [discriminate|]. destruct (c =? 47); [discriminate|]. destruct (split47 r); discriminate. Qed.

Lemma split47_app a r : noslash a -> split47 (a ++ 47 :: r) = a :: split47 r.
Proof.
  induction 1 as [|c a Hc Ha IH]; [reflexivity|].
  simpl. destruct (c =? 47) eqn:E; [apply Z.eqb_eq in E; contradiction|]. rewrite IH. reflexivity.
Qed.

Lemma split47_noslash a : noslash a -> split47 a = [a].
Proof.
  induction 1 as [|c a Hc Ha IH]; [reflexivity|].
  simpl. destruct (c =? 47) eqn:E; [apply Z.eqb_eq in E; contradiction|]. rewrite IH. reflexivity.
Qed.

Lemma split_join segs : segs <> [] -> Forall noslash segs -> split47 (join47 segs) = segs.
Proof.
  intros NE H. induction H as [|a r Ha Hr IH]; [contradiction|].
  destruct r as [|b r].
  - simpl. apply split47_noslash. exact Ha.
  - change (join47 (a :: b :: r)) with (a ++ 47 :: join47 (b :: r)).
    rewrite split47_app by exact Ha. rewrite IH by discriminate. reflexivity.
Qed.

(* ------------------------------------------------------------------------------------ *)
(* decoding the key                                                                       *)
(* ------------------------------------------------------------------------------------ *)
(* label names over [A-Za-z0-9_:] (what a Pushgateway accepts, plus ':' and a leading digit) *)
Definition name_charb (c : Z) : bool := is_alnum c || (c =? 95) || (c =? 58).
Definition name_ok (n : str) : Prop := n <> [] /\ Forall (fun c => name_charb c = true) n.

Lemma name_char_plain c : name_charb c = true -> c <> 47 /\ c <> 37 /\ c <> 64.
Proof.
  intros H. repeat split; intros E; subst; vm_compute in H; discriminate.
Qed.

Lemma pct_decode_id l : Forall (fun c => c <> 37) l -> pct_decode l = Some l.
Proof.
  induction 1 as [|c l Hc Hl IH]; [reflexivity|].
  simpl. destruct (c =? 37) eqn:E; [apply Z.eqb_eq in E; contradiction|]. rewrite IH. reflexivity.
Qed.

Lemma split_b64_suffix_app n : split_b64_suffix (n ++ s_b64suffix) = (n, true).
Proof.
  unfold split_b64_suffix. rewrite rev_app_distr, strip_prefix_app, rev_involutive. reflexivity.
Qed.

Lemma split_b64_suffix_none n : ~ In 64 n -> split_b64_suffix n = (n, false).
Proof.
  intros H. unfold split_b64_suffix.
  destruct (strip_prefix (rev s_b64suffix) (rev n)) eqn:E; [|reflexivity].
  apply strip_prefix_some in E. exfalso. apply H. apply in_rev. rewrite E.
  apply in_or_app. left. apply in_rev. rewrite rev_involutive. simpl. left. reflexivity.
Qed.

Lemma name_ok_facts n : name_ok n -> noslash n /\ Forall (fun c => c <> 37) n /\ ~ In 64 n.
Proof.
  intros (_ & H). repeat split.
  - eapply Forall_impl; [|exact H]. intros c Hc. apply name_char_plain in Hc. tauto.
  - eapply Forall_impl; [|exact H]. intros c Hc. apply name_char_plain in Hc. tauto.
  - intros I. rewrite Forall_forall in H. apply H in I. vm_compute in I. discriminate.
Qed.

Lemma suffix_plain : noslash s_b64suffix /\ Forall (fun c => c <> 37) s_b64suffix.
Proof. split; repeat constructor; lia. Qed.

(* the two components of one label: free of '/', and decoded back by the gateway rules *)
Lemma component_pair_lemma n v rest : name_ok n -> bytes v ->
  noslash (fst (component_pair n v)) /\ noslash (snd (component_pair n v)) /\
  decode_pairs (fst (component_pair n v) :: snd (component_pair n v) :: rest) =
  option_map (cons (n, v)) (decode_pairs rest).
Proof.
  intros Hn Hv. destruct (name_ok_facts n Hn) as (N1 & N2 & N3). destruct suffix_plain as (S1 & S2).
  pose proof (encode_component_lemma v Hv) as E. unfold component_pair.
  destruct (encode_component v) as [e b]. destruct E as (D & NE & NS & P).
  destruct b; simpl fst; simpl snd.
  - repeat split; [apply Forall_app; split; assumption|exact NS|].
    simpl. rewrite pct_decode_id by (apply Forall_app; split; assumption).
    rewrite pct_decode_id by (apply P; reflexivity).
    rewrite split_b64_suffix_app, D. destruct (decode_pairs rest); reflexivity.
  - repeat split; [exact N1|exact NS|].
    simpl. rewrite pct_decode_id by exact N2. rewrite D.
    rewrite split_b64_suffix_none by exact N3. destruct (decode_pairs rest); reflexivity.
Qed.

Definition pairs_ok (l : list (str * str)) : Prop := Forall (fun nv => name_ok (fst nv) /\ bytes (snd nv)) l.

Lemma flatten_pairs_cons p l : flatten_pairs (p :: l) = fst p :: snd p :: flatten_pairs l.
Proof. destruct p; reflexivity. Qed.

Lemma decode_pairs_flatten l : pairs_ok l ->
  Forall noslash (flatten_pairs (map (fun nv => component_pair (fst nv) (snd nv)) l)) /\
  decode_pairs (flatten_pairs (map (fun nv => component_pair (fst nv) (snd nv)) l)) = Some l.
Proof.
  induction 1 as [|[n v] l (Hn & Hv) Hl (IH1 & IH2)]; [split; [constructor|reflexivity]|].
  simpl in Hn, Hv. simpl map. rewrite flatten_pairs_cons.
  pose proof (component_pair_lemma n v
    (flatten_pairs (map (fun nv => component_pair (fst nv) (snd nv)) l)) Hn Hv) as (A & B & C).
  split; [constructor; [exact A|constructor; [exact B|exact IH1]]|].
  rewrite C, IH2. reflexivity.
Qed.

Lemma s_job_name_ok : name_ok s_job.
Proof. split; [discriminate|]. repeat constructor. Qed.

Lemma decode_key_lemma job order : bytes job -> pairs_ok order ->
  decode_key (key_path job order) = Some (job, order).
Proof.
  intros Hj Ho. unfold decode_key, key_path.
  assert (P : pairs_ok ((s_job, job) :: order)) by (constructor; [split; [exact s_job_name_ok|exact Hj]|exact Ho]).
  destruct (decode_pairs_flatten _ P) as (NS & D).
  change (component_pair s_job job :: map (fun nv => component_pair (fst nv) (snd nv)) order)
    with (map (fun nv => component_pair (fst nv) (snd nv)) ((s_job, job) :: order)).
  rewrite split_join; [|simpl; destruct (component_pair s_job job); discriminate|exact NS].
  rewrite D. rewrite str_eqb_refl. reflexivity.
Qed.

Lemma decode_path_lemma pre job order : bytes job -> pairs_ok order ->
  decode_path pre (pre ++ s_metrics ++ key_path job order) = Some (job, order).
Proof.
  intros Hj Ho. unfold decode_path. rewrite app_assoc, strip_prefix_app. apply decode_key_lemma; assumption.
Qed.

(* ------------------------------------------------------------------------------------ *)
(* the builder: first error sticky, grouping map = last value per name                    *)
(* ------------------------------------------------------------------------------------ *)
Lemma apply_bop_sticky p o e : p_err p = Some e -> p_err (apply_bop p o) = Some e.
Proof. intros H. destruct o; simpl; try rewrite H; try assumption; reflexivity. Qed.

Lemma apply_bop_err p o : p_err p = None -> p_err (apply_bop p o) = bop_error o.
Proof.
  intros H. destruct o as [n v|f| |h|u pw|f]; simpl; try rewrite H; try assumption; try reflexivity.
  - destruct (label_name_valid n); simpl; [assumption|reflexivity].
  - destruct f; simpl; [reflexivity|assumption].
Qed.

Lemma run_builder_sticky ops p e : p_err p = Some e -> p_err (run_builder p ops) = Some e.
Proof.
  revert p; induction ops as [|o r IH]; intros p H; [exact H|].
  simpl. apply IH. apply apply_bop_sticky. exact H.
Qed.

Lemma run_builder_err ops p :
  p_err (run_builder p ops) = match p_err p with Some e => Some e | None => first_bop_error ops end.
Proof.
  revert p; induction ops as [|o r IH]; intros p.
  - simpl. destruct (p_err p); reflexivity.
  - simpl. rewrite IH. destruct (p_err p) eqn:E.
    + rewrite (apply_bop_sticky p o b E). reflexivity.
    + rewrite (apply_bop_err p o E). destruct (bop_error o); reflexivity.
Qed.

Lemma builder_error_is_first_lemma url job ops :
  p_err (run_builder (new url job) ops) = spec_first_error job ops.
Proof. rewrite run_builder_err. unfold spec_first_error, new. simpl. destruct (is_nil job); reflexivity. Qed.

Lemma apply_bop_job_url p o : p_job (apply_bop p o) = p_job p /\ p_url (apply_bop p o) = p_url p.
Proof.
  destruct o as [n v|f| |h|u pw|f]; simpl; try (split; reflexivity).
  - destruct (p_err p); [split; reflexivity|]. destruct (label_name_valid n); split; reflexivity.
  - destruct (p_err p); [split; reflexivity|]. destruct f; split; reflexivity.
Qed.
Lemma run_builder_job_url ops p : p_job (run_builder p ops) = p_job p /\ p_url (run_builder p ops) = p_url p.
Proof.
  revert p; induction ops as [|o r IH]; intros p; [split; reflexivity|].
  simpl. destruct (IH (apply_bop p o)) as (A & B). destruct (apply_bop_job_url p o) as (C & D).
  split; congruence.
Qed.

(* association lists *)
Lemma map_get_set {V} k (v : V) m k' :
  map_get k' (map_set k v m) = if str_eqb k k' then Some v else map_get k' m.
Proof.
  induction m as [|[k0 v0] r IH]; simpl; [reflexivity|].
  destruct (str_eqb k0 k) eqn:E.
  - apply str_eqb_eq in E. subst k0. simpl. destruct (str_eqb k k'); reflexivity.
  - simpl. rewrite IH. destruct (str_eqb k0 k') eqn:E'; [|reflexivity].
    apply str_eqb_eq in E'. subst k0.
    destruct (str_eqb k k') eqn:E2; [|reflexivity].
    apply str_eqb_eq in E2. subst. rewrite str_eqb_refl in E. discriminate.
Qed.

Lemma map_set_keys {V} k (v : V) m k' :
  In k' (map fst (map_set k v m)) <-> k' = k \/ In k' (map fst m).
Proof.
  induction m as [|[k0 v0] r IH]; simpl; [intuition congruence|].
  destruct (str_eqb k0 k) eqn:E.
  - apply str_eqb_eq in E. subst k0. simpl. intuition congruence.
  - simpl. rewrite IH. intuition congruence.
Qed.

Lemma map_set_nodup {V} k (v : V) m : NoDup (map fst m) -> NoDup (map fst (map_set k v m)).
Proof.
  induction m as [|[k0 v0] r IH]; simpl; intros H; [repeat constructor; intros []|].
  inversion H as [|? ? Hn Hr]; subst.
  destruct (str_eqb k0 k) eqn:E.
  - apply str_eqb_eq in E. subst k0. simpl. constructor; assumption.
  - simpl. constructor; [|apply IH; exact Hr].
    rewrite map_set_keys. intros [A|A]; [|contradiction]. subst. rewrite str_eqb_refl in E. discriminate.
Qed.

Lemma map_get_in {V} n (v : V) m : NoDup (map fst m) -> (In (n, v) m <-> map_get n m = Some v).
Proof.
  induction m as [|[k0 v0] r IH]; simpl; intros H; [split; [intros []|discriminate]|].
  inversion H as [|? ? Hn Hr]; subst. destruct (str_eqb k0 n) eqn:E.
  - apply str_eqb_eq in E. subst k0. split.
    + intros [A|A]; [congruence|]. exfalso. apply Hn. apply in_map_iff. exists (n, v). split; [reflexivity|exact A].
    + intros A. left. congruence.
  - rewrite <- (IH Hr). split; [|tauto]. intros [A|A]; [|exact A].
    inversion A; subst. rewrite str_eqb_refl in E. discriminate.
Qed.

Lemma apply_bop_nodup p o : NoDup (map fst (p_grouping p)) -> NoDup (map fst (p_grouping (apply_bop p o))).
Proof.
  intros H. destruct o as [n v|f| |h|u pw|f]; simpl; try exact H.
  - destruct (p_err p); [exact H|]. destruct (label_name_valid n); simpl; [apply map_set_nodup|]; exact H.
  - destruct (p_err p); [exact H|]. destruct f; exact H.
Qed.
Lemma run_builder_nodup ops p : NoDup (map fst (p_grouping p)) -> NoDup (map fst (p_grouping (run_builder p ops))).
Proof.
  revert p; induction ops as [|o r IH]; intros p H; [exact H|]. simpl. apply IH. apply apply_bop_nodup. exact H.
Qed.

Lemma err_none_back p o : p_err (apply_bop p o) = None -> p_err p = None.
Proof. intros H. destruct (p_err p) eqn:E; [|reflexivity]. rewrite (apply_bop_sticky p o b E) in H. discriminate. Qed.
Lemma run_err_none_back ops p : p_err (run_builder p ops) = None -> p_err p = None.
Proof. intros H. destruct (p_err p) eqn:E; [|reflexivity]. rewrite (run_builder_sticky ops p b E) in H. discriminate. Qed.

(* with no error recorded, the map holds for every name the value of the last Grouping call *)
Lemma grouping_is_last ops p n : p_err (run_builder p ops) = None ->
  map_get n (p_grouping (run_builder p ops)) =
  match spec_lookup n ops with Some v => Some v | None => map_get n (p_grouping p) end.
Proof.
  revert p; induction ops as [|o r IH]; intros p H; [reflexivity|].
  simpl in H. simpl run_builder. rewrite (IH _ H). simpl spec_lookup.
  destruct (spec_lookup n r); [reflexivity|].
  pose proof (run_err_none_back _ _ H) as H1. pose proof (err_none_back _ _ H1) as H0.
  destruct o as [n0 v0|f| |h|u pw|f]; simpl in *; try reflexivity.
  - rewrite H0 in *. destruct (label_name_valid n0); simpl in *; [|discriminate].
    rewrite map_get_set. destruct (str_eqb n0 n); reflexivity.
  - rewrite H0. destruct f; reflexivity.
Qed.

Lemma spec_lookup_in n v ops : spec_lookup n ops = Some v -> In (BGrouping n v) ops.
Proof.
  induction ops as [|o r IH]; simpl; [discriminate|].
  destruct (spec_lookup n r) eqn:E.
  - intros H. right. apply IH. exact H.
  - destruct o as [n0 v0| | | | |]; try discriminate.
    destruct (str_eqb n0 n) eqn:E'; [|discriminate]. apply str_eqb_eq in E'. subst.
    intros H. inversion H; subst. left. reflexivity.
Qed.

Lemma spec_lookup_some n v ops : In (BGrouping n v) ops -> exists v', spec_lookup n ops = Some v'.
Proof.
  induction ops as [|o r IH]; simpl; [intros []|].
  intros [A|A].
  - subst o. destruct (spec_lookup n r); [eexists; reflexivity|]. rewrite str_eqb_refl. eexists; reflexivity.
  - destruct (IH A) as (v' & E). rewrite E. eexists; reflexivity.
Qed.

Lemma spec_names_in n ops : In n (spec_names ops) -> exists v, In (BGrouping n v) ops.
Proof.
  induction ops as [|o r IH]; simpl; [intros []|].
  destruct o as [n0 v0| | | | |]; simpl; try (intros H; destruct (IH H) as (v & I); exists v; right; exact I).
  intros [A|A]; [subst; exists v0; left; reflexivity|]. destruct (IH A) as (v & I). exists v. right. exact I.
Qed.

Lemma nodupb_nodup l : nodupb l = true <-> NoDup l.
Proof.
  induction l as [|x r IH]; simpl; [split; [constructor|reflexivity]|].
  rewrite andb_true_iff, negb_true_iff, IH. split.
  - intros (A & B). constructor; [|exact B]. intros I. apply str_in_In in I. congruence.
  - intros H. inversion H as [|? ? Hn Hr]; subst. split; [|exact Hr].
    destruct (str_in x r) eqn:E; [|reflexivity]. apply str_in_In in E. contradiction.
Qed.

Definition groupings_ok (ops : list bop) : Prop :=
  forall n v, In (BGrouping n v) ops -> name_ok n /\ n <> s_job /\ bytes v.

(* the key clause on the model: for every iteration order of the grouping map *)
Lemma push_path_roundtrip_lemma url job ops pre order :
  let p := run_builder (new url job) ops in
  p_err p = None -> bytes job -> groupings_ok ops -> Permutation order (p_grouping p) ->
  decode_path pre (pre ++ s_metrics ++ key_path (p_job p) order) = Some (job, order) /\
  NoDup (map fst order) /\ ~ In s_job (map fst order) /\
  (forall n v, In (n, v) order <-> spec_lookup n ops = Some v) /\
  (forall n, In n (spec_names ops) -> In n (map fst order)).
Proof.
  intros p E Hj Hg Hp.
  assert (ND : NoDup (map fst (p_grouping p))) by (apply run_builder_nodup; constructor).
  assert (L : forall n v, In (n, v) (p_grouping p) <-> spec_lookup n ops = Some v).
  { intros n v. rewrite (map_get_in n v _ ND). unfold p. rewrite (grouping_is_last ops _ n E). simpl.
    destruct (spec_lookup n ops); split; intros H; try discriminate; exact H. }
  assert (LO : forall n v, In (n, v) order <-> spec_lookup n ops = Some v).
  { intros n v. rewrite <- L. split; apply Permutation_in; [exact Hp|apply Permutation_sym; exact Hp]. }
  assert (PO : pairs_ok order).
  { apply Forall_forall. intros [n v] I. apply LO in I. apply spec_lookup_in in I. destruct (Hg n v I) as (A & _ & B).
    split; assumption. }
  destruct (run_builder_job_url ops (new url job)) as (J & _). fold p in J. simpl in J.
  repeat split.
  - rewrite J. apply decode_path_lemma; assumption.
  - eapply Permutation_NoDup; [apply Permutation_map; apply Permutation_sym; exact Hp|exact ND].
  - intros I. apply in_map_iff in I. destruct I as ([n v] & F & I). simpl in F. subst n.
    apply LO in I. apply spec_lookup_in in I. destruct (Hg _ _ I) as (_ & A & _). apply A. reflexivity.
  - apply LO.
  - apply LO.
  - intros n I. destruct (spec_names_in n ops I) as (v & I'). destruct (spec_lookup_some n v ops I') as (v' & S).
    apply LO in S. apply in_map_iff. exists (n, v'). split; [reflexivity|exact S].
Qed.

Lemma model_key_ok_lemma url job ops pre order :
  let p := run_builder (new url job) ops in
  p_err p = None -> bytes job -> groupings_ok ops -> Permutation order (p_grouping p) ->
  spec_key_ok pre job ops (pre ++ s_metrics ++ key_path (p_job p) order) = true.
Proof.
  intros p E Hj Hg Hp.
  destruct (push_path_roundtrip_lemma url job ops pre order E Hj Hg Hp) as (D & ND & NJ & LO & NM).
  fold p in D. unfold spec_key_ok. rewrite D.
  apply andb_true_iff; split; [apply andb_true_iff; split; [apply andb_true_iff; split|]|].
  - apply str_eqb_refl.
  - apply nodupb_nodup. constructor; assumption.
  - apply forallb_forall. intros [n v] I. simpl. apply LO in I. rewrite I. apply str_eqb_refl.
  - apply forallb_forall. intros n I. apply str_in_In. apply NM. exact I.
Qed.
