(* Proofs/F64_order.v -- the order on float64 values induced by Go's < and <=:
   an embedding of non-NaN floats into Z x R (class, real value) ordered lexicographically,
   from which transitivity / totality / irreflexivity follow by lia + lra. *)
From Coq Require Import ZArith List Bool Lia Reals Lra.
From Flocq Require Import Core.Core IEEE754.BinarySingleNaN.
From Verif Require Import Base.F64.
Open Scope Z_scope.

(* class: -1 for -Inf, 0 for finite, 1 for +Inf *)
Definition ecls (x : f64) : Z :=
  match x with B754_infinity true => -1 | B754_infinity false => 1 | _ => 0 end.
Definition eval (x : f64) : R := B2R x.

Definition elt (x y : f64) : Prop := ecls x < ecls y \/ (ecls x = ecls y /\ ecls x = 0 /\ (eval x < eval y)%R).
Definition ele (x y : f64) : Prop := ecls x < ecls y \/ (ecls x = ecls y /\ (ecls x <> 0 \/ (eval x <= eval y)%R)).

Lemma fcmp_nan_l x y : is_nan x = true -> fcmp x y = None.
Proof. destruct x; try discriminate; reflexivity. Qed.
Lemma fcmp_nan_r x y : is_nan y = true -> fcmp x y = None.
Proof. destruct y; try discriminate; destruct x; reflexivity. Qed.

Lemma fcmp_fin x y : is_fin x = true -> is_fin y = true -> fcmp x y = Some (Rcompare (B2R x) (B2R y)).
Proof. intros; apply Bcompare_correct; assumption. Qed.

Lemma ecls_fin x : is_fin x = true -> ecls x = 0.
Proof. destruct x; try discriminate; reflexivity. Qed.

Lemma nonnan_cases x : is_nan x = false -> is_fin x = true \/ x = pinf \/ x = ninf.
Proof. destruct x as [s|[|]| |s m e H]; intros; try discriminate; auto. Qed.

Lemma is_nan_inf s : is_nan (B754_infinity s) = false. Proof. reflexivity. Qed.

Lemma flt_iff_fin x y : is_fin x = true -> is_fin y = true ->
  (flt x y = true <-> (is_nan x = false /\ is_nan y = false /\ elt x y)).
Proof.
  intros Fx Fy. unfold flt, elt. rewrite fcmp_fin by assumption. rewrite !ecls_fin by assumption.
  assert (Nx : is_nan x = false) by (destruct x; try discriminate; reflexivity).
  assert (Ny : is_nan y = false) by (destruct y; try discriminate; reflexivity).
  unfold eval. destruct (Rcompare_spec (B2R x) (B2R y)) as [Hc|Hc|Hc]; split; intros H; try discriminate; try reflexivity;
    try (repeat split; try assumption; right; repeat split; assumption);
    destruct H as (_ & _ & [H|(_ & _ & H)]); try lia; lra.
Qed.

Lemma fle_iff_fin x y : is_fin x = true -> is_fin y = true ->
  (fle x y = true <-> (is_nan x = false /\ is_nan y = false /\ ele x y)).
Proof.
  intros Fx Fy. unfold fle, ele. rewrite fcmp_fin by assumption. rewrite !ecls_fin by assumption.
  assert (Nx : is_nan x = false) by (destruct x; try discriminate; reflexivity).
  assert (Ny : is_nan y = false) by (destruct y; try discriminate; reflexivity).
  unfold eval. destruct (Rcompare_spec (B2R x) (B2R y)) as [Hc|Hc|Hc]; split; intros H; try discriminate; try reflexivity;
    try (repeat split; try assumption; right; split; [reflexivity|right; lra]);
    destruct H as (_ & _ & [H|(_ & [H|H])]); try lia; lra.
Qed.

Lemma flt_iff x y : flt x y = true <-> (is_nan x = false /\ is_nan y = false /\ elt x y).
Proof.
  destruct (is_fin x) eqn:Fx; destruct (is_fin y) eqn:Fy.
  - apply flt_iff_fin; assumption.
  - destruct y as [sy|[|]| |sy my ey Hy]; try discriminate;
    destruct x as [sx|[|]| |sx mx ex Hx]; try discriminate; unfold flt, elt; simpl;
      split; intros H; try discriminate; try reflexivity;
      try (repeat split; try reflexivity; left; lia);
      try (destruct H as (A & B & C); try discriminate; destruct C as [C|(C1 & C2 & C3)]; try lia; try discriminate).
  - destruct x as [sx|[|]| |sx mx ex Hx]; try discriminate;
    destruct y as [sy|[|]| |sy my ey Hy]; try discriminate; unfold flt, elt; simpl;
      split; intros H; try discriminate; try reflexivity;
      try (repeat split; try reflexivity; left; lia);
      try (destruct H as (A & B & C); try discriminate; destruct C as [C|(C1 & C2 & C3)]; try lia; try discriminate).
  - destruct x as [sx|[|]| |sx mx ex Hx]; try discriminate;
    destruct y as [sy|[|]| |sy my ey Hy]; try discriminate; unfold flt, elt; simpl;
      split; intros H; try discriminate; try reflexivity;
      try (repeat split; try reflexivity; left; lia);
      try (destruct H as (A & B & C); try discriminate; destruct C as [C|(C1 & C2 & C3)]; try lia; try discriminate).
Qed.

Lemma fle_iff x y : fle x y = true <-> (is_nan x = false /\ is_nan y = false /\ ele x y).
Proof.
  destruct (is_fin x) eqn:Fx; destruct (is_fin y) eqn:Fy.
  - apply fle_iff_fin; assumption.
  - destruct y as [sy|[|]| |sy my ey Hy]; try discriminate;
    destruct x as [sx|[|]| |sx mx ex Hx]; try discriminate; unfold fle, ele; simpl;
      split; intros H; try discriminate; try reflexivity;
      try (repeat split; try reflexivity; left; lia);
      try (destruct H as (A & B & C); try discriminate; destruct C as [C|(C1 & C2)]; try lia; try discriminate).
  - destruct x as [sx|[|]| |sx mx ex Hx]; try discriminate;
    destruct y as [sy|[|]| |sy my ey Hy]; try discriminate; unfold fle, ele; simpl;
      split; intros H; try discriminate; try reflexivity;
      try (repeat split; try reflexivity; left; lia);
      try (destruct H as (A & B & C); try discriminate; destruct C as [C|(C1 & C2)]; try lia; try discriminate).
  - destruct x as [sx|[|]| |sx mx ex Hx]; try discriminate;
    destruct y as [sy|[|]| |sy my ey Hy]; try discriminate; unfold fle, ele; simpl;
      split; intros H; try discriminate; try reflexivity;
      try (repeat split; try reflexivity; left; lia);
      try (repeat split; try reflexivity; right; split; [reflexivity|left; lia]);
      try (destruct H as (A & B & C); try discriminate; destruct C as [C|(C1 & C2)]; try lia; try discriminate).
Qed.

Lemma ecls_range x : -1 <= ecls x <= 1.
Proof. destruct x as [s|[|]| |s m e H]; simpl; lia. Qed.

Ltac order_unfold :=
  repeat match goal with
  | H : flt _ _ = true |- _ => apply flt_iff in H; destruct H as (? & ? & H); unfold elt in H
  | H : fle _ _ = true |- _ => apply fle_iff in H; destruct H as (? & ? & H); unfold ele in H
  end.

Ltac order_solve :=
  repeat match goal with
  | |- ?a /\ ?b => split
  end;
  try assumption;
  intuition (try lia; try lra).

Lemma flt_trans x y z : flt x y = true -> flt y z = true -> flt x z = true.
Proof. intros H1 H2. order_unfold. apply flt_iff. unfold elt. order_solve. Qed.

Lemma fle_trans x y z : fle x y = true -> fle y z = true -> fle x z = true.
Proof. intros H1 H2. order_unfold. apply fle_iff. unfold ele. order_solve. Qed.

Lemma fle_flt_trans x y z : fle x y = true -> flt y z = true -> flt x z = true.
Proof. intros H1 H2. order_unfold. apply flt_iff. unfold elt. order_solve. Qed.

Lemma flt_fle_trans x y z : flt x y = true -> fle y z = true -> flt x z = true.
Proof. intros H1 H2. order_unfold. apply flt_iff. unfold elt. order_solve. Qed.

Lemma flt_fle x y : flt x y = true -> fle x y = true.
Proof. intros H1. order_unfold. apply fle_iff. unfold ele. order_solve. Qed.

Lemma flt_irrefl x : flt x x = false.
Proof.
  destruct (flt x x) eqn:H; [|reflexivity]. order_unfold. exfalso. intuition (try lia; try lra).
Qed.

Lemma flt_not_fle x y : flt x y = true -> fle y x = false.
Proof.
  intros H1. destruct (fle y x) eqn:H2; [|reflexivity]. order_unfold. exfalso. intuition (try lia; try lra).
Qed.

Lemma fle_not_flt x y : fle x y = true -> flt y x = false.
Proof.
  intros H1. destruct (flt y x) eqn:H2; [|reflexivity]. order_unfold. exfalso. intuition (try lia; try lra).
Qed.

Lemma fle_total x y : is_nan x = false -> is_nan y = false -> fle x y = true \/ flt y x = true.
Proof.
  intros Nx Ny.
  destruct (Z.lt_trichotomy (ecls x) (ecls y)) as [H|[H|H]].
  - left. apply fle_iff. unfold ele. repeat split; try assumption. left; assumption.
  - destruct (Z.eq_dec (ecls x) 0) as [H0|H0].
    + destruct (Rle_or_lt (eval x) (eval y)).
      * left. apply fle_iff. unfold ele. repeat split; try assumption. right. split; [assumption|right; assumption].
      * right. apply flt_iff. unfold elt. repeat split; try assumption. right. repeat split; try lia; assumption.
    + left. apply fle_iff. unfold ele. repeat split; try assumption. right. split; [assumption|left; assumption].
  - right. apply flt_iff. unfold elt. repeat split; try assumption. left; assumption.
Qed.

Lemma fle_false_iff x y : is_nan x = false -> is_nan y = false -> (fle x y = false <-> flt y x = true).
Proof.
  intros Nx Ny. split; intros H.
  - destruct (fle_total x y Nx Ny) as [H'|H']; [congruence|assumption].
  - apply flt_not_fle. assumption.
Qed.

Lemma fle_nan_l x y : is_nan x = true -> fle x y = false.
Proof. intros. unfold fle. rewrite fcmp_nan_l by assumption. reflexivity. Qed.
Lemma fle_nan_r x y : is_nan y = true -> fle x y = false.
Proof. intros. unfold fle. rewrite fcmp_nan_r by assumption. reflexivity. Qed.
Lemma flt_nan_l x y : is_nan x = true -> flt x y = false.
Proof. intros. unfold flt. rewrite fcmp_nan_l by assumption. reflexivity. Qed.
Lemma flt_nan_r x y : is_nan y = true -> flt x y = false.
Proof. intros. unfold flt. rewrite fcmp_nan_r by assumption. reflexivity. Qed.

Lemma flt_nonnan x y : flt x y = true -> is_nan x = false /\ is_nan y = false.
Proof. intros H. apply flt_iff in H. tauto. Qed.
Lemma fle_nonnan x y : fle x y = true -> is_nan x = false /\ is_nan y = false.
Proof. intros H. apply fle_iff in H. tauto. Qed.

Lemma fle_refl x : is_nan x = false -> fle x x = true.
Proof.
  intros Nx. apply fle_iff. unfold ele. repeat split; try assumption. right. split; [reflexivity|].
  destruct (Z.eq_dec (ecls x) 0); [right; lra|left; assumption].
Qed.

Lemma fle_pinf x : is_nan x = false -> fle x pinf = true.
Proof.
  intros. apply fle_iff. split; [assumption|split; [reflexivity|]]. unfold ele. simpl.
  pose proof (ecls_range x). destruct (Z.eq_dec (ecls x) 1); [right; split; [assumption|left; lia]|left; lia].
Qed.
