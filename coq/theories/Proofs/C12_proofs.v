(* Proofs/C12_proofs.v -- lemmas for C12 (HTTP instrumentation). *)
From Coq Require Import ZArith List Bool Lia.
From Verif Require Import Base.Str Proofs.Str_facts Gen.Gen_Codes Gen.Gen_Methods Gen.Gen_Delegators Model.Instrument.
Import ListNotations.
Open Scope Z_scope.

(* ---------------- sanitizeCode ---------------- *)
Definition zrange (lo : Z) (n : nat) : list Z := map (fun k => lo + Z.of_nat k) (seq 0 n).

Lemma in_zrange lo n z : lo <= z < lo + Z.of_nat n -> In z (zrange lo n).
Proof.
  intros H. unfold zrange. apply in_map_iff. exists (Z.to_nat (z - lo)). split; [lia|].
  apply in_seq. lia.
Qed.

Lemma code_window_ok : forallb (fun s => str_eqb (sanitize_code s) (code_spec s)) (zrange (-1) 1003) = true.
Proof. vm_compute. reflexivity. Qed.

Lemma code_cases_in_window :
  forallb (fun row => forallb (fun c => (0 <=? c) && (c <=? 1000)) (fst row)) code_cases = true.
Proof. vm_compute. reflexivity. Qed.

Lemma code_default_window : (0 <=? code_default_lo) && (code_default_hi <=? 1000) && (code_default_lo =? 100) && (code_default_hi =? 599) = true.
Proof. vm_compute. reflexivity. Qed.

Lemma code_default_else_unknown : code_default_else = unknown.
Proof. vm_compute. reflexivity. Qed.

Lemma find_code_none s : (s < 0 \/ s > 1000) ->
  find (fun row => existsb (Z.eqb s) (fst row)) code_cases = None.
Proof.
  intros Hs. pose proof code_cases_in_window as W.
  induction code_cases as [|row rows IH]; [reflexivity|].
  simpl in W. apply andb_true_iff in W. destruct W as [W1 W2].
  simpl. destruct (existsb (Z.eqb s) (fst row)) eqn:E.
  - apply existsb_exists in E. destruct E as (c & Hc & Ec). apply Z.eqb_eq in Ec. subst c.
    rewrite forallb_forall in W1. specialize (W1 _ Hc). lia.
  - apply IH. assumption.
Qed.

Lemma sanitize_code_spec_lemma : forall s, sanitize_code s = code_spec s.
Proof.
  intros s. destruct (Z_lt_dec s (-1)) as [L|L]; [|destruct (Z_gt_dec s 1001) as [G|G]].
  - unfold sanitize_code. rewrite find_code_none by lia.
    pose proof code_default_window as D. rewrite code_default_else_unknown. unfold code_spec.
    destruct (code_default_lo <=? s) eqn:E1; destruct (s =? 0) eqn:E2; destruct (100 <=? s) eqn:E3; simpl; try reflexivity; lia.
  - unfold sanitize_code. rewrite find_code_none by lia.
    pose proof code_default_window as D. rewrite code_default_else_unknown. unfold code_spec.
    destruct (code_default_lo <=? s) eqn:E1; destruct (s <=? code_default_hi) eqn:E4; destruct (s =? 0) eqn:E2;
      destruct (100 <=? s) eqn:E3; destruct (s <=? 599) eqn:E5; simpl; try reflexivity; lia.
  - pose proof code_window_ok as W. rewrite forallb_forall in W.
    apply str_eqb_eq. apply W. apply in_zrange. lia.
Qed.

(* ---------------- sanitizeMethod ---------------- *)
Definition all_case_strings : list str := flat_map fst method_cases.
Definition wk_test (m : str) : bool := existsb (fun w => str_eqb m w || str_eqb m (upper_ascii w)) well_known_methods.

Lemma method_cases_ok :
  forallb (fun m => match find (fun row => str_in m (fst row)) method_cases with
                    | Some row => str_eqb (snd row) (lower_ascii m) && wk_test m
                    | None => false end) all_case_strings = true.
Proof. vm_compute. reflexivity. Qed.

Lemma well_known_in_cases :
  forallb (fun w => str_in w all_case_strings && str_in (upper_ascii w) all_case_strings) well_known_methods = true.
Proof. vm_compute. reflexivity. Qed.

Lemma method_default_else_unknown : method_default_else = unknown.
Proof. vm_compute. reflexivity. Qed.

Lemma find_method_none m : ~ In m all_case_strings ->
  find (fun row => str_in m (fst row)) method_cases = None.
Proof.
  unfold all_case_strings. induction method_cases as [|row rows IH]; intros H; [reflexivity|].
  cbn [find flat_map] in *. match goal with |- context [if ?c then _ else _] => destruct c eqn:E end.
  - apply str_in_In in E. exfalso. apply H. apply in_or_app. left; assumption.
  - apply IH. intros H'. apply H. apply in_or_app. right; assumption.
Qed.

Lemma wk_test_in m : wk_test m = true -> In m all_case_strings.
Proof.
  unfold wk_test. intros H. apply existsb_exists in H. destruct H as (w & Hw & E).
  pose proof well_known_in_cases as W. rewrite forallb_forall in W. specialize (W _ Hw).
  apply andb_true_iff in W. destruct W as [W1 W2]. apply str_in_In in W1. apply str_in_In in W2.
  apply orb_true_iff in E. destruct E as [E|E]; apply str_eqb_eq in E; subst; assumption.
Qed.

Lemma in_dec_str (m : str) (l : list str) : {In m l} + {~ In m l}.
Proof. apply in_dec. apply list_eq_dec. apply Z.eq_dec. Qed.

Lemma sanitize_method_spec_lemma : forall m extra, sanitize_method m extra = method_spec m extra.
Proof.
  intros m extra. unfold sanitize_method, method_spec. fold (wk_test m).
  destruct (in_dec_str m all_case_strings) as [I|I].
  - pose proof method_cases_ok as W. rewrite forallb_forall in W. specialize (W _ I).
    destruct (find (fun row => str_in m (fst row)) method_cases) as [row|]; [|discriminate].
    apply andb_true_iff in W. destruct W as [W1 W2]. rewrite W2. apply str_eqb_eq. assumption.
  - rewrite find_method_none by assumption.
    destruct (wk_test m) eqn:E; [apply wk_test_in in E; contradiction|].
    rewrite method_default_else_unknown. reflexivity.
Qed.

(* ---------------- delegator state machine ---------------- *)
Definition hts_or (acts : list act) (dflt : Z) : Z := match header_time_status acts with Some c => c | None => dflt end.

Definition ab_step (acc : Z) (a : act) : Z := match a with AWrite _ k | AReadFrom _ k => acc + k | _ => acc end.
Lemma ab_shift l : forall z, fold_left ab_step l z = z + fold_left ab_step l 0.
Proof.
  induction l as [|x l IHl]; intros z; simpl; [lia|]. rewrite IHl. rewrite (IHl (ab_step 0 x)). destruct x; simpl; lia.
Qed.
Lemma ab_cons a acts : accepted_bytes (a :: acts) = (match a with AWrite _ k | AReadFrom _ k => k | _ => 0 end) + accepted_bytes acts.
Proof.
  change (accepted_bytes (a :: acts)) with (fold_left ab_step acts (ab_step 0 a)).
  change (accepted_bytes acts) with (fold_left ab_step acts 0).
  rewrite ab_shift. destruct a; simpl; lia.
Qed.

Lemma d_run_from (acts : list act) : forall d,
  let d' := fold_left d_step acts d in
  (d_wrote d = true -> d_status d' = d_status d /\ d_wrote d' = true /\ d_observed d' = d_observed d) /\
  (d_wrote d = false ->
     d_status d' = hts_or acts (d_status d) /\
     d_observed d' = d_observed d ++ (match header_time_status acts with Some c => [c] | None => [] end)) /\
  d_written d' = d_written d + accepted_bytes acts.
Proof.
  induction acts as [|a acts IH]; intros d; cbn [fold_left].
  - unfold hts_or, accepted_bytes; simpl. rewrite app_nil_r. repeat split; intros; try reflexivity; try assumption; lia.
  - specialize (IH (d_step d a)). cbv zeta in IH. destruct IH as (IH1 & IH2 & IH3).
    pose proof (ab_cons a acts) as AB.
    split; [|split].
    + intros W. assert (W' : d_wrote (d_step d a) = true /\ d_status (d_step d a) = d_status d /\ d_observed (d_step d a) = d_observed d).
      { destruct a as [c|n k| |n k]; unfold d_step, d_ensure_header, d_write_header; rewrite ?W; simpl;
          try (destruct (informational c)); simpl; rewrite ?W; auto. }
      destruct W' as (Wa & Wb & Wc). destruct (IH1 Wa) as (A & B & C). rewrite A, B, C. auto.
    + intros W. unfold hts_or. destruct a as [c|n k| |n k]; cbn [header_time_status].
      * destruct (informational c) eqn:I.
        -- assert (S : d_wrote (d_step d (AWriteHeader c)) = false /\ d_status (d_step d (AWriteHeader c)) = d_status d /\
                       d_observed (d_step d (AWriteHeader c)) = d_observed d).
           { unfold d_step, d_write_header. rewrite I. simpl. auto. }
           destruct S as (Sa & Sb & Sc). destruct (IH2 Sa) as (A & B). unfold hts_or in A. rewrite A, B, Sb, Sc. auto.
        -- assert (S : d_wrote (d_step d (AWriteHeader c)) = true /\ d_status (d_step d (AWriteHeader c)) = c /\
                       d_observed (d_step d (AWriteHeader c)) = d_observed d ++ [c]).
           { unfold d_step, d_write_header. rewrite I, W. simpl. auto. }
           destruct S as (Sa & Sb & Sc). destruct (IH1 Sa) as (A & B & C). rewrite A, C, Sb, Sc. auto.
      * assert (S : d_wrote (d_step d (AWrite n k)) = true /\ d_status (d_step d (AWrite n k)) = 200 /\
                    d_observed (d_step d (AWrite n k)) = d_observed d ++ [200]).
        { unfold d_step, d_ensure_header, d_write_header. rewrite ?W. simpl. rewrite ?W. simpl. auto. }
        destruct S as (Sa & Sb & Sc). destruct (IH1 Sa) as (A & B & C). rewrite A, C, Sb, Sc. auto.
      * assert (S : d_wrote (d_step d AFlush) = true /\ d_status (d_step d AFlush) = 200 /\
                    d_observed (d_step d AFlush) = d_observed d ++ [200]).
        { unfold d_step, d_ensure_header, d_write_header. rewrite ?W. simpl. rewrite ?W. simpl. auto. }
        destruct S as (Sa & Sb & Sc). destruct (IH1 Sa) as (A & B & C). rewrite A, C, Sb, Sc. auto.
      * assert (S : d_wrote (d_step d (AReadFrom n k)) = true /\ d_status (d_step d (AReadFrom n k)) = 200 /\
                    d_observed (d_step d (AReadFrom n k)) = d_observed d ++ [200]).
        { unfold d_step, d_ensure_header, d_write_header. rewrite ?W. simpl. rewrite ?W. simpl. auto. }
        destruct S as (Sa & Sb & Sc). destruct (IH1 Sa) as (A & B & C). rewrite A, C, Sb, Sc. auto.
    + rewrite IH3, AB.
      destruct a as [c|n k| |n k]; unfold d_step, d_ensure_header, d_write_header;
        try (destruct (informational c)); destruct (d_wrote d); simpl; lia.
Qed.

Lemma peer_status_hts acts : peer_status acts = hts_or acts 200.
Proof.
  unfold peer_status, hts_or. induction acts as [|a acts IH]; [reflexivity|].
  destruct a as [c|n k| |n k]; simpl; try reflexivity. destruct (informational c); [exact IH|reflexivity].
Qed.

Lemma code_spec_0_200 : code_spec 0 = code_spec 200.
Proof. vm_compute. reflexivity. Qed.

Lemma recorded_status_is_final_lemma : forall acts,
  sanitize_code (d_status (d_run acts)) = code_spec (peer_status acts).
Proof.
  intros acts. rewrite sanitize_code_spec_lemma. unfold d_run.
  destruct (d_run_from acts d0) as (_ & H & _). destruct (H eq_refl) as (S & _). cbv zeta in S. rewrite S.
  rewrite peer_status_hts. unfold hts_or. simpl. destruct (header_time_status acts); [reflexivity|apply code_spec_0_200].
Qed.

Lemma bytes_counted_exact_lemma : forall acts, d_written (d_run acts) = accepted_bytes acts.
Proof.
  intros acts. unfold d_run. destruct (d_run_from acts d0) as (_ & _ & H). cbv zeta in H. rewrite H. reflexivity.
Qed.

Lemma header_observed_once_lemma : forall acts,
  d_observed (d_run acts) = match header_time_status acts with Some c => [c] | None => [] end.
Proof.
  intros acts. unfold d_run. destruct (d_run_from acts d0) as (_ & H & _). destruct (H eq_refl) as (_ & O). cbv zeta in O.
  rewrite O. reflexivity.
Qed.

Lemma middleware_matches_spec_lemma : forall m extra acts, run_middleware m extra acts = spec_middleware m extra acts.
Proof.
  intros. unfold run_middleware, spec_middleware.
  rewrite recorded_status_is_final_lemma, sanitize_method_spec_lemma, bytes_counted_exact_lemma, header_observed_once_lemma.
  destruct (header_time_status acts); reflexivity.
Qed.

(* the underlying writer receives WriteHeader calls whose first final code is the status the bare handler
   would have produced; informational codes before it are forwarded unchanged and in order *)
Fixpoint infos_before_final (cs : list Z) : list Z :=
  match cs with
  | [] => []
  | c :: r => if informational c then c :: infos_before_final r else []
  end.

Fixpoint bare_infos (acts : list act) : list Z :=
  match acts with
  | AWriteHeader c :: r => if informational c then c :: bare_infos r else []
  | _ => []
  end.

Lemma fwd_from acts : forall d,
  d_fwd (fold_left d_step acts d) =
  d_fwd d ++ (if d_wrote d then forwarded acts
              else bare_infos acts ++ match header_time_status acts with
                                      | None => []
                                      | Some c => c :: forwarded (skipn (S (length (bare_infos acts))) acts) end).
Proof.
  induction acts as [|a acts IH]; intros d; cbn [fold_left].
  - simpl. destruct (d_wrote d); rewrite app_nil_r; reflexivity.
  - rewrite IH. destruct a as [c|n k| |n k].
    + unfold d_step, d_write_header. cbn [forwarded bare_infos header_time_status]. destruct (informational c) eqn:I.
      * cbn [d_fwd d_wrote]. destruct (d_wrote d); rewrite <- app_assoc; simpl; reflexivity.
      * destruct (d_wrote d) eqn:W; cbn [d_fwd d_wrote]; rewrite <- app_assoc; simpl; reflexivity.
    + unfold d_step, d_ensure_header, d_write_header. destruct (d_wrote d) eqn:W; simpl; rewrite ?W; simpl.
      * reflexivity.
      * rewrite <- app_assoc. reflexivity.
    + unfold d_step, d_ensure_header, d_write_header. destruct (d_wrote d) eqn:W; simpl; rewrite ?W; simpl.
      * reflexivity.
      * rewrite <- app_assoc. reflexivity.
    + unfold d_step, d_ensure_header, d_write_header. destruct (d_wrote d) eqn:W; simpl; rewrite ?W; simpl.
      * reflexivity.
      * rewrite <- app_assoc. reflexivity.
Qed.

Lemma first_final_app_infos l r : forallb informational l = true -> first_final (l ++ r) = first_final r.
Proof. induction l as [|x l IH]; simpl; intros H; [reflexivity|]. apply andb_true_iff in H. destruct H as [H1 H2]. rewrite H1. auto. Qed.

Lemma bare_infos_informational acts : forallb informational (bare_infos acts) = true.
Proof.
  induction acts as [|a acts IH]; [reflexivity|]. destruct a as [c|n k| |n k]; try reflexivity.
  simpl. destruct (informational c) eqn:I; [simpl; rewrite I; exact IH|reflexivity].
Qed.

Lemma hts_not_informational acts c : header_time_status acts = Some c ->
  (informational c = false) \/ c = 200.
Proof.
  induction acts as [|a acts IH]; [discriminate|]. destruct a as [c'|n k| |n k]; simpl; intros H; try (inversion H; auto).
  destruct (informational c') eqn:I; [auto|]. inversion H; subst. auto.
Qed.

Lemma transparent_status_lemma : forall acts,
  match first_final (d_fwd (d_run acts)) with Some c => c | None => 200 end = peer_status acts.
Proof.
  intros acts. unfold d_run. rewrite fwd_from. cbn [d_fwd d0 d_wrote app].
  rewrite first_final_app_infos by apply bare_infos_informational.
  rewrite peer_status_hts. unfold hts_or. destruct (header_time_status acts) as [c|] eqn:H; [|reflexivity].
  cbn [first_final]. destruct (hts_not_informational _ _ H) as [I|I]; [rewrite I; reflexivity|].
  subst c. reflexivity.
Qed.

(* ---------------- delegator table ---------------- *)
Definition bits_of (has : iface -> bool) : Z :=
  fold_left (fun a i => if has i then a + spec_bit i else a) all_ifaces 0.

Lemma table_ok : forallb entry_ok (map Z.of_nat (seq 0 32)) = true.
Proof. vm_compute. reflexivity. Qed.

Lemma asserts_are_bits : new_delegator_asserts = map (fun i => (i, spec_bit i)) all_ifaces.
Proof. vm_compute. reflexivity. Qed.

Lemma index_is_bits has : new_delegator_index has = bits_of has.
Proof.
  unfold new_delegator_index, bits_of. rewrite asserts_are_bits. unfold all_ifaces. simpl.
  destruct (has CloseNotifier), (has Flusher), (has Hijacker), (has ReaderFrom), (has Pusher); reflexivity.
Qed.

Lemma bits_range has : 0 <= bits_of has < 32.
Proof.
  unfold bits_of, all_ifaces; simpl.
  destruct (has CloseNotifier), (has Flusher), (has Hijacker), (has ReaderFrom), (has Pusher); simpl; lia.
Qed.

Lemma has_of_bits_of has i : has_of_bits (bits_of has) i = has i.
Proof.
  unfold bits_of, all_ifaces; simpl.
  destruct (has CloseNotifier) eqn:A, (has Flusher) eqn:B, (has Hijacker) eqn:C, (has ReaderFrom) eqn:D, (has Pusher) eqn:E;
    destruct i; rewrite ?A, ?B, ?C, ?D, ?E; reflexivity.
Qed.

Lemma iface_eqb_eq a b : iface_eqb a b = true <-> a = b.
Proof. destruct a, b; simpl; split; intros H; try discriminate; reflexivity. Qed.

Lemma offered_ext has has' : (forall i, has i = has' i) -> offered has = offered has'.
Proof.
  intros E. unfold offered. rewrite !index_is_bits. unfold bits_of, all_ifaces; simpl. rewrite !E. reflexivity.
Qed.

Lemma delegator_table_complete_lemma : forall has : iface -> bool,
  exists l, offered has = Some l /\
            (forall i, In i (map fst l) <-> has i = true) /\
            (forall p, In p l -> fst p = snd p) /\
            length l = length (filter has all_ifaces).
Proof.
  intros has.
  pose proof table_ok as T. rewrite forallb_forall in T.
  pose proof (bits_range has) as R.
  assert (In (bits_of has) (map Z.of_nat (seq 0 32))) as I.
  { apply in_map_iff. exists (Z.to_nat (bits_of has)). split; [lia|]. apply in_seq. lia. }
  specialize (T _ I). unfold entry_ok in T.
  rewrite (offered_ext (has_of_bits (bits_of has)) has) in T by apply has_of_bits_of.
  destruct (offered has) as [l|]; [|discriminate]. exists l. split; [reflexivity|].
  apply andb_true_iff in T. destruct T as [T T3]. apply andb_true_iff in T. destruct T as [T1 T2].
  split; [|split].
  - intros i. rewrite forallb_forall in T2. assert (Ii : In i all_ifaces) by (destruct i; simpl; auto 10).
    specialize (T2 _ Ii). rewrite has_of_bits_of in T2. apply eqb_prop in T2. rewrite <- T2.
    rewrite existsb_exists. split.
    + intros H. apply in_map_iff in H. destruct H as (p & Hp & Hin). exists p. split; [assumption|]. apply iface_eqb_eq. assumption.
    + intros (p & Hin & Hp). apply iface_eqb_eq in Hp. apply in_map_iff. exists p. auto.
  - intros p Hp. rewrite forallb_forall in T1. apply iface_eqb_eq. apply T1. assumption.
  - apply Nat.eqb_eq in T3. rewrite T3. f_equal. apply filter_ext. intros a. apply has_of_bits_of.
Qed.

(* ---------------- label layout ---------------- *)
Lemma check_labels_spec_lemma : forall free,
  (check_labels free = None <-> exists n, In n free /\ n <> s_code /\ n <> s_method) /\
  (forall c m, check_labels free = Some (c, m) -> (c = true <-> In (s_code) free) /\ (m = true <-> In (s_method) free)).
Proof.
  intros free. unfold check_labels.
  destruct (forallb (fun n => str_eqb n (s_code) || str_eqb n (s_method)) free) eqn:F.
  - split.
    + split; [discriminate|]. intros (n & Hn & N1 & N2). rewrite forallb_forall in F. specialize (F _ Hn).
      apply orb_true_iff in F. destruct F as [F|F]; apply str_eqb_eq in F; contradiction.
    + intros c m H. inversion H; subst. split; split; intros X; try (apply str_in_In; assumption); apply str_in_In in X; assumption.
  - split.
    + split; [intros _|reflexivity].
      assert (E : existsb (fun n => negb (str_eqb n (s_code) || str_eqb n (s_method))) free = true).
      { clear -F. induction free as [|x l IH]; simpl in *; [discriminate|].
        destruct (str_eqb x (s_code) || str_eqb x (s_method)); simpl in *; [apply IH; assumption|reflexivity]. }
      apply existsb_exists in E. destruct E as (n & Hn & Nn). exists n. split; [assumption|].
      apply negb_true_iff in Nn. apply orb_false_iff in Nn. destruct Nn as [N1 N2].
      split; apply str_eqb_neq; assumption.
    + intros c m H. discriminate.
Qed.

(* ---------------- stacked middlewares: every request is counted exactly once, under its own tuple ---------------- *)
Lemma labels_eqb_eq a b : labels_eqb a b = true <-> a = b.
Proof.
  revert b. induction a as [|[n v] a IH]; intros [|[n' v'] b]; simpl; try (split; [discriminate|congruence]); [tauto|].
  rewrite !andb_true_iff, !str_eqb_eq, IH. split.
  - intros [[-> ->] ->]. reflexivity.
  - intros E. inversion E. auto.
Qed.

Lemma labels_eqb_refl a : labels_eqb a a = true.
Proof. apply labels_eqb_eq. reflexivity. Qed.

Lemma lookup_bump k ls st :
  lookup_child ls (bump k st) = lookup_child ls st + (if labels_eqb k ls then 1 else 0).
Proof.
  induction st as [|[k' c] t IH]; simpl.
  - destruct (labels_eqb k ls); lia.
  - destruct (labels_eqb k' k) eqn:Ek; simpl.
    + apply labels_eqb_eq in Ek. subst k'. destruct (labels_eqb k ls); lia.
    + destruct (labels_eqb k' ls) eqn:El.
      * apply labels_eqb_eq in El. subst k'.
        destruct (labels_eqb k ls) eqn:E2; [apply labels_eqb_eq in E2; subst; rewrite labels_eqb_refl in Ek; discriminate|lia].
      * exact IH.
Qed.

Lemma total_bump k st : total_count (bump k st) = total_count st + 1.
Proof.
  unfold total_count. induction st as [|[k' c] t IH]; simpl; [lia|].
  destruct (labels_eqb k' k); simpl; lia.
Qed.

Lemma children_from_lookup lay extra qs : forall st ls,
  lookup_child ls (children_from lay extra qs st) =
  lookup_child ls st + Z.of_nat (List.length (filter (fun q => labels_eqb (req_labels lay extra q) ls) qs)).
Proof.
  unfold children_from. induction qs as [|q qs IH]; intros st ls; simpl; [lia|].
  rewrite IH, lookup_bump. destruct (labels_eqb (req_labels lay extra q) ls); simpl List.length; lia.
Qed.

Lemma children_from_total lay extra qs : forall st,
  total_count (children_from lay extra qs st) = total_count st + Z.of_nat (List.length qs).
Proof.
  unfold children_from. induction qs as [|q qs IH]; intros st; simpl; [lia|].
  rewrite IH, total_bump. simpl List.length. lia.
Qed.

Lemma stacked_counted_once_lemma : forall lay extra qs,
  total_count (children lay extra qs) = Z.of_nat (List.length qs) /\
  (forall ls, lookup_child ls (children lay extra qs) =
              Z.of_nat (List.length (filter (fun q => labels_eqb (req_labels lay extra q) ls) qs))).
Proof.
  intros lay extra qs. unfold children. split.
  - rewrite children_from_total. reflexivity.
  - intros ls. rewrite children_from_lookup. reflexivity.
Qed.

Lemma stack_independent_lemma : forall lays extra qs n lay,
  nth_error lays n = Some lay -> nth_error (stack_children lays extra qs) n = Some (children lay extra qs).
Proof. intros lays extra qs n lay H. unfold stack_children. rewrite nth_error_map, H. reflexivity. Qed.
