(* Proofs/C01_proofs.v -- C01: Counter and Gauge updates are atomic.
   Invariants of the interleaving semantics (Base/Conc.v) for the step machines of
   Model/CounterGauge.v, for ALL program lists and ALL schedules.
   Layout: 0 list helpers; 1 generic facts about sched_step / advance / init_config and the
   timing invariant GI; 2 to_bits is injective; 3 gauge invariant (G1); 4 counter invariant (C1-C3);
   5 float monotonicity on non-negative operands; 6 every call is accounted for exactly once;
   7 counter monotone / quiescent (C4, C5); 8 gauge quiescent, checker completeness (G3, G2);
   9 observables for the examples; 10 exact addition on a common grid (order independence). *)
From Coq Require Import ZArith List Bool Lia Reals Lra ZifyBool Sorted Permutation.
From Flocq Require Import Core.Core IEEE754.BinarySingleNaN.
From Verif Require Import Base.F64 Base.Conc Model.CounterGauge Proofs.F64_order.
Import ListNotations.
Open Scope Z_scope.

(* ====================================================================== *)
(* definitions used in the statements of Properties/C01.v                  *)
(* ====================================================================== *)

(* sequential replay of a specification over a list of operations: final state and all results *)
Fixpoint spec_run {St O R : Type} (f : St -> O -> St * R) (s : St) (ops : list O) : St * list R :=
  match ops with
  | [] => (s, [])
  | o :: r => let (s1, x) := f s o in let (s2, xs) := spec_run f s1 r in (s2, x :: xs)
  end.

Definition zsum (l : list Z) : Z := fold_right Z.add 0 l.

Definition res_le {M} (a b : call M) : Prop := c_res a <= c_res b.
Definition res_lt {M} (a b : call M) : Prop := c_res a < c_res b.

(* the calls of a history that returned at or before time t *)
Definition upto {M} (t : Z) (h : list (call M)) : list (call M) := filter (fun k => c_res k <=? t) h.

(* ====================================================================== *)
(* 0. list helpers                                                         *)
(* ====================================================================== *)

Lemma spec_run_app {St O R} (f : St -> O -> St * R) l1 : forall s l2,
  spec_run f s (l1 ++ l2) =
  (let (s1, r1) := spec_run f s l1 in let (s2, r2) := spec_run f s1 l2 in (s2, r1 ++ r2)).
Proof.
  induction l1 as [|o r IH]; intros s l2; cbn [spec_run app].
  - destruct (spec_run f s l2); reflexivity.
  - destruct (f s o) as [s1 x]. rewrite IH. destruct (spec_run f s1 r) as [s2 xs].
    destruct (spec_run f s2 l2); reflexivity.
Qed.

Lemma zsum_app l1 l2 : zsum (l1 ++ l2) = zsum l1 + zsum l2.
Proof. unfold zsum. induction l1 as [|x r IH]; cbn [fold_right app]; lia. Qed.

Lemma Forall_set_nth {A} (P : A -> Prop) (l : list A) : forall n x,
  Forall P l -> P x -> Forall P (set_nth l n x).
Proof.
  induction l as [|y r IH]; intros n x HF Hx; cbn [set_nth].
  - destruct n; constructor.
  - inversion HF; subst. destruct n; constructor; auto.
Qed.

Lemma Forall_nth_error {A} (P : A -> Prop) (l : list A) n x :
  Forall P l -> nth_error l n = Some x -> P x.
Proof. intros HF Hn. rewrite Forall_forall in HF. apply HF. eapply nth_error_In; eauto. Qed.

Lemma Forall_mono {A} (P Q : A -> Prop) (l : list A) :
  (forall x, P x -> Q x) -> Forall P l -> Forall Q l.
Proof. intros H HF. eapply Forall_impl; eauto. Qed.

Lemma ss_snoc {A} (R : A -> A -> Prop) (h : list A) k :
  StronglySorted R h -> Forall (fun a => R a k) h -> StronglySorted R (h ++ [k]).
Proof.
  induction h as [|a r IH]; intros HS HF; cbn [app].
  - constructor; constructor.
  - inversion HS; subst. inversion HF; subst. constructor; [auto|].
    apply Forall_app; split; [assumption|constructor; [assumption|constructor]].
Qed.

Lemma ss_app {A} (R : A -> A -> Prop) (h l : list A) :
  StronglySorted R h -> StronglySorted R l -> Forall (fun a => Forall (R a) l) h ->
  StronglySorted R (h ++ l).
Proof.
  induction h as [|a r IH]; intros HS HL HF; cbn [app]; [assumption|].
  inversion HS; subst. inversion HF; subst. constructor; [auto|].
  apply Forall_app; split; assumption.
Qed.

Lemma ss_nth {A} (R : A -> A -> Prop) (h : list A) : StronglySorted R h ->
  forall i j a b, nth_error h i = Some a -> nth_error h j = Some b -> (i < j)%nat -> R a b.
Proof.
  induction 1 as [|x r HS IH HF]; intros i j a b Hi Hj Hlt.
  - destruct i; discriminate.
  - destruct j as [|j]; [lia|]. destruct i as [|i]; cbn [nth_error] in *.
    + inversion Hi; subst. rewrite Forall_forall in HF. apply HF. eapply nth_error_In; eauto.
    + eapply IH; eauto. lia.
Qed.

(* ====================================================================== *)
(* 1. generic facts about the interleaving semantics                       *)
(* ====================================================================== *)
Section Gen.
Variable M : machine.

Lemma run_sched_ind (P : config M -> Prop) :
  (forall c tid c', P c -> sched_step M c tid = Some c' -> P c') ->
  forall sched c, P c -> P (run_sched M c sched).
Proof.
  intros Hstep sched. induction sched as [|t r IH]; intros c Hc; cbn [run_sched]; [assumption|].
  destruct (sched_step M c t) as [c'|] eqn:E; [apply IH; eapply Hstep; eauto|apply IH; assumption].
Qed.

(* what one schedule entry does *)
Lemma sched_step_cases c tid c' : sched_step M c tid = Some c' ->
  exists t o l inv s' nxt,
    nth_error (thr c) (Z.to_nat tid) = Some t /\ t_cur t = Some (o, l, inv) /\
    step M (sh c) l = Some (s', nxt) /\ sh c' = s' /\ now c' = now c + 1 /\
    match nxt with
    | inl l' => hist c' = hist c /\
                thr c' = set_nth (thr c) (Z.to_nat tid) (mkThread M (t_todo t) (Some (o, l', inv)) (t_idx t))
    | inr r => exists t' cs, advance M tid (t_todo t) (t_idx t + 1) (now c + 1) = (t', cs) /\
                hist c' = hist c ++ mkCall tid (t_idx t) o r inv (now c + 1) :: cs /\
                thr c' = set_nth (thr c) (Z.to_nat tid) t'
    end.
Proof.
  unfold sched_step. intros H.
  destruct (nth_error (thr c) (Z.to_nat tid)) as [t|] eqn:Ht; [|discriminate].
  destruct (t_cur t) as [[[o l] inv]|] eqn:Hc; [|discriminate].
  destruct (step M (sh c) l) as [[s' nxt]|] eqn:Hs; [|discriminate].
  exists t, o, l, inv, s', nxt.
  destruct nxt as [l'|r].
  - injection H as <-. cbn. repeat split; auto.
  - destruct (advance M tid (t_todo t) (t_idx t + 1) (now c + 1)) as [t' cs] eqn:Ha.
    injection H as <-. cbn. repeat split; auto. exists t', cs. repeat split; reflexivity.
Qed.

(* a call that returned without executing a step, at time `time` *)
Definition imm (time : Z) (k : call M) : Prop :=
  c_inv k = time /\ c_res k = time /\ start M (c_op k) = inr (c_ret k).
(* a thread as left by `advance` at time `time` *)
Definition fresh (time : Z) (t : thread M) : Prop :=
  match t_cur t with Some (o, l, inv) => inv = time /\ start M o = inl l | None => t_todo t = [] end.

Lemma advance_spec tid todo : forall idx time t cs,
  advance M tid todo idx time = (t, cs) -> fresh time t /\ Forall (imm time) cs.
Proof.
  induction todo as [|o rest IH]; intros idx time t cs H; cbn [advance] in H.
  - inversion H; subst. split; [reflexivity|constructor].
  - destruct (start M o) as [l|r] eqn:Hs.
    + inversion H; subst. split; [cbn; auto|constructor].
    + destruct (advance M tid rest (idx + 1) time) as [t0 cs0] eqn:Ha.
      inversion H; subst. destruct (IH _ _ _ _ Ha) as [H1 H2]. split; [assumption|].
      constructor; [|assumption]. repeat split; assumption.
Qed.

(* the initial configuration, with the thread ids abstracted *)
Definition init_pairs (progs : list (list (op M))) : list (Z * list (op M)) :=
  combine (map Z.of_nat (seq 0 (length progs))) progs.

Lemma init_pairs_snd progs : map snd (init_pairs progs) = progs.
Proof.
  assert (H : forall (l : list (list (op M))) (ids : list Z), length ids = length l -> map snd (combine ids l) = l).
  { induction l as [|p r IH]; intros [|i ids] Hl; cbn in *; try reflexivity; try discriminate.
    f_equal. apply IH. lia. }
  unfold init_pairs. apply H. rewrite map_length, seq_length. reflexivity.
Qed.

Lemma init_thr s0 progs :
  thr (init_config M s0 progs) = map (fun p => fst (advance M (fst p) (snd p) 0 0)) (init_pairs progs).
Proof. unfold init_config, init_pairs. cbn [thr]. rewrite map_map. reflexivity. Qed.
Lemma init_hist s0 progs :
  hist (init_config M s0 progs) = concat (map (fun p => snd (advance M (fst p) (snd p) 0 0)) (init_pairs progs)).
Proof. unfold init_config, init_pairs. cbn [hist]. rewrite map_map. reflexivity. Qed.

Lemma init_fresh s0 progs :
  Forall (fresh 0) (thr (init_config M s0 progs)) /\ Forall (imm 0) (hist (init_config M s0 progs)).
Proof.
  rewrite init_thr, init_hist. induction (init_pairs progs) as [|p r [IH1 IH2]]; cbn [map concat].
  - split; constructor.
  - destruct (advance M (fst p) (snd p) 0 0) as [t cs] eqn:Ha. destruct (advance_spec _ _ _ _ _ _ Ha) as [H1 H2].
    cbn [fst snd]. split; [constructor; assumption|apply Forall_app; split; assumption].
Qed.

(* ---- timing invariant ---- *)
Definition thr_ok (n : Z) (t : thread M) : Prop :=
  match t_cur t with
  | Some (o, l, inv) => 0 <= inv <= n /\ exists l0, start M o = inl l0
  | None => t_todo t = []
  end.

Definition call_ok (n : Z) (k : call M) : Prop :=
  0 <= c_inv k /\ c_res k <= n /\
  ((c_inv k = c_res k /\ start M (c_op k) = inr (c_ret k)) \/
   (c_inv k < c_res k /\ (exists l0, start M (c_op k) = inl l0) /\
    exists s l s', step M s l = Some (s', inr (c_ret k)))).

Definition GI (c : config M) : Prop :=
  0 <= now c /\ Forall (thr_ok (now c)) (thr c) /\ Forall (call_ok (now c)) (hist c) /\
  StronglySorted res_le (hist c).

Lemma thr_ok_mono n n' t : n <= n' -> thr_ok n t -> thr_ok n' t.
Proof. unfold thr_ok. destruct (t_cur t) as [[[o l] inv]|]; [|auto]. intros Hn [H1 H2]. split; [lia|assumption]. Qed.
Lemma call_ok_mono n n' k : n <= n' -> call_ok n k -> call_ok n' k.
Proof. unfold call_ok. intros Hn (H1 & H2 & H3). repeat split; try assumption; lia. Qed.

Lemma fresh_thr_ok time t : 0 <= time -> fresh time t -> thr_ok time t.
Proof.
  unfold fresh, thr_ok. destruct (t_cur t) as [[[o l] inv]|]; [|auto].
  intros Ht [H1 H2]. subst. split; [lia|eauto].
Qed.
Lemma imm_call_ok time k : 0 <= time -> imm time k -> call_ok time k.
Proof. unfold imm, call_ok. intros Ht (H1 & H2 & H3). repeat split; try lia. left. split; [lia|assumption]. Qed.

Lemma ss_all_eq (n : Z) (l : list (call M)) : Forall (fun k => c_res k = n) l -> StronglySorted res_le l.
Proof.
  induction 1 as [|k r Hk HF IH]; constructor; [assumption|].
  eapply Forall_mono; [|exact HF]. intros x Hx. unfold res_le. cbn beta in *. lia.
Qed.

Lemma ss_app_later (n : Z) (h l : list (call M)) :
  StronglySorted res_le h -> Forall (fun k => c_res k <= n) h -> Forall (fun k => c_res k = n + 1) l ->
  StronglySorted res_le (h ++ l).
Proof.
  intros HS HF HL. apply ss_app; [assumption|eapply ss_all_eq; eassumption|].
  eapply Forall_mono; [|exact HF]. intros a Ha. eapply Forall_mono; [|exact HL].
  intros b Hb. unfold res_le. cbn beta in *. lia.
Qed.

Lemma GI_init s0 progs : GI (init_config M s0 progs).
Proof.
  destruct (init_fresh s0 progs) as [H1 H2].
  assert (Hn : now (init_config M s0 progs) = 0) by reflexivity.
  unfold GI. rewrite Hn. repeat split; try lia.
  - eapply Forall_mono; [|exact H1]. intros t. apply fresh_thr_ok. lia.
  - eapply Forall_mono; [|exact H2]. intros k. apply imm_call_ok. lia.
  - apply (ss_all_eq 0). eapply Forall_mono; [|exact H2]. intros k (_ & H & _). exact H.
Qed.

Lemma GI_step c tid c' : GI c -> sched_step M c tid = Some c' -> GI c'.
Proof.
  intros (Hn & HT & HH & HS) Hstep.
  destruct (sched_step_cases _ _ _ Hstep) as (t & o & l & inv & s' & nxt & Ht & Hcur & Hs & Hsh & Hnow & Hrest).
  pose proof (Forall_nth_error _ _ _ _ HT Ht) as Htok. unfold thr_ok in Htok. rewrite Hcur in Htok.
  destruct Htok as [Hinv Hst].
  assert (HT' : Forall (thr_ok (now c')) (thr c))
    by (eapply Forall_mono; [|exact HT]; intros x; apply thr_ok_mono; lia).
  assert (HH' : Forall (call_ok (now c')) (hist c))
    by (eapply Forall_mono; [|exact HH]; intros x; apply call_ok_mono; lia).
  destruct nxt as [l'|r].
  - destruct Hrest as [Hh Hth]. unfold GI. rewrite Hh, Hth. repeat split; try lia; try assumption.
    apply Forall_set_nth; [assumption|]. unfold thr_ok. cbn [t_cur]. split; [lia|assumption].
  - destruct Hrest as (t' & cs & Ha & Hh & Hth). destruct (advance_spec _ _ _ _ _ _ Ha) as [Hf Hcs].
    unfold GI. rewrite Hh, Hth. repeat split; try lia.
    + apply Forall_set_nth; [assumption|]. rewrite Hnow. apply fresh_thr_ok; [lia|assumption].
    + apply Forall_app; split; [assumption|]. constructor.
      * unfold call_ok. cbn [c_inv c_res c_op c_ret]. repeat split; try lia. right. repeat split; try lia; eauto.
      * rewrite Hnow. eapply Forall_mono; [|exact Hcs]. intros k. apply imm_call_ok. lia.
    + apply (ss_app_later (now c)); [assumption| |].
      * eapply Forall_mono; [|exact HH]. intros k (_ & H & _). exact H.
      * constructor; [reflexivity|]. eapply Forall_mono; [|exact Hcs]. intros k (_ & H & _). exact H.
Qed.

Lemma GI_reachable s0 progs sched : GI (run_sched M (init_config M s0 progs) sched).
Proof. apply run_sched_ind; [intros; eapply GI_step; eauto|apply GI_init]. Qed.

(* filtering by response time is stable when later calls are appended *)
Lemma upto_all (n : Z) (h : list (call M)) : Forall (fun k => c_res k <= n) h -> upto n h = h.
Proof.
  unfold upto. induction 1 as [|k r Hk HF IH]; cbn [filter]; [reflexivity|].
  destruct (c_res k <=? n) eqn:E; [rewrite IH; reflexivity|lia].
Qed.
Lemma upto_none (t n : Z) (l : list (call M)) : t <= n -> Forall (fun k => c_res k = n + 1) l -> upto t l = [].
Proof.
  unfold upto. intros Ht. induction 1 as [|k r Hk HF IH]; cbn [filter]; [reflexivity|].
  destruct (c_res k <=? t) eqn:E; [lia|assumption].
Qed.
Lemma upto_app (t : Z) (h l : list (call M)) : upto t (h ++ l) = upto t h ++ upto t l.
Proof. unfold upto. apply filter_app. Qed.
Lemma upto_app_later (t n : Z) (h l : list (call M)) :
  t <= n -> Forall (fun k => c_res k = n + 1) l -> upto t (h ++ l) = upto t h.
Proof. intros Ht HL. rewrite upto_app, (upto_none t n l Ht HL), app_nil_r. reflexivity. Qed.

End Gen.

Arguments imm {M}. Arguments fresh {M}. Arguments thr_ok {M}. Arguments call_ok {M}. Arguments GI {M}.

(* ====================================================================== *)
(* 2. to_bits is injective (so a successful CAS saw exactly the loaded value) *)
(* ====================================================================== *)

Lemma bounded_facts m e : SpecFloat.bounded 53 1024 m e = true ->
  Z.pos m < 2 ^ 53 /\ -1074 <= e <= 971 /\ (Z.pos m < 2 ^ 52 -> e = -1074).
Proof.
  intros H. unfold SpecFloat.bounded in H. apply andb_prop in H. destruct H as [H1 H2].
  unfold SpecFloat.canonical_mantissa in H1. apply Zeq_bool_eq in H1. apply Zle_bool_imp_le in H2.
  unfold SpecFloat.fexp, SpecFloat.emin in H1. rewrite Digits.Zpos_digits2_pos in H1.
  pose proof (Digits.Zdigits_correct radix2 (Z.pos m)) as D.
  pose proof (Digits.Zdigits_gt_0 radix2 (Z.pos m) ltac:(discriminate)) as D0.
  set (d := Digits.Zdigits radix2 (Z.pos m)) in *.
  change (Zpower radix2 (d - 1)) with (2 ^ (d - 1)) in D. change (Zpower radix2 d) with (2 ^ d) in D.
  rewrite Z.abs_eq in D by lia.
  assert (Hd : d <= 53) by lia.
  assert (He : d = 53 \/ e = -1074) by lia.
  pose proof (Z.pow_le_mono_r 2 d 53 ltac:(lia) Hd) as P1.
  repeat split; try lia.
  intros Hm. destruct He as [He|He]; [|assumption]. subst d. rewrite He in D.
  change (2 ^ (53 - 1)) with (2 ^ 52) in D. lia.
Qed.

Lemma to_bits_inj (x y : f64) : to_bits x = to_bits y -> x = y.
Proof.
  intros E. apply B2SF_inj.
  destruct x as [sx|sx| |sx mx ex Hx]; destruct y as [sy|sy| |sy my ey Hy]; unfold to_bits in E; cbn [B2SF];
    try (pose proof (bounded_facts _ _ Hx) as (Bx1 & Bx2 & Bx3));
    try (pose proof (bounded_facts _ _ Hy) as (By1 & By2 & By3));
    change (2 ^ 53) with 9007199254740992 in *; change (2 ^ 52) with 4503599627370496 in *;
    repeat match type of E with context [Z.leb ?a ?b] => destruct (Z.leb_spec a b) end;
    unfold go_nan_bits in E;
    try reflexivity;
    try (destruct sx; destruct sy; first [reflexivity | exfalso; lia]);
    try (destruct sx; first [reflexivity | exfalso; lia]);
    try (destruct sy; first [reflexivity | exfalso; lia]).
  all: assert (Hs : sx = sy) by (destruct sx; destruct sy; first [reflexivity | exfalso; lia]); subst sy.
  all: assert (He : ex = ey) by (destruct sx; lia); subst ey.
  all: assert (Hm : mx = my) by (destruct sx; lia); subst my; reflexivity.
Qed.

Lemma fbits_eq_true x y : fbits_eq x y = true -> x = y.
Proof. unfold fbits_eq. intros H. apply to_bits_inj. lia. Qed.
Lemma fbits_eq_refl x : fbits_eq x x = true.
Proof. unfold fbits_eq. apply Z.eqb_refl. Qed.

(* ====================================================================== *)
(* 3. gauge                                                                *)
(* ====================================================================== *)
Notation gM := gauge_machine.

Definition g_local_ok (o : gauge_op) (l : gauge_pc) : Prop :=
  match l with
  | gStore v => o = GSet v
  | gLoad v => gauge_amount o = Some v
  | gCas _ v => gauge_amount o = Some v
  | gRead => o = GWrite
  end.
Definition g_thr_ok (t : thread gM) : Prop :=
  match t_cur t with Some (o, l, _) => g_local_ok o l | None => True end.

Lemma g_start_ok o l : gauge_start o = inl l -> g_local_ok o l.
Proof. destruct o; cbn [gauge_start]; intros H; inversion H; subst; reflexivity. Qed.

Lemma g_fresh_ok time (t : thread gM) : fresh time t -> g_thr_ok t.
Proof.
  unfold fresh, g_thr_ok. destruct (t_cur t) as [[[o l] inv]|]; [|auto]. intros [_ H]. apply g_start_ok. exact H.
Qed.
Lemma g_imm_nil time (cs : list (call gM)) : Forall (imm time) cs -> cs = [].
Proof.
  destruct cs as [|k r]; [reflexivity|]. intros H. inversion H as [|? ? (_ & _ & Hk) _]; subst.
  exfalso. cbn in Hk. destruct (c_op k); discriminate.
Qed.

Definition g_replay (c : config gM) : Prop :=
  spec_run gauge_spec_step gauge_init (map (@c_op gM) (hist c)) = (sh c, map (@c_ret gM) (hist c)).

Definition GInv (c : config gM) : Prop :=
  GI c /\ Forall g_thr_ok (thr c) /\ g_replay c /\
  StronglySorted res_lt (hist c) /\ Forall (fun k => c_inv k < c_res k) (hist c).

Lemma GInv_init progs : GInv (init_config gM gauge_init progs).
Proof.
  destruct (init_fresh gM gauge_init progs) as [H1 H2].
  pose proof (g_imm_nil _ _ H2) as Hnil.
  unfold GInv, g_replay. split; [apply GI_init|]. rewrite Hnil. repeat split.
  - eapply Forall_mono; [|exact H1]. intros t. apply g_fresh_ok.
  - constructor.
  - constructor.
Qed.

Lemma g_spec_amount s o v : gauge_amount o = Some v -> gauge_spec_step s o = (fadd s v, GUnit).
Proof. destruct o; cbn [gauge_amount gauge_spec_step]; intros H; inversion H; subst; reflexivity. Qed.

Lemma GInv_step c tid c' : GInv c -> sched_step gM c tid = Some c' -> GInv c'.
Proof.
  intros (HG & HT & HR & HS & HL) Hstep.
  pose proof (GI_step _ _ _ _ HG Hstep) as HG'.
  destruct (sched_step_cases _ _ _ _ Hstep) as (t & o & l & inv & s' & nxt & Ht & Hcur & Hs & Hsh & Hnow & Hrest).
  pose proof (Forall_nth_error _ _ _ _ HT Ht) as Hlo. unfold g_thr_ok in Hlo. rewrite Hcur in Hlo.
  destruct HG as (Hn & HGT & HGH & _).
  pose proof (Forall_nth_error _ _ _ _ HGT Ht) as Htk. unfold thr_ok in Htk. rewrite Hcur in Htk. destruct Htk as [Hinv _].
  change (step gM (sh c) l) with (gauge_step (sh c) l) in Hs.
  unfold GInv. split; [exact HG'|]. unfold g_replay in *.
  destruct nxt as [l'|r].
  - destruct Hrest as [Hh Hth]. rewrite Hh, Hth.
    assert (Hl' : s' = sh c /\ g_local_ok o l').
    { destruct l as [v|v|old v|]; cbn [gauge_step] in Hs.
      - discriminate.
      - inversion Hs; subst. split; [reflexivity|exact Hlo].
      - destruct (fbits_eq (sh c) old); inversion Hs; subst. split; [reflexivity|exact Hlo].
      - discriminate. }
    destruct Hl' as [Hs' Hl']. rewrite Hsh, Hs'. repeat split; try assumption.
    apply Forall_set_nth; [assumption|]. unfold g_thr_ok. cbn [t_cur]. exact Hl'.
  - destruct Hrest as (t' & cs & Ha & Hh & Hth). destruct (advance_spec _ _ _ _ _ _ _ Ha) as [Hf Hcs].
    pose proof (g_imm_nil _ _ Hcs) as Hnil. subst cs. rewrite Hh, Hth.
    assert (Hspec : gauge_spec_step (sh c) o = (s', r)).
    { destruct l as [v|v|old v|]; cbn [gauge_step] in Hs; cbn [g_local_ok] in Hlo.
      - inversion Hs; subst. reflexivity.
      - discriminate.
      - destruct (fbits_eq (sh c) old) eqn:Eb; inversion Hs; subst.
        apply fbits_eq_true in Eb. rewrite <- Eb. apply g_spec_amount. exact Hlo.
      - inversion Hs; subst. reflexivity. }
    repeat split.
    + apply Forall_set_nth; [assumption|]. eapply g_fresh_ok; eassumption.
    + rewrite !map_app, spec_run_app, HR. cbn [map spec_run c_op c_ret]. rewrite Hspec, Hsh. reflexivity.
    + apply ss_snoc; [assumption|]. eapply Forall_mono; [|exact HGH].
      intros k (_ & Hk & _). unfold res_lt. cbn [c_res]. lia.
    + apply Forall_app; split; [assumption|]. constructor; [|constructor]. cbn [c_inv c_res]. lia.
Qed.

Lemma GInv_reachable progs sched : GInv (run_sched gM (init_config gM gauge_init progs) sched).
Proof. apply run_sched_ind; [intros; eapply GInv_step; eauto|apply GInv_init]. Qed.

(* G1 *)
Lemma gauge_linearizable_lemma : forall (progs : list (list gauge_op)) (sched : list Z),
  let c := run_sched gM (init_config gM gauge_init progs) sched in
  spec_run gauge_spec_step gauge_init (map (@c_op gM) (hist c)) = (sh c, map (@c_ret gM) (hist c)) /\
  StronglySorted res_lt (hist c) /\
  Forall (fun k => 0 <= c_inv k < c_res k /\ c_res k <= now c) (hist c) /\
  (forall i j a b, nth_error (hist c) i = Some a -> nth_error (hist c) j = Some b ->
     c_res a <= c_inv b -> (i < j)%nat).
Proof.
  intros progs sched c. destruct (GInv_reachable progs sched) as (HG & HT & HR & HS & HL). fold c in HG, HT, HR, HS, HL.
  destruct HG as (_ & _ & HGH & _).
  assert (HF : Forall (fun k => 0 <= c_inv k < c_res k /\ c_res k <= now c) (hist c)).
  { rewrite Forall_forall in *. intros k Hk. specialize (HGH k Hk). specialize (HL k Hk).
    destruct HGH as (H1 & H2 & _). cbn beta in HL. lia. }
  repeat split; try assumption.
  intros i j a b Hi Hj Hab.
  pose proof (Forall_nth_error _ _ _ _ HF Hj) as Hb. cbn beta in Hb.
  destruct (Nat.lt_trichotomy i j) as [H|[H|H]]; [assumption| |]; exfalso.
  - subst j. rewrite Hi in Hj. inversion Hj; subst. lia.
  - pose proof (ss_nth _ _ HS _ _ _ _ Hj Hi H) as Hlt. unfold res_lt in Hlt. lia.
Qed.

(* ====================================================================== *)
(* 4. counter                                                              *)
(* ====================================================================== *)
Notation cM := counter_machine.

(* the amount a call adds on the integer path (Inc, Add of an integral value) *)
Definition int_amount (o : counter_op) : option Z :=
  match o with
  | CInc => Some 1
  | CAdd v => if flt v pzero then None
              else if feq (of_Z (to_u64_amd64 v)) v then Some (to_u64_amd64 v) else None
  | CWrite => None
  end.
(* the amount a call adds on the float (CAS) path *)
Definition cas_amount (o : counter_op) : option f64 :=
  match o with
  | CAdd v => if flt v pzero then None
              else if feq (of_Z (to_u64_amd64 v)) v then None else Some v
  | _ => None
  end.
Definition int_amounts (h : list (call cM)) : list Z :=
  flat_map (fun k : call cM => match int_amount (c_op k) with Some d => [d] | None => [] end) h.
Definition cas_amounts (h : list (call cM)) : list f64 :=
  flat_map (fun k : call cM => match cas_amount (c_op k) with Some v => [v] | None => [] end) h.

(* which kind of result each call must have *)
Definition ret_kind_ok (o : counter_op) (r : counter_ret) : Prop :=
  match o with
  | CInc => r = CUnit
  | CAdd v => r = (if flt v pzero then CPanic else CUnit)
  | CWrite => exists x, r = CValue x
  end.

(* the real-time window of a Write: bits loaded at t1 (all float-path calls that returned by t1),
   integer loaded at t2 (all integer-path calls that returned by t2), inv <= t1 < t2 <= res *)
Definition write_ok (h : list (call cM)) (w : call cM) : Prop :=
  forall r, c_ret w = CValue r ->
  exists t1 t2, c_inv w <= t1 /\ t1 < t2 /\ t2 <= c_res w /\
    r = fadd (sum_amounts (cas_amounts (upto t1 h))) (of_Z (zsum (int_amounts (upto t2 h)) mod two64)).

Definition c_local_ok (n : Z) (h : list (call cM)) (o : counter_op) (l : counter_pc) (inv : Z) : Prop :=
  match l with
  | cAddInt d => int_amount o = Some d
  | cLoad v => cas_amount o = Some v
  | cCas _ v => cas_amount o = Some v
  | cWBits => o = CWrite
  | cWInt f => o = CWrite /\ exists t1, inv <= t1 /\ t1 < n /\ f = sum_amounts (cas_amounts (upto t1 h))
  end.
Definition c_thr_ok (n : Z) (h : list (call cM)) (t : thread cM) : Prop :=
  match t_cur t with Some (o, l, inv) => c_local_ok n h o l inv | None => True end.

Definition CInv (c : config cM) : Prop :=
  GI c /\ Forall (c_thr_ok (now c) (hist c)) (thr c) /\
  valInt (sh c) = zsum (int_amounts (hist c)) mod two64 /\
  valBits (sh c) = sum_amounts (cas_amounts (hist c)) /\
  Forall (write_ok (hist c)) (hist c) /\
  Forall (fun k : call cM => ret_kind_ok (c_op k) (c_ret k)) (hist c).

Lemma int_amounts_app h1 h2 : int_amounts (h1 ++ h2) = int_amounts h1 ++ int_amounts h2.
Proof. apply flat_map_app. Qed.
Lemma cas_amounts_app h1 h2 : cas_amounts (h1 ++ h2) = cas_amounts h1 ++ cas_amounts h2.
Proof. apply flat_map_app. Qed.

Lemma c_start_inr o r : counter_start o = inr r ->
  r = CPanic /\ (exists v, o = CAdd v /\ flt v pzero = true) /\ int_amount o = None /\ cas_amount o = None.
Proof.
  destruct o as [|v|]; cbn [counter_start int_amount cas_amount]; try discriminate.
  destruct (flt v pzero) eqn:E.
  - intros H; inversion H. repeat split; eauto.
  - destruct (feq (of_Z (to_u64_amd64 v)) v); discriminate.
Qed.

Lemma c_start_inl n h o l inv : counter_start o = inl l -> c_local_ok n h o l inv.
Proof.
  destruct o as [|v|]; cbn [counter_start]; intros H.
  - inversion H; subst. reflexivity.
  - destruct (flt v pzero) eqn:E; [discriminate|].
    destruct (feq (of_Z (to_u64_amd64 v)) v) eqn:E2; inversion H; subst;
      cbn [c_local_ok int_amount cas_amount]; rewrite E, E2; reflexivity.
  - inversion H; subst. reflexivity.
Qed.

Lemma int_amount_kind o d : int_amount o = Some d -> cas_amount o = None /\ ret_kind_ok o CUnit.
Proof.
  destruct o as [|v|]; cbn [int_amount cas_amount ret_kind_ok]; try discriminate; [auto|].
  destruct (flt v pzero); [discriminate|]. destruct (feq _ v); [auto|discriminate].
Qed.
Lemma cas_amount_kind o v : cas_amount o = Some v -> int_amount o = None /\ ret_kind_ok o CUnit.
Proof.
  destruct o as [|w|]; cbn [int_amount cas_amount ret_kind_ok]; try discriminate.
  destruct (flt w pzero); [discriminate|]. destruct (feq _ w); [discriminate|auto].
Qed.

Lemma c_imm_amounts time (cs : list (call cM)) : Forall (imm time) cs ->
  int_amounts cs = [] /\ cas_amounts cs = [] /\
  Forall (fun k : call cM => c_ret k = CPanic /\ ret_kind_ok (c_op k) (c_ret k)) cs.
Proof.
  induction 1 as [|k r (_ & _ & Hk) HF (IH1 & IH2 & IH3)]; [repeat split; constructor|].
  change (start cM (c_op k)) with (counter_start (c_op k)) in Hk.
  destruct (c_start_inr _ _ Hk) as (Hr & (v & Hv & Hneg) & Hi & Hc).
  unfold int_amounts, cas_amounts in *. cbn [flat_map]. rewrite Hi, Hc, IH1, IH2. repeat split.
  constructor; [|assumption]. split; [assumption|]. rewrite Hv. cbn [ret_kind_ok]. rewrite Hneg. assumption.
Qed.

Lemma c_step_inl s l s' l' : counter_step s l = Some (s', inl l') ->
  s' = s /\ ((exists v, l = cLoad v /\ l' = cCas (valBits s) v) \/
             (exists old v, l = cCas old v /\ l' = cLoad v) \/
             (l = cWBits /\ l' = cWInt (valBits s))).
Proof.
  destruct l as [d|v|old v| |f]; cbn [counter_step]; intros H; try discriminate.
  - inversion H; subst. split; [reflexivity|]. left. eauto.
  - destruct (fbits_eq (valBits s) old); inversion H; subst. split; [reflexivity|]. right. left. eauto.
  - inversion H; subst. split; [reflexivity|]. right. right. auto.
Qed.

Lemma c_step_inr s l s' r : counter_step s l = Some (s', inr r) ->
  (exists d, l = cAddInt d /\ s' = mkCS (valBits s) ((valInt s + d) mod two64) /\ r = CUnit) \/
  (exists v, l = cCas (valBits s) v /\ s' = mkCS (fadd (valBits s) v) (valInt s) /\ r = CUnit) \/
  (exists f, l = cWInt f /\ s' = s /\ r = CValue (fadd f (of_Z (valInt s)))).
Proof.
  destruct l as [d|v|old v| |f]; cbn [counter_step]; intros H; try discriminate.
  - inversion H; subst. left. eauto.
  - destruct (fbits_eq (valBits s) old) eqn:E; inversion H; subst.
    apply fbits_eq_true in E. subst old. right. left. eauto.
  - inversion H; subst. right. right. eauto.
Qed.

Lemma c_thr_ok_later n h new (t : thread cM) :
  Forall (fun k : call cM => c_res k = n + 1) new -> c_thr_ok n h t -> c_thr_ok (n + 1) (h ++ new) t.
Proof.
  unfold c_thr_ok. destruct (t_cur t) as [[[o l] inv]|]; [|auto]. intros Hnew.
  destruct l as [d|v|old v| |f]; cbn [c_local_ok]; try (intros H; exact H).
  intros (Ho & t1 & H1 & H2 & H3). split; [assumption|]. exists t1. repeat split; try lia.
  rewrite (upto_app_later _ t1 n) by (try lia; assumption). assumption.
Qed.

Lemma write_ok_later n h new (w : call cM) :
  Forall (fun k : call cM => c_res k = n + 1) new -> c_res w <= n -> write_ok h w -> write_ok (h ++ new) w.
Proof.
  intros Hnew Hw H r Hr. destruct (H r Hr) as (t1 & t2 & A & B & C & D). exists t1, t2. repeat split; try assumption.
  rewrite (upto_app_later _ t1 n), (upto_app_later _ t2 n) by (try lia; assumption). assumption.
Qed.

Lemma CInv_init progs : CInv (init_config cM counter_init progs).
Proof.
  destruct (init_fresh cM counter_init progs) as [H1 H2].
  destruct (c_imm_amounts _ _ H2) as (Hi & Hc & Hp).
  unfold CInv. split; [apply GI_init|]. rewrite Hi, Hc. repeat split.
  - eapply Forall_mono; [|exact H1]. intros t. unfold fresh, c_thr_ok.
    destruct (t_cur t) as [[[o l] inv]|]; [|auto]. intros [_ H]. apply c_start_inl. exact H.
  - eapply Forall_mono; [|exact Hp]. intros k [Hk _] r Hr. rewrite Hk in Hr. discriminate.
  - eapply Forall_mono; [|exact Hp]. intros k [_ Hk]. exact Hk.
Qed.

Lemma CInv_step c tid c' : CInv c -> sched_step cM c tid = Some c' -> CInv c'.
Proof.
  intros (HG & HT & HI & HB & HW & HK) Hstep.
  pose proof (GI_step _ _ _ _ HG Hstep) as HG'.
  destruct (sched_step_cases _ _ _ _ Hstep) as (t & o & l & inv & s' & nxt & Ht & Hcur & Hs & Hsh & Hnow & Hrest).
  pose proof (Forall_nth_error _ _ _ _ HT Ht) as Hlo. unfold c_thr_ok in Hlo. rewrite Hcur in Hlo.
  destruct HG as (Hn & HGT & HGH & _).
  pose proof (Forall_nth_error _ _ _ _ HGT Ht) as Htk. unfold thr_ok in Htk. rewrite Hcur in Htk. destruct Htk as [Hinv _].
  assert (HGres : Forall (fun k : call cM => c_res k <= now c) (hist c))
    by (eapply Forall_mono; [|exact HGH]; intros k (_ & H & _); exact H).
  change (step cM (sh c) l) with (counter_step (sh c) l) in Hs.
  unfold CInv. split; [exact HG'|].
  destruct nxt as [l'|r].
  - destruct Hrest as [Hh Hth]. rewrite Hh, Hth, Hnow.
    destruct (c_step_inl _ _ _ _ Hs) as [Hs' Hl]. rewrite Hs' in Hsh. rewrite Hsh.
    assert (HT1 : Forall (c_thr_ok (now c + 1) (hist c)) (thr c)).
    { eapply Forall_mono; [|exact HT]. intros x Hx.
      pose proof (c_thr_ok_later (now c) (hist c) [] x (Forall_nil _) Hx) as Hx'. rewrite app_nil_r in Hx'. exact Hx'. }
    repeat split; try assumption.
    apply Forall_set_nth; [assumption|]. unfold c_thr_ok. cbn [t_cur].
    destruct Hl as [(v & -> & ->)|[(old & v & -> & ->)|(-> & ->)]]; cbn [c_local_ok] in *; try assumption.
    split; [assumption|]. exists (now c). repeat split; try lia.
    rewrite upto_all by assumption. assumption.
  - destruct Hrest as (t' & cs & Ha & Hh & Hth). destruct (advance_spec _ _ _ _ _ _ _ Ha) as [Hf Hcs].
    destruct (c_imm_amounts _ _ Hcs) as (Hci & Hcc & Hcp).
    set (k := mkCall tid (t_idx t) o r inv (now c + 1)) in *.
    assert (Hnew : Forall (fun x : call cM => c_res x = now c + 1) (k :: cs)).
    { constructor; [reflexivity|]. eapply Forall_mono; [|exact Hcs]. intros x (_ & H & _). exact H. }
    rewrite Hh, Hth, Hnow, Hsh.
    assert (HT1 : Forall (c_thr_ok (now c + 1) (hist c ++ k :: cs)) (set_nth (thr c) (Z.to_nat tid) t')).
    { apply Forall_set_nth.
      - eapply Forall_mono; [|exact HT]. intros x. apply c_thr_ok_later. assumption.
      - unfold fresh in Hf. unfold c_thr_ok. destruct (t_cur t') as [[[o' l'] inv']|]; [|auto].
        destruct Hf as [_ Hf]. apply c_start_inl. exact Hf. }
    assert (HW1 : Forall (write_ok (hist c ++ k :: cs)) (hist c)).
    { pose proof Hnew as Hnew'. rewrite Forall_forall in HW, HGres |- *. intros w Hw. apply (write_ok_later (now c)); auto. }
    assert (HWcs : Forall (write_ok (hist c ++ k :: cs)) cs).
    { eapply Forall_mono; [|exact Hcp]. intros x [Hx _] q Hq. rewrite Hx in Hq. discriminate. }
    assert (HKcs : Forall (fun x : call cM => ret_kind_ok (c_op x) (c_ret x)) cs).
    { eapply Forall_mono; [|exact Hcp]. intros x [_ Hx]. exact Hx. }
    rewrite int_amounts_app, cas_amounts_app.
    change (k :: cs) with ([k] ++ cs). rewrite int_amounts_app, cas_amounts_app, Hci, Hcc, !app_nil_r.
    unfold int_amounts at 2. unfold cas_amounts at 2. cbn [flat_map]. rewrite !app_nil_r. cbn [c_op k].
    destruct (c_step_inr _ _ _ _ Hs) as [(d & -> & -> & ->)|[(v & -> & -> & ->)|(f & -> & -> & ->)]];
      cbn [c_local_ok] in Hlo; cbn [valInt valBits].
    + destruct (int_amount_kind _ _ Hlo) as [Hc0 Hk0]. rewrite Hlo, Hc0, app_nil_r.
      repeat split.
      * exact HT1.
      * rewrite zsum_app. cbn [zsum fold_right]. rewrite HI, Z.add_0_r. apply Zplus_mod_idemp_l.
      * exact HB.
      * apply Forall_app; split; [exact HW1|]. constructor; [|exact HWcs]. intros q Hq. discriminate Hq.
      * apply Forall_app; split; [exact HK|]. constructor; [exact Hk0|exact HKcs].
    + destruct (cas_amount_kind _ _ Hlo) as [Hi0 Hk0]. rewrite Hlo, Hi0, app_nil_r.
      repeat split.
      * exact HT1.
      * exact HI.
      * unfold sum_amounts. rewrite fold_left_app. cbn [fold_left]. fold (sum_amounts (cas_amounts (hist c))).
        rewrite <- HB. reflexivity.
      * apply Forall_app; split; [exact HW1|]. constructor; [|exact HWcs]. intros q Hq. discriminate Hq.
      * apply Forall_app; split; [exact HK|]. constructor; [exact Hk0|exact HKcs].
    + destruct Hlo as (-> & t1 & Ht1 & Ht1' & Hf1). cbn [int_amount cas_amount]. rewrite !app_nil_r.
      repeat split.
      * exact HT1.
      * exact HI.
      * exact HB.
      * apply Forall_app; split; [exact HW1|]. constructor; [|exact HWcs].
        intros q Hq. cbn [c_ret k] in Hq. inversion Hq; subst q. exists t1, (now c). cbn [c_inv c_res k].
        repeat split; try lia.
        rewrite (upto_app_later _ t1 (now c)), (upto_app_later _ (now c) (now c)) by (try lia; assumption).
        rewrite (upto_all _ (now c)) by assumption. rewrite <- HI, <- Hf1. reflexivity.
      * apply Forall_app; split; [exact HK|]. constructor; [|exact HKcs]. cbn [ret_kind_ok c_op c_ret k]. eauto.
Qed.

Lemma CInv_reachable progs sched : CInv (run_sched cM (init_config cM counter_init progs) sched).
Proof. apply run_sched_ind; [intros; eapply CInv_step; eauto|apply CInv_init]. Qed.

(* C1 *)
Lemma counter_state_invariant_lemma : forall (progs : list (list counter_op)) (sched : list Z),
  let c := run_sched cM (init_config cM counter_init progs) sched in
  valInt (sh c) = zsum (int_amounts (hist c)) mod two64 /\
  valBits (sh c) = sum_amounts (cas_amounts (hist c)) /\
  0 <= valInt (sh c) < two64.
Proof.
  intros progs sched c. destruct (CInv_reachable progs sched) as (_ & _ & HI & HB & _). fold c in HI, HB.
  repeat split; try assumption; rewrite HI; apply Z.mod_pos_bound; reflexivity.
Qed.

(* C2 *)
Lemma counter_negative_add_panics_unchanged_lemma : forall (progs : list (list counter_op)) (sched : list Z),
  let c := run_sched cM (init_config cM counter_init progs) sched in
  forall k, In k (hist c) ->
    (forall v, c_op k = CAdd v -> flt v pzero = true -> c_ret k = CPanic /\ c_inv k = c_res k) /\
    (c_ret k = CPanic -> exists v, c_op k = CAdd v /\ flt v pzero = true) /\
    (c_inv k = c_res k <-> c_ret k = CPanic).
Proof.
  intros progs sched c k Hk.
  destruct (CInv_reachable progs sched) as ((_ & _ & HGH & _) & _ & _ & _ & _ & HK). fold c in HGH, HK.
  rewrite Forall_forall in HGH, HK. specialize (HGH k Hk). specialize (HK k Hk). cbn beta in HK.
  destruct HGH as (_ & _ & Hd).
  change (start cM (c_op k)) with (counter_start (c_op k)) in Hd.
  assert (Hpanic : c_ret k = CPanic -> exists v, c_op k = CAdd v /\ flt v pzero = true).
  { intros Hr. destruct (c_op k) as [|v|]; cbn [ret_kind_ok] in HK.
    - congruence.
    - exists v. split; [reflexivity|]. destruct (flt v pzero); [reflexivity|congruence].
    - destruct HK as [x Hx]. congruence. }
  assert (Hneg : forall v, c_op k = CAdd v -> flt v pzero = true -> c_ret k = CPanic /\ c_inv k = c_res k).
  { intros v Hv Hf. rewrite Hv in HK, Hd. cbn [ret_kind_ok counter_start] in HK, Hd. rewrite Hf in HK, Hd.
    split; [assumption|]. destruct Hd as [[H _]|(_ & (l0 & H) & _)]; [assumption|discriminate]. }
  split; [exact Hneg|split; [exact Hpanic|split]].
  - intros He. destruct Hd as [[_ H]|(H & _)]; [|lia]. apply c_start_inr in H. tauto.
  - intros Hr. destruct (Hpanic Hr) as (v & Hv & Hf). apply (Hneg v Hv Hf).
Qed.

(* C3 *)
Lemma counter_write_interval_lemma : forall (progs : list (list counter_op)) (sched : list Z),
  let c := run_sched cM (init_config cM counter_init progs) sched in
  forall w r, In w (hist c) -> c_ret w = CValue r ->
  c_op w = CWrite /\
  exists t1 t2, c_inv w <= t1 /\ t1 < t2 /\ t2 <= c_res w /\
    r = fadd (sum_amounts (cas_amounts (upto t1 (hist c))))
             (of_Z (zsum (int_amounts (upto t2 (hist c))) mod two64)).
Proof.
  intros progs sched c w r Hw Hr.
  destruct (CInv_reachable progs sched) as (_ & _ & _ & _ & HW & HK). fold c in HW, HK.
  rewrite Forall_forall in HW, HK. split; [|exact (HW w Hw r Hr)].
  specialize (HK w Hw). cbn beta in HK. destruct (c_op w) as [|v|]; cbn [ret_kind_ok] in HK; [congruence| |reflexivity].
  destruct (flt v pzero); congruence.
Qed.

(* ====================================================================== *)
(* 5. float monotonicity on non-negative operands                          *)
(* ====================================================================== *)
Notation rnd := (round radix2 (SpecFloat.fexp 53 1024) (round_mode mode_NE)).
Definition Hve64 := fexp_correct 53 1024 Hprec_gt0_64.

(* x >= 0 in Go's order: +-0, positive finite, +Inf; excludes NaN *)
Definition nn (x : f64) : Prop := fle pzero x = true.

Lemma rnd_le x y : (x <= y)%R -> (rnd x <= rnd y)%R.
Proof. apply (@round_le radix2 (SpecFloat.fexp 53 1024) Hve64 (round_mode mode_NE) (valid_rnd_round_mode mode_NE)). Qed.
Lemma rnd_ge_0 x : (0 <= x)%R -> (0 <= rnd x)%R.
Proof.
  intros H. apply (@round_ge_generic radix2 (SpecFloat.fexp 53 1024) Hve64 (round_mode mode_NE) (valid_rnd_round_mode mode_NE));
    [apply generic_format_0|assumption].
Qed.

Lemma nn_cases x : nn x ->
  x = pinf \/ (is_fin x = true /\ (0 <= B2R x)%R /\ (Bsign x = true -> B2R x = 0%R)).
Proof.
  unfold nn. destruct x as [s|s| |s m e H]; intros Hx.
  - right. cbn. repeat split; try reflexivity; lra.
  - destruct s; [discriminate Hx|left; reflexivity].
  - discriminate Hx.
  - destruct s; [discriminate Hx|]. right. repeat split; [|discriminate].
    cbn [B2R cond_Zopp]. apply F2R_ge_0. cbn. lia.
Qed.

Lemma nn_fin_le a b : nn a -> fle a b = true -> is_fin b = true -> is_fin a = true /\ (B2R a <= B2R b)%R.
Proof.
  intros Ha Hab Fb. destruct (nn_cases a Ha) as [->|(Fa & _)].
  - exfalso. apply fle_iff in Hab. destruct Hab as (_ & _ & Hab). unfold ele in Hab.
    rewrite (ecls_fin b Fb) in Hab. cbn [ecls pinf] in Hab. lia.
  - split; [assumption|]. apply (fle_iff_fin a b Fa Fb) in Hab. destruct Hab as (_ & _ & Hab). unfold ele, eval in Hab.
    rewrite (ecls_fin a Fa), (ecls_fin b Fb) in Hab. destruct Hab as [Hab|(_ & [Hab|Hab])]; try lia. assumption.
Qed.

Lemma fin_le_fle a b : is_fin a = true -> is_fin b = true -> (B2R a <= B2R b)%R -> fle a b = true.
Proof.
  intros Fa Fb H. apply (fle_iff_fin a b Fa Fb).
  split; [destruct a; try discriminate; reflexivity|]. split; [destruct b; try discriminate; reflexivity|].
  unfold ele, eval. rewrite (ecls_fin a Fa), (ecls_fin b Fb). right. split; [reflexivity|right; assumption].
Qed.

Lemma nn_trans a b : nn a -> fle a b = true -> nn b.
Proof. unfold nn. apply fle_trans. Qed.

Lemma fadd_fin_cases a x : is_fin a = true -> is_fin x = true ->
  (is_fin (fadd a x) = true /\ B2R (fadd a x) = rnd (B2R a + B2R x) /\
   (Rabs (rnd (B2R a + B2R x)) < bpow radix2 1024)%R) \/
  (fadd a x = B754_infinity (Bsign a) /\ Bsign a = Bsign x /\
   (bpow radix2 1024 <= Rabs (rnd (B2R a + B2R x)))%R).
Proof.
  intros Fa Fx. pose proof (Bplus_correct 53 1024 Hprec_gt0_64 Hprec_emax64 mode_NE a x Fa Fx) as H.
  destruct (Rlt_bool_spec (Rabs (rnd (B2R a + B2R x))) (bpow radix2 1024)) as [Hlt|Hge].
  - left. destruct H as (H1 & H2 & _). repeat split; assumption.
  - right. destruct H as [H1 H2]. split; [|split; assumption].
    unfold fadd. apply B2SF_inj. rewrite H1. reflexivity.
Qed.

Lemma fadd_fin_nn a x : nn a -> nn x -> is_fin a = true -> is_fin x = true ->
  (0 <= rnd (B2R a + B2R x))%R /\
  ((is_fin (fadd a x) = true /\ B2R (fadd a x) = rnd (B2R a + B2R x) /\ (rnd (B2R a + B2R x) < bpow radix2 1024)%R) \/
   (fadd a x = pinf /\ (bpow radix2 1024 <= rnd (B2R a + B2R x))%R)).
Proof.
  intros Na Nx Fa Fx.
  destruct (nn_cases a Na) as [->|(_ & Ha0 & Has)]; [discriminate Fa|].
  destruct (nn_cases x Nx) as [->|(_ & Hx0 & Hxs)]; [discriminate Fx|].
  assert (H0 : (0 <= rnd (B2R a + B2R x))%R) by (apply rnd_ge_0; lra).
  split; [assumption|].
  destruct (fadd_fin_cases a x Fa Fx) as [(H1 & H2 & H3)|(H1 & H2 & H3)]; rewrite Rabs_pos_eq in H3 by assumption.
  - left. repeat split; assumption.
  - right. split; [|assumption]. destruct (Bsign a) eqn:Es; [|exact H1].
    exfalso. rewrite (Has eq_refl), (Hxs (eq_sym H2)), Rplus_0_r, round_0 in H3 by apply valid_rnd_round_mode.
    pose proof (bpow_gt_0 radix2 1024). lra.
Qed.

Lemma fadd_pinf_l y : nn y -> fadd pinf y = pinf.
Proof. intros H. destruct (nn_cases y H) as [->|(F & _)]; [reflexivity|]. destruct y; try discriminate F; reflexivity. Qed.
Lemma fadd_pinf_r b : nn b -> fadd b pinf = pinf.
Proof. intros H. destruct (nn_cases b H) as [->|(F & _)]; [reflexivity|]. destruct b; try discriminate F; reflexivity. Qed.

Lemma nn_pinf : nn pinf. Proof. reflexivity. Qed.
Lemma nn_pzero : nn pzero. Proof. reflexivity. Qed.

Lemma nn_fadd a x : nn a -> nn x -> nn (fadd a x).
Proof.
  intros Na Nx.
  destruct (nn_cases a Na) as [->|(Fa & _)]; [rewrite fadd_pinf_l by assumption; exact nn_pinf|].
  destruct (nn_cases x Nx) as [->|(Fx & _)]; [rewrite fadd_pinf_r by assumption; exact nn_pinf|].
  destruct (fadd_fin_nn a x Na Nx Fa Fx) as [H0 [(H1 & H2 & _)|(H1 & _)]].
  - unfold nn. apply fin_le_fle; [reflexivity|assumption|]. rewrite H2. cbn [B2R pzero]. assumption.
  - rewrite H1. exact nn_pinf.
Qed.

(* fadd is monotone in both arguments on non-negative operands (overflow to +Inf included) *)
Lemma fadd_mono_nn a x b y : nn a -> nn x -> fle a b = true -> fle x y = true ->
  fle (fadd a x) (fadd b y) = true.
Proof.
  intros Na Nx Hab Hxy.
  pose proof (nn_trans _ _ Na Hab) as Nb. pose proof (nn_trans _ _ Nx Hxy) as Ny.
  pose proof (nn_fadd a x Na Nx) as Nax.
  assert (Hnan : is_nan (fadd a x) = false) by (apply fle_nonnan in Nax; tauto).
  destruct (nn_cases b Nb) as [->|(Fb & _)]; [rewrite fadd_pinf_l by assumption; apply fle_pinf; assumption|].
  destruct (nn_cases y Ny) as [->|(Fy & _)]; [rewrite fadd_pinf_r by assumption; apply fle_pinf; assumption|].
  destruct (nn_fin_le a b Na Hab Fb) as [Fa Lab]. destruct (nn_fin_le x y Nx Hxy Fy) as [Fx Lxy].
  pose proof (rnd_le (B2R a + B2R x) (B2R b + B2R y) ltac:(lra)) as Hr.
  destruct (fadd_fin_nn b y Nb Ny Fb Fy) as [_ [(B1 & B2 & B3)|(B1 & _)]].
  - destruct (fadd_fin_nn a x Na Nx Fa Fx) as [_ [(A1 & A2 & A3)|(A1 & A3)]].
    + apply fin_le_fle; try assumption. rewrite A2, B2. assumption.
    + exfalso. lra.
  - rewrite B1. apply fle_pinf. assumption.
Qed.

Lemma fadd_pzero_r_ge s : nn s -> fle s (fadd s pzero) = true.
Proof.
  intros Ns. destruct s as [[|]|[|]| |sg m e H]; try reflexivity; try discriminate Ns.
  assert (E : fadd (B754_finite sg m e H) pzero = B754_finite sg m e H) by reflexivity.
  rewrite E. apply fle_refl. reflexivity.
Qed.

Lemma fadd_ge_l s x : nn s -> nn x -> fle s (fadd s x) = true.
Proof.
  intros Ns Nx. eapply fle_trans; [apply fadd_pzero_r_ge; assumption|].
  apply fadd_mono_nn; try assumption; [exact nn_pzero|apply fle_refl; apply fle_nonnan in Ns; tauto].
Qed.

Lemma fold_fadd_nn l : Forall nn l -> forall s, nn s ->
  nn (fold_left fadd l s) /\ fle s (fold_left fadd l s) = true.
Proof.
  induction 1 as [|x r Hx HF IH]; intros s Ns; cbn [fold_left].
  - split; [assumption|]. apply fle_refl. apply fle_nonnan in Ns. tauto.
  - destruct (IH (fadd s x) (nn_fadd _ _ Ns Hx)) as [H1 H2]. split; [assumption|].
    apply (fle_trans _ (fadd s x)); [apply fadd_ge_l; assumption|assumption].
Qed.

(* uint64 -> float64 *)
Lemma of_Z_spec i : 0 <= i < 2 ^ 64 -> is_fin (of_Z i) = true /\ B2R (of_Z i) = rnd (IZR i).
Proof.
  intros Hi.
  pose proof (binary_normalize_correct 53 1024 Hprec_gt0_64 Hprec_emax64 mode_NE i 0 false) as H.
  cbv zeta in H.
  assert (E : F2R (Float radix2 i 0) = IZR i) by (unfold F2R; cbn [Fnum Fexp bpow]; ring).
  rewrite E in H.
  assert (Hb : (Rabs (rnd (IZR i)) < bpow radix2 1024)%R).
  { assert (H0 : (0 <= rnd (IZR i))%R) by (apply rnd_ge_0; apply IZR_le; lia).
    rewrite Rabs_pos_eq by assumption.
    assert (H64 : (rnd (IZR i) <= bpow radix2 64)%R).
    { apply (@round_le_generic radix2 (SpecFloat.fexp 53 1024) Hve64 (round_mode mode_NE) (valid_rnd_round_mode mode_NE)).
      - apply generic_format_bpow. cbv. discriminate.
      - change (bpow radix2 64) with (IZR (2 ^ 64)). apply IZR_le. lia. }
    pose proof (bpow_lt radix2 64 1024 ltac:(lia)). lra. }
  rewrite (Rlt_bool_true _ _ Hb) in H. destruct H as (H1 & H2 & _). split; assumption.
Qed.

Lemma of_Z_mono i j : 0 <= i -> i <= j -> j < 2 ^ 64 -> fle (of_Z i) (of_Z j) = true.
Proof.
  intros H0 Hij Hj. destruct (of_Z_spec i ltac:(lia)) as [F1 R1]. destruct (of_Z_spec j ltac:(lia)) as [F2 R2].
  apply fin_le_fle; try assumption. rewrite R1, R2. apply rnd_le. apply IZR_le. assumption.
Qed.
Lemma of_Z_nn i : 0 <= i < 2 ^ 64 -> nn (of_Z i).
Proof.
  intros Hi. destruct (of_Z_spec i Hi) as [F1 R1]. unfold nn. apply fin_le_fle; [reflexivity|assumption|].
  rewrite R1. cbn [B2R pzero]. apply rnd_ge_0. apply IZR_le. lia.
Qed.

(* ====================================================================== *)
(* 6. every call of the programs is accounted for exactly once             *)
(* ====================================================================== *)
Section Ops.
Variable M : machine.

Definition pending_ops (t : thread M) : list (op M) :=
  match t_cur t with Some (o, _, _) => o :: t_todo t | None => t_todo t end.
Definition all_ops (c : config M) : list (op M) :=
  map (@c_op M) (hist c) ++ flat_map pending_ops (thr c).

Lemma advance_ops tid todo : forall idx time t cs,
  advance M tid todo idx time = (t, cs) -> map (@c_op M) cs ++ pending_ops t = todo.
Proof.
  induction todo as [|o rest IH]; intros idx time t cs H; cbn [advance] in H.
  - inversion H; subst. reflexivity.
  - destruct (start M o) as [l|r] eqn:Hs.
    + inversion H; subst. reflexivity.
    + destruct (advance M tid rest (idx + 1) time) as [t0 cs0] eqn:Ha.
      inversion H; subst. cbn [map app c_op]. f_equal. eapply IH; eauto.
Qed.

Lemma set_nth_split {A} (l : list A) : forall n old x, nth_error l n = Some old ->
  exists l1 l2, l = l1 ++ old :: l2 /\ set_nth l n x = l1 ++ x :: l2.
Proof.
  induction l as [|y r IH]; intros n old x H; [destruct n; discriminate|].
  destruct n as [|n]; cbn [nth_error set_nth] in *.
  - inversion H; subst. exists [], r. split; reflexivity.
  - destruct (IH n old x H) as (l1 & l2 & E1 & E2). exists (y :: l1), l2. rewrite E1 at 1. rewrite E2. split; reflexivity.
Qed.

Lemma ops_init s0 progs : Permutation (all_ops (init_config M s0 progs)) (concat progs).
Proof.
  unfold all_ops. rewrite init_thr, init_hist. rewrite <- (init_pairs_snd M progs) at 3.
  induction (init_pairs M progs) as [|p r IH]; cbn [map concat flat_map app]; [constructor|].
  destruct (advance M (fst p) (snd p) 0 0) as [t cs] eqn:Ha. cbn [fst snd].
  rewrite <- (advance_ops _ _ _ _ _ _ Ha). rewrite map_app, <- !app_assoc.
  apply Permutation_app_head.
  eapply Permutation_trans; [apply Permutation_app_swap_app|]. apply Permutation_app_head. exact IH.
Qed.

Lemma ops_step c tid c' : sched_step M c tid = Some c' -> Permutation (all_ops c') (all_ops c).
Proof.
  intros Hstep.
  destruct (sched_step_cases _ _ _ _ Hstep) as (t & o & l & inv & s' & nxt & Ht & Hcur & Hs & Hsh & Hnow & Hrest).
  unfold all_ops. destruct nxt as [l'|r].
  - destruct Hrest as [Hh Hth]. rewrite Hh, Hth.
    destruct (set_nth_split _ _ _ (mkThread M (t_todo t) (Some (o, l', inv)) (t_idx t)) Ht) as (l1 & l2 & E1 & E2).
    rewrite E2. rewrite E1. rewrite !flat_map_app. cbn [flat_map].
    assert (Hp : pending_ops (mkThread M (t_todo t) (Some (o, l', inv)) (t_idx t)) = pending_ops t)
      by (unfold pending_ops; cbn [t_cur t_todo]; rewrite Hcur; reflexivity).
    rewrite Hp. apply Permutation_refl.
  - destruct Hrest as (t' & cs & Ha & Hh & Hth). rewrite Hh, Hth.
    destruct (set_nth_split _ _ _ t' Ht) as (l1 & l2 & E1 & E2).
    rewrite E2. rewrite E1. rewrite !flat_map_app. cbn [flat_map].
    assert (Hp : pending_ops t = o :: map (@c_op M) cs ++ pending_ops t')
      by (unfold pending_ops at 1; rewrite Hcur; rewrite (advance_ops _ _ _ _ _ _ Ha); reflexivity).
    rewrite Hp. rewrite map_app. cbn [map c_op].
    set (C := map (@c_op M) cs). set (T' := pending_ops t'). set (L1 := flat_map pending_ops l1).
    set (L2 := flat_map pending_ops l2). set (H := map (@c_op M) (hist c)).
    rewrite <- app_assoc. apply Permutation_app_head.
    replace ((o :: C ++ T') ++ L2) with ((o :: C) ++ T' ++ L2) by (cbn [app]; rewrite <- app_assoc; reflexivity).
    apply Permutation_app_swap_app.
Qed.

Lemma ops_reachable s0 progs sched :
  Permutation (all_ops (run_sched M (init_config M s0 progs) sched)) (concat progs).
Proof.
  apply (run_sched_ind M (fun c => Permutation (all_ops c) (concat progs))); [|apply ops_init].
  intros c tid c' H Hs. eapply Permutation_trans; [eapply ops_step; eassumption|assumption].
Qed.

Lemma pending_nil n (l : list (thread M)) : Forall (thr_ok n) l ->
  forallb (fun t => match t_cur t with None => true | Some _ => false end) l = true -> flat_map pending_ops l = [].
Proof.
  induction 1 as [|t r Ht HF IH]; cbn [forallb flat_map]; [reflexivity|]. intros Hd.
  apply andb_prop in Hd. destruct Hd as [Hd1 Hd2]. rewrite (IH Hd2), app_nil_r.
  unfold thr_ok in Ht. unfold pending_ops. destruct (t_cur t) as [[[o l] inv]|]; [discriminate|assumption].
Qed.

Lemma all_done_pending (c : config M) : GI c -> all_done M c = true -> flat_map pending_ops (thr c) = [].
Proof. intros (_ & HT & _) Hd. eapply pending_nil; eassumption. Qed.

(* every call completes exactly once: at quiescence the history is a permutation of the programs *)
Lemma all_done_hist s0 progs sched : let c := run_sched M (init_config M s0 progs) sched in
  all_done M c = true -> Permutation (map (@c_op M) (hist c)) (concat progs).
Proof.
  intros c Hd. pose proof (ops_reachable s0 progs sched) as H. fold c in H. unfold all_ops in H.
  rewrite (all_done_pending c (GI_reachable M s0 progs sched) Hd), app_nil_r in H. exact H.
Qed.

Lemma hist_ops_incl s0 progs sched (P : op M -> Prop) : Forall P (concat progs) ->
  Forall (fun k => P (c_op k)) (hist (run_sched M (init_config M s0 progs) sched)).
Proof.
  intros HP. pose proof (ops_reachable s0 progs sched) as H. apply Permutation_sym in H.
  pose proof (Permutation_Forall H HP) as HF. unfold all_ops in HF. apply Forall_app in HF. destruct HF as [HF _].
  rewrite Forall_map in HF. exact HF.
Qed.

End Ops.

Arguments pending_ops {M}. Arguments all_ops {M}.

(* ====================================================================== *)
(* 7. counter: monotone Writes, quiescent value                            *)
(* ====================================================================== *)

(* integer-path amount of a call as a number (0 when the call is not on the integer path) *)
Definition ia (o : counter_op) : Z := match int_amount o with Some d => d | None => 0 end.
(* float-path amount of a call as a list *)
Definition ca (o : counter_op) : list f64 := match cas_amount o with Some v => [v] | None => [] end.
(* hypothesis on amounts: no NaN *)
Definition amount_ok (o : counter_op) : Prop := match o with CAdd v => is_nan v = false | _ => True end.

Lemma to_u64_nonneg v : 0 <= to_u64_amd64 v.
Proof.
  unfold to_u64_amd64. change (2 ^ 64) with 18446744073709551616. change (2 ^ 63) with 9223372036854775808.
  destruct v; try lia. cbv zeta. set (t := trunc_Z _).
  repeat match goal with |- context [if ?b then _ else _] => destruct b eqn:? end; lia.
Qed.

Lemma ia_nonneg o : 0 <= ia o.
Proof.
  unfold ia, int_amount. destruct o as [|v|]; try lia.
  destruct (flt v pzero); [lia|]. destruct (feq _ v); [apply to_u64_nonneg|lia].
Qed.

Lemma int_amounts_zsum h : zsum (int_amounts h) = zsum (map (fun k : call cM => ia (c_op k)) h).
Proof.
  induction h as [|k r IH]; [reflexivity|]. unfold int_amounts in *. cbn [flat_map map]. rewrite zsum_app, IH.
  unfold ia, zsum. destruct (int_amount (c_op k)); cbn [fold_right]; lia.
Qed.

Lemma cas_amounts_ca h : cas_amounts h = flat_map ca (map (@c_op cM) h).
Proof. induction h as [|k r IH]; [reflexivity|]. unfold cas_amounts in *. cbn [flat_map map]. rewrite IH. reflexivity. Qed.

Lemma zsum_perm l l' : Permutation l l' -> zsum l = zsum l'.
Proof. unfold zsum. induction 1; cbn [fold_right] in *; lia. Qed.

Lemma zsum_map_nonneg {A} (f : A -> Z) l : (forall x, 0 <= f x) -> 0 <= zsum (map f l).
Proof. unfold zsum. intros Hf. induction l as [|x r IH]; cbn [map fold_right] in *; [lia|]. specialize (Hf x). lia. Qed.

Lemma int_amounts_nonneg h : 0 <= zsum (int_amounts h).
Proof. rewrite int_amounts_zsum. apply zsum_map_nonneg. intros x. apply ia_nonneg. Qed.

Lemma int_amounts_filter f h : zsum (int_amounts (filter f h)) <= zsum (int_amounts h).
Proof.
  induction h as [|k r IH]; cbn [filter]; [lia|].
  change (k :: r) with ([k] ++ r). rewrite int_amounts_app, zsum_app. pose proof (int_amounts_nonneg [k]).
  destruct (f k); [|lia]. change (k :: filter f r) with ([k] ++ filter f r). rewrite int_amounts_app, zsum_app. lia.
Qed.

(* the integer total of the history never exceeds the integer total of the programs *)
Lemma hist_int_le_total progs sched :
  zsum (int_amounts (hist (run_sched cM (init_config cM counter_init progs) sched))) <= zsum (map ia (concat progs)).
Proof.
  pose proof (ops_reachable cM counter_init progs sched) as H. set (c := run_sched _ _ _) in *.
  apply (Permutation_map ia) in H. apply zsum_perm in H. rewrite <- H. unfold all_ops.
  rewrite map_app, zsum_app, map_map, <- int_amounts_zsum.
  rewrite <- (Z.add_0_r (zsum (int_amounts (hist c)))) at 1. apply Z.add_le_mono_l.
  apply zsum_map_nonneg. exact ia_nonneg.
Qed.

Lemma upto_gt_nil {M} t (r : list (call M)) : Forall (fun x => t < c_res x) r -> upto t r = [].
Proof.
  unfold upto. induction 1 as [|x r Hx HF IH]; cbn [filter]; [reflexivity|].
  destruct (c_res x <=? t) eqn:E; [lia|assumption].
Qed.

(* in a history sorted by response time, the calls returned by t form a prefix of those returned by t' >= t *)
Lemma upto_prefix {M} (h : list (call M)) : StronglySorted res_le h -> forall t t', t <= t' ->
  exists rest, upto t' h = upto t h ++ rest.
Proof.
  induction 1 as [|k r HS IH HF]; intros t t' Htt; [exists []; reflexivity|].
  destruct (c_res k <=? t) eqn:E.
  - destruct (IH t t' Htt) as [rest Hr]. exists rest. unfold upto in *. cbn [filter]. rewrite E.
    replace (c_res k <=? t') with true by lia. rewrite Hr. reflexivity.
  - exists (upto t' (k :: r)). replace (upto t (k :: r)) with (@nil (call M)); [reflexivity|].
    unfold upto at 1. cbn [filter]. rewrite E. symmetry. apply upto_gt_nil.
    eapply Forall_mono; [|exact HF]. intros x Hx. unfold res_le in Hx. lia.
Qed.

Lemma cas_amount_nn o v : amount_ok o -> cas_amount o = Some v -> nn v.
Proof.
  destruct o as [|w|]; cbn [amount_ok cas_amount]; try discriminate. intros Hn.
  destruct (flt w pzero) eqn:E; [discriminate|]. destruct (feq _ w); [discriminate|]. intros H; inversion H; subst v.
  unfold nn. destruct (fle_total pzero w eq_refl Hn) as [H1|H1]; [assumption|congruence].
Qed.

Lemma cas_amounts_nn (h : list (call cM)) : Forall (fun k : call cM => amount_ok (c_op k)) h -> Forall nn (cas_amounts h).
Proof.
  induction 1 as [|k r Hk HF IH]; [constructor|]. unfold cas_amounts in *. cbn [flat_map].
  apply Forall_app; split; [|assumption]. destruct (cas_amount (c_op k)) as [v|] eqn:E; [|constructor].
  constructor; [|constructor]. eapply cas_amount_nn; eassumption.
Qed.

Lemma Forall_upto {M} (P : call M -> Prop) t h : Forall P h -> Forall P (upto t h).
Proof. rewrite !Forall_forall. intros H x Hx. apply filter_In in Hx. apply H. tauto. Qed.

(* C4 *)
Lemma counter_monotone_lemma : forall (progs : list (list counter_op)) (sched : list Z),
  let c := run_sched cM (init_config cM counter_init progs) sched in
  Forall amount_ok (concat progs) -> zsum (map ia (concat progs)) < two64 ->
  forall w1 w2 r1 r2, In w1 (hist c) -> In w2 (hist c) ->
    c_ret w1 = CValue r1 -> c_ret w2 = CValue r2 -> c_res w1 <= c_inv w2 -> fle r1 r2 = true.
Proof.
  intros progs sched c Hok Htot w1 w2 r1 r2 Hw1 Hw2 Hr1 Hr2 Hrt.
  destruct (CInv_reachable progs sched) as ((_ & _ & _ & HS) & _ & _ & _ & HW & _). fold c in HS, HW.
  pose proof (hist_int_le_total progs sched) as Hle. fold c in Hle.
  assert (Hlt : zsum (int_amounts (hist c)) < two64) by (eapply Z.le_lt_trans; [exact Hle|exact Htot]).
  pose proof (hist_ops_incl cM counter_init progs sched amount_ok Hok) as Hnn. fold c in Hnn.
  rewrite Forall_forall in HW.
  destruct (HW w1 Hw1 r1 Hr1) as (t1 & t2 & A1 & A2 & A3 & ->).
  destruct (HW w2 Hw2 r2 Hr2) as (u1 & u2 & B1 & B2 & B3 & ->).
  set (h := hist c) in *.
  destruct (upto_prefix h HS t1 u1 ltac:(lia)) as [rest1 E1].
  destruct (upto_prefix h HS t2 u2 ltac:(lia)) as [rest2 E2].
  pose proof (Forall_upto _ u1 h Hnn) as Hnu. rewrite E1 in Hnu. apply Forall_app in Hnu. destruct Hnu as [Hn1 Hn2].
  apply cas_amounts_nn in Hn1. apply cas_amounts_nn in Hn2.
  rewrite E1, E2, cas_amounts_app, int_amounts_app, zsum_app.
  pose proof (int_amounts_filter (fun k : call cM => c_res k <=? u2) h) as Hf. fold (upto u2 h) in Hf.
  rewrite E2, int_amounts_app, zsum_app in Hf.
  pose proof (int_amounts_nonneg (upto t2 h)) as P1. pose proof (int_amounts_nonneg rest2) as P2.
  set (I1 := zsum (int_amounts (upto t2 h))) in *. set (I2 := zsum (int_amounts rest2)) in *.
  rewrite !Z.mod_small by lia.
  unfold sum_amounts. rewrite fold_left_app.
  destruct (fold_fadd_nn _ Hn1 pzero nn_pzero) as [N1 _].
  set (F1 := fold_left fadd (cas_amounts (upto t1 h)) pzero) in *.
  destruct (fold_fadd_nn _ Hn2 F1 N1) as [_ L2].
  unfold two64 in *.
  apply fadd_mono_nn; [assumption|apply of_Z_nn; lia|assumption|apply of_Z_mono; lia].
Qed.

(* C5 *)
Lemma counter_quiescent_exact_lemma : forall (progs : list (list counter_op)) (sched : list Z),
  let c := run_sched cM (init_config cM counter_init progs) sched in
  all_done cM c = true ->
  Permutation (map (@c_op cM) (hist c)) (concat progs) /\
  Permutation (cas_amounts (hist c)) (flat_map ca (concat progs)) /\
  valInt (sh c) = zsum (map ia (concat progs)) mod two64 /\
  valBits (sh c) = sum_amounts (cas_amounts (hist c)) /\
  fadd (valBits (sh c)) (of_Z (valInt (sh c))) =
    fadd (sum_amounts (cas_amounts (hist c))) (of_Z (zsum (map ia (concat progs)) mod two64)).
Proof.
  intros progs sched c Hd.
  pose proof (all_done_hist cM counter_init progs sched Hd) as HP. fold c in HP.
  destruct (counter_state_invariant_lemma progs sched) as (HI & HB & _). fold c in HI, HB.
  assert (HI' : valInt (sh c) = zsum (map ia (concat progs)) mod two64).
  { pose proof (zsum_perm _ _ (Permutation_map ia HP)) as E. rewrite map_map in E.
    rewrite HI, int_amounts_zsum. f_equal. exact E. }
  repeat split; try assumption.
  - rewrite cas_amounts_ca. apply Permutation_flat_map. assumption.
  - rewrite HI', HB. reflexivity.
Qed.

(* ====================================================================== *)
(* 8. gauge: quiescent value, completeness of the executable checker       *)
(* ====================================================================== *)
Definition ga (o : gauge_op) : list f64 := match gauge_amount o with Some a => [a] | None => [] end.
Definition no_set (o : gauge_op) : Prop := match o with GSet _ => False | _ => True end.

Lemma spec_run_no_set ops : Forall no_set ops -> forall s,
  fst (spec_run gauge_spec_step s ops) = fold_left fadd (flat_map ga ops) s.
Proof.
  induction 1 as [|o r Ho HF IH]; intros s; [reflexivity|]. cbn [spec_run flat_map]. rewrite fold_left_app.
  destruct (gauge_spec_step s o) as [s1 x] eqn:E. specialize (IH s1).
  destruct (spec_run gauge_spec_step s1 r) as [s2 xs]. cbn [fst] in *. rewrite IH. f_equal.
  destruct o; cbn [no_set] in Ho; try contradiction; unfold ga; cbn [gauge_spec_step gauge_amount] in *;
    inversion E; subst; reflexivity.
Qed.

(* G3 (order-dependent form) *)
Lemma gauge_quiescent_completion_order_lemma : forall (progs : list (list gauge_op)) (sched : list Z),
  let c := run_sched gM (init_config gM gauge_init progs) sched in
  all_done gM c = true ->
  Permutation (map (@c_op gM) (hist c)) (concat progs) /\
  sh c = fst (spec_run gauge_spec_step gauge_init (map (@c_op gM) (hist c))) /\
  (Forall no_set (concat progs) -> sh c = fold_left fadd (flat_map ga (map (@c_op gM) (hist c))) pzero).
Proof.
  intros progs sched c Hd.
  pose proof (all_done_hist gM gauge_init progs sched Hd) as HP. fold c in HP.
  destruct (gauge_linearizable_lemma progs sched) as (HR & _). fold c in HR.
  split; [assumption|]. split; [rewrite HR; reflexivity|].
  intros Hns. apply Permutation_sym in HP. pose proof (Permutation_Forall HP Hns) as Hns'.
  change pzero with gauge_init. rewrite <- (spec_run_no_set _ Hns' gauge_init), HR. reflexivity.
Qed.

(* G2: the executable linearizability checker accepts every reachable history
   (the completion order is a witness, found by always picking index 0) *)
Lemma gauge_ret_eqb_refl r : gauge_ret_eqb r r = true.
Proof. destruct r; [reflexivity|apply fbits_eq_refl]. Qed.

Lemma lin_search_sorted : forall (h : list (call gM)) s,
  StronglySorted res_lt h -> Forall (fun k : call gM => c_inv k < c_res k) h ->
  snd (spec_run gauge_spec_step s (map (@c_op gM) h)) = map (@c_ret gM) h ->
  @lin_search gM f64 gauge_spec_step gauge_ret_eqb (length h) s h = true.
Proof.
  induction h as [|k r IH]; intros s HS HL HR; [reflexivity|].
  inversion HS as [|? ? HS' HF]; subst. inversion HL as [|? ? Hk HL']; subst.
  cbn [length lin_search]. cbn [seq existsb nth_error]. apply orb_true_iff. left.
  cbn [map spec_run] in HR. destruct (gauge_spec_step s (c_op k)) as [s1 x] eqn:E.
  destruct (spec_run gauge_spec_step s1 (map (@c_op gM) r)) as [s2 xs] eqn:E2. cbn [snd] in HR.
  inversion HR; subst x. apply andb_true_iff. split.
  - unfold minimal. cbn [forallb]. apply andb_true_iff. split.
    + apply orb_true_iff. left. apply negb_true_iff. lia.
    + apply forallb_forall. intros d Hd. rewrite Forall_forall in HF. specialize (HF d Hd). unfold res_lt in HF.
      apply orb_true_iff. left. apply negb_true_iff. lia.
  - rewrite gauge_ret_eqb_refl. cbn [andb remove_nth]. apply IH; try assumption. rewrite E2. cbn [snd]. assumption.
Qed.

Lemma gauge_lin_check_complete_lemma : forall (progs : list (list gauge_op)) (sched : list Z),
  let c := run_sched gM (init_config gM gauge_init progs) sched in
  @lin_check gM f64 gauge_spec_step gauge_ret_eqb gauge_init (hist c) = true.
Proof.
  intros progs sched c. destruct (GInv_reachable progs sched) as (_ & _ & HR & HS & HL). fold c in HR, HS, HL.
  unfold lin_check. apply lin_search_sorted; try assumption. unfold g_replay in HR. rewrite HR. reflexivity.
Qed.

(* ====================================================================== *)
(* 9. observables used by the examples in Properties/C01.v                 *)
(* ====================================================================== *)
(* (bits of the shared value, time, [(tid, inv, res, result bits or -1 for no value)]) *)
Definition gauge_summary (c : config gM) : Z * Z * list (Z * Z * Z * Z) :=
  (to_bits (sh c), now c,
   map (fun k : call gM => (c_tid k, c_inv k, c_res k,
                            match c_ret k return Z with GUnit => -1 | GValue v => to_bits v end)) (hist c)).
(* (bits of valBits, valInt, time, [(tid, inv, res, result bits / -1 unit / -2 panic)]) *)
Definition counter_summary (c : config cM) : Z * Z * Z * list (Z * Z * Z * Z) :=
  (to_bits (valBits (sh c)), valInt (sh c), now c,
   map (fun k : call cM => (c_tid k, c_inv k, c_res k,
                            match c_ret k return Z with CUnit => -1 | CPanic => -2 | CValue v => to_bits v end)) (hist c)).

(* ====================================================================== *)
(* 10. exact addition on a common grid: the float sum is order-independent *)
(* ====================================================================== *)

(* the integer value * 2^1100 of an amount accepted by `scaled` *)
Definition sc (x : f64) : Z := match scaled x with Some (a, _) => a | None => 0 end.

(* the accumulator holds the exact real sum T (or +Inf once T reaches 2^1024) *)
Definition acc_ok (T : R) (s : f64) : Prop :=
  (s = pinf /\ (bpow radix2 1024 <= T)%R) \/
  (is_fin s = true /\ Bsign s = false /\ B2R s = T /\ (T < bpow radix2 1024)%R).

Lemma acc_ok_unique T s s' : acc_ok T s -> acc_ok T s' -> s = s'.
Proof.
  intros [[-> H1]|(F1 & S1 & R1 & H1)] [[-> H2]|(F2 & S2 & R2 & H2)]; try reflexivity; try (exfalso; lra).
  apply B2R_Bsign_inj; try assumption; congruence.
Qed.

Lemma fadd_fin_sign a x : is_fin a = true -> is_fin x = true ->
  (Rabs (rnd (B2R a + B2R x)) < bpow radix2 1024)%R ->
  Bsign (fadd a x) = match Rcompare (B2R a + B2R x) 0 with
                     | Eq => andb (Bsign a) (Bsign x) | Lt => true | Gt => false end.
Proof.
  intros Fa Fx Hlt. pose proof (Bplus_correct 53 1024 Hprec_gt0_64 Hprec_emax64 mode_NE a x Fa Fx) as H.
  rewrite (Rlt_bool_true _ _ Hlt) in H. destruct H as (_ & _ & H). exact H.
Qed.

Lemma grid_format n k : 0 <= n < 2 ^ 53 -> -1074 <= k ->
  generic_format radix2 (SpecFloat.fexp 53 1024) (IZR n * bpow radix2 k).
Proof.
  intros Hn Hk. change (SpecFloat.fexp 53 1024) with (FLT_exp (-1074) 53).
  apply generic_format_FLT. apply (FLT_spec radix2 (-1074) 53 _ (Float radix2 n k)).
  - reflexivity.
  - cbn [Fnum]. change (Zpower radix2 53) with (2 ^ 53). lia.
  - cbn [Fexp]. lia.
Qed.

Lemma rnd_bpow_ge T : (bpow radix2 1024 <= T)%R -> (bpow radix2 1024 <= rnd T)%R.
Proof.
  intros H. apply (@round_ge_generic radix2 (SpecFloat.fexp 53 1024) Hve64 (round_mode mode_NE) (valid_rnd_round_mode mode_NE));
    [|assumption]. apply generic_format_bpow. cbv. discriminate.
Qed.

(* one accumulation step *)
Lemma acc_step T s x : acc_ok T s -> (0 <= T)%R -> is_fin x = true -> (0 <= B2R x)%R ->
  ((T + B2R x < bpow radix2 1024)%R -> generic_format radix2 (SpecFloat.fexp 53 1024) (T + B2R x)) ->
  acc_ok (T + B2R x) (fadd s x).
Proof.
  intros [[-> H1]|(F1 & S1 & R1 & H1)] HT Fx Hx Hg.
  - left. split; [destruct x; try discriminate Fx; reflexivity|lra].
  - subst T. assert (H0 : (0 <= rnd (B2R s + B2R x))%R) by (apply rnd_ge_0; lra).
    destruct (Rlt_or_le (B2R s + B2R x) (bpow radix2 1024)) as [Hlt|Hge].
    + specialize (Hg Hlt).
      assert (Er : rnd (B2R s + B2R x) = (B2R s + B2R x)%R)
        by (apply round_generic; [apply valid_rnd_round_mode|assumption]).
      assert (Hab : (Rabs (rnd (B2R s + B2R x)) < bpow radix2 1024)%R) by (rewrite Rabs_pos_eq by assumption; lra).
      right. destruct (fadd_fin_cases s x F1 Fx) as [(A1 & A2 & A3)|(_ & _ & A3)]; [|exfalso; lra].
      repeat split; try assumption; [|congruence].
      rewrite (fadd_fin_sign s x F1 Fx Hab), S1. destruct (Rcompare_spec (B2R s + B2R x) 0); try reflexivity. exfalso; lra.
    + pose proof (rnd_bpow_ge _ Hge) as Hr. left. split; [|assumption].
      destruct (fadd_fin_cases s x F1 Fx) as [(_ & _ & A3)|(A1 & _ & _)].
      * exfalso. rewrite Rabs_pos_eq in A3 by assumption. lra.
      * rewrite A1, S1. reflexivity.
Qed.

(* what `scaled` guarantees about one amount *)
Lemma ctz_pos_spec m : 0 <= ctz_pos m /\ (2 ^ ctz_pos m | Z.pos m).
Proof.
  induction m as [q IH|q [IH1 IH2]|]; cbn [ctz_pos].
  - split; [lia|]. exists (Z.pos q~1). rewrite Z.pow_0_r. lia.
  - split; [lia|]. destruct IH2 as [z Hz]. exists z. rewrite Z.pow_add_r, Z.pow_1_r by lia.
    change (Z.pos q~0) with (2 * Z.pos q). rewrite Hz. ring.
  - split; [lia|]. exists 1. reflexivity.
Qed.

Lemma pow2_divide a b : 0 <= a <= b -> (2 ^ a | 2 ^ b).
Proof. intros H. exists (2 ^ (b - a)). rewrite <- Z.pow_add_r by lia. f_equal. lia. Qed.

Lemma IZR_pow2 n j : 0 <= j -> IZR (n * 2 ^ j) = (IZR n * bpow radix2 j)%R.
Proof. intros Hj. rewrite mult_IZR. f_equal. rewrite <- (IZR_Zpower radix2 j Hj). reflexivity. Qed.

Lemma scaled_spec x a b : scaled x = Some (a, b) ->
  is_fin x = true /\ sc x = a /\ 0 <= a /\ -1074 <= b /\ (2 ^ (b + 1100) | a) /\
  B2R x = (IZR a * bpow radix2 (-1100))%R.
Proof.
  unfold sc. destruct x as [s| | |s m e Hb]; unfold scaled; try discriminate.
  - intros H; inversion H; subst. repeat split; try lia; [exists 0; reflexivity|cbn; lra].
  - destruct s; [discriminate|]. intros H.
    assert (Ha : Z.pos m * 2 ^ (e + 1100) = a) by congruence. assert (Hb' : e + ctz_pos m = b) by congruence.
    clear H. subst a b.
    destruct (bounded_facts _ _ Hb) as (_ & He & _). destruct (ctz_pos_spec m) as [Hc [z Hz]].
    repeat split; try lia.
    + rewrite Hz. exists z. rewrite <- Z.mul_assoc, <- Z.pow_add_r by lia. do 2 f_equal. lia.
    + rewrite IZR_pow2 by lia. cbn [B2R cond_Zopp]. unfold F2R. cbn [Fnum Fexp].
      rewrite Rmult_assoc, <- bpow_plus. do 2 f_equal. lia.
Qed.

Lemma mapM_opt_spec {A B} (f : A -> option B) l ys : mapM_opt f l = Some ys -> Forall2 (fun x y => f x = Some y) l ys.
Proof.
  revert ys. induction l as [|x r IH]; intros ys H; cbn [mapM_opt] in H.
  - inversion H; constructor.
  - destruct (f x) as [y|] eqn:E; [|discriminate]. destruct (mapM_opt f r) as [ys'|]; [|discriminate].
    inversion H; subst. constructor; [assumption|apply IH; reflexivity].
Qed.

Lemma Forall2_mono {A B} (P Q : A -> B -> Prop) l l' :
  (forall x y, P x y -> Q x y) -> Forall2 P l l' -> Forall2 Q l l'.
Proof. intros H. induction 1; constructor; auto. Qed.

Lemma fold_min_le (ps : list (Z * Z)) : forall k0,
  fold_left (fun a p => Z.min a (snd p)) ps k0 <= k0 /\
  Forall (fun p => fold_left (fun a p => Z.min a (snd p)) ps k0 <= snd p) ps.
Proof.
  induction ps as [|p r IH]; intros k0; cbn [fold_left]; [split; [lia|constructor]|].
  destruct (IH (Z.min k0 (snd p))) as [H1 H2]. split; [lia|]. constructor; [lia|assumption].
Qed.
Lemma fold_min_ge (ps : list (Z * Z)) lo : Forall (fun p => lo <= snd p) ps -> forall k0, lo <= k0 ->
  lo <= fold_left (fun a p => Z.min a (snd p)) ps k0.
Proof. induction 1 as [|p r Hp HF IH]; intros k0 Hk; cbn [fold_left]; [assumption|]. apply IH. lia. Qed.
Lemma fold_sum_fst (ps : list (Z * Z)) : forall a0, fold_left (fun a p => a + fst p) ps a0 = a0 + zsum (map fst ps).
Proof. unfold zsum. induction ps as [|p r IH]; intros a0; cbn [fold_left map fold_right]; [lia|]. rewrite IH. lia. Qed.

(* the arithmetic content of grid_ok, in a permutation-invariant form *)
Definition grid_facts (k : Z) (l : list f64) : Prop :=
  -1074 <= k /\ zsum (map sc l) < 2 ^ (k + 53 + 1100) /\
  Forall (fun x => is_fin x = true /\ 0 <= sc x /\ (2 ^ (k + 1100) | sc x) /\
                   B2R x = (IZR (sc x) * bpow radix2 (-1100))%R) l.

Lemma grid_ok_facts l : grid_ok l = true -> exists k, grid_facts k l.
Proof.
  unfold grid_ok. destruct (mapM_opt scaled l) as [ps|] eqn:E; [|discriminate]. intros Hlt.
  apply mapM_opt_spec in E. set (k := fold_left (fun a p => Z.min a (snd p)) ps 2000) in *.
  rewrite fold_sum_fst, Z.add_0_l in Hlt. exists k.
  destruct (fold_min_le ps 2000) as [Hk1 Hk2]. fold k in Hk1, Hk2.
  assert (Hall : Forall2 (fun x (p : Z * Z) => is_fin x = true /\ sc x = fst p /\ 0 <= fst p /\ -1074 <= snd p /\
             (2 ^ (snd p + 1100) | fst p) /\ B2R x = (IZR (fst p) * bpow radix2 (-1100))%R) l ps).
  { eapply Forall2_mono; [|exact E]. intros x [a b] H. apply scaled_spec. exact H. }
  assert (Hk0 : -1074 <= k).
  { apply fold_min_ge; [|lia]. clear -Hall. induction Hall as [|x p l ps H HF IH]; constructor; [tauto|assumption]. }
  clearbody k.
  assert (Hsum : zsum (map sc l) = zsum (map fst ps)).
  { clear -Hall. unfold zsum. induction Hall as [|x p l ps H HF IH]; cbn [map fold_right]; [reflexivity|]. rewrite IH. lia. }
  repeat split; [assumption|rewrite Hsum; lia|].
  clear -Hall Hk2 Hk0. induction Hall as [|x p l ps H HF IH]; [constructor|]. inversion Hk2; subst.
  constructor; [|apply IH; assumption].
  destruct H as (G1 & G2 & G3 & G4 & G5 & G6). rewrite G2. repeat split; try assumption.
  eapply Z.divide_trans; [apply (pow2_divide (k + 1100) (snd p + 1100)); lia|assumption].
Qed.

Lemma grid_facts_perm k l l' : Permutation l l' -> grid_facts k l -> grid_facts k l'.
Proof.
  intros HP (H1 & H2 & H3). repeat split; [assumption| |eapply Permutation_Forall; eassumption].
  rewrite <- (zsum_perm _ _ (Permutation_map sc HP)). assumption.
Qed.

(* the fold is exact: it holds the real sum of all amounts (or +Inf from 2^1024 on) *)
Lemma fold_grid k l : forall A s, -1074 <= k -> 0 <= A -> (2 ^ (k + 1100) | A) ->
  A + zsum (map sc l) < 2 ^ (k + 53 + 1100) ->
  Forall (fun x => is_fin x = true /\ 0 <= sc x /\ (2 ^ (k + 1100) | sc x) /\
                   B2R x = (IZR (sc x) * bpow radix2 (-1100))%R) l ->
  acc_ok (IZR A * bpow radix2 (-1100)) s ->
  acc_ok (IZR (A + zsum (map sc l)) * bpow radix2 (-1100)) (fold_left fadd l s).
Proof.
  induction l as [|x r IH]; intros A s Hk HA HD Hlt HF Hs; cbn [map fold_left].
  - unfold zsum. cbn [fold_right]. rewrite Z.add_0_r. assumption.
  - inversion HF as [|? ? (Fx & Sx & Dx & Rx) HF']; subst. cbn [map] in Hlt.
    change (zsum (sc x :: map sc r)) with (sc x + zsum (map sc r)) in *.
    pose proof (zsum_map_nonneg sc r) as Hnn.
    assert (Hr0 : 0 <= zsum (map sc r)).
    { clear -HF'. unfold zsum. induction HF' as [|y t (_ & Hy & _) _ IHt]; cbn [map fold_right]; lia. }
    rewrite Z.add_assoc. apply IH; try assumption; try lia.
    + apply Z.divide_add_r; assumption.
    + rewrite plus_IZR, Rmult_plus_distr_r, <- Rx.
      pose proof (bpow_gt_0 radix2 (-1100)) as Hb.
      apply acc_step; try assumption.
      * apply Rmult_le_pos; [apply IZR_le; lia|lra].
      * rewrite Rx. apply Rmult_le_pos; [apply IZR_le; lia|lra].
      * intros _. rewrite Rx, <- Rmult_plus_distr_r, <- plus_IZR.
        destruct (Z.divide_add_r _ _ _ HD Dx) as [n Hn]. rewrite Hn.
        assert (Hp : 0 < 2 ^ (k + 1100)) by (apply Z.pow_pos_nonneg; lia).
        rewrite IZR_pow2 by lia. rewrite Rmult_assoc, <- bpow_plus. replace (k + 1100 + -1100) with k by lia.
        apply grid_format; [|assumption]. split; [nia|].
        assert (Hlt2 : n * 2 ^ (k + 1100) < 2 ^ 53 * 2 ^ (k + 1100)).
        { rewrite <- Z.pow_add_r by lia. replace (53 + (k + 1100)) with (k + 53 + 1100) by lia. lia. }
        nia.
Qed.

Lemma acc_ok_pzero : acc_ok (IZR 0 * bpow radix2 (-1100)) pzero.
Proof. right. rewrite Rmult_0_l. repeat split; try reflexivity. apply bpow_gt_0. Qed.

(* main lemma: on a grid, the float sum does not depend on the order *)
Lemma fold_grid_perm l l' : grid_ok l = true -> Permutation l l' ->
  fold_left fadd l' pzero = fold_left fadd l pzero.
Proof.
  intros Hg HP. destruct (grid_ok_facts l Hg) as [k Hk]. pose proof (grid_facts_perm k l l' HP Hk) as Hk'.
  destruct Hk as (K1 & K2 & K3). destruct Hk' as (_ & K2' & K3').
  assert (Hd : (2 ^ (k + 1100) | 0)) by (exists 0; reflexivity).
  pose proof (fold_grid k l 0 pzero K1 ltac:(lia) Hd ltac:(lia) K3 acc_ok_pzero) as H1.
  pose proof (fold_grid k l' 0 pzero K1 ltac:(lia) Hd ltac:(lia) K3' acc_ok_pzero) as H2.
  rewrite <- (zsum_perm _ _ (Permutation_map sc HP)) in H2.
  eapply acc_ok_unique; eassumption.
Qed.

(* exactness: the real value of the sum is the real sum of the amounts (scaled by 2^1100), no rounding *)
Lemma fold_grid_exact l : grid_ok l = true ->
  let r := fold_left fadd l pzero in
  (r = pinf /\ (bpow radix2 1024 <= IZR (zsum (map sc l)) * bpow radix2 (-1100))%R) \/
  (is_fin r = true /\ B2R r = (IZR (zsum (map sc l)) * bpow radix2 (-1100))%R).
Proof.
  intros Hg r. destruct (grid_ok_facts l Hg) as [k (K1 & K2 & K3)].
  assert (Hd : (2 ^ (k + 1100) | 0)) by (exists 0; reflexivity).
  pose proof (fold_grid k l 0 pzero K1 ltac:(lia) Hd ltac:(lia) K3 acc_ok_pzero) as H1.
  rewrite Z.add_0_l in H1. fold r in H1. destruct H1 as [[H1 H2]|(H1 & _ & H2 & _)]; [left|right]; split; assumption.
Qed.

(* real sum of the amounts *)
Definition rsum (l : list f64) : R := fold_right Rplus 0%R (map (@B2R 53 1024) l).

Lemma grid_rsum k l : grid_facts k l -> rsum l = (IZR (zsum (map sc l)) * bpow radix2 (-1100))%R.
Proof.
  intros (_ & _ & HF). unfold rsum, zsum. induction HF as [|x r (_ & _ & _ & Hx) _ IH]; cbn [map fold_right].
  - rewrite Rmult_0_l. reflexivity.
  - rewrite IH, Hx, plus_IZR. ring.
Qed.

Lemma grid_sum_exact_lemma : forall l : list f64, grid_ok l = true ->
  let r := fold_left fadd l pzero in
  (r = pinf /\ (bpow radix2 1024 <= rsum l)%R) \/ (is_fin r = true /\ B2R r = rsum l).
Proof.
  intros l Hg r. destruct (grid_ok_facts l Hg) as [k Hk]. rewrite (grid_rsum k l Hk). apply fold_grid_exact. assumption.
Qed.

Lemma grid_sum_order_independent_lemma : forall l l' : list f64, grid_ok l = true -> Permutation l l' ->
  fold_left fadd l' pzero = fold_left fadd l pzero.
Proof. exact fold_grid_perm. Qed.

(* G3 *)
Lemma gauge_quiescent_exact_lemma : forall (progs : list (list gauge_op)) (sched : list Z),
  let c := run_sched gM (init_config gM gauge_init progs) sched in
  all_done gM c = true -> Forall no_set (concat progs) -> grid_ok (flat_map ga (concat progs)) = true ->
  sh c = fold_left fadd (flat_map ga (concat progs)) pzero.
Proof.
  intros progs sched c Hd Hns Hg.
  destruct (gauge_quiescent_completion_order_lemma progs sched Hd) as (HP & _ & H). fold c in HP, H.
  rewrite (H Hns). apply fold_grid_perm; [assumption|]. apply Permutation_flat_map. apply Permutation_sym. exact HP.
Qed.

(* C5, schedule-independent form *)
Lemma counter_quiescent_grid_lemma : forall (progs : list (list counter_op)) (sched : list Z),
  let c := run_sched cM (init_config cM counter_init progs) sched in
  all_done cM c = true -> grid_ok (flat_map ca (concat progs)) = true ->
  valBits (sh c) = sum_amounts (flat_map ca (concat progs)) /\
  valInt (sh c) = zsum (map ia (concat progs)) mod two64 /\
  fadd (valBits (sh c)) (of_Z (valInt (sh c))) =
    fadd (sum_amounts (flat_map ca (concat progs))) (of_Z (zsum (map ia (concat progs)) mod two64)).
Proof.
  intros progs sched c Hd Hg.
  destruct (counter_quiescent_exact_lemma progs sched Hd) as (_ & HP & HI & HB & _). fold c in HP, HI, HB.
  assert (HB' : valBits (sh c) = sum_amounts (flat_map ca (concat progs))).
  { rewrite HB. unfold sum_amounts. apply fold_grid_perm; [assumption|]. apply Permutation_sym. exact HP. }
  rewrite HB', HI. repeat split.
Qed.

(* the exposed value is the exact real total rounded once (exact when the total is representable) *)
Lemma counter_value_rounded_lemma : forall (amounts : list f64) (i : Z),
  grid_ok amounts = true -> 0 <= i < 2 ^ 53 ->
  let v := fadd (sum_amounts amounts) (of_Z i) in
  is_fin v = true ->
  B2R v = round radix2 (SpecFloat.fexp 53 1024) (round_mode mode_NE) (rsum amounts + IZR i).
Proof.
  intros l i Hg Hi v Fv.
  destruct (of_Z_spec i ltac:(change (2 ^ 64) with 18446744073709551616; change (2 ^ 53) with 9007199254740992 in Hi; lia)) as [Fi Ri].
  assert (Ei : B2R (of_Z i) = IZR i).
  { rewrite Ri. apply round_generic; [apply valid_rnd_round_mode|].
    rewrite <- (Rmult_1_r (IZR i)). change 1%R with (bpow radix2 0). apply grid_format; lia. }
  destruct (grid_sum_exact_lemma l Hg) as [[H1 _]|[H1 H2]]; fold (sum_amounts l) in H1.
  - exfalso. unfold v in Fv. rewrite H1 in Fv. destruct (of_Z i); try discriminate Fi; discriminate Fv.
  - fold (sum_amounts l) in H2.
    destruct (fadd_fin_cases _ _ H1 Fi) as [(_ & A2 & _)|(A1 & _ & _)].
    + unfold v. rewrite A2, H2, Ei. reflexivity.
    + exfalso. unfold v in Fv. rewrite A1 in Fv. discriminate Fv.
Qed.
