(* Proofs/C01_proofs.v -- C01: Counter and Gauge updates are atomic.
   Invariants of the interleaving semantics (Base/Conc.v) for the step machines of
   Model/CounterGauge.v, for ALL program lists and ALL schedules.
   Layout: 0 list helpers; 1 generic facts about sched_step / advance / init_config and the
   timing invariant GI; 2 to_bits is injective; 3 gauge; 4 counter; 5 float monotonicity;
   6 counter monotone / quiescent; 7 examples. *)
From Coq Require Import ZArith List Bool Lia Reals Lra ZifyBool Sorted Permutation.
From Flocq Require Import Core.Core IEEE754.BinarySingleNaN.
From Verif Require Import Base.F64 Base.Conc Model.CounterGauge Proofs.F64_order.
Import ListNotations.
Open Scope Z_scope.

(* ====================================================================== *)
(* definitions used in the statements of Properties/C01.v                  *)
(* ====================================================================== *)

(* sequential replay of a specification over a list of operations: final state and all results *)
Fixpoint spec_run {St O R : Type} (f : St -> O -> St * R) (s : St) (ops : list O) : St * list R :=
  match ops with
  | [] => (s, [])
  | o :: r => let (s1, x) := f s o in let (s2, xs) := spec_run f s1 r in (s2, x :: xs)
  end.

Definition zsum (l : list Z) : Z := fold_right Z.add 0 l.

Definition res_le {M} (a b : call M) : Prop := c_res a <= c_res b.
Definition res_lt {M} (a b : call M) : Prop := c_res a < c_res b.

(* the calls of a history that returned at or before time t *)
Definition upto {M} (t : Z) (h : list (call M)) : list (call M) := filter (fun k => c_res k <=? t) h.

(* ====================================================================== *)
(* 0. list helpers                                                         *)
(* ====================================================================== *)

Lemma spec_run_app {St O R} (f : St -> O -> St * R) l1 : forall s l2,
  spec_run f s (l1 ++ l2) =
  (let (s1, r1) := spec_run f s l1 in let (s2, r2) := spec_run f s1 l2 in (s2, r1 ++ r2)).
Proof.
  induction l1 as [|o r IH]; intros s l2; cbn [spec_run app].
  - destruct (spec_run f s l2); reflexivity.
  - destruct (f s o) as [s1 x]. rewrite IH. destruct (spec_run f s1 r) as [s2 xs].
    destruct (spec_run f s2 l2); reflexivity.
Qed.

Lemma zsum_app l1 l2 : zsum (l1 ++ l2) = zsum l1 + zsum l2.
Proof. unfold zsum. induction l1 as [|x r IH]; cbn [fold_right app]; lia. Qed.

Lemma Forall_set_nth {A} (P : A -> Prop) (l : list A) : forall n x,
  Forall P l -> P x -> Forall P (set_nth l n x).
Proof.
  induction l as [|y r IH]; intros n x HF Hx; cbn [set_nth].
  - destruct n; constructor.
  - inversion HF; subst. destruct n; constructor; auto.
Qed.

Lemma Forall_nth_error {A} (P : A -> Prop) (l : list A) n x :
  Forall P l -> nth_error l n = Some x -> P x.
Proof. intros HF Hn. rewrite Forall_forall in HF. apply HF. eapply nth_error_In; eauto. Qed.

Lemma Forall_mono {A} (P Q : A -> Prop) (l : list A) :
  (forall x, P x -> Q x) -> Forall P l -> Forall Q l.
Proof. intros H HF. eapply Forall_impl; eauto. Qed.

Lemma ss_snoc {A} (R : A -> A -> Prop) (h : list A) k :
  StronglySorted R h -> Forall (fun a => R a k) h -> StronglySorted R (h ++ [k]).
Proof.
  induction h as [|a r IH]; intros HS HF; cbn [app].
  - constructor; constructor.
  - inversion HS; subst. inversion HF; subst. constructor; [auto|].
    apply Forall_app; split; [assumption|constructor; [assumption|constructor]].
Qed.

Lemma ss_app {A} (R : A -> A -> Prop) (h l : list A) :
  StronglySorted R h -> StronglySorted R l -> Forall (fun a => Forall (R a) l) h ->
  StronglySorted R (h ++ l).
Proof.
  induction h as [|a r IH]; intros HS HL HF; cbn [app]; [assumption|].
  inversion HS; subst. inversion HF; subst. constructor; [auto|].
  apply Forall_app; split; assumption.
Qed.

Lemma ss_nth {A} (R : A -> A -> Prop) (h : list A) : StronglySorted R h ->
  forall i j a b, nth_error h i = Some a -> nth_error h j = Some b -> (i < j)%nat -> R a b.
Proof.
  induction 1 as [|x r HS IH HF]; intros i j a b Hi Hj Hlt.
  - destruct i; discriminate.
  - destruct j as [|j]; [lia|]. destruct i as [|i]; cbn [nth_error] in *.
    + inversion Hi; subst. rewrite Forall_forall in HF. apply HF. eapply nth_error_In; eauto.
    + eapply IH; eauto. lia.
Qed.

(* ====================================================================== *)
(* 1. generic facts about the interleaving semantics                       *)
(* ====================================================================== *)
Section Gen.
Variable M : machine.

Lemma run_sched_ind (P : config M -> Prop) :
  (forall c tid c', P c -> sched_step M c tid = Some c' -> P c') ->
  forall sched c, P c -> P (run_sched M c sched).
Proof.
  intros Hstep sched. induction sched as [|t r IH]; intros c Hc; cbn [run_sched]; [assumption|].
  destruct (sched_step M c t) as [c'|] eqn:E; [apply IH; eapply Hstep; eauto|apply IH; assumption].
Qed.

(* what one schedule entry does *)
Lemma sched_step_cases c tid c' : sched_step M c tid = Some c' ->
  exists t o l inv s' nxt,
    nth_error (thr c) (Z.to_nat tid) = Some t /\ t_cur t = Some (o, l, inv) /\
    step M (sh c) l = Some (s', nxt) /\ sh c' = s' /\ now c' = now c + 1 /\
    match nxt with
    | inl l' => hist c' = hist c /\
                thr c' = set_nth (thr c) (Z.to_nat tid) (mkThread M (t_todo t) (Some (o, l', inv)) (t_idx t))
    | inr r => exists t' cs, advance M tid (t_todo t) (t_idx t + 1) (now c + 1) = (t', cs) /\
                hist c' = hist c ++ mkCall tid (t_idx t) o r inv (now c + 1) :: cs /\
                thr c' = set_nth (thr c) (Z.to_nat tid) t'
    end.
Proof.
  unfold sched_step. intros H.
  destruct (nth_error (thr c) (Z.to_nat tid)) as [t|] eqn:Ht; [|discriminate].
  destruct (t_cur t) as [[[o l] inv]|] eqn:Hc; [|discriminate].
  destruct (step M (sh c) l) as [[s' nxt]|] eqn:Hs; [|discriminate].
  exists t, o, l, inv, s', nxt.
  destruct nxt as [l'|r].
  - injection H as <-. cbn. repeat split; auto.
  - destruct (advance M tid (t_todo t) (t_idx t + 1) (now c + 1)) as [t' cs] eqn:Ha.
    injection H as <-. cbn. repeat split; auto. exists t', cs. repeat split; reflexivity.
Qed.

(* a call that returned without executing a step, at time `time` *)
Definition imm (time : Z) (k : call M) : Prop :=
  c_inv k = time /\ c_res k = time /\ start M (c_op k) = inr (c_ret k).
(* a thread as left by `advance` at time `time` *)
Definition fresh (time : Z) (t : thread M) : Prop :=
  match t_cur t with Some (o, l, inv) => inv = time /\ start M o = inl l | None => True end.

Lemma advance_spec tid todo : forall idx time t cs,
  advance M tid todo idx time = (t, cs) -> fresh time t /\ Forall (imm time) cs.
Proof.
  induction todo as [|o rest IH]; intros idx time t cs H; cbn [advance] in H.
  - inversion H; subst. split; [exact I|constructor].
  - destruct (start M o) as [l|r] eqn:Hs.
    + inversion H; subst. split; [cbn; auto|constructor].
    + destruct (advance M tid rest (idx + 1) time) as [t0 cs0] eqn:Ha.
      inversion H; subst. destruct (IH _ _ _ _ Ha) as [H1 H2]. split; [assumption|].
      constructor; [|assumption]. repeat split; assumption.
Qed.

(* the initial configuration, with the thread ids abstracted *)
Definition init_pairs (progs : list (list (op M))) : list (Z * list (op M)) :=
  combine (map Z.of_nat (seq 0 (length progs))) progs.

Lemma init_pairs_snd progs : map snd (init_pairs progs) = progs.
Proof.
  assert (H : forall (l : list (list (op M))) (ids : list Z), length ids = length l -> map snd (combine ids l) = l).
  { induction l as [|p r IH]; intros [|i ids] Hl; cbn in *; try reflexivity; try discriminate.
    f_equal. apply IH. lia. }
  unfold init_pairs. apply H. rewrite map_length, seq_length. reflexivity.
Qed.

Lemma init_thr s0 progs :
  thr (init_config M s0 progs) = map (fun p => fst (advance M (fst p) (snd p) 0 0)) (init_pairs progs).
Proof. unfold init_config, init_pairs. cbn [thr]. rewrite map_map. reflexivity. Qed.
Lemma init_hist s0 progs :
  hist (init_config M s0 progs) = concat (map (fun p => snd (advance M (fst p) (snd p) 0 0)) (init_pairs progs)).
Proof. unfold init_config, init_pairs. cbn [hist]. rewrite map_map. reflexivity. Qed.

Lemma init_fresh s0 progs :
  Forall (fresh 0) (thr (init_config M s0 progs)) /\ Forall (imm 0) (hist (init_config M s0 progs)).
Proof.
  rewrite init_thr, init_hist. induction (init_pairs progs) as [|p r [IH1 IH2]]; cbn [map concat].
  - split; constructor.
  - destruct (advance M (fst p) (snd p) 0 0) as [t cs] eqn:Ha. destruct (advance_spec _ _ _ _ _ _ Ha) as [H1 H2].
    cbn [fst snd]. split; [constructor; assumption|apply Forall_app; split; assumption].
Qed.

(* ---- timing invariant ---- *)
Definition thr_ok (n : Z) (t : thread M) : Prop :=
  match t_cur t with
  | Some (o, l, inv) => 0 <= inv <= n /\ exists l0, start M o = inl l0
  | None => True
  end.

Definition call_ok (n : Z) (k : call M) : Prop :=
  0 <= c_inv k /\ c_res k <= n /\
  ((c_inv k = c_res k /\ start M (c_op k) = inr (c_ret k)) \/
   (c_inv k < c_res k /\ (exists l0, start M (c_op k) = inl l0) /\
    exists s l s', step M s l = Some (s', inr (c_ret k)))).

Definition GI (c : config M) : Prop :=
  0 <= now c /\ Forall (thr_ok (now c)) (thr c) /\ Forall (call_ok (now c)) (hist c) /\
  StronglySorted res_le (hist c).

Lemma thr_ok_mono n n' t : n <= n' -> thr_ok n t -> thr_ok n' t.
Proof. unfold thr_ok. destruct (t_cur t) as [[[o l] inv]|]; [|auto]. intros Hn [H1 H2]. split; [lia|assumption]. Qed.
Lemma call_ok_mono n n' k : n <= n' -> call_ok n k -> call_ok n' k.
Proof. unfold call_ok. intros Hn (H1 & H2 & H3). repeat split; try assumption; lia. Qed.

Lemma fresh_thr_ok time t : 0 <= time -> fresh time t -> thr_ok time t.
Proof.
  unfold fresh, thr_ok. destruct (t_cur t) as [[[o l] inv]|]; [|auto].
  intros Ht [H1 H2]. subst. split; [lia|eauto].
Qed.
Lemma imm_call_ok time k : 0 <= time -> imm time k -> call_ok time k.
Proof. unfold imm, call_ok. intros Ht (H1 & H2 & H3). repeat split; try lia. left. split; [lia|assumption]. Qed.

Lemma ss_all_eq (n : Z) (l : list (call M)) : Forall (fun k => c_res k = n) l -> StronglySorted res_le l.
Proof.
  induction 1 as [|k r Hk HF IH]; constructor; [assumption|].
  eapply Forall_mono; [|exact HF]. intros x Hx. unfold res_le. cbn beta in *. lia.
Qed.

Lemma ss_app_later (n : Z) (h l : list (call M)) :
  StronglySorted res_le h -> Forall (fun k => c_res k <= n) h -> Forall (fun k => c_res k = n + 1) l ->
  StronglySorted res_le (h ++ l).
Proof.
  intros HS HF HL. apply ss_app; [assumption|eapply ss_all_eq; eassumption|].
  eapply Forall_mono; [|exact HF]. intros a Ha. eapply Forall_mono; [|exact HL].
  intros b Hb. unfold res_le. cbn beta in *. lia.
Qed.

Lemma GI_init s0 progs : GI (init_config M s0 progs).
Proof.
  destruct (init_fresh s0 progs) as [H1 H2].
  assert (Hn : now (init_config M s0 progs) = 0) by reflexivity.
  unfold GI. rewrite Hn. repeat split; try lia.
  - eapply Forall_mono; [|exact H1]. intros t. apply fresh_thr_ok. lia.
  - eapply Forall_mono; [|exact H2]. intros k. apply imm_call_ok. lia.
  - apply (ss_all_eq 0). eapply Forall_mono; [|exact H2]. intros k (_ & H & _). exact H.
Qed.

Lemma GI_step c tid c' : GI c -> sched_step M c tid = Some c' -> GI c'.
Proof.
  intros (Hn & HT & HH & HS) Hstep.
  destruct (sched_step_cases _ _ _ Hstep) as (t & o & l & inv & s' & nxt & Ht & Hcur & Hs & Hsh & Hnow & Hrest).
  pose proof (Forall_nth_error _ _ _ _ HT Ht) as Htok. unfold thr_ok in Htok. rewrite Hcur in Htok.
  destruct Htok as [Hinv Hst].
  assert (HT' : Forall (thr_ok (now c')) (thr c))
    by (eapply Forall_mono; [|exact HT]; intros x; apply thr_ok_mono; lia).
  assert (HH' : Forall (call_ok (now c')) (hist c))
    by (eapply Forall_mono; [|exact HH]; intros x; apply call_ok_mono; lia).
  destruct nxt as [l'|r].
  - destruct Hrest as [Hh Hth]. unfold GI. rewrite Hh, Hth. repeat split; try lia; try assumption.
    apply Forall_set_nth; [assumption|]. unfold thr_ok. cbn [t_cur]. split; [lia|assumption].
  - destruct Hrest as (t' & cs & Ha & Hh & Hth). destruct (advance_spec _ _ _ _ _ _ Ha) as [Hf Hcs].
    unfold GI. rewrite Hh, Hth. repeat split; try lia.
    + apply Forall_set_nth; [assumption|]. rewrite Hnow. apply fresh_thr_ok; [lia|assumption].
    + apply Forall_app; split; [assumption|]. constructor.
      * unfold call_ok. cbn [c_inv c_res c_op c_ret]. repeat split; try lia. right. repeat split; try lia; eauto.
      * rewrite Hnow. eapply Forall_mono; [|exact Hcs]. intros k. apply imm_call_ok. lia.
    + apply (ss_app_later (now c)); [assumption| |].
      * eapply Forall_mono; [|exact HH]. intros k (_ & H & _). exact H.
      * constructor; [reflexivity|]. eapply Forall_mono; [|exact Hcs]. intros k (_ & H & _). exact H.
Qed.

Lemma GI_reachable s0 progs sched : GI (run_sched M (init_config M s0 progs) sched).
Proof. apply run_sched_ind; [intros; eapply GI_step; eauto|apply GI_init]. Qed.

(* filtering by response time is stable when later calls are appended *)
Lemma upto_all (n : Z) (h : list (call M)) : Forall (fun k => c_res k <= n) h -> upto n h = h.
Proof.
  unfold upto. induction 1 as [|k r Hk HF IH]; cbn [filter]; [reflexivity|].
  destruct (c_res k <=? n) eqn:E; [rewrite IH; reflexivity|lia].
Qed.
Lemma upto_none (t n : Z) (l : list (call M)) : t <= n -> Forall (fun k => c_res k = n + 1) l -> upto t l = [].
Proof.
  unfold upto. intros Ht. induction 1 as [|k r Hk HF IH]; cbn [filter]; [reflexivity|].
  destruct (c_res k <=? t) eqn:E; [lia|assumption].
Qed.
Lemma upto_app (t : Z) (h l : list (call M)) : upto t (h ++ l) = upto t h ++ upto t l.
Proof. unfold upto. apply filter_app. Qed.
Lemma upto_app_later (t n : Z) (h l : list (call M)) :
  t <= n -> Forall (fun k => c_res k = n + 1) l -> upto t (h ++ l) = upto t h.
Proof. intros Ht HL. rewrite upto_app, (upto_none t n l Ht HL), app_nil_r. reflexivity. Qed.

End Gen.

Arguments imm {M}. Arguments fresh {M}. Arguments thr_ok {M}. Arguments call_ok {M}. Arguments GI {M}.

(* ====================================================================== *)
(* 2. to_bits is injective (so a successful CAS saw exactly the loaded value) *)
(* ====================================================================== *)

Lemma bounded_facts m e : SpecFloat.bounded 53 1024 m e = true ->
  Z.pos m < 2 ^ 53 /\ -1074 <= e <= 971 /\ (Z.pos m < 2 ^ 52 -> e = -1074).
Proof.
  intros H. unfold SpecFloat.bounded in H. apply andb_prop in H. destruct H as [H1 H2].
  unfold SpecFloat.canonical_mantissa in H1. apply Zeq_bool_eq in H1. apply Zle_bool_imp_le in H2.
  unfold SpecFloat.fexp, SpecFloat.emin in H1. rewrite Digits.Zpos_digits2_pos in H1.
  pose proof (Digits.Zdigits_correct radix2 (Z.pos m)) as D.
  pose proof (Digits.Zdigits_gt_0 radix2 (Z.pos m) ltac:(discriminate)) as D0.
  set (d := Digits.Zdigits radix2 (Z.pos m)) in *.
  change (Zpower radix2 (d - 1)) with (2 ^ (d - 1)) in D. change (Zpower radix2 d) with (2 ^ d) in D.
  rewrite Z.abs_eq in D by lia.
  assert (Hd : d <= 53) by lia.
  assert (He : d = 53 \/ e = -1074) by lia.
  pose proof (Z.pow_le_mono_r 2 d 53 ltac:(lia) Hd) as P1.
  repeat split; try lia.
  intros Hm. destruct He as [He|He]; [|assumption]. subst d. rewrite He in D.
  change (2 ^ (53 - 1)) with (2 ^ 52) in D. lia.
Qed.

Lemma to_bits_inj (x y : f64) : to_bits x = to_bits y -> x = y.
Proof.
  intros E. apply B2SF_inj.
  destruct x as [sx|sx| |sx mx ex Hx]; destruct y as [sy|sy| |sy my ey Hy]; unfold to_bits in E; cbn [B2SF];
    try (pose proof (bounded_facts _ _ Hx) as (Bx1 & Bx2 & Bx3));
    try (pose proof (bounded_facts _ _ Hy) as (By1 & By2 & By3));
    change (2 ^ 53) with 9007199254740992 in *; change (2 ^ 52) with 4503599627370496 in *;
    repeat match type of E with context [Z.leb ?a ?b] => destruct (Z.leb_spec a b) end;
    unfold go_nan_bits in E;
    try reflexivity;
    try (destruct sx; destruct sy; first [reflexivity | exfalso; lia]);
    try (destruct sx; first [reflexivity | exfalso; lia]);
    try (destruct sy; first [reflexivity | exfalso; lia]).
  all: assert (Hs : sx = sy) by (destruct sx; destruct sy; first [reflexivity | exfalso; lia]); subst sy.
  all: assert (He : ex = ey) by (destruct sx; lia); subst ey.
  all: assert (Hm : mx = my) by (destruct sx; lia); subst my; reflexivity.
Qed.

Lemma fbits_eq_true x y : fbits_eq x y = true -> x = y.
Proof. unfold fbits_eq. intros H. apply to_bits_inj. lia. Qed.
Lemma fbits_eq_refl x : fbits_eq x x = true.
Proof. unfold fbits_eq. apply Z.eqb_refl. Qed.

(* ====================================================================== *)
(* 3. gauge                                                                *)
(* ====================================================================== *)
Notation gM := gauge_machine.

Definition g_local_ok (o : gauge_op) (l : gauge_pc) : Prop :=
  match l with
  | gStore v => o = GSet v
  | gLoad v => gauge_amount o = Some v
  | gCas _ v => gauge_amount o = Some v
  | gRead => o = GWrite
  end.
Definition g_thr_ok (t : thread gM) : Prop :=
  match t_cur t with Some (o, l, _) => g_local_ok o l | None => True end.

Lemma g_start_ok o l : gauge_start o = inl l -> g_local_ok o l.
Proof. destruct o; cbn [gauge_start]; intros H; inversion H; subst; reflexivity. Qed.

Lemma g_fresh_ok time (t : thread gM) : fresh time t -> g_thr_ok t.
Proof.
  unfold fresh, g_thr_ok. destruct (t_cur t) as [[[o l] inv]|]; [|auto]. intros [_ H]. apply g_start_ok. exact H.
Qed.
Lemma g_imm_nil time (cs : list (call gM)) : Forall (imm time) cs -> cs = [].
Proof.
  destruct cs as [|k r]; [reflexivity|]. intros H. inversion H as [|? ? (_ & _ & Hk) _]; subst.
  exfalso. cbn in Hk. destruct (c_op k); discriminate.
Qed.

Definition g_replay (c : config gM) : Prop :=
  spec_run gauge_spec_step gauge_init (map (@c_op gM) (hist c)) = (sh c, map (@c_ret gM) (hist c)).

Definition GInv (c : config gM) : Prop :=
  GI c /\ Forall g_thr_ok (thr c) /\ g_replay c /\
  StronglySorted res_lt (hist c) /\ Forall (fun k => c_inv k < c_res k) (hist c).

Lemma GInv_init progs : GInv (init_config gM gauge_init progs).
Proof.
  destruct (init_fresh gM gauge_init progs) as [H1 H2].
  pose proof (g_imm_nil _ _ H2) as Hnil.
  unfold GInv, g_replay. split; [apply GI_init|]. rewrite Hnil. repeat split.
  - eapply Forall_mono; [|exact H1]. intros t. apply g_fresh_ok.
  - constructor.
  - constructor.
Qed.

Lemma g_spec_amount s o v : gauge_amount o = Some v -> gauge_spec_step s o = (fadd s v, GUnit).
Proof. destruct o; cbn [gauge_amount gauge_spec_step]; intros H; inversion H; subst; reflexivity. Qed.

Lemma GInv_step c tid c' : GInv c -> sched_step gM c tid = Some c' -> GInv c'.
Proof.
  intros (HG & HT & HR & HS & HL) Hstep.
  pose proof (GI_step _ _ _ _ HG Hstep) as HG'.
  destruct (sched_step_cases _ _ _ _ Hstep) as (t & o & l & inv & s' & nxt & Ht & Hcur & Hs & Hsh & Hnow & Hrest).
  pose proof (Forall_nth_error _ _ _ _ HT Ht) as Hlo. unfold g_thr_ok in Hlo. rewrite Hcur in Hlo.
  destruct HG as (Hn & HGT & HGH & _).
  pose proof (Forall_nth_error _ _ _ _ HGT Ht) as Htk. unfold thr_ok in Htk. rewrite Hcur in Htk. destruct Htk as [Hinv _].
  change (step gM (sh c) l) with (gauge_step (sh c) l) in Hs.
  unfold GInv. split; [exact HG'|]. unfold g_replay in *.
  destruct nxt as [l'|r].
  - destruct Hrest as [Hh Hth]. rewrite Hh, Hth.
    assert (Hl' : s' = sh c /\ g_local_ok o l').
    { destruct l as [v|v|old v|]; cbn [gauge_step] in Hs.
      - discriminate.
      - inversion Hs; subst. split; [reflexivity|exact Hlo].
      - destruct (fbits_eq (sh c) old); inversion Hs; subst. split; [reflexivity|exact Hlo].
      - discriminate. }
    destruct Hl' as [Hs' Hl']. rewrite Hsh, Hs'. repeat split; try assumption.
    apply Forall_set_nth; [assumption|]. unfold g_thr_ok. cbn [t_cur]. exact Hl'.
  - destruct Hrest as (t' & cs & Ha & Hh & Hth). destruct (advance_spec _ _ _ _ _ _ _ Ha) as [Hf Hcs].
    pose proof (g_imm_nil _ _ Hcs) as Hnil. subst cs. rewrite Hh, Hth.
    assert (Hspec : gauge_spec_step (sh c) o = (s', r)).
    { destruct l as [v|v|old v|]; cbn [gauge_step] in Hs; cbn [g_local_ok] in Hlo.
      - inversion Hs; subst. reflexivity.
      - discriminate.
      - destruct (fbits_eq (sh c) old) eqn:Eb; inversion Hs; subst.
        apply fbits_eq_true in Eb. rewrite <- Eb. apply g_spec_amount. exact Hlo.
      - inversion Hs; subst. reflexivity. }
    repeat split.
    + apply Forall_set_nth; [assumption|]. eapply g_fresh_ok; eassumption.
    + rewrite !map_app, spec_run_app, HR. cbn [map spec_run c_op c_ret]. rewrite Hspec, Hsh. reflexivity.
    + apply ss_snoc; [assumption|]. eapply Forall_mono; [|exact HGH].
      intros k (_ & Hk & _). unfold res_lt. cbn [c_res]. lia.
    + apply Forall_app; split; [assumption|]. constructor; [|constructor]. cbn [c_inv c_res]. lia.
Qed.

Lemma GInv_reachable progs sched : GInv (run_sched gM (init_config gM gauge_init progs) sched).
Proof. apply run_sched_ind; [intros; eapply GInv_step; eauto|apply GInv_init]. Qed.

(* G1 *)
Lemma gauge_linearizable_lemma : forall (progs : list (list gauge_op)) (sched : list Z),
  let c := run_sched gM (init_config gM gauge_init progs) sched in
  spec_run gauge_spec_step gauge_init (map (@c_op gM) (hist c)) = (sh c, map (@c_ret gM) (hist c)) /\
  StronglySorted res_lt (hist c) /\
  Forall (fun k => 0 <= c_inv k < c_res k /\ c_res k <= now c) (hist c) /\
  (forall i j a b, nth_error (hist c) i = Some a -> nth_error (hist c) j = Some b ->
     c_res a <= c_inv b -> (i < j)%nat).
Proof.
  intros progs sched c. destruct (GInv_reachable progs sched) as (HG & HT & HR & HS & HL). fold c in HG, HT, HR, HS, HL.
  destruct HG as (_ & _ & HGH & _).
  assert (HF : Forall (fun k => 0 <= c_inv k < c_res k /\ c_res k <= now c) (hist c)).
  { rewrite Forall_forall in *. intros k Hk. specialize (HGH k Hk). specialize (HL k Hk).
    destruct HGH as (H1 & H2 & _). cbn beta in HL. lia. }
  repeat split; try assumption.
  intros i j a b Hi Hj Hab.
  pose proof (Forall_nth_error _ _ _ _ HF Hj) as Hb. cbn beta in Hb.
  destruct (Nat.lt_trichotomy i j) as [H|[H|H]]; [assumption| |]; exfalso.
  - subst j. rewrite Hi in Hj. inversion Hj; subst. lia.
  - pose proof (ss_nth _ _ HS _ _ _ _ Hj Hi H) as Hlt. unfold res_lt in Hlt. lia.
Qed.
