(* Proofs/C05_hom.v -- C05, concurrency: the native-histogram machine (Model/NativeConc.v) over cells C2 is the image
   of the machine over cells C1 under any map phi of cells that respects zero, addition, "one observation" and length:
   every step (step_hom), every schedule entry (sched_step_hom) and every run (run_hom, init_hom) commute with phi.
   Used with phi = length : list f64 -> Z to carry the results proved about lmachine over to zmachine (the code). *)
From Coq Require Import ZArith List Bool Lia.
From Verif Require Import Base.F64 Base.Conc Model.ClassicHist Model.NativeHist Model.NativeConc.
Import ListNotations.
Open Scope Z_scope.

(* ====================================================================== *)
(* machine homomorphism: mapping the cells by phi maps runs to runs        *)
(* ====================================================================== *)
Lemma forallb_ext' {A} (p q : A -> bool) (l : list A) : (forall x, p x = q x) -> forallb p l = forallb q l.
Proof. intros H. induction l as [|a l IH]; cbn; [reflexivity|]. rewrite H, IH. reflexivity. Qed.
Lemma forallb_map {A B} (f : A -> B) (p : B -> bool) (l : list A) : forallb p (map f l) = forallb (fun x => p (f x)) l.
Proof. induction l as [|a l IH]; cbn; [reflexivity|]. rewrite IH. reflexivity. Qed.

Section Hom.
Variables (C1 C2 : Type) (z1 : C1) (a1 : C1 -> C1 -> C1) (o1 : f64 -> C1) (l1 : C1 -> Z)
          (z2 : C2) (a2 : C2 -> C2 -> C2) (o2 : f64 -> C2) (l2 : C2 -> Z) (phi : C1 -> C2).
Hypothesis Hz : phi z1 = z2.
Hypothesis Ha : forall x y, phi (a1 x y) = a2 (phi x) (phi y).
Hypothesis Ho : forall v, phi (o1 v) = o2 v.
Hypothesis Hl : forall x, l2 (phi x) = l1 x.

Definition mmap (m : cmap C1) : cmap C2 := map (fun p => (fst p, phi (snd p))) m.
Definition mset (s : nset C1) : nset C2 :=
  mkNS C2 (ns_sum C1 s) (phi (ns_cnt C1 s)) (phi (ns_zb C1 s)) (ns_zt C1 s) (ns_sch C1 s) (ns_bn C1 s) (mmap (ns_pos C1 s)) (mmap (ns_neg C1 s)).
Definition msh (h : nsh C1) : nsh C2 :=
  mkNH C2 (nh_cfg C1 h) (nh_hot C1 h) (nh_tk C1 h) (mset (nh_s0 C1 h)) (mset (nh_s1 C1 h)) (nh_mtx C1 h) (nh_rs C1 h).
Definition mout (o : nout C1) : nout C2 :=
  mkNOut C2 (no_sch C1 o) (no_zt C1 o) (phi (no_zc C1 o)) (no_count C1 o) (no_sum C1 o) (mmap (no_pos C1 o)) (mmap (no_neg C1 o)).
Definition mret (r : nret C1) : nret C2 :=
  match r with NUnit _ => NUnit C2 | NOut _ o => NOut C2 (mout o) | NPanic _ => NPanic C2 end.
Definition mpc (pc : npc C1) : npc C2 :=
  match pc with
  | oTicket _ v => oTicket C2 v
  | oSumLoad _ v b => oSumLoad C2 v b
  | oSumCas _ v b old => oSumCas C2 v b old
  | oLoadSch _ v b => oLoadSch C2 v b
  | oLoadZt _ v b s => oLoadZt C2 v b s
  | oBkLoad _ v b neg k => oBkLoad C2 v b neg k
  | oBkLos _ v b neg k => oBkLos C2 v b neg k
  | oBkAdd _ v b neg k => oBkAdd C2 v b neg k
  | oBnAdd _ v b => oBnAdd C2 v b
  | oZero _ v b => oZero C2 v b
  | oCount _ v b => oCount C2 v b
  | lLoadBn _ v b => lLoadBn C2 v b
  | lLock _ v => lLock C2 v
  | lLoadIdx _ v => lLoadIdx C2 v
  | lLoadBn2 _ v hb => lLoadBn2 C2 v hb
  | zLoadZt _ hb => zLoadZt C2 hb
  | zRangeP _ hb => zRangeP C2 hb
  | zRangeN _ hb skp => zRangeN C2 hb skp
  | zLoadSch _ hb sk => zLoadSch C2 hb sk
  | zStoreZt _ hb sk nzt => zStoreZt C2 hb sk nzt
  | zDelN _ hb sk nzt => zDelN C2 hb sk nzt
  | zDecN _ hb sk nzt => zDecN C2 hb sk nzt
  | zDelP _ hb sk nzt => zDelP C2 hb sk nzt
  | zDecP _ hb sk nzt => zDecP C2 hb sk nzt
  | dLoadSch _ hb => dLoadSch C2 hb
  | dStoreSch _ hb cs => dStoreSch C2 hb cs
  | dStoreBn _ hb cs => dStoreBn C2 hb cs
  | eRange _ ph c neg => eRange C2 ph c neg
  | eDel _ ph c neg ks => eDel C2 ph c neg ks
  | wLock _ => wLock C2
  | wFlip _ => wFlip C2
  | xFlip _ k hb => xFlip C2 k hb
  | xCool _ k c count => xCool C2 k c count
  | xSpin _ k c count => xSpin C2 k c count
  | wLoadSum _ c count => wLoadSum C2 c count
  | wLoadZt _ c count sum => wLoadZt C2 c count sum
  | wLoadSch _ c count sum zt => wLoadSch C2 c count sum zt
  | wLoadZb _ c count sum zt sch => wLoadZb C2 c count sum zt sch
  | wRange _ c neg o => wRange C2 c neg (mout o)
  | wKeyLoad _ c neg o k ks => wKeyLoad C2 c neg (mout o) k ks
  | wCellLoad _ c neg o k ks => wCellLoad C2 c neg (mout o) k ks
  | aLoadCnt _ k c r => aLoadCnt C2 k c (mret r)
  | aAddCnt _ k c r x => aAddCnt C2 k c (mret r) (phi x)
  | aStoreCnt _ k c r => aStoreCnt C2 k c (mret r)
  | aLoadSum _ k c r => aLoadSum C2 k c (mret r)
  | aSumLoad _ k c r s => aSumLoad C2 k c (mret r) s
  | aSumCas _ k c r s old => aSumCas C2 k c (mret r) s old
  | aStoreSum _ k c r => aStoreSum C2 k c (mret r)
  | aLoadZb _ k c r => aLoadZb C2 k c (mret r)
  | aAddZb _ k c r z => aAddZb C2 k c (mret r) (phi z)
  | aStoreZb _ k c r => aStoreZb C2 k c (mret r)
  | zStoreZt2 _ c sk nzt => zStoreZt2 C2 c sk nzt
  | dStoreSch2 _ c cs => dStoreSch2 C2 c cs
  | mRange _ k c neg r => mRange C2 k c neg (mret r)
  | mLoad _ k c neg r kk ks => mLoad C2 k c neg (mret r) kk ks
  | mAddZb _ k c neg r kk ks n => mAddZb C2 k c neg (mret r) kk ks (phi n)
  | mDel _ k c neg r kk ks => mDel C2 k c neg (mret r) kk ks
  | mDec _ k c neg r kk ks => mDec C2 k c neg (mret r) kk ks
  | bLoad _ k c neg r kk ks n => bLoad C2 k c neg (mret r) kk ks (phi n)
  | bLos _ k c neg r kk ks n => bLos C2 k c neg (mret r) kk ks (phi n)
  | bAdd _ k c neg r kk ks n => bAdd C2 k c neg (mret r) kk ks (phi n)
  | bBn _ k c neg r kk ks => bBn C2 k c neg (mret r) kk ks
  | mStore _ k c neg r kk ks => mStore C2 k c neg (mret r) kk ks
  | dStoreBn2 _ c => dStoreBn2 C2 c
  | xUnlock _ r => xUnlock C2 (mret r)
  | fCheck _ => fCheck C2
  | cAdv _ d => cAdv C2 d
  | rLock _ => rLock C2
  | rLoadIdx _ => rLoadIdx C2
  | rStore _ rk ph x fd => rStore C2 rk ph x fd
  | rRange _ rk ph x neg => rRange C2 rk ph x neg
  | rDel _ rk ph x neg ks => rDel C2 rk ph x neg ks
  | hSumLoad _ v x => hSumLoad C2 v x
  | hSumCas _ v x old => hSumCas C2 v x old
  | hLoadSch _ v x => hLoadSch C2 v x
  | hLoadZt _ v x s => hLoadZt C2 v x s
  | hBkLoad _ v x neg k => hBkLoad C2 v x neg k
  | hBkLos _ v x neg k => hBkLos C2 v x neg k
  | hBkAdd _ v x neg k => hBkAdd C2 v x neg k
  | hBnAdd _ v x => hBnAdd C2 v x
  | hZero _ v x => hZero C2 v x
  | hCount _ v x => hCount C2 v x
  | rSwap _ rk x => rSwap C2 rk x
  | rCool _ rk c count => rCool C2 rk c count
  | rSpin _ rk c count => rSpin C2 rk c count
  end.
Definition mnxt (n : npc C1 + nret C1) : npc C2 + nret C2 := match n with inl p => inl (mpc p) | inr r => inr (mret r) end.

Lemma mm_find m k : cm_find C2 (mmap m) k = option_map phi (cm_find C1 m k).
Proof. induction m as [|[k0 c] r IH]; cbn; [reflexivity|]. destruct (Z.eqb k k0); [reflexivity|exact IH]. Qed.
Lemma mm_has m k : cm_has C2 (mmap m) k = cm_has C1 m k.
Proof. unfold cm_has. rewrite mm_find. destruct (cm_find C1 m k); reflexivity. Qed.
Lemma mm_keys m : cm_keys C2 (mmap m) = cm_keys C1 m.
Proof. unfold cm_keys, mmap. rewrite map_map. reflexivity. Qed.
Lemma mm_ins m k c : cm_ins C2 (mmap m) k (phi c) = mmap (cm_ins C1 m k c).
Proof. induction m as [|[k0 c0] r IH]; cbn; [reflexivity|]. destruct (Z.eqb k k0); [reflexivity|]. destruct (Z.ltb k k0); cbn; [reflexivity|]. f_equal. exact IH. Qed.
Lemma mm_upd m k g1 g2 : (forall x, g2 (phi x) = phi (g1 x)) -> cm_upd C2 (mmap m) k g2 = mmap (cm_upd C1 m k g1).
Proof. intros G. induction m as [|[k0 c0] r IH]; cbn; [reflexivity|]. destruct (Z.eqb k k0); cbn; [rewrite G; reflexivity|]. f_equal. exact IH. Qed.
Lemma mm_del m k : cm_del C2 (mmap m) k = mmap (cm_del C1 m k).
Proof. induction m as [|[k0 c0] r IH]; cbn; [reflexivity|]. destruct (Z.eqb k k0); cbn; [reflexivity|]. f_equal. exact IH. Qed.
Lemma mm_app a b : mmap (a ++ b) = mmap a ++ mmap b. Proof. apply map_app. Qed.

Lemma m_nget h b : nget C2 (msh h) b = mset (nget C1 h b). Proof. destruct b; reflexivity. Qed.
Lemma m_nput h b s : nput C2 (msh h) b (mset s) = msh (nput C1 h b s). Proof. destruct b; reflexivity. Qed.
Lemma m_side s neg : side C2 (mset s) neg = mmap (side C1 s neg). Proof. destruct neg; reflexivity. Qed.
Lemma m_set_side s neg m : set_side C2 (mset s) neg (mmap m) = mset (set_side C1 s neg m). Proof. destruct neg; reflexivity. Qed.
Lemma m_set_cnt s x : set_cnt C2 (mset s) (phi x) = mset (set_cnt C1 s x). Proof. reflexivity. Qed.
Lemma m_set_zb s x : set_zb C2 (mset s) (phi x) = mset (set_zb C1 s x). Proof. reflexivity. Qed.
Lemma m_set_sum s x : set_sum C2 (mset s) x = mset (set_sum C1 s x). Proof. reflexivity. Qed.
Lemma m_set_zt s x : set_zt C2 (mset s) x = mset (set_zt C1 s x). Proof. reflexivity. Qed.
Lemma m_set_sch s x : set_sch C2 (mset s) x = mset (set_sch C1 s x). Proof. reflexivity. Qed.
Lemma m_set_bn s x : set_bn C2 (mset s) x = mset (set_bn C1 s x). Proof. reflexivity. Qed.
Lemma m_set_mtx h m : set_mtx C2 (msh h) m = msh (set_mtx C1 h m). Proof. reflexivity. Qed.
Lemma m_upd_side h b neg f1 f2 : (forall m, f2 (mmap m) = mmap (f1 m)) -> upd_side C2 (msh h) b neg f2 = msh (upd_side C1 h b neg f1).
Proof. intros G. unfold upd_side. rewrite m_nget, m_side, G, m_set_side, m_nput. reflexivity. Qed.
Lemma m_m_next k c neg r ks : m_next C2 k c neg (mret r) ks = mpc (m_next C1 k c neg r ks).
Proof. destruct ks, neg, k; reflexivity. Qed.
Lemma m_m_added k c neg r kk ks : m_added C2 k c neg (mret r) kk ks = mpc (m_added C1 k c neg r kk ks).
Proof. destruct k; cbn [m_added]; try reflexivity. apply m_m_next. Qed.
Lemma m_e_next ph c neg ks : e_next C2 ph c neg ks = mpc (e_next C1 ph c neg ks).
Proof. destruct ks, neg, ph; reflexivity. Qed.
Lemma m_w_next c neg o ks : w_next C2 c neg (mout o) ks = mpc (w_next C1 c neg o ks).
Proof. destruct ks, neg; reflexivity. Qed.
Lemma m_after_cool k c count : after_cool C2 k c count = mpc (after_cool C1 k c count).
Proof. destruct k; reflexivity. Qed.
Lemma m_after_addreset k c r : after_addreset C2 k c (mret r) = mpc (after_addreset C1 k c r).
Proof. destruct k; reflexivity. Qed.
Lemma m_out_add o neg k x : out_add C2 (mout o) neg k (phi x) = mout (out_add C1 o neg k x).
Proof. destruct neg; unfold out_add, mout; cbn; rewrite mm_app; reflexivity. Qed.

Lemma m_rstore g s fd : rstore_set C2 z2 g (mset s) fd = mset (rstore_set C1 z1 g s fd).
Proof. destruct fd; cbn [rstore_set]; rewrite <- ?Hz; reflexivity. Qed.
Lemma m_r_done rk ph neg ks h : r_done C2 rk ph neg ks (msh h) = msh (r_done C1 rk ph neg ks h).
Proof. destruct ks, neg, ph; reflexivity. Qed.
Lemma m_r_next rk ph x neg ks : r_next C2 rk ph x neg ks = mpc (r_next C1 rk ph x neg ks).
Proof. destruct ks, neg, ph, rk; reflexivity. Qed.

Definition step1 := nstep C1 z1 a1 o1 l1.
Definition step2 := nstep C2 z2 a2 o2 l2.
Definition mres (x : option (nsh C1 * (npc C1 + nret C1))) : option (nsh C2 * (npc C2 + nret C2)) :=
  match x with Some (h, n) => Some (msh h, mnxt n) | None => None end.

Lemma p_sum s : ns_sum C2 (mset s) = ns_sum C1 s. Proof. reflexivity. Qed.
Lemma p_cnt s : ns_cnt C2 (mset s) = phi (ns_cnt C1 s). Proof. reflexivity. Qed.
Lemma p_zb s : ns_zb C2 (mset s) = phi (ns_zb C1 s). Proof. reflexivity. Qed.
Lemma p_zt s : ns_zt C2 (mset s) = ns_zt C1 s. Proof. reflexivity. Qed.
Lemma p_sch s : ns_sch C2 (mset s) = ns_sch C1 s. Proof. reflexivity. Qed.
Lemma p_bn s : ns_bn C2 (mset s) = ns_bn C1 s. Proof. reflexivity. Qed.
Lemma p_pos s : ns_pos C2 (mset s) = mmap (ns_pos C1 s). Proof. reflexivity. Qed.
Lemma p_neg s : ns_neg C2 (mset s) = mmap (ns_neg C1 s). Proof. reflexivity. Qed.

Ltac hom_rw := cbn [mres mnxt mpc msh nh_cfg nh_hot nh_tk nh_mtx nh_s0 nh_s1 nh_rs];
  rewrite ?m_nget, ?p_sum, ?p_cnt, ?p_zb, ?p_zt, ?p_sch, ?p_bn, ?p_pos, ?p_neg, ?m_side, ?mm_has, ?mm_keys, ?mm_find, ?Hl.
Ltac hom_ifs := repeat match goal with |- context [if ?c then _ else _] => destruct c end.
Ltac hom_st := rewrite <- ?Ho; rewrite <- ?Ha; rewrite <- ?Hz;
  rewrite ?m_set_cnt, ?m_set_zb, ?m_set_sum, ?m_set_zt, ?m_set_sch, ?m_set_bn, ?m_nput, ?m_set_mtx,
          ?m_m_next, ?m_m_added, ?m_e_next, ?m_w_next, ?m_after_cool, ?m_after_addreset.
Ltac hom_go := hom_rw; hom_ifs; hom_st; cbn [mres mnxt mpc mret mout msh]; try reflexivity.

Lemma step_hom h pc : step2 (msh h) (mpc pc) = mres (step1 h pc).
Proof.
  destruct pc; cbn [mpc]; unfold step1, step2; cbv beta iota zeta delta [nstep]; try solve [hom_go].
  - (* oBkLos *) rewrite (m_upd_side h b neg (fun m => cm_ins C1 m k (o1 v)) (fun m => cm_ins C2 m k (o2 v)));
      [hom_go|intros m; rewrite <- Ho; apply mm_ins].
  - (* oBkAdd *) rewrite (m_upd_side h b neg (fun m => cm_upd C1 m k (fun x => a1 x (o1 v))) (fun m => cm_upd C2 m k (fun x => a2 x (o2 v))));
      [hom_go|intros m; apply mm_upd; intros x; rewrite Ha, Ho; reflexivity].
  - (* zDelN *) rewrite (m_upd_side h (negb hb) true (fun m => cm_del C1 m sk) (fun m => cm_del C2 m sk)); [hom_go|intros m; apply mm_del].
  - (* zDelP *) rewrite (m_upd_side h (negb hb) false (fun m => cm_del C1 m sk) (fun m => cm_del C2 m sk)); [hom_go|intros m; apply mm_del].
  - (* eDel *) destruct ks as [|k ks']; [hom_go|].
    rewrite (m_upd_side h c neg (fun m => cm_del C1 m k) (fun m => cm_del C2 m k)); [hom_go|intros m; apply mm_del].
  - (* wCellLoad *) hom_rw. destruct (cm_find C1 (side C1 (nget C1 h c) neg) k) as [x|]; cbn [option_map];
      rewrite <- ?Hz, m_out_add, m_w_next; reflexivity.
  - (* mLoad *) hom_rw. destruct (cm_find C1 (side C1 (nget C1 h c) neg) kk) as [x|]; cbn [option_map]; [|hom_go].
    destruct k; hom_go.
  - (* mDel *) rewrite (m_upd_side h c neg (fun m => cm_del C1 m kk) (fun m => cm_del C2 m kk)); [hom_go|intros m; apply mm_del].
  - (* bLos *) rewrite (m_upd_side h (negb c) neg (fun m => cm_ins C1 m (tkey k kk) n) (fun m => cm_ins C2 m (tkey k kk) (phi n)));
      [hom_go|intros m; apply mm_ins].
  - (* bAdd *) rewrite (m_upd_side h (negb c) neg (fun m => cm_upd C1 m (tkey k kk) (fun x => a1 x n)) (fun m => cm_upd C2 m (tkey k kk) (fun x => a2 x (phi n))));
      [hom_go|intros m; apply mm_upd; intros x; rewrite Ha; reflexivity].
  - (* mStore *) rewrite (m_upd_side h c neg (fun m => cm_upd C1 m kk (fun _ => z1)) (fun m => cm_upd C2 m kk (fun _ => z2)));
      [hom_go|intros m; apply mm_upd; intros x; rewrite Hz; reflexivity].
  - (* rStore *) hom_rw. rewrite m_rstore, m_nput. destruct (rfield_next fd); reflexivity.
  - (* rRange *) hom_rw. rewrite m_r_done, m_r_next. reflexivity.
  - (* rDel *) destruct ks as [|k ks']; [rewrite m_r_done, m_r_next; reflexivity|].
    rewrite (m_upd_side h x neg (fun m => cm_del C1 m k) (fun m => cm_del C2 m k)); [|intros m; apply mm_del].
    rewrite m_r_done, m_r_next. reflexivity.
  - (* hBkLos *) rewrite (m_upd_side h x neg (fun m => cm_ins C1 m k (o1 v)) (fun m => cm_ins C2 m k (o2 v)));
      [hom_go|intros m; rewrite <- Ho; apply mm_ins].
  - (* hBkAdd *) rewrite (m_upd_side h x neg (fun m => cm_upd C1 m k (fun y => a1 y (o1 v))) (fun m => cm_upd C2 m k (fun y => a2 y (o2 v))));
      [hom_go|intros m; apply mm_upd; intros y; rewrite Ha, Ho; reflexivity].
Qed.
Lemma label_hom pc : nlabel C2 (mpc pc) = nlabel C1 pc.
Proof. destruct pc; reflexivity. Qed.

(* ---- configurations ---- *)
Definition M1 : machine := native_machine C1 z1 a1 o1 l1.
Definition M2 : machine := native_machine C2 z2 a2 o2 l2.
Definition mthread (t : thread M1) : thread M2 :=
  mkThread M2 (t_todo t) (match t_cur t with Some (o, l, i) => Some (o, mpc l, i) | None => None end) (t_idx t).
Definition mcall (k : call M1) : call M2 := @mkCall M2 (c_tid k) (c_idx k) (c_op k) (mret (c_ret k)) (c_inv k) (c_res k).
Definition mcfg (c : Conc.config M1) : Conc.config M2 :=
  Conc.mkConfig M2 (msh (sh c)) (map mthread (thr c)) (now c) (map mcall (Conc.hist c)) (trace c).

Lemma set_nth_map {A B} (f : A -> B) (l : list A) : forall n x, map f (set_nth l n x) = set_nth (map f l) n (f x).
Proof. induction l as [|y r IH]; intros [|n] x; cbn; try reflexivity. rewrite IH. reflexivity. Qed.
Lemma advance_hom tid todo idx time :
  advance M2 tid todo idx time = (mthread (fst (advance M1 tid todo idx time)), map mcall (snd (advance M1 tid todo idx time))).
Proof. destruct todo as [|[v| | |d] rest]; reflexivity. Qed.
Lemma advance_nil tid todo idx time : snd (advance M1 tid todo idx time) = [].
Proof. destruct todo as [|[v| | |d] rest]; reflexivity. Qed.

Lemma sched_step_hom c tid : sched_step M2 (mcfg c) tid = option_map mcfg (sched_step M1 c tid).
Proof.
  unfold sched_step. cbn [thr mcfg sh now Conc.hist trace]. rewrite nth_error_map.
  destruct (nth_error (thr c) (Z.to_nat tid)) as [t|]; [|reflexivity]. cbn [option_map mthread t_cur t_todo t_idx].
  destruct (t_cur t) as [[[o l] inv]|]; [|reflexivity].
  change (Conc.step M2 (msh (sh c)) (mpc l)) with (step2 (msh (sh c)) (mpc l)).
  change (Conc.step M1 (sh c) l) with (step1 (sh c) l).
  rewrite step_hom. destruct (step1 (sh c) l) as [[s' [l'|r]]|]; cbn [mres mnxt]; [| |reflexivity].
  - cbn [option_map]. unfold mcfg. cbn [sh thr now Conc.hist trace]. rewrite set_nth_map. cbn [mthread t_cur t_todo t_idx].
    change (label M2 (mpc l)) with (nlabel C2 (mpc l)). change (label M1 l) with (nlabel C1 l). rewrite label_hom. reflexivity.
  - rewrite advance_hom. destruct (advance M1 tid (t_todo t) (t_idx t + 1) (now c + 1)) as [t' cs] eqn:EA.
    cbn [fst snd option_map]. unfold mcfg. cbn [sh thr now Conc.hist trace]. rewrite set_nth_map, map_app. cbn [map mcall c_tid c_idx c_op c_ret c_inv c_res].
    change (label M2 (mpc l)) with (nlabel C2 (mpc l)). change (label M1 l) with (nlabel C1 l). rewrite label_hom. reflexivity.
Qed.
Lemma run_hom sched : forall c, run_sched M2 (mcfg c) sched = mcfg (run_sched M1 c sched).
Proof.
  induction sched as [|t r IH]; intros c; cbn [run_sched]; [reflexivity|]. rewrite sched_step_hom.
  destruct (sched_step M1 c t) as [c'|]; cbn [option_map]; apply IH.
Qed.
Lemma all_done_hom c : all_done M2 (mcfg c) = all_done M1 c.
Proof.
  unfold all_done. cbn [thr mcfg]. rewrite forallb_map. apply forallb_ext'. intros t. cbn [mthread t_cur]. destruct (t_cur t) as [[[o l] i]|]; reflexivity.
Qed.

Lemma init_hom s0 progs : mcfg (init_config M1 s0 progs) = init_config M2 (msh s0) progs.
Proof.
  unfold init_config, mcfg. cbn [sh thr now Conc.hist trace].
  assert (A : forall L : list (Z * list nop), map mthread (map fst (map (fun p => advance M1 (fst p) (snd p) 0 0) L)) =
              map fst (map (fun p => advance M2 (fst p) (snd p) 0 0) L)).
  { induction L as [|p L IH]; [reflexivity|]. cbn [map]. rewrite IH, advance_hom. cbn [fst]. reflexivity. }
  assert (B : forall L : list (Z * list nop), map mcall (concat (map snd (map (fun p => advance M1 (fst p) (snd p) 0 0) L))) =
              concat (map snd (map (fun p => advance M2 (fst p) (snd p) 0 0) L))).
  { induction L as [|p L IH]; [reflexivity|]. cbn [map concat]. rewrite map_app, IH, advance_hom. cbn [snd]. reflexivity. }
  rewrite A, B. reflexivity.
Qed.
(* the ledger (values ticketed since the last reset swap) is the same in both machines *)
Lemma ledger_eff_hom pc L : ledger_eff C2 (mpc pc) L = ledger_eff C1 pc L.
Proof. destruct pc; reflexivity. Qed.
Lemma pc_of_hom c tid : pc_of C2 z2 a2 o2 l2 (mcfg c) tid = option_map mpc (pc_of C1 z1 a1 o1 l1 c tid).
Proof.
  unfold pc_of. cbn [thr mcfg]. rewrite nth_error_map. change (native_machine C1 z1 a1 o1 l1) with M1.
  destruct (nth_error (thr c) (Z.to_nat tid)) as [t|]; cbn [option_map]; [|reflexivity].
  cbn [mthread t_cur]. destruct (t_cur t) as [[[o l] i]|]; reflexivity.
Qed.
Lemma ledger_hom sched : forall c L, ledger C2 z2 a2 o2 l2 (mcfg c) sched L = ledger C1 z1 a1 o1 l1 c sched L.
Proof.
  induction sched as [|t r IH]; intros c L; cbn [ledger]; [reflexivity|].
  change (native_machine C2 z2 a2 o2 l2) with M2. change (native_machine C1 z1 a1 o1 l1) with M1.
  rewrite sched_step_hom, pc_of_hom. destruct (sched_step M1 c t) as [c'|]; cbn [option_map]; [|apply IH].
  rewrite IH. destruct (pc_of C1 z1 a1 o1 l1 c t) as [pc|]; cbn [option_map]; [rewrite ledger_eff_hom|]; reflexivity.
Qed.

End Hom.
