(* Proofs/C06_proofs.v -- the summary with objectives: count/sum exact, exact window law,
   termination of the two loops for streamDuration > 0, non-termination for streamDuration = 0,
   construction-time refusals.  Statements are collected in Properties/C06.v. *)
From Coq Require Import ZArith List Bool Lia Sorted Permutation.
From Flocq Require Import IEEE754.BinarySingleNaN.
From Verif Require Import Base.F64 Base.Str Model.SummaryWindow Proofs.Str_facts Proofs.F64_order.
Import ListNotations.
Open Scope Z_scope.

(* ------------------------------------------------------------------ *)
(* ceiling division *)
Lemma cdiv_bounds a d : 0 < d -> (cdiv a d - 1) * d < a <= cdiv a d * d.
Proof.
  intros Hd. unfold cdiv.
  pose proof (Z.mul_div_le (- a) d Hd). pose proof (Z.mul_succ_div_gt (- a) d Hd). nia.
Qed.

Lemma cdiv_unique a d k : 0 < d -> (k - 1) * d < a <= k * d -> cdiv a d = k.
Proof.
  intros Hd H. pose proof (cdiv_bounds a d Hd).
  assert (cdiv a d < k + 1) by nia. assert (k < cdiv a d + 1) by nia. lia.
Qed.

(* ------------------------------------------------------------------ *)
(* swapBufs loop *)
Lemma swap_loop_spec : forall f d now exp, 0 < d -> now - exp <= Z.of_nat f * d ->
  exists j, 0 <= j /\ swap_loop (S f) d now exp = Some (exp + j * d) /\ now <= exp + j * d
            /\ (j = 0 \/ exp + (j - 1) * d < now).
Proof.
  induction f; intros d now exp Hd H.
  - simpl in *. destruct (now >? exp) eqn:E; [lia|]. exists 0. repeat split; try lia. f_equal; lia.
  - change (swap_loop (S (S f)) d now exp) with (if now >? exp then swap_loop (S f) d now (exp + d) else Some exp).
    destruct (now >? exp) eqn:E.
    + destruct (IHf d now (exp + d) Hd) as (j & Hj & He & Hle & Hlt). { rewrite Nat2Z.inj_succ in H. nia. }
      exists (j + 1). split; [lia|]. split; [|split].
      * rewrite He. f_equal. ring.
      * replace (exp + (j + 1) * d) with (exp + d + j * d) by ring. exact Hle.
      * right. destruct Hlt as [->|Hlt]; [lia|]. replace (exp + (j + 1 - 1) * d) with (exp + d + (j - 1) * d) by ring. exact Hlt.
    + exists 0. repeat split; try lia. f_equal; lia.
Qed.

Lemma swap_loop_zero : forall fuel now exp, exp < now -> swap_loop fuel 0 now exp = None.
Proof.
  induction fuel; intros now exp H; simpl; [reflexivity|].
  replace (now >? exp) with true by (symmetry; apply Z.gtb_lt; lia).
  rewrite Z.add_0_r. apply IHfuel; exact H.
Qed.

Lemma need_enough c now s : 0 < c_d c ->
  exists f, need c now s = S f /\ now - hot_exp s <= Z.of_nat f * c_d c.
Proof.
  intros Hd. unfold need. eexists; split; [reflexivity|].
  rewrite Nat2Z.inj_succ.
  destruct (Z_lt_le_dec (now - hot_exp s) 0) as [Hn|Hn].
  - assert (0 <= Z.of_nat (Z.to_nat ((now - hot_exp s) / c_d c))) by lia. nia.
  - rewrite Z2Nat.id by (apply Z.div_pos; lia).
    pose proof (Z.mul_succ_div_gt (now - hot_exp s) (c_d c) Hd). nia.
Qed.

(* ------------------------------------------------------------------ *)
(* the ring of streams seen from its head *)
Definition view {A} (st : list A) (i : nat) : list A := skipn i st ++ firstn i st.

Lemma skipn_length_app {A} (a l : list A) : skipn (length a) (a ++ l) = l.
Proof. induction a; simpl; auto. Qed.
Lemma firstn_length_app {A} (a l : list A) : firstn (length a) (a ++ l) = a.
Proof. induction a; simpl; congruence. Qed.

Lemma view_split {A} (a : list A) x b : view (a ++ x :: b) (length a) = x :: b ++ a.
Proof. unfold view. rewrite skipn_length_app, firstn_length_app. reflexivity. Qed.

Lemma set_nth_split {A} (a : list A) x y b : set_nth (length a) y (a ++ x :: b) = a ++ y :: b.
Proof. induction a; simpl; congruence. Qed.

Lemma set_nth_length {A} i (y : A) l : length (set_nth i y l) = length l.
Proof. revert i; induction l; intros [|i]; simpl; auto. Qed.

Lemma view_rotate_split (a : list (list f64)) x b :
  view (set_nth (length a) [] (a ++ x :: b)) (next_idx (length a) (length (a ++ x :: b)))
  = tl (view (a ++ x :: b) (length a)) ++ [[]].
Proof.
  rewrite set_nth_split, view_split. simpl tl.
  rewrite app_length. simpl length. unfold next_idx.
  destruct b as [|y b'].
  - simpl length. replace (length a + 1)%nat with (S (length a)) by lia. rewrite Nat.leb_refl.
    unfold view. simpl. rewrite app_nil_r. reflexivity.
  - replace (Nat.leb (length a + S (length (y :: b'))) (S (length a))) with false
      by (symmetry; apply Nat.leb_gt; simpl; lia).
    replace (a ++ [] :: y :: b') with ((a ++ [[]]) ++ y :: b') by (rewrite <- app_assoc; reflexivity).
    replace (S (length a)) with (length (a ++ [[]])) by (rewrite app_length; simpl; lia).
    rewrite view_split. simpl. rewrite <- app_assoc. reflexivity.
Qed.

Lemma view_rotate (st : list (list f64)) i : (i < length st)%nat ->
  view (set_nth i [] st) (next_idx i (length st)) = tl (view st i) ++ [[]].
Proof.
  intros H. destruct (nth_split st [] H) as (a & b & Hst & Ha).
  set (x := nth i st []) in Hst. clearbody x. subst st i. apply view_rotate_split.
Qed.

Lemma next_idx_lt i n : (i < n)%nat -> (next_idx i n < n)%nat.
Proof. intros H. unfold next_idx. destruct (Nat.leb n (S i)) eqn:E; [lia|]. apply Nat.leb_gt in E. lia. Qed.

Lemma view_map {A B} (f : A -> B) st i : view (map f st) i = map f (view st i).
Proof. unfold view. rewrite skipn_map, firstn_map, map_app. reflexivity. Qed.

Lemma view_hd {A} (st : list A) i d : (i < length st)%nat -> nth i st d = hd d (view st i).
Proof.
  intros H. destruct (nth_split st d H) as (a & b & Hst & Ha).
  set (x := nth i st d) in Hst. clearbody x. subst st i. rewrite view_split, nth_middle. reflexivity.
Qed.

(* ------------------------------------------------------------------ *)
(* selections of the log *)
Section Cfg.
Variable c : cfg.
Variable t0 : Z.
Let d := c_d c.
Let n := c_n c.

Lemma sel_app L a b : sel c t0 L (a ++ b) = sel c t0 L a ++ sel c t0 L b.
Proof. unfold sel. rewrite filter_app, map_app. reflexivity. Qed.

Lemma sel_all L l : Forall (fun o => in_window c t0 L o = true) l -> sel c t0 L l = map snd l.
Proof.
  unfold sel. induction 1; simpl; [reflexivity|]. rewrite H. simpl. congruence.
Qed.

Lemma sel_none L l : 1 <= L -> Forall (fun o => fst o <= t0 + L * d) l -> sel c t0 L l = [].
Proof.
  intros HL. unfold sel. induction 1; simpl; [reflexivity|].
  unfold in_window at 1. replace (L <=? 0) with false by (symmetry; apply Z.leb_gt; lia).
  fold d. replace (t0 + L * d <? fst x) with false by (symmetry; apply Z.ltb_ge; lia). simpl. exact IHForall.
Qed.

Definition expected (fl : list (Z * f64)) (K : Z) : list (list f64) :=
  map (fun m => sel c t0 (K + Z.of_nat m - Z.of_nat n) fl) (seq 0 n).

Lemma expected_rotate fl K : (0 < n)%nat -> sel c t0 K fl = [] -> tl (expected fl K) ++ [[]] = expected fl (K + 1).
Proof.
  intros Hn H. unfold expected. destruct n as [|n'] eqn:En.
  - lia.
  - assert (E1 : seq 0 (S n') = 0%nat :: map S (seq 0 n')) by (simpl; rewrite seq_shift; reflexivity).
    transitivity (map (fun m => sel c t0 (K + Z.of_nat m - Z.of_nat (S n')) fl) (map S (seq 0 n')) ++ [[]]).
    { rewrite E1. reflexivity. }
    rewrite seq_S, map_app, map_map. cbn [map Nat.add].
    replace (K + 1 + Z.of_nat n' - Z.of_nat (S n')) with K by lia. rewrite H.
    f_equal. apply map_ext. intros m. f_equal. lia.
Qed.

Lemma expected_insert fl hl K :
  Forall (fun o => K = 1 \/ t0 + (K - 1) * d < fst o) hl -> 0 < d ->
  map (fun x => x ++ map snd hl) (expected fl K) = expected (fl ++ hl) K.
Proof.
  intros H Hd. unfold expected. rewrite map_map. apply map_ext_in. intros m Hm. apply in_seq in Hm.
  rewrite sel_app. f_equal. symmetry. apply sel_all.
  eapply Forall_impl; [|exact H]. intros o Ho. unfold in_window. fold d.
  apply orb_true_iff. destruct Ho as [->|Ho]; [left; apply Z.leb_le; lia|].
  destruct (Z_le_gt_dec (K + Z.of_nat m - Z.of_nat n) 0); [left; apply Z.leb_le; lia|].
  right. apply Z.ltb_lt. assert ((K + Z.of_nat m - Z.of_nat n) * d <= (K - 1) * d) by (apply Z.mul_le_mono_nonneg_r; lia). lia.
Qed.

Lemma expected_nil K : expected [] K = repeat [] n.
Proof.
  unfold expected. generalize 0%nat. induction n; intros s; simpl; [reflexivity|]. f_equal. apply IHn0.
Qed.

Lemma expected_length fl K : length (expected fl K) = n.
Proof. unfold expected. rewrite map_length, seq_length. reflexivity. Qed.

Lemma expected_hd fl K : (0 < n)%nat -> hd [] (expected fl K) = sel c t0 (K - Z.of_nat n) fl.
Proof.
  intros H. unfold expected. destruct n; [lia|]. simpl. f_equal. lia.
Qed.

(* flushColdBuf's insertion loop *)
Lemma flush_fold : forall cold st k s,
  fold_left flush_one cold (st, k, s) =
  (map (fun x => x ++ cold) st, k + Z.of_nat (length cold), fold_left fadd cold s).
Proof.
  induction cold as [|v r IH]; intros st k s.
  - simpl. rewrite Z.add_0_r. f_equal. f_equal. rewrite <- (map_id st) at 1. apply map_ext. intros; rewrite app_nil_r; reflexivity.
  - simpl fold_left. rewrite IH. rewrite map_map.
    replace (map (fun x => (x ++ [v]) ++ r) st) with (map (fun x => x ++ v :: r) st)
      by (apply map_ext; intros x; rewrite <- app_assoc; reflexivity).
    replace (k + 1 + Z.of_nat (length r)) with (k + Z.of_nat (length (v :: r))) by (simpl length; lia).
    reflexivity.
Qed.

(* maybeRotateStreams *)
Lemma rotate_spec : forall f K K' st idx fl,
  0 < d -> length st = n -> (idx < n)%nat -> view st idx = expected fl K ->
  Forall (fun o => fst o <= t0 + K * d) fl -> 1 <= K <= K' -> K' - K <= Z.of_nat f ->
  exists st' idx', rotate_loop (S f) d (t0 + K' * d) st idx (t0 + K * d) = Some (st', idx', t0 + K' * d)
    /\ length st' = n /\ (idx' < n)%nat /\ view st' idx' = expected fl K'.
Proof.
  induction f; intros K K' st idx fl Hd Hl Hi Hv Hf HK Hfuel.
  - assert (K' = K) by lia. subst K'. simpl. rewrite Z.eqb_refl. exists st, idx. auto.
  - change (rotate_loop (S (S f)) d (t0 + K' * d) st idx (t0 + K * d)) with
      (if t0 + K' * d =? t0 + K * d then Some (st, idx, t0 + K * d)
       else rotate_loop (S f) d (t0 + K' * d) (set_nth idx [] st) (next_idx idx (length st)) (t0 + K * d + d)).
    destruct (Z.eq_dec K' K) as [->|Hne].
    + rewrite Z.eqb_refl. exists st, idx. auto.
    + replace (t0 + K' * d =? t0 + K * d) with false by (symmetry; apply Z.eqb_neq; nia).
      replace (t0 + K * d + d) with (t0 + (K + 1) * d) by ring.
      apply IHf; try lia.
      * rewrite set_nth_length; exact Hl.
      * rewrite Hl. apply next_idx_lt; exact Hi.
      * rewrite view_rotate by lia. rewrite Hv. apply expected_rotate; [lia|]. apply sel_none; [lia|exact Hf].
      * eapply Forall_impl; [|exact Hf]. intros o Ho. simpl in Ho. nia.
Qed.

(* ------------------------------------------------------------------ *)
(* the invariant between operations: log = flushed ++ buffered *)
Definition Inv (now : Z) (s : state) (log : list (Z * f64)) : Prop :=
  exists K fl hl,
    1 <= K /\ hot_exp s = t0 + K * d /\ head_exp s = t0 + K * d /\ cold s = [] /\
    (K = 1 \/ t0 + (K - 1) * d < now) /\
    log = fl ++ hl /\ hot s = map snd hl /\
    Forall (fun o => fst o <= t0 + K * d) log /\
    Forall (fun o => K = 1 \/ t0 + (K - 1) * d < fst o) hl /\
    length (streams s) = n /\ (head_idx s < n)%nat /\ view (streams s) (head_idx s) = expected fl K /\
    cnt s = Z.of_nat (length fl) /\ sum s = fold_left fadd (map snd fl) pzero.

(* right after a flush: nothing buffered, the clock is inside the head period *)
Definition InvF (now : Z) (s : state) (log : list (Z * f64)) : Prop :=
  exists K,
    1 <= K /\ hot_exp s = t0 + K * d /\ head_exp s = t0 + K * d /\ cold s = [] /\ hot s = [] /\
    (K = 1 \/ t0 + (K - 1) * d < now) /\ now <= t0 + K * d /\
    Forall (fun o => fst o <= t0 + K * d) log /\
    length (streams s) = n /\ (head_idx s < n)%nat /\ view (streams s) (head_idx s) = expected log K /\
    cnt s = Z.of_nat (length log) /\ sum s = fold_left fadd (map snd log) pzero.

Lemma InvF_Inv now s log : InvF now s log -> Inv now s log.
Proof.
  intros (K & H1 & H2 & H3 & H4 & H5 & H6 & H7 & H8 & H9 & H10 & H11 & H12 & H13).
  exists K, log, []. rewrite app_nil_r. repeat split; auto.
Qed.

Lemma Inv_mono now now' s log : now <= now' -> Inv now s log -> Inv now' s log.
Proof.
  intros Hle (K & fl & hl & H1 & H2 & H3 & H4 & H5 & H).
  exists K, fl, hl. repeat split; try tauto. destruct H5; [left|right]; lia.
Qed.

Lemma swap_flush now s log f :
  0 < d -> Inv now s log -> now - hot_exp s <= Z.of_nat f * d ->
  exists s', bind (swap_bufs (S f) c now s) (flush_cold (S f) c) = Ok s' /\ InvF now s' log
             /\ hot_exp s <= hot_exp s'.
Proof.
  intros Hd (K & fl & hl & H1 & H2 & H3 & H4 & H5 & H6 & H7 & H8 & H9 & H10 & H11 & H12 & H13 & H14) Hfuel.
  unfold swap_bufs. rewrite H4.
  destruct (swap_loop_spec f d now (hot_exp s) Hd Hfuel) as (j & Hj & Hsw & Hle & Hlt).
  fold d. rewrite Hsw. unfold bind, flush_cold. cbn [hot cold hot_exp head_exp streams head_idx cnt sum].
  rewrite flush_fold. rewrite H2 in *.
  set (K' := K + j).
  replace (t0 + K * d + j * d) with (t0 + K' * d) by (unfold K'; ring).
  rewrite H3. rewrite H7.
  assert (Hjf : j <= Z.of_nat f).
  { destruct Hlt as [->|Hlt]; [lia|]. nia. }
  destruct (rotate_spec f K K' (map (fun x => x ++ map snd hl) (streams s)) (head_idx s) (fl ++ hl)) as (st' & idx' & Hrot & Hl' & Hi' & Hv'); auto.
  - rewrite map_length; exact H10.
  - rewrite view_map, H12. apply expected_insert; auto.
  - rewrite <- H6. exact H8.
  - unfold K'; lia.
  - unfold K'; lia.
  - fold d. rewrite Hrot. eexists; split; [reflexivity|].
    assert (HKK : K * d <= K' * d) by (unfold K'; nia).
    split; [|cbn [hot_exp]; lia].
    exists K'. cbn [hot cold hot_exp head_exp streams head_idx cnt sum]. rewrite <- H6 in Hv'.
    repeat apply conj.
    + unfold K'; lia.
    + reflexivity.
    + reflexivity.
    + reflexivity.
    + reflexivity.
    + unfold K'. destruct Hlt as [->|Hlt].
      * replace (K + 0) with K by lia. exact H5.
      * right. replace (t0 + (K + j - 1) * d) with (t0 + K * d + (j - 1) * d) by ring. exact Hlt.
    + replace (t0 + K' * d) with (t0 + K * d + j * d) by (unfold K'; ring). exact Hle.
    + eapply Forall_impl; [|exact H8]. intros o Ho. simpl in Ho. lia.
    + exact Hl'.
    + exact Hi'.
    + exact Hv'.
    + rewrite H13, H6, app_length, map_length. lia.
    + rewrite H14, H6, map_app, fold_left_app. reflexivity.
Qed.

(* quiescent invariant: Inv and the hot buffer is not full *)
Definition Q (now : Z) (s : state) (log : list (Z * f64)) : Prop :=
  Inv now s log /\ Z.of_nat (length (hot s)) < c_cap c.

Lemma observe_ok now s log v :
  0 < d -> 0 < c_cap c -> Q now s log ->
  exists s', observe c now v s = Ok s' /\ Q now s' (log ++ [(now, v)]).
Proof.
  intros Hd Hcap [HI Hlen].
  destruct (need_enough c now s Hd) as (f & Hneed & Hfuel). fold d in Hfuel.
  unfold observe, observe_f. rewrite Hneed.
  (* first stage *)
  assert (Hs1 : exists s1, (if now >? hot_exp s then async_flush (S f) c now s else Ok s) = Ok s1
                 /\ Inv now s1 log /\ now <= hot_exp s1 /\ hot_exp s <= hot_exp s1
                 /\ Z.of_nat (length (hot s1)) < c_cap c).
  { destruct (now >? hot_exp s) eqn:E.
    - destruct (swap_flush now s log f Hd HI Hfuel) as (s1 & Hr & HF & Hm).
      exists s1. unfold async_flush. rewrite Hr. split; [reflexivity|]. split; [apply InvF_Inv; exact HF|].
      destruct HF as (K & F1 & F2 & F3 & F4 & F5 & F6 & F7 & _). rewrite F2, F5. simpl. repeat split; lia.
    - exists s. repeat split; auto; lia. }
  destruct Hs1 as (s1 & -> & HI1 & Hnow & Hm & Hlen1). unfold bind at 1.
  destruct HI1 as (K & fl & hl & H1 & H2 & H3 & H4 & H5 & H6 & H7 & H8 & H9 & H10 & H11 & H12 & H13 & H14).
  set (s2 := set_hot s1 (hot s1 ++ [v])).
  assert (HI2 : Inv now s2 (log ++ [(now, v)])).
  { exists K, fl, (hl ++ [(now, v)]). unfold s2; simpl.
    repeat split; auto.
    - rewrite H6, app_assoc. reflexivity.
    - rewrite map_app, H7. reflexivity.
    - apply Forall_app. split; [exact H8|]. constructor; [simpl; lia|constructor].
    - apply Forall_app. split; [exact H9|]. constructor; [simpl; exact H5|constructor]. }
  destruct (Z.of_nat (length (hot s2)) =? c_cap c) eqn:E.
  - assert (Hfuel2 : now - hot_exp s2 <= Z.of_nat f * d) by (unfold s2; simpl; lia).
    destruct (swap_flush now s2 _ f Hd HI2 Hfuel2) as (s3 & Hr & HF & _).
    unfold async_flush. rewrite Hr. exists s3. split; [reflexivity|]. split; [apply InvF_Inv; exact HF|].
    destruct HF as (K3 & F1 & F2 & F3 & F4 & F5 & _). rewrite F5. simpl. lia.
  - exists s2. split; [reflexivity|]. split; [exact HI2|].
    apply Z.eqb_neq in E. unfold s2 in *. simpl in *. rewrite app_length in *. simpl in *. lia.
Qed.

Lemma epoch_char now K : 0 < d -> t0 <= now -> 1 <= K ->
  (K = 1 \/ t0 + (K - 1) * d < now) -> now <= t0 + K * d -> epoch c t0 now = K.
Proof.
  intros Hd Ht HK H Hle. unfold epoch. fold d.
  destruct H as [->|H].
  - pose proof (cdiv_bounds (now - t0) d Hd). assert (cdiv (now - t0) d <= 1) by nia. lia.
  - rewrite (cdiv_unique (now - t0) d K Hd) by lia. lia.
Qed.

Lemma write_ok objs now s log :
  0 < d -> (0 < n)%nat -> 0 < c_cap c -> t0 <= now -> Q now s log ->
  exists s' w, write c objs now s = Ok (s', w) /\ Q now s' log /\
    project w = spec_write c t0 log now /\ w_quantiles w = map (expose (w_window w)) objs.
Proof.
  intros Hd Hn Hcap Ht [HI Hlen].
  destruct (need_enough c now s Hd) as (f & Hneed & Hfuel). fold d in Hfuel.
  destruct (swap_flush now s log f Hd HI Hfuel) as (s1 & Hr & HF & _).
  unfold write, write_f. rewrite Hneed.
  unfold bind in Hr. destruct (swap_bufs (S f) c now s) as [sa| |] eqn:Esw; try discriminate.
  unfold bind at 1. unfold bind at 1. rewrite Hr.
  eexists; eexists; split; [reflexivity|].
  pose proof HF as (K & F1 & F2 & F3 & F4 & F5 & F6 & F7 & F8 & F9 & F10 & F11 & F12 & F13).
  split; [split; [apply InvF_Inv; exact HF| rewrite F5; simpl; lia]|].
  split; [|reflexivity].
  unfold project, spec_write. simpl. f_equal; auto.
  unfold head_stream. rewrite (view_hd _ _ []) by lia. rewrite F11, expected_hd by exact Hn.
  unfold spec_window. fold n. rewrite (epoch_char now K); auto.
Qed.

Definition shaped (objs : list (f64 * f64)) (w : wout) : Prop := w_quantiles w = map (expose (w_window w)) objs.

Lemma run_from_spec objs : 0 < d -> (0 < n)%nat -> 0 < c_cap c ->
  forall ops now s log, t0 <= now -> Q now s log -> advances_nonneg ops ->
  exists outs, run_from c objs now s ops = Ok outs /\ map project outs = spec_from c t0 now log ops
               /\ Forall (shaped objs) outs.
Proof.
  intros Hd Hn Hcap. induction ops as [|o r IH]; intros now s log Ht HQ Hadv.
  - exists []. simpl. auto.
  - inversion Hadv as [|? ? Ho Hr]; subst. destruct o as [v|dt|].
    + destruct (observe_ok now s log v Hd Hcap HQ) as (s' & He & HQ').
      destruct (IH now s' _ Ht HQ' Hr) as (outs & H1 & H2 & H3).
      exists outs. simpl. rewrite He. simpl. auto.
    + destruct HQ as [HI Hl].
      destruct (IH (now + dt) s log) as (outs & H1 & H2 & H3); auto; try lia.
      { split; [eapply Inv_mono; [|exact HI]; lia|exact Hl]. }
      exists outs. simpl. auto.
    + destruct (write_ok objs now s log Hd Hn Hcap Ht HQ) as (s' & w & He & HQ' & Hp & Hs).
      destruct (IH now s' log Ht HQ' Hr) as (outs & H1 & H2 & H3).
      exists (w :: outs). simpl. rewrite He. simpl. rewrite H1. simpl. rewrite Hp, H2. auto.
Qed.

Lemma init_Q : 0 < d -> (0 < n)%nat -> 0 < c_cap c -> Q t0 (init_state c t0) [].
Proof.
  intros Hd Hn Hcap. split; [|simpl; lia].
  exists 1, [], []. unfold init_state. cbn [hot cold hot_exp head_exp streams head_idx cnt sum]. fold d n.
  repeat apply conj; auto; try lia.
  - apply repeat_length.
  - unfold view. simpl. rewrite app_nil_r. symmetry. apply expected_nil.
Qed.

End Cfg.

(* ================================================================== *)
(* theorems over whole histories *)

Theorem model_eq_spec_lemma : forall c objs t0 ops, valid_cfg c -> advances_nonneg ops ->
  exists outs, run c objs t0 ops = Ok outs /\ map project outs = spec_run c t0 ops
               /\ Forall (shaped objs) outs.
Proof.
  intros c objs t0 ops (Hd & Hn & Hcap) Hadv. unfold run, spec_run.
  apply run_from_spec; auto; try lia. apply init_Q; auto.
Qed.

(* a history that ends with a collection *)
Lemma spec_from_snoc c t0 : forall ops now log,
  spec_from c t0 now log (ops ++ [OWrite]) =
  spec_from c t0 now log ops ++ [spec_write c t0 (snd (log_from now log ops)) (fst (log_from now log ops))].
Proof.
  induction ops as [|o r IH]; intros now log; [reflexivity|].
  destruct o; simpl; rewrite IH; reflexivity.
Qed.

Lemma map_snoc_inv {A B} (f : A -> B) : forall l a x, map f l = a ++ [x] ->
  exists l' y, l = l' ++ [y] /\ map f l' = a /\ f y = x.
Proof.
  intros l. destruct l as [|z l0] using rev_ind; intros a x H.
  - destruct a; discriminate.
  - rewrite map_app in H. simpl in H. apply app_inj_tail in H. destruct H. eauto.
Qed.

Lemma last_write c objs t0 ops : valid_cfg c -> advances_nonneg ops ->
  exists outs w, run c objs t0 (ops ++ [OWrite]) = Ok (outs ++ [w])
    /\ project w = spec_write c t0 (obs_log t0 ops) (end_time t0 ops) /\ shaped objs w.
Proof.
  intros Hv Hadv.
  destruct (model_eq_spec_lemma c objs t0 (ops ++ [OWrite]) Hv) as (outs & Hr & Hp & Hs).
  { apply Forall_app; split; [exact Hadv|repeat constructor]. }
  unfold spec_run in Hp. rewrite spec_from_snoc in Hp.
  destruct (map_snoc_inv _ _ _ _ Hp) as (outs' & w & -> & _ & Hw).
  exists outs', w. split; [exact Hr|]. split; [exact Hw|].
  apply Forall_app in Hs. destruct Hs as [_ Hs]. inversion Hs; auto.
Qed.

(* values of the Observe calls of a history, in order *)
Definition obs_values (ops : list op) : list f64 :=
  flat_map (fun o => match o with OObserve v => [v] | _ => [] end) ops.

Lemma log_from_values : forall ops now log,
  map snd (snd (log_from now log ops)) = map snd log ++ obs_values ops.
Proof.
  induction ops as [|o r IH]; intros now log; simpl.
  - rewrite app_nil_r. reflexivity.
  - destruct o; simpl; rewrite IH; auto. rewrite map_app, <- app_assoc. reflexivity.
Qed.

Lemma obs_log_values t0 ops : map snd (obs_log t0 ops) = obs_values ops.
Proof. unfold obs_log. rewrite log_from_values. reflexivity. Qed.

Theorem summary_count_sum_exact_lemma : forall c objs t0 ops, valid_cfg c -> advances_nonneg ops ->
  exists outs w, run c objs t0 (ops ++ [OWrite]) = Ok (outs ++ [w])
    /\ w_count w = Z.of_nat (length (obs_values ops))
    /\ w_sum w = fold_left fadd (obs_values ops) pzero.
Proof.
  intros c objs t0 ops Hv Hadv.
  destruct (last_write c objs t0 ops Hv Hadv) as (outs & w & Hr & Hp & _).
  exists outs, w. split; [exact Hr|].
  unfold project, spec_write in Hp. injection Hp as Hc Hs _.
  rewrite <- (obs_log_values t0 ops). rewrite map_length. auto.
Qed.

Theorem window_contents_lemma : forall c objs t0 ops, valid_cfg c -> advances_nonneg ops ->
  exists outs w, run c objs t0 (ops ++ [OWrite]) = Ok (outs ++ [w])
    /\ w_window w = spec_window c t0 (obs_log t0 ops) (end_time t0 ops).
Proof.
  intros c objs t0 ops Hv Hadv.
  destruct (last_write c objs t0 ops Hv Hadv) as (outs & w & Hr & Hp & _).
  exists outs, w. split; [exact Hr|].
  unfold project, spec_write in Hp. injection Hp as _ _ Hw. exact Hw.
Qed.

(* observation times lie between creation and the current clock *)
Lemma log_from_times t0 : forall ops now log, advances_nonneg ops -> t0 <= now ->
  Forall (fun o => t0 <= fst o <= now) log ->
  Forall (fun o => t0 <= fst o <= fst (log_from now log ops)) (snd (log_from now log ops))
  /\ now <= fst (log_from now log ops).
Proof.
  induction ops as [|o r IH]; intros now log Hadv Ht Hl; simpl.
  - split; [exact Hl|lia].
  - inversion Hadv as [|? ? Ho Hr]; subst. destruct o as [v|dt|].
    + apply IH; auto. apply Forall_app; split; [exact Hl|]. constructor; [simpl; lia|constructor].
    + destruct (IH (now + dt) log Hr) as [H1 H2]; try lia.
      { eapply Forall_impl; [|exact Hl]. simpl. intros; lia. }
      split; [exact H1|lia].
    + apply IH; auto.
Qed.

(* the two bounds of the property text follow from the exact law *)
Lemma window_bounds_arith c t0 t o : 0 < c_d c -> (0 < c_n c)%nat -> t0 <= fst o <= t ->
  (younger c t o = true -> in_window c t0 (epoch c t0 t - Z.of_nat (c_n c)) o = true) /\
  (in_window c t0 (epoch c t0 t - Z.of_nat (c_n c)) o = true -> not_older c t o = true).
Proof.
  intros Hd Hn Ho. unfold younger, not_older, in_window, epoch.
  set (d := c_d c) in *. set (n := Z.of_nat (c_n c)). assert (Hn' : 1 <= n) by (unfold n; lia).
  pose proof (cdiv_bounds (t - t0) d Hd) as Hc.
  set (k := cdiv (t - t0) d) in *.
  split; intros H.
  - apply Z.ltb_lt in H. apply orb_true_iff.
    destruct (Z_le_gt_dec (Z.max 1 k - n) 0) as [Hl|Hl]; [left; apply Z.leb_le; exact Hl|].
    right. apply Z.ltb_lt. assert (Z.max 1 k = k) by lia. rewrite H0 in *. nia.
  - apply orb_true_iff in H. apply Z.leb_le. destruct H as [H|H].
    + apply Z.leb_le in H. assert (k <= n) by lia. assert (k * d <= n * d) by (apply Z.mul_le_mono_nonneg_r; lia). lia.
    + apply Z.ltb_lt in H. assert (k <= Z.max 1 k) by lia.
      assert (k * d <= Z.max 1 k * d) by (apply Z.mul_le_mono_nonneg_r; lia). nia.
Qed.

Theorem window_bounds_lemma : forall c objs t0 ops, valid_cfg c -> advances_nonneg ops ->
  exists outs w, run c objs t0 (ops ++ [OWrite]) = Ok (outs ++ [w]) /\
    (forall o, In o (obs_log t0 ops) -> younger c (end_time t0 ops) o = true -> In (snd o) (w_window w)) /\
    (forall v, In v (w_window w) -> exists o, In o (obs_log t0 ops) /\ snd o = v /\ not_older c (end_time t0 ops) o = true).
Proof.
  intros c objs t0 ops Hv Hadv.
  destruct (window_contents_lemma c objs t0 ops Hv Hadv) as (outs & w & Hr & Hw).
  exists outs, w. split; [exact Hr|]. rewrite Hw. destruct Hv as (Hd & Hn & _).
  destruct (log_from_times t0 ops t0 [] Hadv (Z.le_refl _) (Forall_nil _)) as [Ht _].
  fold (obs_log t0 ops) in Ht. fold (end_time t0 ops) in Ht. rewrite Forall_forall in Ht.
  unfold spec_window, sel. split.
  - intros o Hin Hy. apply in_map. apply filter_In. split; [exact Hin|].
    apply (window_bounds_arith c t0 (end_time t0 ops) o Hd Hn (Ht o Hin)). exact Hy.
  - intros v Hin. apply in_map_iff in Hin. destruct Hin as (o & Hs & Hin). apply filter_In in Hin.
    destruct Hin as [Hin Hf]. exists o. repeat split; auto.
    apply (window_bounds_arith c t0 (end_time t0 ops) o Hd Hn (Ht o Hin)). exact Hf.
Qed.

(* NaN iff the head stream is empty: holds for every successful run, by the shape of Write *)
Lemma run_from_shaped c objs : forall ops now s outs,
  run_from c objs now s ops = Ok outs -> Forall (shaped objs) outs.
Proof.
  induction ops as [|o r IH]; intros now s outs H; simpl in H.
  - injection H as <-. constructor.
  - destruct o as [v|dt|].
    + destruct (observe c now v s); simpl in H; try discriminate. eapply IH; eauto.
    + eapply IH; eauto.
    + unfold write, write_f in H.
      destruct (swap_bufs (need c now s) c now s) as [s1| |]; simpl in H; try discriminate.
      destruct (flush_cold (need c now s) c s1) as [s2| |]; simpl in H; try discriminate.
      destruct (run_from c objs now s2 r) as [ws| |] eqn:E; simpl in H; try discriminate.
      injection H as <-. constructor; [reflexivity|]. eapply IH; eauto.
Qed.

Theorem quantile_nan_iff_empty_lemma : forall c objs t0 ops outs, run c objs t0 ops = Ok outs ->
  Forall (fun w => map fst (w_quantiles w) = map fst objs /\
                   forall q v, In (q, v) (w_quantiles w) -> (v = QNaN <-> w_window w = [])) outs.
Proof.
  intros c objs t0 ops outs H. apply run_from_shaped in H.
  eapply Forall_impl; [|exact H]. intros w Hs. unfold shaped in Hs. rewrite Hs. split.
  - rewrite map_map. reflexivity.
  - intros q v Hin. apply in_map_iff in Hin. destruct Hin as (x & Hx & _).
    unfold expose in Hx. injection Hx as _ <-. destruct (w_window w); split; intros; try reflexivity; discriminate.
Qed.

(* ---- termination ---- *)
Theorem rotation_terminates_lemma :
  (forall d now exp, 0 < d -> exists fuel e, swap_loop fuel d now exp = Some e) /\
  (forall c objs t0 ops, valid_cfg c -> advances_nonneg ops ->
     run c objs t0 ops <> OutOfFuel /\ run c objs t0 ops <> Panic).
Proof.
  split.
  - intros d now exp Hd.
    destruct (swap_loop_spec (Z.to_nat (Z.max 0 (now - exp))) d now exp Hd) as (j & _ & H & _).
    { rewrite Z2Nat.id by lia. nia. }
    eauto.
  - intros c objs t0 ops Hv Ha. destruct (model_eq_spec_lemma c objs t0 ops Hv Ha) as (outs & -> & _).
    split; discriminate.
Qed.

(* ---- streamDuration = 0: the swapBufs loop never ends, whatever the fuel ---- *)
Definition zero_opts : opts :=
  mkOpts [] [] 0 [(of_bits 0x3FE0000000000000, of_bits 0x3FA999999999999A)] 1 5 0.

Theorem stream_duration_zero_refuted_lemma :
  exists o c objs s, 0 < o_max_age o /\ new_summary o 0 = NSummary c objs s /\ c_d c = 0 /\
    forall fuel v, observe_f fuel c 1 v s = OutOfFuel.
Proof.
  exists zero_opts, (mkCfg 0 5 500), (o_objectives zero_opts), (init_state (mkCfg 0 5 500) 0).
  split; [reflexivity|]. split; [vm_compute; reflexivity|].
  split; [reflexivity|]. intros fuel v. unfold observe_f, async_flush, swap_bufs, init_state.
  cbn [hot cold hot_exp head_exp streams head_idx cnt sum c_d c_n c_cap].
  replace (1 >? 0 + 0) with true by reflexivity. rewrite swap_loop_zero by lia. reflexivity.
Qed.

(* every positive stream duration is fine; zero happens exactly when MaxAge < AgeBuckets (ns) *)
Lemma swap_zero_general : forall c now s fuel, c_d c = 0 -> cold s = [] -> hot_exp s < now ->
  swap_bufs fuel c now s = OutOfFuel.
Proof.
  intros c now s fuel Hd Hc Hn. unfold swap_bufs. rewrite Hc, Hd, swap_loop_zero by lia. reflexivity.
Qed.

(* ---- construction ---- *)
Theorem quantile_label_refused_lemma : forall o t0, length (o_vars o) = o_nvalues o ->
  (In quantile_label (o_vars o) \/ In quantile_label (o_consts o) <-> new_summary o t0 = NPanicQuantileLabel).
Proof.
  intros o t0 Hc. unfold new_summary. rewrite Hc, Nat.eqb_refl. simpl.
  destruct (str_in quantile_label (o_vars o)) eqn:E1.
  - apply str_in_In in E1. tauto.
  - destruct (str_in quantile_label (o_consts o)) eqn:E2.
    + apply str_in_In in E2. tauto.
    + assert (~ In quantile_label (o_vars o)) by (intro X; apply str_in_In in X; congruence).
      assert (~ In quantile_label (o_consts o)) by (intro X; apply str_in_In in X; congruence).
      split; [tauto|]. destruct (o_max_age o <? 0); [discriminate|].
      destruct (o_objectives o); discriminate.
Qed.

Theorem vec_quantile_label_refused_lemma : forall vars,
  new_summary_vec_refuses vars = true <-> In quantile_label vars.
Proof. intros. apply str_in_In. Qed.

Theorem negative_maxage_panics_lemma : forall o t0, length (o_vars o) = o_nvalues o ->
  ~ In quantile_label (o_vars o) -> ~ In quantile_label (o_consts o) ->
  (o_max_age o < 0 <-> new_summary o t0 = NPanicMaxAge).
Proof.
  intros o t0 Hc H1 H2. unfold new_summary. rewrite Hc, Nat.eqb_refl. simpl.
  replace (str_in quantile_label (o_vars o)) with false
    by (symmetry; apply not_true_is_false; intro X; apply str_in_In in X; tauto).
  replace (str_in quantile_label (o_consts o)) with false
    by (symmetry; apply not_true_is_false; intro X; apply str_in_In in X; tauto).
  destruct (o_max_age o <? 0) eqn:E.
  - apply Z.ltb_lt in E. tauto.
  - apply Z.ltb_ge in E. split; [lia|]. destruct (o_objectives o); discriminate.
Qed.

(* an accepted construction starts from the initial state, its age buckets span at most MaxAge, and the
   stream duration is positive exactly when MaxAge >= AgeBuckets nanoseconds *)
Definition eff_max_age (o : opts) : Z := if o_max_age o =? 0 then def_max_age else o_max_age o.
Definition eff_buckets (o : opts) : Z := if o_age_buckets o =? 0 then def_age_buckets else o_age_buckets o.

Theorem new_summary_cfg_lemma : forall o t0 c objs s, 0 <= o_age_buckets o -> 0 <= o_buf_cap o ->
  new_summary o t0 = NSummary c objs s ->
  s = init_state c t0 /\ 0 <= c_d c /\ Z.of_nat (c_n c) * c_d c <= eff_max_age o /\
  (valid_cfg c <-> eff_buckets o <= eff_max_age o).
Proof.
  intros o t0 c objs s Hb Hcap H. unfold new_summary in H.
  destruct (negb _); [discriminate|]. destruct (str_in _ _); [discriminate|].
  destruct (str_in _ _); [discriminate|]. destruct (o_max_age o <? 0) eqn:Em; [discriminate|].
  apply Z.ltb_ge in Em. destruct (o_objectives o); [discriminate|]. injection H as <- _ <-.
  fold (eff_max_age o) (eff_buckets o).
  assert (Hn : 0 < eff_buckets o).
  { unfold eff_buckets, def_age_buckets. destruct (o_age_buckets o =? 0) eqn:E; [lia|]. apply Z.eqb_neq in E. lia. }
  assert (Hm : 0 < eff_max_age o).
  { unfold eff_max_age, def_max_age. destruct (o_max_age o =? 0) eqn:E; [lia|]. apply Z.eqb_neq in E. lia. }
  rewrite Z.quot_div_nonneg by lia.
  unfold valid_cfg, init_state. simpl. rewrite Z2Nat.id by lia.
  pose proof (Z.mul_div_le (eff_max_age o) (eff_buckets o) Hn).
  pose proof (Z.mul_succ_div_gt (eff_max_age o) (eff_buckets o) Hn).
  assert (0 <= eff_max_age o / eff_buckets o) by (apply Z.div_pos; lia).
  split; [reflexivity|]. split; [lia|]. split; [lia|].
  assert (Hc : 0 < (if o_buf_cap o =? 0 then def_buf_cap else o_buf_cap o)).
  { unfold def_buf_cap. destruct (o_buf_cap o =? 0) eqn:E; [lia|]. apply Z.eqb_neq in E. lia. }
  split.
  - intros (Hd & _ & _). nia.
  - intros Hle. split; [|split; [lia|exact Hc]].
    apply Z.div_str_pos. lia.
Qed.

(* sort.Float64s on non-NaN keys: increasing order, same entries *)
Lemma insert_obj_perm x l : Permutation (insert_obj x l) (x :: l).
Proof.
  induction l as [|y r IH]; simpl; [reflexivity|].
  destruct (flt (fst y) (fst x)); [|reflexivity].
  rewrite IH. apply perm_swap.
Qed.

Lemma sort_objs_perm l : Permutation (sort_objs l) l.
Proof.
  induction l as [|x r IH]; simpl; [constructor|]. rewrite insert_obj_perm. constructor; exact IH.
Qed.

Definition obj_le (a b : f64 * f64) : Prop := fle (fst a) (fst b) = true.

Lemma insert_obj_sorted x l : is_nan (fst x) = false -> Forall (fun y => is_nan (fst y) = false) l ->
  Sorted obj_le l -> Sorted obj_le (insert_obj x l).
Proof.
  intros Hx Hl Hs. induction l as [|y r IH]; simpl.
  - repeat constructor.
  - inversion Hl as [|? ? Hy Hr]; subst. inversion Hs as [|? ? Hs' Hhd]; subst.
    destruct (flt (fst y) (fst x)) eqn:E.
    + constructor; [apply IH; auto|].
      destruct r as [|z r']; simpl.
      * constructor. apply flt_fle; exact E.
      * destruct (flt (fst z) (fst x)); constructor.
        -- inversion Hhd; auto.
        -- apply flt_fle; exact E.
    + constructor; [exact Hs|]. constructor. unfold obj_le.
      destruct (fle_total (fst x) (fst y) Hx Hy) as [H|H]; [exact H|congruence].
Qed.

Theorem objectives_sorted_lemma : forall l, Forall (fun y => is_nan (fst y) = false) l ->
  Sorted obj_le (sort_objs l) /\ Permutation (sort_objs l) l.
Proof.
  intros l Hl. split; [|apply sort_objs_perm].
  induction Hl as [|x r Hx Hr IH]; simpl; [constructor|].
  apply insert_obj_sorted; auto.
  eapply Permutation_Forall; [|exact Hr]. symmetry. apply sort_objs_perm.
Qed.

(* ---- the rank checker accepts only members of the window ---- *)
Lemma count_lt_le x w : is_nan x = false -> count_lt x w < count_le x w -> exists y, In y w /\ feq y x = true.
Proof.
  intros Hx. unfold count_lt, count_le. induction w as [|y r IH]; simpl; [lia|].
  intros H. unfold flt, fle, feq in *. destruct (fcmp y x) as [[| |]|] eqn:E; simpl in H.
  - exists y. rewrite E. auto.
  - destruct IH as (z & Hz & Hf); [simpl in *; lia|]. exists z; auto.
  - destruct IH as (z & Hz & Hf); [simpl in *; lia|]. exists z; auto.
  - destruct IH as (z & Hz & Hf); [simpl in *; lia|]. exists z; auto.
Qed.

Theorem rank_check_member_lemma : forall w q eps x, is_nan x = false ->
  rank_check w q eps x = true -> exists y, In y w /\ feq y x = true.
Proof.
  intros w q eps x Hx H. unfold rank_check in H. destruct (scaled q eps) as [[[D Q] E]|]; [|discriminate].
  unfold rank_ok_counts in H. apply andb_true_iff in H. destruct H as [H _]. apply Z.ltb_lt in H.
  apply count_lt_le; auto.
Qed.

(* ---- lock order: a two-lock abstraction of Observe / asyncFlush's goroutine / Write ----
   thread states: 0 idle; Observe: 1 wants bufMtx, 2 holds bufMtx, 3 holds bufMtx wants mtx,
   (after the hand-over the goroutine is a separate thread) ; flusher goroutine: 4 holds mtx;
   Write: 5 wants bufMtx, 6 holds bufMtx wants mtx, 7 holds both, 8 holds mtx only.
   A thread is blocked only in states 1,5 (bufMtx taken) or 3,6 (mtx taken). *)
Inductive tstate := TIdle | OWantBuf | OHasBuf | OWantMtx | FHasMtx | WWantBuf | WWantMtx | WBoth | WMtx.

Definition holds_buf (t : tstate) : bool :=
  match t with OHasBuf | OWantMtx | WWantMtx | WBoth => true | _ => false end.
Definition holds_mtx (t : tstate) : bool :=
  match t with FHasMtx | WBoth | WMtx => true | _ => false end.
Definition wants_buf (t : tstate) : bool := match t with OWantBuf | WWantBuf => true | _ => false end.
Definition wants_mtx (t : tstate) : bool := match t with OWantMtx | WWantMtx => true | _ => false end.

Definition buf_free (ts : list tstate) : bool := negb (existsb holds_buf ts).
Definition mtx_free (ts : list tstate) : bool := negb (existsb holds_mtx ts).

(* a thread can take a step unless it waits for a lock that is held *)
Definition enabled (ts : list tstate) (t : tstate) : bool :=
  match t with
  | TIdle => false
  | OWantBuf | WWantBuf => buf_free ts
  | OWantMtx | WWantMtx => mtx_free ts
  | _ => true
  end.

Theorem summary_no_deadlock_lemma : forall ts,
  existsb (fun t => negb (match t with TIdle => true | _ => false end)) ts = true ->
  existsb (enabled ts) ts = true.
Proof.
  intros ts H. apply existsb_exists in H. destruct H as (t & Hin & Ht).
  apply existsb_exists.
  destruct (existsb holds_mtx ts) eqn:Em.
  - (* the holder of mtx never waits *)
    apply existsb_exists in Em. destruct Em as (u & Hu & Hm). exists u. split; [exact Hu|].
    destruct u; simpl in Hm; try discriminate; reflexivity.
  - (* mtx is free: anybody wanting mtx can go; a holder of bufMtx is enabled; otherwise bufMtx is free *)
    destruct (existsb holds_buf ts) eqn:Eb.
    + apply existsb_exists in Eb. destruct Eb as (u & Hu & Hb). exists u. split; [exact Hu|].
      destruct u; simpl in Hb; try discriminate; simpl; unfold mtx_free; rewrite ?Em; reflexivity.
    + exists t. split; [exact Hin|].
      assert (Hnb : holds_buf t = false).
      { destruct (holds_buf t) eqn:X; [|reflexivity].
        assert (existsb holds_buf ts = true) by (apply existsb_exists; eauto). congruence. }
      assert (Hnm : holds_mtx t = false).
      { destruct (holds_mtx t) eqn:X; [|reflexivity].
        assert (existsb holds_mtx ts = true) by (apply existsb_exists; eauto). congruence. }
      destruct t; simpl in *; try discriminate; unfold buf_free, mtx_free; rewrite ?Eb, ?Em; reflexivity.
Qed.

(* ---- the hypotheses are satisfiable: a concrete history (d = 10ns, 3 buckets, BufCap 2) ---- *)
Definition ex_cfg : cfg := mkCfg 10 3 2.
Definition ex_ops : list op :=
  [OObserve (of_Z 1); OAdvance 5; OObserve (of_Z 2); OObserve (of_Z 3); OWrite;
   OAdvance 20; OObserve (of_Z 4); OWrite; OAdvance 10; OWrite; OAdvance 100; OWrite].

Lemma example_hyps : valid_cfg ex_cfg /\ advances_nonneg ex_ops.
Proof. split; [unfold valid_cfg, ex_cfg; simpl; lia|]. repeat constructor; simpl; lia. Qed.

(* counts 3,4,4,4; windows: all three; all four (ceil(25/10) = 3 <= n); only the one made after
   t = 10 (ceil(35/10) - 3 = 1); nothing after several MaxAge *)
Lemma example_run :
  match run ex_cfg [] 0 ex_ops with
  | Ok outs => map (fun w => (w_count w, map to_bits (w_window w))) outs
  | _ => []
  end = [(3, map to_bits [of_Z 1; of_Z 2; of_Z 3]); (4, map to_bits [of_Z 1; of_Z 2; of_Z 3; of_Z 4]);
         (4, map to_bits [of_Z 4]); (4, [])].
Proof. vm_compute. reflexivity. Qed.
