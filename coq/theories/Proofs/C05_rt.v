(* Proofs/C05_rt.v -- C05, concurrency: the REAL-TIME SANDWICH over all schedules (lmachine, MinResetDuration = 0: the reset code is never entered, C05_conc.NoR).
   Every completed Write w counted a multiset E of observed values with MUST(w) <= E <= MAY(w) (as multisets of values):
   MUST = Done hist (c_inv w): values of the Observe calls that had returned when w was invoked;
   MAY  = Ub c (c_res w): values of the Observe calls (finished or still running) invoked before w returned.
   Invariants: InvT (logical times of calls), InvX (the two count cells hold exactly the values of the calls that have
   done their count increment), InvW (a Write between its flip and the end of its reads: Done <= the cold counter; after
   the reads and in the history: the sandwich for the list E its exposition describes).  Uses Inv (Proofs/C05_conc.v). *)
From Coq Require Import ZArith List Bool Lia Permutation.
From Verif Require Import Base.F64 Base.Conc Model.ClassicHist Model.NativeHist Model.NativeConc
     Proofs.C02_proofs Proofs.C05_conc_inv Proofs.C05_hom Proofs.C05_conc Proofs.C05_cont.
Import ListNotations.
Open Scope Z_scope.

(* ---- sub-multisets ---- *)
Definition sub (A B : list f64) : Prop := exists extra, Permutation (A ++ extra) B.
Lemma sub_refl A : sub A A. Proof. exists []. rewrite app_nil_r. reflexivity. Qed.
Lemma sub_perm A A' B B' : Permutation A A' -> Permutation B B' -> sub A B -> sub A' B'.
Proof. intros PA PB [e P]. exists e. rewrite <- PA, <- PB. exact P. Qed.
Lemma sub_trans A B C : sub A B -> sub B C -> sub A C.
Proof. intros [e1 P1] [e2 P2]. exists (e1 ++ e2). rewrite app_assoc, P1. exact P2. Qed.
Lemma sub_app_r A B X : sub A B -> sub A (B ++ X).
Proof. intros [e P]. exists (e ++ X). rewrite app_assoc, P. reflexivity. Qed.
Lemma sub_app_l A B X : sub A B -> sub A (X ++ B).
Proof. intros S. apply (sub_perm A A (B ++ X) (X ++ B)); [reflexivity|apply Permutation_app_comm|apply sub_app_r; exact S]. Qed.
Lemma sub_self_app A X : sub A (A ++ X). Proof. exists X. reflexivity. Qed.

(* ---- calls, times ---- *)
Definition opv (o : nop) : list f64 := match o with NObserve v => [v] | _ => [] end.
Definition kv (k : call LM) : list f64 := opv (c_op k).
Definition HV (hs : list (call LM)) : list f64 := flat_map kv hs.
Definition HVb (hs : list (call LM)) (tau : Z) : list f64 := flat_map (fun k => if c_inv k <? tau then kv k else []) hs.
Definition Done (hs : list (call LM)) (tau : Z) : list f64 := flat_map (fun k => if c_res k <=? tau then kv k else []) hs.
Definition cvb (tau : Z) (t : thread LM) : list f64 :=
  match t_cur t with Some (o, _, inv) => if inv <? tau then opv o else [] | None => [] end.
Definition CVb (T : list (thread LM)) (tau : Z) : list f64 := concat (map (cvb tau) T).
(* the values of the Observe calls invoked before time tau: finished ones and those still running *)
Definition Ub (c : Conc.config LM) (tau : Z) : list f64 := HVb (Conc.hist c) tau ++ CVb (thr c) tau.

Lemma HV_app a b : HV (a ++ b) = HV a ++ HV b. Proof. apply flat_map_app. Qed.
Lemma HVb_app a b tau : HVb (a ++ b) tau = HVb a tau ++ HVb b tau. Proof. apply flat_map_app. Qed.
Lemma Done_app a b tau : Done (a ++ b) tau = Done a tau ++ Done b tau. Proof. apply flat_map_app. Qed.
Lemma Done_sub_HV hs tau : sub (Done hs tau) (HV hs).
Proof.
  induction hs as [|k hs [e IH]]; [apply sub_refl|]. unfold Done, HV in *. cbn [flat_map].
  destruct (c_res k <=? tau).
  - exists e. rewrite <- app_assoc, IH. reflexivity.
  - exists (kv k ++ e). cbn [app]. rewrite <- IH. perm.
Qed.
Lemma HVb_mono hs t1 t2 : t1 <= t2 -> sub (HVb hs t1) (HVb hs t2).
Proof.
  intros L. induction hs as [|k hs [e IH]]; [apply sub_refl|]. unfold HVb in *. cbn [flat_map].
  destruct (Z.ltb_spec (c_inv k) t1); destruct (Z.ltb_spec (c_inv k) t2); try lia.
  - exists e. rewrite <- app_assoc, IH. reflexivity.
  - exists (kv k ++ e). cbn [app]. rewrite <- IH. perm.
  - exists e. exact IH.
Qed.
Lemma CVb_mono T t1 t2 : t1 <= t2 -> sub (CVb T t1) (CVb T t2).
Proof.
  intros L. induction T as [|t T [e IH]]; [apply sub_refl|]. unfold CVb in *. cbn [map concat].
  assert (S : sub (cvb t1 t) (cvb t2 t)).
  { unfold cvb. destruct (t_cur t) as [[[o pc] inv]|]; [|apply sub_refl].
    destruct (Z.ltb_spec inv t1); destruct (Z.ltb_spec inv t2); try lia; try apply sub_refl. exists (opv o). reflexivity. }
  destruct S as [e1 P1]. exists (e1 ++ e). rewrite <- P1, <- IH. perm.
Qed.
Lemma Ub_mono c t1 t2 : t1 <= t2 -> sub (Ub c t1) (Ub c t2).
Proof.
  intros L. destruct (HVb_mono (Conc.hist c) t1 t2 L) as [e1 P1]. destruct (CVb_mono (thr c) t1 t2 L) as [e2 P2].
  exists (e1 ++ e2). unfold Ub. rewrite <- P1, <- P2. perm.
Qed.

Lemma sched_step_L2 c tid c' : sched_step LM c tid = Some c' ->
  exists t o pc inv h' nxt, nth_error (thr c) (Z.to_nat tid) = Some t /\ t_cur t = Some (o, pc, inv) /\
    lstep (sh c) pc = Some (h', nxt) /\ sh c' = h' /\ now c' = now c + 1 /\
    thr c' = set_nth (thr c) (Z.to_nat tid)
               (match nxt with inl l' => mkThread LM (t_todo t) (Some (o, l', inv)) (t_idx t)
                             | inr _ => next_thread (t_todo t) (t_idx t + 1) (now c + 1) end) /\
    Conc.hist c' = Conc.hist c ++ match nxt with inl _ => [] | inr r => [@mkCall LM tid (t_idx t) o r inv (now c + 1)] end.
Proof.
  unfold sched_step. intros H.
  destruct (nth_error (thr c) (Z.to_nat tid)) as [t|] eqn:Ht; [|discriminate].
  destruct (t_cur t) as [[[o l] inv]|] eqn:Hc; [|discriminate].
  change (Conc.step LM (sh c) l) with (lstep (sh c) l) in H.
  destruct (lstep (sh c) l) as [[s' nxt]|] eqn:Hs; [|discriminate].
  exists t, o, l, inv, s', nxt. destruct nxt as [l'|r].
  - injection H as <-. cbn. rewrite app_nil_r. repeat split; auto.
  - rewrite advance_L in H. injection H as <-. cbn. repeat split; auto.
Qed.

(* times: a running call was invoked no later than now, strictly earlier once it has taken a step *)
Definition is_start (o : nop) (pc : npcL) : bool :=
  match o, pc with NObserve _, oTicket _ _ => true | NWrite, wLock _ => true | NFire, fCheck _ => true | NAdvance _, cAdv _ _ => true | _, _ => false end.
Definition InvT (c : Conc.config LM) : Prop :=
  (forall t o pc inv, In t (thr c) -> t_cur t = Some (o, pc, inv) -> inv <= now c /\ (is_start o pc = false -> inv < now c)) /\
  (forall k, In k (Conc.hist c) -> c_inv k < c_res k <= now c) /\
  (forall t o pc inv, In t (thr c) -> t_cur t = Some (o, pc, inv) -> pvpc pc = [] \/ pvpc pc = opv o).

Lemma next_thread_cur todo idx time o pc inv : t_cur (next_thread todo idx time) = Some (o, pc, inv) ->
  inv = time /\ pc = start_pc o /\ is_start o pc = true.
Proof. destruct todo as [|[v| | |d] rest]; cbn; intros E; inversion E; subst; repeat split; reflexivity. Qed.

Definition startpc (p : npcL) : bool := match p with oTicket _ _ | wLock _ | fCheck _ | cAdv _ _ => true | _ => false end.
Lemma sp_r rk ph x neg ks : startpc (r_next VC rk ph x neg ks) = false. Proof. destruct ks, neg, ph, rk; reflexivity. Qed.
Lemma sp_e ph c neg ks : startpc (e_next VC ph c neg ks) = false. Proof. destruct ks, neg, ph; reflexivity. Qed.
Lemma sp_m k c neg r ks : startpc (m_next VC k c neg r ks) = false. Proof. destruct ks, neg, k; reflexivity. Qed.
Lemma sp_ma k c neg r kk ks : startpc (m_added VC k c neg r kk ks) = false. Proof. destruct k; cbn [m_added]; try reflexivity; apply sp_m. Qed.
Lemma sp_w c neg o ks : startpc (w_next VC c neg o ks) = false. Proof. destruct ks, neg; reflexivity. Qed.
Lemma sp_ac k c count : startpc (after_cool VC k c count) = false. Proof. destruct k; reflexivity. Qed.
Lemma sp_aa k c r : startpc (after_addreset VC k c r) = false. Proof. destruct k; reflexivity. Qed.
Lemma step_target h pc h' p : lstep h pc = Some (h', inl p) -> startpc p = false.
Proof.
  intros Hs. destruct pc; stepin Hs;
    repeat match goal with
           | H : context [if ?c then _ else _] |- _ => destruct c
           | H : context [match ?x with _ => _ end] |- _ =>
               lazymatch type of x with list _ => destruct x | option _ => destruct x | mctx => destruct x | ephase => destruct x | rctx => destruct x | rphase => destruct x end
           end; try discriminate; inversion Hs; subst; clear Hs;
    rewrite ?sp_e, ?sp_m, ?sp_ma, ?sp_w, ?sp_ac, ?sp_aa, ?sp_r; try reflexivity; unfold r_after;
    repeat match goal with |- context [if ?b then _ else _] => destruct b | |- context [match ?x with _ => _ end] => destruct x end; reflexivity.
Qed.
Lemma is_start_startpc o p : startpc p = false -> is_start o p = false.
Proof. destruct o, p; try reflexivity; discriminate. Qed.

Lemma InvT_step c tid c' : NoR c -> InvT c -> sched_step LM c tid = Some c' -> InvT c'.
Proof.
  intros [_ NT] (T1 & T2 & T3) St. destruct (sched_step_L2 c tid c' St) as (t & o & pc & inv & h' & nxt & Hi & Hc & Hs & Esh & En & Et & Eh).
  pose proof (nth_error_In _ _ Hi) as Hin. destruct (T1 t o pc inv Hin Hc) as [A B]. pose proof (cnt_step _ _ _ _ Hs (NT t o pc inv Hin Hc)) as CE.
  split; [|split].
  - intros t2 o2 pc2 inv2 Hin2 Hc2. rewrite Et in Hin2. apply In_nth_error in Hin2. destruct Hin2 as [j Hj]. rewrite En.
    destruct (nth_error_set_nth_inv _ _ _ _ _ Hj) as [[-> ->]|[Nj Hj']].
    + destruct nxt as [p|r].
      * cbn [t_cur] in Hc2. inversion Hc2. subst. split; [lia|intros _; lia].
      * destruct (next_thread_cur _ _ _ _ _ _ Hc2) as (-> & _ & Es). split; [lia|intros E; congruence].
    + destruct (T1 t2 o2 pc2 inv2 (nth_error_In _ _ Hj') Hc2). split; [lia|intros _; lia].
  - intros k Hk. rewrite Eh in Hk. rewrite En. apply in_app_or in Hk. destruct Hk as [Hk|Hk]; [specialize (T2 k Hk); lia|].
    destruct nxt as [p|r]; [destruct Hk|]. destruct Hk as [<-|[]]. cbn [c_inv c_res]. lia.
  - intros t2 o2 pc2 inv2 Hin2 Hc2. rewrite Et in Hin2. apply In_nth_error in Hin2. destruct Hin2 as [j Hj].
    destruct (nth_error_set_nth_inv _ _ _ _ _ Hj) as [[-> ->]|[Nj Hj']]; [|apply (T3 t2 o2 pc2 inv2 (nth_error_In _ _ Hj') Hc2)].
    destruct nxt as [p|r].
    + cbn [t_cur] in Hc2. inversion Hc2. subst o2 pc2 inv2. clear Hc2. specialize (T3 t o pc inv Hin Hc).
      destruct pc; cbn [cnt_eff] in CE; try (destruct CE as [_ [CE _]]; rewrite CE; exact T3).
      * destruct CE as (_ & _ & CE). left. exact CE.
      * destruct CE as (_ & _ & kk & rr & E). inversion E. left. reflexivity.
      * left. clear - Hs. stepin Hs. inversion Hs. reflexivity.
    + destruct (next_thread_cur _ _ _ _ _ _ Hc2) as (_ & -> & _). destruct o2; [right|left|left|left]; reflexivity.
Qed.

Lemma cvb_next tau todo idx time : tau <= time -> cvb tau (next_thread todo idx time) = [].
Proof. intros L. destruct todo as [|[v| | |d] rest]; unfold cvb; cbn [next_thread t_cur]; try reflexivity; destruct (Z.ltb_spec time tau); try lia; reflexivity. Qed.
Lemma Ub_step c tid c' tau : tau <= now c -> sched_step LM c tid = Some c' -> Permutation (Ub c' tau) (Ub c tau).
Proof.
  intros L St. destruct (sched_step_L2 c tid c' St) as (t & o & pc & inv & h' & nxt & Hi & Hc & Hs & Esh & En & Et & Eh).
  unfold Ub. rewrite Eh, Et, HVb_app.
  pose proof (concat_set_nth (cvb tau) (thr c) (Z.to_nat tid) t
               (match nxt with inl l' => mkThread LM (t_todo t) (Some (o, l', inv)) (t_idx t) | inr _ => next_thread (t_todo t) (t_idx t + 1) (now c + 1) end) Hi) as P.
  fold (CVb (thr c) tau) in P. unfold CVb at 1.
  assert (Et0 : cvb tau t = if inv <? tau then opv o else []) by (unfold cvb; rewrite Hc; reflexivity).
  destruct nxt as [p|r].
  - cbn [HVb flat_map]. rewrite app_nil_r. apply Permutation_app_head.
    assert (E : cvb tau (mkThread LM (t_todo t) (Some (o, p, inv)) (t_idx t)) = cvb tau t) by (rewrite Et0; reflexivity).
    rewrite E in P. exact (Permutation_app_inv_l _ _ _ P).
  - rewrite (cvb_next tau _ _ (now c + 1)) in P by lia. cbn [app] in P. unfold HVb at 2. cbn [flat_map c_inv]. rewrite app_nil_r.
    change (kv (@mkCall LM tid (t_idx t) o r inv (now c + 1))) with (opv o). rewrite <- Et0. rewrite <- app_assoc. apply Permutation_app_head. exact P.
Qed.

(* ---- the counters hold exactly the values of the Observe calls that have done their count increment ---- *)
Definition pcv (t : thread LM) : list f64 :=
  match t_cur t with Some (o, pc, _) => match pvpc pc with [] => opv o | _ => [] end | None => [] end.
Definition PCV (T : list (thread LM)) : list f64 := concat (map pcv T).
Definition InvX (c : Conc.config LM) : Prop :=
  Permutation (cntv (gs (sh c) false) ++ cntv (gs (sh c) true)) (HV (Conc.hist c) ++ PCV (thr c) ++ DUP (sh c) (thr c)).
Lemma pcv_next todo idx time : pcv (next_thread todo idx time) = [].
Proof. destruct todo as [|[v| | |d] rest]; reflexivity. Qed.

Lemma PCV_set T i t t' : nth_error T i = Some t -> Permutation (pcv t ++ PCV (set_nth T i t')) (pcv t' ++ PCV T).
Proof. intros H. apply (concat_set_nth pcv T i t t' H). Qed.

Lemma InvX_step c tid c' : NoR c -> Inv c -> InvT c -> InvX c -> sched_step LM c tid = Some c' -> InvX c'.
Proof.
  intros [_ NT] IV (_ & _ & T3) V St. destruct (sched_step_L2 c tid c' St) as (t & o & pc & inv & h' & nxt & Hi & Hc & Hs & Esh & En & Et & Eh).
  pose proof (tpc_cur t o pc inv Hc) as Ht. pose proof (cnt_step _ _ _ _ Hs (NT t o pc inv (nth_error_In _ _ Hi) Hc)) as CE.
  specialize (T3 t o pc inv (nth_error_In _ _ Hi) Hc).
  unfold InvX in *. rewrite Esh, Et, Eh, HV_app.
  set (t' := match nxt with inl l' => mkThread LM (t_todo t) (Some (o, l', inv)) (t_idx t) | inr _ => next_thread (t_todo t) (t_idx t + 1) (now c + 1) end) in *.
  pose proof (PCV_set (thr c) (Z.to_nat tid) t t' Hi) as PS.
  assert (Pt : pcv t = match pvpc pc with [] => opv o | _ => [] end) by (unfold pcv; rewrite Hc; reflexivity).
  assert (Pt' : pcv t' = match nxt with inl p9 => match pvpc p9 with [] => opv o | _ => [] end | inr _ => [] end).
  { unfold t'. destruct nxt as [p9|r9]; [reflexivity|apply pcv_next]. }
  assert (Hk : HV (match nxt with inl _ => [] | inr r9 => [@mkCall LM tid (t_idx t) o r9 inv (now c + 1)] end) = match nxt with inl _ => [] | inr _ => opv o end).
  { destruct nxt as [p9|r9]; [reflexivity|]. unfold HV. cbn [flat_map]. rewrite app_nil_r. reflexivity. }
  rewrite Hk. clear Hk.
  assert (Dt' : forall hh, dupx hh (tpc t') = match nxt with inl p9 => dupx hh (Some p9) | inr _ => [] end).
  { intros hh. unfold t'. destruct nxt as [p9|r9]; [reflexivity|]. destruct (t_todo t) as [|[v| | |d] rest]; reflexivity. }
  pose proof (DUP_set h' (thr c) (Z.to_nat tid) t t' Hi) as DS. rewrite Ht, Dt' in DS.
  set (T := thr c) in *. set (h := sh c) in *. set (i := Z.to_nat tid) in *. set (hs := Conc.hist c) in *.
  (* the part of HV/PCV that moves: new history values ++ pcv t' = pcv t (++ the value counted by this step) *)
  destruct pc; cbn [cnt_eff] in CE;
  try (destruct CE as [CS CN];
       assert (MV : Permutation (match nxt with inl _ => [] | inr _ => opv o end ++ pcv t') (pcv t)) by
         (rewrite Pt, Pt'; destruct nxt as [p9|r9]; [destruct CN as [CN _]; rewrite CN; reflexivity|rewrite CN; rewrite app_nil_r; reflexivity]);
       assert (DUe : Permutation (DUP h' (set_nth T i t')) (DUP h T)) by
         (replace (match nxt with inl p9 => dupx h' (Some p9) | inr _ => [] end) with (@nil f64) in DS
            by (destruct nxt as [p9|r9]; [symmetry; apply CN|reflexivity]);
          cbn [dupx app] in DS; rewrite DS; rewrite (DUP_ext h h' T); [reflexivity|];
          intros tj _; destruct (tpc tj) as [[]|]; cbn [dupx]; try reflexivity; apply CS);
       assert (Q : Permutation (match nxt with inl _ => [] | inr _ => opv o end ++ PCV (set_nth T i t')) (PCV T)) by
         (apply (Permutation_app_inv_l (pcv t'));
          transitivity ((match nxt with inl _ => [] | inr _ => opv o end ++ pcv t') ++ PCV (set_nth T i t')); [perm|rewrite MV; exact PS]);
       rewrite !CS, DUe, V, <- Q; perm).
  - (* oCount *) destruct CE as (C1 & C2 & CN).
    assert (Eo : opv o = [v]) by (destruct T3 as [E|E]; [discriminate E|symmetry; exact E]).
    assert (MV : Permutation (match nxt with inl _ => [] | inr _ => opv o end ++ pcv t') [v]).
    { rewrite Pt'. destruct nxt as [p9|r9]; [rewrite CN, Eo; reflexivity|rewrite Eo; reflexivity]. }
    assert (Q : Permutation (match nxt with inl _ => [] | inr _ => opv o end ++ PCV (set_nth T i t')) ([v] ++ PCV T)).
    { rewrite Pt in PS. cbn [pvpc app] in PS. rewrite PS, app_assoc, MV. reflexivity. }
    assert (DUe : Permutation (DUP h' (set_nth T i t')) (DUP h T)).
    { replace (match nxt with inl p9 => dupx h' (Some p9) | inr _ => [] end) with (@nil f64) in DS.
      2:{ clear - Hs. stepin Hs. inversion Hs. destruct (is_nan v || _); reflexivity. }
      cbn [dupx app] in DS. rewrite DS. rewrite (DUP_ext h h' T); [reflexivity|].
      intros tj Hin. destruct (tpc tj) as [pcj|] eqn:Ej; [|reflexivity]. destruct pcj; try reflexivity. cbn [dupx].
      apply In_nth_error in Hin. destruct Hin as [j Hj]. unfold tpc in Ej. destruct (t_cur tj) as [[[oj pcj] invj]|] eqn:Ecj; [|discriminate]. inversion Ej. subst pcj.
      pose proof (i_hold c IV j tj oj _ invj Hj Ecj eq_refl) as P. cbn [Phi] in P. destruct P as ((_ & F0 & _) & _).
      pose proof (F_ge b T i t Hi) as G. rewrite Ht in G. cbn [fcnt inflight] in G. rewrite Bool.eqb_reflx in G.
      assert (c0 = negb b) by (destruct c0, b; cbn in *; try reflexivity; fold T in F0; lia). subst c0. exact C2. }
    rewrite DUe. transitivity (HV hs ++ (match nxt with inl _ => [] | inr _ => opv o end ++ PCV (set_nth T i t')) ++ DUP h T); [|perm].
    rewrite Q. destruct b; cbn [negb] in *; rewrite C1, C2.
    + transitivity ((cntv (gs h false) ++ cntv (gs h true)) ++ [v]); [perm|]. rewrite V. perm.
    + transitivity ((cntv (gs h false) ++ cntv (gs h true)) ++ [v]); [perm|]. rewrite V. perm.
  - (* aAddCnt *) destruct CE as (C1 & C2 & kk & rr & ->).
    pose proof (i_hold c IV i t o _ inv Hi Hc eq_refl) as P. cbn [Phi] in P. destruct P as (_ & _ & Ex). fold h in Ex.
    assert (Hh : hcnt (tpc t) = 1) by (rewrite Ht; reflexivity).
    assert (Q : Permutation (PCV (set_nth T i t')) (PCV T)).
    { rewrite Pt, Pt' in PS. cbn [pvpc] in PS. apply (Permutation_app_inv_l _ _ _ PS). }
    pose proof (DUP_holder c i t IV Hi Hh h' t') as D1. rewrite Dt' in D1. cbn [dupx] in D1.
    pose proof (DUP_nil c i t IV Hi Hh h) as D0. rewrite Ht in D0. cbn [dupx] in D0. apply Permutation_sym, Permutation_nil in D0.
    fold T in D0, D1. fold h in D0. rewrite D0, app_nil_r in V. cbn [app]. rewrite app_nil_r. rewrite D1, Q, C2, <- Ex.
    destruct c0; cbn [negb] in *; rewrite C1, ?C2.
    + transitivity ((cntv (gs h false) ++ cntv (gs h true)) ++ x); [perm|]. rewrite V. perm.
    + transitivity ((cntv (gs h false) ++ cntv (gs h true)) ++ x); [perm|]. rewrite V. perm.
  - (* aStoreCnt *) destruct CE as (C1 & C2 & CN).
    assert (Hh : hcnt (tpc t) = 1) by (rewrite Ht; reflexivity).
    assert (En' : exists p9, nxt = inl p9 /\ pvpc p9 = []) by (clear - Hs; stepin Hs; inversion Hs; eexists; split; reflexivity).
    destruct En' as (p9 & -> & Ep).
    assert (Q : Permutation (PCV (set_nth T i t')) (PCV T)).
    { rewrite Pt, Pt', Ep in PS. cbn [pvpc] in PS. apply (Permutation_app_inv_l _ _ _ PS). }
    pose proof (DUP_holder c i t IV Hi Hh h' t') as D1. rewrite Dt', CN in D1.
    pose proof (DUP_nil c i t IV Hi Hh h) as D0. rewrite Ht in D0. cbn [dupx] in D0.
    fold T in D0, D1. fold h in D0. rewrite D0 in V. cbn [app]. rewrite app_nil_r, D1, Q, app_nil_r.
    apply (Permutation_app_inv_r (cntv (gs h c0))). transitivity (HV hs ++ PCV T ++ cntv (gs h c0)); [|perm]. rewrite <- V.
    destruct c0; cbn [negb] in *; rewrite C1, C2; perm.
Qed.


(* ---- what is claimed about a Write in progress / completed ---- *)
Definition goodE (o : noutL) (E : list f64) : Prop :=
  zl E = no_count VC o /\ Permutation (no_zc VC o ++ allc (no_pos VC o) ++ allc (no_neg VC o)) (nn E).
Definition sand (c : Conc.config LM) (inv : Z) (o : noutL) : Prop :=
  exists E tau0, tau0 <= now c /\ goodE o E /\ sub (Done (Conc.hist c) inv) E /\ sub E (Ub c tau0).
Definition w1c (pc : npcL) : option bool :=
  match pc with
  | xCool _ KW c _ | xSpin _ KW c _ | wLoadSum _ c _ | wLoadZt _ c _ _ | wLoadSch _ c _ _ _ | wLoadZb _ c _ _ _ _
  | wRange _ c _ _ | wKeyLoad _ c _ _ _ _ | wCellLoad _ c _ _ _ _ => Some c
  | _ => None
  end.
Definition retof (pc : npcL) : option nretL :=
  match pc with
  | aLoadCnt _ _ _ r | aAddCnt _ _ _ r _ | aStoreCnt _ _ _ r | aLoadSum _ _ _ r | aSumLoad _ _ _ r _ | aSumCas _ _ _ r _ _
  | aStoreSum _ _ _ r | aLoadZb _ _ _ r | aAddZb _ _ _ r _ | aStoreZb _ _ _ r
  | mRange _ _ _ _ r | mLoad _ _ _ _ r _ _ | mAddZb _ _ _ _ r _ _ _ | mDel _ _ _ _ r _ _ | mDec _ _ _ _ r _ _
  | bLoad _ _ _ _ r _ _ _ | bLos _ _ _ _ r _ _ _ | bAdd _ _ _ _ r _ _ _ | bBn _ _ _ _ r _ _ | mStore _ _ _ _ r _ _ | xUnlock _ r => Some r
  | _ => None
  end.
Definition wcl (c : Conc.config LM) (pc : npcL) (inv : Z) : Prop :=
  (forall cc, w1c pc = Some cc -> sub (Done (Conc.hist c) inv) (cntv (gs (sh c) cc))) /\
  (forall out, retof pc = Some (NOut VC out) -> sand c inv out).
Definition InvW (c : Conc.config LM) : Prop :=
  (forall t o pc inv, In t (thr c) -> t_cur t = Some (o, pc, inv) -> wcl c pc inv) /\
  (forall w out, In w (Conc.hist c) -> c_ret w = NOut VC out ->
     exists E, goodE out E /\ sub (Done (Conc.hist c) (c_inv w)) E /\ sub E (Ub c (c_res w))).

(* how a step moves between the claim classes *)
Definition rdend (pc : npcL) : bool :=
  match pc with wRange _ _ false _ | wCellLoad _ _ false _ _ [] => true | _ => false end.
Lemma trans_w1 h pc h' p cc : is_rpc pc = false -> lstep h pc = Some (h', inl p) -> w1c p = Some cc ->
  (w1c pc = Some cc /\ h' = h) \/
  (((pc = wFlip VC /\ cc = nh_hot VC h) \/ pc = xFlip VC KW cc) /\ forall X, gs h' X = gs h X).
Proof.
  intros Hr Hs. destruct pc; try discriminate Hr; clear Hr; stepin Hs; destr_in Hs; try discriminate Hs; inversion Hs; subst; clear Hs;
    unfold m_next, m_added, e_next, w_next, after_cool, after_addreset; destr_goal; cbn [w1c]; intros E; try discriminate E;
    try (unfold m_next in E; destr_in E; discriminate E); destr_in E; try discriminate E;
    try (left; split; [exact E|reflexivity]);
    right; inversion E; (split; [|intros [|]; reflexivity]); [left; split; reflexivity|right; reflexivity].
Qed.
Lemma trans_ret h pc h' p out : is_rpc pc = false -> lstep h pc = Some (h', inl p) -> retof p = Some (NOut VC out) ->
  retof pc = Some (NOut VC out) \/ (rdend pc = true /\ h' = h /\ exists c, p = aLoadCnt VC KW c (NOut VC out)).
Proof.
  intros Hr Hs. destruct pc; try discriminate Hr; clear Hr; stepin Hs; destr_in Hs; try discriminate Hs; inversion Hs; subst; clear Hs;
    unfold m_next, m_added, e_next, w_next, after_cool, after_addreset; destr_goal; cbn [retof rdend]; intros E; try discriminate E;
    try (unfold m_next in E; destr_in E; cbn [retof] in E; try discriminate E; left; exact E);
    try (left; exact E); try (right; inversion E; split; [reflexivity|split; [reflexivity|eexists; reflexivity]]).
Qed.
Lemma trans_out h pc h' r : lstep h pc = Some (h', inr r) -> retof pc = Some r \/ r = NUnit VC.
Proof.
  intros Hs. destruct pc; stepin Hs; destr_in Hs; try discriminate Hs; inversion Hs; subst; clear Hs; cbn [retof]; auto.
Qed.

Lemma Done_snoc hs (k : call LM) tau : tau < c_res k -> Done (hs ++ [k]) tau = Done hs tau.
Proof. intros L. rewrite Done_app. unfold Done at 2. cbn [flat_map]. destruct (Z.leb_spec (c_res k) tau); [lia|]. rewrite !app_nil_r. reflexivity. Qed.
Lemma w1c_holds pc cc : w1c pc = Some cc -> holds pc = true. Proof. destruct pc; cbn; intros E; try discriminate E; reflexivity. Qed.
Lemma retof_holds pc r : retof pc = Some r -> holds pc = true. Proof. destruct pc; cbn; intros E; try discriminate E; reflexivity. Qed.

Lemma cnt_grow h pc h' nxt : is_rpc pc = false -> holds pc = false -> lstep h pc = Some (h', nxt) -> forall X, exists ext, cntv (gs h' X) = cntv (gs h X) ++ ext.
Proof.
  intros Hr Hh Hs X. pose proof (cnt_step _ _ _ _ Hs Hr) as CE. destruct pc; try discriminate Hh; cbn [cnt_eff] in CE;
    try (destruct CE as [CS _]; exists []; rewrite CS, app_nil_r; reflexivity).
  destruct CE as (C1 & C2 & _). destruct (Bool.eqb_spec X b) as [->|N]; [exists [v]; exact C1|].
  assert (X = negb b) by (destruct X, b; cbn; congruence). subst X. exists []. rewrite C2, app_nil_r. reflexivity.
Qed.

(* everything counted so far was observed by a call invoked before now *)
Lemma counted_started c : InvT c -> sub (HV (Conc.hist c) ++ PCV (thr c)) (Ub c (now c)).
Proof.
  intros (T1 & T2 & _). unfold Ub.
  assert (A : HVb (Conc.hist c) (now c) = HV (Conc.hist c)).
  { unfold HVb, HV. induction (Conc.hist c) as [|k hs IH]; [reflexivity|]. cbn [flat_map].
    rewrite IH by (intros k' Hk'; apply T2; right; exact Hk'). destruct (T2 k (or_introl eq_refl)).
    destruct (Z.ltb_spec (c_inv k) (now c)); [reflexivity|lia]. }
  rewrite A. assert (B : sub (PCV (thr c)) (CVb (thr c) (now c))).
  { unfold PCV, CVb. induction (thr c) as [|t T IH]; [apply sub_refl|]. cbn [map concat].
    destruct IH as [e IH]; [intros; eapply T1; [right|]; eauto|].
    assert (S : sub (pcv t) (cvb (now c) t)).
    { unfold pcv, cvb. destruct (t_cur t) as [[[o pc] inv]|] eqn:Ec; [|apply sub_refl].
      destruct (T1 t o pc inv (or_introl eq_refl) Ec) as [L1 L2].
      destruct (pvpc pc) eqn:Ep; [|exists (if inv <? now c then opv o else []); reflexivity].
      destruct (is_start o pc) eqn:Es.
      - destruct o, pc; try discriminate Es; try discriminate Ep; cbn [opv]; destruct (inv <? now c); apply sub_refl.
      - specialize (L2 eq_refl). destruct (Z.ltb_spec inv (now c)); [apply sub_refl|lia]. }
    destruct S as [e1 P1]. exists (e1 ++ e). rewrite <- P1, <- IH. perm. }
  destruct B as [e P]. exists e. rewrite <- P. perm.
Qed.

(* the end of Write's reading phase: the exposition describes exactly the cold set's counter *)
Lemma rdend_good h f sb pc h' c0 out : (forall X, f X = 0 -> sb X = []) -> SRT h -> Phi h f sb pc -> rdend pc = true ->
  lstep h pc = Some (h', inl (aLoadCnt VC KW c0 (NOut VC out))) -> w1c pc = Some c0 /\ goodE out (cntv (gs h c0)).
Proof.
  intros fsb HS HP Hr Hs. destruct pc; try discriminate Hr; cbn [Phi] in HP.
  - (* wRange c false o *) destruct neg; [discriminate Hr|]. stepin Hs. unfold w_next in Hs. cbn [side] in Hs.
    destruct (cm_keys VC (ns_pos VC (nget VC h c))) eqn:Ek; [|discriminate Hs]. injection Hs as Eh Ec Eo. subst h' c0 out. split; [reflexivity|].
    destruct HP as ((Hh & F & Q1 & Q2 & Ez & B) & (Z1 & Z2) & (X1 & X2)). apply keys_nil_map in Ek. change (nget VC h c) with (gs h c) in Ek.
    unfold goodE. split; [symmetry; exact Z2|]. rewrite Z1, X1, X2. unfold EQ in Q2. rewrite (fsb _ F), app_nil_r in Q2. unfold sec in Q2. rewrite Ek in Q2. exact Q2.
  - (* wCellLoad c false o k [] *) destruct neg; [discriminate Hr|]. destruct ks; [|discriminate Hr]. stepin Hs. unfold w_next in Hs. injection Hs as Eh Ec Eo. subst h' c0 out. split; [reflexivity|].
    destruct HP as ((Hh & F & Q1 & Q2 & Ez & B) & (Z1 & Z2) & RS).
    pose proof (rdside_step h c false o k [] HS RS) as (m' & Es & Ek & Eo). apply keys_nil_map in Ek. subst m'. rewrite app_nil_r in Es. cbn [side] in Es.
    change (nget VC h c) with (gs h c) in *.
    unfold goodE. cbn [out_add no_count no_zc no_pos no_neg] in *. split; [symmetry; exact Z2|].
    rewrite Z1, <- Es, Eo. unfold EQ in Q2. rewrite (fsb _ F), app_nil_r in Q2. exact Q2.
Qed.

Lemma holder_unique c i j t tj o pc inv oj pcj invj : Inv c ->
  nth_error (thr c) i = Some t -> t_cur t = Some (o, pc, inv) -> holds pc = true ->
  nth_error (thr c) j = Some tj -> t_cur tj = Some (oj, pcj, invj) -> holds pcj = true -> i = j.
Proof.
  intros IV Hi Hc Hh Hj Hcj Hhj. destruct (Nat.eq_dec i j) as [E|N]; [exact E|exfalso].
  assert (2 <= NH (thr c)).
  { apply (NH_two (thr c) i j t tj Hi Hj N); [rewrite (tpc_cur _ _ _ _ Hc)|rewrite (tpc_cur _ _ _ _ Hcj)]; cbn [hcnt]; rewrite ?Hh, ?Hhj; reflexivity. }
  pose proof (i_nh c IV) as E. destruct (nh_mtx VC (sh c)); lia.
Qed.

Lemma sand_step c tid c' inv out : InvT c -> inv <= now c -> sched_step LM c tid = Some c' -> sand c inv out -> sand c' inv out.
Proof.
  intros (_ & T2 & _) Li St (E & tau0 & L & G & S1 & S2).
  destruct (sched_step_L2 c tid c' St) as (t & o & pc & inv1 & h' & nxt & Hi & Hc & Hs & Esh & En & Et & Eh).
  exists E, tau0. split; [lia|split; [exact G|split]].
  - rewrite Eh. destruct nxt as [p|r]; [rewrite app_nil_r; exact S1|]. rewrite Done_snoc; [exact S1|cbn [c_res]; lia].
  - apply (sub_perm E E (Ub c tau0) (Ub c' tau0)); [reflexivity|symmetry; apply (Ub_step c tid c' tau0 L St)|exact S2].
Qed.

Lemma InvW_step c tid c' : NoR c -> Inv c -> InvT c -> InvX c -> InvW c -> sched_step LM c tid = Some c' -> InvW c'.
Proof.
  intros [_ NT] IV IT IX (W1 & W2) St. pose proof IT as (T1 & T2 & T3).
  destruct (sched_step_L2 c tid c' St) as (t & o & pc & inv & h' & nxt & Hi & Hc & Hs & Esh & En & Et & Eh).
  pose proof (nth_error_In _ _ Hi) as Hin. destruct (T1 t o pc inv Hin Hc) as [Linv _]. pose proof (NT t o pc inv Hin Hc) as Hrpc.
  assert (DoneSt : forall tau, tau <= now c -> Done (Conc.hist c') tau = Done (Conc.hist c) tau).
  { intros tau L. rewrite Eh. destruct nxt as [p|r]; [rewrite app_nil_r; reflexivity|]. apply Done_snoc. cbn [c_res]. lia. }
  split.
  - intros t2 o2 pc2 inv2 Hin2 Hc2. rewrite Et in Hin2. apply In_nth_error in Hin2. destruct Hin2 as [j Hj].
    destruct (nth_error_set_nth_inv _ _ _ _ _ Hj) as [[-> ->]|[Nj Hj']].
    + (* the stepping thread *)
      destruct nxt as [p|r].
      2:{ destruct (next_thread_cur _ _ _ _ _ _ Hc2) as (_ & -> & _). destruct o2; split; intros ? E; discriminate E. }
      cbn [t_cur] in Hc2. inversion Hc2. subst o2 pc2 inv2. clear Hc2. destruct (W1 t o pc inv Hin Hc) as [WA WB]. split.
      * intros cc Ecc. rewrite (DoneSt inv Linv), Esh. destruct (trans_w1 _ _ _ _ _ Hrpc Hs Ecc) as [[Eo Ehh]|[Efl Egs]].
        -- rewrite Ehh. apply (WA cc Eo).
        -- rewrite Egs.
           assert (Hh : holds pc = true) by (destruct Efl as [[-> _]| ->]; reflexivity).
           pose proof (i_hold c IV _ t o pc inv Hi Hc Hh) as HP.
           assert (P0 : cc = nh_hot VC (sh c) /\ Phi0 (sh c) (fun X => F X (thr c)) (fun X => SB X (thr c))).
           { destruct Efl as [[-> Ecc']| ->]; cbn [Phi] in HP; [split; [exact Ecc'|exact HP]|destruct HP as [A B]; split; assumption]. }
           destruct P0 as [Ecc' ((E1 & _) & _)].
           assert (D0 : DUP (sh c) (thr c) = []).
           { pose proof (DUP_nil c _ t IV Hi (ltac:(rewrite (tpc_cur _ _ _ _ Hc); cbn [hcnt]; rewrite Hh; reflexivity)) (sh c)) as D.
             rewrite (tpc_cur _ _ _ _ Hc) in D. apply Permutation_nil. apply Permutation_sym.
             destruct Efl as [[-> _]| ->]; exact D. }
           unfold InvX in IX. rewrite D0, app_nil_r in IX.
           apply (sub_trans _ (HV (Conc.hist c))); [apply Done_sub_HV|].
           subst cc. destruct (nh_hot VC (sh c)); cbn [negb] in E1; rewrite E1 in IX; rewrite ?app_nil_r in IX; cbn [app] in IX;
             (apply (sub_perm (HV (Conc.hist c)) (HV (Conc.hist c)) (HV (Conc.hist c) ++ PCV (thr c)) _); [reflexivity|symmetry; exact IX|apply sub_self_app]).
      * intros out Eout. destruct (trans_ret _ _ _ _ _ Hrpc Hs Eout) as [Eo|(Er & Ehh & c0 & Ep)].
        -- apply (sand_step c tid c' inv out IT Linv St (WB out Eo)).
        -- subst p h'.
           assert (Hh : holds pc = true) by (destruct pc; try discriminate Er; reflexivity).
           pose proof (i_hold c IV _ t o pc inv Hi Hc Hh) as HP.
           destruct (rdend_good (sh c) _ _ pc (sh c') c0 out (fun X => F_sb X (thr c)) (i_srt c IV) HP Er Hs) as [Ew GE].
           assert (D0 : DUP (sh c) (thr c) = []).
           { pose proof (DUP_nil c _ t IV Hi (ltac:(rewrite (tpc_cur _ _ _ _ Hc); cbn [hcnt]; rewrite Hh; reflexivity)) (sh c)) as D.
             rewrite (tpc_cur _ _ _ _ Hc) in D. apply Permutation_nil. apply Permutation_sym.
             destruct pc; try discriminate Er; exact D. }
           unfold InvX in IX. rewrite D0, app_nil_r in IX.
           exists (cntv (gs (sh c) c0)), (now c). split; [lia|split; [exact GE|split]].
           ++ rewrite (DoneSt inv Linv). apply (WA c0 Ew).
           ++ apply (sub_perm (cntv (gs (sh c) c0)) (cntv (gs (sh c) c0)) (Ub c (now c)) (Ub c' (now c))); [reflexivity|symmetry; apply (Ub_step c tid c' (now c) (Z.le_refl _) St)|].
              apply (sub_trans _ (HV (Conc.hist c) ++ PCV (thr c))); [|apply (counted_started c IT)].
              apply (sub_perm (cntv (gs (sh c) c0)) (cntv (gs (sh c) c0)) (cntv (gs (sh c) false) ++ cntv (gs (sh c) true)) _); [reflexivity|exact IX|].
              destruct c0; [apply sub_app_l; apply sub_refl|apply sub_self_app].
    + (* another thread *)
      pose proof (nth_error_In _ _ Hj') as Hin2. destruct (W1 t2 o2 pc2 inv2 Hin2 Hc2) as [WA WB]. destruct (T1 t2 o2 pc2 inv2 Hin2 Hc2) as [L2 _]. split.
      * intros cc Ecc. rewrite (DoneSt inv2 L2), Esh.
        assert (Hh : holds pc = false).
        { destruct (holds pc) eqn:E; [|reflexivity]. exfalso. apply Nj. symmetry.
          apply (holder_unique c _ _ t t2 o pc inv o2 pc2 inv2 IV Hi Hc E Hj' Hc2 (w1c_holds _ _ Ecc)). }
        destruct (cnt_grow _ _ _ _ Hrpc Hh Hs cc) as [ext Ex]. rewrite Ex. apply sub_app_r. apply (WA cc Ecc).
      * intros out Eout. apply (sand_step c tid c' inv2 out IT L2 St (WB out Eout)).
  - intros w out Hw Er. rewrite Eh in Hw. apply in_app_or in Hw. destruct Hw as [Hw|Hw].
    + destruct (W2 w out Hw Er) as (E & G & S1 & S2). destruct (T2 w Hw) as [La Lb].
      exists E. split; [exact G|split].
      * rewrite (DoneSt (c_inv w)) by lia. exact S1.
      * apply (sub_perm E E (Ub c (c_res w)) (Ub c' (c_res w))); [reflexivity|symmetry; apply (Ub_step c tid c' _ Lb St)|exact S2].
    + destruct nxt as [p|r]; [destruct Hw|]. destruct Hw as [<-|[]]. cbn [c_ret c_inv c_res] in *. subst r.
      destruct (trans_out _ _ _ _ Hs) as [Eo|Eu]; [|discriminate Eu].
      destruct (W1 t o pc inv Hin Hc) as [_ WB]. destruct (WB out Eo) as (E & tau0 & L & G & S1 & S2).
      exists E. split; [exact G|split].
      * rewrite (DoneSt inv Linv). exact S1.
      * apply (sub_trans _ (Ub c' tau0)); [|apply Ub_mono; lia].
        apply (sub_perm E E (Ub c tau0) (Ub c' tau0)); [reflexivity|symmetry; apply (Ub_step c tid c' tau0 L St)|exact S2].
Qed.

Lemma init_threads s0 progs t : In t (thr (init_config LM s0 progs)) -> exists todo, t = next_thread todo 0 0.
Proof.
  unfold init_config. cbn [thr]. generalize (combine (map Z.of_nat (seq 0 (length progs))) progs). intros L.
  induction L as [|p L IH]; cbn [map]; [intros []|]. rewrite advance_L. cbn [fst]. intros [<-|H]; [eexists; reflexivity|auto].
Qed.
Lemma init_hist s0 progs : Conc.hist (init_config LM s0 progs) = [].
Proof. apply (init_fresh LM lstart_inl s0 progs). Qed.

Lemma InvT_init s0 progs : InvT (init_config LM s0 progs).
Proof.
  split; [|split].
  - intros t o pc inv Hin Hc. destruct (init_threads _ _ _ Hin) as [todo ->]. destruct (next_thread_cur _ _ _ _ _ _ Hc) as (-> & _ & Es).
    cbn [now init_config]. split; [lia|intros E; congruence].
  - rewrite init_hist. intros k [].
  - intros t o pc inv Hin Hc. destruct (init_threads _ _ _ Hin) as [todo ->]. destruct (next_thread_cur _ _ _ _ _ _ Hc) as (_ & -> & _).
    destruct o; [right|left|left|left]; reflexivity.
Qed.
Lemma InvX_init g progs : InvX (init_config LM (linit g) progs).
Proof.
  unfold InvX. rewrite init_hist.
  assert (A : PCV (thr (init_config LM (linit g) progs)) = []).
  { apply concat_all_nil. intros t Ht. destruct (init_threads _ _ _ Ht) as [todo ->]. apply pcv_next. }
  assert (B : DUP (sh (init_config LM (linit g) progs)) (thr (init_config LM (linit g) progs)) = []).
  { apply concat_all_nil. intros t Ht. destruct (init_threads _ _ _ Ht) as [todo ->]. destruct todo as [|[v| | |d] rest]; reflexivity. }
  rewrite A, B. reflexivity.
Qed.
Lemma InvW_init s0 progs : InvW (init_config LM s0 progs).
Proof.
  split.
  - intros t o pc inv Hin Hc. destruct (init_threads _ _ _ Hin) as [todo ->]. destruct (next_thread_cur _ _ _ _ _ _ Hc) as (_ & -> & _).
    destruct o; split; intros ? E; discriminate E.
  - rewrite init_hist. intros w out [].
Qed.

Lemma rt_reachable g progs sched : g_min_reset g = 0 ->
  let c := run_sched LM (init_config LM (linit g) progs) sched in Inv c /\ InvT c /\ InvX c /\ InvW c.
Proof.
  intros G0. cbv zeta.
  assert (H : NoR (run_sched LM (init_config LM (linit g) progs) sched) /\
              (fun c => Inv c /\ InvT c /\ InvX c /\ InvW c) (run_sched LM (init_config LM (linit g) progs) sched)).
  { apply (run_sched_ind LM (fun c => NoR c /\ (Inv c /\ InvT c /\ InvX c /\ InvW c))).
    - intros c tid c' (N & A & B & C & D) St. split; [exact (NoR_step c tid c' N St)|]. split; [exact (Inv_step c tid c' A St)|split; [exact (InvT_step c tid c' N B St)|split;
        [exact (InvX_step c tid c' N A B C St)|exact (InvW_step c tid c' N A B C D St)]]].
    - split; [apply NoR_init; exact G0|]. split; [apply Inv_init|split; [apply InvT_init|split; [apply InvX_init|apply InvW_init]]]. }
  apply H.
Qed.

(* THE REAL-TIME SANDWICH: every completed Write w counted a multiset E of observed values with
   (values of the Observe calls that had returned when w was invoked) <= E <= (values of the Observe calls invoked before w returned) *)
Lemma rt_sandwich_L g progs sched : g_min_reset g = 0 -> let c := run_sched LM (init_config LM (linit g) progs) sched in
  forall w out, In w (Conc.hist c) -> c_ret w = NOut VC out ->
  exists E, goodE out E /\ sub (Done (Conc.hist c) (c_inv w)) E /\ sub E (Ub c (c_res w)).
Proof. intros G0 c w out Hw Er. destruct (rt_reachable g progs sched G0) as (_ & _ & _ & (_ & W2)). apply (W2 w out Hw Er). Qed.

Lemma Ub_all_done c tau : all_done LM c = true -> Ub c tau = HVb (Conc.hist c) tau.
Proof.
  intros Hd. unfold Ub. assert (E : CVb (thr c) tau = []); [|rewrite E, app_nil_r; reflexivity].
  apply concat_all_nil. intros t Ht. pose proof (all_done_cur c Hd t Ht) as A. unfold tpc in A. unfold cvb. destruct (t_cur t) as [[[? ?] ?]|]; [discriminate A|reflexivity].
Qed.
Lemma rt_sandwich_done_L g progs sched : g_min_reset g = 0 -> let c := run_sched LM (init_config LM (linit g) progs) sched in
  all_done LM c = true ->
  forall w out, In w (Conc.hist c) -> c_ret w = NOut VC out ->
  exists E, goodE out E /\ sub (Done (Conc.hist c) (c_inv w)) E /\ sub E (HVb (Conc.hist c) (c_res w)).
Proof.
  intros G0 c Hd w out Hw Er. destruct (rt_sandwich_L g progs sched G0 w out Hw Er) as (E & G & S1 & S2). fold c in S1, S2.
  exists E. rewrite (Ub_all_done c _ Hd) in S2. auto.
Qed.
