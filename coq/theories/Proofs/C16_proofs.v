(* Proofs/C16_proofs.v -- lemmas for C16 (API client): the transcription of the Go code (Model/ApiClient.v part 1)
   against the specification (part 2), for all arguments, all status codes, all bodies, all scripts. *)
From Coq Require Import ZArith List Bool Lia Strings.String.
From Verif Require Import Base.F64 Base.Str Proofs.Str_facts Model.ApiClient.
Import ListNotations.
Open Scope Z_scope.

(* ------------------------------------------------------------------ status classes *)

Lemma quot100 k code : 1 <= k ->
  (Z.quot code 100 =? k) = ((100 * k <=? code) && (code <=? 100 * k + 99)).
Proof.
  intros Hk. pose proof (Z.quot_rem' code 100) as E.
  destruct (Z_le_gt_dec 0 code) as [P|N].
  - pose proof (Z.rem_bound_pos_pos code 100 ltac:(lia) P) as B.
    destruct (Z.eqb_spec (Z.quot code 100) k); destruct (Z.leb_spec (100 * k) code); destruct (Z.leb_spec code (100 * k + 99));
      simpl; try reflexivity; lia.
  - pose proof (Z.rem_bound_pos_neg code 100 ltac:(lia) ltac:(lia)) as B.
    destruct (Z.eqb_spec (Z.quot code 100) k); destruct (Z.leb_spec (100 * k) code); destruct (Z.leb_spec code (100 * k + 99));
      simpl; try reflexivity; lia.
Qed.

Lemma quot2_is_2xx code : (Z.quot code 100 =? 2) = is_2xx code.
Proof. unfold is_2xx. rewrite (quot100 2) by lia. reflexivity. Qed.

Lemma api_error_code_iff code : api_error_code code = true <-> code = 400 \/ code = 422.
Proof. unfold api_error_code. rewrite orb_true_iff, !Z.eqb_eq. tauto. Qed.

Lemma is_fallback_code_iff c : is_fallback_code c = true <-> c = 405 \/ c = 501.
Proof. unfold is_fallback_code. rewrite orb_true_iff, !Z.eqb_eq. tauto. Qed.

Lemma is_2xx_iff code : is_2xx code = true <-> 200 <= code <= 299.
Proof. unfold is_2xx. rewrite andb_true_iff, !Z.leb_le. tauto. Qed.

(* ------------------------------------------------------------------ apiClientImpl.Do against the table *)

(* a 204 answer has no body (RFC 9110 15.3.5; net/http enforces it on both sides) *)
Definition wf_answer (code : Z) (parsed : option envelope) : Prop := code = 204 -> parsed = None.

Lemma error_type_and_msg_type code :
  fst (error_type_and_msg code) =
  if (400 <=? code) && (code <=? 499) then err_client
  else if (500 <=? code) && (code <=? 599) then err_server else err_bad_response.
Proof.
  unfold error_type_and_msg. rewrite (quot100 4), (quot100 5) by lia.
  change (100 * 4) with 400. change (100 * 5) with 500. change (400 + 99) with 499. change (500 + 99) with 599.
  destruct ((400 <=? code) && (code <=? 499)); [reflexivity|].
  destruct ((500 <=? code) && (code <=? 599)); reflexivity.
Qed.

Lemma api_do_matches_spec_lemma code parsed : wf_answer code parsed ->
  match d_err (api_do (OResp code parsed)) with
  | None => spec_expect code parsed = None
  | Some (EApi t _) => spec_expect code parsed = Some t
  | Some EOther => False
  end.
Proof.
  intros WF. unfold api_do, spec_expect. rewrite quot2_is_2xx.
  destruct (is_2xx code) eqn:E2.
  - (* 2xx *)
    assert (api_error_code code = false) as NA.
    { apply is_2xx_iff in E2. unfold api_error_code.
      destruct (Z.eqb_spec code 422); destruct (Z.eqb_spec code 400); simpl; try reflexivity; lia. }
    rewrite NA. simpl.
    destruct (Z.eqb_spec code 204) as [E4|E4]; simpl.
    + reflexivity.
    + destruct parsed as [e|]; simpl; [|reflexivity].
      unfold declared_error. destruct (str_eqb (env_status e) s_error); simpl; reflexivity.
  - (* not 2xx *)
    simpl. destruct (api_error_code code) eqn:EA; simpl.
    + assert (code <> 204) as N4 by (apply api_error_code_iff in EA; lia).
      destruct (Z.eqb_spec code 204); [contradiction|]. simpl.
      destruct parsed as [e|]; simpl; [|reflexivity].
      unfold declared_error. destruct (str_eqb (env_status e) s_error); simpl; reflexivity.
    + rewrite error_type_and_msg_type.
      destruct ((400 <=? code) && (code <=? 499)); [reflexivity|].
      destruct ((500 <=? code) && (code <=? 599)); reflexivity.
Qed.

Lemma transport_error_is_error_lemma rc : d_err (api_do (OErr rc)) = Some EOther.
Proof. reflexivity. Qed.

Lemma nil_error_only_if_2xx_and_no_error_lemma code parsed : wf_answer code parsed ->
  d_err (api_do (OResp code parsed)) = None -> 200 <= code <= 299 /\ declared_error parsed = None.
Proof.
  intros WF H. pose proof (api_do_matches_spec_lemma code parsed WF) as M. rewrite H in M.
  unfold spec_expect in M. destruct (is_2xx code) eqn:E2.
  - split; [apply is_2xx_iff; assumption|].
    destruct (Z.eqb_spec code 204) as [E4|E4]; [rewrite (WF E4); reflexivity|].
    destruct parsed; [assumption|discriminate].
  - destruct (api_error_code code); [destruct (declared_error parsed); discriminate|].
    destruct ((400 <=? code) && (code <=? 499)); [discriminate|].
    destruct ((500 <=? code) && (code <=? 599)); discriminate.
Qed.

(* the four failure classes, spelled out *)
Lemma error_type_reflects_class_lemma code parsed : wf_answer code parsed ->
  let e := d_err (api_do (OResp code parsed)) in
  (* a failure class of the transport answer alone *)
  ((code < 200 \/ 299 < code) -> code <> 400 -> code <> 422 ->
     exists m, e = Some (EApi (if (400 <=? code) && (code <=? 499) then err_client
                               else if (500 <=? code) && (code <=? 599) then err_server else err_bad_response) m)) /\
  (* the type declared by the server, on 2xx and on 400/422 *)
  (forall t, (200 <= code <= 299 /\ code <> 204 \/ code = 400 \/ code = 422) -> declared_error parsed = Some t ->
     exists m, e = Some (EApi t m)) /\
  (* a body that cannot be understood, or that contradicts the status code *)
  ((200 <= code <= 299 /\ code <> 204 \/ code = 400 \/ code = 422) -> parsed = None -> exists m, e = Some (EApi err_bad_response m)) /\
  ((code = 400 \/ code = 422) -> declared_error parsed = None -> exists m, e = Some (EApi err_bad_response m)).
Proof.
  intros WF e. pose proof (api_do_matches_spec_lemma code parsed WF) as M. fold e in M.
  assert (forall t, spec_expect code parsed = Some t -> exists m, e = Some (EApi t m)) as K.
  { intros t Ht. destruct e as [[|t' m]|]; [contradiction| |congruence].
    exists m. congruence. }
  unfold spec_expect in K.
  repeat split.
  - intros R N0 N2. apply K.
    assert (is_2xx code = false) as E2 by (apply not_true_is_false; rewrite is_2xx_iff; lia). rewrite E2.
    assert (api_error_code code = false) as EA by (apply not_true_is_false; rewrite api_error_code_iff; lia). rewrite EA.
    destruct ((400 <=? code) && (code <=? 499)); [reflexivity|].
    destruct ((500 <=? code) && (code <=? 599)); reflexivity.
  - intros t R D. apply K. destruct R as [[R N4]|R].
    + assert (is_2xx code = true) as E2 by (apply is_2xx_iff; lia). rewrite E2.
      destruct (Z.eqb_spec code 204); [contradiction|].
      destruct parsed; [assumption|discriminate].
    + assert (is_2xx code = false) as E2 by (apply not_true_is_false; rewrite is_2xx_iff; lia). rewrite E2.
      assert (api_error_code code = true) as EA by (apply api_error_code_iff; lia). rewrite EA, D. reflexivity.
  - intros R D. subst parsed. apply K. destruct R as [[R N4]|R].
    + assert (is_2xx code = true) as E2 by (apply is_2xx_iff; lia). rewrite E2.
      destruct (Z.eqb_spec code 204); [contradiction|]. reflexivity.
    + assert (is_2xx code = false) as E2 by (apply not_true_is_false; rewrite is_2xx_iff; lia). rewrite E2.
      assert (api_error_code code = true) as EA by (apply api_error_code_iff; lia). rewrite EA. reflexivity.
  - intros R D. apply K.
    assert (is_2xx code = false) as E2 by (apply not_true_is_false; rewrite is_2xx_iff; lia). rewrite E2.
    assert (api_error_code code = true) as EA by (apply api_error_code_iff; lia). rewrite EA, D. reflexivity.
Qed.

Lemma warnings_passed_through_lemma code parsed : wf_answer code parsed ->
  d_warn (api_do (OResp code parsed)) = spec_warnings code parsed.
Proof.
  intros WF. unfold api_do, spec_warnings. rewrite quot2_is_2xx.
  destruct (is_2xx code) eqn:E2; simpl.
  - assert (api_error_code code = false) as NA.
    { apply is_2xx_iff in E2. unfold api_error_code.
      destruct (Z.eqb_spec code 422); destruct (Z.eqb_spec code 400); simpl; try reflexivity; lia. }
    rewrite NA. simpl. destruct (Z.eqb_spec code 204) as [E4|E4]; simpl.
    + reflexivity.
    + destruct parsed; reflexivity.
  - destruct (api_error_code code) eqn:EA; simpl; [|reflexivity].
    assert (code <> 204) as N4 by (apply api_error_code_iff in EA; lia).
    destruct (Z.eqb_spec code 204); [contradiction|]. simpl. destruct parsed; reflexivity.
Qed.

(* warnings come along with a declared error as well *)
Lemma warnings_with_error_lemma code e :
  (200 <= code <= 299 /\ code <> 204 \/ code = 400 \/ code = 422) ->
  d_warn (api_do (OResp code (Some e))) = env_warnings e.
Proof.
  intros R. rewrite warnings_passed_through_lemma.
  - unfold spec_warnings. destruct R as [[R N4]|R].
    + assert (is_2xx code = true) as E2 by (apply is_2xx_iff; lia). rewrite E2.
      destruct (Z.eqb_spec code 204); [contradiction|]. reflexivity.
    + assert (api_error_code code = true) as EA by (apply api_error_code_iff; lia). rewrite EA, orb_true_r. reflexivity.
  - intros E4. lia.
Qed.

(* ------------------------------------------------------------------ DoGetFallback *)

Definition start_net (script : list behaviour) (pre : bool) : net := {| n_script := script; n_done := pre; n_seen := [] |}.

Definition answer_of (b : option behaviour) : outcome :=
  match b with
  | Some (SResp c p) => OResp c p
  | Some (SCancelBody c) => OErr (Some c)
  | _ => OErr None
  end.

Lemma d_resp_answered c p : d_resp (api_do (OResp c p)) = Some c.
Proof.
  unfold api_do. destruct (negb (Z.quot c 100 =? 2) && negb (api_error_code c)); [reflexivity|].
  destruct (negb (c =? 204)); [destruct p; reflexivity|reflexivity].
Qed.
Lemma d_resp_failed rc : d_resp (api_do (OErr rc)) = rc.
Proof. reflexivity. Qed.

Lemma fallback_iff_405_501_same_params_lemma path enc b rest :
  let r := do_get_fallback path enc (start_net (b :: rest) false) in
  (* what the peer receives: the POST form, then a GET with the same parameters iff the POST was answered 405/501 *)
  rev (n_seen (snd r)) =
    post_form path enc ::
    match b with SResp c _ => if is_fallback_code c then [get_query path enc] else [] | _ => [] end /\
  (* which answer decides *)
  match b with
  | SResp c p => fst r = if is_fallback_code c then api_do (answer_of (hd_error rest)) else api_do (OResp c p)
  | _ => d_err (fst r) = Some EOther /\ d_warn (fst r) = []   (* transport failure or cancellation: an error *)
  end.
Proof.
  unfold do_get_fallback, start_net, http_do. cbn [n_done n_script n_seen].
  destruct b as [c p| | |c]; cbn [n_done n_script n_seen answer_of].
  - (* answered *)
    rewrite d_resp_answered. destruct (is_fallback_code c) eqn:F.
    + destruct rest as [|b2 rest2]; cbn [hd_error answer_of n_seen snd fst rev app]; [split; reflexivity|].
      destruct b2; cbn [hd_error answer_of n_seen snd fst rev app]; split; reflexivity.
    + split; reflexivity.
  - rewrite d_resp_failed. repeat split; reflexivity.
  - rewrite d_resp_failed. repeat split; reflexivity.
  - (* cancelled while the body is read: a second request is attempted if the status was 405/501, but its context is done *)
    rewrite d_resp_failed. destruct (is_fallback_code c); repeat split; reflexivity.
Qed.

(* once the context is done nothing is sent and an error comes back *)
Lemma nothing_sent_after_done_lemma rq script seen :
  http_do rq {| n_script := script; n_done := true; n_seen := seen |} = (OErr None, {| n_script := script; n_done := true; n_seen := seen |}).
Proof. reflexivity. Qed.

(* ------------------------------------------------------------------ parameters *)

Lemma last_cons {A} (a : A) l d : last (a :: l) d = last l a.
Proof. revert a d. induction l as [|b l IH]; intros; [reflexivity|]. simpl in *. rewrite (IH b a). destruct l; [reflexivity|]. apply (IH b d). Qed.

Lemma apply_opts_fold opts : forall a,
  fold_left apply_opt opts a =
  {| ao_timeout := last (timeouts opts) (ao_timeout a); ao_lookback := last (lookbacks opts) (ao_lookback a);
     ao_stats := last (statss opts) (ao_stats a); ao_limit := last (limits opts) (ao_limit a) |}.
Proof.
  induction opts as [|o opts IH]; intros a; [destruct a; reflexivity|].
  cbn [fold_left]. rewrite IH.
  destruct o; cbn [apply_opt timeouts lookbacks statss limits flat_map app ao_timeout ao_lookback ao_stats ao_limit];
    fold (timeouts opts); fold (lookbacks opts); fold (statss opts); fold (limits opts);
    rewrite ?last_cons; reflexivity.
Qed.

(* appending a list of values under one key at once *)
Fixpoint v_add_list (k : str) (vs : list pval) (q : values) : values :=
  match vs with
  | [] => q
  | v :: r => v_add_list k r (v_add k v q)
  end.

Lemma add_matches_list ms q : add_matches ms q = v_add_list k_match (map VStr ms) q.
Proof. unfold add_matches. revert q. induction ms as [|m ms IH]; intros q; [reflexivity|]. simpl. apply IH. Qed.

Lemma v_add_list_here k v vs0 vs r :
  v_add_list k vs ((k, vs0 ++ [v]) :: r) = (k, vs0 ++ v :: vs) :: r.
Proof.
  revert vs0 v. induction vs as [|x vs IH]; intros vs0 v; [reflexivity|].
  simpl. rewrite str_eqb_refl. rewrite IH. rewrite <- app_assoc. reflexivity.
Qed.

Lemma v_add_list_skip k k' vs' vs r : str_eqb k k' = false ->
  v_add_list k vs ((k', vs') :: r) = (k', vs') :: v_add_list k vs r.
Proof.
  intros N. revert r. induction vs as [|x vs IH]; intros r; [reflexivity|].
  simpl. rewrite N. apply IH.
Qed.

Lemma v_add_list_nil k v vs : v_add_list k (v :: vs) [] = [(k, v :: vs)].
Proof. simpl. apply (v_add_list_here k v [] vs []). Qed.

(* closed form: all values of one key appended at once *)
Fixpoint v_append (k : str) (vs : list pval) (q : values) : values :=
  match q with
  | [] => [(k, vs)]
  | (k', vs') :: r => if str_eqb k k' then (k', vs' ++ vs) :: r else (k', vs') :: v_append k vs r
  end.

Lemma v_add_is_append k v q : v_add k v q = v_append k [v] q.
Proof. induction q as [|[k' vs'] r IH]; [reflexivity|]. simpl. rewrite IH. reflexivity. Qed.

Lemma v_append_append k v vs q : v_append k vs (v_append k [v] q) = v_append k (v :: vs) q.
Proof.
  induction q as [|[k' vs'] r IH]; simpl.
  - rewrite str_eqb_refl. reflexivity.
  - destruct (str_eqb k k') eqn:E; simpl; rewrite E.
    + rewrite <- app_assoc. reflexivity.
    + rewrite IH. reflexivity.
Qed.

Lemma v_add_list_append k vs : forall q, v_add_list k vs q = match vs with [] => q | _ => v_append k vs q end.
Proof.
  induction vs as [|v vs IH]; intros q; [reflexivity|].
  simpl. rewrite IH. rewrite v_add_is_append. destruct vs; [reflexivity|]. apply v_append_append.
Qed.

Lemma add_optional_unfold q opts :
  add_optional q opts =
  let t := last (timeouts opts) 0 in
  let l := last (lookbacks opts) 0 in
  let s := last (statss opts) [] in
  let n := last (limits opts) 0 in
  let q := if t >? 0 then v_set k_timeout (VDur t) q else q in
  let q := if l >? 0 then v_set k_lookback (VDur l) q else q in
  let q := if negb (is_empty s) then v_set k_stats (VStr s) q else q in
  let q := if n >? 0 then v_set k_limit (VStr (decimal n)) q else q in
  q.
Proof. unfold add_optional. rewrite apply_opts_fold. reflexivity. Qed.

Ltac crush_opts opts :=
  rewrite ?add_optional_unfold; unfold spec_opts;
  generalize (last (timeouts opts) 0); generalize (last (lookbacks opts) 0);
  generalize (last (statss opts) []); generalize (last (limits opts) 0);
  let n := fresh "n" in let s := fresh "s" in let l := fresh "l" in let t := fresh "t" in
  intros n s l t;
  destruct (t >? 0); destruct (l >? 0); destruct s; destruct (n >? 0).

Ltac open_params :=
  unfold model_params, spec_params, model_values, spec_groups, set_time_nz, opt_time, matchers;
  rewrite ?add_matches_list, ?v_add_list_append.

Lemma params_delete_series ms st en : model_params (CDeleteSeries ms st en) = spec_params (CDeleteSeries ms st en).
Proof. open_params. destruct (time_is_zero st); destruct (time_is_zero en); destruct ms; reflexivity. Qed.

Lemma params_label_names ms st en opts : model_params (CLabelNames ms st en opts) = spec_params (CLabelNames ms st en opts).
Proof. open_params. crush_opts opts; destruct (time_is_zero st); destruct (time_is_zero en); destruct ms; reflexivity. Qed.

Lemma params_label_values lb ms st en opts : model_params (CLabelValues lb ms st en opts) = spec_params (CLabelValues lb ms st en opts).
Proof. open_params. crush_opts opts; destruct (time_is_zero st); destruct (time_is_zero en); destruct ms; reflexivity. Qed.

Lemma params_query q ts opts : model_params (CQuery q ts opts) = spec_params (CQuery q ts opts).
Proof. open_params. crush_opts opts; destruct (time_is_zero ts); reflexivity. Qed.

Lemma params_query_range q st en step opts : model_params (CQueryRange q st en step opts) = spec_params (CQueryRange q st en step opts).
Proof. open_params. crush_opts opts; reflexivity. Qed.

Lemma params_query_exemplars q st en : model_params (CQueryExemplars q st en) = spec_params (CQueryExemplars q st en).
Proof. open_params. destruct (time_is_zero st); destruct (time_is_zero en); reflexivity. Qed.

Lemma params_series ms st en opts : model_params (CSeries ms st en opts) = spec_params (CSeries ms st en opts).
Proof. open_params. crush_opts opts; destruct (time_is_zero st); destruct (time_is_zero en); destruct ms; reflexivity. Qed.

Lemma params_tsdb opts : model_params (CTSDB opts) = spec_params (CTSDB opts).
Proof. open_params. crush_opts opts; reflexivity. Qed.

Lemma params_exact_lemma c : model_kind c = spec_kind c /\ model_params c = spec_params c.
Proof.
  split; [destruct c; reflexivity|].
  destruct c; try reflexivity; try (match goal with b : bool |- _ => destruct b; reflexivity end).
  - apply params_delete_series.
  - apply params_label_names.
  - apply params_label_values.
  - apply params_query.
  - apply params_query_range.
  - apply params_query_exemplars.
  - apply params_series.
  - apply params_tsdb.
Qed.

(* ------------------------------------------------------------------ the path *)

Lemma split_on_app c l r : forall cur, (forall x, In x l -> x <> c) -> split_on c (l ++ r) cur = split_on c r (rev l ++ cur).
Proof.
  induction l as [|a l IH]; intros cur H; [reflexivity|].
  simpl. destruct (Z.eqb_spec a c) as [E|E]; [exfalso; apply (H a); [left; reflexivity|assumption]|].
  rewrite IH by (intros x Hx; apply H; right; assumption).
  rewrite <- app_assoc. reflexivity.
Qed.

Definition label_ok (c : api_call) : Prop :=
  match c with CLabelValues label _ _ _ _ => ~ In slash label | _ => True end.

Lemma url_label label :
  client_url [] ep_label_values [(s_name, label)] = lit "/api/v1/label/" ++ label ++ lit "/values".
Proof. reflexivity. Qed.

Lemma path_exact_lemma c : label_ok c -> model_segments [] c = spec_segments [] c.
Proof.
  destruct c; intros OK; try reflexivity.
  unfold model_segments. cbn [model_ep fst snd]. rewrite url_label.
  unfold path_segments.
  change (lit "/api/v1/label/" ++ label ++ lit "/values")
    with (slash :: lit "api" ++ slash :: lit "v1" ++ slash :: lit "label" ++ slash :: (label ++ lit "/values")).
  cbn [split_on lit of_string app slash Z.eqb Pos.eqb Ascii.N_of_ascii Z.of_N Ascii.N_of_digits N.add N.mul rev].
  rewrite split_on_app by (intros x Hx E; apply OK; rewrite <- E; assumption).
  rewrite app_nil_r.
  cbn [split_on lit of_string app slash Z.eqb Pos.eqb Ascii.N_of_ascii Z.of_N Ascii.N_of_digits N.add N.mul rev].
  rewrite rev_involutive. reflexivity.
Qed.

Lemma label_name_in_path_refuted_lemma :
  exists label ms st en opts,
    model_segments [] (CLabelValues label ms st en opts) <> spec_segments [] (CLabelValues label ms st en opts).
Proof.
  exists (lit "a/b"), [], {| t_sec := 0; t_nsec := 0 |}, {| t_sec := 0; t_nsec := 0 |}, [].
  vm_compute. discriminate.
Qed.
