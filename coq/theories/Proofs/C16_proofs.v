(* Proofs/C16_proofs.v -- lemmas for C16 (API client): the transcription of the Go code (Model/ApiClient.v part 1)
   against the specification (part 2), for all arguments, all status codes, all bodies, all scripts. *)
From Coq Require Import ZArith List Bool Lia Strings.String.
From Verif Require Import Base.F64 Base.Str Proofs.Str_facts Model.ApiClient.
Import ListNotations.
Open Scope Z_scope.

(* ------------------------------------------------------------------ status classes *)

Lemma quot100 k code : 1 <= k ->
  (Z.quot code 100 =? k) = ((100 * k <=? code) && (code <=? 100 * k + 99)).
Proof.
  intros Hk. pose proof (Z.quot_rem' code 100) as E.
  destruct (Z_le_gt_dec 0 code) as [P|N].
  - pose proof (Z.rem_bound_pos_pos code 100 ltac:(lia) P) as B.
    destruct (Z.eqb_spec (Z.quot code 100) k); destruct (Z.leb_spec (100 * k) code); destruct (Z.leb_spec code (100 * k + 99));
      simpl; try reflexivity; lia.
  - pose proof (Z.rem_bound_pos_neg code 100 ltac:(lia) ltac:(lia)) as B.
    destruct (Z.eqb_spec (Z.quot code 100) k); destruct (Z.leb_spec (100 * k) code); destruct (Z.leb_spec code (100 * k + 99));
      simpl; try reflexivity; lia.
Qed.

Lemma quot2_is_2xx code : (Z.quot code 100 =? 2) = is_2xx code.
Proof. unfold is_2xx. rewrite (quot100 2) by lia. reflexivity. Qed.

Lemma api_error_code_iff code : api_error_code code = true <-> code = 400 \/ code = 422.
Proof. unfold api_error_code. rewrite orb_true_iff, !Z.eqb_eq. tauto. Qed.

Lemma is_fallback_code_iff c : is_fallback_code c = true <-> c = 405 \/ c = 501.
Proof. unfold is_fallback_code. rewrite orb_true_iff, !Z.eqb_eq. tauto. Qed.

Lemma is_2xx_iff code : is_2xx code = true <-> 200 <= code <= 299.
Proof. unfold is_2xx. rewrite andb_true_iff, !Z.leb_le. tauto. Qed.

(* ------------------------------------------------------------------ apiClientImpl.Do against the table *)


Lemma error_type_and_msg_type code :
  fst (error_type_and_msg code) =
  if (400 <=? code) && (code <=? 499) then err_client
  else if (500 <=? code) && (code <=? 599) then err_server else err_bad_response.
Proof.
  unfold error_type_and_msg. rewrite (quot100 4), (quot100 5) by lia.
  change (100 * 4) with 400. change (100 * 5) with 500. change (400 + 99) with 499. change (500 + 99) with 599.
  destruct ((400 <=? code) && (code <=? 499)); [reflexivity|].
  destruct ((500 <=? code) && (code <=? 599)); reflexivity.
Qed.

Lemma api_do_matches_spec_lemma code parsed : wf_answer code parsed ->
  match d_err (api_do (OResp code parsed)) with
  | None => spec_expect code parsed = None
  | Some (EApi t _) => spec_expect code parsed = Some t
  | Some EOther => False
  end.
Proof.
  intros WF. unfold api_do, spec_expect. rewrite quot2_is_2xx.
  destruct (is_2xx code) eqn:E2.
  - (* 2xx *)
    assert (api_error_code code = false) as NA.
    { apply is_2xx_iff in E2. unfold api_error_code.
      destruct (Z.eqb_spec code 422); destruct (Z.eqb_spec code 400); simpl; try reflexivity; lia. }
    rewrite NA. simpl.
    destruct (Z.eqb_spec code 204) as [E4|E4]; simpl.
    + reflexivity.
    + destruct parsed as [e|]; simpl; [|reflexivity].
      unfold declared_error. destruct (str_eqb (env_status e) s_error); simpl; reflexivity.
  - (* not 2xx *)
    simpl. destruct (api_error_code code) eqn:EA; simpl.
    + assert (code <> 204) as N4 by (apply api_error_code_iff in EA; lia).
      destruct (Z.eqb_spec code 204); [contradiction|]. simpl.
      destruct parsed as [e|]; simpl; [|reflexivity].
      unfold declared_error. destruct (str_eqb (env_status e) s_error); simpl; reflexivity.
    + rewrite error_type_and_msg_type.
      destruct ((400 <=? code) && (code <=? 499)); [reflexivity|].
      destruct ((500 <=? code) && (code <=? 599)); reflexivity.
Qed.

Lemma transport_error_is_error_lemma rc : d_err (api_do (OErr rc)) = Some EOther.
Proof. reflexivity. Qed.

Lemma nil_error_only_if_2xx_and_no_error_lemma code parsed : wf_answer code parsed ->
  d_err (api_do (OResp code parsed)) = None -> 200 <= code <= 299 /\ declared_error parsed = None.
Proof.
  intros WF H. pose proof (api_do_matches_spec_lemma code parsed WF) as M. rewrite H in M.
  unfold spec_expect in M. destruct (is_2xx code) eqn:E2.
  - split; [apply is_2xx_iff; assumption|].
    destruct (Z.eqb_spec code 204) as [E4|E4]; [rewrite (WF E4); reflexivity|].
    destruct parsed; [assumption|discriminate].
  - destruct (api_error_code code); [destruct (declared_error parsed); discriminate|].
    destruct ((400 <=? code) && (code <=? 499)); [discriminate|].
    destruct ((500 <=? code) && (code <=? 599)); discriminate.
Qed.

(* the four failure classes, spelled out *)
Lemma error_type_reflects_class_lemma code parsed : wf_answer code parsed ->
  let e := d_err (api_do (OResp code parsed)) in
  (* a failure class of the transport answer alone *)
  ((code < 200 \/ 299 < code) -> code <> 400 -> code <> 422 ->
     exists m, e = Some (EApi (if (400 <=? code) && (code <=? 499) then err_client
                               else if (500 <=? code) && (code <=? 599) then err_server else err_bad_response) m)) /\
  (* the type declared by the server, on 2xx and on 400/422 *)
  (forall t, (200 <= code <= 299 /\ code <> 204 \/ code = 400 \/ code = 422) -> declared_error parsed = Some t ->
     exists m, e = Some (EApi t m)) /\
  (* a body that cannot be understood, or that contradicts the status code *)
  ((200 <= code <= 299 /\ code <> 204 \/ code = 400 \/ code = 422) -> parsed = None -> exists m, e = Some (EApi err_bad_response m)) /\
  ((code = 400 \/ code = 422) -> declared_error parsed = None -> exists m, e = Some (EApi err_bad_response m)).
Proof.
  intros WF e. pose proof (api_do_matches_spec_lemma code parsed WF) as M. fold e in M.
  assert (forall t, spec_expect code parsed = Some t -> exists m, e = Some (EApi t m)) as K.
  { intros t Ht. destruct e as [[|t' m]|]; [contradiction| |congruence].
    exists m. congruence. }
  unfold spec_expect in K.
  repeat split.
  - intros R N0 N2. apply K.
    assert (is_2xx code = false) as E2 by (apply not_true_is_false; rewrite is_2xx_iff; lia). rewrite E2.
    assert (api_error_code code = false) as EA by (apply not_true_is_false; rewrite api_error_code_iff; lia). rewrite EA.
    destruct ((400 <=? code) && (code <=? 499)); [reflexivity|].
    destruct ((500 <=? code) && (code <=? 599)); reflexivity.
  - intros t R D. apply K. destruct R as [[R N4]|R].
    + assert (is_2xx code = true) as E2 by (apply is_2xx_iff; lia). rewrite E2.
      destruct (Z.eqb_spec code 204); [contradiction|].
      destruct parsed; [assumption|discriminate].
    + assert (is_2xx code = false) as E2 by (apply not_true_is_false; rewrite is_2xx_iff; lia). rewrite E2.
      assert (api_error_code code = true) as EA by (apply api_error_code_iff; lia). rewrite EA, D. reflexivity.
  - intros R D. subst parsed. apply K. destruct R as [[R N4]|R].
    + assert (is_2xx code = true) as E2 by (apply is_2xx_iff; lia). rewrite E2.
      destruct (Z.eqb_spec code 204); [contradiction|]. reflexivity.
    + assert (is_2xx code = false) as E2 by (apply not_true_is_false; rewrite is_2xx_iff; lia). rewrite E2.
      assert (api_error_code code = true) as EA by (apply api_error_code_iff; lia). rewrite EA. reflexivity.
  - intros R D. apply K.
    assert (is_2xx code = false) as E2 by (apply not_true_is_false; rewrite is_2xx_iff; lia). rewrite E2.
    assert (api_error_code code = true) as EA by (apply api_error_code_iff; lia). rewrite EA, D. reflexivity.
Qed.

Lemma warnings_passed_through_lemma code parsed : wf_answer code parsed ->
  d_warn (api_do (OResp code parsed)) = spec_warnings code parsed.
Proof.
  intros WF. unfold api_do, spec_warnings. rewrite quot2_is_2xx.
  destruct (is_2xx code) eqn:E2; simpl.
  - assert (api_error_code code = false) as NA.
    { apply is_2xx_iff in E2. unfold api_error_code.
      destruct (Z.eqb_spec code 422); destruct (Z.eqb_spec code 400); simpl; try reflexivity; lia. }
    rewrite NA. simpl. destruct (Z.eqb_spec code 204) as [E4|E4]; simpl.
    + reflexivity.
    + destruct parsed; reflexivity.
  - destruct (api_error_code code) eqn:EA; simpl; [|reflexivity].
    assert (code <> 204) as N4 by (apply api_error_code_iff in EA; lia).
    destruct (Z.eqb_spec code 204); [contradiction|]. simpl. destruct parsed; reflexivity.
Qed.

(* warnings come along with a declared error as well *)
Lemma warnings_with_error_lemma code e :
  (200 <= code <= 299 /\ code <> 204 \/ code = 400 \/ code = 422) ->
  d_warn (api_do (OResp code (Some e))) = env_warnings e.
Proof.
  intros R. rewrite warnings_passed_through_lemma.
  - unfold spec_warnings. destruct R as [[R N4]|R].
    + assert (is_2xx code = true) as E2 by (apply is_2xx_iff; lia). rewrite E2.
      destruct (Z.eqb_spec code 204); [contradiction|]. reflexivity.
    + assert (api_error_code code = true) as EA by (apply api_error_code_iff; lia). rewrite EA, orb_true_r. reflexivity.
  - intros E4. lia.
Qed.

(* ------------------------------------------------------------------ DoGetFallback *)


Lemma d_resp_answered c p : d_resp (api_do (OResp c p)) = Some c.
Proof.
  unfold api_do. destruct (negb (Z.quot c 100 =? 2) && negb (api_error_code c)); [reflexivity|].
  destruct (negb (c =? 204)); [destruct p; reflexivity|reflexivity].
Qed.
Lemma d_resp_failed rc : d_resp (api_do (OErr rc)) = rc.
Proof. reflexivity. Qed.

Lemma fallback_iff_405_501_same_params_lemma path enc b rest :
  let r := do_get_fallback path enc (start_net (b :: rest) false) in
  (* what the peer receives: the POST form, then a GET with the same parameters iff the POST was answered 405/501 *)
  rev (n_seen (snd r)) =
    post_form path enc ::
    match received_code b with Some c => if is_fallback_code c then [get_query path enc] else [] | None => [] end /\
  (* which answer decides *)
  match b with
  | SResp c p => fst r = if is_fallback_code c then api_do (answer_of (hd_error rest)) else api_do (OResp c p)
  | SCutBody c =>      (* the body could not be read: never a success; after 405/501 the GET decides *)
      if is_fallback_code c then fst r = api_do (answer_of (hd_error rest))
      else d_err (fst r) = Some EOther /\ d_warn (fst r) = []
  | _ => d_err (fst r) = Some EOther /\ d_warn (fst r) = []   (* transport failure or cancellation: an error *)
  end.
Proof.
  unfold do_get_fallback, start_net, http_do. cbn [n_done n_script n_seen].
  destruct b as [c p| | |c|c]; cbn [n_done n_script n_seen answer_of received_code].
  - (* answered *)
    rewrite d_resp_answered. destruct (is_fallback_code c) eqn:F.
    + destruct rest as [|b2 rest2]; cbn [hd_error answer_of n_seen snd fst rev app]; [split; reflexivity|].
      destruct b2; cbn [hd_error answer_of n_seen snd fst rev app]; split; reflexivity.
    + split; reflexivity.
  - rewrite d_resp_failed. repeat split; reflexivity.
  - rewrite d_resp_failed. repeat split; reflexivity.
  - (* cancelled while the body is read: a second request is attempted if the status was 405/501, but its context is done *)
    rewrite d_resp_failed. destruct (is_fallback_code c); repeat split; reflexivity.
  - (* the transport failed while the body was read: the status is known, the context is alive *)
    rewrite d_resp_failed. destruct (is_fallback_code c) eqn:F.
    + destruct rest as [|b2 rest2]; cbn [hd_error answer_of n_seen snd fst rev app]; [split; reflexivity|].
      destruct b2; cbn [hd_error answer_of n_seen snd fst rev app]; split; reflexivity.
    + repeat split; reflexivity.
Qed.

(* once the context is done nothing is sent and an error comes back *)
Lemma nothing_sent_after_done_lemma rq script seen :
  http_do rq {| n_script := script; n_done := true; n_seen := seen |} = (OErr None, {| n_script := script; n_done := true; n_seen := seen |}).
Proof. reflexivity. Qed.

(* ------------------------------------------------------------------ parameters *)

Lemma last_cons {A} (a : A) l d : last (a :: l) d = last l a.
Proof. revert a d. induction l as [|b l IH]; intros; [reflexivity|]. simpl in *. rewrite (IH b a). destruct l; [reflexivity|]. apply (IH b d). Qed.

Lemma apply_opts_fold opts : forall a,
  fold_left apply_opt opts a =
  {| ao_timeout := last (timeouts opts) (ao_timeout a); ao_lookback := last (lookbacks opts) (ao_lookback a);
     ao_stats := last (statss opts) (ao_stats a); ao_limit := last (limits opts) (ao_limit a) |}.
Proof.
  induction opts as [|o opts IH]; intros a; [destruct a; reflexivity|].
  cbn [fold_left]. rewrite IH.
  destruct o; cbn [apply_opt timeouts lookbacks statss limits flat_map app ao_timeout ao_lookback ao_stats ao_limit];
    fold (timeouts opts); fold (lookbacks opts); fold (statss opts); fold (limits opts);
    rewrite ?last_cons; reflexivity.
Qed.

(* appending a list of values under one key at once *)
Fixpoint v_add_list (k : str) (vs : list pval) (q : values) : values :=
  match vs with
  | [] => q
  | v :: r => v_add_list k r (v_add k v q)
  end.

Lemma add_matches_list ms q : add_matches ms q = v_add_list k_match (map VStr ms) q.
Proof. unfold add_matches. revert q. induction ms as [|m ms IH]; intros q; [reflexivity|]. simpl. apply IH. Qed.

Lemma v_add_list_here k v vs0 vs r :
  v_add_list k vs ((k, vs0 ++ [v]) :: r) = (k, vs0 ++ v :: vs) :: r.
Proof.
  revert vs0 v. induction vs as [|x vs IH]; intros vs0 v; [reflexivity|].
  simpl. rewrite str_eqb_refl. rewrite IH. rewrite <- app_assoc. reflexivity.
Qed.

Lemma v_add_list_skip k k' vs' vs r : str_eqb k k' = false ->
  v_add_list k vs ((k', vs') :: r) = (k', vs') :: v_add_list k vs r.
Proof.
  intros N. revert r. induction vs as [|x vs IH]; intros r; [reflexivity|].
  simpl. rewrite N. apply IH.
Qed.

Lemma v_add_list_nil k v vs : v_add_list k (v :: vs) [] = [(k, v :: vs)].
Proof. simpl. apply (v_add_list_here k v [] vs []). Qed.

(* closed form: all values of one key appended at once *)
Fixpoint v_append (k : str) (vs : list pval) (q : values) : values :=
  match q with
  | [] => [(k, vs)]
  | (k', vs') :: r => if str_eqb k k' then (k', vs' ++ vs) :: r else (k', vs') :: v_append k vs r
  end.

Lemma v_add_is_append k v q : v_add k v q = v_append k [v] q.
Proof. induction q as [|[k' vs'] r IH]; [reflexivity|]. simpl. rewrite IH. reflexivity. Qed.

Lemma v_append_append k v vs q : v_append k vs (v_append k [v] q) = v_append k (v :: vs) q.
Proof.
  induction q as [|[k' vs'] r IH]; simpl.
  - rewrite str_eqb_refl. reflexivity.
  - destruct (str_eqb k k') eqn:E; simpl; rewrite E.
    + rewrite <- app_assoc. reflexivity.
    + rewrite IH. reflexivity.
Qed.

Lemma v_add_list_append k vs : forall q, v_add_list k vs q = match vs with [] => q | _ => v_append k vs q end.
Proof.
  induction vs as [|v vs IH]; intros q; [reflexivity|].
  simpl. rewrite IH. rewrite v_add_is_append. destruct vs; [reflexivity|]. apply v_append_append.
Qed.

Lemma add_optional_unfold q opts :
  add_optional q opts =
  let t := last (timeouts opts) 0 in
  let l := last (lookbacks opts) 0 in
  let s := last (statss opts) [] in
  let n := last (limits opts) 0 in
  let q := if t >? 0 then v_set k_timeout (VDur t) q else q in
  let q := if l >? 0 then v_set k_lookback (VDur l) q else q in
  let q := if negb (is_empty s) then v_set k_stats (VStr s) q else q in
  let q := if n >? 0 then v_set k_limit (VStr (decimal n)) q else q in
  q.
Proof. unfold add_optional. rewrite apply_opts_fold. reflexivity. Qed.

Ltac crush_opts opts :=
  rewrite ?add_optional_unfold; unfold spec_opts;
  generalize (last (timeouts opts) 0); generalize (last (lookbacks opts) 0);
  generalize (last (statss opts) []); generalize (last (limits opts) 0);
  let n := fresh "n" in let s := fresh "s" in let l := fresh "l" in let t := fresh "t" in
  intros n s l t;
  destruct (t >? 0); destruct (l >? 0); destruct s; destruct (n >? 0).

Ltac open_params :=
  unfold model_params, spec_params, model_values, spec_groups, set_time_nz, opt_time, matchers;
  rewrite ?add_matches_list, ?v_add_list_append.

Lemma params_delete_series ms st en : model_params (CDeleteSeries ms st en) = spec_params (CDeleteSeries ms st en).
Proof. open_params. destruct (time_is_zero st); destruct (time_is_zero en); destruct ms; reflexivity. Qed.

Lemma params_label_names ms st en opts : model_params (CLabelNames ms st en opts) = spec_params (CLabelNames ms st en opts).
Proof. open_params. crush_opts opts; destruct (time_is_zero st); destruct (time_is_zero en); destruct ms; reflexivity. Qed.

Lemma params_label_values lb ms st en opts : model_params (CLabelValues lb ms st en opts) = spec_params (CLabelValues lb ms st en opts).
Proof. open_params. crush_opts opts; destruct (time_is_zero st); destruct (time_is_zero en); destruct ms; reflexivity. Qed.

Lemma params_query q ts opts : model_params (CQuery q ts opts) = spec_params (CQuery q ts opts).
Proof. open_params. crush_opts opts; destruct (time_is_zero ts); reflexivity. Qed.

Lemma params_query_range q st en step opts : model_params (CQueryRange q st en step opts) = spec_params (CQueryRange q st en step opts).
Proof. open_params. crush_opts opts; reflexivity. Qed.

Lemma params_query_exemplars q st en : model_params (CQueryExemplars q st en) = spec_params (CQueryExemplars q st en).
Proof. open_params. destruct (time_is_zero st); destruct (time_is_zero en); reflexivity. Qed.

Lemma params_series ms st en opts : model_params (CSeries ms st en opts) = spec_params (CSeries ms st en opts).
Proof. open_params. crush_opts opts; destruct (time_is_zero st); destruct (time_is_zero en); destruct ms; reflexivity. Qed.

Lemma params_tsdb opts : model_params (CTSDB opts) = spec_params (CTSDB opts).
Proof. open_params. crush_opts opts; reflexivity. Qed.

Lemma params_exact_lemma c : model_kind c = spec_kind c /\ model_params c = spec_params c.
Proof.
  split; [destruct c; reflexivity|].
  destruct c; try reflexivity; try (match goal with b : bool |- _ => destruct b; reflexivity end).
  - apply params_delete_series.
  - apply params_label_names.
  - apply params_label_values.
  - apply params_query.
  - apply params_query_range.
  - apply params_query_exemplars.
  - apply params_series.
  - apply params_tsdb.
Qed.

(* ------------------------------------------------------------------ the path *)

Lemma split_on_app c l r : forall cur, (forall x, In x l -> x <> c) -> split_on c (l ++ r) cur = split_on c r (rev l ++ cur).
Proof.
  induction l as [|a l IH]; intros cur H; [reflexivity|].
  simpl. destruct (Z.eqb_spec a c) as [E|E]; [exfalso; apply (H a); [left; reflexivity|assumption]|].
  rewrite IH by (intros x Hx; apply H; right; assumption).
  rewrite <- app_assoc. reflexivity.
Qed.


Lemma url_label label :
  client_url [] ep_label_values [(s_name, label)] = lit "/api/v1/label/" ++ label ++ lit "/values".
Proof. reflexivity. Qed.

Lemma path_exact_lemma c : label_ok c -> model_segments [] c = spec_segments [] c.
Proof.
  destruct c; intros OK; try reflexivity.
  unfold model_segments. cbn [model_ep fst snd]. rewrite url_label.
  unfold path_segments.
  change (lit "/api/v1/label/" ++ label ++ lit "/values")
    with (slash :: lit "api" ++ slash :: lit "v1" ++ slash :: lit "label" ++ slash :: (label ++ lit "/values")).
  cbn [split_on lit of_string app slash Z.eqb Pos.eqb Ascii.N_of_ascii Z.of_N Ascii.N_of_digits N.add N.mul rev].
  rewrite split_on_app by (intros x Hx E; apply OK; rewrite <- E; assumption).
  rewrite app_nil_r.
  cbn [split_on lit of_string app slash Z.eqb Pos.eqb Ascii.N_of_ascii Z.of_N Ascii.N_of_digits N.add N.mul rev].
  rewrite rev_involutive. reflexivity.
Qed.

Lemma label_name_in_path_refuted_lemma :
  exists label ms st en opts,
    model_segments [] (CLabelValues label ms st en opts) <> spec_segments [] (CLabelValues label ms st en opts).
Proof.
  exists (lit "a/b"), [], {| t_sec := 0; t_nsec := 0 |}, {| t_sec := 0; t_nsec := 0 |}, [].
  vm_compute. discriminate.
Qed.

(* ------------------------------------------------------------------ a whole call against any script *)


Lemma data_ok_on_success code parsed : wf_answer code parsed ->
  d_err (api_do (OResp code parsed)) = None -> d_data_ok (api_do (OResp code parsed)) = parsed_data_ok parsed.
Proof.
  intros WF. unfold api_do.
  destruct (negb (Z.quot code 100 =? 2) && negb (api_error_code code)); [discriminate|].
  destruct (Z.eqb_spec code 204) as [E4|E4]; simpl.
  - rewrite (WF E4). reflexivity.
  - destruct parsed; [reflexivity|discriminate].
Qed.

Lemma warn_self_ok l :
  Nat.eqb (List.length l) (List.length l) && forallb (fun p : str * str => str_eqb (fst p) (snd p)) (combine l l) = true.
Proof. induction l as [|a l IH]; [reflexivity|]. simpl in *. rewrite str_eqb_refl. exact IH. Qed.

Lemma finish_answer_ok c code parsed : wf_answer code parsed ->
  spec_result_ok c (Some (SResp code parsed)) (finish c (api_do (OResp code parsed))) = true.
Proof.
  intros WF.
  pose proof (api_do_matches_spec_lemma code parsed WF) as M.
  pose proof (warnings_passed_through_lemma code parsed WF) as W.
  pose proof (data_ok_on_success code parsed WF) as D.
  unfold spec_result_ok, finish. fold (parsed_data_ok parsed).
  destruct (d_err (api_do (OResp code parsed))) as [[|t m]|] eqn:E.
  - contradiction.
  - rewrite M. cbn [r_err r_warn]. rewrite W, str_eqb_refl, andb_true_r. apply warn_self_ok.
  - rewrite M, (D eq_refl), W.
    destruct (decodes_data c); destruct (parsed_data_ok parsed); cbn [r_err r_warn andb orb negb];
      rewrite ?andb_true_r; apply warn_self_ok.
Qed.

Lemma finish_failed_is_error c d : d_err d = Some EOther -> r_err (finish c d) = Some EOther.
Proof. intros H. unfold finish. rewrite H. reflexivity. Qed.

Lemma http_do_start rq script pre :
  http_do rq (start_net script pre) =
  if pre then (OErr None, start_net script true)
  else match script with
       | [] => (OErr None, {| n_script := []; n_done := false; n_seen := [rq] |})
       | SResp c p :: rest => (OResp c p, {| n_script := rest; n_done := false; n_seen := [rq] |})
       | SDrop :: rest => (OErr None, {| n_script := rest; n_done := false; n_seen := [rq] |})
       | SCancelHdr :: rest => (OErr None, {| n_script := rest; n_done := true; n_seen := [rq] |})
       | SCancelBody c :: rest => (OErr (Some c), {| n_script := rest; n_done := true; n_seen := [rq] |})
       | SCutBody c :: rest => (OErr (Some c), {| n_script := rest; n_done := false; n_seen := [rq] |})
       end.
Proof. unfold http_do, start_net. cbn [n_done n_script n_seen]. destruct pre; [reflexivity|]. destruct script as [|[]]; reflexivity. Qed.

Lemma do_get_fallback_pre path enc script :
  do_get_fallback path enc (start_net script true) = (api_do (OErr None), start_net script true).
Proof. reflexivity. Qed.

Lemma do_get_fallback_empty path enc :
  do_get_fallback path enc (start_net [] false) =
  (api_do (OErr None), {| n_script := []; n_done := false; n_seen := [post_form path enc] |}).
Proof. reflexivity. Qed.

(* the requests demanded by the specification are exactly the ones that reach the peer *)
Lemma run_call_requests_lemma c script pre : label_ok c ->
  rev (n_seen (snd (run_call [] c (start_net script pre)))) = spec_requests [] c script pre.
Proof.
  intros OK. unfold run_call, spec_requests.
  destruct (params_exact_lemma c) as [K P]. rewrite (path_exact_lemma c OK), P, K.
  destruct pre.
  - destruct (spec_kind c); [rewrite http_do_start| rewrite http_do_start | rewrite do_get_fallback_pre]; reflexivity.
  - destruct (spec_kind c).
    + rewrite http_do_start. destruct script as [|[]]; reflexivity.
    + rewrite http_do_start. destruct script as [|[]]; reflexivity.
    + destruct script as [|b rest]; [rewrite do_get_fallback_empty; reflexivity|].
      pose proof (fallback_iff_405_501_same_params_lemma (spec_segments [] c) (spec_params c) b rest) as [F _].
      cbv zeta in F.
      destruct (do_get_fallback (spec_segments [] c) (spec_params c) (start_net (b :: rest) false)) as [d n'].
      cbn [snd] in F |- *. rewrite F. destruct b; reflexivity.
Qed.

Lemma answer_ok c b : (forall code p, b = SResp code p -> wf_answer code p) ->
  spec_result_ok c (Some b) (finish c (api_do (answer_of (Some b)))) = true.
Proof.
  intros WF. destruct b as [code p| | |code|code]; try reflexivity.
  apply finish_answer_ok. apply WF. reflexivity.
Qed.

(* the result handed to the caller is acceptable for the deciding answer: in particular never a success unless
   that answer is 2xx without a declared error and with decodable data *)
Lemma run_call_result_ok_lemma prefix c script pre : wf_script script ->
  spec_result_ok c (spec_final c script pre) (fst (run_call prefix c (start_net script pre))) = true.
Proof.
  intros WF. unfold run_call, spec_final.
  destruct (params_exact_lemma c) as [K _]. rewrite K.
  set (segs := model_segments prefix c). set (enc := model_params c).
  destruct pre.
  - destruct (spec_kind c); [rewrite http_do_start| rewrite http_do_start | rewrite do_get_fallback_pre]; reflexivity.
  - destruct (spec_kind c).
    + rewrite http_do_start. destruct script as [|b rest]; [reflexivity|].
      assert (forall code p, b = SResp code p -> wf_answer code p) as WB by (intros code p E; apply WF; left; exact E).
      pose proof (answer_ok c b WB) as A. destruct b; exact A.
    + rewrite http_do_start. destruct script as [|b rest]; [reflexivity|].
      assert (forall code p, b = SResp code p -> wf_answer code p) as WB by (intros code p E; apply WF; left; exact E).
      pose proof (answer_ok c b WB) as A. destruct b; exact A.
    + destruct script as [|b rest]; [rewrite do_get_fallback_empty; reflexivity|].
      pose proof (fallback_iff_405_501_same_params_lemma segs enc b rest) as [_ F].
      cbv zeta in F.
      destruct (do_get_fallback segs enc (start_net (b :: rest) false)) as [d n'].
      cbn [fst] in *.
      destruct b as [code p| | |code|code].
      * destruct (is_fallback_code code).
        -- subst d. destruct rest as [|b2 rest2]; [reflexivity|].
           cbn [hd_error].
           apply answer_ok. intros code2 p2 E. apply WF. right. left. exact E.
        -- subst d. apply finish_answer_ok. apply WF. left. reflexivity.
      * destruct F as [F _]. cbn [spec_result_ok]. rewrite (finish_failed_is_error c d F). reflexivity.
      * destruct F as [F _]. cbn [spec_result_ok]. rewrite (finish_failed_is_error c d F). reflexivity.
      * destruct F as [F _]. cbn [spec_result_ok]. rewrite (finish_failed_is_error c d F). reflexivity.
      * destruct (is_fallback_code code).
        -- subst d. destruct rest as [|b2 rest2]; [reflexivity|].
           cbn [hd_error].
           apply answer_ok. intros code2 p2 E. apply WF. right. left. exact E.
        -- destruct F as [F _]. cbn [spec_result_ok]. rewrite (finish_failed_is_error c d F). reflexivity.
Qed.

(* read off: a nil error at the end of a call *)
Lemma call_nil_error_only_if_lemma prefix c script pre : wf_script script ->
  r_err (fst (run_call prefix c (start_net script pre))) = None ->
  exists code parsed, spec_final c script pre = Some (SResp code parsed) /\
    200 <= code <= 299 /\ declared_error parsed = None /\ (decodes_data c = true -> code <> 204 /\ parsed_data_ok parsed = true).
Proof.
  intros WF H. pose proof (run_call_result_ok_lemma prefix c script pre WF) as R.
  assert (forall code parsed, In (SResp code parsed) script -> spec_final c script pre = Some (SResp code parsed) -> wf_answer code parsed) as WF' by (intros; apply WF; assumption).
  destruct (spec_final c script pre) as [[code parsed| | |code|code]|] eqn:SF; unfold spec_result_ok in R; rewrite H in R; try discriminate.
  exists code, parsed. split; [reflexivity|].
  assert (wf_answer code parsed) as WA.
  { unfold spec_final in SF. destruct pre; [discriminate|].
    destruct (spec_kind c); destruct script as [|b rest]; try discriminate.
    - inversion SF. subst b. apply WF. left. reflexivity.
    - inversion SF. subst b. apply WF. left. reflexivity.
    - destruct b as [c1 p1| | |c1|c1]; try (inversion SF; fail).
      + destruct (is_fallback_code c1).
        * destruct rest as [|b2 rest2]; [discriminate|]. cbn [hd_error] in SF. inversion SF. subst b2. apply WF. right. left. reflexivity.
        * inversion SF. subst c1 p1. apply WF. left. reflexivity.
      + destruct (is_fallback_code c1); [|inversion SF].
        destruct rest as [|b2 rest2]; [discriminate|]. cbn [hd_error] in SF. inversion SF. subst b2. apply WF. right. left. reflexivity. }
  destruct (spec_expect code parsed) eqn:SE; [discriminate|].
  apply andb_true_iff in R. destruct R as [_ R].
  unfold spec_expect in SE. destruct (is_2xx code) eqn:E2.
  - split; [apply is_2xx_iff; assumption|].
    destruct (Z.eqb_spec code 204) as [E4|E4].
    + rewrite (WA E4) in *. split; [reflexivity|]. intros DD. rewrite DD in R. discriminate.
    + destruct parsed as [e|]; [|discriminate]. split; [assumption|]. intros DD. rewrite DD in R. split; [assumption|exact R].
  - destruct (api_error_code code); [destruct (declared_error parsed); discriminate|].
    destruct ((400 <=? code) && (code <=? 499)); [discriminate|].
    destruct ((500 <=? code) && (code <=? 599)); discriminate.
Qed.

(* ------------------------------------------------------------------ formatTime: millisecond precision *)
(* float64(sec) is exact below 2^53, nsec/1e9 is within half an ulp of [0,1), and the sum is rounded once more at
   magnitude < 2^43: total error <= 2^-11 + 2^-54 s < 1 ms.  The decimal text (FormatFloat 'f' -1 / ParseFloat round
   trip) is not modelled; the harness parses the text back and the comparison is on bits. *)
From Coq Require Import Reals Lra.
From Flocq Require Import Core.Core IEEE754.BinarySingleNaN.
Open Scope Z_scope.

Local Notation fexp64 := (SpecFloat.fexp 53 1024).
Local Notation rnd64 := (round radix2 fexp64 (round_mode mode_NE)).

Lemma fexp64_FLT : fexp64 = FLT_exp (-1074) 53.
Proof. reflexivity. Qed.

Global Instance valid_fexp64 : Valid_exp fexp64.
Proof. rewrite fexp64_FLT. apply FLT_exp_valid. exact Hprec_gt0_64. Qed.

Lemma generic_int z : Z.abs z < 2 ^ 53 -> generic_format radix2 fexp64 (IZR z).
Proof.
  intros H. rewrite fexp64_FLT. apply generic_format_FLT.
  apply (FLT_spec radix2 (-1074) 53 (IZR z) (Float radix2 z 0)).
  - unfold F2R. simpl. ring.
  - simpl. exact H.
  - simpl. lia.
Qed.

Lemma of_Z_exact z : Z.abs z < 2 ^ 53 -> B2R (of_Z z) = IZR z /\ is_finite (of_Z z) = true.
Proof.
  intros H. unfold of_Z.
  pose proof (binary_normalize_correct 53 1024 Hprec_gt0_64 Hprec_emax64 mode_NE z 0 false) as C.
  cbv zeta in C.
  assert (F2R (Float radix2 z 0) = IZR z) as E by (unfold F2R; simpl; ring).
  rewrite E in C.
  rewrite (round_generic radix2 fexp64 _ (IZR z) (generic_int z H)) in C.
  rewrite Rlt_bool_true in C.
  - destruct C as (C1 & C2 & _). split; assumption.
  - rewrite <- abs_IZR.
    apply Rlt_le_trans with (bpow radix2 53); [|apply bpow_le; lia].
    rewrite <- (IZR_Zpower radix2 53) by lia. apply IZR_lt. exact H.
Qed.

Lemma ulp_bound e x : -1074 <= e - 53 -> (Rabs x < bpow radix2 e)%R -> (ulp radix2 fexp64 x <= bpow radix2 (e - 53))%R.
Proof.
  intros He Hx. destruct (Req_dec x 0) as [Z0|NZ].
  - subst x. rewrite fexp64_FLT. rewrite ulp_FLT_0 by exact Hprec_gt0_64. apply bpow_le. lia.
  - rewrite ulp_neq_0 by assumption. apply bpow_le. unfold cexp. rewrite fexp64_FLT. unfold FLT_exp.
    pose proof (mag_le_bpow radix2 x e NZ Hx). lia.
Qed.

Lemma round_err e x : -1074 <= e - 53 -> (Rabs x < bpow radix2 e)%R ->
  (Rabs (rnd64 x - x) <= / 2 * bpow radix2 (e - 53))%R.
Proof.
  intros He Hx.
  apply Rle_trans with (/ 2 * ulp radix2 fexp64 x)%R.
  - apply error_le_half_ulp. exact valid_fexp64.
  - apply Rmult_le_compat_l; [lra|]. apply ulp_bound; assumption.
Qed.

Lemma round_abs_le e x : -1074 <= e - 53 -> (Rabs x <= bpow radix2 e)%R -> (Rabs (rnd64 x) <= bpow radix2 e)%R.
Proof.
  intros He Hx. apply abs_round_le_generic; try typeclasses eauto; [|exact Hx].
  apply generic_format_bpow. rewrite fexp64_FLT. unfold FLT_exp. lia.
Qed.

Definition e9 : Z := 1000000000.

Lemma f1e9_exact : B2R f1e9 = IZR e9 /\ is_finite f1e9 = true.
Proof. apply of_Z_exact. vm_compute. reflexivity. Qed.

(* the quotient nsec/1e9 *)
Lemma frac_correct nsec : 0 <= nsec < e9 ->
  let q := fdiv (of_Z nsec) f1e9 in
  is_finite q = true /\ (0 <= B2R q <= 1)%R /\ (Rabs (B2R q - IZR nsec / IZR e9) <= / 2 * bpow radix2 (-53))%R.
Proof.
  intros Hn q.
  destruct (of_Z_exact nsec) as [Nx Nf]; [unfold e9 in Hn; lia|].
  destruct f1e9_exact as [Dx Df].
  pose proof (Bdiv_correct 53 1024 Hprec_gt0_64 Hprec_emax64 mode_NE (of_Z nsec) f1e9) as C.
  rewrite Dx, Nx in C.
  assert (IZR e9 <> 0)%R as NZ by (apply not_0_IZR; discriminate).
  specialize (C NZ).
  set (v := (IZR nsec / IZR e9)%R) in *.
  assert (0 <= v < 1)%R as Hv.
  { unfold v. assert (0 < IZR e9)%R by (apply IZR_lt; reflexivity).
    split.
    - apply Rmult_le_pos; [apply IZR_le; lia|]. apply Rlt_le, Rinv_0_lt_compat. assumption.
    - apply Rmult_lt_reg_r with (IZR e9); [assumption|]. unfold Rdiv. rewrite Rmult_assoc, Rinv_l, Rmult_1_r, Rmult_1_l by assumption.
      apply IZR_lt. lia. }
  assert (0 <= rnd64 v <= 1)%R as Hr.
  { split.
    - rewrite <- (round_0 radix2 fexp64 (round_mode mode_NE)). apply round_le; try typeclasses eauto. lra.
    - rewrite <- (round_generic radix2 fexp64 (round_mode mode_NE) 1%R).
      + apply round_le; try typeclasses eauto. lra.
      + apply (generic_int 1). reflexivity. }
  rewrite Rlt_bool_true in C.
  - destruct C as (C1 & C2 & _). subst q. unfold fdiv. split; [rewrite C2; exact Nf|]. rewrite C1. split; [exact Hr|].
    replace (-53) with (0 - 53) by lia. apply round_err; [lia|]. simpl. rewrite Rabs_pos_eq; lra.
  - rewrite Rabs_pos_eq by lra. apply Rle_lt_trans with 1%R; [lra|]. apply (bpow_lt radix2 0 1024). lia.
Qed.

Lemma format_time_real sec nsec : - 2 ^ 43 < sec < 2 ^ 43 - 1 -> 0 <= nsec < e9 ->
  let x := format_time {| t_sec := sec; t_nsec := nsec |} in
  is_finite x = true /\
  (Rabs (B2R x - (IZR sec + IZR nsec / IZR e9)) <= / 2 * bpow radix2 (-10) + / 2 * bpow radix2 (-53))%R.
Proof.
  intros Hs Hn x. subst x. unfold format_time. cbn [t_sec t_nsec].
  destruct (of_Z_exact sec) as [Sx Sf]; [lia|].
  destruct (frac_correct nsec Hn) as (Qf & Qr & Qe). cbv zeta in Qf, Qr, Qe.
  set (q := fdiv (of_Z nsec) f1e9) in *.
  pose proof (Bplus_correct 53 1024 Hprec_gt0_64 Hprec_emax64 mode_NE (of_Z sec) q Sf Qf) as C.
  rewrite Sx in C.
  set (v := (IZR sec + B2R q)%R) in *.
  assert (Rabs v < bpow radix2 43)%R as Hv.
  { rewrite <- (IZR_Zpower radix2 43) by lia. change (radix2 ^ 43) with (2 ^ 43).
    assert (IZR (- 2 ^ 43 + 1) <= IZR sec)%R by (apply IZR_le; lia).
    assert (IZR sec <= IZR (2 ^ 43 - 2))%R by (apply IZR_le; lia).
    rewrite plus_IZR, opp_IZR in H. rewrite minus_IZR in H0.
    apply Rabs_def1; unfold v; lra. }
  rewrite Rlt_bool_true in C.
  - destruct C as (C1 & C2 & _). unfold fadd. split; [exact C2|]. rewrite C1.
    replace (rnd64 v - (IZR sec + IZR nsec / IZR e9))%R with ((rnd64 v - v) + (B2R q - IZR nsec / IZR e9))%R by (unfold v; ring).
    eapply Rle_trans; [apply Rabs_triang|]. apply Rplus_le_compat; [|exact Qe].
    replace (-10) with (43 - 53) by lia. apply round_err; [lia|exact Hv].
  - apply Rle_lt_trans with (bpow radix2 43); [|apply bpow_lt; lia]. apply round_abs_le; [lia|]. lra.
Qed.

Lemma bpow_neg_pos (e : positive) : bpow radix2 (Z.neg e) = (/ IZR (2 ^ Z.pos e))%R.
Proof. change (Z.neg e) with (- Z.pos e). rewrite bpow_opp, <- IZR_Zpower by lia. reflexivity. Qed.

Lemma eps_small : (/ 2 * bpow radix2 (-10) + / 2 * bpow radix2 (-53) < / 1000)%R.
Proof.
  assert (bpow radix2 (-53) <= bpow radix2 (-20))%R by (apply bpow_le; lia).
  rewrite (bpow_neg_pos 20) in H. rewrite (bpow_neg_pos 10).
  change (2 ^ 10) with 1024 in *. change (2 ^ 20) with 1048576 in *.
  assert (0 < bpow radix2 (-53))%R by apply bpow_gt_0.
  lra.
Qed.

(* the boolean test on the bits decides the real inequality *)
Lemma within_ms_complete x sec nsec : is_finite x = true ->
  (Rabs (B2R x - (IZR sec + IZR nsec / IZR e9)) < / 1000)%R -> within_ms x sec nsec = true.
Proof.
  intros F H.
  assert (0 < IZR e9)%R as P9 by (apply IZR_lt; reflexivity).
  set (t := sec * 1000000000 + nsec).
  assert (IZR sec + IZR nsec / IZR e9 = IZR t / IZR e9)%R as ET.
  { unfold t. rewrite plus_IZR, mult_IZR. fold e9. field. lra. }
  rewrite ET in H. clear ET.
  (* a uniform statement: x = a / p with p > 0 *)
  assert (forall a p : Z, 0 < p -> (B2R x = IZR a / IZR p)%R -> Z.abs (a * 1000000000 - t * p) * 1000 <? 1000000000 * p = true) as K.
  { intros a p Pp E. apply Z.ltb_lt. apply lt_IZR.
    assert (0 < IZR p)%R as Pr by (apply IZR_lt; assumption).
    rewrite E in H.
    rewrite !mult_IZR, abs_IZR, minus_IZR, !mult_IZR. fold e9.
    replace (IZR a * IZR e9 - IZR t * IZR p)%R with ((IZR a / IZR p - IZR t / IZR e9) * (IZR p * IZR e9))%R by (field; lra).
    rewrite Rabs_mult. rewrite (Rabs_pos_eq (IZR p * IZR e9)) by (apply Rlt_le, Rmult_lt_0_compat; assumption).
    assert (0 < IZR p * IZR e9)%R by (apply Rmult_lt_0_compat; assumption).
    replace (IZR e9) with 1000000000%R in * by reflexivity.
    nra. }
  destruct x as [sg| | |sg m e Hb]; try discriminate.
  - (* zero *)
    unfold within_ms. fold t. specialize (K 0 1 ltac:(lia)).
    replace (0 * 1000000000 - t * 1) with (- t) in K by lia. rewrite Z.abs_opp in K.
    replace (1000000000 * 1) with 1000000000 in K by lia. apply K. simpl. lra.
  - unfold within_ms. fold t.
    set (zm := if sg then Z.neg m else Z.pos m).
    assert (B2R (B754_finite sg m e Hb) = IZR zm * bpow radix2 e)%R as EB.
    { unfold B2R, F2R. simpl. unfold zm. destruct sg; reflexivity. }
    destruct (Z.leb_spec 0 e) as [Pe|Ne].
    + specialize (K (zm * 2 ^ e) 1 ltac:(lia)).
      replace (t * 1) with t in K by lia. replace (1000000000 * 1) with 1000000000 in K by lia.
      apply K. rewrite EB. rewrite mult_IZR. rewrite <- (IZR_Zpower radix2 e) by lia. change (radix2 ^ e) with (2 ^ e). field.
    + assert (0 < 2 ^ (- e)) as Pp by (apply Z.pow_pos_nonneg; lia).
      specialize (K zm (2 ^ (- e)) Pp). apply K. rewrite EB.
      replace e with (- (- e)) at 1 by lia. rewrite bpow_opp. rewrite <- (IZR_Zpower radix2 (- e)) by lia.
      change (radix2 ^ (- e)) with (2 ^ (- e)). reflexivity.
Qed.

Lemma format_time_ms_precision_lemma sec nsec : - 2 ^ 43 < sec < 2 ^ 43 - 1 -> 0 <= nsec < 1000000000 ->
  within_ms (format_time {| t_sec := sec; t_nsec := nsec |}) sec nsec = true.
Proof.
  intros Hs Hn. destruct (format_time_real sec nsec Hs Hn) as [F E]. cbv zeta in F, E.
  apply within_ms_complete; [exact F|]. eapply Rle_lt_trans; [exact E|exact eps_small].
Qed.
