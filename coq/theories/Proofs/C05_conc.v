(* Proofs/C05_conc.v -- C05, concurrency: the invariant of the native-histogram step machine over ALL schedules and
   the theorems derived from it.
   Method: lmachine (Model/NativeConc.v with cells = lists of the observed values) is shown to keep the invariant
   Inv = sorted maps /\ at most one mutex holder /\ the holder's assertion Phi (Proofs/C05_conc_inv.v: per program
   counter, Hoare-style, proved stable under the steps of observers) /\ per-observer facts /\ every returned
   exposition is good.  Preservation: Inv_step (holder steps by `hoare`, observer steps by `obs_local` + `phi_obs`).
   A second, independent invariant counts tickets (InvN).  The results are carried over to zmachine (integer cells =
   the code) by the machine homomorphism `length` (Proofs/C05_hom.v).
   7 thread sums, Inv; 8 reachable configurations, no deadlock, cool-down exit, writes, quiescence (lmachine);
   8b NoR: with MinResetDuration = 0 no thread ever reaches a pc of the reset code (the hypothesis of 9, 11 and of C05_rt);
   9 tickets; 10 zmachine; 11 the values counted are the values observed (InvV);
   12 with resets: ticket counter = number of calls ticketed since the last reset swap (ledger), quiescence relative to it.
   Inv, no deadlock, spin exits, writes_good and quiescent_L hold for every configuration, resets included. *)
From Coq Require Import ZArith List Bool Lia Permutation Sorted.
From Verif Require Import Base.F64 Base.Conc Model.ClassicHist Model.NativeHist Model.NativeConc Proofs.C02_proofs Proofs.C05_conc_inv Proofs.C05_hom.
Import ListNotations.
Open Scope Z_scope.

Lemma srt_rdone h rk ph neg ks : SRT h -> SRT (r_done VC rk ph neg ks h).
Proof. destruct ks, neg, ph, h; intros H; exact H. Qed.
Lemma rstore_pos g (s : nsetL) fd : ns_pos VC (rstore_set VC [] g s fd) = ns_pos VC s. Proof. destruct fd, s; reflexivity. Qed.
Lemma rstore_neg g (s : nsetL) fd : ns_neg VC (rstore_set VC [] g s fd) = ns_neg VC s. Proof. destruct fd, s; reflexivity. Qed.
Lemma srt_step h pc h' nxt : lstep h pc = Some (h', nxt) -> SRT h -> SRT h'.
Proof.
  intros Hs HS.
  assert (RS : forall rk ph x fd, pc = rStore VC rk ph x fd -> SRT h').
  { intros rk ph x fd ->. stepin Hs. inversion Hs; subst; clear Hs. destruct HS as (S1 & S2 & S3 & S4). destruct h, x; unfold SRT; hsimp;
      rewrite ?rstore_pos, ?rstore_neg; repeat split; assumption. }
  assert (RR : forall rk ph x neg, pc = rRange VC rk ph x neg -> SRT h').
  { intros rk ph x neg ->. stepin Hs. inversion Hs; subst; clear Hs. apply srt_rdone. exact HS. }
  destruct pc; try (eapply RS; reflexivity); try (eapply RR; reflexivity); clear RS RR.
  all: destruct HS as (S1 & S2 & S3 & S4); stepin Hs;
    repeat match goal with
           | H : context [if ?c then _ else _] |- _ => destruct c
           | H : context [match ?x with _ => _ end] |- _ =>
               lazymatch type of x with list _ => destruct x | option _ => destruct x | mctx => destruct x | ephase => destruct x | rctx => destruct x | rphase => destruct x end
           end; try discriminate; inversion Hs; subst; clear Hs; try (apply srt_rdone); unfold SRT, upd_side;
    repeat match goal with h0 : nshL |- _ => destruct h0 end; hsimp;
    try (repeat split; assumption);
    repeat match goal with b : bool |- _ => destruct b end; hsimp; repeat split; auto using srt_ins, srt_upd, srt_del.
Qed.

(* ====================================================================== *)
(* 7. the invariant over configurations                                    *)
(* ====================================================================== *)
Definition tsum := C02_proofs.zsum.
Definition F (X : bool) (T : list (thread LM)) : Z := tsum (map (fun t => fcnt X (tpc t)) T).
Definition SB (X : bool) (T : list (thread LM)) : list f64 := concat (map (fun t => sbl X (tpc t)) T).
Definition NH (T : list (thread LM)) : Z := tsum (map (fun t => hcnt (tpc t)) T).

Lemma fcnt_range X x : 0 <= fcnt X x <= 1.
Proof. unfold fcnt. destruct x as [pc|]; [|lia]. destruct (inflight pc) as [b|]; [|lia]. destruct (Bool.eqb b X); lia. Qed.
Lemma hcnt_range x : 0 <= hcnt x <= 1.
Proof. unfold hcnt. destruct x as [pc|]; [|lia]. destruct (holds pc); lia. Qed.
Lemma sbl_fcnt X x : fcnt X x = 0 -> sbl X x = [].
Proof.
  unfold fcnt, sbl. destruct x as [pc|]; [|reflexivity]. destruct pc; try reflexivity; cbn [inflight]; destruct (Bool.eqb b X); cbn [andb]; auto; discriminate.
Qed.
Lemma F_nonneg X T : 0 <= F X T. Proof. apply zsum_nonneg. intros t. apply fcnt_range. Qed.
Lemma F_sb X T : F X T = 0 -> SB X T = [].
Proof.
  intros H. apply concat_all_nil. intros t Ht. apply sbl_fcnt.
  apply (zsum_zero_all (fun t => fcnt X (tpc t)) T (fun t => proj1 (fcnt_range X (tpc t))) H t Ht).
Qed.
Lemma F_ge X T i t : nth_error T i = Some t -> fcnt X (tpc t) <= F X T.
Proof. intros H. apply (zsum_ge_nth (fun t => fcnt X (tpc t)) T (fun t => proj1 (fcnt_range X (tpc t))) i t H). Qed.
Lemma F_set X T i t t' : nth_error T i = Some t -> F X (set_nth T i t') = F X T - fcnt X (tpc t) + fcnt X (tpc t').
Proof. intros H. apply (zsum_set_nth (fun t => fcnt X (tpc t)) T i t t' H). Qed.
Lemma NH_set T i t t' : nth_error T i = Some t -> NH (set_nth T i t') = NH T - hcnt (tpc t) + hcnt (tpc t').
Proof. intros H. apply (zsum_set_nth (fun t => hcnt (tpc t)) T i t t' H). Qed.
Lemma SB_set X T i t t' : nth_error T i = Some t -> Permutation (sbl X (tpc t) ++ SB X (set_nth T i t')) (sbl X (tpc t') ++ SB X T).
Proof. intros H. apply (concat_set_nth (fun t => sbl X (tpc t)) T i t t' H). Qed.
Lemma SB_same X T i t t' : nth_error T i = Some t -> sbl X (tpc t') = sbl X (tpc t) -> SB X (set_nth T i t') = SB X T.
Proof. intros H E. unfold SB. f_equal. apply (map_set_nth_same (fun t => sbl X (tpc t)) T i t t' H E). Qed.
Lemma NH_two T i j ti tj : nth_error T i = Some ti -> nth_error T j = Some tj -> i <> j -> hcnt (tpc ti) = 1 -> hcnt (tpc tj) = 1 -> 2 <= NH T.
Proof.
  intros Hi Hj N A B. pose (t0 := mkThread LM [] None 0).
  pose proof (NH_set T i ti t0 Hi) as E.
  assert (Hj' : nth_error (set_nth T i t0) j = Some tj) by (rewrite nth_error_set_nth_neq; assumption).
  pose proof (zsum_ge_nth (fun t => hcnt (tpc t)) (set_nth T i t0) (fun t => proj1 (hcnt_range (tpc t))) j tj Hj') as G.
  cbv beta in G. change (hcnt (tpc t0)) with 0 in E. unfold NH, tsum in *. lia.
Qed.

Record Inv (c : Conc.config LM) : Prop := mkInv {
  i_srt : SRT (sh c);
  i_nh : NH (thr c) = if nh_mtx VC (sh c) then 1 else 0;
  i_free : nh_mtx VC (sh c) = false -> Phi0 (sh c) (fun X => F X (thr c)) (fun X => SB X (thr c));
  i_hold : forall i t o pc inv, nth_error (thr c) i = Some t -> t_cur t = Some (o, pc, inv) -> holds pc = true ->
           Phi (sh c) (fun X => F X (thr c)) (fun X => SB X (thr c)) pc;
  i_obs : forall i t o pc inv, nth_error (thr c) i = Some t -> t_cur t = Some (o, pc, inv) -> obs_ok (sh c) pc;
  i_hist : forall k, In k (Conc.hist c) -> good_ret (c_ret k)
}.

Lemma lstart_inl : forall o : Conc.op LM, exists l, start LM o = inl l.
Proof. intros [v| | |d]; eexists; reflexivity. Qed.
Definition spc (pc : npcL) : bool := match pc with oTicket _ _ | wLock _ | fCheck _ | cAdv _ _ => true | _ => false end.
Lemma fresh_pc time (t : thread LM) o pc inv : fresh time t -> t_cur t = Some (o, pc, inv) -> spc pc = true.
Proof. unfold fresh. intros H E. rewrite E in H. destruct H as [_ H]. destruct o; cbn in H; inversion H; reflexivity. Qed.
Lemma spc_holds pc : spc pc = true -> holds pc = false. Proof. destruct pc; intros E; try discriminate E; reflexivity. Qed.
Lemma spc_obs_ok h pc : spc pc = true -> obs_ok h pc. Proof. destruct pc; intros E; try discriminate E; exact I. Qed.
Lemma spc_quiet pc : spc pc = true -> quietx (Some pc).
Proof. destruct pc; intros E; try discriminate E; repeat split; intros; reflexivity. Qed.
Lemma fresh_quiet time (t : thread LM) : fresh time t -> quietx (tpc t).
Proof.
  intros H. unfold tpc. destruct (t_cur t) as [[[o pc] inv]|] eqn:E; [|repeat split; reflexivity].
  apply spc_quiet. apply (fresh_pc time t o pc inv H E).
Qed.
Lemma holds_fcnt pc X : holds pc = true -> fcnt X (Some pc) = 0 /\ sbl X (Some pc) = [].
Proof. destruct pc; intros H; try discriminate H; split; reflexivity. Qed.
Lemma holds_obs_ok h pc : holds pc = true -> obs_ok h pc.
Proof. destruct pc; intros H; try discriminate H; exact I. Qed.
Lemma obs_ok_stab h h' pc : obs_ok h pc -> (forall b, inflight pc = Some b -> stab (gs h b) (gs h' b)) -> obs_ok h' pc.
Proof.
  destruct pc; cbn [obs_ok inflight]; auto. intros [A B] S. split; [|exact B]. destruct (S b eq_refl) as (_ & _ & K). apply K. exact A.
Qed.

Section Ext.
Variables (h : nshL) (f f' : bool -> Z) (sb sb' : bool -> list f64).
Hypothesis Ef : forall X, f' X = f X.
Hypothesis Es : forall X, sb' X = sb X.
Lemma ext_OE : ObsEff h h f f' sb sb' (nh_hot VC h) [] [] 0 0.
Proof.
  constructor; try reflexivity; rewrite ?Ef, ?Es, ?app_nil_r; try reflexivity; auto; try lia; try apply stab_refl.
Qed.
Lemma phi_ext pc : holds pc = true -> Phi h f sb pc -> Phi h f' sb' pc.
Proof. apply (phi_obs _ _ _ _ _ _ _ _ _ _ _ ext_OE). Qed.
Lemma phi0_ext : Phi0 h f sb -> Phi0 h f' sb'.
Proof. apply (phi0_obs _ _ _ _ _ _ _ _ _ _ _ ext_OE). Qed.
End Ext.
Lemma phi0_mtx h m f sb : Phi0 h f sb -> Phi0 (set_mtx VC h m) f sb.
Proof. destruct h. intros H. exact H. Qed.

Lemma lock_step h pc h' nxt : is_lock pc = true -> lstep h pc = Some (h', nxt) ->
  nh_mtx VC h = false /\ h' = set_mtx VC h true /\
  exists p, nxt = inl p /\ holds p = true /\ (forall f sb, Phi0 h' f sb -> Phi h' f sb p) /\
            (forall X, fcnt X (Some pc) = 0 /\ sbl X (Some pc) = []) /\ hcnt (Some pc) = 0.
Proof.
  intros Hl Hs. destruct pc; try discriminate Hl; stepin Hs; destruct (nh_mtx VC h); try discriminate Hs; inversion Hs; subst;
    (split; [reflexivity|split; [reflexivity|eexists; split; [reflexivity|split; [reflexivity|split; [intros f sb P; exact P|split; [intros X; split; reflexivity|reflexivity]]]]]]).
Qed.

Lemma tpc_cur (t : thread LM) (o : nop) (pc : npcL) (inv : Z) : t_cur t = Some (o, pc, inv) -> tpc t = Some pc.
Proof. unfold tpc. intros ->. reflexivity. Qed.

(* the effect of an observer step, lifted to the thread list *)
Lemma build_OE h h' T i t tn pc nxt : nth_error T i = Some t -> tpc t = Some pc ->
  ObsLocal h pc h' nxt (tpc tn) ->
  exists b A B dF dtk, ObsEff h h' (fun X => F X T) (fun X => F X (set_nth T i tn)) (fun X => SB X T) (fun X => SB X (set_nth T i tn)) b A B dF dtk.
Proof.
  intros Hi Ht (b & A & B & dF & dtk & L1 & L2 & L3 & L4 & L5 & L6 & L7 & L8 & L9 & L10 & L11 & L12 & L13 & L14 & L15 & L16 & L17).
  exists b, A, B, dF, dtk. constructor; cbv beta; auto.
  - rewrite (F_set b T i t tn Hi), Ht. lia.
  - rewrite (F_set (negb b) T i t tn Hi), Ht. lia.
  - apply (SB_same (negb b) T i t tn Hi). rewrite Ht. exact L8.
  - pose proof (SB_set b T i t tn Hi) as S. rewrite Ht in S.
    apply (Permutation_app_inv_l (sbl b (Some pc))).
    transitivity ((sbl b (Some pc) ++ SB b (set_nth T i tn)) ++ nn B); [perm|]. rewrite S.
    transitivity ((sbl b (tpc tn) ++ nn B) ++ SB b T); [perm|]. rewrite L9. perm.
  - destruct L13 as [P|P]; [left|right; exact P]. pose proof (F_ge b T i t Hi) as G. rewrite Ht in G. lia.
Qed.

Lemma Inv_step c tid c' : Inv c -> sched_step LM c tid = Some c' -> Inv c'.
Proof.
  intros [IS IN IF IH IO IG] St.
  destruct (sched_step_cases LM lstart_inl c tid c' St) as (t & o & pc & inv & h' & nxt & Hi & Hc & Hstep & Esh & Enow & Hn).
  change (Conc.step LM (sh c) pc) with (lstep (sh c) pc) in Hstep.
  pose proof (tpc_cur t o pc inv Hc) as Ht.
  change (local LM) with npcL in *. change (Conc.op LM) with nop in *. change (ret LM) with nretL in *. change (shared LM) with nshL in *.
  (* the thread after the step *)
  assert (TN : exists tn, thr c' = set_nth (thr c) (Z.to_nat tid) tn /\ nxt_rel nxt (tpc tn) /\
            (forall o' pc' inv', t_cur tn = Some (o', pc', inv') ->
               match nxt with inl p => pc' = p | inr _ => spc pc' = true end) /\
            (forall k, In k (Conc.hist c') -> In k (Conc.hist c) \/ match nxt with inl _ => False | inr r => c_ret k = r end)).
  { destruct nxt as [p|r].
    - destruct Hn as [Eh Et]. eexists. split; [exact Et|]. split; [reflexivity|]. split.
      + intros o' pc' inv' E. cbn in E. inversion E. reflexivity.
      + intros k Hk. rewrite Eh in Hk. left. exact Hk.
    - destruct Hn as (tn & Hf & Eh & Et). exists tn. split; [exact Et|]. split; [apply (fresh_quiet _ _ Hf)|]. split.
      + intros o' pc' inv' E. apply (fresh_pc _ _ _ _ _ Hf E).
      + intros k Hk. rewrite Eh in Hk. apply in_app_or in Hk. destruct Hk as [Hk|[<-|[]]]; [left; exact Hk|right; reflexivity]. }
  destruct TN as (tn & ET & NR & TNpc & HH).
  set (i := Z.to_nat tid) in *. set (T := thr c) in *. set (h := sh c) in *.
  assert (SRT' : SRT h') by (apply (srt_step h pc h' nxt Hstep IS)).
  assert (NHle : NH T <= 1) by (rewrite IN; destruct (nh_mtx VC h); lia).
  destruct (holds pc) eqn:Hh.
  - (* ---- the holder steps ---- *)
    pose proof (IH i t o pc inv Hi Hc Hh) as HP.
    pose proof (hoare (fun X => F X T) (fun X => SB X T) (fun X => F_sb X T) (fun X => F_nonneg X T) h pc h' nxt IS HP Hh Hstep) as (PO & Ecfg & STB).
    assert (Hhc : hcnt (tpc t) = 1) by (rewrite Ht; cbn [hcnt]; rewrite Hh; reflexivity).
    assert (NH1 : NH T = 1).
    { pose proof (zsum_ge_nth (fun t => hcnt (tpc t)) T (fun t => proj1 (hcnt_range (tpc t))) i t Hi) as G. cbv beta in G.
      fold tsum in G. fold (NH T) in G. lia. }
    assert (Mt : nh_mtx VC h = true) by (rewrite IN in NH1; destruct (nh_mtx VC h); [reflexivity|lia]).
    assert (Qn : forall X, fcnt X (tpc tn) = 0 /\ sbl X (tpc tn) = []).
    { intros X. destruct nxt as [p|r]; cbn [nxt_rel] in NR.
      - rewrite NR. destruct PO as (_ & Hp & _). apply holds_fcnt. exact Hp.
      - destruct NR as (Q1 & Q2 & _). auto. }
    assert (EF : forall X, F X (set_nth T i tn) = F X T).
    { intros X. rewrite (F_set X T i t tn Hi), Ht. destruct (holds_fcnt pc X Hh) as [A _]. destruct (Qn X) as [B _]. rewrite A, B. lia. }
    assert (ESB : forall X, SB X (set_nth T i tn) = SB X T).
    { intros X. apply (SB_same X T i t tn Hi). rewrite Ht. destruct (holds_fcnt pc X Hh) as [_ A]. destruct (Qn X) as [_ B]. congruence. }
    constructor; rewrite ?Esh, ?ET.
    + exact SRT'.
    + rewrite (NH_set T i t tn Hi), Hhc, NH1. destruct nxt as [p|r]; cbn [nxt_rel] in NR.
      * destruct PO as (_ & Hp & Em). rewrite NR. cbn [hcnt]. rewrite Hp, Em, Mt. reflexivity.
      * destruct PO as (_ & _ & Em). destruct NR as (_ & _ & Q3). rewrite Q3, Em. reflexivity.
    + intros Em. destruct nxt as [p|r].
      * destruct PO as (_ & _ & Em'). congruence.
      * destruct PO as (P0 & _). apply (phi0_ext h' _ _ _ _ EF ESB P0).
    + intros j tj oj pcj invj Hj Hcj Hhj. destruct (nth_error_set_nth_inv _ _ _ _ _ Hj) as [[-> ->]|[Nj Hj']].
      * specialize (TNpc _ _ _ Hcj). destruct nxt as [p|r].
        -- subst pcj. destruct PO as (Pp & _). apply (phi_ext h' _ _ _ _ EF ESB p Hhj Pp).
        -- rewrite (spc_holds _ TNpc) in Hhj; discriminate Hhj.
      * exfalso. assert (2 <= NH T); [|lia].
        apply (NH_two T i j t tj Hi Hj'); [congruence|exact Hhc|]. rewrite (tpc_cur _ _ _ _ Hcj). cbn [hcnt]. rewrite Hhj. reflexivity.
    + intros j tj oj pcj invj Hj Hcj. destruct (nth_error_set_nth_inv _ _ _ _ _ Hj) as [[-> ->]|[Nj Hj']].
      * specialize (TNpc _ _ _ Hcj). destruct nxt as [p|r].
        -- subst pcj. destruct PO as (_ & Hp & _). apply holds_obs_ok. exact Hp.
        -- apply spc_obs_ok; exact TNpc.
      * apply (obs_ok_stab h h' pcj (IO j tj oj pcj invj Hj' Hcj)). intros b Eb. apply STB.
        pose proof (F_ge b T j tj Hj') as G. rewrite (tpc_cur _ _ _ _ Hcj) in G. cbn [fcnt] in G. rewrite Eb, Bool.eqb_reflx in G. lia.
    + intros k Hk. destruct (HH k Hk) as [Hk'|Hk']; [apply IG; exact Hk'|]. destruct nxt as [p|r]; [contradiction|].
      rewrite Hk'. apply PO.
  - destruct (is_lock pc) eqn:Hl.
    + (* Mutex.Lock *) destruct (lock_step h pc h' nxt Hl Hstep) as (Mt & -> & p & -> & Hp & PP & QQ & HC0).
      cbn [nxt_rel] in NR. assert (NH0 : NH T = 0) by (rewrite IN, Mt; reflexivity).
      assert (EF : forall X, F X (set_nth T i tn) = F X T).
      { intros X. rewrite (F_set X T i t tn Hi), Ht, NR. destruct (QQ X) as [A _]. destruct (holds_fcnt p X Hp) as [B _]. rewrite A, B. lia. }
      assert (ESB : forall X, SB X (set_nth T i tn) = SB X T).
      { intros X. apply (SB_same X T i t tn Hi). rewrite Ht, NR. destruct (QQ X) as [_ A]. destruct (holds_fcnt p X Hp) as [_ B]. congruence. }
      constructor; rewrite ?Esh, ?ET.
      * exact SRT'.
      * rewrite (NH_set T i t tn Hi), Ht, NR, NH0, HC0. cbn [hcnt]. rewrite Hp. destruct h; reflexivity.
      * destruct h; discriminate.
      * intros j tj oj pcj invj Hj Hcj Hhj. destruct (nth_error_set_nth_inv _ _ _ _ _ Hj) as [[-> ->]|[Nj Hj']].
        -- pose proof (TNpc _ _ _ Hcj). subst pcj. apply PP. apply (phi0_ext _ _ _ _ _ EF ESB). apply phi0_mtx. apply IF. exact Mt.
        -- exfalso. pose proof (zsum_ge_nth (fun t => hcnt (tpc t)) T (fun t => proj1 (hcnt_range (tpc t))) j tj Hj') as G. cbv beta in G.
           fold tsum in G. fold (NH T) in G. rewrite (tpc_cur _ _ _ _ Hcj) in G. cbn [hcnt] in G. rewrite Hhj in G. lia.
      * intros j tj oj pcj invj Hj Hcj. destruct (nth_error_set_nth_inv _ _ _ _ _ Hj) as [[-> ->]|[Nj Hj']].
        -- pose proof (TNpc _ _ _ Hcj). subst pcj. apply holds_obs_ok. exact Hp.
        -- apply (obs_ok_stab h _ pcj (IO j tj oj pcj invj Hj' Hcj)). intros b _. destruct h, b; apply stab_refl.
      * intros k Hk. destruct (HH k Hk) as [Hk'|[]]. apply IG. exact Hk'.
    + (* ---- an observer steps ---- *)
      pose proof (obs_local h pc h' nxt (tpc tn) Hh Hl (IO i t o pc inv Hi Hc) Hstep NR) as OL.
      destruct (build_OE h h' T i t tn pc nxt Hi Ht OL) as (b & A & B & dF & dtk & OE).
      destruct OL as (b0 & A0 & B0 & dF0 & dtk0 & L1 & L2 & L3 & L4 & L5 & L6 & L7 & L8 & L9 & L10 & L11 & L12 & L13 & L14 & L15 & L16 & L17).
      constructor; rewrite ?Esh, ?ET.
      * exact SRT'.
      * rewrite (NH_set T i t tn Hi), Ht, L16, L2, IN. cbn [hcnt]. rewrite Hh. lia.
      * intros Em. rewrite L2 in Em. apply (phi0_obs _ _ _ _ _ _ _ _ _ _ _ OE). apply IF. exact Em.
      * intros j tj oj pcj invj Hj Hcj Hhj. destruct (nth_error_set_nth_inv _ _ _ _ _ Hj) as [[-> ->]|[Nj Hj']].
        -- exfalso. rewrite (tpc_cur _ _ _ _ Hcj) in L16. cbn [hcnt] in L16. rewrite Hhj in L16. discriminate.
        -- apply (phi_obs _ _ _ _ _ _ _ _ _ _ _ OE pcj Hhj). apply (IH j tj oj pcj invj Hj' Hcj Hhj).
      * intros j tj oj pcj invj Hj Hcj. destruct (nth_error_set_nth_inv _ _ _ _ _ Hj) as [[-> ->]|[Nj Hj']].
        -- specialize (TNpc _ _ _ Hcj). destruct nxt as [p|r]; [subst pcj; exact L17|]. apply spc_obs_ok; exact TNpc.
        -- apply (obs_ok_stab h h' pcj (IO j tj oj pcj invj Hj' Hcj)). intros b1 _.
           destruct (Bool.eqb_spec b1 b0) as [->|Nb]; [exact L15|].
           assert (b1 = negb b0) by (destruct b1, b0; cbn; congruence). subst b1. rewrite L5. apply stab_refl.
      * intros k Hk. destruct (HH k Hk) as [Hk'|Hk']; [apply IG; exact Hk'|]. destruct nxt as [p|r]; [contradiction|].
        rewrite Hk', L17. exact I.
Qed.

(* ====================================================================== *)
(* 8. reachable configurations                                             *)
(* ====================================================================== *)
Lemma fresh_all time (T : list (thread LM)) : Forall (fresh time) T ->
  (forall X, F X T = 0) /\ (forall X, SB X T = []) /\ NH T = 0.
Proof.
  intros HF. rewrite Forall_forall in HF. split; [|split].
  - intros X. apply zsum_all_zero. intros t Ht. apply (fresh_quiet time t (HF t Ht)).
  - intros X. apply concat_all_nil. intros t Ht. apply (fresh_quiet time t (HF t Ht)).
  - apply zsum_all_zero. intros t Ht. apply (fresh_quiet time t (HF t Ht)).
Qed.

Definition linit (g : config) : nshL := ninit VC [] g.

Lemma phi0_init g f sb : (forall X, f X = 0) -> (forall X, sb X = []) -> Phi0 (linit g) f sb.
Proof. intros F0 S0. unfold Phi0, Emp, EQ, Base. cbn. rewrite !F0, !S0. repeat split; reflexivity. Qed.

Lemma Inv_init g progs : Inv (init_config LM (linit g) progs).
Proof.
  destruct (init_fresh LM lstart_inl (linit g) progs) as [HF HH].
  destruct (fresh_all 0 _ HF) as (F0 & S0 & N0).
  constructor.
  - cbn. repeat split; exact I.
  - rewrite N0. reflexivity.
  - intros _. apply phi0_init; assumption.
  - intros i t o pc inv Hi Hc Hh. exfalso. rewrite Forall_forall in HF. specialize (HF t (nth_error_In _ _ Hi)).
    rewrite (spc_holds _ (fresh_pc 0 t o pc inv HF Hc)) in Hh; discriminate.
  - intros i t o pc inv Hi Hc. rewrite Forall_forall in HF. specialize (HF t (nth_error_In _ _ Hi)).
    apply spc_obs_ok; apply (fresh_pc 0 t o pc inv HF Hc).
  - rewrite HH. intros k [].
Qed.

Lemma Inv_reachable g progs sched : Inv (run_sched LM (init_config LM (linit g) progs) sched).
Proof. apply (run_sched_ind LM Inv); [intros c tid c' Hc Hs; exact (Inv_step c tid c' Hc Hs)|apply Inv_init]. Qed.

(* ---- no deadlock ---- *)
Lemma lstep_blocked h pc : lstep h pc = None -> is_lock pc = true /\ nh_mtx VC h = true.
Proof.
  intros Hs. destruct pc; stepin Hs;
    repeat match goal with
           | H : context [if ?c then _ else _] |- _ => let E := fresh "E" in destruct c eqn:E
           | H : context [match ?x with _ => _ end] |- _ =>
               lazymatch type of x with list _ => destruct x | option _ => destruct x | mctx => destruct x | ephase => destruct x | rctx => destruct x | rphase => destruct x end
           end; try discriminate; auto.
Qed.
Lemma lock_holds pc : is_lock pc = true -> holds pc = false. Proof. destruct pc; intros E; try discriminate E; reflexivity. Qed.
Lemma sched_enabled (c : Conc.config LM) i t o pc inv : nth_error (thr c) i = Some t -> t_cur t = Some (o, pc, inv) ->
  lstep (sh c) pc <> None -> sched_step LM c (Z.of_nat i) <> None.
Proof.
  intros Hi Hc Hs. unfold sched_step. rewrite Nat2Z.id, Hi, Hc. change (Conc.step LM (sh c) pc) with (lstep (sh c) pc).
  destruct (lstep (sh c) pc) as [[s' [l'|r]]|]; [discriminate| |congruence]. destruct (advance LM _ _ _ _). discriminate.
Qed.
Lemma NH_pos_ex T : 0 < NH T -> exists i t, nth_error T i = Some t /\ hcnt (tpc t) = 1.
Proof.
  unfold NH, tsum, C02_proofs.zsum. induction T as [|a T IH]; cbn [map fold_right]; intros H; [lia|].
  pose proof (hcnt_range (tpc a)). destruct (Z.eq_dec (hcnt (tpc a)) 1) as [E|N].
  - exists 0%nat, a. split; [reflexivity|exact E].
  - destruct IH as (i & t & Hi & Ht); [lia|]. exists (S i), t. split; assumption.
Qed.
Lemma no_deadlock_L g progs sched : let c := run_sched LM (init_config LM (linit g) progs) sched in
  all_done LM c = false -> exists tid, sched_step LM c tid <> None.
Proof.
  intros c Hd. pose proof (Inv_reachable g progs sched) as I. fold c in I.
  assert (Hex : exists i t o pc inv, nth_error (thr c) i = Some t /\ t_cur t = Some (o, pc, inv)).
  { unfold all_done in Hd. destruct (forallb _ (thr c)) eqn:E; [discriminate|].
    assert (Hx : exists t, In t (thr c) /\ t_cur t <> None).
    { clear -E. induction (thr c) as [|a r IH]; cbn [forallb] in E; [discriminate|].
      destruct (t_cur a) eqn:Ea; [exists a; split; [left; reflexivity|congruence]|].
      cbn [andb] in E. destruct (IH E) as (t & Ht & Hn). exists t. split; [right; assumption|assumption]. }
    destruct Hx as (t & Ht & Hn). apply In_nth_error in Ht. destruct Ht as [i Hi].
    destruct (t_cur t) as [[[o pc] inv]|] eqn:Ec; [|congruence]. exists i, t, o, pc, inv. auto. }
  destruct Hex as (i & t & o & pc & inv & Hi & Hc).
  destruct (lstep (sh c) pc) eqn:Es.
  - exists (Z.of_nat i). eapply sched_enabled; eauto. congruence.
  - destruct (lstep_blocked _ _ Es) as [_ Hm]. pose proof (i_nh c I) as N. rewrite Hm in N.
    destruct (NH_pos_ex (thr c)) as (j & tj & Hj & Hh); [lia|].
    unfold tpc in Hh. destruct (t_cur tj) as [[[oj pcj] invj]|] eqn:Ecj; [|discriminate]. cbn [hcnt] in Hh.
    exists (Z.of_nat j). eapply sched_enabled; eauto. intros En. destruct (lstep_blocked _ _ En) as [L9 _]. rewrite (lock_holds _ L9) in Hh. discriminate Hh.
Qed.

(* the cool-down spin exits as soon as no observer is left in flight on the cold set *)
Lemma spin_exits_L g progs sched : let c := run_sched LM (init_config LM (linit g) progs) sched in
  forall i t o k cold count inv, nth_error (thr c) i = Some t -> t_cur t = Some (o, xCool VC k cold count, inv) ->
  F cold (thr c) = 0 -> zl (cntv (gs (sh c) cold)) = count.
Proof.
  intros c i t o k cold count inv Hi Hc HF. pose proof (Inv_reachable g progs sched) as I. fold c in I.
  pose proof (i_hold c I i t o _ inv Hi Hc eq_refl) as P. cbn [Phi] in P. destruct P as (_ & _ & _ & E & _). lia.
Qed.

(* ... and so does the cool-down spin of a reset (after the swap, on the formerly hot set) *)
Lemma rspin_exits_L g progs sched : let c := run_sched LM (init_config LM (linit g) progs) sched in
  forall i t o rk cold count inv, nth_error (thr c) i = Some t -> t_cur t = Some (o, rCool VC rk cold count, inv) ->
  F cold (thr c) = 0 -> zl (cntv (gs (sh c) cold)) = count.
Proof.
  intros c i t o rk cold count inv Hi Hc HF. pose proof (Inv_reachable g progs sched) as I. fold c in I.
  pose proof (i_hold c I i t o _ inv Hi Hc eq_refl) as P. cbn [Phi] in P. destruct P as (_ & _ & _ & E & _). lia.
Qed.

(* ---- every completed Write ---- *)
Lemma writes_good_L g progs sched : let c := run_sched LM (init_config LM (linit g) progs) sched in
  forall k, In k (Conc.hist c) -> good_ret (c_ret k).
Proof. intros c. apply (i_hist c (Inv_reachable g progs sched)). Qed.

(* ---- quiescence ---- *)
Lemma all_done_cur (c : Conc.config LM) : all_done LM c = true -> forall t, In t (thr c) -> tpc t = None.
Proof.
  unfold all_done. rewrite forallb_forall. intros H t Ht. specialize (H t Ht). unfold tpc. destruct (t_cur t); [discriminate|reflexivity].
Qed.
Lemma quiescent_L g progs sched : let c := run_sched LM (init_config LM (linit g) progs) sched in
  all_done LM c = true ->
  let h := sh c in let hot := gs h (nh_hot VC h) in let cold := gs h (negb (nh_hot VC h)) in
  nh_mtx VC h = false /\ nh_tk VC h = zl (cntv hot) /\ Permutation (sec hot) (nn (cntv hot)) /\
  cntv cold = [] /\ ns_zb VC cold = [] /\ allc (ns_pos VC cold) = [] /\ allc (ns_neg VC cold) = [] /\ SRT h.
Proof.
  intros c Hd h hot cold. pose proof (Inv_reachable g progs sched) as I. fold c in I.
  pose proof (all_done_cur c Hd) as Q.
  assert (F0 : forall X, F X (thr c) = 0) by (intros X; apply zsum_all_zero; intros t Ht; rewrite (Q t Ht); reflexivity).
  assert (S0 : forall X, SB X (thr c) = []) by (intros X; apply concat_all_nil; intros t Ht; rewrite (Q t Ht); reflexivity).
  assert (N0 : NH (thr c) = 0) by (apply zsum_all_zero; intros t Ht; rewrite (Q t Ht); reflexivity).
  assert (Mt : nh_mtx VC h = false) by (pose proof (i_nh c I) as N; fold h in N; destruct (nh_mtx VC h); [lia|reflexivity]).
  destruct (i_free c I Mt) as ((E1 & E2 & E3 & E4) & _ & Q1 & B). fold h in E1, E2, E3, E4, Q1, B.
  unfold EQ in Q1. cbv beta in Q1. rewrite S0, app_nil_r in Q1. unfold Base in B. cbv beta in B. rewrite !F0 in B.
  split; [exact Mt|split; [|split; [exact Q1|split; [exact E1|split; [exact E2|split; [exact E3|split; [exact E4|apply (i_srt c I)]]]]]]].
  unfold hot. destruct (nh_hot VC h); cbn [negb] in *; rewrite E1 in B; change (zl []) with 0 in B; lia.
Qed.

(* ====================================================================== *)
(* 8b. no reset configured (MinResetDuration = 0): the reset code is never entered *)
(* ====================================================================== *)
Definition is_rpc (pc : npcL) : bool := match pc with rLock _ => true | _ => is_reset pc end.
Lemma rpc_e ph c neg ks : is_rpc (e_next VC ph c neg ks) = false. Proof. destruct ks, neg, ph; reflexivity. Qed.
Lemma rpc_m k c neg r ks : is_rpc (m_next VC k c neg r ks) = false. Proof. destruct ks, neg, k; reflexivity. Qed.
Lemma rpc_ma k c neg r kk ks : is_rpc (m_added VC k c neg r kk ks) = false. Proof. destruct k; cbn [m_added]; try reflexivity; apply rpc_m. Qed.
Lemma rpc_w c neg o ks : is_rpc (w_next VC c neg o ks) = false. Proof. destruct ks, neg; reflexivity. Qed.
Lemma rpc_ac k c count : is_rpc (after_cool VC k c count) = false. Proof. destruct k; reflexivity. Qed.
Lemma rpc_aa k c r : is_rpc (after_addreset VC k c r) = false. Proof. destruct k; reflexivity. Qed.
Definition nor_sh (h : nshL) : Prop := g_min_reset (nh_cfg VC h) = 0 /\ rs_pend (nh_rs VC h) = 0.
Lemma nor_step h pc h' nxt : lstep h pc = Some (h', nxt) -> nor_sh h -> is_rpc pc = false ->
  nor_sh h' /\ match nxt with inl p => is_rpc p = false | inr _ => True end.
Proof.
  intros Hs [G0 P0] Hr. destruct pc; try discriminate Hr; stepin Hs; try rewrite G0 in Hs; try rewrite P0 in Hs; cbn [Z.eqb Z.ltb Z.compare orb andb] in Hs;
    repeat match goal with
           | H : context [if ?c then _ else _] |- _ => destruct c
           | H : context [match ?x with _ => _ end] |- _ =>
               lazymatch type of x with list _ => destruct x | option _ => destruct x | mctx => destruct x | ephase => destruct x end
           end; try discriminate; inversion Hs; subst; clear Hs; unfold nor_sh, upd_side;
    rewrite ?rpc_e, ?rpc_m, ?rpc_ma, ?rpc_w, ?rpc_ac, ?rpc_aa;
    (split; [|try exact I; try reflexivity; repeat match goal with |- context [if ?b then _ else _] => destruct b | |- context [match ?x with _ => _ end] => destruct x end; reflexivity]);
    repeat match goal with h0 : nshL |- _ => destruct h0 end; hsimp;
    repeat match goal with b : bool |- _ => destruct b end; hsimp; try (split; assumption); try (split; [assumption|reflexivity]).
Qed.
Definition NoR (c : Conc.config LM) : Prop :=
  nor_sh (sh c) /\ forall t o pc inv, In t (thr c) -> t_cur t = Some (o, pc, inv) -> is_rpc pc = false.

(* ====================================================================== *)
(* 9. every Observe call takes exactly one ticket                          *)
(* ====================================================================== *)
Definition start_pc (o : nop) : npcL := match o with NObserve v => oTicket VC v | NWrite => wLock VC | NFire => fCheck VC | NAdvance d => cAdv VC d end.
Definition next_thread (todo : list nop) (idx time : Z) : thread LM :=
  match todo with [] => mkThread LM [] None idx | o :: rest => mkThread LM rest (Some (o, start_pc o, time)) idx end.
Lemma advance_L tid todo idx time : advance LM tid todo idx time = (next_thread todo idx time, []).
Proof. destruct todo as [|[v| | |d] rest]; reflexivity. Qed.
Lemma sched_step_L c tid c' : sched_step LM c tid = Some c' ->
  exists t o pc inv h' nxt, nth_error (thr c) (Z.to_nat tid) = Some t /\ t_cur t = Some (o, pc, inv) /\
    lstep (sh c) pc = Some (h', nxt) /\ sh c' = h' /\
    thr c' = set_nth (thr c) (Z.to_nat tid)
               (match nxt with inl l' => mkThread LM (t_todo t) (Some (o, l', inv)) (t_idx t)
                             | inr _ => next_thread (t_todo t) (t_idx t + 1) (now c + 1) end).
Proof.
  unfold sched_step. intros H.
  destruct (nth_error (thr c) (Z.to_nat tid)) as [t|] eqn:Ht; [|discriminate].
  destruct (t_cur t) as [[[o l] inv]|] eqn:Hc; [|discriminate].
  change (Conc.step LM (sh c) l) with (lstep (sh c) l) in H.
  destruct (lstep (sh c) l) as [[s' nxt]|] eqn:Hs; [|discriminate].
  exists t, o, l, inv, s', nxt. destruct nxt as [l'|r].
  - injection H as <-. cbn. repeat split; auto.
  - rewrite advance_L in H. injection H as <-. cbn. repeat split; auto.
Qed.

Lemma rpc_start o : is_rpc (start_pc o) = false. Proof. destruct o; reflexivity. Qed.
Lemma NoR_step c tid c' : NoR c -> sched_step LM c tid = Some c' -> NoR c'.
Proof.
  intros [NS NT] St. destruct (sched_step_L c tid c' St) as (t & o & pc & inv & h' & nxt & Hi & Hc & Hs & Esh & Et).
  destruct (nor_step _ _ _ _ Hs NS (NT t o pc inv (nth_error_In _ _ Hi) Hc)) as [NS' NN]. split; [rewrite Esh; exact NS'|].
  rewrite Et. intros t' o' pc' inv' Hin Hc'. apply In_nth_error in Hin. destruct Hin as [j Hj].
  destruct (nth_error_set_nth_inv _ _ _ _ _ Hj) as [[Ej Et']|[Nj Hj']].
  - subst t'. destruct nxt as [l'|r]; [cbn [t_cur] in Hc'; inversion Hc'; subst; exact NN|].
    destruct (t_todo t) as [|o9 rest]; [discriminate Hc'|]. cbn [next_thread t_cur] in Hc'. inversion Hc'. apply rpc_start.
  - apply (NT t' o' pc' inv' (nth_error_In _ _ Hj') Hc').
Qed.
Lemma NoR_init g progs : g_min_reset g = 0 -> NoR (init_config LM (linit g) progs).
Proof.
  intros G0. split; [split; [exact G0|reflexivity]|]. unfold init_config. cbn [thr].
  generalize (map Z.of_nat (seq 0 (length progs))). intros ids. revert progs. induction ids as [|id ids IH]; intros [|p ps]; cbn [combine map]; try solve [intros t o pc inv []].
  intros t o pc inv [<-|Hin] Hc; [|apply (IH ps t o pc inv Hin Hc)]. rewrite advance_L in Hc. cbn [fst] in Hc.
  destruct p as [|o9 rest]; [discriminate Hc|]. cbn [next_thread t_cur] in Hc. inversion Hc. apply rpc_start.
Qed.
Lemma NoR_reachable g progs sched : g_min_reset g = 0 -> NoR (run_sched LM (init_config LM (linit g) progs) sched).
Proof. intros G0. apply (run_sched_ind LM NoR); [intros c tid c' Hc Hs; exact (NoR_step c tid c' Hc Hs)|apply NoR_init; exact G0]. Qed.

Definition is_obs_op (o : nop) : bool := match o with NObserve _ => true | _ => false end.
Definition nobs (l : list nop) : Z := Z.of_nat (length (filter is_obs_op l)).
Definition is_tk (pc : npcL) : bool := match pc with oTicket _ _ => true | _ => false end.
Definition pend (t : thread LM) : Z :=
  nobs (t_todo t) + match t_cur t with Some (_, pc, _) => if is_tk pc then 1 else 0 | None => 0 end.
Definition InvN (N : Z) (c : Conc.config LM) : Prop :=
  nh_tk VC (sh c) + tsum (map pend (thr c)) = N /\ (forall t, In t (thr c) -> t_cur t = None -> t_todo t = []).

Lemma is_tk_e ph c neg ks : is_tk (e_next VC ph c neg ks) = false. Proof. destruct ks, neg, ph; reflexivity. Qed.
Lemma is_tk_m k c neg r ks : is_tk (m_next VC k c neg r ks) = false. Proof. destruct ks, neg, k; reflexivity. Qed.
Lemma is_tk_ma k c neg r kk ks : is_tk (m_added VC k c neg r kk ks) = false. Proof. destruct k; cbn [m_added]; try reflexivity; apply is_tk_m. Qed.
Lemma is_tk_w c neg o ks : is_tk (w_next VC c neg o ks) = false. Proof. destruct ks, neg; reflexivity. Qed.
Lemma is_tk_ac k c count : is_tk (after_cool VC k c count) = false. Proof. destruct k; reflexivity. Qed.
Lemma is_tk_aa k c r : is_tk (after_addreset VC k c r) = false. Proof. destruct k; reflexivity. Qed.
Lemma is_tk_r rk ph x neg ks : is_tk (r_next VC rk ph x neg ks) = false. Proof. destruct ks, neg, ph, rk; reflexivity. Qed.
Lemma r_done_tk h rk ph neg ks : nh_tk VC (r_done VC rk ph neg ks h) = nh_tk VC h. Proof. destruct ks, neg, ph, h; reflexivity. Qed.
Definition tk_eff (pc : npcL) (n : Z) : Z :=
  match pc with oTicket _ _ => n + 1 | rSwap _ (RL _) _ => 1 | rSwap _ RT _ => 0 | _ => n end.
Lemma tk_step_gen h pc h' nxt : lstep h pc = Some (h', nxt) ->
  nh_tk VC h' = tk_eff pc (nh_tk VC h) /\
  match nxt with inl pc' => is_tk pc' = false | inr _ => is_tk pc = false end.
Proof.
  intros Hs.
  assert (RR : forall rk ph x neg, pc = rRange VC rk ph x neg -> nh_tk VC h' = nh_tk VC h /\ match nxt with inl pc' => is_tk pc' = false | inr _ => False end).
  { intros rk ph x neg ->. stepin Hs. inversion Hs; subst; clear Hs. rewrite is_tk_r. split; [|reflexivity]. destruct (cm_keys _ _), neg, ph, h; reflexivity. }
  destruct pc; try (destruct (RR _ _ _ _ eq_refl) as [A B]; split; [exact A|destruct nxt; [exact B|destruct B]]); clear RR; stepin Hs;
    repeat match goal with
           | H : context [if ?c then _ else _] |- _ => destruct c
           | H : context [match ?x with _ => _ end] |- _ =>
               lazymatch type of x with list _ => destruct x | option _ => destruct x | mctx => destruct x | ephase => destruct x | rctx => destruct x | rphase => destruct x end
           end; try discriminate; inversion Hs; subst; clear Hs; unfold upd_side, tk_eff;
    rewrite ?r_done_tk, ?is_tk_e, ?is_tk_m, ?is_tk_ma, ?is_tk_w, ?is_tk_ac, ?is_tk_aa, ?is_tk_r;
    (split; [|try reflexivity; unfold r_after; repeat match goal with |- context [if ?b then _ else _] => destruct b | |- context [match ?x with _ => _ end] => destruct x end; reflexivity]);
    repeat match goal with h0 : nshL |- _ => destruct h0 end; hsimp; cbn [is_tk];
    repeat match goal with b : bool |- _ => destruct b end; hsimp; try reflexivity; try lia.
Qed.
Lemma tk_step h pc h' nxt : lstep h pc = Some (h', nxt) -> is_rpc pc = false ->
  nh_tk VC h' = nh_tk VC h + (if is_tk pc then 1 else 0) /\
  match nxt with inl pc' => is_tk pc' = false | inr _ => is_tk pc = false end.
Proof.
  intros Hs Hr. destruct (tk_step_gen _ _ _ _ Hs) as [A B]. split; [|exact B]. rewrite A. destruct pc; try discriminate Hr; cbn [tk_eff is_tk]; lia.
Qed.

Lemma nobs_cons o l : nobs (o :: l) = (if is_obs_op o then 1 else 0) + nobs l.
Proof. unfold nobs. cbn [filter]. destruct (is_obs_op o); cbn [length]; lia. Qed.
Lemma pend_next todo idx time : pend (next_thread todo idx time) = nobs todo.
Proof. destruct todo as [|[v| | |d] rest]; unfold pend, next_thread; cbn [t_todo t_cur]; cbn [start_pc is_tk]; rewrite ?nobs_cons; cbn [is_obs_op]; [apply Z.add_0_r|apply Z.add_comm|apply Z.add_comm|apply Z.add_comm|apply Z.add_comm]. Qed.

Lemma InvN_step N c tid c' : NoR c -> InvN N c -> sched_step LM c tid = Some c' -> InvN N c'.
Proof.
  intros [_ NT] [E Q] St. destruct (sched_step_L c tid c' St) as (t & o & pc & inv & h' & nxt & Hi & Hc & Hs & Esh & Et).
  destruct (tk_step _ _ _ _ Hs (NT t o pc inv (nth_error_In _ _ Hi) Hc)) as [Etk Hn]. split.
  - rewrite Esh, Et. unfold tsum. rewrite (zsum_set_nth pend (thr c) _ t _ Hi). fold tsum. rewrite Etk.
    assert (P : pend t = nobs (t_todo t) + (if is_tk pc then 1 else 0)) by (unfold pend; rewrite Hc; reflexivity).
    destruct nxt as [l'|r].
    + assert (P' : pend (mkThread LM (t_todo t) (Some (o, l', inv)) (t_idx t)) = nobs (t_todo t) + 0)
        by (unfold pend; cbn [t_todo t_cur]; rewrite Hn; reflexivity).
      rewrite P, P'. lia.
    + rewrite pend_next, P, Hn. lia.
  - rewrite Et. intros t' Hin Hn'. apply In_nth_error in Hin. destruct Hin as [j Hj].
    destruct (nth_error_set_nth_inv _ _ _ _ _ Hj) as [[-> ->]|[Nj Hj']].
    + destruct nxt as [l'|r]; [discriminate Hn'|]. destruct (t_todo t) as [|o' rest]; [reflexivity|discriminate Hn'].
    + apply Q; [apply (nth_error_In _ _ Hj')|exact Hn'].
Qed.

Definition nobs_progs (progs : list (list nop)) : Z := nobs (concat progs).
Lemma nobs_app a b : nobs (a ++ b) = nobs a + nobs b.
Proof. unfold nobs. rewrite filter_app, app_length. lia. Qed.
Lemma InvN_init s0 progs : nh_tk VC s0 = 0 -> InvN (nobs_progs progs) (init_config LM s0 progs).
Proof.
  intros E0. unfold init_config, InvN. cbn [sh thr]. rewrite E0. unfold nobs_progs.
  assert (G : forall (ids : list Z) (ps : list (list nop)), length ids = length ps ->
     tsum (map pend (map fst (map (fun p => advance LM (fst p) (snd p) 0 0) (combine ids ps)))) = nobs (concat ps) /\
     (forall t, In t (map fst (map (fun p => advance LM (fst p) (snd p) 0 0) (combine ids ps))) -> t_cur t = None -> t_todo t = [])).
  { induction ids as [|id ids IH]; intros [|p ps] L; try discriminate L; cbn [combine map concat].
    - split; [reflexivity|intros t []].
    - destruct (IH ps) as [A B]; [cbn in L; lia|]. rewrite advance_L. cbn [fst snd]. split.
      + unfold tsum, C02_proofs.zsum in *. cbn [map fold_right]. rewrite A, pend_next, nobs_app. reflexivity.
      + intros t [<-|Hin] Hn; [|apply B; assumption]. destruct p as [|o rest]; [reflexivity|discriminate Hn]. }
  destruct (G (map Z.of_nat (seq 0 (length progs))) progs) as [A B]; [rewrite map_length, seq_length; reflexivity|].
  split; [rewrite Z.add_0_l; exact A|exact B].
Qed.

(* ====================================================================== *)
(* 10. the code's machine (integer cells) is the image of lmachine          *)
(* ====================================================================== *)
Notation ZM := zmachine.
Definition phiL (l : list f64) : Z := Z.of_nat (length l).
Lemma phi_z : phiL [] = 0. Proof. reflexivity. Qed.
Lemma phi_a x y : phiL (x ++ y) = phiL x + phiL y. Proof. unfold phiL. rewrite app_length. lia. Qed.
Lemma phi_o (v : f64) : phiL [v] = 1. Proof. reflexivity. Qed.
Lemma phi_l x : (fun x : Z => x) (phiL x) = (fun l : list f64 => Z.of_nat (length l)) x. Proof. reflexivity. Qed.
Definition zcfg : Conc.config LM -> Conc.config ZM :=
  mcfg (list f64) Z [] (@app f64) (fun v => [v]) (fun l => Z.of_nat (length l)) 0 Z.add (fun _ => 1) (fun x => x) phiL.
Definition zmapm : cmap (list f64) -> cmap Z := mmap (list f64) Z phiL.
Definition zout : noutL -> nout Z := mout (list f64) Z phiL.
Definition zret : nretL -> nret Z := mret (list f64) Z phiL.
Definition zsh : nshL -> nsh Z := msh (list f64) Z phiL.

Lemma zrun g progs sched :
  run_sched ZM (init_config ZM (ninit Z 0 g) progs) sched = zcfg (run_sched LM (init_config LM (linit g) progs) sched).
Proof.
  unfold zcfg. rewrite <- (run_hom _ _ _ _ _ _ _ _ _ _ _ phi_z phi_a phi_o phi_l).
  rewrite (init_hom (list f64) Z [] (@app f64) (fun v => [v]) (fun l => Z.of_nat (length l)) 0 Z.add (fun _ => 1) (fun x => x) phiL). reflexivity.
Qed.

Lemma InvN_reachable g progs sched : g_min_reset g = 0 -> InvN (nobs_progs progs) (run_sched LM (init_config LM (linit g) progs) sched).
Proof.
  intros G0.
  assert (H : NoR (run_sched LM (init_config LM (linit g) progs) sched) /\ InvN (nobs_progs progs) (run_sched LM (init_config LM (linit g) progs) sched)).
  { apply (run_sched_ind LM (fun c => NoR c /\ InvN (nobs_progs progs) c)).
    - intros c tid c' [Hn Hc] Hs. split; [exact (NoR_step c tid c' Hn Hs)|exact (InvN_step _ c tid c' Hn Hc Hs)].
    - split; [apply NoR_init; exact G0|apply InvN_init; reflexivity]. }
  apply H.
Qed.
(* a thread that has finished has nothing left to do (needs no hypothesis on the configuration) *)
Definition InvQ (c : Conc.config LM) : Prop := forall t, In t (thr c) -> t_cur t = None -> t_todo t = [].
Lemma InvQ_reachable g progs sched : InvQ (run_sched LM (init_config LM (linit g) progs) sched).
Proof.
  apply (run_sched_ind LM InvQ).
  - intros c tid c' Q St. destruct (sched_step_L c tid c' St) as (t & o & pc & inv & h' & nxt & Hi & Hc & Hs & Esh & Et).
    unfold InvQ. rewrite Et. intros t' Hin Hn'. apply In_nth_error in Hin. destruct Hin as [j Hj].
    destruct (nth_error_set_nth_inv _ _ _ _ _ Hj) as [[-> ->]|[Nj Hj']].
    + destruct nxt as [l'|r]; [discriminate Hn'|]. destruct (t_todo t) as [|o' rest]; [reflexivity|discriminate Hn'].
    + apply Q; [apply (nth_error_In _ _ Hj')|exact Hn'].
  - unfold InvQ, init_config. cbn [thr]. generalize (map Z.of_nat (seq 0 (length progs))). intros ids. revert progs.
    induction ids as [|id ids IH]; intros [|p ps]; cbn [combine map]; try solve [intros t []].
    intros t [<-|Hin] Hn; [|apply (IH ps t Hin Hn)]. rewrite advance_L in *. cbn [fst] in *. destruct p as [|o rest]; [reflexivity|discriminate Hn].
Qed.

(* populations *)
Lemma zsum_zmapm (m : vmap) : NativeHist.zsum (map snd (zmapm m)) = zl (allc m).
Proof.
  unfold zmapm, mmap, allc. induction m as [|[k c] r IH]; [reflexivity|]. cbn [map snd concat]. rewrite zl_app, <- IH. reflexivity.
Qed.
Lemma zmapm_nonneg (m : vmap) p : In p (zmapm m) -> 0 <= snd p.
Proof. unfold zmapm, mmap. intros H. apply in_map_iff in H. destruct H as (q & <- & _). cbn [snd]. unfold phiL. lia. Qed.
Lemma zmapm_keys_inc (m : vmap) : srt m -> keys_increasing (zmapm m) = true.
Proof.
  unfold zmapm, mmap. destruct m as [|[k c] r]; [reflexivity|]. cbn [srt]. revert k c. induction r as [|[k1 c1] r IH]; intros k c H; [reflexivity|].
  cbn [lbound] in H. destruct H as [L H].
  change (keys_increasing (map (fun p => (fst p, phiL (snd p))) ((k, c) :: (k1, c1) :: r)))
    with (Z.ltb k k1 && keys_increasing (map (fun p => (fst p, phiL (snd p))) ((k1, c1) :: r))).
  rewrite (IH k1 c1 H). destruct (Z.ltb_spec k k1); [reflexivity|lia].
Qed.
Lemma nn_nan (E : list f64) : zl E = zl (nn E) + nan_count E.
Proof.
  unfold nan_count, zl, NativeHist.zlen, nn. induction E as [|v E IH]; [reflexivity|]. cbn [filter length]. destruct (is_nan v); cbn [negb length]; lia.
Qed.

(* what a completed Write exposes, in the code's terms *)
Definition zout_ok (o : nout Z) : Prop :=
  (forall p, In p (no_pos Z o ++ no_neg Z o) -> 0 <= snd p) /\ 0 <= no_zc Z o /\
  keys_increasing (no_pos Z o) = true /\ keys_increasing (no_neg Z o) = true /\
  exists E : list f64, no_count Z o = NativeHist.zlen E /\
    no_zc Z o + NativeHist.zsum (map snd (no_pos Z o)) + NativeHist.zsum (map snd (no_neg Z o)) + nan_count E = no_count Z o.

Lemma zout_ok_of_good (o : noutL) : good_out o -> zout_ok (zout o).
Proof.
  intros (E & EC & P & S1 & S2). unfold zout_ok, zout, mout. cbn [no_pos no_neg no_zc no_count].
  fold (zmapm (no_pos VC o)). fold (zmapm (no_neg VC o)). split; [|split; [unfold phiL; lia|split; [apply zmapm_keys_inc; exact S1|split; [apply zmapm_keys_inc; exact S2|]]]].
  - intros p Hp. apply in_app_or in Hp. destruct Hp as [Hp|Hp]; apply (zmapm_nonneg _ _ Hp).
  - exists E. split; [symmetry; exact EC|]. rewrite !zsum_zmapm. apply Permutation_length in P. rewrite !app_length in P.
    pose proof (nn_nan E). unfold zl, phiL in *. lia.
Qed.

Lemma good_ret_cases (r : nretL) : good_ret r -> zret r <> NPanic Z /\ forall o, zret r = NOut Z o -> zout_ok o.
Proof.
  destruct r as [|o1|]; cbn [good_ret zret mret]; intros G.
  - split; [discriminate|intros o E; discriminate E].
  - split; [discriminate|]. intros o E. inversion E. apply (zout_ok_of_good o1 G).
  - contradiction.
Qed.

Section ZThm.
Variables (g : config) (progs : list (list nop)) (sched : list Z).
Let zc := run_sched ZM (init_config ZM (ninit Z 0 g) progs) sched.
Let lc := run_sched LM (init_config LM (linit g) progs) sched.

Lemma zc_eq : zc = zcfg lc. Proof. apply zrun. Qed.

Lemma writes_ok_Z : forall k, In k (Conc.hist zc) ->
  c_ret k <> NPanic Z /\ forall o, c_ret k = NOut Z o -> zout_ok o.
Proof.
  intros k Hk. rewrite zc_eq in Hk. unfold zcfg, mcfg in Hk. cbn [Conc.hist] in Hk. apply in_map_iff in Hk.
  destruct Hk as (k1 & <- & Hk1). pose proof (writes_good_L g progs sched k1 Hk1) as G.
  exact (good_ret_cases _ G).
Qed.

Lemma no_deadlock_Z : all_done ZM zc = false -> exists tid, sched_step ZM zc tid <> None.
Proof.
  rewrite zc_eq. intros Hd.
  assert (Hd' : all_done LM lc = false).
  { rewrite <- Hd. symmetry. apply (all_done_hom (list f64) Z [] (@app f64) (fun v => [v]) (fun l => Z.of_nat (length l)) 0 Z.add (fun _ => 1) (fun x => x) phiL). }
  destruct (no_deadlock_L g progs sched Hd') as [tid Ht]. exists tid.
  pose proof (sched_step_hom (list f64) Z [] (@app f64) (fun v => [v]) (fun l => Z.of_nat (length l)) 0 Z.add (fun _ => 1) (fun x => x) phiL phi_z phi_a phi_o phi_l lc tid) as E.
  intros En. unfold zcfg in En. change ZM with (M2 Z 0 Z.add (fun _ => 1) (fun x => x)) in En. rewrite E in En.
  destruct (sched_step (M1 (list f64) [] (@app f64) (fun v => [v]) (fun l => Z.of_nat (length l))) lc tid) eqn:E1; [discriminate|]. apply Ht. exact E1.
Qed.
End ZThm.

Lemma allc_nil_cells (m : vmap) : allc m = [] -> forall p, In p (zmapm m) -> snd p = 0.
Proof.
  unfold allc, zmapm, mmap. intros H p Hp. apply in_map_iff in Hp. destruct Hp as ([k c] & <- & Hin). cbn [snd fst].
  assert (c = []); [|subst; reflexivity].
  clear -H Hin. induction m as [|[k0 c0] r IH]; [destruct Hin|]. cbn [map concat snd] in H. apply app_eq_nil in H. destruct H as [H1 H2].
  destruct Hin as [E|Hin]; [inversion E; subst; auto|apply IH; assumption].
Qed.

Definition zquiet (h : nsh Z) (N : Z) : Prop :=
  let hot := nget Z h (nh_hot Z h) in let cold := nget Z h (negb (nh_hot Z h)) in
  nh_mtx Z h = false /\ nh_tk Z h = N /\ ns_cnt Z hot = N /\
  (forall p, In p (ns_pos Z hot ++ ns_neg Z hot) -> 0 <= snd p) /\ 0 <= ns_zb Z hot /\
  keys_increasing (ns_pos Z hot) = true /\ keys_increasing (ns_neg Z hot) = true /\
  (exists E : list f64, NativeHist.zlen E = N /\
     ns_zb Z hot + NativeHist.zsum (map snd (ns_pos Z hot)) + NativeHist.zsum (map snd (ns_neg Z hot)) + nan_count E = N) /\
  ns_cnt Z cold = 0 /\ ns_zb Z cold = 0 /\ (forall p, In p (ns_pos Z cold ++ ns_neg Z cold) -> snd p = 0).

Lemma quiescent_img (hl : nshL) (N : Z) :
  nh_mtx VC hl = false -> nh_tk VC hl = N -> nh_tk VC hl = zl (cntv (gs hl (nh_hot VC hl))) ->
  Permutation (sec (gs hl (nh_hot VC hl))) (nn (cntv (gs hl (nh_hot VC hl)))) ->
  cntv (gs hl (negb (nh_hot VC hl))) = [] -> ns_zb VC (gs hl (negb (nh_hot VC hl))) = [] ->
  allc (ns_pos VC (gs hl (negb (nh_hot VC hl)))) = [] -> allc (ns_neg VC (gs hl (negb (nh_hot VC hl)))) = [] -> SRT hl ->
  zquiet (zsh hl) N.
Proof.
  intros Mt EN Tk P C1 C2 C3 C4 (S1 & S2 & S3 & S4). unfold zquiet, zsh. cbv zeta.
  cbn [msh nh_hot nh_mtx nh_tk]. rewrite !m_nget. cbn [mset ns_cnt ns_zb ns_pos ns_neg].
  change (mmap VC Z phiL) with zmapm. change (nget VC hl) with (gs hl) in *. unfold cntv in *.
  assert (Shot : srt (ns_pos VC (gs hl (nh_hot VC hl))) /\ srt (ns_neg VC (gs hl (nh_hot VC hl)))) by (destruct (nh_hot VC hl); split; assumption).
  split; [exact Mt|]. split; [exact EN|]. split; [unfold phiL; fold (zl (ns_cnt VC (gs hl (nh_hot VC hl)))); lia|].
  split; [intros p Hp; apply in_app_or in Hp; destruct Hp as [Hp|Hp]; apply (zmapm_nonneg _ _ Hp)|].
  split; [unfold phiL; lia|]. split; [apply zmapm_keys_inc; apply Shot|]. split; [apply zmapm_keys_inc; apply Shot|].
  split.
  - exists (ns_cnt VC (gs hl (nh_hot VC hl))). split; [unfold NativeHist.zlen; fold (zl (ns_cnt VC (gs hl (nh_hot VC hl)))); lia|].
    rewrite !zsum_zmapm. apply Permutation_length in P. unfold sec in P. rewrite !app_length in P.
    pose proof (nn_nan (ns_cnt VC (gs hl (nh_hot VC hl)))). unfold zl, phiL in *. lia.
  - rewrite C1, C2. split; [reflexivity|split; [reflexivity|]]. intros p Hp. apply in_app_or in Hp.
    destruct Hp as [Hp|Hp]; [apply (allc_nil_cells _ C3 p Hp)|apply (allc_nil_cells _ C4 p Hp)].
Qed.

Section ZThm2.
Variables (g : config) (progs : list (list nop)) (sched : list Z).
Let zc := run_sched ZM (init_config ZM (ninit Z 0 g) progs) sched.
Let lc := run_sched LM (init_config LM (linit g) progs) sched.

(* with or without resets: at quiescence everything is relative to the ticket counter, which the last completed swap reset *)
Lemma quiescent_Z_gen : all_done ZM zc = true -> zquiet (sh zc) (nh_tk Z (sh zc)).
Proof.
  intros Hd. assert (Ez : zc = zcfg lc) by apply zrun.
  assert (Hd' : all_done LM lc = true).
  { rewrite <- Hd, Ez. symmetry. apply (all_done_hom (list f64) Z [] (@app f64) (fun v => [v]) (fun l => Z.of_nat (length l)) 0 Z.add (fun _ => 1) (fun x => x) phiL). }
  pose proof (quiescent_L g progs sched Hd') as Q. cbv zeta in Q. fold lc in Q.
  destruct Q as (Mt & Tk & P & C1 & C2 & C3 & C4 & SR). rewrite Ez.
  exact (quiescent_img (sh lc) _ Mt eq_refl Tk P C1 C2 C3 C4 SR).
Qed.
Lemma quiescent_Z : g_min_reset g = 0 -> all_done ZM zc = true -> zquiet (sh zc) (nobs_progs progs).
Proof.
  intros G0 Hd. assert (Ez : zc = zcfg lc) by apply zrun.
  assert (Hd' : all_done LM lc = true).
  { rewrite <- Hd, Ez. symmetry. apply (all_done_hom (list f64) Z [] (@app f64) (fun v => [v]) (fun l => Z.of_nat (length l)) 0 Z.add (fun _ => 1) (fun x => x) phiL). }
  pose proof (quiescent_L g progs sched Hd') as Q. cbv zeta in Q. fold lc in Q.
  destruct Q as (Mt & Tk & P & C1 & C2 & C3 & C4 & SR).
  destruct (InvN_reachable g progs sched G0) as [EN QN]. fold lc in EN, QN.
  assert (PN : tsum (map pend (thr lc)) = 0).
  { apply zsum_all_zero. intros t Ht. unfold pend. pose proof (all_done_cur lc Hd' t Ht) as Ec. unfold tpc in Ec.
    destruct (t_cur t) as [[[o pc] inv]|] eqn:E; [discriminate|]. rewrite (QN t Ht E). reflexivity. }
  rewrite PN, Z.add_0_r in EN. rewrite Ez.
  exact (quiescent_img (sh lc) _ Mt EN Tk P C1 C2 C3 C4 SR).
Qed.
End ZThm2.

(* ====================================================================== *)
(* 11. the counted values are the observed values                           *)
(* ====================================================================== *)
Definition obs_vals (l : list nop) : list f64 := flat_map (fun o => match o with NObserve v => [v] | _ => [] end) l.
Definition pvpc (pc : npcL) : list f64 :=
  match pc with
  | oTicket _ v | oSumLoad _ v _ | oSumCas _ v _ _ | oLoadSch _ v _ | oLoadZt _ v _ _ | oBkLoad _ v _ _ _ | oBkLos _ v _ _ _
  | oBkAdd _ v _ _ _ | oBnAdd _ v _ | oZero _ v _ | oCount _ v _ => [v]
  | _ => []
  end.
Definition pvx (x : option npcL) : list f64 := match x with Some pc => pvpc pc | None => [] end.
Definition pv (t : thread LM) : list f64 := obs_vals (t_todo t) ++ pvx (tpc t).
Definition PV (T : list (thread LM)) : list f64 := concat (map pv T).
Definition dupx (h : nshL) (x : option npcL) : list f64 :=
  match x with Some (aStoreCnt _ _ c _) => cntv (gs h c) | _ => [] end.
Definition DUP (h : nshL) (T : list (thread LM)) : list f64 := concat (map (fun t => dupx h (tpc t)) T).
Definition InvV (AV : list f64) (c : Conc.config LM) : Prop :=
  Permutation (cntv (gs (sh c) false) ++ cntv (gs (sh c) true) ++ PV (thr c)) (AV ++ DUP (sh c) (thr c)).

Lemma obs_vals_app a b : obs_vals (a ++ b) = obs_vals a ++ obs_vals b. Proof. apply flat_map_app. Qed.
Lemma pv_next todo idx time : Permutation (pv (next_thread todo idx time)) (obs_vals todo).
Proof.
  destruct todo as [|[v| | |d] rest]; unfold pv, next_thread, tpc; cbn [t_todo t_cur pvx pvpc start_pc obs_vals flat_map app]; rewrite ?app_nil_r; try reflexivity.
  symmetry. apply Permutation_cons_append.
Qed.

(* how one step changes the counts and the value the thread still has to count *)
Definition cnt_eff (h : nshL) (pc : npcL) (h' : nshL) (nxt : npcL + nretL) : Prop :=
  match pc with
  | oCount _ v b => cntv (gs h' b) = cntv (gs h b) ++ [v] /\ cntv (gs h' (negb b)) = cntv (gs h (negb b)) /\
                    match nxt with inl p => pvpc p = [] | inr _ => True end
  | aAddCnt _ _ c _ x => cntv (gs h' (negb c)) = cntv (gs h (negb c)) ++ x /\ cntv (gs h' c) = cntv (gs h c) /\
                         exists k r, nxt = inl (aStoreCnt VC k c r)
  | aStoreCnt _ _ c _ => cntv (gs h' c) = [] /\ cntv (gs h' (negb c)) = cntv (gs h (negb c)) /\
                         match nxt with inl p => dupx h' (Some p) = [] | inr _ => True end
  | _ => (forall X, cntv (gs h' X) = cntv (gs h X)) /\
         match nxt with inl p => pvpc p = pvpc pc /\ dupx h' (Some p) = [] | inr _ => pvpc pc = [] end
  end.
(* the next-pc functions never lead to an observer pc or to aStoreCnt *)
Lemma p_e ph c neg ks : pvpc (e_next VC ph c neg ks) = []. Proof. destruct ks, neg, ph; reflexivity. Qed.
Lemma d_e h ph c neg ks : dupx h (Some (e_next VC ph c neg ks)) = []. Proof. destruct ks, neg, ph; reflexivity. Qed.
Lemma p_m k c neg r ks : pvpc (m_next VC k c neg r ks) = []. Proof. destruct ks, neg, k; reflexivity. Qed.
Lemma d_m h k c neg r ks : dupx h (Some (m_next VC k c neg r ks)) = []. Proof. destruct ks, neg, k; reflexivity. Qed.
Lemma p_ma k c neg r kk ks : pvpc (m_added VC k c neg r kk ks) = []. Proof. destruct k; cbn [m_added]; try reflexivity; apply p_m. Qed.
Lemma d_ma h k c neg r kk ks : dupx h (Some (m_added VC k c neg r kk ks)) = []. Proof. destruct k; cbn [m_added]; try reflexivity; apply d_m. Qed.
Lemma p_w c neg o ks : pvpc (w_next VC c neg o ks) = []. Proof. destruct ks, neg; reflexivity. Qed.
Lemma d_w h c neg o ks : dupx h (Some (w_next VC c neg o ks)) = []. Proof. destruct ks, neg; reflexivity. Qed.
Lemma p_ac k c count : pvpc (after_cool VC k c count) = []. Proof. destruct k; reflexivity. Qed.
Lemma d_ac h k c count : dupx h (Some (after_cool VC k c count)) = []. Proof. destruct k; reflexivity. Qed.
Lemma p_aa k c r : pvpc (after_addreset VC k c r) = []. Proof. destruct k; reflexivity. Qed.
Lemma d_aa h k c r : dupx h (Some (after_addreset VC k c r)) = []. Proof. destruct k; reflexivity. Qed.
Lemma cnt_step h pc h' nxt : lstep h pc = Some (h', nxt) -> is_rpc pc = false -> cnt_eff h pc h' nxt.
Proof.
  intros Hs Hr. destruct pc; try discriminate Hr; clear Hr; stepin Hs;
    repeat match goal with
           | H : context [if ?c then _ else _] |- _ => destruct c
           | H : context [match ?x with _ => _ end] |- _ =>
               lazymatch type of x with list _ => destruct x | option _ => destruct x | mctx => destruct x | ephase => destruct x end
           end; try discriminate; inversion Hs; subst; clear Hs; unfold cnt_eff, upd_side;
    repeat match goal with h0 : nshL |- _ => destruct h0 end; hsimp; unfold cntv;
    repeat match goal with b : bool |- _ => destruct b end; hsimp;
    repeat split; try (intros [|]; reflexivity); try reflexivity; eauto;
    rewrite ?p_e, ?d_e, ?p_m, ?d_m, ?p_ma, ?d_ma, ?p_w, ?d_w, ?p_ac, ?d_ac, ?p_aa, ?d_aa; try reflexivity;
    repeat match goal with |- context [if ?b then _ else _] => destruct b | |- context [match ?x with _ => _ end] => destruct x end; reflexivity.
Qed.

Lemma PV_set T i t t' : nth_error T i = Some t -> Permutation (pv t ++ PV (set_nth T i t')) (pv t' ++ PV T).
Proof. intros H. apply (concat_set_nth pv T i t t' H). Qed.
Lemma DUP_set h T i t t' : nth_error T i = Some t ->
  Permutation (dupx h (tpc t) ++ DUP h (set_nth T i t')) (dupx h (tpc t') ++ DUP h T).
Proof. intros H. apply (concat_set_nth (fun t => dupx h (tpc t)) T i t t' H). Qed.
Lemma DUP_ext h h' T : (forall t, In t T -> dupx h' (tpc t) = dupx h (tpc t)) -> DUP h' T = DUP h T.
Proof. intros H. unfold DUP. f_equal. apply map_ext_in. exact H. Qed.
Lemma dupx_holds h x : dupx h x <> [] -> hcnt x = 1.
Proof. destruct x as [pc|]; [|intros H; contradiction H; reflexivity]. destruct pc; cbn [dupx]; intros H; try (contradiction H; reflexivity). reflexivity. Qed.
Lemma others_nodup c i t : Inv c -> nth_error (thr c) i = Some t -> hcnt (tpc t) = 1 ->
  forall h j tj, j <> i -> nth_error (thr c) j = Some tj -> dupx h (tpc tj) = [].
Proof.
  intros I Hi Hh h j tj Nj Hj. destruct (dupx h (tpc tj)) eqn:E; [reflexivity|exfalso].
  assert (Hj1 : hcnt (tpc tj) = 1) by (apply (dupx_holds h); rewrite E; discriminate).
  pose proof (NH_two (thr c) i j t tj Hi Hj (fun e => Nj (eq_sym e)) Hh Hj1) as G.
  pose proof (i_nh c I) as N. destruct (nh_mtx VC (sh c)); lia.
Qed.
Lemma DUP_holder c i t : Inv c -> nth_error (thr c) i = Some t -> hcnt (tpc t) = 1 ->
  forall h t', Permutation (DUP h (set_nth (thr c) i t')) (dupx h (tpc t')).
Proof.
  intros I Hi Hh h t'. pose (t0 := mkThread LM [] None 0).
  assert (Z0 : DUP h (set_nth (thr c) i t0) = []).
  { apply concat_all_nil. intros tj Hin. apply In_nth_error in Hin. destruct Hin as [j Hj].
    destruct (nth_error_set_nth_inv _ _ _ _ _ Hj) as [[-> ->]|[Nj Hj']]; [reflexivity|]. apply (others_nodup c i t I Hi Hh h j tj Nj Hj'). }
  assert (Hi0 : nth_error (set_nth (thr c) i t0) i = Some t0) by (apply (nth_error_set_nth_eq _ _ _ _ Hi)).
  pose proof (DUP_set h (set_nth (thr c) i t0) i t0 t' Hi0) as P. change (dupx h (tpc t0)) with (@nil f64) in P. cbn [app] in P.
  rewrite Z0, app_nil_r in P.
  assert (E : set_nth (set_nth (thr c) i t0) i t' = set_nth (thr c) i t').
  { clear. generalize (thr c). intros T. revert i. induction T as [|a T IH]; intros [|i]; cbn; try reflexivity. rewrite IH. reflexivity. }
  rewrite E in P. exact P.
Qed.

Lemma set_nth_same {A} (l : list A) : forall n x, nth_error l n = Some x -> set_nth l n x = l.
Proof. induction l as [|a l IH]; intros [|n] x H; cbn in *; try discriminate; [inversion H; reflexivity|rewrite IH; auto]. Qed.
Lemma DUP_nil c i t : Inv c -> nth_error (thr c) i = Some t -> hcnt (tpc t) = 1 ->
  forall h, Permutation (DUP h (thr c)) (dupx h (tpc t)).
Proof.
  intros I Hi Hh h. pose proof (DUP_holder c i t I Hi Hh h t) as P. rewrite (set_nth_same _ _ _ Hi) in P. exact P.
Qed.

Lemma InvV_step AV c tid c' : NoR c -> Inv c -> InvV AV c -> sched_step LM c tid = Some c' -> InvV AV c'.
Proof.
  intros [_ NT] I V St. destruct (sched_step_L c tid c' St) as (t & o & pc & inv & h' & nxt & Hi & Hc & Hs & Esh & Et).
  pose proof (tpc_cur t o pc inv Hc) as Ht. pose proof (cnt_step _ _ _ _ Hs (NT t o pc inv (nth_error_In _ _ Hi) Hc)) as CE.
  unfold InvV in *. rewrite Esh, Et.
  set (t' := match nxt with inl l' => mkThread LM (t_todo t) (Some (o, l', inv)) (t_idx t) | inr _ => next_thread (t_todo t) (t_idx t + 1) (now c + 1) end) in *.
  pose proof (PV_set (thr c) (Z.to_nat tid) t t' Hi) as PS. unfold pv at 1 in PS. rewrite Ht in PS. cbn [pvx] in PS.
  assert (Pt' : forall l, match nxt with inl p9 => pvpc p9 = l | inr _ => l = [] end -> Permutation (pv t') (obs_vals (t_todo t) ++ l)).
  { intros l Hl. unfold t'. destruct nxt as [p9|r9].
    - unfold pv, tpc. cbn [t_todo t_cur pvx]. rewrite Hl. reflexivity.
    - subst l. rewrite app_nil_r. apply pv_next. }
  assert (Dt' : forall hh, dupx hh (tpc t') = match nxt with inl p9 => dupx hh (Some p9) | inr _ => [] end).
  { intros hh. unfold t'. destruct nxt as [p9|r9]; [reflexivity|]. destruct (t_todo t) as [|[v| | |d] rest]; reflexivity. }
  pose proof (DUP_set h' (thr c) (Z.to_nat tid) t t' Hi) as DS. rewrite Ht, Dt' in DS.
  set (T := thr c) in *. set (h := sh c) in *. set (i := Z.to_nat tid) in *.
  destruct pc; cbn [cnt_eff] in CE;
  try (destruct CE as [CS CN];
       assert (PVe : Permutation (PV (set_nth T i t')) (PV T)) by
         (match type of PS with Permutation ((?a ++ ?b) ++ _) _ =>
            apply (Permutation_app_inv_l (a ++ b)); rewrite PS; rewrite (Pt' b) by (destruct nxt as [p9|r9]; apply CN); reflexivity end);
       assert (DUe : Permutation (DUP h' (set_nth T i t')) (DUP h T)) by
         (replace (match nxt with inl p9 => dupx h' (Some p9) | inr _ => [] end) with (@nil f64) in DS
            by (destruct nxt as [p9|r9]; [symmetry; apply CN|reflexivity]);
          cbn [dupx app] in DS; rewrite DS; rewrite (DUP_ext h h' T); [reflexivity|];
          intros tj _; destruct (tpc tj) as [[]|]; cbn [dupx]; try reflexivity; apply CS);
       rewrite !CS, PVe, DUe; exact V).
  - (* oCount *) destruct CE as (C1 & C2 & CN).
    assert (Pvt : Permutation (pv t') (obs_vals (t_todo t))).
    { rewrite (Pt' []); [rewrite app_nil_r; reflexivity|]. destruct nxt as [p9|r9]; [exact CN|reflexivity]. }
    assert (PVe : Permutation ([v] ++ PV (set_nth T i t')) (PV T)).
    { apply (Permutation_app_inv_l (obs_vals (t_todo t))). cbn [pvpc] in PS. rewrite app_assoc, PS, Pvt. reflexivity. }
    assert (DUe : Permutation (DUP h' (set_nth T i t')) (DUP h T)).
    { replace (match nxt with inl p9 => dupx h' (Some p9) | inr _ => [] end) with (@nil f64) in DS.
      2:{ clear - Hs. stepin Hs. inversion Hs. destruct (is_nan v || _); reflexivity. }
      cbn [dupx app] in DS. rewrite DS. rewrite (DUP_ext h h' T); [reflexivity|].
      intros tj Hin. destruct (tpc tj) as [pcj|] eqn:Ej; [|reflexivity]. destruct pcj; try reflexivity. cbn [dupx].
      apply In_nth_error in Hin. destruct Hin as [j Hj]. unfold tpc in Ej. destruct (t_cur tj) as [[[oj pcj] invj]|] eqn:Ecj; [|discriminate]. inversion Ej. subst pcj.
      pose proof (i_hold c I j tj oj _ invj Hj Ecj eq_refl) as P. cbn [Phi] in P. destruct P as ((_ & F0 & _) & _).
      pose proof (F_ge b T i t Hi) as G. rewrite Ht in G. cbn [fcnt inflight] in G. rewrite Bool.eqb_reflx in G.
      assert (c0 = negb b) by (destruct c0, b; cbn in *; try reflexivity; fold T in F0; lia). subst c0. exact C2. }
    rewrite DUe, <- V, <- PVe. destruct b; cbn [negb] in *; rewrite C1, C2; perm.
  - (* aAddCnt *) destruct CE as (C1 & C2 & kk & rr & ->).
    pose proof (i_hold c I i t o _ inv Hi Hc eq_refl) as P. cbn [Phi] in P. destruct P as (_ & _ & Ex). fold h in Ex.
    assert (Hh : hcnt (tpc t) = 1) by (rewrite Ht; reflexivity).
    assert (PVe : Permutation (PV (set_nth T i t')) (PV T)).
    { apply (Permutation_app_inv_l (obs_vals (t_todo t) ++ [])). cbn [pvpc] in PS. rewrite PS. rewrite (Pt' []); reflexivity. }
    pose proof (DUP_holder c i t I Hi Hh h' t') as D1. rewrite Dt' in D1. cbn [dupx] in D1.
    pose proof (DUP_nil c i t I Hi Hh h) as D0. rewrite Ht in D0. cbn [dupx] in D0. apply Permutation_sym, Permutation_nil in D0.
    fold T in D0, D1. fold h in D0. rewrite D0, app_nil_r in V. rewrite D1, PVe, C2, <- Ex.
    destruct c0; cbn [negb] in *; rewrite C1, ?C2; rewrite <- V; perm.
  - (* aStoreCnt *) destruct CE as (C1 & C2 & CN).
    assert (Hh : hcnt (tpc t) = 1) by (rewrite Ht; reflexivity).
    assert (PVe : Permutation (PV (set_nth T i t')) (PV T)).
    { apply (Permutation_app_inv_l (obs_vals (t_todo t) ++ [])). cbn [pvpc] in PS. rewrite PS. rewrite (Pt' []); [reflexivity|].
      destruct nxt as [p9|r9]; [|reflexivity]. stepin Hs. inversion Hs. reflexivity. }
    pose proof (DUP_holder c i t I Hi Hh h' t') as D1. rewrite Dt' in D1.
    replace (match nxt with inl p9 => dupx h' (Some p9) | inr _ => [] end) with (@nil f64) in D1 by (destruct nxt as [p9|r9]; [symmetry; exact CN|reflexivity]).
    pose proof (DUP_nil c i t I Hi Hh h) as D0. rewrite Ht in D0. cbn [dupx] in D0.
    fold T in D0, D1. fold h in D0. rewrite D0 in V. rewrite D1, PVe, app_nil_r.
    apply (Permutation_app_inv_r (cntv (gs h c0))). rewrite <- V.
    destruct c0; cbn [negb] in *; rewrite C1, C2; perm.
Qed.

Lemma InvV_init g progs : InvV (obs_vals (concat progs)) (init_config LM (linit g) progs).
Proof.
  unfold InvV, init_config. cbn [sh thr].
  assert (G : forall (ids : list Z) (ps : list (list nop)), length ids = length ps ->
     Permutation (PV (map fst (map (fun p => advance LM (fst p) (snd p) 0 0) (combine ids ps)))) (obs_vals (concat ps)) /\
     DUP (linit g) (map fst (map (fun p => advance LM (fst p) (snd p) 0 0) (combine ids ps))) = []).
  { induction ids as [|id ids IH]; intros [|p ps] L; try discriminate L; cbn [combine map concat].
    - split; reflexivity.
    - destruct (IH ps) as [A B]; [cbn in L; lia|]. rewrite advance_L. cbn [fst snd]. unfold PV, DUP in *. cbn [map concat]. split.
      + rewrite A, obs_vals_app, pv_next. reflexivity.
      + rewrite B. destruct p as [|[v| | |d] rest]; reflexivity. }
  destruct (G (map Z.of_nat (seq 0 (length progs))) progs) as [A B]; [rewrite map_length, seq_length; reflexivity|].
  change (cntv (gs (linit g) false)) with (@nil f64). change (cntv (gs (linit g) true)) with (@nil f64). cbn [app].
  match goal with |- context [PV ?X] => set (TT := X) in * end.
  assert (A' : Permutation (PV TT) (obs_vals (concat progs))) by exact A.
  assert (B' : DUP (linit g) TT = []) by exact B.
  rewrite A', B', app_nil_r. reflexivity.
Qed.

Lemma InvV_reachable g progs sched : g_min_reset g = 0 -> InvV (obs_vals (concat progs)) (run_sched LM (init_config LM (linit g) progs) sched).
Proof.
  intros G0.
  assert (H : (NoR (run_sched LM (init_config LM (linit g) progs) sched) /\ Inv (run_sched LM (init_config LM (linit g) progs) sched)) /\ InvV (obs_vals (concat progs)) (run_sched LM (init_config LM (linit g) progs) sched)).
  { apply (run_sched_ind LM (fun c => (NoR c /\ Inv c) /\ InvV (obs_vals (concat progs)) c)).
    - intros c tid c' [[Hn Hi] Hv] Hs. split; [split; [exact (NoR_step c tid c' Hn Hs)|exact (Inv_step c tid c' Hi Hs)]|exact (InvV_step _ c tid c' Hn Hi Hv Hs)].
    - split; [split; [apply NoR_init; exact G0|apply Inv_init]|apply InvV_init]. }
  apply H.
Qed.

Lemma qv_img (hl : nshL) (AV : list f64) :
  Permutation (cntv (gs hl (nh_hot VC hl))) AV -> Permutation (sec (gs hl (nh_hot VC hl))) (nn (cntv (gs hl (nh_hot VC hl)))) ->
  let h := zsh hl in let hot := nget Z h (nh_hot Z h) in
  ns_cnt Z hot = NativeHist.zlen AV /\
  ns_zb Z hot + NativeHist.zsum (map snd (ns_pos Z hot)) + NativeHist.zsum (map snd (ns_neg Z hot)) + nan_count AV = NativeHist.zlen AV.
Proof.
  intros PV0 P. cbv zeta. unfold zsh. cbn [msh nh_hot]. rewrite m_nget. cbn [mset ns_cnt ns_zb ns_pos ns_neg].
  change (mmap VC Z phiL) with zmapm. rewrite !zsum_zmapm. change (nget VC hl) with (gs hl).
  apply nn_perm in PV0 as PN. rewrite <- P in PN. apply Permutation_length in PN. apply Permutation_length in PV0.
  unfold sec in PN. rewrite !app_length in PN. pose proof (nn_nan AV) as NN.
  unfold cntv, zl, phiL, NativeHist.zlen in *. split; lia.
Qed.

Section ZThm3.
Variables (g : config) (progs : list (list nop)) (sched : list Z).
Let zc := run_sched ZM (init_config ZM (ninit Z 0 g) progs) sched.
Let lc := run_sched LM (init_config LM (linit g) progs) sched.

(* at quiescence the values counted in the hot set are exactly the observed values *)
Lemma quiescent_values_L : g_min_reset g = 0 -> all_done LM lc = true ->
  Permutation (cntv (gs (sh lc) (nh_hot VC (sh lc)))) (obs_vals (concat progs)).
Proof.
  intros G0 Hd. pose proof (InvV_reachable g progs sched G0) as V. fold lc in V. unfold InvV in V.
  pose proof (quiescent_L g progs sched Hd) as Q. cbv zeta in Q. fold lc in Q. destruct Q as (_ & _ & _ & C1 & _).
  pose proof (InvQ_reachable g progs sched) as QN. fold lc in QN.
  pose proof (all_done_cur lc Hd) as AC.
  assert (P0 : PV (thr lc) = []).
  { apply concat_all_nil. intros t Ht. unfold pv. rewrite (AC t Ht). cbn [pvx]. rewrite app_nil_r.
    assert (E : t_cur t = None) by (pose proof (AC t Ht) as A; unfold tpc in A; destruct (t_cur t) as [[[? ?] ?]|]; [discriminate|reflexivity]).
    rewrite (QN t Ht E). reflexivity. }
  assert (D0 : DUP (sh lc) (thr lc) = []) by (apply concat_all_nil; intros t Ht; rewrite (AC t Ht); reflexivity).
  rewrite P0, D0, !app_nil_r in V. rewrite <- V. destruct (nh_hot VC (sh lc)); cbn [negb] in *; rewrite C1; rewrite ?app_nil_r; reflexivity.
Qed.

Lemma quiescent_values_Z : g_min_reset g = 0 -> all_done ZM zc = true ->
  let h := sh zc in let hot := nget Z h (nh_hot Z h) in
  let AV := obs_vals (concat progs) in
  ns_cnt Z hot = NativeHist.zlen AV /\
  ns_zb Z hot + NativeHist.zsum (map snd (ns_pos Z hot)) + NativeHist.zsum (map snd (ns_neg Z hot)) + nan_count AV = NativeHist.zlen AV.
Proof.
  intros G0 Hd. assert (Ez : zc = zcfg lc) by apply zrun.
  assert (Hd' : all_done LM lc = true).
  { rewrite <- Hd, Ez. symmetry. apply (all_done_hom (list f64) Z [] (@app f64) (fun v => [v]) (fun l => Z.of_nat (length l)) 0 Z.add (fun _ => 1) (fun x => x) phiL). }
  pose proof (quiescent_values_L G0 Hd') as PV0.
  pose proof (quiescent_L g progs sched Hd') as Q. cbv zeta in Q. fold lc in Q. destruct Q as (_ & _ & P & _).
  rewrite Ez. exact (qv_img (sh lc) _ PV0 P).
Qed.
End ZThm3.

(* ====================================================================== *)
(* 12. with resets: the ticket counter counts the calls ticketed since the last reset swap *)
(* ====================================================================== *)
Notation ledgerL := (ledger VC [] (@app f64) (fun v => [v]) (fun l => Z.of_nat (length l))).
Notation ledgerZ := (ledger Z 0 Z.add (fun _ => 1) (fun x => x)).
Lemma ledger_tk : forall sched (c : Conc.config LM) L, nh_tk VC (sh c) = zl L ->
  nh_tk VC (sh (run_sched LM c sched)) = zl (ledgerL c sched L).
Proof.
  induction sched as [|a r IH]; intros c L E; cbn [run_sched ledger]; [exact E|].
  change (native_machine VC [] (@app f64) (fun v => [v]) (fun l => Z.of_nat (length l))) with LM.
  destruct (sched_step LM c a) as [c'|] eqn:St; [|apply IH; exact E]. apply IH.
  destruct (sched_step_L c a c' St) as (t & o & pc & inv & h' & nxt & Hi & Hc & Hs & Esh & Et).
  unfold pc_of. change (native_machine VC [] (@app f64) (fun v => [v]) (fun l => Z.of_nat (length l))) with LM.
  change (local LM) with npcL in *. rewrite Hi, Hc, Esh. destruct (tk_step_gen _ _ _ _ Hs) as [A _]. rewrite A, E.
  destruct pc; cbn [tk_eff ledger_eff]; try reflexivity; [unfold zl; cbn [length]; lia|destruct rk; reflexivity].
Qed.

Section ZThm4.
Variables (g : config) (progs : list (list nop)) (sched : list Z).
Let zc := run_sched ZM (init_config ZM (ninit Z 0 g) progs) sched.
Let lc := run_sched LM (init_config LM (linit g) progs) sched.
Let Ldg := ledgerZ (init_config ZM (ninit Z 0 g) progs) sched [].

Lemma ledger_ZL : Ldg = ledgerL (init_config LM (linit g) progs) sched [].
Proof.
  unfold Ldg. rewrite <- (ledger_hom (list f64) Z [] (@app f64) (fun v => [v]) (fun l => Z.of_nat (length l)) 0 Z.add (fun _ => 1) (fun x => x) phiL phi_z phi_a phi_o phi_l).
  rewrite (init_hom (list f64) Z [] (@app f64) (fun v => [v]) (fun l => Z.of_nat (length l)) 0 Z.add (fun _ => 1) (fun x => x) phiL). reflexivity.
Qed.
Lemma tickets_since_reset_Z : nh_tk Z (sh zc) = NativeHist.zlen Ldg.
Proof.
  assert (Ez : zc = zcfg lc) by apply zrun. rewrite Ez, ledger_ZL. unfold zcfg, mcfg. cbn [sh msh nh_tk].
  apply (ledger_tk sched (init_config LM (linit g) progs) []). reflexivity.
Qed.
Lemma quiescent_since_reset_Z : all_done ZM zc = true -> zquiet (sh zc) (NativeHist.zlen Ldg).
Proof. intros Hd. rewrite <- tickets_since_reset_Z. apply (quiescent_Z_gen g progs sched Hd). Qed.
End ZThm4.
