(* Proofs/Str_facts.v -- basic facts about byte strings. *)
From Coq Require Import ZArith List Bool Lia.
From Verif Require Import Base.Str.
Import ListNotations.
Open Scope Z_scope.

Lemma str_eqb_eq a b : str_eqb a b = true <-> a = b.
Proof.
  revert b; induction a as [|x a IH]; intros [|y b]; simpl; split; intros H; try discriminate; try reflexivity.
  - apply andb_true_iff in H. destruct H as [H1 H2]. apply Z.eqb_eq in H1. apply IH in H2. subst; reflexivity.
  - inversion H; subst. rewrite Z.eqb_refl. simpl. apply IH. reflexivity.
Qed.

Lemma str_eqb_refl a : str_eqb a a = true.
Proof. apply str_eqb_eq. reflexivity. Qed.

Lemma str_eqb_neq a b : str_eqb a b = false <-> a <> b.
Proof.
  split; intros H.
  - intros E. apply str_eqb_eq in E. congruence.
  - destruct (str_eqb a b) eqn:E; [apply str_eqb_eq in E; contradiction|reflexivity].
Qed.

Lemma str_in_In s l : str_in s l = true <-> In s l.
Proof.
  unfold str_in. rewrite existsb_exists. split.
  - intros (x & Hx & E). apply str_eqb_eq in E. subst. assumption.
  - intros H. exists s. split; [assumption|apply str_eqb_refl].
Qed.
