(* Proofs/C08_conc.v -- C08, concurrent part: real-time linearizability of Registry.Register/Unregister
   under the interleaving semantics of Base/Conc.v (one step per operation on r.mtx), for ANY hash, ANY
   number of threads, ANY programs and ANY schedule.  Part 1 restates the generic facts about Base/Conc.v
   (the same lemmas as in Proofs/C07_conc.v section Gen, repeated so that C08 does not depend on another
   property's proofs).  Part 2 is the registry machine of Model/RegistryLin.v. *)
From Coq Require Import ZArith List Bool Lia Sorted Permutation.
From Verif Require Import Base.Str Proofs.Str_facts Model.Registry Proofs.C08_proofs Model.RegistryLin Base.Conc.
Import ListNotations.
Open Scope Z_scope.

(* sequential replay of a specification over a list of operations: final state and all results *)
Fixpoint seq_replay {St O R : Type} (f : St -> O -> St * R) (s : St) (ops : list O) : St * list R :=
  match ops with
  | [] => (s, [])
  | o :: r => let (s1, x) := f s o in let (s2, xs) := seq_replay f s1 r in (s2, x :: xs)
  end.

Definition res_le {M} (a b : call M) : Prop := c_res a <= c_res b.
Definition res_lt {M} (a b : call M) : Prop := c_res a < c_res b.

Lemma seq_replay_app {St O R} (f : St -> O -> St * R) l1 : forall s l2,
  seq_replay f s (l1 ++ l2) =
  (let (s1, r1) := seq_replay f s l1 in let (s2, r2) := seq_replay f s1 l2 in (s2, r1 ++ r2)).
Proof.
  induction l1 as [|o r IH]; intros s l2; cbn [seq_replay app].
  - destruct (seq_replay f s l2); reflexivity.
  - destruct (f s o) as [s1 x]. rewrite IH. destruct (seq_replay f s1 r) as [s2 xs].
    destruct (seq_replay f s2 l2); reflexivity.
Qed.

Lemma Forall_set_nth {A} (P : A -> Prop) (l : list A) : forall n x,
  Forall P l -> P x -> Forall P (set_nth l n x).
Proof.
  induction l as [|y r IH]; intros n x HF Hx; cbn [set_nth].
  - destruct n; constructor.
  - inversion HF; subst. destruct n; constructor; auto.
Qed.

Lemma Forall_nth_error {A} (P : A -> Prop) (l : list A) n x :
  Forall P l -> nth_error l n = Some x -> P x.
Proof. intros HF Hn. rewrite Forall_forall in HF. apply HF. eapply nth_error_In; eauto. Qed.

Lemma Forall_mono {A} (P Q : A -> Prop) (l : list A) :
  (forall x, P x -> Q x) -> Forall P l -> Forall Q l.
Proof. intros H HF. eapply Forall_impl; eauto. Qed.

Lemma ss_snoc {A} (R : A -> A -> Prop) (h : list A) k :
  StronglySorted R h -> Forall (fun a => R a k) h -> StronglySorted R (h ++ [k]).
Proof.
  induction h as [|a r IH]; intros HS HF; cbn [app].
  - constructor; constructor.
  - inversion HS; subst. inversion HF; subst. constructor; [auto|].
    apply Forall_app; split; [assumption|constructor; [assumption|constructor]].
Qed.

Lemma ss_app {A} (R : A -> A -> Prop) (h l : list A) :
  StronglySorted R h -> StronglySorted R l -> Forall (fun a => Forall (R a) l) h ->
  StronglySorted R (h ++ l).
Proof.
  induction h as [|a r IH]; intros HS HL HF; cbn [app]; [assumption|].
  inversion HS; subst. inversion HF; subst. constructor; [auto|].
  apply Forall_app; split; assumption.
Qed.

Lemma ss_nth {A} (R : A -> A -> Prop) (h : list A) : StronglySorted R h ->
  forall i j a b, nth_error h i = Some a -> nth_error h j = Some b -> (i < j)%nat -> R a b.
Proof.
  induction 1 as [|x r HS IH HF]; intros i j a b Hi Hj Hlt.
  - destruct i; discriminate.
  - destruct j as [|j]; [lia|]. destruct i as [|i]; cbn [nth_error] in *.
    + inversion Hi; subst. rewrite Forall_forall in HF. apply HF. eapply nth_error_In; eauto.
    + eapply IH; eauto. lia.
Qed.

(* ====================================================================== *)
(* 1. generic facts about the interleaving semantics                       *)
Section Gen.
Variable M : machine.

Lemma run_sched_ind (P : config M -> Prop) :
  (forall c tid c', P c -> sched_step M c tid = Some c' -> P c') ->
  forall sched c, P c -> P (run_sched M c sched).
Proof.
  intros Hstep sched. induction sched as [|t r IH]; intros c Hc; cbn [run_sched]; [assumption|].
  destruct (sched_step M c t) as [c'|] eqn:E; [apply IH; eapply Hstep; eauto|apply IH; assumption].
Qed.

(* what one schedule entry does *)
Lemma sched_step_cases c tid c' : sched_step M c tid = Some c' ->
  exists t o l inv s' nxt,
    nth_error (thr c) (Z.to_nat tid) = Some t /\ t_cur t = Some (o, l, inv) /\
    step M (sh c) l = Some (s', nxt) /\ sh c' = s' /\ now c' = now c + 1 /\
    match nxt with
    | inl l' => hist c' = hist c /\
                thr c' = set_nth (thr c) (Z.to_nat tid) (mkThread M (t_todo t) (Some (o, l', inv)) (t_idx t))
    | inr r => exists t' cs, advance M tid (t_todo t) (t_idx t + 1) (now c + 1) = (t', cs) /\
                hist c' = hist c ++ mkCall tid (t_idx t) o r inv (now c + 1) :: cs /\
                thr c' = set_nth (thr c) (Z.to_nat tid) t'
    end.
Proof.
  unfold sched_step. intros H.
  destruct (nth_error (thr c) (Z.to_nat tid)) as [t|] eqn:Ht; [|discriminate].
  destruct (t_cur t) as [[[o l] inv]|] eqn:Hc; [|discriminate].
  destruct (step M (sh c) l) as [[s' nxt]|] eqn:Hs; [|discriminate].
  exists t, o, l, inv, s', nxt.
  destruct nxt as [l'|r].
  - injection H as <-. cbn. repeat split; auto.
  - destruct (advance M tid (t_todo t) (t_idx t + 1) (now c + 1)) as [t' cs] eqn:Ha.
    injection H as <-. cbn. repeat split; auto. exists t', cs. repeat split; reflexivity.
Qed.

(* a call that returned without executing a step, at time `time` *)
Definition imm (time : Z) (k : call M) : Prop :=
  c_inv k = time /\ c_res k = time /\ start M (c_op k) = inr (c_ret k).
(* a thread as left by `advance` at time `time` *)
Definition fresh (time : Z) (t : thread M) : Prop :=
  match t_cur t with Some (o, l, inv) => inv = time /\ start M o = inl l | None => t_todo t = [] end.

Lemma advance_spec tid todo : forall idx time t cs,
  advance M tid todo idx time = (t, cs) -> fresh time t /\ Forall (imm time) cs.
Proof.
  induction todo as [|o rest IH]; intros idx time t cs H; cbn [advance] in H.
  - inversion H; subst. split; [reflexivity|constructor].
  - destruct (start M o) as [l|r] eqn:Hs.
    + inversion H; subst. split; [cbn; auto|constructor].
    + destruct (advance M tid rest (idx + 1) time) as [t0 cs0] eqn:Ha.
      inversion H; subst. destruct (IH _ _ _ _ Ha) as [H1 H2]. split; [assumption|].
      constructor; [|assumption]. repeat split; assumption.
Qed.

(* the initial configuration, with the thread ids abstracted *)
Definition init_pairs (progs : list (list (op M))) : list (Z * list (op M)) :=
  combine (map Z.of_nat (seq 0 (length progs))) progs.

Lemma init_pairs_snd progs : map snd (init_pairs progs) = progs.
Proof.
  assert (H : forall (l : list (list (op M))) (ids : list Z), length ids = length l -> map snd (combine ids l) = l).
  { induction l as [|p r IH]; intros [|i ids] Hl; cbn in *; try reflexivity; try discriminate.
    f_equal. apply IH. lia. }
  unfold init_pairs. apply H. rewrite map_length, seq_length. reflexivity.
Qed.

Lemma init_thr s0 progs :
  thr (init_config M s0 progs) = map (fun p => fst (advance M (fst p) (snd p) 0 0)) (init_pairs progs).
Proof. unfold init_config, init_pairs. cbn [thr]. rewrite map_map. reflexivity. Qed.
Lemma init_hist s0 progs :
  hist (init_config M s0 progs) = concat (map (fun p => snd (advance M (fst p) (snd p) 0 0)) (init_pairs progs)).
Proof. unfold init_config, init_pairs. cbn [hist]. rewrite map_map. reflexivity. Qed.

Lemma init_fresh s0 progs :
  Forall (fresh 0) (thr (init_config M s0 progs)) /\ Forall (imm 0) (hist (init_config M s0 progs)).
Proof.
  rewrite init_thr, init_hist. induction (init_pairs progs) as [|p r [IH1 IH2]]; cbn [map concat].
  - split; constructor.
  - destruct (advance M (fst p) (snd p) 0 0) as [t cs] eqn:Ha. destruct (advance_spec _ _ _ _ _ _ Ha) as [H1 H2].
    cbn [fst snd]. split; [constructor; assumption|apply Forall_app; split; assumption].
Qed.

(* ---- timing invariant ---- *)
Definition thr_ok (n : Z) (t : thread M) : Prop :=
  match t_cur t with
  | Some (o, l, inv) => 0 <= inv <= n /\ exists l0, start M o = inl l0
  | None => t_todo t = []
  end.

Definition call_ok (n : Z) (k : call M) : Prop :=
  0 <= c_inv k /\ c_res k <= n /\
  ((c_inv k = c_res k /\ start M (c_op k) = inr (c_ret k)) \/
   (c_inv k < c_res k /\ (exists l0, start M (c_op k) = inl l0) /\
    exists s l s', step M s l = Some (s', inr (c_ret k)))).

Definition GI (c : config M) : Prop :=
  0 <= now c /\ Forall (thr_ok (now c)) (thr c) /\ Forall (call_ok (now c)) (hist c) /\
  StronglySorted res_le (hist c).

Lemma thr_ok_mono n n' t : n <= n' -> thr_ok n t -> thr_ok n' t.
Proof. unfold thr_ok. destruct (t_cur t) as [[[o l] inv]|]; [|auto]. intros Hn [H1 H2]. split; [lia|assumption]. Qed.
Lemma call_ok_mono n n' k : n <= n' -> call_ok n k -> call_ok n' k.
Proof. unfold call_ok. intros Hn (H1 & H2 & H3). repeat split; try assumption; lia. Qed.

Lemma fresh_thr_ok time t : 0 <= time -> fresh time t -> thr_ok time t.
Proof.
  unfold fresh, thr_ok. destruct (t_cur t) as [[[o l] inv]|]; [|auto].
  intros Ht [H1 H2]. subst. split; [lia|eauto].
Qed.
Lemma imm_call_ok time k : 0 <= time -> imm time k -> call_ok time k.
Proof. unfold imm, call_ok. intros Ht (H1 & H2 & H3). repeat split; try lia. left. split; [lia|assumption]. Qed.

Lemma ss_all_eq (n : Z) (l : list (call M)) : Forall (fun k => c_res k = n) l -> StronglySorted res_le l.
Proof.
  induction 1 as [|k r Hk HF IH]; constructor; [assumption|].
  eapply Forall_mono; [|exact HF]. intros x Hx. unfold res_le. cbn beta in *. lia.
Qed.

Lemma ss_app_later (n : Z) (h l : list (call M)) :
  StronglySorted res_le h -> Forall (fun k => c_res k <= n) h -> Forall (fun k => c_res k = n + 1) l ->
  StronglySorted res_le (h ++ l).
Proof.
  intros HS HF HL. apply ss_app; [assumption|eapply ss_all_eq; eassumption|].
  eapply Forall_mono; [|exact HF]. intros a Ha. eapply Forall_mono; [|exact HL].
  intros b Hb. unfold res_le. cbn beta in *. lia.
Qed.

Lemma GI_init s0 progs : GI (init_config M s0 progs).
Proof.
  destruct (init_fresh s0 progs) as [H1 H2].
  assert (Hn : now (init_config M s0 progs) = 0) by reflexivity.
  unfold GI. rewrite Hn. repeat split; try lia.
  - eapply Forall_mono; [|exact H1]. intros t. apply fresh_thr_ok. lia.
  - eapply Forall_mono; [|exact H2]. intros k. apply imm_call_ok. lia.
  - apply (ss_all_eq 0). eapply Forall_mono; [|exact H2]. intros k (_ & H & _). exact H.
Qed.

Lemma GI_step c tid c' : GI c -> sched_step M c tid = Some c' -> GI c'.
Proof.
  intros (Hn & HT & HH & HS) Hstep.
  destruct (sched_step_cases _ _ _ Hstep) as (t & o & l & inv & s' & nxt & Ht & Hcur & Hs & Hsh & Hnow & Hrest).
  pose proof (Forall_nth_error _ _ _ _ HT Ht) as Htok. unfold thr_ok in Htok. rewrite Hcur in Htok.
  destruct Htok as [Hinv Hst].
  assert (HT' : Forall (thr_ok (now c')) (thr c))
    by (eapply Forall_mono; [|exact HT]; intros x; apply thr_ok_mono; lia).
  assert (HH' : Forall (call_ok (now c')) (hist c))
    by (eapply Forall_mono; [|exact HH]; intros x; apply call_ok_mono; lia).
  destruct nxt as [l'|r].
  - destruct Hrest as [Hh Hth]. unfold GI. rewrite Hh, Hth. repeat split; try lia; try assumption.
    apply Forall_set_nth; [assumption|]. unfold thr_ok. cbn [t_cur]. split; [lia|assumption].
  - destruct Hrest as (t' & cs & Ha & Hh & Hth). destruct (advance_spec _ _ _ _ _ _ Ha) as [Hf Hcs].
    unfold GI. rewrite Hh, Hth. repeat split; try lia.
    + apply Forall_set_nth; [assumption|]. rewrite Hnow. apply fresh_thr_ok; [lia|assumption].
    + apply Forall_app; split; [assumption|]. constructor.
      * unfold call_ok. cbn [c_inv c_res c_op c_ret]. repeat split; try lia. right. repeat split; try lia; eauto.
      * rewrite Hnow. eapply Forall_mono; [|exact Hcs]. intros k. apply imm_call_ok. lia.
    + apply (ss_app_later (now c)); [assumption| |].
      * eapply Forall_mono; [|exact HH]. intros k (_ & H & _). exact H.
      * constructor; [reflexivity|]. eapply Forall_mono; [|exact Hcs]. intros k (_ & H & _). exact H.
Qed.

Lemma GI_reachable s0 progs sched : GI (run_sched M (init_config M s0 progs) sched).
Proof. apply run_sched_ind; [intros; eapply GI_step; eauto|apply GI_init]. Qed.

End Gen.

(* ====================================================================== *)
(* 2. the registry machine                                                 *)
(* ====================================================================== *)
Lemma nth_error_set_nth {A} (l : list A) : forall n i x,
  nth_error (set_nth l n x) i = if Nat.eqb i n then (match nth_error l n with Some _ => Some x | None => None end) else nth_error l i.
Proof.
  induction l as [|y r IH]; intros n i x; cbn [set_nth].
  - destruct i, n; cbn; try reflexivity. destruct (i =? n)%nat; reflexivity.
  - destruct n as [|n], i as [|i]; cbn; try reflexivity. apply IH.
Qed.

Section RegLin.
Variable hash : str -> str.
Notation rM := (reg_machine hash).

Definition lstate (t : thread rM) : option qlocal :=
  match t_cur t with Some (_, l, _) => Some l | None => None end.
Definition is_holder (l : qlocal) : bool := match l with LRegU _ | LUnLU _ => true | _ => false end.
Definition is_reader (l : qlocal) : bool := match l with LUnRU _ _ => true | _ => false end.
Definition tcount (f : qlocal -> bool) (t : thread rM) : Z :=
  match lstate t with Some l => if f l then 1 else 0 | None => 0 end.
Fixpoint cnt (f : qlocal -> bool) (l : list (thread rM)) : Z :=
  match l with [] => 0 | t :: r => tcount f t + cnt f r end.

Lemma tcount_range f t : 0 <= tcount f t <= 1.
Proof. unfold tcount. destruct (lstate t) as [l|]; [destruct (f l)|]; lia. Qed.

Lemma cnt_nonneg f l : 0 <= cnt f l.
Proof. induction l as [|t r IH]; cbn; [lia|]. pose proof (tcount_range f t). lia. Qed.

Lemma cnt_set_nth f l : forall n t x, nth_error l n = Some t ->
  cnt f (set_nth l n x) = cnt f l - tcount f t + tcount f x.
Proof.
  induction l as [|y r IH]; intros n t x E; [destruct n; discriminate|].
  destruct n as [|n]; cbn in *.
  - inversion E; subst. lia.
  - rewrite (IH _ _ x E). lia.
Qed.

Lemma cnt_member f l : forall n t, nth_error l n = Some t -> tcount f t <= cnt f l.
Proof.
  induction l as [|y r IH]; intros n t E; [destruct n; discriminate|].
  destruct n as [|n]; cbn in *.
  - inversion E; subst. pose proof (cnt_nonneg f r). lia.
  - specialize (IH _ _ E). pose proof (tcount_range f y). lia.
Qed.

Lemma cnt_pos_ex f l : 0 < cnt f l -> exists n t, nth_error l n = Some t /\ tcount f t = 1.
Proof.
  induction l as [|y r IH]; cbn; [lia|]. intros H.
  pose proof (tcount_range f y). destruct (Z.eq_dec (tcount f y) 1) as [E|E].
  - exists 0%nat, y. split; [reflexivity|exact E].
  - destruct IH as (n & t & H1 & H2); [lia|]. exists (S n), t. split; assumption.
Qed.

(* every call performs at least one step *)
Lemma q_advance tid todo idx time :
  advance rM tid todo idx time =
  (match todo with
   | [] => mkThread rM [] None idx
   | o :: rest => mkThread rM rest (Some (o, match o with QReg cid ds => LReg cid ds | QUnreg ds => LUnR ds end, time)) idx
   end, []).
Proof. destruct todo as [|o rest]; [reflexivity|]. destruct o; reflexivity. Qed.

Lemma q_imm_nil time (cs : list (call rM)) : Forall (imm rM time) cs -> cs = [].
Proof.
  destruct cs as [|k r]; [reflexivity|]. intros HF. inversion HF as [|? ? (_ & _ & Hs) _]; subst.
  cbn in Hs. destruct (c_op k); discriminate.
Qed.

Lemma fresh_counts time (t : thread rM) : fresh rM time t -> tcount is_holder t = 0 /\ tcount is_reader t = 0.
Proof.
  unfold fresh, tcount, lstate. destruct (t_cur t) as [[[o l] inv]|]; [|auto].
  intros [_ Hs]. cbn in Hs. destruct o; inversion Hs; subst; cbn; auto.
Qed.

(* ---- lock accounting: no hypothesis on the programs ---- *)
Definition CInv (c : config rM) : Prop :=
  cnt is_holder (thr c) = (if q_w (sh c) then 1 else 0) /\
  cnt is_reader (thr c) = q_n (sh c) /\
  (q_w (sh c) = true -> q_n (sh c) = 0).

Lemma CInv_init progs : CInv (init_config rM q_init progs).
Proof.
  destruct (init_fresh rM q_init progs) as [H1 _].
  assert (Hc : forall f, (f = is_holder \/ f = is_reader) -> cnt f (thr (init_config rM q_init progs)) = 0).
  { intros f Hf. induction H1 as [|t r Ht HF IH]; [reflexivity|]. cbn [cnt]. rewrite IH.
    destruct (fresh_counts _ _ Ht) as [A B]. destruct Hf; subst; lia. }
  unfold CInv. rewrite !Hc by auto. cbn. repeat split; auto; discriminate.
Qed.

Lemma free_true s : free s = true -> q_w s = false /\ q_n s = 0.
Proof. unfold free. rewrite andb_true_iff, negb_true_iff, Z.eqb_eq. tauto. Qed.

Lemma CInv_step c tid c' : CInv c -> sched_step rM c tid = Some c' -> CInv c'.
Proof.
  intros (HH & HR & HW) Hstep.
  destruct (sched_step_cases _ _ _ _ Hstep) as (t & o & l & inv & s' & nxt & Ht & Hcur & Hs & Hsh & Hnow & Hrest).
  pose proof (cnt_member is_holder _ _ _ Ht) as MH. pose proof (cnt_member is_reader _ _ _ Ht) as MR.
  assert (TH : tcount is_holder t = if is_holder l then 1 else 0) by (unfold tcount, lstate; rewrite Hcur; reflexivity).
  assert (TR : tcount is_reader t = if is_reader l then 1 else 0) by (unfold tcount, lstate; rewrite Hcur; reflexivity).
  assert (Hnew : forall f, cnt f (thr c') = cnt f (thr c) - tcount f t +
            match nxt with
            | inl l' => if f l' then 1 else 0
            | inr _ => tcount f (fst (advance rM tid (t_todo t) (t_idx t + 1) (now c + 1)))
            end).
  { intros f. destruct nxt as [l'|r].
    - destruct Hrest as [_ Hth]. rewrite Hth, (cnt_set_nth f _ _ _ _ Ht). reflexivity.
    - destruct Hrest as (t' & cs & Ha & _ & Hth). rewrite Hth, (cnt_set_nth f _ _ _ _ Ht), Ha. reflexivity. }
  assert (Hadv : forall r, nxt = inr r ->
            tcount is_holder (fst (advance rM tid (t_todo t) (t_idx t + 1) (now c + 1))) = 0 /\
            tcount is_reader (fst (advance rM tid (t_todo t) (t_idx t + 1) (now c + 1))) = 0).
  { intros r _. destruct (advance rM tid (t_todo t) (t_idx t + 1) (now c + 1)) as [t' cs] eqn:Ha.
    destruct (advance_spec _ _ _ _ _ _ _ Ha) as [Hf _]. apply (fresh_counts _ _ Hf). }
  change (step rM (sh c) l) with (q_step hash (sh c) l) in Hs.
  unfold CInv. rewrite (Hnew is_holder), (Hnew is_reader), Hsh, TH, TR. clear Hnew.
  pose proof (cnt_nonneg is_reader (thr c)) as NR.
  destruct l as [cid ds|e|ds|ds found|ds|b]; cbn [q_step] in Hs; cbn [is_holder is_reader] in *.
  - destruct (free (sh c)) eqn:F; [|discriminate]. apply free_true in F. destruct F as [Fw Fn].
    destruct (register hash (q_reg (sh c)) cid ds) as [e r']. inversion Hs; subst. cbn. rewrite Fw in HH. repeat split; lia.
  - inversion Hs; subst. destruct (Hadv _ eq_refl) as [A B]. rewrite A, B. cbn.
    destruct (q_w (sh c)); [|lia]. specialize (HW eq_refl). repeat split; try lia; try discriminate.
  - destruct (q_w (sh c)) eqn:W; [discriminate|]. inversion Hs; subst. cbn. repeat split; try lia; try discriminate.
  - assert (W : q_w (sh c) = false). { destruct (q_w (sh c)); [specialize (HW eq_refl); lia|reflexivity]. }
    inversion Hs; subst. cbn. rewrite W in *. destruct found.
    + cbn. repeat split; try lia; try discriminate.
    + destruct (Hadv _ eq_refl) as [A B]. rewrite A, B. repeat split; try lia; try discriminate.
  - destruct (free (sh c)) eqn:F; [|discriminate]. apply free_true in F. destruct F as [Fw Fn].
    destruct (unregister hash (q_reg (sh c)) ds) as [b r']. inversion Hs; subst. cbn. rewrite Fw in HH. repeat split; lia.
  - inversion Hs; subst. destruct (Hadv _ eq_refl) as [A B]. rewrite A, B. cbn.
    destruct (q_w (sh c)); [|lia]. specialize (HW eq_refl). repeat split; try lia; try discriminate.
Qed.

Lemma CInv_reachable progs sched : CInv (run_sched rM (init_config rM q_init progs) sched).
Proof. apply run_sched_ind; [intros; eapply CInv_step; eauto|apply CInv_init]. Qed.

(* ---- no deadlock: while some call is unfinished, some thread can take a step ---- *)
Lemma sched_step_enabled (c : config rM) n t o l inv x :
  nth_error (thr c) n = Some t -> t_cur t = Some (o, l, inv) -> q_step hash (sh c) l = Some x ->
  exists c', sched_step rM c (Z.of_nat n) = Some c'.
Proof.
  intros Ht Hc Hs. unfold sched_step. rewrite Nat2Z.id, Ht, Hc.
  change (step rM (sh c) l) with (q_step hash (sh c) l). rewrite Hs. destruct x as [s' [l'|r]]; [eauto|].
  destruct (advance rM (Z.of_nat n) (t_todo t) (t_idx t + 1) (now c + 1)). eauto.
Qed.

Lemma tcount_one f (t : thread rM) : tcount f t = 1 -> exists o l inv, t_cur t = Some (o, l, inv) /\ f l = true.
Proof.
  unfold tcount, lstate. destruct (t_cur t) as [[[o l] inv]|]; [|discriminate].
  destruct (f l) eqn:E; [|discriminate]. intros _. eauto.
Qed.

Lemma no_deadlock_lemma : forall (progs : list (list qop)) (sched : list Z),
  let c := run_sched rM (init_config rM q_init progs) sched in
  all_done rM c = false -> exists tid c', sched_step rM c tid = Some c'.
Proof.
  intros progs sched c Hd. destruct (CInv_reachable progs sched) as (HH & HR & HW). fold c in HH, HR, HW.
  destruct (q_w (sh c)) eqn:W.
  - destruct (cnt_pos_ex is_holder (thr c)) as (n & t & Ht & H1); [lia|].
    destruct (tcount_one _ _ H1) as (o & l & inv & Hc & Hl).
    destruct l; try discriminate; (eexists; eapply sched_step_enabled; [exact Ht|exact Hc|cbn; reflexivity]).
  - destruct (Z.eq_dec (q_n (sh c)) 0) as [N|N].
    + unfold all_done in Hd.
      assert (exists n t, nth_error (thr c) n = Some t /\ t_cur t <> None) as (n & t & Ht & Hc).
      { clear -Hd. induction (thr c) as [|t r IH]; [discriminate|]. cbn in Hd.
        destruct (t_cur t) eqn:E.
        - exists 0%nat, t. split; [reflexivity|congruence].
        - destruct (IH Hd) as (n & t' & A & B). exists (S n), t'. auto. }
      destruct (t_cur t) as [[[o l] inv]|] eqn:Hcur; [|congruence].
      assert (F : free (sh c) = true) by (unfold free; rewrite W, N; reflexivity).
      destruct l as [cid ds|e|ds|ds found|ds|b];
        try (eexists; eapply sched_step_enabled; [exact Ht|exact Hcur|cbn; rewrite ?F, ?W; reflexivity]).
      * destruct (register hash (q_reg (sh c)) cid ds) as [e r'] eqn:R.
        eexists. eapply sched_step_enabled; [exact Ht|exact Hcur|]. cbn. rewrite F, R. reflexivity.
      * destruct (unregister hash (q_reg (sh c)) ds) as [b r'] eqn:R.
        eexists. eapply sched_step_enabled; [exact Ht|exact Hcur|]. cbn. rewrite F, R. reflexivity.
    + pose proof (cnt_nonneg is_reader (thr c)).
      destruct (cnt_pos_ex is_reader (thr c)) as (n & t & Ht & H1); [lia|].
      destruct (tcount_one _ _ H1) as (o & l & inv & Hc & Hl).
      destruct l; try discriminate. eexists. eapply sched_step_enabled; [exact Ht|exact Hc|cbn; reflexivity].
Qed.

(* ---- facts about the sequential functions used by the critical sections ---- *)
Lemma unregister_notfound r ds : unreg_found hash r ds = false -> unregister hash r ds = (false, r).
Proof. unfold unreg_found, unregister. destruct (find_coll _ _); [discriminate|reflexivity]. Qed.

(* ---- the linearizability invariant ---- *)
Definition tinv (s : qshared) (r : registry) (t : thread rM) : Prop :=
  match t_cur t with
  | None => True
  | Some (o, l, _) =>
      match l with
      | LReg cid ds => o = QReg cid ds
      | LRegU e => reg_spec_step hash r o = (q_reg s, RReg e)
      | LUnR ds => o = QUnreg ds
      | LUnRU ds f => o = QUnreg ds /\ f = unreg_found hash (q_reg s) ds
      | LUnL ds => o = QUnreg ds
      | LUnLU b => reg_spec_step hash r o = (q_reg s, RUn b)
      end
  end.

Definition q_replay (c : config rM) (r : registry) : Prop :=
  seq_replay (reg_spec_step hash) empty_registry (map (@c_op rM) (hist c)) = (r, map (@c_ret rM) (hist c)).

Definition LInv (c : config rM) : Prop :=
  GI rM c /\ CInv c /\
  (exists r, q_replay c r /\
     (forall i t, nth_error (thr c) i = Some t -> tinv (sh c) r t) /\
     (q_w (sh c) = false -> q_reg (sh c) = r)) /\
  StronglySorted res_lt (hist c) /\ Forall (fun k : call rM => c_inv k < c_res k) (hist c).

Lemma fresh_tinv time s r (t : thread rM) : fresh rM time t -> tinv s r t.
Proof.
  unfold fresh, tinv. destruct (t_cur t) as [[[o l] inv]|]; [|trivial].
  intros [_ Hs]. cbn in Hs. destruct o; inversion Hs; subst; reflexivity.
Qed.

Lemma LInv_init progs : LInv (init_config rM q_init progs).
Proof.
  destruct (init_fresh rM q_init progs) as [H1 H2].
  pose proof (q_imm_nil _ _ H2) as Hnil.
  split; [apply GI_init|]. split; [apply CInv_init|]. unfold q_replay. rewrite Hnil. split; [|split; constructor].
  exists empty_registry. split; [reflexivity|]. split; [|reflexivity].
  intros i t Ht. eapply fresh_tinv. eapply Forall_nth_error; [exact H1|exact Ht].
Qed.

Lemma nth_set_cases {A} (l : list A) n x i t0 t : nth_error l n = Some t ->
  nth_error (set_nth l n x) i = Some t0 -> (i = n /\ t0 = x) \/ (i <> n /\ nth_error l i = Some t0).
Proof.
  intros Hn H. rewrite nth_error_set_nth, Hn in H. destruct (Nat.eqb_spec i n) as [E|E].
  - inversion H; subst. left; auto.
  - right; auto.
Qed.

Lemma cnt_zero_member f l i (t : thread rM) : cnt f l = 0 -> nth_error l i = Some t -> tcount f t = 0.
Proof. intros Hc Ht. pose proof (cnt_member f _ _ _ Ht). pose proof (tcount_range f t). lia. Qed.

(* other threads: what their invariant depends on *)
Lemma tinv_same_reg s1 s2 r t0 : q_reg s2 = q_reg s1 -> tinv s1 r t0 -> tinv s2 r t0.
Proof. unfold tinv. intros E. destruct (t_cur t0) as [[[o l] inv]|]; [|trivial]. destruct l; rewrite ?E; trivial. Qed.

Lemma tinv_nonholder s1 r1 s2 r2 t0 : tcount is_holder t0 = 0 -> q_reg s2 = q_reg s1 -> tinv s1 r1 t0 -> tinv s2 r2 t0.
Proof.
  unfold tinv, tcount, lstate. intros Hc E. destruct (t_cur t0) as [[[o l] inv]|]; [|trivial].
  destruct l; cbn in Hc; try discriminate; rewrite ?E; trivial.
Qed.

Lemma tinv_reg_change s1 s2 r t0 : tcount is_holder t0 = 0 -> tcount is_reader t0 = 0 -> tinv s1 r t0 -> tinv s2 r t0.
Proof.
  unfold tinv, tcount, lstate. intros Hh Hr. destruct (t_cur t0) as [[[o l] inv]|]; [|trivial].
  destruct l; cbn in Hh, Hr; try discriminate; trivial.
Qed.

Lemma LInv_step c tid c' : LInv c -> sched_step rM c tid = Some c' -> LInv c'.
Proof.
  intros (HG & HC & (r & HR & HT & HQ) & HS & HL) Hstep.
  pose proof (GI_step _ _ _ _ HG Hstep) as HG'. pose proof (CInv_step _ _ _ HC Hstep) as HC'.
  destruct (sched_step_cases _ _ _ _ Hstep) as (t & o & l & inv & s' & nxt & Ht & Hcur & Hs & Hsh & Hnow & Hrest).
  set (n := Z.to_nat tid) in *.
  pose proof (HT n t Ht) as Hti. unfold tinv in Hti. rewrite Hcur in Hti.
  destruct HG as (Hn & HGT & HGH & _).
  pose proof (Forall_nth_error _ _ _ _ HGT Ht) as Htk. unfold thr_ok in Htk. rewrite Hcur in Htk. destruct Htk as [Hinv _].
  destruct HC as (CH & CR & CW). destruct HC' as (CH' & CR' & CW').
  change (step rM (sh c) l) with (q_step hash (sh c) l) in Hs.
  (* a call that returns at this step: bookkeeping of the history *)
  assert (Hret : forall x, nxt = inr x ->
            exists t', fresh rM (now c + 1) t' /\ hist c' = hist c ++ [mkCall tid (t_idx t) o x inv (now c + 1)] /\
                       thr c' = set_nth (thr c) n t' /\
                       StronglySorted res_lt (hist c') /\ Forall (fun k : call rM => c_inv k < c_res k) (hist c')).
  { intros x ->. destruct Hrest as (t' & cs & Ha & Hh & Hth). destruct (advance_spec _ _ _ _ _ _ _ Ha) as [Hf Hcs].
    pose proof (q_imm_nil _ _ Hcs) as Hnil. subst cs. exists t'. split; [exact Hf|]. split; [exact Hh|]. split; [exact Hth|].
    rewrite Hh. split.
    - apply ss_snoc; [assumption|]. eapply Forall_mono; [|exact HGH]. intros k (_ & Hk & _). unfold res_lt. cbn [c_res]. lia.
    - apply Forall_app; split; [assumption|]. constructor; [|constructor]. cbn [c_inv c_res]. lia. }
  assert (Hstay : forall l', nxt = inl l' -> hist c' = hist c /\
            thr c' = set_nth (thr c) n (mkThread rM (t_todo t) (Some (o, l', inv)) (t_idx t))).
  { intros l' ->. exact Hrest. }
  split; [exact HG'|]. split; [split; [exact CH'|split; [exact CR'|exact CW']]|].
  destruct l as [cid ds|e|ds|ds found|ds|b]; cbn [q_step] in Hs.
  - (* Register: Lock + the whole sequential register *)
    destruct (free (sh c)) eqn:F; [|discriminate]. apply free_true in F. destruct F as [Fw Fn].
    destruct (register hash (q_reg (sh c)) cid ds) as [e r'] eqn:R.
    inversion Hs as [[E1 E2]]; clear Hs; subst nxt; rewrite <- E1 in Hsh; clear E1.
    destruct (Hstay _ eq_refl) as [Hh Hth]. rewrite Fw in CH. rewrite Fn in CR.
    split; [|rewrite Hh; split; assumption].
    exists r. split; [unfold q_replay; rewrite Hh; exact HR|]. split; [|rewrite Hsh; cbn; discriminate].
    intros i t0 Hi. rewrite Hth in Hi. destruct (nth_set_cases _ _ _ _ _ _ Ht Hi) as [[-> ->]|[Hne Hi']].
    + unfold tinv. cbn [t_cur]. rewrite Hsh. cbn [q_reg]. subst o. cbn [reg_spec_step]. rewrite <- (HQ Fw), R. reflexivity.
    + apply (tinv_reg_change (sh c)); [eapply cnt_zero_member; eauto|eapply cnt_zero_member; eauto|apply HT with i; exact Hi'].
  - (* Register: deferred Unlock, the call returns *)
    inversion Hs as [[E1 E2]]; clear Hs; subst nxt; rewrite <- E1 in Hsh; clear E1.
    destruct (Hret _ eq_refl) as (t' & Hf & Hh & Hth & HS' & HL').
    assert (W' : q_w (sh c') = false) by (rewrite Hsh; reflexivity). rewrite W' in CH'.
    split; [|split; assumption].
    exists (q_reg (sh c)). split; [|split; [|rewrite Hsh; reflexivity]].
    + unfold q_replay. rewrite Hh, !map_app, seq_replay_app, HR. cbn [map seq_replay c_op c_ret]. rewrite Hti. reflexivity.
    + intros i t0 Hi. pose proof (cnt_zero_member _ _ _ _ CH' Hi) as Hz.
      rewrite Hth in Hi. destruct (nth_set_cases _ _ _ _ _ _ Ht Hi) as [[-> ->]|[Hne Hi']]; [eapply fresh_tinv; exact Hf|].
      apply (tinv_nonholder (sh c) r); [exact Hz|rewrite Hsh; reflexivity|apply HT with i; exact Hi'].
  - (* Unregister: RLock + probe *)
    destruct (q_w (sh c)) eqn:W; [discriminate|].
    inversion Hs as [[E1 E2]]; clear Hs; subst nxt; rewrite <- E1 in Hsh; clear E1.
    destruct (Hstay _ eq_refl) as [Hh Hth].
    split; [|rewrite Hh; split; assumption].
    exists r. split; [unfold q_replay; rewrite Hh; exact HR|]. split; [|rewrite Hsh; cbn; intros _; apply HQ; reflexivity].
    intros i t0 Hi. rewrite Hth in Hi. destruct (nth_set_cases _ _ _ _ _ _ Ht Hi) as [[-> ->]|[Hne Hi']].
    + unfold tinv. cbn [t_cur]. rewrite Hsh. cbn [q_reg]. split; [exact Hti|reflexivity].
    + apply (tinv_same_reg (sh c)); [rewrite Hsh; reflexivity|apply HT with i; exact Hi'].
  - (* Unregister: RUnlock; absent: the call returns false (it held the read lock since its probe) *)
    destruct Hti as [Ho Hfd].
    assert (W : q_w (sh c) = false).
    { destruct (q_w (sh c)); [|reflexivity]. specialize (CW eq_refl).
      pose proof (cnt_member is_reader _ _ _ Ht) as M. unfold tcount, lstate in M. rewrite Hcur in M. cbn in M. lia. }
    destruct found; inversion Hs as [[E1 E2]]; clear Hs; subst nxt; rewrite <- E1 in Hsh; clear E1.
    + destruct (Hstay _ eq_refl) as [Hh Hth].
      split; [|rewrite Hh; split; assumption].
      exists r. split; [unfold q_replay; rewrite Hh; exact HR|]. split; [|rewrite Hsh; cbn; intros _; apply HQ; exact W].
      intros i t0 Hi. rewrite Hth in Hi. destruct (nth_set_cases _ _ _ _ _ _ Ht Hi) as [[-> ->]|[Hne Hi']].
      * unfold tinv. cbn [t_cur]. exact Ho.
      * apply (tinv_same_reg (sh c)); [rewrite Hsh; reflexivity|apply HT with i; exact Hi'].
    + destruct (Hret _ eq_refl) as (t' & Hf & Hh & Hth & HS' & HL').
      split; [|split; assumption].
      exists r. split; [|split; [|rewrite Hsh; cbn; intros _; apply HQ; exact W]].
      * unfold q_replay. rewrite Hh, !map_app, seq_replay_app, HR. cbn [map seq_replay c_op c_ret]. subst o.
        cbn [reg_spec_step]. rewrite (unregister_notfound r ds); [reflexivity|]. rewrite <- (HQ W). symmetry; exact Hfd.
      * intros i t0 Hi. rewrite Hth in Hi. destruct (nth_set_cases _ _ _ _ _ _ Ht Hi) as [[-> ->]|[Hne Hi']]; [eapply fresh_tinv; exact Hf|].
        apply (tinv_same_reg (sh c)); [rewrite Hsh; reflexivity|apply HT with i; exact Hi'].
  - (* Unregister: Lock + re-check + deletes = the whole sequential unregister *)
    destruct (free (sh c)) eqn:F; [|discriminate]. apply free_true in F. destruct F as [Fw Fn].
    destruct (unregister hash (q_reg (sh c)) ds) as [b r'] eqn:R.
    inversion Hs as [[E1 E2]]; clear Hs; subst nxt; rewrite <- E1 in Hsh; clear E1.
    destruct (Hstay _ eq_refl) as [Hh Hth]. rewrite Fw in CH. rewrite Fn in CR.
    split; [|rewrite Hh; split; assumption].
    exists r. split; [unfold q_replay; rewrite Hh; exact HR|]. split; [|rewrite Hsh; cbn; discriminate].
    intros i t0 Hi. rewrite Hth in Hi. destruct (nth_set_cases _ _ _ _ _ _ Ht Hi) as [[-> ->]|[Hne Hi']].
    + unfold tinv. cbn [t_cur]. rewrite Hsh. cbn [q_reg]. subst o. cbn [reg_spec_step]. rewrite <- (HQ Fw), R. reflexivity.
    + apply (tinv_reg_change (sh c)); [eapply cnt_zero_member; eauto|eapply cnt_zero_member; eauto|apply HT with i; exact Hi'].
  - (* Unregister: deferred Unlock, the call returns what was decided under the write lock *)
    inversion Hs as [[E1 E2]]; clear Hs; subst nxt; rewrite <- E1 in Hsh; clear E1.
    destruct (Hret _ eq_refl) as (t' & Hf & Hh & Hth & HS' & HL').
    assert (W' : q_w (sh c') = false) by (rewrite Hsh; reflexivity). rewrite W' in CH'.
    split; [|split; assumption].
    exists (q_reg (sh c)). split; [|split; [|rewrite Hsh; reflexivity]].
    + unfold q_replay. rewrite Hh, !map_app, seq_replay_app, HR. cbn [map seq_replay c_op c_ret]. rewrite Hti. reflexivity.
    + intros i t0 Hi. pose proof (cnt_zero_member _ _ _ _ CH' Hi) as Hz.
      rewrite Hth in Hi. destruct (nth_set_cases _ _ _ _ _ _ Ht Hi) as [[-> ->]|[Hne Hi']]; [eapply fresh_tinv; exact Hf|].
      apply (tinv_nonholder (sh c) r); [exact Hz|rewrite Hsh; reflexivity|apply HT with i; exact Hi'].
Qed.

Lemma LInv_reachable progs sched : LInv (run_sched rM (init_config rM q_init progs) sched).
Proof. apply run_sched_ind; [intros; eapply LInv_step; eauto|apply LInv_init]. Qed.

(* Real-time linearizability, for ALL programs.  Replaying the SEQUENTIAL model over the calls in the
   order in which they return reproduces every result; that order respects real time: a call that
   returned before another was invoked precedes it.  (The effect of a call happens at the step that
   acquires the lock of its deciding critical section, strictly after its invocation and before its
   response; because writers are exclusive and an Unregister that answers false after its probe holds the
   read lock until it returns, the order of the responses is a valid linearization order.)  When no writer
   is inside, the shared registry is exactly the state reached by the replay. *)
Lemma registry_linearizable_realtime_lemma : forall (progs : list (list qop)) (sched : list Z),
  let c := run_sched rM (init_config rM q_init progs) sched in
  (exists r, seq_replay (reg_spec_step hash) empty_registry (map (@c_op rM) (hist c)) = (r, map (@c_ret rM) (hist c)) /\
             (q_w (sh c) = false -> q_reg (sh c) = r)) /\
  StronglySorted res_lt (hist c) /\
  Forall (fun k : call rM => 0 <= c_inv k < c_res k /\ c_res k <= now c) (hist c) /\
  (forall i j a b, nth_error (hist c) i = Some a -> nth_error (hist c) j = Some b ->
     c_res a <= c_inv b -> (i < j)%nat).
Proof.
  intros progs sched c. destruct (LInv_reachable progs sched) as (HG & _ & (r & HR & _ & HQ) & HS & HL).
  fold c in HG, HR, HQ, HS, HL. destruct HG as (_ & _ & HGH & _).
  assert (HF : Forall (fun k : call rM => 0 <= c_inv k < c_res k /\ c_res k <= now c) (hist c)).
  { rewrite Forall_forall in *. intros k Hk. specialize (HGH k Hk). specialize (HL k Hk).
    destruct HGH as (H1 & H2 & _). cbn beta in HL. lia. }
  split; [exists r; split; [exact HR|exact HQ]|]. repeat split; try assumption.
  intros i j a b Hi Hj Hab.
  pose proof (Forall_nth_error _ _ _ _ HF Hj) as Hb. cbn beta in Hb.
  destruct (Nat.lt_trichotomy i j) as [Hc|[Hc|Hc]]; [assumption| |]; exfalso.
  - subst j. rewrite Hi in Hj. inversion Hj; subst. lia.
  - pose proof (ss_nth _ _ HS _ _ _ _ Hj Hi Hc) as Hlt. unfold res_lt in Hlt. lia.
Qed.

(* ---- the executable checker: sound and complete for ARBITRARY histories ---- *)
Lemma rres_eqb_eq a b : rres_eqb a b = true <-> a = b.
Proof.
  destruct a, b; cbn; split; intros E; try discriminate; try reflexivity.
  - apply Z.eqb_eq in E. subst. reflexivity.
  - inversion E. apply Z.eqb_refl.
Qed.
Lemma qret_eqb_eq a b : qret_eqb a b = true <-> a = b.
Proof.
  destruct a as [x|x], b as [y|y]; cbn; split; intros E; try discriminate.
  - apply rres_eqb_eq in E. subst. reflexivity.
  - inversion E. apply rres_eqb_eq. reflexivity.
  - apply eqb_prop in E. subst. reflexivity.
  - inversion E. apply eqb_reflx.
Qed.

Lemma remove_nth_perm {A} (l : list A) : forall k x, nth_error l k = Some x -> Permutation (x :: remove_nth l k) l.
Proof.
  induction l as [|y r IH]; intros k x E; [destruct k; discriminate|].
  destruct k as [|k]; cbn in *.
  - inversion E; subst. apply Permutation_refl.
  - eapply Permutation_trans; [apply perm_swap|]. apply perm_skip. apply IH. exact E.
Qed.

Definition same_call (a b : call rM) : Prop := c_tid a = c_tid b /\ c_idx a = c_idx b.

(* h' is a linearization: the sequential model replayed over h' returns the observed results, and no call
   is placed after a (different) call that was invoked only after it had returned *)
Definition linearization_of (s : registry) (h' : list (call rM)) : Prop :=
  snd (seq_replay (reg_spec_step hash) s (map (@c_op rM) h')) = map (@c_ret rM) h' /\
  forall i j a b, nth_error h' i = Some a -> nth_error h' j = Some b -> (i < j)%nat ->
    c_res b <= c_inv a -> same_call b a.

Notation q_search := (@lin_search rM registry (reg_spec_step hash) qret_eqb).

Lemma lin_search_sound fuel : forall s (pending : list (call rM)),
  q_search fuel s pending = true -> exists h', Permutation h' pending /\ linearization_of s h'.
Proof.
  induction fuel as [|f IH]; intros s pending E.
  - destruct pending; [|discriminate]. exists []. split; [constructor|]. split; [reflexivity|].
    intros i j a b Hi. destruct i; discriminate.
  - cbn [lin_search] in E. destruct pending as [|p0 pr] eqn:Ep.
    + exists []. split; [constructor|]. split; [reflexivity|]. intros i j a b Hi. destruct i; discriminate.
    + rewrite <- Ep in *. apply existsb_exists in E. destruct E as (k & _ & E).
      destruct (nth_error pending k) as [c|] eqn:Ek; [|discriminate].
      apply andb_true_iff in E. destruct E as [Hmin E].
      destruct (reg_spec_step hash s (c_op c)) as [s1 r] eqn:Es.
      apply andb_true_iff in E. destruct E as [Hr E]. apply qret_eqb_eq in Hr.
      destruct (IH s1 _ E) as (h1 & P1 & R1 & T1).
      exists (c :: h1). split; [|split].
      * eapply Permutation_trans; [apply perm_skip; exact P1|]. apply remove_nth_perm. exact Ek.
      * cbn [map seq_replay]. rewrite Es. destruct (seq_replay (reg_spec_step hash) s1 (map (@c_op rM) h1)) as [s2 xs] eqn:E2.
        cbn [snd] in *. rewrite Hr, R1. reflexivity.
      * intros i j a b Hi Hj Hlt Hab. destruct j as [|j]; [lia|]. cbn [nth_error] in Hj.
        destruct i as [|i]; cbn [nth_error] in Hi.
        -- inversion Hi; subst a. unfold minimal in Hmin. rewrite forallb_forall in Hmin.
           assert (Hb : In b pending).
           { assert (In b (c :: remove_nth pending k)) by (right; eapply Permutation_in; [exact P1|eapply nth_error_In; exact Hj]).
             eapply Permutation_in; [apply remove_nth_perm; exact Ek|assumption]. }
           specialize (Hmin b Hb). apply orb_true_iff in Hmin. destruct Hmin as [Hm|Hm].
           ++ apply negb_true_iff in Hm. apply Z.leb_gt in Hm. lia.
           ++ apply andb_true_iff in Hm. destruct Hm as [A B]. apply Z.eqb_eq in A. apply Z.eqb_eq in B. split; assumption.
        -- eapply T1; eauto. lia.
Qed.

Lemma lin_search_complete : forall (h' : list (call rM)) s pending,
  Permutation h' pending -> linearization_of s h' -> q_search (length pending) s pending = true.
Proof.
  induction h' as [|c tl IH]; intros s pending P (R & T).
  - apply Permutation_nil in P. subst. reflexivity.
  - pose proof (Permutation_length P) as Hlen. cbn [length] in Hlen.
    assert (Hin : In c pending) by (eapply Permutation_in; [exact P|left; reflexivity]).
    destruct (In_nth_error _ _ Hin) as (k & Ek).
    destruct pending as [|p0 pr]; [destruct Hin|].
    rewrite <- Hlen. cbn [lin_search]. remember (p0 :: pr) as pend eqn:Ep.
    apply existsb_exists. exists k. split.
    { apply in_seq. split; [lia|]. cbn. apply nth_error_Some. congruence. }
    rewrite Ek. apply andb_true_iff. split.
    + unfold minimal. apply forallb_forall. intros d Hd.
      assert (Hd' : In d (c :: tl)) by (eapply Permutation_in; [apply Permutation_sym; exact P|exact Hd]).
      destruct (In_nth_error _ _ Hd') as (j & Ej).
      destruct (Z.leb_spec (c_res d) (c_inv c)) as [Hle|Hgt]; [|reflexivity].
      cbn [negb orb]. destruct j as [|j].
      * cbn in Ej. inversion Ej; subst d. rewrite !Z.eqb_refl. reflexivity.
      * destruct (T 0%nat (S j) c d eq_refl Ej ltac:(lia) Hle) as [A B]. rewrite A, B, !Z.eqb_refl. reflexivity.
    + cbn [map seq_replay] in R. destruct (reg_spec_step hash s (c_op c)) as [s1 x] eqn:Es.
      destruct (seq_replay (reg_spec_step hash) s1 (map (@c_op rM) tl)) as [s2 xs] eqn:E2. cbn [snd] in R.
      inversion R as [[Rx Rxs]]. apply andb_true_iff. split; [apply qret_eqb_eq; reflexivity|].
      assert (P' : Permutation tl (remove_nth pend k)).
      { eapply Permutation_cons_inv. eapply Permutation_trans; [exact P|]. apply Permutation_sym. apply remove_nth_perm. exact Ek. }
      replace (length tl) with (length (remove_nth pend k)) by (symmetry; apply Permutation_length; exact P').
      apply IH; [exact P'|]. split; [rewrite E2; exact Rxs|].
      intros i j a b Hi Hj Hlt Hab. apply (T (S i) (S j) a b Hi Hj); [lia|exact Hab].
Qed.

Lemma reg_lin_check_sound_lemma (h : list (call rM)) :
  reg_lin_check hash h = true -> exists h', Permutation h' h /\ linearization_of empty_registry h'.
Proof. unfold reg_lin_check, lin_check. apply lin_search_sound. Qed.

Lemma reg_lin_check_complete_lemma (h : list (call rM)) :
  (exists h', Permutation h' h /\ linearization_of empty_registry h') -> reg_lin_check hash h = true.
Proof. intros (h' & P & L). unfold reg_lin_check, lin_check. eapply lin_search_complete; eauto. Qed.

(* the checker accepts every history the machine can produce *)
Lemma reg_lin_check_machine_lemma : forall (progs : list (list qop)) (sched : list Z),
  reg_lin_check hash (hist (run_sched rM (init_config rM q_init progs) sched)) = true.
Proof.
  intros progs sched. apply reg_lin_check_complete_lemma.
  destruct (registry_linearizable_realtime_lemma progs sched) as ((r & HR & _) & HS & HF & _).
  set (c := run_sched rM (init_config rM q_init progs) sched) in *.
  exists (hist c). split; [apply Permutation_refl|]. split; [rewrite HR; reflexivity|].
  intros i j a b Hi Hj Hlt Hab. exfalso.
  pose proof (ss_nth _ _ HS _ _ _ _ Hi Hj Hlt) as H1. unfold res_lt in H1.
  pose proof (Forall_nth_error _ _ _ _ HF Hi) as H2. cbn beta in H2. lia.
Qed.


(* ---- uniqueness of descriptor ids among the registered collectors, for any mix of calls ---- *)
Definition reg_ids (o : qop) : list str := match o with QReg _ ds => map (hid hash) ds | QUnreg _ => [] end.

(* what a Register call does to the registry *)
Lemma register_cases r cid ds e r1 : register hash r cid ds = (e, r1) ->
  (r_colls r1 = r_colls r /\ r_descids r1 = r_descids r /\ (e = RNil -> ds = [])) \/
  (exists ni, e = RNil /\ r_colls r1 = (ni, (cid, ds)) :: r_colls r /\ r_descids r1 = ni ++ r_descids r /\
              (forall x, In x ni <-> In x (map (hid hash) ds)) /\ (forall x, In x ni -> ~ In x (r_descids r))).
Proof.
  unfold register. destruct (reg_loop hash r ds [] [] false) as [e0|ni nd dup] eqn:L.
  - intros E. inversion E; subst. left. repeat split. intros ->.
    apply reg_loop_err in L. destruct L as [[X _]|[X _]]; discriminate.
  - destruct (reg_loop_done hash r ds [] [] false ni nd dup L) as (_ & Iids & Dup & _).
    assert (Hm : forall x, In x ni <-> In x (map (hid hash) ds)).
    { intros x. rewrite Iids, in_map_iff. unfold ids_of. cbn. split.
      - intros [[]|(d & Hd & E)]. exists d. auto.
      - intros (d & E & Hd). right. exists d. auto. }
    destruct ni as [|i0 ni0].
    + intros E. inversion E; subst. left. cbn. repeat split. intros _.
      destruct ds as [|d ds']; [reflexivity|]. exfalso. apply (proj2 (Hm (hid hash d))). left; reflexivity.
    + destruct (find_coll (i0 :: ni0) (r_colls r)) as [[c0 ds0]|].
      { intros E. inversion E; subst. left. repeat split. discriminate. }
      destruct dup.
      { intros E. inversion E; subst. left. repeat split. discriminate. }
      intros E. inversion E; subst. right. exists (i0 :: ni0). cbn [r_colls r_descids]. repeat split; try apply Hm.
      intros x Hx Hin. cbn in Dup. symmetry in Dup. rewrite <- not_true_iff_false in Dup. apply Dup.
      apply Hm in Hx. apply in_map_iff in Hx. destruct Hx as (d & <- & Hd). apply existsb_exists. exists d. split; [exact Hd|].
      apply str_in_In. exact Hin.
Qed.

Lemma unregister_false_same r ds : fst (unregister hash r ds) = false -> snd (unregister hash r ds) = r.
Proof. unfold unregister. destruct (find_coll _ _); [discriminate|reflexivity]. Qed.

Inductive kdisj : list (list str) -> Prop :=
| kdisj_nil : kdisj []
| kdisj_cons k l : (forall k' x, In k' l -> In x k -> In x k' -> False) -> kdisj l -> kdisj (k :: l).

Lemma kdisj_nth ks : kdisj ks -> forall i j k k0 x, nth_error ks i = Some k -> nth_error ks j = Some k0 ->
  In x k -> In x k0 -> i = j.
Proof.
  induction 1 as [|k1 l Hd Hl IH]; intros i j k k0 x Hi Hj Hx Hx0; [destruct i; discriminate|].
  destruct i as [|i], j as [|j]; cbn in Hi, Hj.
  - reflexivity.
  - inversion Hi; subst. exfalso. eapply Hd; [eapply nth_error_In; exact Hj|exact Hx|exact Hx0].
  - inversion Hj; subst. exfalso. eapply Hd; [eapply nth_error_In; exact Hi|exact Hx0|exact Hx].
  - f_equal. eapply IH; eauto.
Qed.

Lemma kdisj_shared ks : kdisj ks -> forall k k0 x, In k ks -> In k0 ks -> In x k -> In x k0 -> k = k0.
Proof.
  intros H k k0 x Hk Hk0 Hx Hx0. destruct (In_nth_error _ _ Hk) as (i & Hi). destruct (In_nth_error _ _ Hk0) as (j & Hj).
  pose proof (kdisj_nth _ H _ _ _ _ _ Hi Hj Hx Hx0). subst j. congruence.
Qed.

Lemma kdisj_filter (p : list str * (Z * list desc) -> bool) l : kdisj (map fst l) -> kdisj (map fst (filter p l)).
Proof.
  induction l as [|e l IH]; cbn; [constructor|]. intros H. inversion H as [|? ? Hd Hl]; subst.
  destruct (p e); [|auto]. cbn. constructor; [|auto].
  intros k' x Hk'. apply Hd. apply in_map_iff in Hk'. destruct Hk' as (e' & <- & He'). apply filter_In in He'.
  apply in_map. tauto.
Qed.

(* no two registered collectors share a descriptor id; every id of a registered collector is in descIDs *)
Definition RegInv (r : registry) : Prop :=
  kdisj (map fst (r_colls r)) /\ (forall e x, In e (r_colls r) -> In x (fst e) -> In x (r_descids r)).

Lemma RegInv_empty : RegInv empty_registry.
Proof. split; [constructor|intros e x []]. Qed.

Lemma RegInv_register r cid ds : RegInv r -> RegInv (snd (register hash r cid ds)).
Proof.
  intros [K B]. destruct (register hash r cid ds) as [e r1] eqn:R. cbn [snd].
  destruct (register_cases _ _ _ _ _ R) as [(E1 & E2 & _)|(ni & _ & E1 & E2 & Hm & Hn)]; unfold RegInv; rewrite E1, E2.
  - split; assumption.
  - split.
    + cbn [map fst]. constructor; [|exact K]. intros k' x Hk' Hx Hx'. apply in_map_iff in Hk'. destruct Hk' as (e' & <- & He').
      apply (Hn x Hx). apply (B e' x He' Hx').
    + intros e0 x [<-|He0] Hx; apply in_or_app; [left; exact Hx|right; eapply B; eauto].
Qed.

Lemma RegInv_unregister r ds : RegInv r -> RegInv (snd (unregister hash r ds)).
Proof.
  intros [K B]. unfold unregister. destruct (find_coll (unreg_ids hash ds) (r_colls r)) as [c0|] eqn:F; [|split; assumption].
  cbn [snd]. unfold RegInv. cbn [r_colls r_descids]. split; [apply kdisj_filter; exact K|].
  intros e x He Hx. apply filter_In in He. destruct He as [He Hne]. apply filter_In. split; [eapply B; eauto|].
  apply negb_true_iff. apply str_in_false. intros Hin.
  unfold find_coll in F. destruct (find (fun e => seteq_strs (unreg_ids hash ds) (fst e)) (r_colls r)) as [e0|] eqn:F0; [|discriminate].
  apply find_some in F0. destruct F0 as [He0 S0]. pose proof (proj1 (seteq_strs_spec _ _) S0 x) as Hx0.
  assert (Ek : fst e = fst e0).
  { apply (kdisj_shared _ K _ _ x); [apply in_map; exact He|apply in_map; exact He0|exact Hx|apply Hx0; exact Hin]. }
  rewrite Ek, S0 in Hne. discriminate.
Qed.

Lemma RegInv_replay : forall (ops : list qop) r r' rets,
  RegInv r -> seq_replay (reg_spec_step hash) r ops = (r', rets) -> RegInv r'.
Proof.
  induction ops as [|o ops IH]; intros r r' rets HI E; cbn [seq_replay] in E.
  - inversion E; subst. exact HI.
  - destruct (reg_spec_step hash r o) as [r1 x] eqn:Sp. destruct (seq_replay (reg_spec_step hash) r1 ops) as [r2 xs] eqn:E2.
    inversion E; subst. eapply IH; [|exact E2].
    destruct o as [cid ds|ds]; cbn [reg_spec_step] in Sp.
    + pose proof (RegInv_register r cid ds HI) as X. destruct (register hash r cid ds). inversion Sp; subst. exact X.
    + pose proof (RegInv_unregister r ds HI) as X. destruct (unregister hash r ds). inversion Sp; subst. exact X.
Qed.

(* descIDs only shrink at a successful Unregister *)
Lemma step_descids_mono r o r1 x : reg_spec_step hash r o = (r1, x) -> x <> RUn true ->
  forall y, In y (r_descids r) -> In y (r_descids r1).
Proof.
  destruct o as [cid ds|ds]; cbn [reg_spec_step].
  - destruct (register hash r cid ds) as [e r2] eqn:R. intros E _. inversion E; subst.
    destruct (register_cases _ _ _ _ _ R) as [(_ & E2 & _)|(ni & _ & _ & E2 & _)]; rewrite E2; [auto|].
    intros y Hy. apply in_or_app. right; exact Hy.
  - pose proof (unregister_false_same r ds) as U. destruct (unregister hash r ds) as [b r2]. intros E Hne. inversion E; subst.
    destruct b; [congruence|]. cbn in U. rewrite (U eq_refl). auto.
Qed.

(* a Register that is accepted although one of its ids is in descIDs is preceded by a successful Unregister *)
Lemma seq_accept_needs_unregister : forall (ops : list qop) r r' rets j b y,
  seq_replay (reg_spec_step hash) r ops = (r', rets) ->
  nth_error ops j = Some b -> nth_error rets j = Some (RReg RNil) -> In y (reg_ids b) -> In y (r_descids r) ->
  exists k, (k < j)%nat /\ nth_error rets k = Some (RUn true).
Proof.
  induction ops as [|o ops IH]; intros r r' rets j b y E Hj Hr Hy Hin; [destruct j; discriminate|].
  cbn [seq_replay] in E. destruct (reg_spec_step hash r o) as [r1 x] eqn:Sp.
  destruct (seq_replay (reg_spec_step hash) r1 ops) as [r2 xs] eqn:E2. inversion E; subst r' rets.
  destruct j as [|j]; cbn in Hj, Hr.
  - exfalso. inversion Hj; subst b. inversion Hr; subst x. destruct o as [cid ds|ds]; cbn [reg_spec_step] in Sp.
    + destruct (register hash r cid ds) as [e r3] eqn:R. inversion Sp; subst.
      destruct (register_cases _ _ _ _ _ R) as [(_ & _ & Hnil)|(ni & _ & _ & _ & Hm & Hn)].
      * rewrite (Hnil eq_refl) in Hy. destruct Hy.
      * apply (Hn y); [apply Hm; exact Hy|exact Hin].
    + destruct (unregister hash r ds). inversion Sp.
  - destruct (qret_eqb x (RUn true)) eqn:Q.
    + apply qret_eqb_eq in Q. subst x. exists 0%nat. split; [lia|reflexivity].
    + assert (Hne : x <> RUn true) by (intros ->; cbn in Q; discriminate).
      destruct (IH _ _ _ _ _ _ E2 Hj Hr Hy (step_descids_mono _ _ _ _ Sp Hne y Hin)) as (k & Hk & Hrk).
      exists (S k). split; [lia|exact Hrk].
Qed.

Lemma seq_registers_separated : forall (ops : list qop) r r' rets i j a b y,
  seq_replay (reg_spec_step hash) r ops = (r', rets) -> (i < j)%nat ->
  nth_error ops i = Some a -> nth_error ops j = Some b ->
  nth_error rets i = Some (RReg RNil) -> nth_error rets j = Some (RReg RNil) ->
  In y (reg_ids a) -> In y (reg_ids b) ->
  exists k, (i < k < j)%nat /\ nth_error rets k = Some (RUn true).
Proof.
  induction ops as [|o ops IH]; intros r r' rets i j a b y E Hlt Hi Hj Hri Hrj Hya Hyb; [destruct i; discriminate|].
  cbn [seq_replay] in E. destruct (reg_spec_step hash r o) as [r1 x] eqn:Sp.
  destruct (seq_replay (reg_spec_step hash) r1 ops) as [r2 xs] eqn:E2. inversion E; subst r' rets.
  destruct j as [|j]; [lia|]. cbn in Hj, Hrj. destruct i as [|i]; cbn in Hi, Hri.
  - inversion Hi; subst a. inversion Hri; subst x. destruct o as [cid ds|ds]; cbn [reg_spec_step] in Sp; [|destruct (unregister hash r ds); inversion Sp].
    destruct (register hash r cid ds) as [e r3] eqn:R. inversion Sp; subst.
    assert (Hin : In y (r_descids r1)).
    { destruct (register_cases _ _ _ _ _ R) as [(_ & _ & Hnil)|(ni & _ & _ & E3 & Hm & _)].
      - rewrite (Hnil eq_refl) in Hya. destruct Hya.
      - rewrite E3. apply in_or_app. left. apply Hm. exact Hya. }
    destruct (seq_accept_needs_unregister _ _ _ _ _ _ _ E2 Hj Hrj Hyb Hin) as (k & Hk & Hrk).
    exists (S k). split; [lia|exact Hrk].
  - assert (Hlt' : (i < j)%nat) by lia.
    destruct (IH _ _ _ _ _ _ _ _ E2 Hlt' Hi Hj Hri Hrj Hya Hyb) as (k & Hk & Hrk).
    exists (S k). split; [lia|exact Hrk].
Qed.

Lemma registers_unique_lemma : forall (progs : list (list qop)) (sched : list Z),
  let c := run_sched rM (init_config rM q_init progs) sched in
  (q_w (sh c) = false ->
     forall i j e1 e2 x, nth_error (r_colls (q_reg (sh c))) i = Some e1 -> nth_error (r_colls (q_reg (sh c))) j = Some e2 ->
       In x (fst e1) -> In x (fst e2) -> i = j) /\
  (forall i j a b x, (i < j)%nat -> nth_error (hist c) i = Some a -> nth_error (hist c) j = Some b ->
     c_ret a = RReg RNil -> c_ret b = RReg RNil -> In x (reg_ids (c_op a)) -> In x (reg_ids (c_op b)) ->
     exists k u, (i < k < j)%nat /\ nth_error (hist c) k = Some u /\ c_ret u = RUn true).
Proof.
  intros progs sched c. destruct (registry_linearizable_realtime_lemma progs sched) as ((r & HR & HQ) & _).
  fold c in HR, HQ. split.
  - intros W i j e1 e2 x Hi Hj Hx1 Hx2. rewrite (HQ W) in Hi, Hj.
    destruct (RegInv_replay _ _ _ _ RegInv_empty HR) as [K _].
    apply (kdisj_nth _ K i j (fst e1) (fst e2) x); try assumption; rewrite nth_error_map, ?Hi, ?Hj; reflexivity.
  - intros i j a b x Hlt Hi Hj Ra Rb Hxa Hxb.
    assert (A1 : nth_error (map (@c_op rM) (hist c)) i = Some (c_op a)) by (rewrite nth_error_map, Hi; reflexivity).
    assert (A2 : nth_error (map (@c_op rM) (hist c)) j = Some (c_op b)) by (rewrite nth_error_map, Hj; reflexivity).
    assert (A3 : nth_error (map (@c_ret rM) (hist c)) i = Some (RReg RNil)) by (rewrite nth_error_map, Hi; cbn; congruence).
    assert (A4 : nth_error (map (@c_ret rM) (hist c)) j = Some (RReg RNil)) by (rewrite nth_error_map, Hj; cbn; congruence).
    destruct (seq_registers_separated _ _ _ _ _ _ _ _ _ HR Hlt A1 A2 A3 A4 Hxa Hxb) as (k & Hk & Hrk).
    rewrite nth_error_map in Hrk. destruct (nth_error (hist c) k) as [u|] eqn:Eu; [|discriminate].
    exists k, u. split; [exact Hk|]. split; [exact Eu|]. cbn in Hrk. congruence.
Qed.
End RegLin.

(* ---- regression: the two programs and schedules that exposed the two-section Unregister ---- *)
Definition rf_n : desc := new_desc [110] [104] [] [].                 (* n *)
Definition rf_y : desc := new_desc [121] [104] [] [].                 (* y *)
(* thread 0: Register(c = {n}); Unregister(c)      thread 1: Unregister(c) *)
Definition rf_progs1 : list (list qop) := [[QReg 0 [rf_n]; QUnreg [rf_n]]; [QUnreg [rf_n]]].
Definition rf_sched1 : list Z := [0; 0; 0; 1; 0; 1; 0; 0; 1; 1].
(* thread 0: Register(c = {n}); Unregister(c)      thread 1: Unregister(c); Register(d = {n, y}) *)
Definition rf_progs2 : list (list qop) := [[QReg 0 [rf_n]; QUnreg [rf_n]]; [QUnreg [rf_n]; QReg 1 [rf_n; rf_y]]].
Definition rf_sched2 : list Z := [0; 0; 0; 0; 1; 1; 1; 1; 1; 1; 0; 0].

Lemma unregister_regression1_lemma :
  let c := run_sched (reg_machine hash_id) (init_config (reg_machine hash_id) q_init rf_progs1) rf_sched1 in
  all_done (reg_machine hash_id) c = true /\
  map (@c_ret (reg_machine hash_id)) (hist c) = [RReg RNil; RUn true; RUn false] /\
  reg_lin_check hash_id (hist c) = true.
Proof. intros c. repeat split; vm_compute; reflexivity. Qed.

Lemma unregister_regression2_lemma :
  let c := run_sched (reg_machine hash_id) (init_config (reg_machine hash_id) q_init rf_progs2) rf_sched2 in
  all_done (reg_machine hash_id) c = true /\
  map (@c_ret (reg_machine hash_id)) (hist c) = [RReg RNil; RUn true; RReg RNil; RUn false] /\
  reg_lin_check hash_id (hist c) = true /\
  map (fun e => fst (snd e)) (r_colls (q_reg (sh c))) = [1] /\
  fst (register hash_id (q_reg (sh c)) 2 [rf_n]) = RDuplicate.
Proof. intros c. repeat split; vm_compute; reflexivity. Qed.
