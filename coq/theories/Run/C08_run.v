(* Run/C08_run.v -- correspondence runner for C08 (harness/cmd/c08/main.go).
   case  = (collectors ops impl)
   collectors = list of collectors, each the list of descriptors its Describe emits:
                (0) = NewInvalidDesc | (1 fq help (vars...) ((name value)...)) = NewDesc
   op    = (0 wrappers cidx) Register | (1 wrappers cidx) Unregister | (2) Gather
           | (3 wrappers (cidx...)) MustRegister(c1..cn), answered like Register: (0 kind arg), nil = no panic
           wrappers = list of (prefix ((name value)...)) in the order they are applied to a descriptor
   impl  = one entry per op: (0 kind arg) | (1 bool) | (2 (names...))
           kind: 0 nil, 1 AlreadyRegisteredError (arg = index of ExistingCollector, -1 if not one of ours),
                 2 descriptor invalid, 3 duplicate descriptor, 4 inconsistent help/labels, 5 anything else
   sched case (deterministic scheduler, every operation on r.mtx is a schedule point):
     (4 collectors progs sched trace results times flags)
     progs   = per thread ((0 cidx) Register | (1 cidx) Unregister ...)
     sched   = thread ids, one per executed mutex operation;  trace = ((tid label) ...) as executed
     results = per thread, in program order: (0 kind arg) | (1 bool);  times = per thread ((inv res) ...)
     flags   = 1 deadlock | 2 step limit | 4 panic *)
From Coq Require Import ZArith List Bool.
From Verif Require Import Base.Str Base.Sx Base.Conc Model.Registry Model.RegistryLin.
Import ListNotations.
Open Scope Z_scope.

Definition d_pairs (s : sx) : option (list (str * str)) := dL (dP dStr dStr) s.

Definition d_raw (s : sx) : option desc :=
  match s with
  | SL [SZ 0] => Some invalid_desc
  | SL [SZ 1; fq; help; vars; consts] =>
      match dStr fq, dStr help, dL dStr vars, d_pairs consts with
      | Some fq, Some help, Some vars, Some consts => Some (new_desc fq help vars consts)
      | _, _, _, _ => None
      end
  | _ => None
  end.

Definition wrapper := (str * list (str * str))%type.
Definition d_wrapper (s : sx) : option wrapper := dP dStr d_pairs s.
Definition apply_wrappers (ws : list wrapper) (d : desc) : desc :=
  fold_left (fun d w => wrap_desc d (fst w) (snd w)) ws d.

Definition d_op (colls : list (list desc)) (s : sx) : option Registry.op :=
  match s with
  | SL [SZ 0; ws; SZ c] =>
      match dL d_wrapper ws, (if 0 <=? c then nth_error colls (Z.to_nat c) else None) with
      | Some ws, Some ds => Some (ORegister c (map (apply_wrappers ws) ds))
      | _, _ => None
      end
  | SL [SZ 1; ws; SZ c] =>
      match dL d_wrapper ws, (if 0 <=? c then nth_error colls (Z.to_nat c) else None) with
      | Some ws, Some ds => Some (OUnregister (map (apply_wrappers ws) ds))
      | _, _ => None
      end
  | SL [SZ 2] => Some OGather
  | SL [SZ 3; ws; cs] =>
      match dL d_wrapper ws, dL dZ cs with
      | Some ws, Some cs =>
          match mapM (fun c => if 0 <=? c then
                                 match nth_error colls (Z.to_nat c) with
                                 | Some ds => Some (c, map (apply_wrappers ws) ds)
                                 | None => None
                                 end
                               else None) cs with
          | Some l => Some (OMust l)
          | None => None
          end
      | _, _ => None
      end
  | _ => None
  end.

(* kind 5 (an error the driver could not classify) is decoded as a rejection of no known kind:
   RDuplicate/RInvalid/RInconsistent would each claim a justification, so it is kept apart *)
Inductive iobs := IObs (o : obs) | IOther.
Definition d_obs (s : sx) : option iobs :=
  match s with
  | SL [SZ 0; SZ 0; _] => Some (IObs (BReg RNil))
  | SL [SZ 0; SZ 1; SZ c] => Some (IObs (BReg (RAlready c)))
  | SL [SZ 0; SZ 2; _] => Some (IObs (BReg RInvalid))
  | SL [SZ 0; SZ 3; _] => Some (IObs (BReg RDuplicate))
  | SL [SZ 0; SZ 4; _] => Some (IObs (BReg RInconsistent))
  | SL [SZ 0; SZ 5; _] => Some IOther
  | SL [SZ 1; b] => match dB b with Some b => Some (IObs (BUnreg b)) | None => None end
  | SL [SZ 2; names] => match dL dStr names with Some n => Some (IObs (BGather n)) | None => None end
  | _ => None
  end.

Definition obs_eqb (a b : obs) : bool :=
  match a, b with
  | BReg x, BReg y => rres_eqb x y
  | BUnreg x, BUnreg y => Bool.eqb x y
  | BGather x, BGather y => strs_eqb x y
  | _, _ => false
  end.
Fixpoint obss_eqb (a b : list obs) : bool :=
  match a, b with
  | [], [] => true
  | x :: a', y :: b' => obs_eqb x y && obss_eqb a' b'
  | _, _ => false
  end.

Record case := mkCase { c_ops : list Registry.op; c_impl : list iobs }.

Definition d_case (s : sx) : option case :=
  match s with
  | SL [colls; ops; impl] =>
      match dL (dL d_raw) colls with
      | Some colls =>
          match dL (d_op colls) ops, dL d_obs impl with
          | Some ops, Some impl => Some (mkCase ops impl)
          | _, _ => None
          end
      | None => None
      end
  | _ => None
  end.

Definition all_obs (l : list iobs) : option (list obs) :=
  mapM (fun i => match i with IObs o => Some o | IOther => None end) l.

(* ---------- sched stream ---------- *)
Notation rM := (reg_machine hash_id).

Definition d_qop (colls : list (list desc)) (s : sx) : option qop :=
  match s with
  | SL [SZ 0; SZ c] => match (if 0 <=? c then nth_error colls (Z.to_nat c) else None) with Some ds => Some (QReg c ds) | None => None end
  | SL [SZ 1; SZ c] => match (if 0 <=? c then nth_error colls (Z.to_nat c) else None) with Some ds => Some (QUnreg ds) | None => None end
  | _ => None
  end.

Definition d_qret (s : sx) : option (option qret) :=   (* Some None = an error of no known kind *)
  match d_obs s with
  | Some (IObs (BReg e)) => Some (Some (RReg e))
  | Some (IObs (BUnreg b)) => Some (Some (RUn b))
  | Some IOther => Some None
  | _ => None
  end.

Fixpoint zip3 {A B C} (a : list A) (b : list B) (c : list C) : option (list (A * B * C)) :=
  match a, b, c with
  | [], [], [] => Some []
  | x :: a', y :: b', z :: c' => match zip3 a' b' c' with Some r => Some ((x, y, z) :: r) | None => None end
  | _, _, _ => None
  end.

(* the implementation's history: one call per (thread, index) with its observed result and times *)
Fixpoint thread_calls (tid idx : Z) (l : list (qop * option qret * (Z * Z))) : option (list (Conc.call rM)) :=
  match l with
  | [] => Some []
  | (o, Some r, (i, e)) :: rest =>
      match thread_calls tid (idx + 1) rest with
      | Some cs => Some (Conc.mkCall tid idx (o : Conc.op rM) (r : Conc.ret rM) i e :: cs)
      | None => None
      end
  | (_, None, _) :: _ => None
  end.

Fixpoint impl_history (tid : Z) (progs : list (list qop)) (res : list (list (option qret))) (tms : list (list (Z * Z)))
  : option (list (Conc.call rM)) :=
  match progs, res, tms with
  | [], [], [] => Some []
  | p :: ps, r :: rs, t :: ts =>
      match zip3 p r t with
      | Some l => match thread_calls tid 0 l, impl_history (tid + 1) ps rs ts with
                  | Some a, Some b => Some (a ++ b)
                  | _, _ => None
                  end
      | None => None
      end
  | _, _, _ => None
  end.

Definition call_eqb (a b : Conc.call rM) : bool :=
  (c_tid a =? c_tid b) && (c_idx a =? c_idx b) && qret_eqb (c_ret a) (c_ret b) &&
  (c_inv a =? c_inv b) && (c_res a =? c_res b).

(* every call of a is in b and the lengths agree (calls are identified by thread and index) *)
Definition same_history (a b : list (Conc.call rM)) : bool :=
  Nat.eqb (List.length a) (List.length b) && forallb (fun x => existsb (call_eqb x) b) a.

Fixpoint trace_eqb (a b : list (Z * list Z)) : bool :=
  match a, b with
  | [], [] => true
  | (t, l) :: a', (t', l') :: b' => (t =? t') && str_eqb l l' && trace_eqb a' b'
  | _, _ => false
  end.

Record scase := mkSCase { sc_progs : list (list qop); sc_sched : list Z; sc_trace : list (Z * list Z);
                          sc_res : list (list (option qret)); sc_times : list (list (Z * Z)); sc_flags : Z }.

Definition d_scase (s : sx) : option scase :=
  match s with
  | SL [SZ 4; colls; progs; sched; tr; res; tms; SZ fl] =>
      match dL (dL d_raw) colls with
      | Some colls =>
          match dL (dL (d_qop colls)) progs, dL dZ sched, dL (dP dZ dStr) tr, dL (dL d_qret) res, dL (dL (dP dZ dZ)) tms with
          | Some progs, Some sched, Some tr, Some res, Some tms => Some (mkSCase progs sched tr res tms fl)
          | _, _, _, _, _ => None
          end
      | None => None
      end
  | _ => None
  end.

Definition sched_config (c : scase) : Conc.config rM :=
  run_sched rM (init_config rM q_init (sc_progs c)) (sc_sched c).

Definition check_sched (c : scase) : Z :=
  if negb (sc_flags c =? 0) then code_spec_violation            (* deadlock, step limit or panic *)
  else
    match impl_history 0 (sc_progs c) (sc_res c) (sc_times c) with
    | None =>
        (* an error of no known kind is a violation; a malformed record is a harness defect *)
        if existsb (existsb (fun r => match r with None => true | Some _ => false end)) (sc_res c)
        then code_spec_violation else code_decode_error
    | Some h =>
        if negb (reg_lin_check hash_id h) then code_spec_violation
        else
          let m := sched_config c in
          if all_done rM m && trace_eqb (trace m) (sc_trace c) && same_history h (hist m)
          then code_ok else code_model_mismatch
    end.

Definition check (s : sx) : Z :=
  match s with
  | SL (SZ 4 :: _) => match d_scase s with Some c => check_sched c | None => code_decode_error end
  | _ =>
  match d_case s with
  | None => code_decode_error
  | Some c =>
      match all_obs (c_impl c) with
      | None => code_spec_violation   (* an error outside the four documented kinds *)
      | Some os =>
          if negb (spec_check (c_ops c) os) then code_spec_violation
          else if negb (obss_eqb (run hash_id (c_ops c)) os) then code_model_mismatch
          else code_ok
      end
  end
  end.

Definition e_rres (e : rres) : sx :=
  match e with
  | RNil => SL [SZ 0; SZ 0; SZ 0] | RAlready c => SL [SZ 0; SZ 1; SZ c] | RInvalid => SL [SZ 0; SZ 2; SZ 0]
  | RDuplicate => SL [SZ 0; SZ 3; SZ 0] | RInconsistent => SL [SZ 0; SZ 4; SZ 0]
  end.
Definition e_obs (o : obs) : sx :=
  match o with BReg e => e_rres e | BUnreg b => SL [SZ 1; eB b] | BGather n => SL [SZ 2; eL eStr n] end.
(* spec: 0 accepted, 1 AlreadyRegistered c, 2 rejected *)
Definition e_sobs (o : sobs) : sx :=
  match o with
  | TReg SOk => SL [SZ 0; SZ 0] | TReg (SAlready c) => SL [SZ 0; SZ 1; SZ c] | TReg SRejected => SL [SZ 0; SZ 2]
  | TUnreg b => SL [SZ 1; eB b] | TGather n => SL [SZ 2; eL eStr n]
  end.

Definition e_qret (r : qret) : sx := match r with RReg e => e_rres e | RUn b => SL [SZ 1; eB b] end.
Definition e_call (k : Conc.call rM) : sx :=
  SL [SZ (c_tid k); SZ (c_idx k); e_qret (c_ret k); SZ (c_inv k); SZ (c_res k)].

(* sched: (machine trace, machine history (tid idx result inv res), all_done, is the IMPLEMENTATION's history linearizable) *)
Definition explain (s : sx) : sx :=
  match s with
  | SL (SZ 4 :: _) =>
      match d_scase s with
      | None => SL []
      | Some c =>
          let m := sched_config c in
          SL [eL (fun p => SL [SZ (fst p); eStr (snd p)]) (trace m); eL e_call (hist m); eB (all_done rM m);
              match impl_history 0 (sc_progs c) (sc_res c) (sc_times c) with
              | Some h => eB (reg_lin_check hash_id h)
              | None => SL []
              end]
      end
  | _ =>
  match d_case s with
  | None => SL []
  | Some c => SL [eL e_obs (run hash_id (c_ops c)); eL e_sobs (spec_run (c_ops c))]
  end
  end.
