(* Run/C08_run.v -- correspondence runner for C08 (harness/cmd/c08/main.go).
   case  = (collectors ops impl)
   collectors = list of collectors, each the list of descriptors its Describe emits:
                (0) = NewInvalidDesc | (1 fq help (vars...) ((name value)...)) = NewDesc
   op    = (0 wrappers cidx) Register | (1 wrappers cidx) Unregister | (2) Gather
           | (3 wrappers (cidx...)) MustRegister(c1..cn), answered like Register: (0 kind arg), nil = no panic
           wrappers = list of (prefix ((name value)...)) in the order they are applied to a descriptor
   impl  = one entry per op: (0 kind arg) | (1 bool) | (2 (names...))
           kind: 0 nil, 1 AlreadyRegisteredError (arg = index of ExistingCollector, -1 if not one of ours),
                 2 descriptor invalid, 3 duplicate descriptor, 4 inconsistent help/labels, 5 anything else *)
From Coq Require Import ZArith List Bool.
From Verif Require Import Base.Str Base.Sx Model.Registry.
Import ListNotations.
Open Scope Z_scope.

Definition d_pairs (s : sx) : option (list (str * str)) := dL (dP dStr dStr) s.

Definition d_raw (s : sx) : option desc :=
  match s with
  | SL [SZ 0] => Some invalid_desc
  | SL [SZ 1; fq; help; vars; consts] =>
      match dStr fq, dStr help, dL dStr vars, d_pairs consts with
      | Some fq, Some help, Some vars, Some consts => Some (new_desc fq help vars consts)
      | _, _, _, _ => None
      end
  | _ => None
  end.

Definition wrapper := (str * list (str * str))%type.
Definition d_wrapper (s : sx) : option wrapper := dP dStr d_pairs s.
Definition apply_wrappers (ws : list wrapper) (d : desc) : desc :=
  fold_left (fun d w => wrap_desc d (fst w) (snd w)) ws d.

Definition d_op (colls : list (list desc)) (s : sx) : option op :=
  match s with
  | SL [SZ 0; ws; SZ c] =>
      match dL d_wrapper ws, (if 0 <=? c then nth_error colls (Z.to_nat c) else None) with
      | Some ws, Some ds => Some (ORegister c (map (apply_wrappers ws) ds))
      | _, _ => None
      end
  | SL [SZ 1; ws; SZ c] =>
      match dL d_wrapper ws, (if 0 <=? c then nth_error colls (Z.to_nat c) else None) with
      | Some ws, Some ds => Some (OUnregister (map (apply_wrappers ws) ds))
      | _, _ => None
      end
  | SL [SZ 2] => Some OGather
  | SL [SZ 3; ws; cs] =>
      match dL d_wrapper ws, dL dZ cs with
      | Some ws, Some cs =>
          match mapM (fun c => if 0 <=? c then
                                 match nth_error colls (Z.to_nat c) with
                                 | Some ds => Some (c, map (apply_wrappers ws) ds)
                                 | None => None
                                 end
                               else None) cs with
          | Some l => Some (OMust l)
          | None => None
          end
      | _, _ => None
      end
  | _ => None
  end.

(* kind 5 (an error the driver could not classify) is decoded as a rejection of no known kind:
   RDuplicate/RInvalid/RInconsistent would each claim a justification, so it is kept apart *)
Inductive iobs := IObs (o : obs) | IOther.
Definition d_obs (s : sx) : option iobs :=
  match s with
  | SL [SZ 0; SZ 0; _] => Some (IObs (BReg RNil))
  | SL [SZ 0; SZ 1; SZ c] => Some (IObs (BReg (RAlready c)))
  | SL [SZ 0; SZ 2; _] => Some (IObs (BReg RInvalid))
  | SL [SZ 0; SZ 3; _] => Some (IObs (BReg RDuplicate))
  | SL [SZ 0; SZ 4; _] => Some (IObs (BReg RInconsistent))
  | SL [SZ 0; SZ 5; _] => Some IOther
  | SL [SZ 1; b] => match dB b with Some b => Some (IObs (BUnreg b)) | None => None end
  | SL [SZ 2; names] => match dL dStr names with Some n => Some (IObs (BGather n)) | None => None end
  | _ => None
  end.

Definition rres_eqb (a b : rres) : bool :=
  match a, b with
  | RNil, RNil => true | RInvalid, RInvalid => true | RDuplicate, RDuplicate => true
  | RInconsistent, RInconsistent => true
  | RAlready x, RAlready y => Z.eqb x y
  | _, _ => false
  end.
Definition obs_eqb (a b : obs) : bool :=
  match a, b with
  | BReg x, BReg y => rres_eqb x y
  | BUnreg x, BUnreg y => Bool.eqb x y
  | BGather x, BGather y => strs_eqb x y
  | _, _ => false
  end.
Fixpoint obss_eqb (a b : list obs) : bool :=
  match a, b with
  | [], [] => true
  | x :: a', y :: b' => obs_eqb x y && obss_eqb a' b'
  | _, _ => false
  end.

Record case := mkCase { c_ops : list op; c_impl : list iobs }.

Definition d_case (s : sx) : option case :=
  match s with
  | SL [colls; ops; impl] =>
      match dL (dL d_raw) colls with
      | Some colls =>
          match dL (d_op colls) ops, dL d_obs impl with
          | Some ops, Some impl => Some (mkCase ops impl)
          | _, _ => None
          end
      | None => None
      end
  | _ => None
  end.

Definition all_obs (l : list iobs) : option (list obs) :=
  mapM (fun i => match i with IObs o => Some o | IOther => None end) l.

Definition check (s : sx) : Z :=
  match d_case s with
  | None => code_decode_error
  | Some c =>
      match all_obs (c_impl c) with
      | None => code_spec_violation   (* an error outside the four documented kinds *)
      | Some os =>
          if negb (spec_check (c_ops c) os) then code_spec_violation
          else if negb (obss_eqb (run hash_id (c_ops c)) os) then code_model_mismatch
          else code_ok
      end
  end.

Definition e_rres (e : rres) : sx :=
  match e with
  | RNil => SL [SZ 0; SZ 0; SZ 0] | RAlready c => SL [SZ 0; SZ 1; SZ c] | RInvalid => SL [SZ 0; SZ 2; SZ 0]
  | RDuplicate => SL [SZ 0; SZ 3; SZ 0] | RInconsistent => SL [SZ 0; SZ 4; SZ 0]
  end.
Definition e_obs (o : obs) : sx :=
  match o with BReg e => e_rres e | BUnreg b => SL [SZ 1; eB b] | BGather n => SL [SZ 2; eL eStr n] end.
(* spec: 0 accepted, 1 AlreadyRegistered c, 2 rejected *)
Definition e_sobs (o : sobs) : sx :=
  match o with
  | TReg SOk => SL [SZ 0; SZ 0] | TReg (SAlready c) => SL [SZ 0; SZ 1; SZ c] | TReg SRejected => SL [SZ 0; SZ 2]
  | TUnreg b => SL [SZ 1; eB b] | TGather n => SL [SZ 2; eL eStr n]
  end.

Definition explain (s : sx) : sx :=
  match d_case s with
  | None => SL []
  | Some c => SL [eL e_obs (run hash_id (c_ops c)); eL e_sobs (spec_run (c_ops c))]
  end.
